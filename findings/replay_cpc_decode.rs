// Replay of the obligations that fail in unit cpc_decode (see cpc_decode_findings.json).  Only the NEW panic sites of the table-driven
// decoder are replayed here; the obligations that restate findings already recorded for unit cpc_codec refer to the cases of replay_cpc.rs.
// Scratch crate: [dependencies] datasketches = { path = "/repo/datasketches" }; copy this file to src/main.rs; `cargo run --offline` (debug build).
// Only the public API is used (CpcSketch::deserialize, CpcWrapper::new).  No case allocates more than ~1 MiB.
// One line per case: "<tag> | <case>: image=.. wrapper=.. deserialize=.." ; PANIC(..) = the parser panicked on the image.
// Image layout (both HAS_TABLE and HAS_WINDOW, no HIP, flags 1a): preInts 6, serVer 1, family 16, lg_k, fic, flags, seedHash cc93,
//   numCoupons, numSV, svLengthInts, wLengthInts, window words, table words.  A pair in the table stream (LSB first) is
//   x_delta (length-limited unary code, <= 12 bits), y_delta_hi (unary: hi zeros then a one), y_delta_lo (num_base_bits bits).
use datasketches::cpc::{CpcSketch, CpcWrapper};
use std::panic::catch_unwind;
use std::sync::Mutex;

static LAST: Mutex<String> = Mutex::new(String::new());

fn hex(b: &[u8]) -> String { b.iter().map(|x| format!("{x:02x}")).collect() }
fn short(b: &[u8]) -> String { if b.len() <= 64 { hex(b) } else { format!("{}..({} bytes)", hex(&b[..40]), b.len()) } }
fn guarded<T: std::fmt::Debug>(f: impl FnOnce() -> T + std::panic::UnwindSafe) -> String {
    match catch_unwind(f) {
        Ok(v) => format!("{v:?}"),
        Err(_) => format!("PANIC({})", LAST.lock().unwrap().clone()),
    }
}
fn de(b: &[u8]) -> String {
    let b2 = b.to_vec();
    guarded(move || CpcSketch::deserialize(&b2).map(|s| (s.lg_k(), s.num_coupons(), s.estimate())).map_err(|e| e.to_string()))
}
fn wr(b: &[u8]) -> String {
    let b2 = b.to_vec();
    guarded(move || CpcWrapper::new(&b2).map(|w| (w.lg_k(), w.is_empty(), w.estimate())).map_err(|e| e.to_string()))
}
fn case(tags: &str, name: &str, b: &[u8]) {
    println!("{tags} | {name}: image={} wrapper={} deserialize={}", short(b), wr(b), de(b));
}
/// a bit stream written LSB first
struct Bits(Vec<u8>);
impl Bits {
    fn new() -> Self { Bits(vec![]) }
    /// `len` low bits of `code`, least significant first (how low_level_compress_pairs emits a code word)
    fn code(mut self, code: u32, len: u32) -> Self { for i in 0..len { self.0.push(((code >> i) & 1) as u8); } self }
    /// unary: `v` zeros then a one
    fn unary(mut self, v: usize) -> Self { self.0.extend(std::iter::repeat(0).take(v)); self.0.push(1); self }
    fn words(&self) -> Vec<u32> {
        let mut w = vec![0u32; self.0.len() / 32 + 2];
        for (i, &b) in self.0.iter().enumerate() { if b != 0 { w[i / 32] |= 1 << (i % 32); } }
        w
    }
}
// code words of LENGTH_LIMITED_UNARY_ENCODING_TABLE65 used below: symbol -> (code, length)
const X0: (u32, u32) = (0, 1);        // x_delta = 0
const X56: (u32, u32) = (0xeff, 12);  // x_delta = 56
const X63: (u32, u32) = (0x7ff, 12);  // x_delta = 63
const X64: (u32, u32) = (0xfff, 12);  // x_delta = 64
fn both_img(lg_k: u8, c: u32, num_sv: u32, window: &[u32], table: &[u32]) -> Vec<u8> {
    let mut v = vec![6u8, 1, 16, lg_k, 0, 0x1a, 0xcc, 0x93];
    for x in [c, num_sv, table.len() as u32, window.len() as u32] { v.extend_from_slice(&x.to_le_bytes()); }
    for x in window.iter().chain(table.iter()) { v.extend_from_slice(&x.to_le_bytes()); }
    v
}

fn main() {
    std::panic::set_hook(Box::new(|i| { *LAST.lock().unwrap() = i.to_string().replace('\n', " | "); }));

    // ---- C14.cpc.decode.pairs.row_overflow: `predicted_row_index + y_delta` (compression.rs:590) in u32, y_delta is any u32.
    // lg_k = 26, C = 2 (Sparse), numSV = 2 -> num_base_bits = 25; two pairs with y_delta = 64 << 25 = 2^31 each.
    {
        let b = Bits::new().code(X0.0, X0.1).unary(64).code(0, 25).code(X0.0, X0.1).unary(64).code(0, 25);
        case("C14.cpc.decode.pairs.row_overflow", "R lg_k=26, C=2, numSV=2, y_delta = 2^31 twice", &both_img(26, 2, 2, &[], &b.words()));
    }
    // ---- C14.cpc.decode.pairs.col_overflow: `predicted_col_index + x_delta` (compression.rs:591) in u8; x_delta = 64 four times in one row.
    // lg_k = 4, C = 1 (Sparse), numSV = 4 -> num_base_bits = 2.
    {
        let mut b = Bits::new();
        for _ in 0..4 { b = b.code(X64.0, X64.1).unary(0).code(0, 2); }
        case("C14.cpc.decode.pairs.col_overflow", "S lg_k=4, C=1, numSV=4, x_delta = 64 four times", &both_img(4, 1, 4, &[], &b.words()));
    }
    // ---- C14.cpc.decode.golomb.count_pos: numSV = 0 reaches golomb_choose_number_of_base_bits(k, 0) in the Sparse / Hybrid arms
    case("C14.cpc.decode.golomb.count_pos", "T lg_k=4, C=1 (Sparse), numSV=0, one table word", &both_img(4, 1, 0, &[], &[0]));
    case("C14.cpc.decode.golomb.count_pos", "T2 lg_k=4, C=2 (Hybrid), numSV=0, one table word", &both_img(4, 2, 0, &[], &[0]));
    // ---- C14.cpc.decode.hybrid.not_empty_marker: a decoded pair equal to u32::MAX (row 2^26 - 1, column 63) hits assert_ne!(row_col, u32::MAX).
    // lg_k = 4, C = 2 (Hybrid), numSV = 1 -> num_base_bits = 4; x_delta = 63, y_delta = 2^26 - 1 = (4194303 << 4) | 15: a 512 KiB image.
    {
        let b = Bits::new().code(X63.0, X63.1).unary((1 << 22) - 1).code(15, 4);
        case("C14.cpc.decode.hybrid.not_empty_marker", "U lg_k=4, C=2 (Hybrid), numSV=1, pair = 0xffffffff", &both_img(4, 2, 1, &[], &b.words()));
    }
    // ---- C14.cpc.decode.pinned.col_lt_56: assert!((pairs[i] & 63) < 56) in uncompress_pinned_flavor.
    // lg_k = 4, C = 8 (Pinned), 8 zero window words (16 decodable bytes), numSV = 1 -> num_base_bits = 4; pair (row 0, column 56).
    {
        let b = Bits::new().code(X56.0, X56.1).unary(0).code(0, 4);
        case("C14.cpc.decode.pinned.col_lt_56", "V lg_k=4, C=8 (Pinned), numSV=1, pair (0, 56)", &both_img(4, 8, 1, &[0; 8], &b.words()));
    }
    // ---- C14.cpc.decode.sliding.perm_index: permutation[col] with a 56-entry permutation in uncompress_sliding_flavor.
    // lg_k = 4, C = 54 (Sliding, offset 1), same window and pair.
    {
        let b = Bits::new().code(X56.0, X56.1).unary(0).code(0, 4);
        case("C14.cpc.decode.sliding.perm_index", "W lg_k=4, C=54 (Sliding), numSV=1, pair (0, 56)", &both_img(4, 54, 1, &[0; 8], &b.words()));
    }
    // ---- C14.cpc.decode.from_slots_pre in the arms that unit cpc_codec does not contain (the clauses are those of cases M, N, P of replay_cpc.rs)
    {
        // Pinned: pairs (0, 64) and (1, 0) are the same u32 (64); both pass the column assert (64 & 63 = 0) and become 72
        let b = Bits::new().code(X64.0, X64.1).unary(0).code(0, 3).code(X0.0, X0.1).unary(0).code(1, 3);
        case("C14.cpc.decode.from_slots_pre (distinct)", "X lg_k=4, C=8 (Pinned), numSV=2, pairs (0,64) and (1,0)", &both_img(4, 8, 2, &[0; 8], &b.words()));
        // Sliding: one pair in row 16 of a 16-row sketch
        let b = Bits::new().code(X0.0, X0.1).unary(1).code(0, 4);
        case("C14.cpc.decode.from_slots_pre (range)", "Y lg_k=4, C=54 (Sliding), numSV=1, pair (16, 0)", &both_img(4, 54, 1, &[0; 8], &b.words()));
        // Hybrid: one pair in row 16, column 8 (x_delta = 8 has the 10-bit code 0x03f) of a 16-row sketch
        let b = Bits::new().code(0x03f, 10).unary(1).code(0, 4);
        case("C14.cpc.decode.from_slots_pre (range)", "Z lg_k=4, C=2 (Hybrid), numSV=1, pair (16, 8)", &both_img(4, 2, 1, &[], &b.words()));
    }
}
