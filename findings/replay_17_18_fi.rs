use datasketches::frequencies::FrequentItemsSketch;
fn main() {
    // 17. empty FI sketch round trip
    let e: FrequentItemsSketch<i64> = FrequentItemsSketch::new(8);
    let img = e.serialize();
    println!("17 fi empty image: {} bytes, deserialize ok: {}", img.len(), FrequentItemsSketch::<i64>::deserialize(&img).is_ok());
    // 18. sketch whose last purge emptied the map: total weight and error must survive a round trip
    let mut f: FrequentItemsSketch<i64> = FrequentItemsSketch::new(8);
    for i in 0..7i64 { f.update_with_count(i, 5); }
    let img = f.serialize();
    match FrequentItemsSketch::<i64>::deserialize(&img) {
        Ok(d) => println!("18 fi purged-empty: original total {} max_error {} ub(0) {}; round-tripped total {} max_error {} ub(0) {}", f.total_weight(), f.maximum_error(), f.upper_bound(&0), d.total_weight(), d.maximum_error(), d.upper_bound(&0)),
        Err(e) => println!("18 fi purged-empty: original total {} max_error {}; image of {} bytes does not deserialize: {}", f.total_weight(), f.maximum_error(), img.len(), e),
    }
}
