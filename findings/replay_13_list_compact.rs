use datasketches::hll::{HllSketch, HllType};
fn main() {
    // 13. compact LIST image round trip then one more update
    for n in [1u64, 3, 5, 7] {
        let mut h = HllSketch::new(12, HllType::Hll8);
        for i in 0..n { h.update(i); }
        let mut d = HllSketch::deserialize(&h.serialize()).unwrap();
        h.update(1000u64); d.update(1000u64);
        println!("13 list round trip n={n}: original estimate {:.1}, round-tripped {:.1}", h.estimate(), d.estimate());
    }
}
