use datasketches::cpc::{CpcSketch, CpcUnion};
fn main() {
    // 15. empty CPC image round trip, then updates
    let e = CpcSketch::new(11);
    let mut d = CpcSketch::deserialize(&e.serialize()).unwrap();
    let mut f = CpcSketch::new(11);
    for i in 0..100u64 { d.update(i); f.update(i); }
    println!("15 cpc empty round trip then 100 updates: round-tripped estimate {:.2}, fresh sketch {:.2}", d.estimate(), f.estimate());
    // 16. union with no input: result marked as merged?
    let u = CpcUnion::new(11);
    let img = u.to_sketch().serialize();
    println!("16 cpc empty union to_sketch image flags byte: {:#04x} (HAS_HIP bit 2 set = not marked merged: {})", img[5], img[5] & 4 != 0);
}
