// Replay of the obligations of units bloom_codec / cm_codec that fail on /repo.  Public API only; one line per case.
// The multi-GiB allocation cases run only with REPLAY_ALLOC=1 (they reserve 16 GiB / 8 GiB of address space and abort the process
// under a memory limit, e.g. `ulimit -v 4000000`).
use datasketches::bloom::BloomFilter;
use datasketches::countmin::CountMinSketch;
use std::panic::catch_unwind;

fn hex(b: &[u8]) -> String { b.iter().map(|x| format!("{:02x}", x)).collect::<Vec<_>>().join("") }
fn vm_peak() -> String {
    std::fs::read_to_string("/proc/self/status").ok().and_then(|s| s.lines().find(|l| l.starts_with("VmPeak")).map(|l| l.split_whitespace().collect::<Vec<_>>()[1..].join(" "))).unwrap_or_default()
}
fn case(name: &str, f: impl FnOnce() -> String + std::panic::UnwindSafe) {
    match catch_unwind(f) {
        Ok(s) => println!("{name}: {s}"),
        Err(e) => println!("{name}: PANIC {}", e.downcast_ref::<String>().cloned().or_else(|| e.downcast_ref::<&str>().map(|s| s.to_string())).unwrap_or_default()),
    }
}
fn bloom_full(num_longs: i32, stored: u64, words: &[u64]) -> Vec<u8> {
    let mut img: Vec<u8> = vec![4, 1, 21, 0, 3, 0, 0, 0];
    img.extend_from_slice(&9001u64.to_le_bytes());
    img.extend_from_slice(&num_longs.to_le_bytes());
    img.extend_from_slice(&0u32.to_le_bytes());
    img.extend_from_slice(&stored.to_le_bytes());
    for w in words { img.extend_from_slice(&w.to_le_bytes()); }
    img
}
fn cm_header(flags: u8, num_buckets: u32, num_hashes: u8) -> Vec<u8> {
    let probe = CountMinSketch::<i64>::new(1, 3).serialize();      // bytes 13-14: seed hash of the default seed
    let mut img: Vec<u8> = vec![2, 1, 18, flags, 0, 0, 0, 0];
    img.extend_from_slice(&num_buckets.to_le_bytes());
    img.push(num_hashes);
    img.extend_from_slice(&probe[13..15]);
    img.push(0);
    img
}

fn main() {
    let run_alloc = std::env::var("REPLAY_ALLOC").map(|v| v == "1").unwrap_or(false);

    // C14.bloom.wf_count / C09.bloom.count_after_deserialize: stored numBitsSet trusted
    case("bloom.wf_count stored=0 over an all-ones word", || {
        let img = bloom_full(1, 0, &[u64::MAX]);
        let f = BloomFilter::deserialize(&img).expect("accepted");
        let again = f.serialize();
        let mut g = f.clone(); g.invert();
        format!("image {} -> Ok bits_used={} is_empty={} contains(\"x\")={} contains(42)={} (all 64 bits are 1); serialize() = {} bytes {}; after invert() bits_used={} (array has 0 bits)",
            hex(&img), f.bits_used(), f.is_empty(), f.contains(&"x"), f.contains(&42u64), again.len(), hex(&again), g.bits_used())
    });
    case("bloom.wf_count stored=DIRTY over the same word (recounted, for comparison)", || {
        let img = bloom_full(1, u64::MAX, &[u64::MAX]);
        let f = BloomFilter::deserialize(&img).expect("accepted");
        format!("image {} -> Ok bits_used={} contains(\"x\")={}", hex(&img), f.bits_used(), f.contains(&"x"))
    });
    case("bloom.wf_count stored=5 over an all-zero word", || {
        let img = bloom_full(1, 5, &[0]);
        let f = BloomFilter::deserialize(&img).expect("accepted");
        format!("image {} -> Ok bits_used={} is_empty={} load_factor={}", hex(&img), f.bits_used(), f.is_empty(), f.load_factor())
    });

    // C14.bloom.alloc_bounded: full image, numLongs = 2^31-1, no bit array bytes
    {
        let img = bloom_full(i32::MAX, 0, &[]);
        let req = (i32::MAX as u64) * 8;
        if run_alloc {
            case("bloom.alloc_bounded", move || {
                let before = vm_peak();
                let r = BloomFilter::deserialize(&img);
                format!("image {} ({} bytes) -> {} ; VmPeak {} -> {}", hex(&img), img.len(), match r { Ok(_) => "Ok".to_string(), Err(e) => format!("Err({e})") }, before, vm_peak())
            });
        } else {
            println!("bloom.alloc_bounded: SKIPPED (set REPLAY_ALLOC=1): image {} ({} bytes) makes deserialize request vec![0u64; {}] = {} bytes before the first array word is read", hex(&img), img.len(), i32::MAX, req);
        }
    }

    // C14.cm.alloc_bounded: full image 255 x 4210752 counters announced, only the total weight present
    {
        let mut img = cm_header(0, 4_210_752, 255);
        img.extend_from_slice(&1i64.to_le_bytes());
        let entries = 255u64 * 4_210_752;
        if run_alloc {
            case("cm.alloc_bounded", move || {
                let before = vm_peak();
                let r = CountMinSketch::<i64>::deserialize(&img);
                format!("image {} ({} bytes) -> {} ; VmPeak {} -> {}", hex(&img), img.len(), match r { Ok(_) => "Ok".to_string(), Err(e) => format!("Err({e})") }, before, vm_peak())
            });
        } else {
            println!("cm.alloc_bounded: SKIPPED (set REPLAY_ALLOC=1): image {} ({} bytes) makes CountMinSketch::<i64>::deserialize request vec![0i64; {}] = {} bytes before any counter is read", hex(&img), img.len(), entries, entries * 8);
        }
    }

    // C11.cm.wf_total_zero: full image with total weight 0 and non-zero counters
    case("cm.wf_total_zero total=0 counters 7 7 7", || {
        let mut img = cm_header(0, 3, 1);
        img.extend_from_slice(&0i64.to_le_bytes());
        for _ in 0..3 { img.extend_from_slice(&7i64.to_le_bytes()); }
        let s = CountMinSketch::<i64>::deserialize(&img).expect("accepted");
        let again = s.serialize();
        let t = CountMinSketch::<i64>::deserialize(&again).expect("accepted");
        format!("image {} -> Ok is_empty={} total_weight={} estimate(\"x\")={}; serialize() = {} bytes {}; deserialize of that: estimate(\"x\")={}",
            hex(&img), s.is_empty(), s.total_weight(), s.estimate("x"), again.len(), hex(&again), t.estimate("x"))
    });
}
