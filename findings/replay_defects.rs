
use datasketches::common::NumStdDev;
use datasketches::hll::{HllSketch, HllType, HllUnion};
use datasketches::tdigest::TDigestMut;
use datasketches::theta::{CompactThetaSketch, ThetaSketch};
use datasketches::frequencies::FrequentItemsSketch;
use datasketches::cpc::CpcSketch;
use std::panic::catch_unwind;

fn main() {
    // 1. tdigest cdf(&[])
    let r = catch_unwind(|| { let mut t = TDigestMut::new(100); t.update(1.0); t.update(2.0); t.cdf(&[]) });
    println!("1 tdigest cdf(&[]) panicked: {}", r.is_err());

    // 2. theta v2 precise
    let mut s = ThetaSketch::builder().lg_k(12).build();
    for i in 0..5u64 { s.update(i); }
    let c = s.compact(true);
    let v3 = c.serialize();
    // build a v2 image: preLongs=2, serVer=2, fam=3, then [unused u8][u16 unused][seed hash u16] ; num_entries u32 ; unused u32 ; entries
    let mut v2 = vec![2u8, 2, 3, 0, 0, 0];
    v2.extend_from_slice(&c.seed_hash().to_le_bytes());
    v2.extend_from_slice(&(c.num_retained() as u32).to_le_bytes());
    v2.extend_from_slice(&0u32.to_le_bytes());
    for h in c.iter() { v2.extend_from_slice(&h.to_le_bytes()); }
    let d = CompactThetaSketch::deserialize(&v2).unwrap();
    println!("2 theta v2 exact: retained={} is_empty={} estimate={} (v3 len {})", d.num_retained(), d.is_empty(), d.estimate(), v3.len());

    // 3. HLL compact flag on array
    let mut h = HllSketch::new(8, HllType::Hll8);
    for i in 0..5000u64 { h.update(i); }
    let mut img = h.serialize();
    let est0 = h.estimate();
    img[5] |= 8; // COMPACT
    let hc = HllSketch::deserialize(&img).unwrap();
    let back = hc.serialize();
    println!("3 hll compact-array: est before={est0:.1} after={:.1}; register bytes all zero after: {}", hc.estimate(), back[40..].iter().all(|&b| b == 0));

    // 4. HLL union of OOO Hll6
    let mut h6 = HllSketch::new(10, HllType::Hll6);
    for i in 0..50000u64 { h6.update(i); }
    let mut img6 = h6.serialize();
    img6[5] |= 16; // OOO
    let h6o = HllSketch::deserialize(&img6).unwrap();
    let mut u = HllUnion::new(12);
    u.update(&h6o);
    println!("4 union of OOO Hll6: src est={:.1}, union est={:.1}, to_sketch(Hll8) est={:.1}", h6o.estimate(), u.estimate(), u.to_sketch(HllType::Hll8).estimate());
    // 4b. to_sketch type dependence
    let mut a = HllSketch::new(10, HllType::Hll8); let mut b = HllSketch::new(10, HllType::Hll8);
    for i in 0..30000u64 { a.update(i); b.update(i + 20000); }
    let mut u2 = HllUnion::new(10); u2.update(&a); u2.update(&b);
    let s8 = u2.to_sketch(HllType::Hll8); let s6 = u2.to_sketch(HllType::Hll6);
    println!("4b to_sketch est 8/6: {:.3} {:.3}; ub2: {:.3} {:.3}", s8.estimate(), s6.estimate(), s8.upper_bound(NumStdDev::Two), s6.upper_bound(NumStdDev::Two));
    let r = catch_unwind(move || { let s4 = u2.to_sketch(HllType::Hll4); s4.estimate() });
    println!("4c to_sketch(Hll4) panicked: {} {:?}", r.is_err(), r.ok());

    // 5. FI merge with purged-empty other
    let mut f1: FrequentItemsSketch<u64> = FrequentItemsSketch::new(8);
    let mut f2: FrequentItemsSketch<u64> = FrequentItemsSketch::new(8);
    for i in 0..7u64 { f2.update_with_count(i, 5); }
    println!("5 f2: active={} total={} maxerr={}", f2.num_active_items(), f2.total_weight(), f2.maximum_error());
    f1.update_with_count(100, 3);
    f1.merge(&f2);
    println!("5 merged: total={} (expected {}), maxerr={}, ub(0)={} true(0)=5", f1.total_weight(), 3 + f2.total_weight(), f1.maximum_error(), f1.upper_bound(&0));

    // 7. CPC lg_k=21 serialize
    let r = catch_unwind(|| { let mut c = CpcSketch::new(21); for i in 0..3_000_000u64 { c.update(i); } c.serialize().len() });
    println!("7 cpc lg_k=21 serialize panicked: {} {:?}", r.is_err(), r.ok());

    // 6. Array4 shift with aux
    let r = catch_unwind(|| { let mut h = HllSketch::new(4, HllType::Hll4); for i in 0..400_000u64 { h.update(i); } h.estimate() });
    println!("6 hll4 lg_k=4 400k updates panicked: {} {:?}", r.is_err(), r.ok());

    // 8. tdigest heavy first centroid: build image: preLongs 2, serVer 1, fam 20, k u16, flags 0, unused u16; num_centroids u32, num_buffered u32, min f64, max f64, (mean f64, weight u64)*
    let mut t = vec![2u8, 1, 20]; t.extend_from_slice(&100u16.to_le_bytes()); t.push(0); t.extend_from_slice(&0u16.to_le_bytes());
    t.extend_from_slice(&2u32.to_le_bytes()); t.extend_from_slice(&0u32.to_le_bytes());
    t.extend_from_slice(&0.0f64.to_le_bytes()); t.extend_from_slice(&10.0f64.to_le_bytes());
    t.extend_from_slice(&4.0f64.to_le_bytes()); t.extend_from_slice(&50u64.to_le_bytes());
    t.extend_from_slice(&6.0f64.to_le_bytes()); t.extend_from_slice(&50u64.to_le_bytes());
    let mut td = TDigestMut::deserialize(&t, false).unwrap();
    println!("8 tdigest heavy tails: rank(2.0)={:?} quantile(0.9)={:?} max={:?}", td.rank(2.0), td.quantile(0.9), td.max_value());

    // 9. theta sampling probability tiny
    let r = catch_unwind(|| { let mut s = ThetaSketch::builder().lg_k(5).sampling_probability(1e-20).build(); s.update(1u64); s.lower_bound(NumStdDev::One) });
    println!("9 theta p=1e-20 lower_bound panicked: {}", r.is_err());
    // 10. tdigest k >= 32768
    let r = catch_unwind(|| { let mut s = TDigestMut::new(40000); for i in 0..10 { s.update(i as f64); } s.quantile(0.5) });
    println!("10 tdigest k=40000 quantile panicked: {}", r.is_err());
    // 11. tdigest unsorted means accepted
    let mut t = vec![2u8, 1, 20]; t.extend_from_slice(&100u16.to_le_bytes()); t.push(0); t.extend_from_slice(&0u16.to_le_bytes());
    t.extend_from_slice(&4u32.to_le_bytes()); t.extend_from_slice(&0u32.to_le_bytes());
    t.extend_from_slice(&0.0f64.to_le_bytes()); t.extend_from_slice(&10.0f64.to_le_bytes());
    for m in [6.0f64, 2.0, 8.0, 4.0] { t.extend_from_slice(&m.to_le_bytes()); t.extend_from_slice(&1u64.to_le_bytes()); }
    let mut td = TDigestMut::deserialize(&t, false).unwrap();
    println!("11 tdigest unsorted: rank(1)={:?} rank(3)={:?} rank(5)={:?}", td.rank(1.0), td.rank(3.0), td.rank(5.0));
    // 12. theta v4 shift overflow
    let img: Vec<u8> = [1u8,4,3,10,9,0x1e,0,0].iter().copied().chain(std::iter::repeat(0u8).take(9)).collect();
    let r = catch_unwind(move || { CompactThetaSketch::deserialize(&img).is_ok() });
    println!("12 theta v4 17-byte image panicked: {}", r.is_err());
}
