// Replay of every obligation of units td_codec / fi_codec that fails on the current /repo (findings/fi_td_codec_findings.json).
// Public API only; every case runs under catch_unwind and prints one line.  Multi-GiB allocation requests are printed, not made.
// Build: a scratch crate with `datasketches = { path = "/repo/datasketches" }` and this file as src/main.rs; `cargo run --offline`.
use datasketches::frequencies::FrequentItemsSketch;
use datasketches::tdigest::TDigestMut;
use std::panic::{catch_unwind, AssertUnwindSafe};

fn hex(b: &[u8]) -> String { b.iter().map(|x| format!("{:02x}", x)).collect::<Vec<_>>().join("") }
fn run<F: FnOnce() -> String>(id: &str, img: &[u8], f: F) {
    let shown = if img.len() <= 72 { hex(img) } else { format!("{}.. ({} bytes)", hex(&img[..40]), img.len()) };
    let r = catch_unwind(AssertUnwindSafe(f));
    println!("{:<34} image={} -> {}", id, shown, match r { Ok(s) => s, Err(e) => format!("PANIC: {}", e.downcast_ref::<String>().cloned().or(e.downcast_ref::<&str>().map(|s| s.to_string())).unwrap_or_default()) });
}
// t-digest, DataSketches double variant, preLongs = 2
fn td_multi(k: u16, flags: u8, nc: u32, nb: u32, min: f64, max: f64, cents: &[(f64, u64)], buf: &[f64]) -> Vec<u8> {
    let mut b = vec![2u8, 1, 20]; b.extend_from_slice(&k.to_le_bytes()); b.extend_from_slice(&[flags, 0, 0]);
    b.extend_from_slice(&nc.to_le_bytes()); b.extend_from_slice(&nb.to_le_bytes());
    b.extend_from_slice(&min.to_le_bytes()); b.extend_from_slice(&max.to_le_bytes());
    for (m, w) in cents { b.extend_from_slice(&m.to_le_bytes()); b.extend_from_slice(&w.to_le_bytes()); }
    for v in buf { b.extend_from_slice(&v.to_le_bytes()); }
    b
}
// t-digest, reference implementation, verbose (type 1) encoding, big endian
fn td_refv(min: f64, max: f64, k: f64, nc: u32, cents: &[(f64, f64)]) -> Vec<u8> {
    let mut b = 1u32.to_be_bytes().to_vec();
    b.extend_from_slice(&min.to_be_bytes()); b.extend_from_slice(&max.to_be_bytes()); b.extend_from_slice(&k.to_be_bytes()); b.extend_from_slice(&nc.to_be_bytes());
    for (w, m) in cents { b.extend_from_slice(&w.to_be_bytes()); b.extend_from_slice(&m.to_be_bytes()); }
    b
}
// t-digest, reference implementation, small (type 2) encoding
fn td_refs(min: f64, max: f64, k: f32, cents: &[(f32, f32)]) -> Vec<u8> {
    let mut b = 2u32.to_be_bytes().to_vec();
    b.extend_from_slice(&min.to_be_bytes()); b.extend_from_slice(&max.to_be_bytes()); b.extend_from_slice(&k.to_be_bytes());
    b.extend_from_slice(&0u32.to_be_bytes()); b.extend_from_slice(&(cents.len() as u16).to_be_bytes());
    for (w, m) in cents { b.extend_from_slice(&w.to_be_bytes()); b.extend_from_slice(&m.to_be_bytes()); }
    b
}
// frequent items (i64), preLongs = 4
fn fi_img(lg_max: u8, lg_cur: u8, n: u32, sw: u64, off: u64, rows: &[(i64, u64)]) -> Vec<u8> {
    let mut b = vec![4u8, 1, 10, lg_max, lg_cur, 0, 0, 0];
    b.extend_from_slice(&n.to_le_bytes()); b.extend_from_slice(&0u32.to_le_bytes());
    b.extend_from_slice(&sw.to_le_bytes()); b.extend_from_slice(&off.to_le_bytes());
    for r in rows { b.extend_from_slice(&r.1.to_le_bytes()); }
    for r in rows { b.extend_from_slice(&r.0.to_le_bytes()); }
    b
}
fn td(b: &[u8]) -> TDigestMut { TDigestMut::deserialize(b, false).expect("image accepted") }
fn fi(b: &[u8]) -> FrequentItemsSketch<i64> { FrequentItemsSketch::<i64>::deserialize(b).expect("image accepted") }

fn main() {
    std::panic::set_hook(Box::new(|_| {}));
    // ---------------- td_codec: allocation sized by an unvalidated count (requests printed, not made)
    let b = td_multi(100, 0, u32::MAX, 0, 0.0, 10.0, &[], &[]);
    run("td.alloc.centroids", &b, || format!("SKIPPED: deserialize would call Vec::<Centroid>::with_capacity({}) = {} bytes for a {}-byte image (abort: memory allocation failed)", u32::MAX, u32::MAX as u64 * 16, b.len()));
    let b = td_multi(100, 0, 0, u32::MAX, 0.0, 10.0, &[], &[]);
    run("td.alloc.buffer", &b, || format!("SKIPPED: deserialize would call Vec::<f64>::with_capacity({}) = {} bytes for a {}-byte image", u32::MAX, u32::MAX as u64 * 8, b.len()));
    let b = td_refv(0.0, 10.0, 100.0, u32::MAX, &[]);
    run("td.alloc.ref_verbose", &b, || format!("SKIPPED: deserialize_compat would call Vec::<Centroid>::with_capacity({}) = {} bytes for a {}-byte image", u32::MAX, u32::MAX as u64 * 16, b.len()));
    // ---------------- td_codec: weight sums
    let b = td_multi(100, 0, 2, 0, 0.0, 10.0, &[(5.0, u64::MAX), (6.0, u64::MAX)], &[]);
    run("td.weight_sum.deserialize", &b, || format!("is_ok={}", TDigestMut::deserialize(&b, false).is_ok()));
    let b = td_refv(0.0, 10.0, 100.0, 2, &[(1e30, 5.0), (1e30, 6.0)]);
    run("td.weight_sum.ref_verbose", &b, || format!("is_ok={}", TDigestMut::deserialize(&b, false).is_ok()));
    let b = td_refs(0.0, 10.0, 100.0, &[(f32::MAX, 2.0), (f32::MAX, 4.0)]);
    run("td.weight_sum.ref_small", &b, || format!("is_ok={}", TDigestMut::deserialize(&b, false).is_ok()));
    // ---------------- td_codec: Ok values that break the invariant
    let b = td_multi(100, 0, 1, 1, 0.0, 10.0, &[(5.0, u64::MAX)], &[6.0]);
    run("td.wf_total_fits", &b, || { let s = td(&b); format!("accepted; total_weight()={}", s.total_weight()) });
    let vals: Vec<f64> = (0..201).map(|i| i as f64).collect();
    let b = td_multi(10, 0, 0, 201, 0.0, 200.0, &[], &vals);
    run("td.wf_buffer_bound", &b, || { let mut s = td(&b); for i in 0..100_000 { s.update(i as f64); }
        let d = format!("{:?}", s); let n = d.split("buffer: [").nth(1).map(|t| t.split(']').next().unwrap().split(',').count()).unwrap_or(0);
        format!("accepted (k=10: buffer limit 4*50=200, image has 201); after 100000 updates the buffer holds {} values (never compressed)", n) });
    let b = td_multi(100, 0, 0, 0, 1.0, 2.0, &[], &[]);
    run("td.wf_empty", &b, || { let mut s = td(&b); let e = s.is_empty(); s.update(5.0); format!("accepted; is_empty()={} ; after update(5.0): min_value()={:?} max_value()={:?} (only 5.0 was inserted)", e, s.min_value(), s.max_value()) });
    let b = td_multi(100, 0, 1, 0, 0.0, 10.0, &[(5.0, 1)], &[]);
    run("td.wf_single", &b, || { let mut s = td(&b); let q = s.quantile(0.5); let out = s.serialize(); let mut t = td(&out);
        format!("accepted; quantile(0.5)={:?}; serialize() -> {} ; after that round trip quantile(0.5)={:?} (the value 5.0 is lost)", q, hex(&out), t.quantile(0.5)) });
    let b = td_multi(100, 0, 4, 0, 0.0, 10.0, &[(6.0, 1), (2.0, 1), (8.0, 1), (4.0, 1)], &[]);
    run("td.sorted_means", &b, || { let mut s = td(&b); format!("accepted; rank(1)={:?} rank(3)={:?} rank(5)={:?} (rank must not decrease)", s.rank(1.0), s.rank(3.0), s.rank(5.0)) });
    let b = td_multi(100, 0, 2, 0, 0.0, 10.0, &[(50.0, 3), (60.0, 3)], &[]);
    run("td.means_in_range", &b, || { let mut s = td(&b); format!("accepted; min={:?} max={:?} quantile(0.5)={:?} rank(20)={:?} (quantiles must lie in [min,max])", s.min_value(), s.max_value(), s.quantile(0.5), s.rank(20.0)) });
    // ---------------- the same through the reference (verbose) encoding
    let b = td_refv(1.0, 2.0, 100.0, 0, &[]);
    run("td.ref.wf_empty", &b, || { let mut s = td(&b); let e = s.is_empty(); s.update(5.0); format!("accepted; is_empty()={} ; after update(5.0): min_value()={:?} max_value()={:?}", e, s.min_value(), s.max_value()) });
    let b = td_refv(0.0, 10.0, 100.0, 1, &[(1.0, 5.0)]);
    run("td.ref.wf_single", &b, || { let mut s = td(&b); let q = s.quantile(0.5); let out = s.serialize(); let mut t = td(&out);
        format!("accepted; quantile(0.5)={:?}; serialize() -> {} ; after that round trip quantile(0.5)={:?}", q, hex(&out), t.quantile(0.5)) });
    let b = td_refv(0.0, 10.0, 100.0, 4, &[(1.0, 6.0), (1.0, 2.0), (1.0, 8.0), (1.0, 4.0)]);
    run("td.ref.sorted_means", &b, || { let mut s = td(&b); format!("accepted; rank(1)={:?} rank(3)={:?} rank(5)={:?}", s.rank(1.0), s.rank(3.0), s.rank(5.0)) });
    let b = td_refv(0.0, 10.0, 100.0, 2, &[(3.0, 50.0), (3.0, 60.0)]);
    run("td.ref.means_in_range", &b, || { let mut s = td(&b); format!("accepted; min={:?} max={:?} quantile(0.5)={:?}", s.min_value(), s.max_value(), s.quantile(0.5)) });
    // ---------------- fi_codec
    let b = fi_img(3, 3, u32::MAX, 10, 0, &[]);
    run("fi.alloc", &b, || format!("SKIPPED: deserialize would call Vec::<u64>::with_capacity({}) = {} bytes for a {}-byte image", u32::MAX, u32::MAX as u64 * 8, b.len()));
    let b = vec![1u8, 1, 10, 200, 100, 5, 0, 0];
    run("fi.lg_range", &b, || format!("is_ok={}", FrequentItemsSketch::<i64>::deserialize(&b).is_ok()));
    let b = vec![1u8, 1, 10, 45, 45, 5, 0, 0];
    run("fi.lg_range.alloc", &b, || format!("SKIPPED: lg_cur=45 passes `lg_cur <= lg_max`; with_lg_map_sizes would allocate a map of 2^45 slots for this {}-byte image", b.len()));
    let b = fi_img(3, 3, 2, 10, 0, &[(1, u64::MAX), (2, u64::MAX)]);
    run("fi.weight_sum", &b, || format!("is_ok={}", FrequentItemsSketch::<i64>::deserialize(&b).is_ok()));
    let b = fi_img(3, 3, 1, 10, u64::MAX, &[(1, 7)]);
    run("fi.wf_weights.offset", &b, || { let s = fi(&b); format!("accepted; upper_bound(1)={}", s.upper_bound(&1)) });
    let b = fi_img(3, 3, 2, 1, 0, &[(1, 7), (2, 9)]);
    run("fi.wf_weights.stream_weight", &b, || { let s = fi(&b); format!("accepted; total_weight()={} but lower_bound(2)={} (a count above the total weight)", s.total_weight(), s.lower_bound(&2)) });
    // ---------------- fixed since the first run (7089c46, 884c072): now round trips
    let s = FrequentItemsSketch::<i64>::new(8); let b = s.serialize();
    run("fi.fixed.empty_image", &b, || format!("{} bytes; deserialize -> {:?}", b.len(), FrequentItemsSketch::<i64>::deserialize(&b).map(|d| d.total_weight()).map_err(|e| e.to_string())));
    let mut s = FrequentItemsSketch::<i64>::new(8); for i in 0..7 { s.update_with_count(i, 5); } let b = s.serialize();
    run("fi.fixed.purged_empty", &b, || { let d = fi(&b); format!("before: active={} total_weight={} max_error={} ; after round trip: active={} total_weight={} max_error={}",
        s.num_active_items(), s.total_weight(), s.maximum_error(), d.num_active_items(), d.total_weight(), d.maximum_error()) });
}
