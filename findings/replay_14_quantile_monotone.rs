use datasketches::tdigest::TDigestMut;
fn main() {
    // 14. quantile monotonicity on a streamed digest (no deserialization involved)
    for k in [10u16, 50, 200] {
        let mut t = TDigestMut::new(k);
        let mut x: u64 = 12345;
        for _ in 0..100_000 { x = x.wrapping_mul(6364136223846793005).wrapping_add(1442695040888963407); t.update((x >> 11) as f64 / (1u64 << 53) as f64); }
        let mut descents = 0; let mut worst = 0.0f64; let mut prev = t.quantile(0.0).unwrap();
        let mut maxerr = 0.0f64;
        for i in 1..=10_000 { let q = i as f64 / 10_000.0; let v = t.quantile(q).unwrap(); if v < prev { descents += 1; worst = worst.max(prev - v); } prev = v; maxerr = maxerr.max((v - q).abs()); }
        println!("14 k={k}: quantile descents on a 10000-point grid: {descents}, largest drop {worst:.6}, max |quantile(q) - q| (uniform data) {maxerr:.6}");
    }
}
