// Replay of the obligations that fail in units theta_codec / theta_builder (see theta_findings.json).
// Scratch crate: [dependencies] datasketches = { path = "/repo/datasketches" }; copy this file to src/main.rs; `cargo run --offline` (debug build).
// Only the public API is used.  One line per case, prefixed by the finding id (= tag; a panic message line precedes it); "DEFECT" = the input was accepted and the misbehaviour was observed.
// The two allocation findings are NOT executed (they would reserve 2 GiB / 8 TiB); the line states what would be requested.
use datasketches::common::NumStdDev;
use datasketches::theta::{CompactThetaSketch, ThetaSketch};
use std::panic::catch_unwind;

const SH: [u8; 2] = [0xcc, 0x93]; // seed hash of DEFAULT_UPDATE_SEED, little endian
const MAX_THETA: u64 = i64::MAX as u64;

fn cat(parts: &[&[u8]]) -> Vec<u8> { parts.iter().flat_map(|p| p.iter().copied()).collect() }
fn hex(b: &[u8]) -> String { b.iter().map(|x| format!("{x:02x}")).collect::<Vec<_>>().join(" ") }
fn line<T: std::fmt::Debug>(id: &str, what: &str, r: std::thread::Result<T>) {
    match r {
        Err(_) => println!("{id}: DEFECT panicked -- {what}"),
        Ok(v) => println!("{id}: DEFECT returned {v:?} -- {what}"),
    }
}
/// image accepted, then estimate / lower_bound on it
fn theta_zero(id: &str, img: Vec<u8>) {
    let s = CompactThetaSketch::deserialize(&img).expect("accepted");
    let what = format!("image [{}] (theta = 0): deserialize Ok with theta64 = {}, estimate() = {}, then lower_bound(One)", hex(&img), s.theta64(), s.estimate());
    line(id, &what, catch_unwind(|| s.lower_bound(NumStdDev::One)));
}
/// image accepted with is_ordered() although entries are not strictly ascending, then serialize_compressed
fn unsorted(id: &str, img: Vec<u8>) {
    let s = CompactThetaSketch::deserialize(&img).expect("accepted");
    let what = format!("image [{}]: deserialize Ok with is_ordered = {}, entries = {:?}, then serialize_compressed()", hex(&img), s.is_ordered(), s.iter().collect::<Vec<_>>());
    line(id, &what, catch_unwind(|| s.serialize_compressed().len()));
}

fn main() {
    std::panic::set_hook(Box::new(|i| { println!("    panic: {}", i.to_string().replace('\n', " | ")); }));
    let z4 = [0u8; 4]; let z8 = [0u8; 8];

    // ---- unit theta_codec, fn CompactThetaSketch::deserialize: no parser validates 0 < theta <= MAX_THETA
    theta_zero("C14.theta.v1_theta_range", cat(&[&[3, 1, 3, 0], &z4, &z4, &z4, &z8]));
    theta_zero("C14.theta.v2_theta_range", cat(&[&[3, 2, 3, 0, 0, 0], &SH, &z4, &z4, &z8]));
    theta_zero("C14.theta.v3_theta_range", cat(&[&[3, 3, 3, 0, 0, 0x1a], &SH, &z4, &z4, &z8]));
    theta_zero("C14.theta_v4.theta_range", cat(&[&[2, 4, 3, 8, 0, 0x1a], &SH, &z8]));

    // ---- no parser checks that an image flagged (or implied) ordered is strictly ascending
    let e95 = cat(&[&9u64.to_le_bytes(), &5u64.to_le_bytes()]);
    unsorted("C14.theta.v1_sorted", cat(&[&[3, 1, 3, 0], &z4, &[2, 0, 0, 0], &z4, &MAX_THETA.to_le_bytes(), &e95]));
    unsorted("C14.theta.v2_sorted", cat(&[&[2, 2, 3, 0, 0, 0], &SH, &[2, 0, 0, 0], &z4, &e95]));
    unsorted("C14.theta.v3_sorted", cat(&[&[2, 3, 3, 0, 0, 0x1a], &SH, &[2, 0, 0, 0], &z4, &e95]));
    {   // v4: deltas are unsigned, so the only violation is a zero delta = duplicate retained hash
        let img = vec![1u8, 4, 3, 8, 1, 0x1a, SH[0], SH[1], 2, 5, 0];
        let s = CompactThetaSketch::deserialize(&img).expect("accepted");
        println!("C14.theta_v4.sorted: DEFECT returned (is_ordered, entries, estimate) = ({}, {:?}, {}) -- image [{}] (deltas 5, 0): duplicate hash retained, distinct count 1 reported as 2",
                 s.is_ordered(), s.iter().collect::<Vec<_>>(), s.estimate(), hex(&img));
    }
    {   // v4 ignores the EMPTY flag when reading entries
        let img = [1u8, 4, 3, 8, 1, 0x1e, 0, 0, 1, 5];
        let s = CompactThetaSketch::deserialize(&img).expect("accepted");
        println!("C14.theta_v4.empty_consistent: DEFECT returned (is_empty, num_retained, estimate) = ({}, {}, {}) -- image [{}] (EMPTY flag + one entry)",
                 s.is_empty(), s.num_retained(), s.estimate(), hex(&img));
    }

    // ---- fn CompactThetaSketch::deserialize_v4: unchecked header fields
    let img = cat(&[&[1, 4, 3, 10, 9, 0x1e, 0, 0], &[0u8; 9]]);
    line("C14.theta_v4.shift", &format!("image [{}] (numEntriesBytes = 9): deserialize", hex(&img)), catch_unwind(|| CompactThetaSketch::deserialize(&img).is_ok()));
    let img = [1u8, 4, 3, 8, 6, 0x1e, 0, 0, 0, 0, 0, 0, 0, 1];
    println!("C14.theta_v4.alloc: NOT EXECUTED -- 14-byte image [{}] (numEntriesBytes = 6, count bytes 00 00 00 00 00 01): deserialize_v4 would run vec![0u64; {}] = {} GiB before reading any entry",
             hex(&img), 1u64 << 40, (8u64 << 40) >> 30);
    let img = cat(&[&[1, 4, 3, 64, 1, 0x1e, 0, 0, 8], &[1u8; 64]]);
    line("C14.theta_v4.entry_bits", &format!("image [01 04 03 40 01 1e 00 00 08] + 64 x 01 (entryBits = 64, {} bytes): deserialize", img.len()), catch_unwind(|| CompactThetaSketch::deserialize(&img).is_ok()));
    let img = [1u8, 4, 3, 0, 1, 0x1e, 0, 0, 8];
    line("C14.theta_v4.entry_bits", &format!("image [{}] (entryBits = 0): deserialize", hex(&img)), catch_unwind(|| CompactThetaSketch::deserialize(&img).is_ok()));
    let img = cat(&[&[2, 4, 3, 63, 1, 0x1e, 0, 0], &[0xffu8; 8], &[3], &[0xffu8; 24]]);
    line("C14.theta_v4.delta_overflow", "image [02 04 03 3f 01 1e 00 00] + 8 x ff (theta) + [03] + 24 x ff (three 63-bit deltas of all ones): deserialize", catch_unwind(|| CompactThetaSketch::deserialize(&img).is_ok()));

    // ---- fn CompactThetaSketch::read_entries (v1/v2/v3): capacity taken from the image
    let img = cat(&[&[2, 3, 3, 0, 0, 0x1a], &SH, &[0xff, 0xff, 0xff, 0x0f], &z4]);
    println!("C14.theta.alloc_entries: NOT EXECUTED -- 16-byte image [{}] (curCount = 0x0fffffff, no entries follow): read_entries would run Vec::<u64>::with_capacity({}) = {} MiB, then fail on the first read; with count ff ff ff ff: {} GiB",
             hex(&img), 0x0fff_ffffu64, (0x0fff_ffffu64 * 8) >> 20, (0xffff_ffffu64 * 8) >> 30);

    // ---- unit theta_builder
    let s = ThetaSketch::builder().lg_k(5).sampling_probability(1e-20).build();
    line("C01.theta.theta0_pos", &format!("builder().lg_k(5).sampling_probability(1e-20) (inside the documented (0,1]).build(): theta64 = {}, then lower_bound(One)", s.theta64()), catch_unwind(|| s.lower_bound(NumStdDev::One)));
    let mut t = ThetaSketch::builder().lg_k(5).sampling_probability(1e-9).build();
    for i in 0..1000u64 { t.update(i); }
    println!("C01.theta.empty_after_update: DEFECT returned (is_empty, num_retained, estimate, upper_bound(Three)) = ({}, {}, {}, {}) -- builder().lg_k(5).sampling_probability(1e-9), 1000 distinct updates",
             t.is_empty(), t.num_retained(), t.estimate(), t.upper_bound(NumStdDev::Three));
}
