// Replay of the obligations that fail in units hll_codec8 / hll_codec_coupons (see hll_codec_findings.json).
// Scratch crate: [dependencies] datasketches = { path = "/repo/datasketches" }; copy this file to src/main.rs; `cargo run --offline` (debug build).
// Only the public API is used.  One line per finding id; "DEFECT" = the malformed image was accepted and the misbehaviour was observed.
use datasketches::hll::{HllSketch, HllType, HllUnion};
use std::panic::catch_unwind;

/// HLL-mode image: 8-byte preamble, hip=0, kxq0, kxq1=0, curMinCount, auxCount=0, register bytes
fn arr_img(lg_k: u8, flags: u8, tgt: u8, kxq0: f64, num_zeros: u32, regs: &[u8]) -> Vec<u8> {
    let mut v = vec![10u8, 1, 7, lg_k, 0, flags, 0, 2 | (tgt << 2)];
    v.extend_from_slice(&0f64.to_le_bytes());
    v.extend_from_slice(&kxq0.to_le_bytes());
    v.extend_from_slice(&0f64.to_le_bytes());
    v.extend_from_slice(&num_zeros.to_le_bytes());
    v.extend_from_slice(&0u32.to_le_bytes());
    v.extend_from_slice(regs);
    v
}
fn coupon(i: u32) -> u32 { (1u32 << 26) | (i * 37 + 1) }
fn line<T: std::fmt::Debug>(id: &str, what: &str, r: std::thread::Result<T>) {
    match r {
        Err(_) => println!("{id}: DEFECT panicked -- {what}"),
        Ok(v) => println!("{id}: returned {v:?} -- {what}"),
    }
}

fn main() {
    std::panic::set_hook(Box::new(|i| { println!("    panic: {}", i.to_string().replace('\n', " | ")); }));

    // C14.hll8.wf_num_zeros (a): Hll8 lg_k=4, num_zeros field 0 while all 16 registers are 0
    let a = arr_img(4, 0, 2, 16.0, 0, &[0u8; 16]);
    line("hll8.wf_num_zeros/update", "Hll8 image, num_zeros=0 with 16 zero registers: deserialize Ok, update(1)",
         catch_unwind(|| { let mut s = HllSketch::deserialize(&a).expect("accepted"); s.update(1u64); s.estimate() }));
    // (b): OOO flag, num_zeros = 0xffffffff: estimate -> get_bitmap_estimate k - num_unhit
    let a2 = arr_img(4, 16, 2, 16.0, 0xffff_ffff, &[0u8; 16]);
    line("hll8.wf_num_zeros/estimate", "Hll8 OOO image, num_zeros=0xffffffff: deserialize Ok, estimate()",
         catch_unwind(|| HllSketch::deserialize(&a2).expect("accepted").estimate()));

    // C14.hll8.wf_reg_range: register byte 200, then a union (rebuild_cached_values: 1u64 << val)
    let mut regs = [0u8; 16]; regs[0] = 200;
    let b = arr_img(4, 0, 2, 15.0, 15, &regs);
    line("hll8.wf_reg_range", "Hll8 image with register byte 200: deserialize Ok, HllUnion::update(&it)",
         catch_unwind(|| {
             let s = HllSketch::deserialize(&b).expect("accepted");
             let mut u = HllUnion::new(4);
             let mut t = HllSketch::new(4, HllType::Hll8);
             for i in 0..200u64 { t.update(i); }
             u.update(&t); u.update(&s);
             u.to_sketch(HllType::Hll8).estimate()
         }));

    // C14.hll6.wf_num_zeros
    let c = arr_img(4, 0, 1, 16.0, 0, &[0u8; 13]);
    line("hll6.wf_num_zeros", "Hll6 image, num_zeros=0 with 16 zero registers: deserialize Ok, update(1)",
         catch_unwind(|| { let mut s = HllSketch::deserialize(&c).expect("accepted"); s.update(1u64); s.estimate() }));

    // List: `1 << lg_arr` with lg_arr = 64
    let d = vec![2u8, 1, 7, 4, 64, 8, 0, 0];
    line("list.shift", "LIST image [2,1,7,4,64,8,0,0] (lg_arr=64): deserialize",
         catch_unwind(|| HllSketch::deserialize(&d).map(|s| s.estimate()).is_ok()));
    // List: allocation not bounded: lg_arr = 40 would allocate 4 TiB (not run: aborts the process). lg_arr = 28 (1 GiB) is run instead.
    let k = vec![2u8, 1, 7, 4, 28, 8 | 4, 0, 0];
    line("list.alloc_bounded", "8-byte LIST image with lg_arr=28: deserialize allocates 2^28 u32 slots (1 GiB) for an empty list; reserialized length",
         catch_unwind(|| HllSketch::deserialize(&k).map(|s| s.serialize().len()).ok()));
    // List: wf_lg: lg_arr=20 (> lg_k - 3) accepted and carried
    let l = vec![2u8, 1, 7, 12, 20, 4 | 8, 0, 2 << 2];
    line("list.wf_lg", "LIST image lg_k=12 lg_arr=20 count=0: accepted; lg_arr byte of the reserialized image",
         catch_unwind(|| HllSketch::deserialize(&l).map(|s| s.serialize()[4]).ok()));
    // List: wf_len: count=5 with EMPTY flag
    let i = vec![2u8, 1, 7, 12, 3, 4 | 8, 5, 2 << 2];
    line("list.wf_len", "LIST image count=5 with EMPTY flag and no coupons: (estimate, reserialized length)",
         catch_unwind(|| HllSketch::deserialize(&i).map(|s| (s.estimate(), s.serialize().len())).ok()));

    // Set: `1 << lg_arr` with lg_arr = 200 (non-compact)
    let e = vec![3u8, 1, 7, 4, 200, 0, 0, 1, 1, 0, 0, 0, 1, 0, 0, 4];
    line("set.shift", "SET non-compact image lg_arr=200: deserialize",
         catch_unwind(|| HllSketch::deserialize(&e).map(|s| s.estimate()).is_ok()));
    // Set: lg_arr_range: compact, lg_arr = 64 -> HashSet::new(64) -> Container::new: 1 << 64
    let e2 = vec![3u8, 1, 7, 4, 64, 8, 0, 1, 0, 0, 0, 0];
    line("set.lg_arr_range", "SET compact image lg_arr=64 count=0: deserialize (HashSet::new(lg_arr))",
         catch_unwind(|| HllSketch::deserialize(&e2).map(|s| s.estimate()).is_ok()));
    // Set: alloc_bounded: non-compact lg_arr = 28, 12-byte image
    let e3 = vec![3u8, 1, 7, 4, 28, 0, 0, 1, 0, 0, 0, 0];
    line("set.alloc_bounded", "12-byte SET non-compact image lg_arr=28: allocates 1 GiB before noticing the truncation",
         catch_unwind(|| HllSketch::deserialize(&e3).map(|s| s.estimate()).is_ok()));
    // Set: table_full: compact, lg_arr=1 (2 slots), 3 coupons
    let mut f = vec![3u8, 1, 7, 4, 1, 8, 0, 1, 3, 0, 0, 0];
    for c in 0..3 { f.extend_from_slice(&coupon(c).to_le_bytes()); }
    line("set.table_full", "SET compact image lg_arr=1 with 3 coupons: deserialize",
         catch_unwind(|| HllSketch::deserialize(&f).map(|s| s.estimate()).is_ok()));
    // Set: wf_load: compact, lg_arr=5 (32 slots), 32 coupons: accepted with a full table, next update panics
    let mut h = vec![3u8, 1, 7, 12, 5, 8, 0, 1 | (2 << 2), 32, 0, 0, 0];
    for c in 0..32 { h.extend_from_slice(&coupon(c).to_le_bytes()); }
    line("set.wf_load", "SET compact image lg_arr=5 with 32 coupons: deserialize Ok, update(12345)",
         catch_unwind(|| { let mut s = HllSketch::deserialize(&h).expect("accepted"); s.update(12345u64); s.estimate() }));
    // Set: wf_len (a): compact, one coupon word = 0
    let j = vec![3u8, 1, 7, 12, 5, 8, 0, 1 | (2 << 2), 1, 0, 0, 0, 0, 0, 0, 0];
    line("set.wf_len/zero_coupon", "SET compact image whose single coupon word is 0: (estimate, reserialized length: 12 = no coupon stored)",
         catch_unwind(|| HllSketch::deserialize(&j).map(|s| (s.estimate(), s.serialize().len())).ok()));
    // (b): non-compact, count field 1_000_000 over an all-empty 32-slot table
    let mut m = vec![3u8, 1, 7, 12, 5, 0, 0, 1 | (2 << 2)]; m.extend_from_slice(&1_000_000u32.to_le_bytes()); m.extend_from_slice(&[0u8; 128]);
    line("set.wf_len/count_field", "SET non-compact image, count=1000000, all 32 slots empty: (estimate, estimate after one update)",
         catch_unwind(|| { let mut s = HllSketch::deserialize(&m).expect("accepted"); let e = s.estimate(); s.update(1u64); (e, s.estimate()) }));
    // Set: wf_lg: non-compact lg_arr = 20 with lg_k = 12 (valid tables have lg_arr <= lg_k - 3)
    let mut n = vec![3u8, 1, 7, 12, 20, 0, 0, 1 | (2 << 2), 0, 0, 0, 0]; n.extend(std::iter::repeat(0u8).take(4 << 20));
    line("set.wf_lg", "SET non-compact image lg_k=12 lg_arr=20 (4 MiB empty table): accepted; lg_arr byte after 100 updates",
         catch_unwind(|| HllSketch::deserialize(&n).map(|mut s| { for x in 0..100u64 { s.update(x); } s.serialize()[4] }).ok()));

    // Fixed by 1ab3559 (kept as a regression line): round trip of a LIST sketch, then one more update
    let mut s = HllSketch::new(12, HllType::Hll8);
    for x in 0..3u64 { s.update(x); }
    let mut rt = HllSketch::deserialize(&s.serialize()).unwrap();
    s.update(1000u64); rt.update(1000u64);
    println!("list.wf_capacity (fixed): after round trip + one update: original {:.3}, round-tripped {:.3}", s.estimate(), rt.estimate());
}
