// Replay of the obligations that fail in unit cpc_codec (see cpc_findings.json; cpc_union2 has no failing obligation left).
// Scratch crate: [dependencies] datasketches = { path = "/repo/datasketches" }; copy this file to src/main.rs; `cargo run --offline` (debug build).
// Only the public API is used (CpcSketch::{new, update, serialize, deserialize, estimate, num_coupons, validate}, CpcWrapper::new).
// One line per case: "<tag(s)> <case>: wrapper=.. deserialize=.." ; PANIC(..) = the parser (or a later call) panicked on the image.
// Seed-hash bytes of the default seed are cc 93.  Flags: 02 COMPRESSED, 04 HAS_HIP, 08 HAS_TABLE, 10 HAS_WINDOW.
use datasketches::cpc::{CpcSketch, CpcWrapper};
use std::panic::catch_unwind;
use std::sync::Mutex;

static LAST: Mutex<String> = Mutex::new(String::new());

fn hx(s: &str) -> Vec<u8> {
    let s: String = s.chars().filter(|c| !c.is_whitespace()).collect();
    (0..s.len()).step_by(2).map(|i| u8::from_str_radix(&s[i..i + 2], 16).unwrap()).collect()
}
fn hex(b: &[u8]) -> String { b.iter().map(|x| format!("{x:02x}")).collect() }
fn short(b: &[u8]) -> String { if b.len() <= 48 { hex(b) } else { format!("{}..({} bytes)", hex(&b[..32]), b.len()) } }
/// run f, return Ok(debug string) or Err(panic message)
fn guarded<T: std::fmt::Debug>(f: impl FnOnce() -> T + std::panic::UnwindSafe) -> String {
    match catch_unwind(f) {
        Ok(v) => format!("{v:?}"),
        Err(_) => format!("PANIC({})", LAST.lock().unwrap().clone()),
    }
}
fn de(b: &[u8]) -> String {
    let b2 = b.to_vec();
    guarded(move || CpcSketch::deserialize(&b2).map(|s| (s.lg_k(), s.num_coupons(), s.estimate())).map_err(|e| e.to_string()))
}
fn wr(b: &[u8]) -> String {
    let b2 = b.to_vec();
    guarded(move || CpcWrapper::new(&b2).map(|w| (w.lg_k(), w.is_empty(), w.estimate())).map_err(|e| e.to_string()))
}
fn case(tags: &str, name: &str, b: &[u8]) {
    println!("{tags} | {name}: image={} wrapper={} deserialize={}", short(b), wr(b), de(b));
}
/// table words from a bit string written LSB first
fn words(bits: &[u8]) -> Vec<u32> {
    let mut w = vec![0u32; bits.len() / 32 + 2];
    for (i, &b) in bits.iter().enumerate() { if b != 0 { w[i / 32] |= 1 << (i % 32); } }
    w
}
/// image with both HAS_TABLE and HAS_WINDOW (no HIP): preInts 6, numCoupons, numSV, svLengthInts, wLengthInts, window words, table words
fn both_img(lg_k: u8, c: u32, num_sv: u32, window: &[u32], table: &[u32]) -> Vec<u8> {
    let mut v = vec![6u8, 1, 16, lg_k, 0, 0x1a, 0xcc, 0x93];
    for x in [c, num_sv, table.len() as u32, window.len() as u32] { v.extend_from_slice(&x.to_le_bytes()); }
    for x in window.iter().chain(table.iter()) { v.extend_from_slice(&x.to_le_bytes()); }
    v
}

fn main() {
    std::panic::set_hook(Box::new(|i| { *LAST.lock().unwrap() = i.to_string().replace('\n', " | "); }));

    // ---- C13.cpc.nonempty_flags / C13.cpc.wrapper.nonempty_flags: HAS_TABLE with numCoupons = 0, preInts = 2, trailing garbage: accepted as EMPTY
    case("C13.cpc.nonempty_flags, C13.cpc.wrapper.nonempty_flags", "A table flag, C=0", &hx("0201100b000acc93 00000000 03000000 efbeaddeefbeaddeefbeadde"));

    // ---- C14.cpc.uncompress.pre (real call site sketch.rs:634) / C14.cpc.uncompress.flags_vs_flavor: flags disagree with the flavor of (lg_k, C)
    case("C14.cpc.uncompress.pre, C14.cpc.uncompress.flags_vs_flavor", "B table flag, 0 table words, C=1 (Sparse)", &hx("0401100b000acc93 01000000 00000000"));
    case("C14.cpc.uncompress.flags_vs_flavor", "C window flag, 0 window words, C=1024 (Pinned)", &hx("0401100b0012cc93 00040000 00000000"));
    case("C14.cpc.uncompress.flags_vs_flavor", "D window flag only, C=1 (Sparse)", &hx("0401100b0012cc93 01000000 01000000 00000000"));
    case("C14.cpc.uncompress.flags_vs_flavor (bits.fill_in_bounds, unary_terminates)", "H table of one zero word, C=1", &hx("0401100b000acc93 01000000 01000000 00000000"));

    // ---- C14.cpc.uncompress.alloc_pairs: vec![0; numSV] is sized by the numSV field, not by the data
    case("C14.cpc.uncompress.alloc_pairs", "L sparse, both flags, wLengthInts=0, numSV=2^28, 1 table word (requests 1 GiB zeroed, then index panic)", &both_img(11, 1, 1 << 28, &[], &[1]));
    println!("C14.cpc.uncompress.alloc_pairs | F SKIPPED: genuine lg_k=11 3000-item image (flags 1e) with numSV (bytes 12..16) = 2^28 would request vec![0u32; 2^28] = 1 GiB before failing with index out of bounds");
    // ---- C14.cpc.uncompress.pairs_u32 / C14.cpc.usv.pairs_u32 / C14.cpc.from_slots.fits (4 * num_items in u32): need numSV >= 2^30
    println!("C14.cpc.uncompress.pairs_u32, C14.cpc.usv.pairs_u32 | SKIPPED: image L with numSV = 0xfffffff0 would request vec![0u32; 0xfffffff0] = 16 GiB, then `k + num_pairs` (compression.rs:513) wraps in u32");
    println!("C14.cpc.from_slots.fits (u32 conjunct) | SKIPPED: numSV >= 2^30 would request >= 4 GiB, then `UPSIZE_DENOMINATOR * num_items` (pair_table.rs:57) wraps in u32");
    // C14.cpc.from_slots.fits (table-size conjunct): 1000 decodable pairs at lg_k = 4 -> from_slots wants a 2^11-slot table for 10 valid bits
    {
        let mut bits = vec![];
        for _ in 0..1000 { bits.extend_from_slice(&[0, 0, 1]); } // x_delta = 0 (code '0'), y_delta = 1 (unary '01'), 0 base bits: rows 1..=1000, col 0
        case("C14.cpc.from_slots.fits, C14.cpc.uncompress.alloc_pairs", "N lg_k=4, C=1, numSV=1000, 1000 well-formed pairs", &both_img(4, 1, 1000, &[], &words(&bits)));
    }

    // ---- C14.cpc.uncompress.window_bits: the window is sized by lg_k alone; a 20-byte image requests 64 MiB, then the decoder runs off the data
    case("C14.cpc.uncompress.window_bits", "J lg_k=26, C=2^25 (Pinned), 1 window word", &hx("0401101a0012cc93 00000002 01000000 00000000"));

    // ---- C14.cpc.uncompress.offset: Sliding flavor with C >= 59.375 K: assert!(offset <= 56)
    case("C14.cpc.uncompress.offset", "O lg_k=4, C=2^20, both flags, 1 pair", &both_img(4, 1 << 20, 1, &[0; 8], &[0xffff_ffff, 0]));

    // ---- C14.cpc.wf.offset / wf.thresholds / wf.window_cols: same counts, window only: accepted, window_offset = 253
    {
        let mut e = hx("040110040012cc93 00001000 08000000"); e.extend_from_slice(&[0u8; 32]);
        case("C14.cpc.wf.offset, C14.cpc.wf.thresholds, C14.cpc.wf.window_cols", "E lg_k=4, C=2^20 (64 K bits exist), window only", &e);
        let e2 = e.clone();
        println!("C14.cpc.wf.offset | E then 1000 updates: {}", guarded(move || { let mut s = CpcSketch::deserialize(&e2).unwrap(); for i in 0..1000u64 { s.update(&i); } s.estimate() }));
    }

    // ---- C14.cpc.from_slots.range: decoded row >= k: one-bit flip of a genuine 1-item lg_k=4 image
    case("C14.cpc.from_slots.range", "M genuine 1-item image, one bit flipped in the table word", &hx("08011004000ecc93 01000000 01000000 0000000000002f40 000000202000f03f 2c000000"));
    case("C14.cpc.from_slots.range (hybrid window[row])", "I lg_k=4, C=2 (Hybrid), crafted table word", &hx("04011004000acc93 02000000 02000000 01f0ffff ffffffff"));

    // ---- C14.cpc.from_slots.distinct: x_delta = 64 (code 0xfff) gives row_col (0 << 6) | 64 == (1 << 6) | 0; the next pair (row 1, col 0) is a duplicate.
    {
        let mut bits = vec![1u8; 12];                    // pair 1: x_delta = 64
        bits.extend_from_slice(&[1, 0, 0, 0]);           //         unary '1' (y_hi = 0), 3 base bits 000 -> row 0, col 64
        bits.extend_from_slice(&[0, 1, 1, 0, 0]);        // pair 2: x_delta = 0, y_hi = 0, base bits 001 -> y_delta = 1 -> row 1, col 0
        case("C14.cpc.from_slots.distinct", "P lg_k=4, C=1, numSV=2, pairs (0,64) and (1,0)", &both_img(4, 1, 2, &[], &words(&bits)));
    }

    // ---- C14.cpc.wf.sparse_count: Sparse image whose numSV differs from numCoupons (both flags, wLengthInts = 0): accepted, 2 table items for C = 1
    {
        let img = both_img(4, 1, 2, &[], &words(&[0, 1, 0, 0, 0, 0, 1, 1, 0, 0])); // pairs (0,0) and (1,0)
        case("C14.cpc.wf.sparse_count", "Q lg_k=4, C=1, numSV=2", &img);
        println!("C14.cpc.wf.sparse_count | Q validate(): {}", guarded(move || { let s = CpcSketch::deserialize(&img).unwrap(); (s.num_coupons(), s.validate()) }));
    }

    // ---- C14.cpc.wf.fic: first_interesting_column is only range-checked: genuine 3-item lg_k=4 image with byte 4 := 63
    {
        let mut g = CpcSketch::new(4); for i in 0..3u64 { g.update(&i); }
        let mut img = g.serialize(); img[4] = 63;
        case("C14.cpc.wf.fic", "K genuine 3-item image, fic=63", &img);
        let r = guarded(move || { let mut k = CpcSketch::deserialize(&img).unwrap(); for i in 0..2000u64 { k.update(&i); g.update(&i); } (k.estimate(), g.estimate()) });
        println!("C14.cpc.wf.fic | K after 2000 more updates (tampered estimate, genuine estimate): {r}");
    }

    // ---- fixed in /repo (b2cb011, acf70ef): kept as regression lines
    {
        let img = CpcSketch::new(11).serialize();
        let r = guarded(move || { let mut s = CpcSketch::deserialize(&img).unwrap(); for i in 0..100u64 { s.update(&i); } s.estimate() });
        println!("FIXED C11.cpc.empty_kxp | deserialize(serialize(new(11))) + 100 updates: estimate={r} (was inf)");
        let u = datasketches::cpc::CpcUnion::new(11).to_sketch().serialize();
        println!("FIXED C06.to_sketch.merge_flag | CpcUnion::new(11).to_sketch().serialize()={} flags={:#04x} (was 0x06: HAS_HIP set)", hex(&u), u[5]);
    }
}
