use datasketches::countmin::CountMinSketch;
use std::panic::catch_unwind;
fn main() {
    // 19. Count-Min upper_bound overflows the counter type although the total weight fits it
    let r = catch_unwind(|| { let mut s = CountMinSketch::<u8>::new(1, 3); s.update_with_weight("a", 200); (s.estimate("a"), s.total_weight(), s.upper_bound("a")) });
    println!("19 countmin u8 new(1,3), update_with_weight(\"a\",200): {:?}", r.map_err(|_| "panicked (attempt to add with overflow)"));
}
