// Replay of the obligations that fail in unit hll_codec4 (see hll_codec4_findings.json).
// Scratch crate: [dependencies] datasketches = { path = "/repo/datasketches" }; copy this file to src/main.rs; `cargo run --offline` (debug build).
// Only the public API is used.  One line per finding id; "DEFECT" = the misbehaviour was observed.
// `Img` + `spec_regs` below are an independent transcription of the published HLL4 layout (DESIGN.md Appendix A): what a Java/C++ reader sees.
use datasketches::hll::{HllSketch, HllType, HllUnion};
use std::panic::catch_unwind;

fn word(slot: u32, value: u32) -> u32 { slot | (value << 26) }

/// spec ENCODER for an HLL4 array-mode image
struct Img { lg_k: u8, lg_arr: u8, flags: u8, cur_min: u8, kxq0: f64, cur_min_count: u32, aux_count: u32, nibs: Vec<u8>, aux_words: Vec<u32> }
impl Img {
    fn bytes(&self) -> Vec<u8> {
        let mut v = vec![10u8, 1, 7, self.lg_k, self.lg_arr, self.flags, self.cur_min, 2];
        v.extend_from_slice(&0f64.to_le_bytes());
        v.extend_from_slice(&self.kxq0.to_le_bytes());
        v.extend_from_slice(&0f64.to_le_bytes());
        v.extend_from_slice(&self.cur_min_count.to_le_bytes());
        v.extend_from_slice(&self.aux_count.to_le_bytes());
        v.extend_from_slice(&self.nibs);
        for w in &self.aux_words { v.extend_from_slice(&w.to_le_bytes()); }
        v
    }
}
fn set_nib(nibs: &mut [u8], slot: usize, v: u8) { if slot % 2 == 0 { nibs[slot / 2] = (nibs[slot / 2] & 0xf0) | v } else { nibs[slot / 2] = (nibs[slot / 2] & 0x0f) | (v << 4) } }

/// spec DECODER: the registers a reader following the published layout recovers (None for an exception slot the aux section does not resolve)
fn spec_regs(img: &[u8]) -> Vec<Option<u8>> {
    let lg_k = img[3] as usize; let k = 1usize << lg_k; let compact = img[5] & 8 != 0; let cur_min = img[6];
    let aux_count = u32::from_le_bytes(img[36..40].try_into().unwrap()) as usize;
    let aux_start = 40 + k / 2;
    let nwords = if aux_count == 0 { 0 } else if compact { aux_count } else { 1usize << img[4] };
    let mut aux = std::collections::HashMap::new();
    for i in 0..nwords {
        let o = aux_start + 4 * i;
        if o + 4 > img.len() { break; }   // a truncated table: the reader would fail; here: stop
        let w = u32::from_le_bytes(img[o..o + 4].try_into().unwrap());
        if w == 0 { continue; }
        aux.insert((w & 0x3ff_ffff) as usize & (k - 1), (w >> 26) as u8);
    }
    (0..k).map(|i| { let b = img[40 + i / 2]; let n = if i % 2 == 0 { b & 15 } else { b >> 4 }; if n < 15 { Some(cur_min + n) } else { aux.get(&i).copied() } }).collect()
}
/// the registers the library holds, observed through the public API: union into an empty gadget, emit as HLL8, read the register bytes
fn lib_regs(s: &HllSketch) -> Vec<u8> {
    let lg = s.lg_config_k();
    let mut u = HllUnion::new(lg); u.update(s);
    u.to_sketch(HllType::Hll8).serialize()[40..40 + (1usize << lg)].to_vec()
}
fn line<T: std::fmt::Debug>(id: &str, what: &str, r: std::thread::Result<T>) {
    match r {
        Err(_) => println!("{id}: DEFECT panicked -- {what}"),
        Ok(v) => println!("{id}: returned {v:?} -- {what}"),
    }
}

fn main() {
    std::panic::set_hook(Box::new(|i| { println!("    panic: {}", i.to_string().replace('\n', " | ")); }));

    // a valid COMPACT image (as Java toCompactByteArray writes it): lg_k=4, curMin=0, registers 3 and 5 are exceptions (20 and 17), 14 registers are 0
    let mut nibs = vec![0u8; 8]; set_nib(&mut nibs, 3, 15); set_nib(&mut nibs, 5, 15);
    let valid = Img { lg_k: 4, lg_arr: 0, flags: 8, cur_min: 0, kxq0: 14.0, cur_min_count: 14, aux_count: 2, nibs: nibs.clone(), aux_words: vec![word(3, 20), word(5, 17)] };
    let s = HllSketch::deserialize(&valid.bytes()).expect("valid compact image");
    println!("baseline: compact image read back, registers 3,5 = {:?} (spec: {:?})", (lib_regs(&s)[3], lib_regs(&s)[5]), (spec_regs(&valid.bytes())[3], spec_regs(&valid.bytes())[5]));

    // C12.hll4.aux_layout: what the library WRITES for that state
    let out = s.serialize();
    let sr = spec_regs(&out);
    let unresolved: Vec<usize> = (0..16).filter(|&i| sr[i].is_none()).collect();
    println!("hll4.aux_layout: {} -- serialize() of a sketch with 2 exceptions: {} bytes, flags byte {:#04x} (COMPACT bit {}), byte 4 (lgAuxArrInts) = {}, auxCount = {}, words after the nibbles: {}; \
a reader of the published layout takes an updatable image with a 2^{} = {}-word table and cannot resolve exception slots {:?}",
        if !unresolved.is_empty() { "DEFECT" } else { "ok" }, out.len(), out[5], if out[5] & 8 != 0 { "set" } else { "clear" }, out[4],
        u32::from_le_bytes(out[36..40].try_into().unwrap()), (out.len() - 48) / 4, out[4], 1u32 << out[4], unresolved);

    // C13.hll4.updatable.aux: a valid UPDATABLE image of the same kind of state (Java toUpdatableByteArray): lgAuxArrInts=2, table [0, (5,20), 0, 0], auxCount=1
    let mut nibs1 = vec![0u8; 8]; set_nib(&mut nibs1, 5, 15);
    let upd = Img { lg_k: 4, lg_arr: 2, flags: 0, cur_min: 0, kxq0: 15.0, cur_min_count: 15, aux_count: 1, nibs: nibs1.clone(), aux_words: vec![0, word(5, 20), 0, 0] };
    let ub = upd.bytes();
    match HllSketch::deserialize(&ub) {
        Ok(s) => {
            let got = lib_regs(&s)[5]; let want = spec_regs(&ub)[5];
            println!("hll4.updatable.aux: {} -- updatable image (4-word aux table, entry in cell 1): register 5 read as {} (spec: {:?}); reserialized auxCount = {}",
                     if Some(got) != want { "DEFECT" } else { "ok" }, got, want, u32::from_le_bytes(s.serialize()[36..40].try_into().unwrap()));
        }
        Err(e) => println!("hll4.updatable.aux: rejected {e:?}"),
    }

    // C14.hll4.aux_no_dup: the same aux word twice
    let dup = Img { aux_words: vec![word(3, 20), word(3, 20)], ..Img { lg_k: 4, lg_arr: 0, flags: 8, cur_min: 0, kxq0: 14.0, cur_min_count: 14, aux_count: 2, nibs: nibs.clone(), aux_words: vec![] } };
    line("hll4.aux_no_dup", "compact image whose two aux words name the same slot: deserialize",
         catch_unwind(|| HllSketch::deserialize(&dup.bytes()).map(|s| s.estimate()).is_ok()));

    // C14.hll4.aux_value_nonzero: an aux word that is 0 (slot 0, value 0 = the table's EMPTY marker)
    let zero = Img { lg_k: 4, lg_arr: 0, flags: 8, cur_min: 0, kxq0: 16.0, cur_min_count: 16, aux_count: 3, nibs: vec![0u8; 8], aux_words: vec![0, 0, 0] };
    line("hll4.aux_value_nonzero", "compact image with auxCount=3 and three zero words: accepted although no entry can be stored (AuxMap.count = 3 over an empty table); (bytes in, bytes out, auxCount out)",
         catch_unwind(|| HllSketch::deserialize(&zero.bytes()).map(|s| { let o = s.serialize(); (zero.bytes().len(), o.len(), u32::from_le_bytes(o[36..40].try_into().unwrap())) }).ok()));

    // C14.hll4.wf_aux_token: nibble 15 with no aux entry (auxCount = 0, every nibble 15)
    let tok = Img { lg_k: 4, lg_arr: 0, flags: 8, cur_min: 0, kxq0: 0.0, cur_min_count: 1, aux_count: 0, nibs: vec![0xffu8; 8], aux_words: vec![] };
    line("hll4.wf_aux_token", "image whose nibbles are all 15 but auxCount = 0: deserialize Ok, then updates until one carries a value above 15",
         catch_unwind(|| { let mut s = HllSketch::deserialize(&tok.bytes()).expect("accepted"); for i in 0..5_000_000u64 { s.update(i); } s.estimate() }));

    // C14.hll4.wf_aux_range: aux value 5 below curMin + 15 (curMin = 10); one register sits at curMin, curMinCount = 1
    let mut nibs2 = vec![0x11u8; 8]; set_nib(&mut nibs2, 0, 0); set_nib(&mut nibs2, 3, 15);
    let rng = Img { lg_k: 4, lg_arr: 0, flags: 8, cur_min: 10, kxq0: 0.01, cur_min_count: 1, aux_count: 1, nibs: nibs2, aux_words: vec![word(3, 5)] };
    line("hll4.wf_aux_range", "image with curMin=10 and aux entry (slot 3, value 5): deserialize Ok, then updates until curMin shifts",
         catch_unwind(|| { let mut s = HllSketch::deserialize(&rng.bytes()).expect("accepted"); for i in 0..5_000_000u64 { s.update(i); } s.estimate() }));

    // C14.hll4.wf_reg_range: curMin = 250
    let big = Img { lg_k: 4, lg_arr: 0, flags: 8, cur_min: 250, kxq0: 0.0, cur_min_count: 1, aux_count: 0, nibs: vec![0xaau8; 8], aux_words: vec![] };
    line("hll4.wf_reg_range", "image with curMin=250 and nibbles 10: deserialize Ok, then HllUnion::update(&it)",
         catch_unwind(|| { let s = HllSketch::deserialize(&big.bytes()).expect("accepted"); lib_regs(&s) }));

    // C14.hll4.wf_num_at_cur_min: curMinCount = 0 while all 16 registers are at curMin
    let cnt = Img { lg_k: 4, lg_arr: 0, flags: 8, cur_min: 0, kxq0: 16.0, cur_min_count: 0, aux_count: 0, nibs: vec![0u8; 8], aux_words: vec![] };
    line("hll4.wf_num_at_cur_min", "image with curMinCount=0 and 16 zero registers: deserialize Ok, update(1)",
         catch_unwind(|| { let mut s = HllSketch::deserialize(&cnt.bytes()).expect("accepted"); s.update(1u64); s.estimate() }));
}
