use datasketches::tdigest::TDigestMut;
fn main() {
    // 20. quantile(q) must lie in [min, max]: weighted_average had no clamp (Java's weightedAverageSorted has one)
    let mut t = TDigestMut::new(10);
    for _ in 0..5 { t.update(0.1); }
    for i in 0..2000 { t.update(1.1 + 0.37 * i as f64); }
    let q = t.quantile(0.001001).unwrap(); let mn = t.min_value().unwrap();
    println!("20a quantile(0.001001) = {q:?}, min = {mn:?}: below min: {}", q < mn);
    let mut below = 0; let mut above = 0; let mut desc = 0;
    for k in [10u16, 20, 100] {
        let mut t = TDigestMut::new(k);
        let mut x: u64 = 987654321;
        for _ in 0..897 { x = x.wrapping_mul(6364136223846793005).wrapping_add(1442695040888963407); t.update(((x >> 40) % 10) as f64 / 10.0); }
        let mn = t.min_value().unwrap(); let mx = t.max_value().unwrap(); let mut prev = t.quantile(0.0).unwrap();
        for i in 0..=20000 { let q = i as f64 / 20000.0; let v = t.quantile(q).unwrap(); if v < mn { below += 1 } if v > mx { above += 1 } if v < prev { desc += 1 } prev = v; }
    }
    println!("20b on 20001-point grids (k = 10, 20, 100; 897 values rounded to tenths): below min {below}, above max {above}, descents {desc}");
}
