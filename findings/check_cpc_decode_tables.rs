// Enumeration check of the table facts ASSUMED by unit cpc_decode (contracts/cpc_decode.rs: vx_llu_decoding_table,
// vx_high_entropy_decoding_tables, vx_column_permutations_for_decoding).  The real tables are compiled in from /repo:
// scratch crate with no dependencies, this file as src/main.rs, `cargo run --offline`.
// The array LENGTHS ([u16; 4096], [[u16; 4096]; 22], [[u8; 56]; 16]) are part of the types and are re-stated below as type ascriptions,
// so a change of a length in /repo makes this program fail to compile.
#![allow(dead_code)]
#[path = "/repo/datasketches/src/cpc/compression_data.rs"]
mod compression_data;
use compression_data::*;

fn main() {
    let llu: &[u16; 4096] = &LENGTH_LIMITED_UNARY_DECODING_TABLE65;
    let dec: &[[u16; 4096]; 22] = &DECODING_TABLES_FOR_HIGH_ENTROPY_BYTE;
    let perm: &[[u8; 56]; 16] = &COLUMN_PERMUTATIONS_FOR_DECODING;
    let mut ok = true;

    // llu_table_ok: 1 <= (e >> 8) <= 12 && (e & 0xff) <= 64
    let (mut lo, mut hi, mut vmax) = (u16::MAX, 0u16, 0u16);
    for &e in llu.iter() { lo = lo.min(e >> 8); hi = hi.max(e >> 8); vmax = vmax.max(e & 0xff); }
    let f = 1 <= lo && hi <= 12 && vmax <= 64; ok &= f;
    println!("LENGTH_LIMITED_UNARY_DECODING_TABLE65: 4096 entries, code length in {lo}..={hi}, value max {vmax}: llu_table_ok = {f}");

    // dec_tables_ok: 1 <= (e >> 8) <= 12 for all 22 x 4096 entries
    let (mut lo, mut hi) = (u16::MAX, 0u16);
    for t in dec.iter() { for &e in t.iter() { lo = lo.min(e >> 8); hi = hi.max(e >> 8); } }
    let f = 1 <= lo && hi <= 12; ok &= f;
    println!("DECODING_TABLES_FOR_HIGH_ENTROPY_BYTE: 22 x 4096 entries, code length in {lo}..={hi}: dec_tables_ok = {f}");

    // perms_ok: every entry < 56 (and each row is a permutation of 0..56)
    let mut emax = 0u8; let mut all_perm = true;
    for p in perm.iter() {
        let mut seen = [false; 56];
        for &c in p.iter() { emax = emax.max(c); if (c as usize) < 56 { seen[c as usize] = true; } }
        all_perm &= seen.iter().all(|&b| b);
    }
    let f = emax < 56; ok &= f;
    println!("COLUMN_PERMUTATIONS_FOR_DECODING: 16 x 56 entries, max entry {emax}, every row a permutation of 0..56: {all_perm}: perms_ok = {f}");

    // not assumed, for information: every 12-bit peek of a decoding table is consistent with a prefix code (entry depends only on its low `len` bits)
    let mut prefix = true;
    for t in dec.iter().chain(std::iter::once(llu)) {
        for i in 0..4096usize { let len = (t[i] >> 8) as usize; if t[i & ((1 << len) - 1)] != t[i] { prefix = false; } }
    }
    println!("(information) entries depend only on their low code-length bits: {prefix}");
    println!("ALL ASSUMED TABLE FACTS HOLD: {ok}");
    if !ok { std::process::exit(1); }
}
