// Replay of the obligation of unit fi_items that fails on the current /repo (findings/fi_items_findings.json).
// Public API only.  A counting global allocator records the largest single allocation request made while deserialize runs.
// Build: a scratch crate with `datasketches = { path = "/repo/datasketches" }` and this file as src/main.rs; `cargo run --offline`.
// Second run, address space capped:  (ulimit -v 2000000; cargo run --offline -- capped)
use datasketches::frequencies::FrequentItemsSketch;
use std::alloc::{GlobalAlloc, Layout, System};
use std::sync::atomic::{AtomicUsize, Ordering};

struct Counting;
static MAX_REQ: AtomicUsize = AtomicUsize::new(0);
unsafe impl GlobalAlloc for Counting {
    unsafe fn alloc(&self, l: Layout) -> *mut u8 { MAX_REQ.fetch_max(l.size(), Ordering::Relaxed); System.alloc(l) }
    unsafe fn alloc_zeroed(&self, l: Layout) -> *mut u8 { MAX_REQ.fetch_max(l.size(), Ordering::Relaxed); System.alloc_zeroed(l) }
    unsafe fn dealloc(&self, p: *mut u8, l: Layout) { System.dealloc(p, l) }
    unsafe fn realloc(&self, p: *mut u8, l: Layout, n: usize) -> *mut u8 { MAX_REQ.fetch_max(n, Ordering::Relaxed); System.realloc(p, l, n) }
}
#[global_allocator]
static A: Counting = Counting;

fn hex(b: &[u8]) -> String { b.iter().map(|x| format!("{:02x}", x)).collect::<Vec<_>>().join("") }
// frequent items (String), preLongs = 4: header, n counters, then n items = u32 LE byte length + UTF-8 bytes
fn fi_str_img(lg_max: u8, lg_cur: u8, sw: u64, off: u64, rows: &[(u32, &[u8], u64)]) -> Vec<u8> {
    let mut b = vec![4u8, 1, 10, lg_max, lg_cur, 0, 0, 0];
    b.extend_from_slice(&(rows.len() as u32).to_le_bytes()); b.extend_from_slice(&0u32.to_le_bytes());
    b.extend_from_slice(&sw.to_le_bytes()); b.extend_from_slice(&off.to_le_bytes());
    for r in rows { b.extend_from_slice(&r.2.to_le_bytes()); }
    for r in rows { b.extend_from_slice(&r.0.to_le_bytes()); b.extend_from_slice(r.1); }
    b
}
fn case(id: &str, img: &[u8]) {
    MAX_REQ.store(0, Ordering::Relaxed);
    let r = FrequentItemsSketch::<String>::deserialize(img);
    let m = MAX_REQ.load(Ordering::Relaxed);
    println!("{:<28} image={} ({} bytes) -> {} ; largest single allocation request during deserialize = {} bytes",
        id, hex(img), img.len(), match &r { Ok(s) => format!("Ok(active={})", s.num_active_items()), Err(e) => format!("Err({})", e) }, m);
}
fn main() {
    // control: a well-formed image (item "abc", count 7)
    case("fi.string.control", &fi_str_img(3, 3, 7, 0, &[(3, b"abc", 7)]));
    // the length prefix of the item says 0xffffffff, 3 bytes follow: String::deserialize_value allocates vec![0; 0xffffffff] first,
    // read_exact then fails
    case("fi.string.len_not_validated", &fi_str_img(3, 3, 7, 0, &[(u32::MAX, b"abc", 7)]));
    // invalid UTF-8 is an error (no finding: shown for completeness)
    case("fi.string.invalid_utf8", &fi_str_img(3, 3, 7, 0, &[(2, &[0xc3, 0x28], 7)]));
}
