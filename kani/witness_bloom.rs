    // WITNESS harnesses (bounded, DESIGN.md 7.3e) for C09 on the REAL BloomFilter, through the public entry points union / intersect /
    // invert / reset / bits_used / is_empty only (no private helper is named).  State: two compatible filters of 3 words (192 bits)
    // with ARBITRARY bit arrays and bits_used == popcount (the filter invariant); one operation; the whole abstract view is compared
    // with the bit-level model: result words == a | b, a & b, !a; bits_used == popcount(result); the other operand is untouched.
    fn w_pop(w: &[u64]) -> u64 { let mut s = 0u64; let mut i = 0; while i < w.len() { s += w[i].count_ones() as u64; i += 1; } s }
    fn w_filter(words: [u64; 3], seed: u64, k: u16) -> BloomFilter {
        BloomFilter { seed, num_hashes: k, num_bits_set: w_pop(&words), bit_array: Box::new(words) }
    }
    fn w_two() -> (BloomFilter, BloomFilter, [u64; 3], [u64; 3]) {
        let a: [u64; 3] = kani::any(); let b: [u64; 3] = kani::any();
        let seed: u64 = kani::any(); let k: u16 = kani::any(); kani::assume(k >= 1 && k <= 16);
        (w_filter(a, seed, k), w_filter(b, seed, k), a, b)
    }
    #[kani::proof] #[kani::unwind(5)]
    fn w_c09_bloom_union_model() {
        let (mut f, g, a, b) = w_two();
        f.union(&g);
        let i: usize = kani::any(); kani::assume(i < 3);
        assert!(f.bit_array[i] == a[i] | b[i]);
        assert!(f.bits_used() == w_pop(&[a[0] | b[0], a[1] | b[1], a[2] | b[2]]));
        assert!(g.bit_array[i] == b[i] && g.bits_used() == w_pop(&b));
        assert!(f.is_empty() == (f.bits_used() == 0));
    }
    #[kani::proof] #[kani::unwind(5)]
    fn w_c09_bloom_intersect_model() {
        let (mut f, g, a, b) = w_two();
        f.intersect(&g);
        let i: usize = kani::any(); kani::assume(i < 3);
        assert!(f.bit_array[i] == a[i] & b[i]);
        assert!(f.bits_used() == w_pop(&[a[0] & b[0], a[1] & b[1], a[2] & b[2]]));
        assert!(g.bit_array[i] == b[i] && g.bits_used() == w_pop(&b));
    }
    #[kani::proof] #[kani::unwind(5)]
    fn w_c09_bloom_invert_reset_model() {
        let (mut f, _g, a, _b) = w_two();
        f.invert();
        let i: usize = kani::any(); kani::assume(i < 3);
        assert!(f.bit_array[i] == !a[i]);
        assert!(f.bits_used() == 192 - w_pop(&a));
        f.reset();
        assert!(f.bit_array[i] == 0 && f.bits_used() == 0 && f.is_empty());
    }
