    // assumed specs of tools/std_specs.json (injected only when CHANGED code starts to use these std functions)
    #[kani::proof] #[kani::unwind(70)]
    fn shim_vec_capacity_ops() {
        let vals: [u64; 4] = kani::any();
        let n: usize = kani::any(); kani::assume(n <= 4);
        let mut v: Vec<u64> = Vec::with_capacity(8);
        let mut i = 0; while i < n { v.push(vals[i]); i += 1; }
        match kani::any::<u8>() % 3 { 0 => v.shrink_to_fit(), 1 => v.shrink_to(kani::any::<u8>() as usize % 8), _ => v.reserve_exact(kani::any::<u8>() as usize % 8) }
        assert!(v.len() == n);
        let k: usize = kani::any(); kani::assume(k < n);
        assert!(v[k] == vals[k]);
    }
    #[kani::proof]
    fn shim_slice_swap() {
        let mut s: [u64; 5] = kani::any(); let o = s;
        let a: usize = kani::any(); let b: usize = kani::any(); kani::assume(a < 5 && b < 5);
        s.swap(a, b);
        let k: usize = kani::any(); kani::assume(k < 5);
        assert!(s[k] == if k == a { o[b] } else if k == b { o[a] } else { o[k] });
    }
