    // get_capacity (computed in f64) == len/2 while resizing is possible, 15/16 * len otherwise: for every (lg_cur, lg_nom) with the
    // table length 2^lg_cur; loop free because only the arithmetic of the real expression is replayed on the real constants
    #[kani::proof]
    fn leaf_theta_capacity_arith() {
        let lg_cur: u8 = kani::any(); kani::assume(lg_cur >= 1 && lg_cur <= 31);
        let len: usize = 1usize << lg_cur;
        let resize = (RESIZE_THRESHOLD * len as f64) as usize;
        let rebuild = (REBUILD_THRESHOLD * len as f64) as usize;
        assert!(resize == len / 2);
        assert!(rebuild == len / 16 * 15 || (lg_cur < 4 && rebuild == len * 15 / 16));
    }
