    // float leaves used by unit theta_sketch (contracts/theta_sketch.rs: leaf_theta_frac_ok, leaf_theta_frac_one, leaf_div_one, leaf_zero,
    // leaf_zero_div, leaf_fle_refl, shim vx_usize_as_f64); append to theta/hash_table.rs so that MAX_THETA is the real constant.
    // The expressions are the ones of theta/sketch.rs: `theta as f64 / MAX_THETA as f64`, `num_retained / theta`, `n as f64`, `0.0`.
    #[kani::proof]
    fn leaf_theta_frac_ok() {
        let t: u64 = kani::any();
        kani::assume(0 < t && t <= MAX_THETA);
        let f = t as f64 / MAX_THETA as f64;
        assert!(f > 0.0 && f <= 1.0 && !f.is_nan());
    }
    #[kani::proof]
    fn leaf_theta_frac_one() {
        let f = MAX_THETA as f64 / MAX_THETA as f64;
        assert!(f.to_bits() == 1.0f64.to_bits());
    }
    #[kani::proof]
    fn leaf_theta_div_one() {
        let n: u64 = kani::any();
        let x = n as f64;
        assert!((x / 1.0).to_bits() == x.to_bits());
    }
    #[kani::proof]
    fn leaf_theta_zero() {
        assert!((0u64 as f64).to_bits() == 0.0f64.to_bits());
    }
    #[kani::proof]
    fn leaf_theta_zero_div() {
        let t: f64 = kani::any();
        kani::assume(t > 0.0 && t <= 1.0);
        assert!((0.0f64 / t).to_bits() == 0.0f64.to_bits());
    }
    #[kani::proof]
    fn leaf_theta_fle_refl() {
        let n: u64 = kani::any();
        let x = n as f64;
        assert!(x <= x);
    }
    #[kani::proof]
    fn leaf_theta_usize_as_f64() {
        let n: usize = kani::any();
        assert!((n as f64).to_bits() == ((n as u64) as f64).to_bits());
    }
