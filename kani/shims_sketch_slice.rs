    // The cursor model ASSUMED by every codec unit for the external_body struct SketchSlice (std::io::Cursor<&[u8]>):
    //   new(s): data == s, pos == 0;   read_exact(buf), n = |buf|: if pos + n <= |data| then Ok, buf == data[pos .. pos+n], pos += n, data unchanged
    //   (rem-form: buf == rem.take(n), rem' == rem.skip(n)); otherwise Err, data unchanged and still 0 <= pos <= |data| (`fails`); |buf| unchanged.
    // REAL SketchSlice::{new, read_exact, read_u8} on a symbolic image of <= 10 bytes, two consecutive reads of symbolic sizes 0..=6 each
    // (the second one starts from whatever state the first one left, including the state after a failed read).
    #[kani::proof]
    #[kani::unwind(12)]
    fn shim_sketch_slice_read_exact() {
        let data: [u8; 10] = kani::any(); let n: usize = kani::any(); kani::assume(n <= 10);
        let mut c = SketchSlice::new(&data[..n]);
        assert!(c.slice.position() == 0 && c.slice.get_ref().len() == n);
        let mut pos: usize = 0;                                   // model position
        let mut round = 0;
        while round < 2 {
            let k: usize = kani::any(); kani::assume(k <= 6);
            let mut buf = [0xA5u8; 6];
            let r = c.read_exact(&mut buf[..k]);
            if pos + k <= n {
                assert!(r.is_ok());
                let i: usize = kani::any(); if i < k { assert!(buf[i] == data[pos + i]); }
                pos += k;
                assert!(c.slice.position() == pos as u64);
            } else {
                assert!(r.is_err());
                assert!(c.slice.position() <= n as u64);            // `fails`: inv is kept (std moves the cursor to the end)
                pos = c.slice.position() as usize;
            }
            let j: usize = kani::any(); if k <= j && j < 6 { assert!(buf[j] == 0xA5); }      // nothing written outside the buffer
            assert!(c.slice.get_ref().len() == n && c.slice.get_ref().as_ptr() == data.as_ptr());   // data unchanged
            core::mem::forget(r);
            round += 1;
        }
    }
    // hll_dispatch read_u8: Ok(rem[0]) and advance by one if a byte is left, Err otherwise
    #[kani::proof]
    #[kani::unwind(12)]
    fn shim_sketch_slice_read_u8() {
        let data: [u8; 4] = kani::any(); let n: usize = kani::any(); kani::assume(n <= 4);
        let mut c = SketchSlice::new(&data[..n]);
        let mut pos = 0usize; let mut round = 0;
        while round < 5 {
            let r = c.read_u8();
            if pos < n { match &r { Ok(v) => { assert!(*v == data[pos]); } Err(_) => { assert!(false); } } pos += 1; assert!(c.slice.position() == pos as u64); }
            else { assert!(r.is_err()); assert!(c.slice.position() <= n as u64); }
            core::mem::forget(r);
            round += 1;
        }
    }
