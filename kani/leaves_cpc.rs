    // golden-ratio stride of walk_table_updating_sketch for every table size 2^n, n = 2..=26
    #[kani::proof]
    fn leaf_cpc_golden_stride() {
        let n: u8 = kani::any(); kani::assume(n >= 2 && n <= 26);
        let num_slots: u32 = 1u32 << n;
        let r = (0.6180339887498949 * (num_slots as f64)) as u32;
        assert!(2 <= r && r + 1 < num_slots);
    }
