    // WITNESS (bounded) harnesses for C08 - Count-Min merge is the element-wise sum of the two tables and of the total weights.
    // Everything goes through the stable entry points with_seed / update_with_weight / merge / estimate / total_weight; the `counts`
    // field is only used to load a symbolic table image and to read the result back.
    // Two layers: `*_body(inputs)` holds the assertions, the #[kani::proof] wrapper fills the inputs from kani::any().

    pub fn cm_merge_cells_body<const N: usize>(rows: u8, buckets: u32, a: [u32; N], b: [u32; N], ta: u32, tb: u32) {
        let mut x = CountMinSketch::<u32>::with_seed(rows, buckets, 9001);
        let mut y = CountMinSketch::<u32>::with_seed(rows, buckets, 9001);
        assert!(x.counts.len() == N && y.counts.len() == N);
        let mut i = 0;
        while i < N { x.counts[i] = a[i]; y.counts[i] = b[i]; i += 1; }
        x.total_weight = ta; y.total_weight = tb;
        x.merge(&y);
        // every cell of the result is the sum (no cell is skipped, whatever the iteration scheme)
        let mut i = 0;
        while i < N {
            assert!(x.counts[i] == a[i] + b[i], "C08 witness: merged cell != sum of the operand cells");
            assert!(y.counts[i] == b[i], "C08 witness: merge changed the argument");
            i += 1;
        }
        assert!(x.total_weight() == ta + tb, "C08 witness: merged total_weight != sum of the totals");
        assert!(y.total_weight() == tb);
        assert!(x.counts.len() == N && x.num_hashes() == rows && x.num_buckets() == buckets);
    }

    fn any_cells<const N: usize>() -> [u32; N] {
        let a: [u32; N] = kani::any();
        let mut i = 0;
        while i < N { kani::assume(a[i] < (1u32 << 30)); i += 1; }
        a
    }

    // 2 x 5 = 10 cells (10 mod 4 = 2, 10 mod 8 = 2); the 3 x 7 table is covered by w_c08_cm_merge_is_cellwise_sum (witness_countmin.rs).
    // unwind 44: a changed merge may compare the two tables (Vec<u32> equality = 40 bytes) before adding.
    #[kani::proof]
    #[kani::unwind(44)]
    fn witness_c08_merge_cells_2x5() {
        let ta: u32 = kani::any(); let tb: u32 = kani::any();
        kani::assume(ta < (1u32 << 30) && tb < (1u32 << 30));
        cm_merge_cells_body::<10>(2, 5, any_cells::<10>(), any_cells::<10>(), ta, tb);
    }

    // Public API only: two 3x5 sketches fed with the concrete items 0..6 (u64) and symbolic weights (0 = item absent), merged;
    // the merged estimate of every item is at least the sum of its two weights and at most the merged total weight,
    // and the total weight is the sum of all weights.
    pub fn cm_merge_api_body(wa: [u32; 6], wb: [u32; 6]) {
        let mut x = CountMinSketch::<u32>::with_seed(3, 5, 9001);
        let mut y = CountMinSketch::<u32>::with_seed(3, 5, 9001);
        let mut sa: u32 = 0; let mut sb: u32 = 0;
        let mut i = 0;
        while i < 6 {
            x.update_with_weight(i as u64, wa[i]);
            y.update_with_weight(i as u64, wb[i]);
            sa += wa[i]; sb += wb[i];
            i += 1;
        }
        assert!(x.total_weight() == sa && y.total_weight() == sb);
        x.merge(&y);
        assert!(x.total_weight() == sa + sb, "C08 witness: merged total_weight != sum of all weights");
        let mut i = 0;
        while i < 6 {
            let e = x.estimate(i as u64);
            assert!(e >= wa[i] + wb[i], "C08 witness: merged estimate below the true weight (one-sided bound lost)");
            assert!(e <= sa + sb, "C08 witness: merged estimate above the total weight");
            i += 1;
        }
    }

    // unwind 64: 15 cells = 60 bytes for a possible table comparison in a changed merge.
    #[kani::proof]
    #[kani::unwind(64)]
    fn witness_c08_merge_api_3x5() {
        let wa: [u32; 6] = kani::any(); let wb: [u32; 6] = kani::any();
        let mut i = 0;
        while i < 6 { kani::assume(wa[i] < (1u32 << 24) && wb[i] < (1u32 << 24)); i += 1; }
        cm_merge_api_body(wa, wb);
    }
