    // C01/C02 (HLL): the HIP accumulator grows by the inverse probability of change computed from the register sums BEFORE the
    // update (k / (kxq0 + kxq1) of the OLD state), the KxQ sums then move by exactly 2^-old -> 2^-new on the side (value < 32 /
    // >= 32) of each value, an out-of-order estimator leaves hip_accum alone, and the flag never changes.  Loop-free, every
    // finite state, every lg_k 4..=21, every register value pair 0..=63: a complete proof of HipEstimator::update's contract.
    fn pow2_neg(v: u8) -> f64 { f64::from_bits(((1023 - v as u64) << 52)) }     // exactly 2^-v for v <= 63
    #[kani::proof]
    fn leaf_inv_pow2_exact() {
        let v: u8 = kani::any(); kani::assume(v <= 63);
        assert!(inv_pow2(v).to_bits() == pow2_neg(v).to_bits());
    }
    #[kani::proof]
    fn c01_hll_hip_update_contract() {
        let lg_k: u8 = kani::any(); kani::assume(lg_k >= 4 && lg_k <= 21);
        let old: u8 = kani::any(); let new: u8 = kani::any(); kani::assume(old <= 63 && new <= 63);
        let h: f64 = kani::any(); let q0: f64 = kani::any(); let q1: f64 = kani::any(); let ooo: bool = kani::any();
        kani::assume(h.is_finite() && q0.is_finite() && q1.is_finite());
        let mut e = HipEstimator { hip_accum: h, kxq0: q0, kxq1: q1, out_of_order: ooo };
        e.update(lg_k, old, new);
        let k = (1 << lg_k) as f64;          // i32 shift, as in the real code (lg_k <= 21)
        let want_h = if ooo { h } else { h + k / (q0 + q1) };
        assert!(e.hip_accum.to_bits() == want_h.to_bits() || (e.hip_accum.is_nan() && want_h.is_nan()));
        let mut w0 = q0; let mut w1 = q1;
        if old < 32 { w0 -= inv_pow2(old); } else { w1 -= inv_pow2(old); }      // inv_pow2(v) == 2^-v exactly: leaf_inv_pow2_exact
        if new < 32 { w0 += inv_pow2(new); } else { w1 += inv_pow2(new); }
        assert!(e.kxq0.to_bits() == w0.to_bits());
        assert!(e.kxq1.to_bits() == w1.to_bits());
        assert!(e.out_of_order == ooo);
    }
    // HipEstimator::new: the state of k empty registers (kxq0 = k * 2^-0, kxq1 = 0, hip 0, in order)
    #[kani::proof]
    fn c01_hll_hip_new_contract() {
        let lg_k: u8 = kani::any(); kani::assume(lg_k >= 4 && lg_k <= 21);
        let e = HipEstimator::new(lg_k);
        assert!(e.hip_accum == 0.0 && e.kxq1 == 0.0 && !e.out_of_order && e.kxq0 == (1u64 << lg_k) as f64);
    }
    // HIP increment is a function of the state BEFORE the register change only: two updates from the same state with different
    // (old, new) register values add the same amount (and none when out of order).  Catches an increment computed after update_kxq.
    #[kani::proof]
    fn c01_hll_hip_increment_from_old_state() {
        let lg_k: u8 = kani::any(); kani::assume(lg_k >= 4 && lg_k <= 21);
        let o1: u8 = kani::any(); let n1: u8 = kani::any(); let o2: u8 = kani::any(); let n2: u8 = kani::any();
        kani::assume(o1 <= 63 && n1 <= 63 && o2 <= 63 && n2 <= 63);
        let h: f64 = kani::any(); let q0: f64 = kani::any(); let q1: f64 = kani::any(); let ooo: bool = kani::any();
        kani::assume(h.is_finite() && q0.is_finite() && q1.is_finite() && q0 + q1 > 0.0);
        let mut a = HipEstimator { hip_accum: h, kxq0: q0, kxq1: q1, out_of_order: ooo };
        let mut b = HipEstimator { hip_accum: h, kxq0: q0, kxq1: q1, out_of_order: ooo };
        a.update(lg_k, o1, n1); b.update(lg_k, o2, n2);
        assert!(a.hip_accum.to_bits() == b.hip_accum.to_bits());
        assert!(!ooo || a.hip_accum.to_bits() == h.to_bits());
        assert!(a.out_of_order == ooo && b.out_of_order == ooo);
    }
