    // C01 (HLL list/set mode): Container bounds bracket the estimate for whatever the interpolation returns (finite, >= 0)
    fn any_nsd() -> NumStdDev { match kani::any::<u8>() % 3 { 0 => NumStdDev::One, 1 => NumStdDev::Two, _ => NumStdDev::Three } }
    static mut C01_INTERP: f64 = 0.0;
    fn interp_stub(_x: &[f64], _y: &[f64], _v: f64) -> f64 { unsafe { C01_INTERP } }
    fn any_container() -> Container {
        let mut c = Container::new(3);
        let len: usize = kani::any(); kani::assume(len <= (1usize << 26));
        c.len = len;
        let e: f64 = kani::any(); kani::assume(e.is_finite() && e >= 0.0);
        unsafe { C01_INTERP = e; }
        c
    }
    #[kani::proof] #[kani::unwind(10)] #[kani::stub(using_x_and_y_tables, interp_stub)]
    fn c01_container_lb_le_est() { let c = any_container(); assert!(c.lower_bound(any_nsd()) <= c.estimate()); }
    #[kani::proof] #[kani::unwind(10)] #[kani::stub(using_x_and_y_tables, interp_stub)]
    fn c01_container_est_le_ub() { let c = any_container(); assert!(c.estimate() <= c.upper_bound(any_nsd())); }
