    // cm_sketch axiom_decay_monotone AS STATED: 0 <= a <= b ==> 0 <= decay_spec(a, d) <= decay_spec(b, d) for ANY f64 d (the axiom carries no
    // decay_ok premise; the existing leaves leaf_cm_*_decay_monotone assume 0 <= d <= 1).  decay_spec = the REAL UnsignedCountMinValue::decay,
    // `((v as f64) * d) as T` with Rust's saturating float->int cast.  d ranges over every bit pattern: negative, > 1, +-inf, NaN.
    #[kani::proof]
    fn shim_decay_monotone_any_d_u8() {
        let a: u8 = kani::any(); let b: u8 = kani::any(); let d: f64 = kani::any(); kani::assume(a <= b);
        assert!(UnsignedCountMinValue::decay(a, d) <= UnsignedCountMinValue::decay(b, d));
    }
    // (the u16 instance of the same statement: no verdict in 20 min)
