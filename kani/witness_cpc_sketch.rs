    // WITNESS harnesses, family W2 (CPC), part 2: CpcSketch (C05/C16 float items, C18 image size, C11 wrapper agreement).
    // Bounded stand-ins (DESIGN.md 2.4 / 7.3e) for the VX units cpc_core / cpc_codec / cpc_coder / cpc_wrapper: executable
    // assertions over CpcSketch::{new, update_f64, update_f32, row_col_update, serialize, build_bit_matrix, num_coupons, validate,
    // estimate, max_serialized_bytes}, CompressedState::compress and CpcWrapper::{new, estimate, lg_k, is_empty}.
    // Serialization harnesses use CONCRETE coupons (CBMC then executes the entropy coder by constant propagation; with symbolic
    // coupons a two-coupon image exhausted 19 GB); the HIP registers stay symbolic where the property is about the layout.
    // A full serialize -> CpcSketch::deserialize round trip is NOT here: even with concrete coupons the section lengths read back
    // from the byte vector are symbolic for CBMC and the decoder loops did not finish in 10 min (1 coupon, lg_k = 4).

    fn fmt_stub(_a: core::fmt::Arguments<'_>) -> String {
        String::new()
    }

    // ---------------------------------------------------------------- C05 / C16: one float item = one coupon

    /// two sketches fed x resp. y hold the same single coupon (row `i` is ANY row of the matrix)
    pub fn same_item_two_sketches_body(x: f64, y: f64, i: usize) {
        let mut s = CpcSketch::new(4);
        s.update_f64(x);
        let mut t = CpcSketch::new(4);
        t.update_f64(y);
        assert!(s.num_coupons() == 1 && t.num_coupons() == 1);
        let ms = s.build_bit_matrix();
        let mt = t.build_bit_matrix();
        assert!(ms[i] == mt[i]);
    }

    /// every f64 that compares equal to 0.0 (that is +0.0 and -0.0) gives the coupon of +0.0
    #[kani::proof]
    #[kani::unwind(17)]
    fn w2_c05_update_f64_signed_zero_same_coupon() {
        let x: f64 = kani::any();
        kani::assume(x == 0.0);
        let i: usize = kani::any();
        kani::assume(i < 16);
        same_item_two_sketches_body(x, 0.0, i);
    }

    /// every NaN (any sign, any payload, quiet or signalling) gives the coupon of f64::NAN
    #[kani::proof]
    #[kani::unwind(17)]
    fn w2_c05_update_f64_any_nan_same_coupon() {
        let x: f64 = kani::any();
        kani::assume(x.is_nan());
        let i: usize = kani::any();
        kani::assume(i < 16);
        same_item_two_sketches_body(x, f64::NAN, i);
    }

    /// a stream of equal float items (through update_f64 and update_f32) leaves exactly one coupon
    #[kani::proof]
    #[kani::unwind(17)]
    fn w2_c05_update_float_equal_items_one_coupon() {
        let mut s = CpcSketch::new(4);
        s.update_f64(0.0);
        s.update_f64(-0.0);
        s.update_f32(0.0);
        s.update_f32(-0.0);
        assert!(s.num_coupons() == 1);
        let mut t = CpcSketch::new(4);
        t.update_f64(f64::NAN);
        t.update_f64(f64::from_bits(0x7ff0000000000001));
        t.update_f64(f64::from_bits(0xfff8000000000000));
        t.update_f64(f64::from_bits(0xffffffffffffffff));
        t.update_f32(f32::NAN);
        t.update_f32(f32::from_bits(0xffc00001));
        assert!(t.num_coupons() == 1);
        assert!(t.validate() && s.validate());
    }

    // ---------------------------------------------------------------- C18: image size

    fn rd_u32(b: &[u8], at: usize) -> u32 {
        u32::from_le_bytes([b[at], b[at + 1], b[at + 2], b[at + 3]])
    }

    /// (preamble ints, table words, window words) as the image's own header declares them (layout of the format specification)
    fn parse_header(b: &[u8]) -> (usize, usize, usize) {
        let pre = b[0] as usize;
        let flags = b[5];
        let has_hip = flags & (1 << FLAG_HAS_HIP) != 0;
        let has_table = flags & (1 << FLAG_HAS_TABLE) != 0;
        let has_window = flags & (1 << FLAG_HAS_WINDOW) != 0;
        let mut at = 8usize;
        let mut tw = 0usize;
        let mut ww = 0usize;
        if has_table || has_window {
            at += 4; // num_coupons
            if has_table && has_window {
                at += 4; // table_num_entries
                if has_hip {
                    at += 16;
                }
            }
            if has_table {
                tw = rd_u32(b, at) as usize;
                at += 4;
            }
            if has_window {
                ww = rd_u32(b, at) as usize;
                at += 4;
            }
            if has_hip && !(has_table && has_window) {
                at += 16;
            }
        }
        assert!(at == 4 * pre); // the preamble really is preamble_ints words long
        (pre, tw, ww)
    }

    pub fn image_size_body(lg_k: u8, pairs: &[(u32, u32)], want: Flavor) {
        let mut s = CpcSketch::new(lg_k);
        for &(row, col) in pairs {
            s.row_col_update((row << 6) | col);
        }
        assert!(s.flavor() == want);
        let bytes = s.serialize();
        let (pre, tw, ww) = parse_header(&bytes);
        // the image is exactly preamble + declared sections ...
        assert!(bytes.len() == 4 * (pre + tw + ww));
        // ... the declared sections are exactly the words the compressor produced (no scratch-buffer tail) ...
        let mut c = CompressedState::default();
        c.compress(&s);
        assert!(tw == if c.table_data.is_empty() { 0 } else { c.table_data_words });
        assert!(ww == if c.window_data.is_empty() { 0 } else { c.window_data_words });
        // ... and within the configured bound (holds for these inputs; in general only 99.9 % of the time)
        assert!(bytes.len() <= CpcSketch::max_serialized_bytes(lg_k));
    }

    #[kani::proof]
    #[kani::unwind(33)]
    fn w2_c18_cpc_image_size_sparse() {
        image_size_body(4, &[(9, 5)], Flavor::Sparse);
    }

    #[kani::proof]
    #[kani::unwind(33)]
    fn w2_c18_cpc_image_size_pinned_window_only() {
        image_size_body(4, &[(0, 0), (1, 1), (2, 2), (3, 3), (4, 4), (5, 5), (6, 6), (7, 7)], Flavor::Pinned);
    }

    #[kani::proof]
    #[kani::unwind(33)]
    fn w2_c18_cpc_image_size_pinned_window_and_table() {
        image_size_body(4, &[(0, 0), (1, 1), (2, 2), (3, 12), (4, 4), (5, 5), (6, 6), (15, 7)], Flavor::Pinned);
    }

    // ---------------------------------------------------------------- C11: CpcWrapper reads what serialize wrote

    pub fn wrapper_agrees_body(lg_k: u8, pairs: &[(u32, u32)], want: Flavor, hip: f64, kxp: f64) {
        let mut s = CpcSketch::new(lg_k);
        for &(row, col) in pairs {
            s.row_col_update((row << 6) | col);
        }
        assert!(s.flavor() == want);
        // ANY contents of the HIP registers (the clause is about where they sit in the image, not about their values)
        s.hip_est_accum = hip;
        s.kxp = kxp;
        let bytes = s.serialize();
        if let Ok(w) = crate::cpc::CpcWrapper::new(&bytes) {
            assert!(w.lg_k() == s.lg_k());
            assert!(w.is_empty() == s.is_empty());
            assert!(w.estimate().to_bits() == s.estimate().to_bits());
        } else {
            assert!(false); // a freshly written image must be accepted
        }
    }

    #[kani::proof]
    #[kani::unwind(33)]
    #[kani::stub(alloc::fmt::format, fmt_stub)]
    fn w2_c11_cpc_wrapper_agrees_sparse() {
        let hip: f64 = kani::any();
        let kxp: f64 = kani::any();
        kani::assume(!hip.is_nan());
        wrapper_agrees_body(4, &[(9, 5)], Flavor::Sparse, hip, kxp);
    }

    #[kani::proof]
    #[kani::unwind(33)]
    #[kani::stub(alloc::fmt::format, fmt_stub)]
    fn w2_c11_cpc_wrapper_agrees_hybrid() {
        let hip: f64 = kani::any();
        let kxp: f64 = kani::any();
        kani::assume(!hip.is_nan());
        wrapper_agrees_body(4, &[(9, 5), (2, 13)], Flavor::Hybrid, hip, kxp);
    }

    #[kani::proof]
    #[kani::unwind(33)]
    #[kani::stub(alloc::fmt::format, fmt_stub)]
    fn w2_c11_cpc_wrapper_agrees_pinned_window_and_table() {
        let hip: f64 = kani::any();
        let kxp: f64 = kani::any();
        kani::assume(!hip.is_nan());
        wrapper_agrees_body(4, &[(0, 0), (1, 1), (2, 2), (3, 12), (4, 4), (5, 5), (6, 6), (15, 7)], Flavor::Pinned, hip, kxp);
    }
