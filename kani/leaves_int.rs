    // integer leaves assumed by VX units (DESIGN 2.3); all loop free over the full domain => complete proofs
    #[kani::proof] fn leaf_pc_zero() { assert!(0u64.count_ones() == 0); }
    #[kani::proof]
    fn leaf_pc_set_bit() {
        let w: u64 = kani::any(); let b: u32 = kani::any(); kani::assume(b < 64);
        if w & (1u64 << b) == 0 { assert!((w | (1u64 << b)).count_ones() == w.count_ones() + 1); }
        else { assert!((w | (1u64 << b)).count_ones() == w.count_ones()); }
    }
    #[kani::proof]
    fn leaf_pc_not() { let w: u64 = kani::any(); assert!((!w).count_ones() == 64 - w.count_ones()); assert!(w.count_ones() <= 64); }
    #[kani::proof]
    fn leaf_le_bytes_u16() { let b: [u8; 2] = kani::any(); assert!(u16::from_le_bytes(b) == (b[0] as u16) | ((b[1] as u16) << 8)); let v: u16 = kani::any(); assert!(u16::from_le_bytes(v.to_le_bytes()) == v); }
    #[kani::proof]
    fn leaf_le_bytes_u32() { let b: [u8; 4] = kani::any(); assert!(u32::from_le_bytes(b) == (b[0] as u32) | ((b[1] as u32) << 8) | ((b[2] as u32) << 16) | ((b[3] as u32) << 24)); let v: u32 = kani::any(); assert!(u32::from_le_bytes(v.to_le_bytes()) == v); }
    #[kani::proof]
    fn leaf_le_bytes_u64() {
        let b: [u8; 8] = kani::any();
        let mut e: u64 = 0; let mut i = 0; while i < 8 { e |= (b[i] as u64) << (8 * i); i += 1; }
        assert!(u64::from_le_bytes(b) == e);
        let v: u64 = kani::any(); assert!(u64::from_le_bytes(v.to_le_bytes()) == v);
        assert!(v.to_le_bytes()[0] == (v & 0xff) as u8 && v.to_le_bytes()[7] == (v >> 56) as u8);
    }
    #[kani::proof]
    fn leaf_is_power_of_two() { let n: usize = kani::any(); assert!(n.is_power_of_two() == (n > 0 && n & (n.wrapping_sub(1)) == 0)); if n.is_power_of_two() { assert!(n == 1usize << n.trailing_zeros()); } }
    #[kani::proof]
    fn leaf_rotate_left() { let x: u64 = kani::any(); let n: u32 = kani::any(); kani::assume(n > 0 && n < 64); assert!(x.rotate_left(n) == (x << n) | (x >> (64 - n))); }
