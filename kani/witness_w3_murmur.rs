    // WITNESS (bounded) harnesses for C16 - the MurmurHash3X64128 digest depends only on the byte sequence, not on how the bytes
    // are split over Hasher calls (write, write_u8).
    // Bound: the byte string is a CONCRETE 20-byte pattern and the seed is concrete (9001); the length (0..=20) and the split point
    // are symbolic.  CBMC cannot decide the equality of two MurmurHash3 digests over symbolic bytes or a symbolic seed (two 64-bit
    // multiplier chains per digest: one fixed 3+5 split of 8 symbolic bytes gives no verdict in 10 min, nor does the full
    // enumeration of lengths and splits with only 6 symbolic input bits in 15 min), whereas
    // with concrete bytes the multiplier inputs depend only on the few symbolic length/split bits.
    use std::hash::Hasher as _;

    const WITNESS_MAXLEN: usize = 20;

    // write(d) == write(d[..s]); write(d[s..])
    pub fn murmur_split_write_body(seed: u64, data: [u8; WITNESS_MAXLEN], len: usize, s: usize) {
        let d = &data[..len];
        let mut one = MurmurHash3X64128::with_seed(seed);
        one.write(d);
        let mut two = MurmurHash3X64128::with_seed(seed);
        two.write(&d[..s]);
        two.write(&d[s..]);
        assert!(two.finish128() == one.finish128(), "C16 witness: digest depends on how the input is split over write() calls");
        assert!(two.finish() == one.finish128().0, "C16 witness: finish() is the first half of finish128()");
    }

    // write(d) == write(d[..s]); write_u8(d[s]); [write(d[s+1..]) if non-empty]   (s == len - 1: a `str`-like item, bytes then one terminator byte)
    pub fn murmur_single_write_u8_body(seed: u64, data: [u8; WITNESS_MAXLEN], len: usize, s: usize) {
        let d = &data[..len];
        let mut one = MurmurHash3X64128::with_seed(seed);
        one.write(d);
        let mut two = MurmurHash3X64128::with_seed(seed);
        two.write(&d[..s]);
        two.write_u8(d[s]);
        if s + 1 < len { two.write(&d[s + 1..]); } // no trailing empty write: a stream may END with the write_u8 byte
        assert!(two.finish128() == one.finish128(), "C16 witness: digest depends on whether a byte arrives through write() or write_u8()");
    }

    // write(d) == write_u8(d[0]); write_u8(d[1]); ...
    pub fn murmur_bytewise_write_u8_body(seed: u64, data: [u8; WITNESS_MAXLEN], len: usize) {
        let d = &data[..len];
        let mut one = MurmurHash3X64128::with_seed(seed);
        one.write(d);
        let mut two = MurmurHash3X64128::with_seed(seed);
        let mut j = 0;
        while j < len { two.write_u8(d[j]); j += 1; }
        assert!(two.finish128() == one.finish128(), "C16 witness: digest of byte-wise write_u8() differs from one write()");
    }

    fn witness_pattern() -> [u8; WITNESS_MAXLEN] {
        let mut data = [0u8; WITNESS_MAXLEN];
        let mut i = 0;
        while i < WITNESS_MAXLEN { data[i] = (i as u8).wrapping_mul(37).wrapping_add(11); i += 1; }
        data
    }

    #[kani::proof]
    #[kani::unwind(22)]
    fn witness_c16_murmur_split_write() {
        let len: usize = kani::any(); let s: usize = kani::any();
        kani::assume(len <= WITNESS_MAXLEN && s <= len);
        murmur_split_write_body(9001, witness_pattern(), len, s);
    }

    #[kani::proof]
    #[kani::unwind(22)]
    fn witness_c16_murmur_single_write_u8() {
        let len: usize = kani::any(); let s: usize = kani::any();
        kani::assume(len <= WITNESS_MAXLEN && s < len);
        murmur_single_write_u8_body(9001, witness_pattern(), len, s);
    }

    #[kani::proof]
    #[kani::unwind(22)]
    fn witness_c16_murmur_bytewise_write_u8() {
        let len: usize = kani::any();
        kani::assume(len <= WITNESS_MAXLEN);
        murmur_bytewise_write_u8_body(9001, witness_pattern(), len);
    }
