    // leaves for table / float-threshold functions that VX units assume
    #[kani::proof]
    fn leaf_lg_aux_arr_ints_range() {
        let lg_k: u8 = kani::any(); kani::assume(lg_k >= 4 && lg_k <= 21);
        let r = lg_aux_arr_ints(lg_k);
        assert!(2 <= r && r <= lg_k);
    }
