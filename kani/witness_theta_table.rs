    // WITNESS harnesses (bounded, DESIGN.md 2.4) for C04 on the REAL theta hash table, through the stable crate-internal entry points only:
    //   ThetaHashTable::new / try_insert / trim / reset / iter / num_entries / theta / is_empty
    // (no private helper is named: resize / rebuild / find_in_entries / get_stride may be restructured freely).
    // Configuration: the smallest growing table the constructor gives: lg_nom = MIN_LG_K (5), ResizeFactor::X2 -> 32 slots,
    // growing to 64 slots at the 17th distinct hash; nominal size k = 32.
    //
    // Shape (measured: a SECOND symbolic try_insert makes num_entries symbolic, after which CBMC has to unwind resize + rebuild +
    // select_nth_unstable on every later call and does not finish in 10 min): a CONCRETE history of offers that is chosen to collide
    // (groups of hashes sharing the home slot in the 32- and the 64-slot table, with different probe strides for the two sizes)
    // brings the table into the state of interest, then ONE fully symbolic hash x (all 2^64 values, zero and repeats included) is offered
    // and the whole abstract view is compared with the model "set of distinct non-zero hashes offered":
    //   C04.a  try_insert(x) is true exactly when x is non-zero and was not offered before (a repeat is never counted)
    //   C04.b  num_entries == number of distinct non-zero hashes offered
    //   C04.c  iter() yields exactly num_entries items, each of them an offered hash, and every offered non-zero hash is among them
    //   C04.d  theta stays MAX_THETA while fewer than the rebuild threshold are retained
    pub fn w_table() -> ThetaHashTable { ThetaHashTable::new(MIN_LG_K, ResizeFactor::X2, 1.0, 9001) }

    // 40 distinct non-zero hashes.  Low 6 bits (home slot): groups of three / two share a home; bits 5..=12 (the stride bits of the
    // 32-slot and of the 64-slot table) differ inside a group and differ between the two table sizes.
    pub const HIST: [u64; 40] = [
        0x0000_1041, 0x0000_2081, 0x0000_30c1, 0x0000_4042, 0x0000_5082, 0x0000_60c3, 0x0000_7103, 0x0000_8144,
        0x0000_9184, 0x0000_a1c5, 0x0000_b205, 0x0000_c246, 0x0000_d286, 0x0000_e2c7, 0x0000_f307, 0x0001_0348,
        0x0001_1388, 0x0123_4567_89ab_cde1, 0x0fed_cba9_8765_4321, 0x7fff_ffff_ffff_fffe, 0x0000_0000_0000_0020, 0x0000_0000_0000_0040,
        0x0000_0000_0000_1060, 0x0000_0000_0003_30a1, 0x1111_1111_1111_1111, 0x2222_2222_2222_2222, 0x3333_3333_3333_3333, 0x4444_4444_4444_4444,
        0x5555_5555_5555_5555, 0x6666_6666_6666_6666, 0x7777_7777_7777_7777, 0x0888_8888_8888_8888, 0x0999_9999_9999_9999, 0x0aaa_aaaa_aaaa_aaaa,
        0x0bbb_bbbb_bbbb_bbbb, 0x0ccc_cccc_cccc_cccc, 0x0ddd_dddd_dddd_dddd, 0x0eee_eeee_eeee_eeee, 0x0000_0000_0000_0001, 0x0000_0000_0000_0fff,
    ];

    /// offers the first n history hashes (all distinct and non-zero: each must be accepted) and checks C04.a/b on the way
    pub fn replay(t: &mut ThetaHashTable, n: usize) {
        let mut i = 0;
        while i < n {
            assert!(t.try_insert(HIST[i]), "C04.a a new hash is accepted");
            assert!(t.num_entries() == i + 1, "C04.b num_entries counts the distinct hashes");
            i += 1;
        }
    }
    fn in_hist(n: usize, x: u64) -> bool {
        let mut j = 0; let mut r = false;
        while j < n { if HIST[j] == x { r = true; } j += 1; }
        r
    }
    // NOTE (measured): external iteration (`it.next()` in a loop) over the filtering iterator costs CBMC a quadratic number of unwindings
    // once the contents are symbolic; `fold` is a single loop over the slots.
    pub struct View { pub total: usize, pub alien: usize, pub twice: usize, pub seen: u64, pub seen_x: usize }
    /// one pass over iter(): which history hashes / x are retained, how often, and is anything else retained
    pub fn view(t: &ThetaHashTable, n: usize, x: u64) -> View {
        t.iter().fold(View { total: 0, alien: 0, twice: 0, seen: 0, seen_x: 0 }, |mut v, e| {
            v.total += 1;
            let mut hit = false; let mut j = 0;
            while j < n {
                if HIST[j] == e { hit = true; if (v.seen >> j) & 1 == 1 { v.twice += 1; } v.seen |= 1u64 << j; }
                j += 1;
            }
            if !hit { if x != 0 && e == x { v.seen_x += 1; } else { v.alien += 1; } }
            v
        })
    }
    /// C04.c: retained set == HIST[..n] u {x}, each exactly once (x == 0 stands for "no extra hash")
    pub fn check_view(t: &ThetaHashTable, n: usize, x: u64) {
        let v = view(t, n, x);
        assert!(v.alien == 0, "C04.c every retained entry is an offered hash");
        assert!(v.total == t.num_entries(), "C04.c iter() yields num_entries items");
        assert!(v.twice == 0 && v.seen_x <= 1, "C04.c no hash is retained twice");
        assert!(v.seen == (1u64 << n) - 1, "C04.c every offered hash is retained");
        assert!(v.seen_x == (x != 0) as usize, "C04.c the new hash is retained");
    }
    /// one symbolic offer x on a table that holds exactly HIST[..n]
    pub fn offer_and_check(t: &mut ThetaHashTable, n: usize, x: u64) {
        let fresh = x != 0 && !in_hist(n, x);
        let r = t.try_insert(x);
        assert!(r == fresh, "C04.a try_insert is true exactly for a new non-zero hash");
        assert!(t.num_entries() == n + (fresh as usize), "C04.b num_entries == number of distinct hashes offered");
        assert!(t.theta() == MAX_THETA, "C04.d theta unchanged below the rebuild threshold");
        check_view(t, n, if fresh { x } else { 0 });
    }
    pub fn body_offer(n: usize, x: u64) {
        let mut t = w_table();
        replay(&mut t, n);
        offer_and_check(&mut t, n, x);
    }

    // (1) 9 offers, table stays at 32 slots
    #[kani::proof]
    #[kani::unwind(34)]
    fn w1_theta_offer_small() { body_offer(9, kani::any()); }

    // (2) [not tractable: the symbolic offer as the 17th hash, i.e. a rehash of a table with one symbolic entry - CBMC runs out of memory
    //     (> 14 GB) in the propositional reduction; growth is therefore always replayed on concrete hashes, see (3)]
    // (3) the table has grown (19 hashes offered, rehash of colliding groups done), then the symbolic offer: every hash offered BEFORE
    //     the growth must still be recognised as a repeat
    #[kani::proof]
    #[kani::unwind(66)]
    fn w1_theta_offer_after_growth() { body_offer(19, kani::any()); }

    // (4) reset restores the initial state: empty, theta = MAX_THETA, nothing retained, and the table then behaves like a new one:
    //     the first m history hashes (offered before the reset too) are accepted as new again, then one symbolic offer, whole view
    pub fn body_reset(n: usize, m: usize, x: u64) {
        let mut t = w_table();
        replay(&mut t, n);
        t.reset();
        assert!(t.num_entries() == 0 && t.is_empty(), "C04.reset num_entries == 0");
        assert!(t.theta() == MAX_THETA, "C04.reset theta back to the initial value");
        assert!(t.iter().next().is_none(), "C04.reset no retained entry after reset");
        replay(&mut t, m);
        offer_and_check(&mut t, m, x);
    }
    #[kani::proof]
    #[kani::unwind(66)]
    fn w1_theta_reset_after_growth() { body_reset(19, 3, kani::any()); }
    #[kani::proof]
    #[kani::unwind(66)]
    fn w1_theta_reset_then_regrow() { body_reset(19, 17, kani::any()); }
    #[kani::proof]
    #[kani::unwind(34)]
    fn w1_theta_reset_without_growth() { body_reset(9, 0, kani::any()); }

    // (5) reset from ANY state (fields set directly, every slot symbolic; 32 or 64 slots): afterwards the initial state of w_table()
    pub fn body_reset_any<const N: usize>(a: [u64; N], lg: u8, num: usize, theta: u64, i: usize) {
        let mut t = w_table();
        t.entries = a.to_vec(); t.lg_cur_size = lg;
        t.num_entries = num;
        t.theta = theta;
        t.reset();
        assert!(t.num_entries() == 0 && t.is_empty(), "C04.reset num_entries == 0");
        assert!(t.theta() == MAX_THETA, "C04.reset theta back to the initial value");
        assert!(t.iter().next().is_none(), "C04.reset no retained entry after reset");
        assert!(t.entries.len() == 32 && t.lg_cur_size == 5, "C04.reset initial table size");
        if i < 32 { assert!(t.entries[i] == 0, "C04.reset every slot empty"); }
    }
    #[kani::proof]
    #[kani::unwind(66)]
    fn w1_theta_reset_any_state_64() { body_reset_any::<64>(kani::any(), 6, kani::any(), kani::any(), kani::any()); }
    #[kani::proof]
    #[kani::unwind(34)]
    fn w1_theta_reset_any_state_32() { body_reset_any::<32>(kani::any(), 5, kani::any(), kani::any(), kani::any()); }

    // (6) trim keeps the k smallest: 40 hashes offered (k = 32), trim() -> exactly the 32 smallest offered hashes are retained,
    //     theta == the 33rd smallest, every retained entry < theta; then one symbolic offer of an ALREADY SCREENED hash (x < theta,
    //     as ThetaSketch::update guarantees through hash_and_screen)
    pub fn body_trim(x: u64) {
        let mut t = w_table();
        replay(&mut t, 40);
        t.trim();
        assert!(t.num_entries() == 32, "C04.trim exactly k entries retained");
        let th = t.theta();
        let mut below = 0usize; let mut is_offered = false; let mut j = 0;
        while j < 40 { if HIST[j] < th { below += 1; } if HIST[j] == th { is_offered = true; } j += 1; }
        assert!(below == 32 && is_offered, "C04.trim theta == the (k+1)-th smallest offered hash");
        // retained == { h in HIST : h < theta }, each once
        let v = view(&t, 40, 0);
        assert!(v.alien == 0 && v.twice == 0 && v.total == 32, "C04.trim iter() yields k offered hashes, none twice");
        let mut want = 0u64; let mut j = 0;
        while j < 40 { if HIST[j] < th { want |= 1u64 << j; } j += 1; }
        assert!(v.seen == want, "C04.trim exactly the offered hashes below theta are retained");
        // a trimmed table still rejects repeats and accepts new screened hashes
        if x != 0 && x < th {
            let fresh = !in_hist(40, x);
            let r = t.try_insert(x);
            assert!(r == fresh, "C04.a after trim");
            assert!(t.num_entries() == 32 + (fresh as usize), "C04.b after trim");
        }
    }
    #[kani::proof]
    #[kani::unwind(66)]
    fn w1_theta_trim_keeps_k_smallest() { body_trim(kani::any()); }
