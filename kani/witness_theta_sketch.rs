    // WITNESS harnesses (bounded, DESIGN.md 2.4) for C04 on the REAL ThetaSketch::update_f64 / update_f32 (public API only:
    // builder().lg_k(5).build(), update_f64, update_f32, num_retained, iter, is_empty):
    //   C04.item   the retained set is a function of the ITEMS offered: two doubles that are the same item (equal as IEEE values -
    //              in particular -0.0 and +0.0 - or both NaN; Java doubleToLongBits identity) leave the same retained hash behind,
    //              so a stream containing both retains one hash
    // Two sketches are used (one update each) because a second symbolic try_insert on the same table makes CBMC unwind the rebuild path.
    pub fn retained_after(v: f64) -> (usize, Option<u64>) {
        let mut s = ThetaSketch::builder().lg_k(5).build();
        s.update_f64(v);
        (s.num_retained(), s.iter().next())
    }
    pub fn body_same_item(a: f64, b: f64) {
        let ra = retained_after(a);
        let rb = retained_after(b);
        assert!(ra.0 <= 1 && rb.0 <= 1);
        assert!(ra.0 == rb.0 && ra.1 == rb.1, "C04.item equal doubles are one item: same retained hash");
    }
    // signed zeros: all four sign combinations
    #[kani::proof]
    #[kani::unwind(66)]
    fn w1_theta_f64_signed_zero_one_item() {
        let sa: bool = kani::any(); let sb: bool = kani::any();
        body_same_item(if sa { -0.0 } else { 0.0 }, if sb { -0.0 } else { 0.0 });
    }
    // every NaN payload / sign is the same item
    #[kani::proof]
    #[kani::unwind(66)]
    fn w1_theta_f64_nan_one_item() {
        let a: f64 = kani::any(); let b: f64 = kani::any();
        kani::assume(a.is_nan() && b.is_nan());
        body_same_item(a, b);
    }
    // the f32 entry point is the f64 one on the widened value (so -0.0f32 is +0.0 too)
    #[kani::proof]
    #[kani::unwind(66)]
    fn w1_theta_f32_signed_zero_one_item() {
        let sa: bool = kani::any();
        let mut s = ThetaSketch::builder().lg_k(5).build();
        s.update_f32(if sa { -0.0f32 } else { 0.0f32 });
        let r = retained_after(0.0);
        assert!(s.num_retained() == r.0 && s.iter().next() == r.1, "C04.item -0.0f32 / +0.0f32 are the item +0.0");
    }
    // and the sequence itself, concretely signed (-0.0 first or +0.0 first): the stream {-0.0, +0.0} retains one hash
    #[kani::proof]
    #[kani::unwind(66)]
    fn w1_theta_f64_zero_stream_retains_one() {
        let mut s = ThetaSketch::builder().lg_k(5).build();
        s.update_f64(-0.0);
        s.update_f64(0.0);
        s.update_f64(-1.0 * 0.0);
        assert!(s.num_retained() == 1, "C04.item the stream {-0.0, +0.0} holds one item");
    }
