    // C01 (HLL array mode): lower_bound(s) <= estimate <= upper_bound(s), nesting in s, table sanity.
    // Every harness is loop free, inputs range over their full domain: a SUCCESSFUL verdict is a proof.
    fn any_nsd() -> NumStdDev { match kani::any::<u8>() % 3 { 0 => NumStdDev::One, 1 => NumStdDev::Two, _ => NumStdDev::Three } }
    static mut C01_EST: f64 = 0.0;
    // "for whatever the composite estimator returns": one symbolic finite non-negative value, the same at every call
    fn composite_stub(_e: &HipEstimator, _lg: u8, _cm: u8, _n: u32) -> f64 { unsafe { C01_EST } }
    fn est_any(lo: u8, hi: u8, ooo: bool) -> (HipEstimator, u8) {
        let lg_k: u8 = kani::any(); kani::assume(lg_k >= lo && lg_k <= hi);
        let mut e = HipEstimator::new(lg_k);
        let h: f64 = kani::any(); kani::assume(h.is_finite() && h >= 0.0);
        e.set_hip_accum(h); e.set_out_of_order(ooo);
        unsafe { C01_EST = h; }
        (e, lg_k)
    }
    fn bracket(lo: u8, hi: u8, ooo: bool, upper: bool) {
        let (e, lg_k) = est_any(lo, hi, ooo);
        let s = any_nsd(); let cm: u8 = kani::any(); let n: u32 = kani::any();
        let est = e.estimate(lg_k, cm, n);
        if upper { assert!(est <= e.upper_bound(lg_k, cm, n, s)); } else { assert!(e.lower_bound(lg_k, cm, n, s) <= est); }
    }
    #[kani::proof] fn c01_hll_hip_lb_le_est_lgk_4_12() { bracket(4, 12, false, false); }
    #[kani::proof] fn c01_hll_hip_est_le_ub_lgk_4_12() { bracket(4, 12, false, true); }
    #[kani::proof] fn c01_hll_hip_lb_le_est_lgk_13_21() { bracket(13, 21, false, false); }
    #[kani::proof] fn c01_hll_hip_est_le_ub_lgk_13_21() { bracket(13, 21, false, true); }
    #[kani::proof] #[kani::stub(HipEstimator::get_composite_estimate, composite_stub)] fn c01_hll_ooo_lb_le_est_lgk_4_12() { bracket(4, 12, true, false); }
    #[kani::proof] #[kani::stub(HipEstimator::get_composite_estimate, composite_stub)] fn c01_hll_ooo_est_le_ub_lgk_4_12() { bracket(4, 12, true, true); }
    #[kani::proof] #[kani::stub(HipEstimator::get_composite_estimate, composite_stub)] fn c01_hll_ooo_lb_le_est_lgk_13_21() { bracket(13, 21, true, false); }
    #[kani::proof] #[kani::stub(HipEstimator::get_composite_estimate, composite_stub)] fn c01_hll_ooo_est_le_ub_lgk_13_21() { bracket(13, 21, true, true); }

    // nesting: one float-division comparison per harness (six in one harness did not finish in 25 min)
    fn nest(lo: u8, hi: u8, upper: bool, a: NumStdDev, b: NumStdDev) {
        let ooo: bool = kani::any();
        let lg_k: u8 = kani::any(); kani::assume(lg_k >= lo && lg_k <= hi);
        let mut e = HipEstimator::new(lg_k);
        let h: f64 = kani::any(); kani::assume(h.is_finite() && h >= 0.0);
        e.set_hip_accum(h); e.set_out_of_order(false);
        // in-order: estimate = hip_accum; the out-of-order tables are covered by using get_rel_err directly
        let ra = get_rel_err(lg_k, upper, ooo, a); let rb = get_rel_err(lg_k, upper, ooo, b);
        let xa = h / (1.0 + ra); let xb = h / (1.0 + rb);
        if upper { assert!(xa <= xb); } else { assert!(xb <= xa); }
    }
    #[kani::proof] fn c01_hll_nest_lb2_le_lb1_lgk_4_12() { nest(4, 12, false, NumStdDev::One, NumStdDev::Two); }
    #[kani::proof] fn c01_hll_nest_lb3_le_lb2_lgk_4_12() { nest(4, 12, false, NumStdDev::Two, NumStdDev::Three); }
    #[kani::proof] fn c01_hll_nest_ub1_le_ub2_lgk_4_12() { nest(4, 12, true, NumStdDev::One, NumStdDev::Two); }
    #[kani::proof] fn c01_hll_nest_ub2_le_ub3_lgk_4_12() { nest(4, 12, true, NumStdDev::Two, NumStdDev::Three); }
    #[kani::proof] fn c01_hll_nest_lb2_le_lb1_lgk_13_21() { nest(13, 21, false, NumStdDev::One, NumStdDev::Two); }
    #[kani::proof] fn c01_hll_nest_lb3_le_lb2_lgk_13_21() { nest(13, 21, false, NumStdDev::Two, NumStdDev::Three); }
    #[kani::proof] fn c01_hll_nest_ub1_le_ub2_lgk_13_21() { nest(13, 21, true, NumStdDev::One, NumStdDev::Two); }
    #[kani::proof] fn c01_hll_nest_ub2_le_ub3_lgk_13_21() { nest(13, 21, true, NumStdDev::Two, NumStdDev::Three); }

    // table sanity, every index: LB entries > 0, UB entries in (-1,0) (so 1 + rse > 0), monotone in s
    fn sanity(lo: u8, hi: u8) {
        let lg_k: u8 = kani::any(); kani::assume(lg_k >= lo && lg_k <= hi);
        let ooo: bool = kani::any();
        let l1 = get_rel_err(lg_k, false, ooo, NumStdDev::One); let l2 = get_rel_err(lg_k, false, ooo, NumStdDev::Two); let l3 = get_rel_err(lg_k, false, ooo, NumStdDev::Three);
        let u1 = get_rel_err(lg_k, true, ooo, NumStdDev::One); let u2 = get_rel_err(lg_k, true, ooo, NumStdDev::Two); let u3 = get_rel_err(lg_k, true, ooo, NumStdDev::Three);
        assert!(0.0 < l1 && l1 <= l2 && l2 <= l3);
        assert!(0.0 > u1 && u1 >= u2 && u2 >= u3 && u3 > -1.0);
    }
    #[kani::proof] fn c01_hll_relerr_table_sanity_lgk_4_12() { sanity(4, 12); }
    #[kani::proof] fn c01_hll_relerr_formula_sanity_lgk_13_21() { sanity(13, 21); }
