    // WITNESS for the failing shim contract (shim_theta_out_of_range_as_stated): on the REAL common::binomial_bounds::{lower_bound, upper_bound},
    // theta = NaN (any payload) is NOT rejected by `theta <= 0.0 || theta > 1.0`, the estimate n / theta is NaN, and the returned bound does
    // NOT bracket it: C01.theta.lb_le_est / C01.theta.est_le_ub (proved in unit theta_bounds from the inconsistent pair of assumptions) are
    // false for theta = NaN.  The binomial approximation is stubbed by an arbitrary f64 (the unit treats it as opaque too), so this holds for
    // every n, every NaN, every value of the approximation.  The assertions state the VIOLATION; the harness is expected to verify.
    fn any_lb(_n: u64, _t: f64, _k: NumStdDev) -> f64 { kani::any() }
    fn fmt_stub(_a: core::fmt::Arguments<'_>) -> String { String::new() }
    #[kani::proof]
    #[kani::unwind(3)]
    #[kani::stub(compute_approx_binomial_lower_bound, any_lb)]
    #[kani::stub(alloc::fmt::format, fmt_stub)]
    fn shim_theta_nan_lower_bound_accepted() {
        let n: u64 = kani::any(); let t: f64 = kani::any(); kani::assume(t.is_nan());
        let r = lower_bound(n, t, NumStdDev::Two);
        let est = n as f64 / t;
        if let Ok(lb) = &r { assert!(est.is_nan() && !(*lb <= est)); } else { assert!(false); }   // Ok, although the doc promises Err outside (0, 1]
        core::mem::forget(r);
    }
    #[kani::proof]
    #[kani::unwind(3)]
    #[kani::stub(compute_approx_binomial_upper_bound, any_lb)]
    #[kani::stub(alloc::fmt::format, fmt_stub)]
    fn shim_theta_nan_upper_bound_accepted() {
        let n: u64 = kani::any(); let t: f64 = kani::any(); kani::assume(t.is_nan());
        let r = upper_bound(n, t, NumStdDev::Two, false);
        let est = n as f64 / t;
        if let Ok(ub) = &r { assert!(est.is_nan() && !(est <= *ub)); } else { assert!(false); }
        core::mem::forget(r);
    }
    // control: for every non-NaN theta the REAL range check is exactly `not (0 < theta <= 1)`
    #[kani::proof]
    #[kani::unwind(3)]
    #[kani::stub(compute_approx_binomial_lower_bound, any_lb)]
    #[kani::stub(alloc::fmt::format, fmt_stub)]
    fn shim_theta_range_check_real() {
        let n: u64 = kani::any(); let t: f64 = kani::any(); kani::assume(!t.is_nan());
        let r = lower_bound(n, t, NumStdDev::Two);
        assert!(r.is_ok() == (t > 0.0 && t <= 1.0));
        core::mem::forget(r);
    }
