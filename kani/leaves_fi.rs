    // FI map load threshold (f64): (n as f64 * 0.75) as usize == 3n/4 for every power of two n = 2^lg, lg 3..=40
    #[kani::proof]
    fn leaf_fi_load_threshold() {
        let lg: u8 = kani::any(); kani::assume(lg >= 3 && lg <= 40);
        let n: usize = 1usize << lg;
        assert!((n as f64 * LOAD_FACTOR) as usize == n * 3 / 4);
    }
