    // C10 refutation SEARCH (never counted as proof): TDigestView::{rank, quantile} on two symbolic centroids with sorted finite
    // means inside [min, max], weights <= 2^20, magnitudes <= 2^60, a symbolic finite query.  A counterexample is a violation;
    // no verdict within the budget is reported as "searched, not decided".
    fn two_centroids() -> ([Centroid; 2], f64, f64, u64) {
        let m0: f64 = kani::any(); let m1: f64 = kani::any(); let mn: f64 = kani::any(); let mx: f64 = kani::any();
        let w0: u64 = kani::any(); let w1: u64 = kani::any();
        kani::assume(m0.is_finite() && m1.is_finite() && mn.is_finite() && mx.is_finite());
        kani::assume(mn <= m0 && m0 <= m1 && m1 <= mx);
        kani::assume(mn.abs() <= 1.152921504606846976e18 && mx.abs() <= 1.152921504606846976e18);
        kani::assume(w0 >= 1 && w0 <= (1 << 20) && w1 >= 1 && w1 <= (1 << 20));
        // a single-weight extreme centroid sits at min / max (what do_merge maintains)
        kani::assume(w0 > 1 || m0 == mn); kani::assume(w1 > 1 || m1 == mx);
        ([Centroid { mean: m0, weight: NonZeroU64::new(w0).unwrap() }, Centroid { mean: m1, weight: NonZeroU64::new(w1).unwrap() }], mn, mx, w0 + w1)
    }
    #[kani::proof]
    #[kani::unwind(4)]
    fn c10_search_rank_in_unit_interval() {
        let (cs, mn, mx, w) = two_centroids();
        let view = TDigestView { min: mn, max: mx, centroids: &cs, centroids_weight: w };
        let v: f64 = kani::any(); kani::assume(v.is_finite());
        if let Some(r) = view.rank(v) { assert!(r >= 0.0 && r <= 1.0); }
    }
    #[kani::proof]
    #[kani::unwind(4)]
    fn c10_search_quantile_in_range() {
        let (cs, mn, mx, w) = two_centroids();
        let view = TDigestView { min: mn, max: mx, centroids: &cs, centroids_weight: w };
        let q: f64 = kani::any(); kani::assume(q >= 0.0 && q <= 1.0);
        if let Some(x) = view.quantile(q) { assert!(x >= mn && x <= mx); }
    }
    #[kani::proof]
    #[kani::unwind(4)]
    fn c10_search_rank_monotone() {
        let (cs, mn, mx, w) = two_centroids();
        let view = TDigestView { min: mn, max: mx, centroids: &cs, centroids_weight: w };
        let a: f64 = kani::any(); let b: f64 = kani::any(); kani::assume(a.is_finite() && b.is_finite() && a <= b);
        if let (Some(ra), Some(rb)) = (view.rank(a), view.rank(b)) { assert!(ra <= rb); }
    }
    #[kani::proof]
    #[kani::unwind(4)]
    fn c10_search_quantile_monotone() {
        let (cs, mn, mx, w) = two_centroids();
        let view = TDigestView { min: mn, max: mx, centroids: &cs, centroids_weight: w };
        let a: f64 = kani::any(); let b: f64 = kani::any(); kani::assume(a >= 0.0 && a <= b && b <= 1.0);
        if let (Some(qa), Some(qb)) = (view.quantile(a), view.quantile(b)) { assert!(qa <= qb); }
    }
