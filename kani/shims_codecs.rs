    // Discharge of the ASSUMED contracts of the byte-codec shims vx_{u16,u32,u64,i32,i64,f32,f64}_{from,to}_{le,be}_bytes of the VX units
    // (bloom_codec, cm_codec, cpc_codec, fi_codec, fi_items, hll_array6, hll_codec4, hll_codec8, hll_codec_coupons, hash_murmur, td_codec,
    // theta_codec).  Every unit carries the SAME interpreted definitions (checked textually: one definition per name over all units);
    // they are transcribed below 1:1 (Seq<u8> -> byte slices, `int` arithmetic -> i128).  All harnesses: loop-free, full domain => COMPLETE.
    fn le16_bytes(n: u16) -> [u8; 2] { [(n & 0xff) as u8, ((n >> 8) & 0xff) as u8] }
    fn le32_bytes(n: u32) -> [u8; 4] { [(n & 0xff) as u8, ((n >> 8) & 0xff) as u8, ((n >> 16) & 0xff) as u8, ((n >> 24) & 0xff) as u8] }
    fn le64_bytes(n: u64) -> [u8; 8] {
        let a = le32_bytes((n & 0xffff_ffff) as u32); let b = le32_bytes((n >> 32) as u32);
        [a[0], a[1], a[2], a[3], b[0], b[1], b[2], b[3]]
    }
    fn be16_bytes(n: u16) -> [u8; 2] { [((n >> 8) & 0xff) as u8, (n & 0xff) as u8] }
    fn be32_bytes(n: u32) -> [u8; 4] { [((n >> 24) & 0xff) as u8, ((n >> 16) & 0xff) as u8, ((n >> 8) & 0xff) as u8, (n & 0xff) as u8] }
    fn le16_val(b: &[u8]) -> u16 { (b[0] as u16) | ((b[1] as u16) << 8) }
    fn le32_val(b: &[u8]) -> u32 { (b[0] as u32) | ((b[1] as u32) << 8) | ((b[2] as u32) << 16) | ((b[3] as u32) << 24) }
    fn le64_val(b: &[u8]) -> u64 { (le32_val(&b[0..4]) as u64) | ((le32_val(&b[4..8]) as u64) << 32) }
    fn be16_val(b: &[u8]) -> u16 { (b[1] as u16) | ((b[0] as u16) << 8) }
    fn be32_val(b: &[u8]) -> u32 { (b[3] as u32) | ((b[2] as u32) << 8) | ((b[1] as u32) << 16) | ((b[0] as u32) << 24) }
    fn be64_val(b: &[u8]) -> u64 { (be32_val(&b[4..8]) as u64) | ((be32_val(&b[0..4]) as u64) << 32) }
    // two's complement readings (bloom_codec i32_*, fi_items i64_*, cm_codec enc64/dec64); `int` of the spec = i128 here
    fn i32_bits(n: i32) -> u32 { if n >= 0 { n as u32 } else { ((n as i128) + 0x1_0000_0000) as u32 } }
    fn i32_of_bits(u: u32) -> i32 { if u < 0x8000_0000 { u as i32 } else { ((u as i128) - 0x1_0000_0000) as i32 } }
    fn i64_bits(n: i64) -> u64 { if n >= 0 { n as u64 } else { ((n as i128) + 0x1_0000_0000_0000_0000) as u64 } }
    fn i64_of_bits(u: u64) -> i64 { if u < 0x8000_0000_0000_0000 { u as i64 } else { ((u as i128) - 0x1_0000_0000_0000_0000) as i64 } }
    fn enc64(v: i128) -> u64 { if v >= 0 { v as u64 } else { (v + 0x1_0000_0000_0000_0000) as u64 } }
    fn dec64(signed: bool, u: u64) -> i128 { if signed && u >= 0x8000_0000_0000_0000 { (u as i128) - 0x1_0000_0000_0000_0000 } else { u as i128 } }
    // hll_array6 / hash_murmur variants
    fn le16(b0: u8, b1: u8) -> u16 { (b0 as u16) | ((b1 as u16) << 8) }
    fn lo8(x: u16) -> u8 { (x & 0xff) as u8 }
    fn hi8(x: u16) -> u8 { (x >> 8) as u8 }
    fn le_bytes8(x: u64) -> [u8; 8] {
        [(x & 0xff) as u8, ((x >> 8) & 0xff) as u8, ((x >> 16) & 0xff) as u8, ((x >> 24) & 0xff) as u8,
         ((x >> 32) & 0xff) as u8, ((x >> 40) & 0xff) as u8, ((x >> 48) & 0xff) as u8, ((x >> 56) & 0xff) as u8]
    }

    // ---- unsigned, little endian ----
    #[kani::proof]
    fn shim_u16_from_le_bytes() { let b: [u8; 2] = kani::any(); let r = u16::from_le_bytes(b); assert!(r == le16_val(&b)); assert!(r == le16(b[0], b[1])); }
    #[kani::proof]
    fn shim_u16_to_le_bytes() { let n: u16 = kani::any(); let r = n.to_le_bytes(); assert!(r == le16_bytes(n)); assert!(r[0] == lo8(n) && r[1] == hi8(n)); }
    #[kani::proof]
    fn shim_u32_from_le_bytes() { let b: [u8; 4] = kani::any(); assert!(u32::from_le_bytes(b) == le32_val(&b)); }
    #[kani::proof]
    fn shim_u32_to_le_bytes() { let n: u32 = kani::any(); assert!(n.to_le_bytes() == le32_bytes(n)); }
    #[kani::proof]
    fn shim_u64_from_le_bytes() { let b: [u8; 8] = kani::any(); assert!(u64::from_le_bytes(b) == le64_val(&b)); }
    #[kani::proof]
    fn shim_u64_to_le_bytes() { let n: u64 = kani::any(); assert!(n.to_le_bytes() == le64_bytes(n)); assert!(n.to_le_bytes() == le_bytes8(n)); }
    // ---- unsigned, big endian (td_codec, theta_codec) ----
    #[kani::proof]
    fn shim_u16_from_be_bytes() { let b: [u8; 2] = kani::any(); assert!(u16::from_be_bytes(b) == be16_val(&b)); }
    #[kani::proof]
    fn shim_u16_to_be_bytes() { let n: u16 = kani::any(); assert!(n.to_be_bytes() == be16_bytes(n)); }
    #[kani::proof]
    fn shim_u32_from_be_bytes() { let b: [u8; 4] = kani::any(); assert!(u32::from_be_bytes(b) == be32_val(&b)); }
    #[kani::proof]
    fn shim_u32_to_be_bytes() { let n: u32 = kani::any(); assert!(n.to_be_bytes() == be32_bytes(n)); }
    #[kani::proof]
    fn shim_u64_from_be_bytes() { let b: [u8; 8] = kani::any(); assert!(u64::from_be_bytes(b) == be64_val(&b)); }
    // ---- signed ----
    #[kani::proof]
    fn shim_i32_from_le_bytes() { let b: [u8; 4] = kani::any(); assert!(i32::from_le_bytes(b) == i32_of_bits(le32_val(&b))); }
    #[kani::proof]
    fn shim_i32_to_le_bytes() { let n: i32 = kani::any(); assert!(n.to_le_bytes() == le32_bytes(i32_bits(n))); }
    #[kani::proof]
    fn shim_i64_from_le_bytes() {
        let b: [u8; 8] = kani::any(); let r = i64::from_le_bytes(b);
        assert!(r == i64_of_bits(le64_val(&b)));            // fi_items
        assert!((r as i128) == dec64(true, le64_val(&b)));  // cm_codec
    }
    #[kani::proof]
    fn shim_i64_to_le_bytes() {
        let n: i64 = kani::any(); let r = n.to_le_bytes();
        assert!(r == le64_bytes(i64_bits(n)));              // fi_items
        assert!(r == le64_bytes(enc64(n as i128)));         // cm_codec
    }
    // ---- floats: the units keep f64_bits / f64_of_bits / f32_of_bits UNINTERPRETED, tied only by the two round-trip axioms; the
    // intended interpretation is f64::to_bits / f64::from_bits (f32 likewise).  Under it:
    //   vx_f64_from_le_bytes: r == f64_of_bits(le64_val(b))     <=  from_le_bytes(b).to_bits() == le64_val(b)  (bit identity, NaN payloads included)
    //   vx_f64_to_le_bytes:   r@ == le64_bytes(f64_bits(n))     <=  n.to_le_bytes() == le64_bytes(n.to_bits())
    #[kani::proof]
    fn shim_f64_from_le_bytes() { let b: [u8; 8] = kani::any(); let r = f64::from_le_bytes(b); assert!(r.to_bits() == le64_val(&b)); assert!(r.to_bits() == f64::from_bits(le64_val(&b)).to_bits()); }
    #[kani::proof]
    fn shim_f64_from_be_bytes() { let b: [u8; 8] = kani::any(); let r = f64::from_be_bytes(b); assert!(r.to_bits() == be64_val(&b)); assert!(r.to_bits() == f64::from_bits(be64_val(&b)).to_bits()); }
    #[kani::proof]
    fn shim_f64_to_le_bytes() { let n: f64 = kani::any(); assert!(n.to_le_bytes() == le64_bytes(n.to_bits())); }
    #[kani::proof]
    fn shim_f32_from_le_bytes() { let b: [u8; 4] = kani::any(); let r = f32::from_le_bytes(b); assert!(r.to_bits() == le32_val(&b)); assert!(r.to_bits() == f32::from_bits(le32_val(&b)).to_bits()); }
    #[kani::proof]
    fn shim_f32_from_be_bytes() { let b: [u8; 4] = kani::any(); let r = f32::from_be_bytes(b); assert!(r.to_bits() == be32_val(&b)); assert!(r.to_bits() == f32::from_bits(be32_val(&b)).to_bits()); }
    // axiom_f64_bits_roundtrip(b):     f64_bits(f64_of_bits(b)) == b    for EVERY 64-bit pattern (all NaN payloads, signalling or quiet)
    #[kani::proof]
    fn shim_axiom_f64_bits_roundtrip() { let b: u64 = kani::any(); assert!(f64::from_bits(b).to_bits() == b); }
    // axiom_f64_of_bits_roundtrip(x):  f64_of_bits(f64_bits(x)) == x    where `==` is Verus spec equality on f64 = identity of the value,
    // i.e. of the bit pattern.  What holds: from_bits(x.to_bits()) has the same bits as x, for every x.  What does NOT hold for NaN is the
    // IEEE comparison (NaN != NaN): the second assertion states exactly that, so the axiom must never be read with IEEE `==`.
    #[kani::proof]
    fn shim_axiom_f64_of_bits_roundtrip() {
        let x: f64 = kani::any(); let y = f64::from_bits(x.to_bits());
        assert!(y.to_bits() == x.to_bits());
        assert!((y == x) == !x.is_nan());
    }
    // vx_f64_infinity / vx_f64_neg_infinity (td_codec): f64_bits(r) == INF_BITS / NEG_INF_BITS
    #[kani::proof]
    fn shim_f64_infinity_bits() { assert!(f64::INFINITY.to_bits() == 0x7ff0_0000_0000_0000u64); assert!(f64::NEG_INFINITY.to_bits() == 0xfff0_0000_0000_0000u64); }
