    // WITNESS (bounded) harnesses for C10 - cdf/pmf accept EVERY strictly increasing list of finite split points (no tolerance,
    // no minimum gap) and return one more value than there are split points.  Sketch states are the cheapest ones that reach the
    // split-point check through the public entry points: an empty TDigestMut, and a frozen TDigest holding one centroid
    // (rank of a one-centroid digest needs comparisons only, so all finite f64 split points are covered bit-precisely).

    fn one_centroid_digest(v: f64) -> TDigest {
        TDigest {
            k: 100,
            reverse_merge: false,
            min: v,
            max: v,
            centroids: vec![Centroid { mean: v, weight: NonZeroU64::new(1).unwrap() }],
            centroids_weight: 1,
        }
    }

    // empty mutable sketch: cdf / pmf of a strictly increasing pair must return None (not panic)
    pub fn td_split_points_empty_body(a: f64, b: f64) {
        let mut sk = TDigestMut::new(10);
        assert!(sk.cdf(&[a, b]).is_none(), "C10 witness: cdf of an empty sketch");
        assert!(sk.pmf(&[a, b]).is_none(), "C10 witness: pmf of an empty sketch");
    }

    // one-centroid frozen digest: cdf of a strictly increasing triple = nondecreasing ranks in {0, 0.5, 1} followed by 1.0
    pub fn td_split_points_cdf_body(v: f64, a: f64, b: f64, c: f64) {
        let d = one_centroid_digest(v);
        if let Some(r) = d.cdf(&[a, b, c]) {
            assert!(r.len() == 4, "C10 witness: cdf returns one more value than split points");
            assert!(r[0] <= r[1] && r[1] <= r[2] && r[2] <= r[3] && r[3] == 1.0, "C10 witness: cdf is nondecreasing and ends at 1");
            assert!(r[0] >= 0.0);
            assert!(r[0] == d.rank(a).unwrap() && r[1] == d.rank(b).unwrap() && r[2] == d.rank(c).unwrap(), "C10 witness: cdf agrees with rank");
        } else {
            assert!(false, "C10 witness: cdf of a non-empty digest is Some");
        }
    }

    pub fn td_split_points_pmf_body(v: f64, a: f64, b: f64) {
        let d = one_centroid_digest(v);
        if let Some(r) = d.pmf(&[a, b]) {
            assert!(r.len() == 3, "C10 witness: pmf returns one more value than split points");
            assert!(r[0] >= 0.0 && r[1] >= 0.0 && r[2] >= 0.0, "C10 witness: pmf masses are non-negative");
            assert!(r[0] + r[1] + r[2] == 1.0, "C10 witness: pmf masses add up to 1");
        } else {
            assert!(false, "C10 witness: pmf of a non-empty digest is Some");
        }
    }

    #[kani::proof]
    #[kani::unwind(6)]
    fn witness_c10_split_points_empty() {
        let a: f64 = kani::any(); let b: f64 = kani::any();
        kani::assume(a.is_finite() && b.is_finite() && a < b);
        td_split_points_empty_body(a, b);
    }

    #[kani::proof]
    #[kani::unwind(6)]
    fn witness_c10_split_points_cdf() {
        let v: f64 = kani::any(); let a: f64 = kani::any(); let b: f64 = kani::any(); let c: f64 = kani::any();
        kani::assume(v.is_finite() && a.is_finite() && b.is_finite() && c.is_finite() && a < b && b < c);
        td_split_points_cdf_body(v, a, b, c);
    }

    #[kani::proof]
    #[kani::unwind(6)]
    fn witness_c10_split_points_pmf() {
        let v: f64 = kani::any(); let a: f64 = kani::any(); let b: f64 = kani::any();
        kani::assume(v.is_finite() && a.is_finite() && b.is_finite() && a < b);
        td_split_points_pmf_body(v, a, b);
    }
