    // Discharge of the `assume_specification`s (std functions) with semantic content, and of the f64 comparison axioms, used by the VX units.
    // Each harness calls the REAL std function on symbolic inputs and asserts the `ensures` of the contract, translated to executable Rust
    // (`int` arithmetic -> u128/i128, Seq -> slices, multiset equality -> equal number of occurrences of a universally quantified value w).

    // ---------------- integers (complete) ----------------
    // fi_map / fi_sketch / hll_union: usize::trailing_zeros(n) == j when n == 2^j, j < 64; usize::is_power_of_two(n) <==> exists j < 64: n == 2^j
    #[kani::proof]
    fn shim_trailing_zeros_pow2() { let j: u32 = kani::any(); kani::assume(j < 64); let n: usize = 1usize << j; assert!(n.trailing_zeros() == j); assert!(n.is_power_of_two()); }
    #[kani::proof]
    fn shim_is_power_of_two_exists() {
        let n: usize = kani::any();
        // (<==) is shim_trailing_zeros_pow2; (==>): the witness is j = trailing_zeros(n)
        if n.is_power_of_two() { let j = n.trailing_zeros(); assert!(j < 64 && n == 1usize << j); }
        // and no other value is a power of two: n == 2^j for some j < 64  <==>  exactly one bit set
        let j: u32 = kani::any(); kani::assume(j < 64);
        if n == 1usize << j { assert!(n.is_power_of_two()); }
    }
    // bloom_codec / bloom_core / theta_codec: {u64,usize,u32}::div_ceil(a, b) == (a + b - 1) / b over the integers (b > 0).
    // Full-domain proofs with a SYMBOLIC divisor are out of reach of the SAT back end (two 64-bit divider circuits have to be proved
    // equivalent): r*b <= a+b-1 < (r+1)*b: no verdict in 10 min (u32 and u64); even div_ceil(a,b) == a/b + (a%b != 0): no verdict in 500 s.
    // What is proved: (1) BOUNDED: the contract for all operands below 2^12 (in the real u64 / usize / u32 types);
    #[kani::proof]
    fn shim_div_ceil_small_operands() {
        let a: u64 = kani::any(); let b: u64 = kani::any(); kani::assume(b > 0 && a < 4096 && b < 4096);
        assert!(a.div_ceil(b) == (a + b - 1) / b);
        assert!((a as usize).div_ceil(b as usize) == ((a + b - 1) / b) as usize);
        assert!((a as u32).div_ceil(b as u32) == ((a + b - 1) / b) as u32);
    }
    // (2) COMPLETE in the dividend for the divisors of the call sites (next harness).
    // the divisor of every call site is the constant 64 (bloom: num_bits.div_ceil(64)); theta_codec: usize::div_ceil(_, 8) / u32::div_ceil(_, 8)
    #[kani::proof]
    fn shim_div_ceil_u64_by_const() {
        let a: u64 = kani::any();
        assert!((a.div_ceil(64) as u128) == ((a as u128) + 63) / 64);
        assert!((a.div_ceil(8) as u128) == ((a as u128) + 7) / 8);
        let u: usize = kani::any();
        assert!((u.div_ceil(8) as u128) == ((u as u128) + 7) / 8);
        assert!((u.div_ceil(64) as u128) == ((u as u128) + 63) / 64);
    }
    // theta_table: core::cmp::min(a, b) == if a > b { b } else { a }   (T: Ord; instances u8 (the call site), u64, usize, i64)
    #[kani::proof]
    fn shim_cmp_min() {
        let a: u8 = kani::any(); let b: u8 = kani::any(); assert!(core::cmp::min(a, b) == if a > b { b } else { a });
        let a: u64 = kani::any(); let b: u64 = kani::any(); assert!(core::cmp::min(a, b) == if a > b { b } else { a });
        let a: usize = kani::any(); let b: usize = kani::any(); assert!(core::cmp::min(a, b) == if a > b { b } else { a });
        let a: i64 = kani::any(); let b: i64 = kani::any(); assert!(core::cmp::min(a, b) == if a > b { b } else { a });
        // usize::min method used by fi_map purge / murmur (`rem.min(8)`)
        let a: usize = kani::any(); let b: usize = kani::any(); assert!(a.min(b) == if a > b { b } else { a });
    }
    // cpc_core / cpc_pairtable / fi_map: Option::replace, mem::replace, mem::take
    #[kani::proof]
    fn shim_mem_replace_take() {
        let o0: Option<u64> = kani::any(); let v: u64 = kani::any();
        let mut o = o0; let r = o.replace(v); assert!(r == o0 && o == Some(v));
        let d0: u64 = kani::any(); let mut d = d0; let r = core::mem::replace(&mut d, v); assert!(r == d0 && d == v);
        let mut d = d0; let r = core::mem::take(&mut d); assert!(r == d0 && d == 0);
    }

    // ---------------- slices (bounded) ----------------
    // bloom_core / theta_table: <[T]>::fill
    #[kani::proof]
    #[kani::unwind(10)]
    fn shim_slice_fill() {
        let mut a: [u64; 8] = kani::any(); let n: usize = kani::any(); kani::assume(n <= 8); let v: u64 = kani::any();
        let before = a;
        a[..n].fill(v);
        let i: usize = kani::any(); kani::assume(i < 8);
        assert!(if i < n { a[i] == v } else { a[i] == before[i] });
    }
    // fi_codec / td_codec: <[T]>::contains(&x) == exists i: s[i] == x   (T = u8: ensure_preamble_longs_in(&[..], actual))
    #[kani::proof]
    #[kani::unwind(8)]
    fn shim_slice_contains() {
        let a: [u8; 6] = kani::any(); let n: usize = kani::any(); kani::assume(n <= 6); let x: u8 = kani::any();
        let r = a[..n].contains(&x);
        let mut e = false; let mut i = 0; while i < n { if a[i] == x { e = true; } i += 1; }
        assert!(r == e);
        let b: [u64; 6] = kani::any(); let y: u64 = kani::any();
        let r = b[..n].contains(&y);
        let mut e = false; let mut i = 0; while i < n { if b[i] == y { e = true; } i += 1; }
        assert!(r == e);
    }
    // td_int: <[T]>::reverse
    #[kani::proof]
    #[kani::unwind(8)]
    fn shim_slice_reverse() {
        let mut a: [u64; 6] = kani::any(); let n: usize = kani::any(); kani::assume(n <= 6);
        let before = a;
        a[..n].reverse();
        let i: usize = kani::any(); kani::assume(i < 6);
        assert!(if i < n { a[i] == before[n - 1 - i] } else { a[i] == before[i] });
    }
    // theta_sketch (assume_specification <[T]>::sort_unstable, T = u64): permutation + ascending.  The slice length is CONCRETE in each case
    // (0..=6): with a symbolic length CBMC symbolically executes the whole pattern-defeating quicksort (no verdict in 10 min).
    fn sort_unstable_case<const N: usize>() {
        let mut a: [u64; N] = kani::any(); let before = a; let w: u64 = kani::any();
        a.sort_unstable();
        let mut c0 = 0; let mut c1 = 0; let mut i = 0;
        while i < N { if before[i] == w { c0 += 1; } if a[i] == w { c1 += 1; } if i + 1 < N { assert!(a[i] <= a[i + 1]); } i += 1; }
        assert!(c0 == c1);
    }
    #[kani::proof]
    #[kani::unwind(8)]
    fn shim_sort_unstable_u64() {
        sort_unstable_case::<0>(); sort_unstable_case::<1>(); sort_unstable_case::<2>(); sort_unstable_case::<3>();
        sort_unstable_case::<4>(); sort_unstable_case::<5>(); sort_unstable_case::<6>();
    }
    // theta_table / fi_map (assume_specification <[T]>::select_nth_unstable, T = u64): |left| == index, left ++ [kth] ++ right is a permutation
    // of the input, left <= kth <= right elementwise, and (fi_map clause) the slice afterwards IS left ++ [kth] ++ right.
    // Concrete lengths 1..=5, every index.
    fn select_nth_case<const N: usize>() {
        let mut a: [u64; N] = kani::any();
        let idx: usize = kani::any(); kani::assume(idx < N);
        let before = a; let w: u64 = kani::any();
        let mut parts = [0u64; N]; let mut c1 = 0;
        {
            let (l, m, r) = a.select_nth_unstable(idx);
            assert!(l.len() == idx);
            assert!(l.len() + 1 + r.len() == N);
            let mut i = 0;
            while i < l.len() { assert!(l[i] <= *m); if l[i] == w { c1 += 1; } parts[i] = l[i]; i += 1; }
            if *m == w { c1 += 1; } parts[idx] = *m;
            let mut i = 0;
            while i < r.len() { assert!(*m <= r[i]); if r[i] == w { c1 += 1; } parts[idx + 1 + i] = r[i]; i += 1; }
        }
        let mut c0 = 0; let mut i = 0;
        while i < N { if before[i] == w { c0 += 1; } assert!(a[i] == parts[i]); i += 1; }
        assert!(c0 == c1);
    }
    #[kani::proof]
    #[kani::unwind(7)]
    fn shim_select_nth_unstable() { select_nth_case::<1>(); select_nth_case::<2>(); select_nth_case::<3>(); select_nth_case::<4>(); select_nth_case::<5>(); }
    // hash_xxh64: <[T]>::chunks_exact(32) / ChunksExact::next / ChunksExact::remainder with the ghost state ce_rest (= the not yet yielded
    // suffix) and ce_size: next() yields the first ce_size elements of ce_rest while |ce_rest| >= ce_size, then None (ce_rest unchanged);
    // remainder() == ce_rest once |ce_rest| < ce_size.  Sub-slices are compared by (pointer, length): identity, stronger than equal contents.
    #[kani::proof]
    #[kani::unwind(5)]
    fn shim_chunks_exact_32() {
        let bytes: [u8; 70] = kani::any(); let n: usize = kani::any(); kani::assume(n <= 70);
        let s = &bytes[..n];
        let mut c = s.chunks_exact(32);
        let mut rest = s;                       // ce_rest
        while rest.len() >= 32 {
            match c.next() { Some(ch) => { assert!(ch.len() == 32 && ch.as_ptr() == rest.as_ptr()); } None => { assert!(false); } }
            rest = &rest[32..];
        }
        assert!(c.next().is_none());
        let rem = c.remainder();
        assert!(rem.len() == rest.len() && rem.as_ptr() == rest.as_ptr());
        assert!(c.next().is_none());            // None is stable and leaves ce_rest unchanged
        assert!(c.remainder().len() == rest.len());
    }
    // the same for every chunk size 1..=5 (the contract is stated for any size > 0), slices of <= 12 elements
    #[kani::proof]
    #[kani::unwind(14)]
    fn shim_chunks_exact_any_size() {
        let bytes: [u8; 12] = kani::any(); let n: usize = kani::any(); kani::assume(n <= 12);
        let k: usize = kani::any(); kani::assume(1 <= k && k <= 5);
        let s = &bytes[..n];
        let mut c = s.chunks_exact(k);
        let mut rest = s;
        while rest.len() >= k {
            match c.next() { Some(ch) => { assert!(ch.len() == k && ch.as_ptr() == rest.as_ptr()); } None => { assert!(false); } }
            rest = &rest[k..];
        }
        assert!(c.next().is_none());
        let rem = c.remainder();
        assert!(rem.len() == rest.len() && rem.as_ptr() == rest.as_ptr());
    }
    // Vec::into_boxed_slice: r@ == v@ (bloom, hll units)
    #[kani::proof]
    #[kani::unwind(6)]
    fn shim_into_boxed_slice() {
        let a: [u32; 4] = kani::any(); let n: usize = kani::any(); kani::assume(n <= 4);
        let v: Vec<u32> = a[..n].to_vec();
        let b: Box<[u32]> = v.into_boxed_slice();
        assert!(b.len() == n);
        let i: usize = kani::any(); kani::assume(i < n); assert!(b[i] == a[i]);
    }

    // ---------------- f64 comparison facts (complete, every pair of bit patterns) ----------------
    // td_codec axiom_lt_irreflexive: !(a < a);  f_lt(a, b) is `a.partial_cmp(&b) == Some(Less)`
    #[kani::proof]
    fn shim_axiom_lt_irreflexive() { let a: f64 = kani::any(); assert!(!(a < a)); assert!(a.partial_cmp(&a) != Some(core::cmp::Ordering::Less)); }
    // td_int axiom_lt_not_nan: a < b ==> neither is NaN
    #[kani::proof]
    fn shim_axiom_lt_not_nan() {
        let a: f64 = kani::any(); let b: f64 = kani::any();
        if a < b { assert!(!a.is_nan() && !b.is_nan()); }
        if a.partial_cmp(&b) == Some(core::cmp::Ordering::Less) { assert!(!a.is_nan() && !b.is_nan()); }
    }
    // axiom_f64_cmp_deterministic (obeys_partial_cmp_spec): the operators <, <=, >, >= are the ones derived from partial_cmp, which is a
    // function of the two values: None iff a NaN is involved, otherwise the IEEE order (-0.0 == +0.0)
    #[kani::proof]
    fn shim_axiom_f64_cmp_deterministic() {
        use core::cmp::Ordering::*;
        let a: f64 = kani::any(); let b: f64 = kani::any();
        let p = a.partial_cmp(&b);
        assert!((a < b) == (p == Some(Less)));
        assert!((a > b) == (p == Some(Greater)));
        assert!((a <= b) == (p == Some(Less) || p == Some(Equal)));
        assert!((a >= b) == (p == Some(Greater) || p == Some(Equal)));
        assert!((a == b) == (p == Some(Equal)));
        assert!(p.is_none() == (a.is_nan() || b.is_nan()));
        // same bits => same answer (determinism in the value)
        let a2 = f64::from_bits(a.to_bits()); let b2 = f64::from_bits(b.to_bits());
        assert!(a2.partial_cmp(&b2) == p);
    }
    // td_codec / td_int: f64::is_nan / is_infinite are functions of the value with their IEEE meaning
    #[kani::proof]
    fn shim_f64_is_nan_is_infinite() {
        let x: f64 = kani::any(); let b = x.to_bits();
        let exp = (b >> 52) & 0x7ff; let man = b & 0xf_ffff_ffff_ffff;
        assert!(x.is_nan() == (exp == 0x7ff && man != 0));
        assert!(x.is_infinite() == (exp == 0x7ff && man == 0));
        assert!(x.is_nan() == (x != x));
    }
    // cpc_union2: u64::count_ones(w) == pcn(w, 64), pcn = number of set bits among the low n bits (interpreted recursive spec)
    #[kani::proof]
    #[kani::unwind(66)]
    fn shim_count_ones_pcn() {
        let w: u64 = kani::any();
        let mut pcn: u32 = 0; let mut n = 0u32;
        while n < 64 { if (w >> n) & 1 == 1 { pcn += 1; } n += 1; }
        assert!(w.count_ones() == pcn);
    }
    // hll_array4: Option::get_or_insert_with (Some(v): v is returned and kept, closure not run; None: the closure value is stored and returned)
    #[kani::proof]
    fn shim_get_or_insert_with() {
        let o0: Option<u64> = kani::any(); let v: u64 = kani::any();
        let mut o = o0; let mut ran = false;
        let r: u64 = *o.get_or_insert_with(|| { ran = true; v });
        match o0 { Some(x) => { assert!(r == x && o == Some(x) && !ran); } None => { assert!(r == v && o == Some(v) && ran); } }
        // the returned reference aliases the stored value: *final(o) == Some(*final(r))
        let mut o = o0; { let p = o.get_or_insert_with(|| v); *p = 7; } assert!(o == Some(7));
    }
    // hll_dispatch vx_map_array4/6/8: `r.map(Mode::ArrayN)`: Ok(a) -> Ok(f(a)), Err(e) -> Err(e)
    #[kani::proof]
    fn shim_result_map() {
        #[derive(PartialEq, Clone, Copy)] enum M { A(u8), B(u8) }
        let r: Result<u8, u16> = if kani::any() { Ok(kani::any()) } else { Err(kani::any()) };
        let m = r.map(M::A);
        match r { Ok(a) => { assert!(m == Ok(M::A(a))); } Err(e) => { assert!(m == Err(e)); } }
    }
    // fi_items: String::from_utf8 / as_bytes / len and axiom_utf8 with utf8(s) := s.as_bytes(), valid_utf8(v) := std::str::from_utf8(v).is_ok():
    // from_utf8(v) is Ok(s) with utf8(s) == v exactly when v is valid, Err otherwise; len == number of bytes; strings with equal bytes are equal.
    fn string_utf8_case<const N: usize>() {
        let a: [u8; N] = kani::any();
        let valid = core::str::from_utf8(&a).is_ok();
        let r = String::from_utf8(a.to_vec());
        assert!(r.is_ok() == valid);
        if let Ok(s) = r {
            assert!(s.len() == N);
            let b = s.as_bytes(); assert!(b.len() == N);
            let i: usize = kani::any(); if i < N { assert!(b[i] == a[i]); }
            assert!(core::str::from_utf8(b).is_ok());          // valid_utf8(utf8(s))
        }
    }
    #[kani::proof]
    #[kani::unwind(8)]
    fn shim_string_utf8() { string_utf8_case::<0>(); string_utf8_case::<1>(); string_utf8_case::<2>(); string_utf8_case::<3>(); string_utf8_case::<4>(); }
