    // Discharge of std assumptions added by the de-opaquing sweep (units cpc_pairtable, error_ctor, fi_codec).

    // cpc_pairtable: `assume_specification <[T]>::fill` at T = u32 (PairTable::clear: self.slots.fill(u32::MAX)); same contract as
    // shim_slice_fill (T = u64): exactly the elements of the slice become the value.  BOUNDED: slice length <= 8.
    #[kani::proof]
    #[kani::unwind(10)]
    fn shim_slice_fill_u32() {
        let mut a: [u32; 8] = kani::any(); let n: usize = kani::any(); kani::assume(n <= 8); let v: u32 = kani::any();
        let before = a;
        a[..n].fill(v);
        let i: usize = kani::any(); kani::assume(i < 8);
        assert!(if i < n { a[i] == v } else { a[i] == before[i] });
    }

    // error_ctor: axiom_into_string_of_str / axiom_into_string_of_string: `<&str as Into<String>>::into` copies the characters and
    // `<String as Into<String>>::into` is the identity.  BOUNDED: ASCII strings of at most 3 bytes.
    #[kani::proof]
    #[kani::unwind(5)]
    fn shim_into_string_identity() {
        let b: [u8; 3] = kani::any(); let n: usize = kani::any(); kani::assume(n <= 3);
        kani::assume(b[0] < 128 && b[1] < 128 && b[2] < 128);
        let s: &str = core::str::from_utf8(&b[..n]).unwrap();
        let t: String = s.into();
        assert!(t.len() == n);
        let i: usize = kani::any(); kani::assume(i < 3);
        if i < n { assert!(t.as_bytes()[i] == b[i]); }
        let u: String = t.into();
        assert!(u.len() == n);
        if i < n { assert!(u.as_bytes()[i] == b[i]); }
    }

    // fi_codec: trait shim vx_reerr: `res.map_err(|_| E)` on a Result<_, Error>: Ok(v) stays Ok(v), Err stays Err (E = a REAL Error constructor).
    #[kani::proof]
    #[kani::unwind(4)]
    fn shim_vx_reerr_map_err() {
        let v: u64 = kani::any();
        let r: Result<u64, crate::error::Error> = if kani::any() { Ok(v) } else { Err(crate::error::Error::deserial("x")) };
        let was_ok = r.is_ok();
        let m = r.map_err(|_| crate::error::Error::insufficient_data("y"));
        assert!(m.is_ok() == was_ok);
        if let Ok(x) = &m { assert!(*x == v); }
        core::mem::forget(m);
    }
