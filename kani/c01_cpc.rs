    // C01 (CPC): lower_bound(s) <= estimate <= upper_bound(s) for the HIP estimator (premise hip >= num_coupons, kept by update_hip)
    // and for the ICON estimator with icon_estimate replaced by one symbolic value >= num_coupons.
    fn any_nsd() -> NumStdDev { match kani::any::<u8>() % 3 { 0 => NumStdDev::One, 1 => NumStdDev::Two, _ => NumStdDev::Three } }
    static mut C01_ICON: f64 = 0.0;
    fn icon_stub(_lg_k: u8, _c: u32) -> f64 { unsafe { C01_ICON } }
    fn cpc_bracket(lo: u8, hi: u8, merge: bool, upper: bool) {
        let lg_k: u8 = kani::any(); kani::assume(lg_k >= lo && lg_k <= hi);
        let c: u32 = kani::any();
        let h: f64 = kani::any(); kani::assume(h.is_finite() && h >= c as f64);
        unsafe { C01_ICON = h; }
        let s = any_nsd();
        let est = estimate(merge, h, lg_k, c);
        if upper { assert!(c == 0 || est <= upper_bound(merge, h, lg_k, c, s)); } else { assert!(c == 0 || lower_bound(merge, h, lg_k, c, s) <= est); }
    }
    #[kani::proof] fn c01_cpc_hip_lb_le_est_lgk_4_14() { cpc_bracket(4, 14, false, false); }
    #[kani::proof] fn c01_cpc_hip_est_le_ub_lgk_4_14() { cpc_bracket(4, 14, false, true); }
    #[kani::proof] fn c01_cpc_hip_lb_le_est_lgk_15_26() { cpc_bracket(15, 26, false, false); }
    #[kani::proof] fn c01_cpc_hip_est_le_ub_lgk_15_26() { cpc_bracket(15, 26, false, true); }
    #[kani::proof] #[kani::stub(icon_estimate, icon_stub)] fn c01_cpc_icon_lb_le_est_lgk_4_14() { cpc_bracket(4, 14, true, false); }
    #[kani::proof] #[kani::stub(icon_estimate, icon_stub)] fn c01_cpc_icon_est_le_ub_lgk_4_14() { cpc_bracket(4, 14, true, true); }
    #[kani::proof] #[kani::stub(icon_estimate, icon_stub)] fn c01_cpc_icon_lb_le_est_lgk_15_26() { cpc_bracket(15, 26, true, false); }
    #[kani::proof] #[kani::stub(icon_estimate, icon_stub)] fn c01_cpc_icon_est_le_ub_lgk_15_26() { cpc_bracket(15, 26, true, true); }
    // side tables: every entry / 10000 lies in (0, 1): eps = kappa * x / sqrt(k) < 1 needs x < sqrt(16)/3
    #[kani::proof]
    fn c01_cpc_side_table_sanity() {
        let i: usize = kani::any(); kani::assume(i < 33);
        for t in [&ICON_LOW_SIDE_DATA, &ICON_HIGH_SIDE_DATA, &HIP_LOW_SIDE_DATA, &HIP_HIGH_SIDE_DATA] {
            let x = t[i]; assert!(x > 4000 && x < 10000);
        }
    }
    // nesting in kappa, one comparison per harness: lb(k+1) <= lb(k), ub(k) <= ub(k+1)
    fn cpc_nest(lo: u8, hi: u8, merge: bool, upper: bool, a: NumStdDev, b: NumStdDev) {
        let lg_k: u8 = kani::any(); kani::assume(lg_k >= lo && lg_k <= hi);
        let c: u32 = kani::any(); kani::assume(c > 0);
        let h: f64 = kani::any(); kani::assume(h.is_finite() && h >= c as f64);
        unsafe { C01_ICON = h; }
        if upper { assert!(upper_bound(merge, h, lg_k, c, a) <= upper_bound(merge, h, lg_k, c, b)); }
        else { assert!(lower_bound(merge, h, lg_k, c, b) <= lower_bound(merge, h, lg_k, c, a)); }
    }
    #[kani::proof] fn c01_cpc_hip_nest_lb2_le_lb1_lgk_4_14() { cpc_nest(4, 14, false, false, NumStdDev::One, NumStdDev::Two); }
    #[kani::proof] fn c01_cpc_hip_nest_lb3_le_lb2_lgk_4_14() { cpc_nest(4, 14, false, false, NumStdDev::Two, NumStdDev::Three); }
    #[kani::proof] fn c01_cpc_hip_nest_ub1_le_ub2_lgk_4_14() { cpc_nest(4, 14, false, true, NumStdDev::One, NumStdDev::Two); }
    #[kani::proof] fn c01_cpc_hip_nest_ub2_le_ub3_lgk_4_14() { cpc_nest(4, 14, false, true, NumStdDev::Two, NumStdDev::Three); }
    #[kani::proof] #[kani::stub(icon_estimate, icon_stub)] fn c01_cpc_icon_nest_lb2_le_lb1_lgk_4_14() { cpc_nest(4, 14, true, false, NumStdDev::One, NumStdDev::Two); }
    #[kani::proof] #[kani::stub(icon_estimate, icon_stub)] fn c01_cpc_icon_nest_lb3_le_lb2_lgk_4_14() { cpc_nest(4, 14, true, false, NumStdDev::Two, NumStdDev::Three); }
    #[kani::proof] #[kani::stub(icon_estimate, icon_stub)] fn c01_cpc_icon_nest_ub1_le_ub2_lgk_4_14() { cpc_nest(4, 14, true, true, NumStdDev::One, NumStdDev::Two); }
    #[kani::proof] #[kani::stub(icon_estimate, icon_stub)] fn c01_cpc_icon_nest_ub2_le_ub3_lgk_4_14() { cpc_nest(4, 14, true, true, NumStdDev::Two, NumStdDev::Three); }
    #[kani::proof] fn c01_cpc_hip_nest_lb2_le_lb1_lgk_15_26() { cpc_nest(15, 26, false, false, NumStdDev::One, NumStdDev::Two); }
    #[kani::proof] fn c01_cpc_hip_nest_lb3_le_lb2_lgk_15_26() { cpc_nest(15, 26, false, false, NumStdDev::Two, NumStdDev::Three); }
    #[kani::proof] fn c01_cpc_hip_nest_ub1_le_ub2_lgk_15_26() { cpc_nest(15, 26, false, true, NumStdDev::One, NumStdDev::Two); }
    #[kani::proof] fn c01_cpc_hip_nest_ub2_le_ub3_lgk_15_26() { cpc_nest(15, 26, false, true, NumStdDev::Two, NumStdDev::Three); }
    #[kani::proof] #[kani::stub(icon_estimate, icon_stub)] fn c01_cpc_icon_nest_lb2_le_lb1_lgk_15_26() { cpc_nest(15, 26, true, false, NumStdDev::One, NumStdDev::Two); }
    #[kani::proof] #[kani::stub(icon_estimate, icon_stub)] fn c01_cpc_icon_nest_lb3_le_lb2_lgk_15_26() { cpc_nest(15, 26, true, false, NumStdDev::Two, NumStdDev::Three); }
    #[kani::proof] #[kani::stub(icon_estimate, icon_stub)] fn c01_cpc_icon_nest_ub1_le_ub2_lgk_15_26() { cpc_nest(15, 26, true, true, NumStdDev::One, NumStdDev::Two); }
    #[kani::proof] #[kani::stub(icon_estimate, icon_stub)] fn c01_cpc_icon_nest_ub2_le_ub3_lgk_15_26() { cpc_nest(15, 26, true, true, NumStdDev::Two, NumStdDev::Three); }
    // nesting in kappa at ONE concrete lg_k per harness (table entry, sqrt(k), eps are then constants; coupon count and estimate stay
    // symbolic over their full domain): complete for that lg_k.  The quick tier runs the lg_k of the two formula branches' ends
    // (4, 14: side tables; 15, 26: asymptotic constant); the symbolic-lg_k harnesses above cover every lg_k in the thorough tier.
    fn cpc_nest_at(lg_k: u8, merge: bool, upper: bool) {
        let c: u32 = kani::any(); kani::assume(c > 0);
        let h: f64 = kani::any(); kani::assume(h.is_finite() && h >= c as f64);
        unsafe { C01_ICON = h; }
        if upper {
            let u1 = upper_bound(merge, h, lg_k, c, NumStdDev::One); let u2 = upper_bound(merge, h, lg_k, c, NumStdDev::Two); let u3 = upper_bound(merge, h, lg_k, c, NumStdDev::Three);
            assert!(u1 <= u2); assert!(u2 <= u3);
        } else {
            let l1 = lower_bound(merge, h, lg_k, c, NumStdDev::One); let l2 = lower_bound(merge, h, lg_k, c, NumStdDev::Two); let l3 = lower_bound(merge, h, lg_k, c, NumStdDev::Three);
            assert!(l3 <= l2); assert!(l2 <= l1);
        }
    }
    #[kani::proof] fn c01_cpc_hip_nest_lb_at_lgk_4() { cpc_nest_at(4, false, false); }
    #[kani::proof] fn c01_cpc_hip_nest_ub_at_lgk_4() { cpc_nest_at(4, false, true); }
    #[kani::proof] #[kani::stub(icon_estimate, icon_stub)] fn c01_cpc_icon_nest_lb_at_lgk_4() { cpc_nest_at(4, true, false); }
    #[kani::proof] #[kani::stub(icon_estimate, icon_stub)] fn c01_cpc_icon_nest_ub_at_lgk_4() { cpc_nest_at(4, true, true); }
    #[kani::proof] fn c01_cpc_hip_nest_lb_at_lgk_14() { cpc_nest_at(14, false, false); }
    #[kani::proof] fn c01_cpc_hip_nest_ub_at_lgk_14() { cpc_nest_at(14, false, true); }
    #[kani::proof] #[kani::stub(icon_estimate, icon_stub)] fn c01_cpc_icon_nest_lb_at_lgk_14() { cpc_nest_at(14, true, false); }
    #[kani::proof] #[kani::stub(icon_estimate, icon_stub)] fn c01_cpc_icon_nest_ub_at_lgk_14() { cpc_nest_at(14, true, true); }
    #[kani::proof] fn c01_cpc_hip_nest_lb_at_lgk_15() { cpc_nest_at(15, false, false); }
    #[kani::proof] fn c01_cpc_hip_nest_ub_at_lgk_15() { cpc_nest_at(15, false, true); }
    #[kani::proof] #[kani::stub(icon_estimate, icon_stub)] fn c01_cpc_icon_nest_lb_at_lgk_15() { cpc_nest_at(15, true, false); }
    #[kani::proof] #[kani::stub(icon_estimate, icon_stub)] fn c01_cpc_icon_nest_ub_at_lgk_15() { cpc_nest_at(15, true, true); }
    #[kani::proof] fn c01_cpc_hip_nest_lb_at_lgk_26() { cpc_nest_at(26, false, false); }
    #[kani::proof] fn c01_cpc_hip_nest_ub_at_lgk_26() { cpc_nest_at(26, false, true); }
    #[kani::proof] #[kani::stub(icon_estimate, icon_stub)] fn c01_cpc_icon_nest_lb_at_lgk_26() { cpc_nest_at(26, true, false); }
    #[kani::proof] #[kani::stub(icon_estimate, icon_stub)] fn c01_cpc_icon_nest_ub_at_lgk_26() { cpc_nest_at(26, true, true); }
    #[kani::proof] fn c01_cpc_hip_nest_lb_at_lgk_5() { cpc_nest_at(5, false, false); }
    #[kani::proof] fn c01_cpc_hip_nest_ub_at_lgk_5() { cpc_nest_at(5, false, true); }
    #[kani::proof] #[kani::stub(icon_estimate, icon_stub)] fn c01_cpc_icon_nest_lb_at_lgk_5() { cpc_nest_at(5, true, false); }
    #[kani::proof] #[kani::stub(icon_estimate, icon_stub)] fn c01_cpc_icon_nest_ub_at_lgk_5() { cpc_nest_at(5, true, true); }
    #[kani::proof] fn c01_cpc_hip_nest_lb_at_lgk_6() { cpc_nest_at(6, false, false); }
    #[kani::proof] fn c01_cpc_hip_nest_ub_at_lgk_6() { cpc_nest_at(6, false, true); }
    #[kani::proof] #[kani::stub(icon_estimate, icon_stub)] fn c01_cpc_icon_nest_lb_at_lgk_6() { cpc_nest_at(6, true, false); }
    #[kani::proof] #[kani::stub(icon_estimate, icon_stub)] fn c01_cpc_icon_nest_ub_at_lgk_6() { cpc_nest_at(6, true, true); }
    #[kani::proof] fn c01_cpc_hip_nest_lb_at_lgk_7() { cpc_nest_at(7, false, false); }
    #[kani::proof] fn c01_cpc_hip_nest_ub_at_lgk_7() { cpc_nest_at(7, false, true); }
    #[kani::proof] #[kani::stub(icon_estimate, icon_stub)] fn c01_cpc_icon_nest_lb_at_lgk_7() { cpc_nest_at(7, true, false); }
    #[kani::proof] #[kani::stub(icon_estimate, icon_stub)] fn c01_cpc_icon_nest_ub_at_lgk_7() { cpc_nest_at(7, true, true); }
    #[kani::proof] fn c01_cpc_hip_nest_lb_at_lgk_8() { cpc_nest_at(8, false, false); }
    #[kani::proof] fn c01_cpc_hip_nest_ub_at_lgk_8() { cpc_nest_at(8, false, true); }
    #[kani::proof] #[kani::stub(icon_estimate, icon_stub)] fn c01_cpc_icon_nest_lb_at_lgk_8() { cpc_nest_at(8, true, false); }
    #[kani::proof] #[kani::stub(icon_estimate, icon_stub)] fn c01_cpc_icon_nest_ub_at_lgk_8() { cpc_nest_at(8, true, true); }
    #[kani::proof] fn c01_cpc_hip_nest_lb_at_lgk_9() { cpc_nest_at(9, false, false); }
    #[kani::proof] fn c01_cpc_hip_nest_ub_at_lgk_9() { cpc_nest_at(9, false, true); }
    #[kani::proof] #[kani::stub(icon_estimate, icon_stub)] fn c01_cpc_icon_nest_lb_at_lgk_9() { cpc_nest_at(9, true, false); }
    #[kani::proof] #[kani::stub(icon_estimate, icon_stub)] fn c01_cpc_icon_nest_ub_at_lgk_9() { cpc_nest_at(9, true, true); }
    #[kani::proof] fn c01_cpc_hip_nest_lb_at_lgk_10() { cpc_nest_at(10, false, false); }
    #[kani::proof] fn c01_cpc_hip_nest_ub_at_lgk_10() { cpc_nest_at(10, false, true); }
    #[kani::proof] #[kani::stub(icon_estimate, icon_stub)] fn c01_cpc_icon_nest_lb_at_lgk_10() { cpc_nest_at(10, true, false); }
    #[kani::proof] #[kani::stub(icon_estimate, icon_stub)] fn c01_cpc_icon_nest_ub_at_lgk_10() { cpc_nest_at(10, true, true); }
    #[kani::proof] fn c01_cpc_hip_nest_lb_at_lgk_11() { cpc_nest_at(11, false, false); }
    #[kani::proof] fn c01_cpc_hip_nest_ub_at_lgk_11() { cpc_nest_at(11, false, true); }
    #[kani::proof] #[kani::stub(icon_estimate, icon_stub)] fn c01_cpc_icon_nest_lb_at_lgk_11() { cpc_nest_at(11, true, false); }
    #[kani::proof] #[kani::stub(icon_estimate, icon_stub)] fn c01_cpc_icon_nest_ub_at_lgk_11() { cpc_nest_at(11, true, true); }
    #[kani::proof] fn c01_cpc_hip_nest_lb_at_lgk_12() { cpc_nest_at(12, false, false); }
    #[kani::proof] fn c01_cpc_hip_nest_ub_at_lgk_12() { cpc_nest_at(12, false, true); }
    #[kani::proof] #[kani::stub(icon_estimate, icon_stub)] fn c01_cpc_icon_nest_lb_at_lgk_12() { cpc_nest_at(12, true, false); }
    #[kani::proof] #[kani::stub(icon_estimate, icon_stub)] fn c01_cpc_icon_nest_ub_at_lgk_12() { cpc_nest_at(12, true, true); }
    #[kani::proof] fn c01_cpc_hip_nest_lb_at_lgk_13() { cpc_nest_at(13, false, false); }
    #[kani::proof] fn c01_cpc_hip_nest_ub_at_lgk_13() { cpc_nest_at(13, false, true); }
    #[kani::proof] #[kani::stub(icon_estimate, icon_stub)] fn c01_cpc_icon_nest_lb_at_lgk_13() { cpc_nest_at(13, true, false); }
    #[kani::proof] #[kani::stub(icon_estimate, icon_stub)] fn c01_cpc_icon_nest_ub_at_lgk_13() { cpc_nest_at(13, true, true); }
    #[kani::proof] fn c01_cpc_hip_nest_lb_at_lgk_16() { cpc_nest_at(16, false, false); }
    #[kani::proof] fn c01_cpc_hip_nest_ub_at_lgk_16() { cpc_nest_at(16, false, true); }
    #[kani::proof] #[kani::stub(icon_estimate, icon_stub)] fn c01_cpc_icon_nest_lb_at_lgk_16() { cpc_nest_at(16, true, false); }
    #[kani::proof] #[kani::stub(icon_estimate, icon_stub)] fn c01_cpc_icon_nest_ub_at_lgk_16() { cpc_nest_at(16, true, true); }
    #[kani::proof] fn c01_cpc_hip_nest_lb_at_lgk_17() { cpc_nest_at(17, false, false); }
    #[kani::proof] fn c01_cpc_hip_nest_ub_at_lgk_17() { cpc_nest_at(17, false, true); }
    #[kani::proof] #[kani::stub(icon_estimate, icon_stub)] fn c01_cpc_icon_nest_lb_at_lgk_17() { cpc_nest_at(17, true, false); }
    #[kani::proof] #[kani::stub(icon_estimate, icon_stub)] fn c01_cpc_icon_nest_ub_at_lgk_17() { cpc_nest_at(17, true, true); }
    #[kani::proof] fn c01_cpc_hip_nest_lb_at_lgk_18() { cpc_nest_at(18, false, false); }
    #[kani::proof] fn c01_cpc_hip_nest_ub_at_lgk_18() { cpc_nest_at(18, false, true); }
    #[kani::proof] #[kani::stub(icon_estimate, icon_stub)] fn c01_cpc_icon_nest_lb_at_lgk_18() { cpc_nest_at(18, true, false); }
    #[kani::proof] #[kani::stub(icon_estimate, icon_stub)] fn c01_cpc_icon_nest_ub_at_lgk_18() { cpc_nest_at(18, true, true); }
    #[kani::proof] fn c01_cpc_hip_nest_lb_at_lgk_19() { cpc_nest_at(19, false, false); }
    #[kani::proof] fn c01_cpc_hip_nest_ub_at_lgk_19() { cpc_nest_at(19, false, true); }
    #[kani::proof] #[kani::stub(icon_estimate, icon_stub)] fn c01_cpc_icon_nest_lb_at_lgk_19() { cpc_nest_at(19, true, false); }
    #[kani::proof] #[kani::stub(icon_estimate, icon_stub)] fn c01_cpc_icon_nest_ub_at_lgk_19() { cpc_nest_at(19, true, true); }
    #[kani::proof] fn c01_cpc_hip_nest_lb_at_lgk_20() { cpc_nest_at(20, false, false); }
    #[kani::proof] fn c01_cpc_hip_nest_ub_at_lgk_20() { cpc_nest_at(20, false, true); }
    #[kani::proof] #[kani::stub(icon_estimate, icon_stub)] fn c01_cpc_icon_nest_lb_at_lgk_20() { cpc_nest_at(20, true, false); }
    #[kani::proof] #[kani::stub(icon_estimate, icon_stub)] fn c01_cpc_icon_nest_ub_at_lgk_20() { cpc_nest_at(20, true, true); }
    #[kani::proof] fn c01_cpc_hip_nest_lb_at_lgk_21() { cpc_nest_at(21, false, false); }
    #[kani::proof] fn c01_cpc_hip_nest_ub_at_lgk_21() { cpc_nest_at(21, false, true); }
    #[kani::proof] #[kani::stub(icon_estimate, icon_stub)] fn c01_cpc_icon_nest_lb_at_lgk_21() { cpc_nest_at(21, true, false); }
    #[kani::proof] #[kani::stub(icon_estimate, icon_stub)] fn c01_cpc_icon_nest_ub_at_lgk_21() { cpc_nest_at(21, true, true); }
    #[kani::proof] fn c01_cpc_hip_nest_lb_at_lgk_22() { cpc_nest_at(22, false, false); }
    #[kani::proof] fn c01_cpc_hip_nest_ub_at_lgk_22() { cpc_nest_at(22, false, true); }
    #[kani::proof] #[kani::stub(icon_estimate, icon_stub)] fn c01_cpc_icon_nest_lb_at_lgk_22() { cpc_nest_at(22, true, false); }
    #[kani::proof] #[kani::stub(icon_estimate, icon_stub)] fn c01_cpc_icon_nest_ub_at_lgk_22() { cpc_nest_at(22, true, true); }
    #[kani::proof] fn c01_cpc_hip_nest_lb_at_lgk_23() { cpc_nest_at(23, false, false); }
    #[kani::proof] fn c01_cpc_hip_nest_ub_at_lgk_23() { cpc_nest_at(23, false, true); }
    #[kani::proof] #[kani::stub(icon_estimate, icon_stub)] fn c01_cpc_icon_nest_lb_at_lgk_23() { cpc_nest_at(23, true, false); }
    #[kani::proof] #[kani::stub(icon_estimate, icon_stub)] fn c01_cpc_icon_nest_ub_at_lgk_23() { cpc_nest_at(23, true, true); }
    #[kani::proof] fn c01_cpc_hip_nest_lb_at_lgk_24() { cpc_nest_at(24, false, false); }
    #[kani::proof] fn c01_cpc_hip_nest_ub_at_lgk_24() { cpc_nest_at(24, false, true); }
    #[kani::proof] #[kani::stub(icon_estimate, icon_stub)] fn c01_cpc_icon_nest_lb_at_lgk_24() { cpc_nest_at(24, true, false); }
    #[kani::proof] #[kani::stub(icon_estimate, icon_stub)] fn c01_cpc_icon_nest_ub_at_lgk_24() { cpc_nest_at(24, true, true); }
    #[kani::proof] fn c01_cpc_hip_nest_lb_at_lgk_25() { cpc_nest_at(25, false, false); }
    #[kani::proof] fn c01_cpc_hip_nest_ub_at_lgk_25() { cpc_nest_at(25, false, true); }
    #[kani::proof] #[kani::stub(icon_estimate, icon_stub)] fn c01_cpc_icon_nest_lb_at_lgk_25() { cpc_nest_at(25, true, false); }
    #[kani::proof] #[kani::stub(icon_estimate, icon_stub)] fn c01_cpc_icon_nest_ub_at_lgk_25() { cpc_nest_at(25, true, true); }
