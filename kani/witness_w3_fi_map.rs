    // WITNESS (bounded) harnesses for C07 on the reverse-purge hash map behind FrequentItemsSketch, through its stable crate-internal
    // entry points new / adjust_or_put_value / purge / get / num_active / capacity (exactly the calls the sketch makes: update =
    // adjust_or_put_value, lower_bound = get, upper_bound = get + offset, offset += purge(sample_size)).  The harness keeps the true
    // counts in a ghost array and checks the WHOLE VIEW: before a purge get(k) == true count for every key (0 for absent keys);
    // after purge(..) == med every key holds max(true - med, 0), i.e.  get <= true <= get + med  (the C07 bracket with offset = med),
    // and num_active is the number of keys with true > med.
    //
    // Bound (each item measured, see the report): 8-slot table (the smallest the sketch uses; capacity 6, purge with 7 counters),
    // item type u8, CONCRETE key sequences, SYMBOLIC counts, and `hash_item` stubbed by a 64-entry TABLE OF THE REAL HASH VALUES
    // (MurmurHash3 seed 9001 of the one byte written by <u8 as Hash>); harness witness_c07_stub_is_real_hash proves, without the
    // stub, that the table equals the real `hash_item` on all 64 keys, so the stub changes nothing but lets CBMC constant-fold
    // the probe positions (and a counterexample replays unchanged on the unstubbed code).
    //  - CBMC cannot push a symbolic key through MurmurHash3 (64-bit multiplier chains: 4 updates with symbolic keys below 16 do not
    //    finish in 10 min), and does not constant-fold the real hash of a concrete key either (copy_from_slice into the block buffer);
    //    once the probe position is not a constant `num_active` is not, and the purge runs select_nth_unstable on a vector of
    //    symbolic length, which does not finish.  With the table and concrete keys the probe sequences are constants and only
    //    the counters - hence the median, the set of purged items and the back-shifts of hash_delete - are symbolic.
    //  - u8 items keep `keys: Vec<Option<T>>` at 16 bytes: CBMC stops tracking heap arrays element-wise above 64 bytes (with u64 items
    //    the same harness runs out of memory).
    //  - the sketch-level entry point update_with_count cannot be used: its `num_active > cur_map_cap` test (a float-derived
    //    threshold and a trailing_zeros-derived sample size) is not constant-folded, so every update explores the purge path
    //    (3 updates: no verdict in 8 min).
    // The map code is generic in the item type.
    //
    // Home slots (real hash mod 8) of the keys used: 4, 9, 15, 23: 6 | 18, 25, 32, 43: 7 | 0: 0 | 13, 14: 1 | 11: 2 | 27, 34, 52: 3 | 7: 4.
    // Scenario A: 4, 9, 15 (home 6) form a probe run that wraps around the end of the table (slots 6, 7, 0); 27, 7, 34 put a key
    // (34, home 3, slot 5) behind a resident that sits in its own home slot (7 in slot 4); 0 (home 0) lands in slot 1:
    // layout 0:15 1:0 2:- 3:27 4:7 5:34 6:4 7:9.
    // Scenario B: 18, 25, 32, 43 (home 7) then 0, 13, 11 (homes 0, 1, 2): one long run 7:18 0:25 1:32 2:43 3:0 4:13 5:11 6:- in which
    // every entry but the first is displaced and four of them wrapped.

    const WITNESS_REAL_HASH: [u64; 64] = [
        0x0803ae2667d086a8, 0x07d0803c66013ec8, 0x49651c3961cd549d, 0x0981420f8f839b88,
        0xceeac21bd9d80d2e, 0x26458da46a692788, 0x8bf7166479e1a478, 0xe2eccfb64493dbdc,
        0xef63a440b118c3dc, 0x486ad28f080d4a7e, 0x06837ed4a0a19e78, 0xb3203de7b2f0a43a,
        0xb882109b4b233245, 0x8f55b87473f6e131, 0x4215c8ba4f6653c9, 0x40492e6214717bce,
        0xa8030e683dd4fafc, 0x93f124e13022e9c9, 0x8e844890603a07d7, 0x139f634c563d630a,
        0x6d5ad9a74d5fad04, 0xf073a862a1064afa, 0xfceca5b5a426cdfc, 0x644da850cf89035e,
        0x4a064295af7f1d98, 0xd0db1089f9fb1cdf, 0xc5374ffbd378b0c4, 0x24129afbc03b07a3,
        0x0e55f932fe6a7fe6, 0x0505f620982e9ed8, 0x1b8a6c5b4b51f0c5, 0x5e31dfb63fe1dfe5,
        0x694a83cc041a464f, 0x8f4a9de36beeef5a, 0xe5e454bd2f30c163, 0x5ae4d6f625e147da,
        0x6855f9d8ac48a284, 0x3270e35fbcbe4b36, 0x5084781d0a420c76, 0x8065830cce9a53ee,
        0xad2e88609fa275fa, 0x362df4d92f095765, 0xfdbdc935dd1ac4d9, 0x092032c94da866bf,
        0xf31ca983d22e1ed1, 0xcb626da28e74b650, 0x312ed5bc0bf713f9, 0xac683c1bf86d3ed6,
        0xec841554109e84c7, 0x13864298760fa6aa, 0xd3cb3eef36d92c8f, 0x1f6a7c838ff54952,
        0x9b31e4f9f191f1d3, 0xf95af045ab2ad6ae, 0x9386115de9fd0bd8, 0xcea118b952557fc0,
        0xf3b9ec52887449c9, 0x1f230e013bbcf7b2, 0x677b0fd7df11c1e6, 0x76bf401c90f38753,
        0xf28e18287a2102c2, 0x39e76b706463720e, 0x72cf297f72571245, 0xc787bdefa0a9792d,
    ];

    // records the single byte that <u8 as Hash>::hash writes
    pub struct WitnessByteHasher(pub u8);
    impl Hasher for WitnessByteHasher {
        fn finish(&self) -> u64 { self.0 as u64 }
        fn write(&mut self, bytes: &[u8]) { if bytes.len() == 1 { self.0 = bytes[0]; } else { self.0 = 255; } }
        fn write_u8(&mut self, i: u8) { self.0 = i; }
    }
    // stub for `hash_item` on u8 keys below 64: the real MurmurHash3 (seed 9001) value, read from the table
    pub fn witness_hash_item<T: Hash>(item: &T) -> u64 {
        let mut h = WitnessByteHasher(255);
        item.hash(&mut h);
        assert!(h.0 < 64, "witness harness: key outside the tabulated domain");
        WITNESS_REAL_HASH[h.0 as usize]
    }

    // the stub is the real function on its whole domain (no stub applied here)
    #[kani::proof]
    #[kani::unwind(66)]
    fn witness_c07_stub_is_real_hash() {
        let mut k: u8 = 0;
        while k < 64 {
            assert!(hash_item(&k) == WITNESS_REAL_HASH[k as usize], "witness stub table != real hash_item");
            k += 1;
        }
    }

    const WITNESS_KEYS: usize = 64;

    fn witness_truth<const N: usize>(keys: &[u8; N], counts: &[u32; N]) -> [u64; WITNESS_KEYS] {
        let mut truth = [0u64; WITNESS_KEYS];
        let mut i = 0;
        while i < N { truth[keys[i] as usize] += counts[i] as u64; i += 1; }
        truth
    }

    // updates only (no purge): get(k) is the exact count for every queried key, num_active the number of distinct keys
    pub fn fi_map_exact_body<const N: usize, const Q: usize>(keys: [u8; N], counts: [u32; N], queries: [u8; Q], distinct: usize) {
        let mut m = ReversePurgeItemHashMap::<u8>::new(8);
        let mut i = 0;
        while i < N { m.adjust_or_put_value(keys[i], counts[i] as u64); i += 1; }
        let truth = witness_truth(&keys, &counts);
        assert!(m.num_active() == distinct, "C07 witness: num_active != number of distinct items");
        let mut j = 0;
        while j < Q {
            assert!(m.get(&queries[j]) == truth[queries[j] as usize], "C07 witness: get(k) != true count before any purge (lower_bound <= true <= upper_bound lost)");
            j += 1;
        }
    }

    // updates, one purge, optionally one more update of `after.0` by `after.1`
    pub fn fi_map_purge_body<const N: usize, const Q: usize>(keys: [u8; N], counts: [u32; N], queries: [u8; Q], sample_size: usize, after: Option<(u8, u32)>) {
        let mut m = ReversePurgeItemHashMap::<u8>::new(8);
        let mut i = 0;
        while i < N { m.adjust_or_put_value(keys[i], counts[i] as u64); i += 1; }
        let truth = witness_truth(&keys, &counts);
        let med = m.purge(sample_size);
        // med is one of the counters
        let mut hit = false;
        let mut k = 0;
        while k < N { if truth[keys[k] as usize] == med { hit = true; } k += 1; }
        assert!(hit, "C07 witness: the purge amount is not one of the counter values");
        let mut j = 0;
        while j < Q {
            let g = m.get(&queries[j]);
            let t = truth[queries[j] as usize];
            assert!(g <= t, "C07 witness: lower_bound (get) above the true count after purge");
            assert!(t <= g + med, "C07 witness: upper_bound (get + offset) below the true count after purge");
            assert!(g == t.saturating_sub(med), "C07 witness: counter after purge != max(true - purge amount, 0)");
            j += 1;
        }
        assert!(m.num_active() <= m.capacity(), "C07 witness: purge did not bring the map under its capacity");
        let mut expected_active = 0usize;
        let mut k = 0;
        while k < N {
            // count each distinct key once (at its first occurrence)
            let mut first = true;
            let mut l = 0;
            while l < k { if keys[l] == keys[k] { first = false; } l += 1; }
            if first && truth[keys[k] as usize] > med { expected_active += 1; }
            k += 1;
        }
        assert!(m.num_active() == expected_active, "C07 witness: num_active after purge != number of items with count > purge amount");
        if let Some((key, c)) = after {
            // a purged item restarts from 0, a surviving one keeps true - med: afterwards its counter is max(true - med, 0) + c
            let before = truth[key as usize].saturating_sub(med);
            m.adjust_or_put_value(key, c as u64);
            if before == 0 { expected_active += 1; }
            assert!(m.num_active() == expected_active, "C07 witness: an update after the purge created a duplicate counter or lost one");
            let mut j = 0;
            while j < Q {
                let g = m.get(&queries[j]);
                let t = truth[queries[j] as usize].saturating_sub(med);
                if queries[j] == key {
                    assert!(g == before + c as u64, "C07 witness: counter of the item updated after the purge");
                } else {
                    assert!(g == t, "C07 witness: an update after the purge disturbed another counter");
                }
                j += 1;
            }
        }
    }

    fn any_counts<const N: usize>(max_count: u32) -> [u32; N] {
        let counts: [u32; N] = kani::any();
        let mut i = 0;
        while i < N { kani::assume(counts[i] >= 1 && counts[i] <= max_count); i += 1; }
        counts
    }

    // no purge: 6 updates of 5 distinct keys (34 twice); every key and two absent keys (52: home 3, 15: home 6) queried
    #[kani::proof]
    #[kani::unwind(10)]
    #[kani::stub(hash_item, witness_hash_item)]
    fn witness_c07_map_exact_displaced() {
        fi_map_exact_body::<6, 7>([27, 7, 34, 4, 9, 34], any_counts::<6>(1 << 20), [27, 7, 34, 4, 9, 52, 15], 5);
    }

    // scenario A: 7 distinct keys then purge(6) (what the sketch calls at the 7th distinct item)
    #[kani::proof]
    #[kani::unwind(10)]
    #[kani::stub(hash_item, witness_hash_item)]
    fn witness_c07_map_purge_wrapped() {
        fi_map_purge_body::<7, 8>([4, 9, 15, 27, 7, 34, 0], any_counts::<7>(1 << 20), [4, 9, 15, 27, 7, 34, 0, 23], 6, None);
    }

    // scenario B: one long wrapped run, then purge(6)
    #[kani::proof]
    #[kani::unwind(10)]
    #[kani::stub(hash_item, witness_hash_item)]
    fn witness_c07_map_purge_long_run() {
        fi_map_purge_body::<7, 8>([18, 25, 32, 43, 0, 13, 11], any_counts::<7>(1 << 20), [18, 25, 32, 43, 0, 13, 11, 14], 6, None);
    }

    // scenario A, purge(6), then one more update of key 15 (the wrapped entry) with a symbolic count
    #[kani::proof]
    #[kani::unwind(10)]
    #[kani::stub(hash_item, witness_hash_item)]
    fn witness_c07_map_purge_then_update() {
        let c: u32 = kani::any();
        kani::assume(c >= 1 && c <= (1 << 20));
        fi_map_purge_body::<7, 8>([4, 9, 15, 27, 7, 34, 0], any_counts::<7>(1 << 20), [4, 9, 15, 27, 7, 34, 0, 23], 6, Some((15, c)));
    }

