    // REAL codec::assert functions behind the shims vx_ensure_preamble_longs_in_range (bloom_codec), vx_ensure_pre_longs (theta_codec) and the
    // opaque ensure_preamble_longs_in (cm_codec, cpc_codec, fi/td codecs):  Ok <==> lo <= actual <= hi   /   Ok <==> expected.contains(actual).
    // The message formatting of the Err path is stubbed out (format! is irrelevant to Ok/Err and unwinds forever in CBMC).
    fn fmt_stub(_a: core::fmt::Arguments<'_>) -> String { String::new() }
    #[kani::proof]
    #[kani::unwind(4)]
    #[kani::stub(alloc::fmt::format, fmt_stub)]
    fn shim_ensure_preamble_longs_in_range() {
        let lo: u8 = kani::any(); let hi: u8 = kani::any(); let actual: u8 = kani::any();
        let r = ensure_preamble_longs_in_range(lo..=hi, actual);
        assert!(r.is_ok() == (lo <= actual && actual <= hi));
        core::mem::forget(r);
    }
    #[kani::proof]
    #[kani::unwind(6)]
    #[kani::stub(alloc::fmt::format, fmt_stub)]
    fn shim_ensure_preamble_longs_in() {
        let a: [u8; 4] = kani::any(); let n: usize = kani::any(); kani::assume(n <= 4); let actual: u8 = kani::any();
        let r = ensure_preamble_longs_in(&a[..n], actual);
        let mut e = false; let mut i = 0; while i < n { if a[i] == actual { e = true; } i += 1; }
        assert!(r.is_ok() == e);
        core::mem::forget(r);
    }
    // trait shim vx_io (all codec units): `res.map_err(insufficient_data(tag))`: Ok(v) stays Ok(v), Err becomes Err.  REAL insufficient_data.
    #[kani::proof]
    #[kani::unwind(4)]
    #[kani::stub(alloc::fmt::format, fmt_stub)]
    fn shim_vx_io_map_err() {
        let v: u64 = kani::any();
        let r: std::io::Result<u64> = if kani::any() { Ok(v) } else { Err(std::io::Error::from(std::io::ErrorKind::UnexpectedEof)) };
        let was_ok = r.is_ok();
        let m = r.map_err(insufficient_data("tag"));
        assert!(m.is_ok() == was_ok);
        if let Ok(x) = &m { assert!(*x == v); }
        core::mem::forget(m);
    }
