    // WITNESS harnesses (bounded, DESIGN.md 2.4) for C02 / C12 on the REAL Array4 at lg_k = 4 (16 registers, 8 nibble bytes, aux table of 4):
    // the serialized Hll4 image, decoded by the FORMAT (not by Array4::deserialize), shows the per-slot register values of the sketch:
    //   header byte 6 = cur_min, bytes 36..40 = aux count (LE), bytes 40..48 = nibbles (even slot low, odd slot high),
    //   nibble < 15  -> register = cur_min + nibble
    //   nibble == 15 -> register = value (top 6 bits) of the aux coupon whose slot (low 26 bits) is the slot: the TRUE value, not an offset
    //   C12.hll4.regs    for every slot: image register == Array4::get(slot)
    //   C12.hll4.curmin  header cur_min byte, aux count, image length
    // Entry points used: Array4::new / update / get / serialize / deserialize (stable crate-internal API).
    fn fmt_stub(_a: core::fmt::Arguments<'_>) -> String { String::new() }
    pub fn image_register(img: &[u8], slot: u32) -> Option<u8> {
        if img.len() < 48 { return None; }
        let cur_min = img[6];
        let aux_count = u32::from_le_bytes([img[36], img[37], img[38], img[39]]) as usize;
        if aux_count > 4 || img.len() != 48 + 4 * aux_count { return None; }
        let byte = img[40 + (slot >> 1) as usize];
        let nib = if slot & 1 == 0 { byte & 15 } else { byte >> 4 };
        if nib < 15 { return Some(cur_min + nib); }
        let mut found: Option<u8> = None; let mut hits = 0; let mut i = 0;
        while i < 4 {
            if i < aux_count {
                let c = u32::from_le_bytes([img[48 + 4 * i], img[49 + 4 * i], img[50 + 4 * i], img[51 + 4 * i]]);
                if (c & 0x3ff_ffff) == slot { found = Some((c >> 26) as u8); hits += 1; }
            }
            i += 1;
        }
        if hits == 1 { found } else { None }
    }
    pub fn check_image(a: &Array4, q: u32) {
        let img = a.serialize(4);
        assert!(img.len() >= 48 && img[6] == a.cur_min, "C12.hll4.curmin header byte 6 is cur_min");
        assert!(img[3] == 4 && img[0] == 10 && img[7] == 2, "HLL-mode Hll4 image, lg_k = 4");
        let expect = a.get(q);
        assert!(image_register(&img, q) == Some(expect), "C12.hll4.regs image register == register of the sketch (aux value is the true value)");
    }
    // (the round trip through Array4::deserialize of the symbolic image is left out: with a symbolic aux count CBMC unwinds AuxMap::grow
    //  inside every AuxMap::insert of the reader - measured > 10 min; the reader is exercised on a well-formed image in harness (2))

    // (1) state reached through the real update path: 16 concrete coupons fill every slot (cur_min moves to 1, slot 0 keeps the live
    //     exception 40, slot 9 has 17 = cur_min + 16: a second exception), one more concrete update raises the exception at slot 0 to 50
    //     (aux replace path) and slot 5 from 2 to 9; then serialize; the inspected slot q is symbolic.
    //     (measured: ANY symbolic Array4::update makes the aux table - hence the length of every Vec in serialize - symbolic for CBMC,
    //      which then needs > 14 GB; the symbolic coverage of cur_min / nibbles comes from harness (2).)
    pub const FILL: [u32; 16] = [
        (40 << 26) | 0, (1 << 26) | 1, (2 << 26) | 2, (3 << 26) | 3, (1 << 26) | 4, (2 << 26) | 5, (3 << 26) | 6, (1 << 26) | 7,
        (2 << 26) | 8, (17 << 26) | 9, (1 << 26) | 10, (2 << 26) | 11, (3 << 26) | 12, (15 << 26) | 13, (2 << 26) | 14, (14 << 26) | 15,
    ];
    pub fn body_after_updates(q: u32) {
        let mut a = Array4::new(4);
        let mut i = 0;
        while i < 16 { a.update(FILL[i]); i += 1; }
        assert!(a.cur_min == 1 && a.get(0) == 40 && a.get(9) == 17 && a.get(13) == 15 && a.get(1) == 1, "concrete prefix: cur_min = 1 with live exceptions");
        a.update((50 << 26) | 0);
        a.update((9 << 26) | 5);
        a.update((1 << 26) | 5);
        // C02 on the way: every register is the maximum value offered for its slot
        let old = (FILL[q as usize] >> 26) as u8;
        assert!(a.get(q) == if q == 0 { 50 } else if q == 5 { 9 } else { old }, "C02 register == max value offered");
        check_image(&a, q);
    }
    #[kani::proof]
    #[kani::unwind(18)]
    #[kani::stub(alloc::fmt::format, fmt_stub)]
    fn w1_hll4_image_after_updates() {
        let q: u32 = kani::any(); kani::assume(q < 16);
        body_after_updates(q);
    }

    // (2) symbolic state handed out by Array4::deserialize: cur_min symbolic in 0..=48, all 16 nibbles symbolic, one / two aux exceptions
    //     (concrete: slot 3 = 63, slot 14 = 61, so cur_min <= 46; the exception slots are exactly the nibbles equal to 15)
    pub struct Img4 { pub cur_min: u8, pub nib: [u8; 8], pub n_aux: u32, pub s0: u32, pub v0: u8, pub s1: u32, pub v1: u8, pub ooo: bool,
                      pub hip: u64, pub kxq0: u64, pub kxq1: u64, pub nacm: u32 }
    pub fn body_from_image(p: Img4, q: u32) {
        let mut img = [0u8; 56];
        img[0] = 10; img[1] = 1; img[2] = 7; img[3] = 4; img[5] = 8 | (if p.ooo { 16 } else { 0 }); img[6] = p.cur_min; img[7] = 2;
        let mut i = 0;
        while i < 8 { img[8 + i] = p.hip.to_le_bytes()[i]; img[16 + i] = p.kxq0.to_le_bytes()[i]; img[24 + i] = p.kxq1.to_le_bytes()[i]; img[40 + i] = p.nib[i]; i += 1; }
        let mut i = 0;
        while i < 4 {
            img[32 + i] = p.nacm.to_le_bytes()[i]; img[36 + i] = p.n_aux.to_le_bytes()[i];
            img[48 + i] = (((p.v0 as u32) << 26) | p.s0).to_le_bytes()[i];
            img[52 + i] = (((p.v1 as u32) << 26) | p.s1).to_le_bytes()[i];
            i += 1;
        }
        let len = 48 + 4 * p.n_aux as usize;
        if let Ok(a) = Array4::deserialize(SketchSlice::new(&img[8..len]), p.cur_min, 4, true, p.ooo) {
            // what the reader must have understood (C13 on the way)
            let byte = p.nib[(q >> 1) as usize];
            let nib = if q & 1 == 0 { byte & 15 } else { byte >> 4 };
            let expect = if nib < 15 { p.cur_min + nib } else if p.n_aux >= 1 && q == p.s0 { p.v0 } else { p.v1 };
            assert!(a.get(q) == expect, "C13 reader: register = cur_min + nibble, or the aux value");
            check_image(&a, q);
        } else {
            assert!(false, "a well-formed compact Hll4 image is accepted");
        }
    }
    #[kani::proof]
    #[kani::unwind(18)]
    #[kani::stub(alloc::fmt::format, fmt_stub)]
    fn w1_hll4_image_of_symbolic_state_1_aux() { image_of_symbolic_state(1); }
    #[kani::proof]
    #[kani::unwind(18)]
    #[kani::stub(alloc::fmt::format, fmt_stub)]
    fn w1_hll4_image_of_symbolic_state_2_aux() { image_of_symbolic_state(2); }
    fn image_of_symbolic_state(N_AUX: u32) {
        let p = Img4 { cur_min: kani::any(), nib: kani::any(), n_aux: N_AUX, s0: 3, v0: 63, s1: 14, v1: 61,
                       ooo: kani::any(), hip: kani::any(), kxq0: kani::any(), kxq1: kani::any(), nacm: kani::any() };
        kani::assume(p.cur_min <= 46);
        kani::assume(p.s0 < 16 && p.s1 < 16 && p.s0 != p.s1);
        kani::assume(p.v0 >= p.cur_min + 15 && p.v0 <= 63 && p.v1 >= p.cur_min + 15 && p.v1 <= 63);
        let mut s = 0u32;
        while s < 16 {
            let byte = p.nib[(s >> 1) as usize];
            let nib = if s & 1 == 0 { byte & 15 } else { byte >> 4 };
            let is_aux = (p.n_aux >= 1 && s == p.s0) || (p.n_aux >= 2 && s == p.s1);
            kani::assume((nib == 15) == is_aux);
            s += 1;
        }
        let q: u32 = kani::any(); kani::assume(q < 16);
        body_from_image(p, q);
    }
