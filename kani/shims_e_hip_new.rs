    // hll_api: HipEstimator::new (REAL constructor).  Pins the uninterpreted `i32_to_f64` of the VX contract C02.hip.new.kxq: for every
    // lg_config_k < 31 the fresh estimator is in order, hip_accum == +0.0, kxq1 == +0.0 and kxq0 is EXACTLY 2^lg_config_k (bit pattern
    // (1023 + lg) << 52).  lg_config_k == 31: `1 << 31` is i32::MIN, kxq0 == -2^31 (no panic; outside every caller's range 4..=21).
    #[kani::proof]
    fn hip_new_fields() {
        let lg: u8 = kani::any(); kani::assume(lg < 32);
        let e = HipEstimator::new(lg);
        assert!(!e.out_of_order);
        assert!(e.hip_accum.to_bits() == 0 && e.kxq1.to_bits() == 0);
        assert!(e.kxq0 == ((1i32 << lg) as f64));
        if lg < 31 { assert!(e.kxq0.to_bits() == ((1023u64 + lg as u64) << 52)); }
        else { assert!(e.kxq0 == -2147483648.0); }
    }
