    // cpc_union vx_flavor_gt: `a > b` (derive(PartialOrd) on enum Flavor) == frank(a) > frank(b), frank = declaration order
    // Empty 0 < Sparse 1 < Hybrid 2 < Pinned 3 < Sliding 4.  All 25 pairs (complete).
    fn frank(f: Flavor) -> i32 { match f { Flavor::Empty => 0, Flavor::Sparse => 1, Flavor::Hybrid => 2, Flavor::Pinned => 3, Flavor::Sliding => 4 } }
    fn any_flavor() -> Flavor { let k: u8 = kani::any(); kani::assume(k < 5); match k { 0 => Flavor::Empty, 1 => Flavor::Sparse, 2 => Flavor::Hybrid, 3 => Flavor::Pinned, _ => Flavor::Sliding } }
    #[kani::proof]
    fn shim_flavor_gt() {
        let a = any_flavor(); let b = any_flavor();
        assert!((a > b) == (frank(a) > frank(b)));
        assert!((a < b) == (frank(a) < frank(b)));
        assert!((a >= b) == (frank(a) >= frank(b)));
        assert!((a == b) == (frank(a) == frank(b)));
    }
