    // Leaves of unit cpc_coder (contracts/cpc_coder.rs): the facts about the REAL tables of cpc/compression_data.rs that the Verus unit
    // takes as contracts of the statics (external_body initializers vx_*_tables) and as the axiom `axiom_cpc_tables_inverse`.
    // Every harness is loop-free per symbol with the table number, the symbol and the 12-bit peek SYMBOLIC over their full domains
    // (complete), except the bounded cross-check at the end.
    //
    //   encoding entry  = (code_length << 12) | code_value           (code_value occupies the low code_length bits, emitted LSB first)
    //   decoding entry  = (code_length << 8)  | symbol               (indexed by the next 12 bits of the stream)
    //
    // The prefix-code / round-trip fact in the form the decoder uses it: for EVERY 12-bit peek whose low `len` bits are the code of
    // symbol b (whatever the following 12 - len bits are), the decoding table returns (len, b).  Hence decode(encode(b) ++ anything) = b
    // and the decoder consumes exactly the len bits the encoder wrote.

    // ---- the 22 Huffman tables of the window bytes ----
    // (the table number is a CONSTANT in each of the 22 unrolled copies: a symbolic first index into the 22 x 4096 table costs CBMC 7 minutes,
    //  a constant one less than a second per table; byte and peek are symbolic over their full domains)
    fn byte_table_inverse_at(p: usize, b: u8, peek: u16) {
        let enc: &[[u16; 256]; 22] = &ENCODING_TABLES_FOR_HIGH_ENTROPY_BYTE;
        let dec: &[[u16; 4096]; 22] = &DECODING_TABLES_FOR_HIGH_ENTROPY_BYTE;
        let info = enc[p][b as usize];
        let len = info >> 12;
        let val = info & 0xfff;
        // enc_entry_ok
        assert!(1 <= len && len <= 12);
        assert!(val >> len == 0);
        // prefix_ok
        if peek & ((1u16 << len) - 1) == val {
            assert!(dec[p][peek as usize] == ((len << 8) | (b as u16)));
        }
        // dec_entry_ok: every entry of the decoding table has a code length in 1..=12 (the decoder's shift / subtraction obligations)
        let e = dec[p][peek as usize];
        assert!(1 <= (e >> 8) && (e >> 8) <= 12);
    }
    #[kani::proof]
    #[kani::unwind(23)]
    fn leaf_cpc_coder_byte_tables_inverse() {
        let b: u8 = kani::any();
        let peek: u16 = kani::any(); kani::assume(peek < 4096);
        let mut p = 0usize;
        while p < 22 { byte_table_inverse_at(p, b, peek); p += 1; }
    }

    // ---- the 65-symbol length-limited unary code of the column deltas ----
    #[kani::proof]
    fn leaf_cpc_coder_llu65_inverse() {
        let x: usize = kani::any(); kani::assume(x < 65);
        let peek: u16 = kani::any(); kani::assume(peek < 4096);
        let enc: &[u16; 65] = &LENGTH_LIMITED_UNARY_ENCODING_TABLE65;
        let dec: &[u16; 4096] = &LENGTH_LIMITED_UNARY_DECODING_TABLE65;
        let info = enc[x];
        let len = info >> 12;
        let val = info & 0xfff;
        assert!(1 <= len && len <= 12);
        assert!(val >> len == 0);
        if peek & ((1u16 << len) - 1) == val {
            assert!(dec[peek as usize] == ((len << 8) | (x as u16)));
        }
    }

    #[kani::proof]
    fn leaf_cpc_coder_llu65_dec_entries() {
        let peek: usize = kani::any(); kani::assume(peek < 4096);
        let e = LENGTH_LIMITED_UNARY_DECODING_TABLE65[peek];
        assert!(1 <= (e >> 8) && (e >> 8) <= 12);
        assert!((e & 0xff) <= 64);
    }

    // ---- the 16 column permutations of the sliding flavor: encoding and decoding rows are inverse permutations of 0..56 ----
    #[kani::proof]
    fn leaf_cpc_coder_column_perms_inverse() {
        let p: usize = kani::any(); kani::assume(p < 16);
        let c: usize = kani::any(); kani::assume(c < 56);
        let enc: &[[u8; 56]; 16] = &COLUMN_PERMUTATIONS_FOR_ENCODING;
        let dec: &[[u8; 56]; 16] = &COLUMN_PERMUTATIONS_FOR_DECODING;
        let e = enc[p][c];
        assert!(e < 56);
        assert!(dec[p][e as usize] as usize == c);
        let d = dec[p][c];
        assert!(d < 56);
        assert!(enc[p][d as usize] as usize == c);
    }

    // ---- bounded cross-check of the Verus stream model on the real helpers: write_unary then (final flush) read_unary returns the value
    //      and both sides agree on the number of bits; start state (bufbits, low bits of bitbuf) symbolic, value <= 40 ----
    #[kani::proof]
    #[kani::unwind(8)]
    fn leaf_cpc_coder_unary_roundtrip_bounded() {
        let value: u64 = kani::any(); kani::assume(value <= 40);
        let start_bits: u8 = kani::any(); kani::assume(start_bits <= 31);
        let start_buf: u64 = kani::any(); kani::assume(start_buf >> start_bits == 0);
        let mut words = [0u32; 4];
        let mut widx = 0usize; let mut bitbuf = start_buf; let mut bufbits = start_bits;
        write_unary(&mut words, &mut widx, &mut bitbuf, &mut bufbits, value);
        assert!(bufbits <= 31);
        assert!(32 * widx + bufbits as usize == start_bits as usize + value as usize + 1);
        // final flush as in low_level_compress_pairs
        words[widx] = (bitbuf & 0xffffffff) as u32;
        // reader: skip the start bits, then read the unary code
        let mut ridx = 0usize; let mut rbuf = 0u64; let mut rbits = 0u8;
        maybe_fill_bitbuf(&mut rbuf, &mut rbits, &words, &mut ridx, 32);
        assert!((rbuf & ((1u64 << start_bits) - 1)) == start_buf);
        rbuf >>= start_bits; rbits -= start_bits;
        let got = read_unary(&words, &mut ridx, &mut rbuf, &mut rbits);
        assert!(got == value);
        assert!(32 * ridx - rbits as usize == start_bits as usize + value as usize + 1);
    }
