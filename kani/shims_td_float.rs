    // td_int: float / std leaves assumed by the Verus unit, checked on the REAL items of tdigest/sketch.rs.
    // All harnesses are loop-free and range over the full f64 / u64 domain unless a bound is stated.
    fn k_le(a: f64, b: f64) -> bool { matches!(a.partial_cmp(&b), Some(Ordering::Less | Ordering::Equal)) }
    fn k_lt(a: f64, b: f64) -> bool { a.partial_cmp(&b) == Some(Ordering::Less) }
    fn k_gt(a: f64, b: f64) -> bool { a.partial_cmp(&b) == Some(Ordering::Greater) }
    fn k_eq(a: f64, b: f64) -> bool { a.partial_cmp(&b) == Some(Ordering::Equal) }
    fn k_centroid(mean: f64, w: u64) -> Centroid { Centroid { mean, weight: NonZeroU64::new(w).unwrap() } }
    // axiom_f64_cmp_flip
    #[kani::proof]
    fn td_ax_cmp_flip() {
        let a: f64 = kani::any(); let b: f64 = kani::any();
        assert!(k_lt(a, b) == k_gt(b, a));
        assert!(k_eq(a, b) == k_eq(b, a));
    }
    // axiom_f64_le_lt_trans / lt_le_trans / le_trans
    #[kani::proof]
    fn td_ax_le_lt_trans() {
        let a: f64 = kani::any(); let b: f64 = kani::any(); let c: f64 = kani::any();
        kani::assume(k_le(a, b) && k_lt(b, c));
        assert!(k_lt(a, c));
    }
    #[kani::proof]
    fn td_ax_lt_le_trans() {
        let a: f64 = kani::any(); let b: f64 = kani::any(); let c: f64 = kani::any();
        kani::assume(k_lt(a, b) && k_le(b, c));
        assert!(k_lt(a, c));
    }
    #[kani::proof]
    fn td_ax_le_trans() {
        let a: f64 = kani::any(); let b: f64 = kani::any(); let c: f64 = kani::any();
        kani::assume(k_le(a, b) && k_le(b, c));
        assert!(k_le(a, c));
    }
    // axiom_f64_cmp_total, axiom_f64_le_refl
    #[kani::proof]
    fn td_ax_cmp_total() {
        let a: f64 = kani::any(); let b: f64 = kani::any();
        assert!(a.partial_cmp(&b).is_none() == (a.is_nan() || b.is_nan()));
        if !a.is_nan() { assert!(k_le(a, a)); }
    }
    // assume_specification f64::is_finite
    #[kani::proof]
    fn td_is_finite() {
        let a: f64 = kani::any();
        assert!(a.is_finite() == (!a.is_nan() && !a.is_infinite()));
    }
    // assume_specification NonZeroU64::checked_add
    #[kani::proof]
    fn td_nonzero_checked_add() {
        let x: u64 = kani::any(); let y: u64 = kani::any(); kani::assume(x != 0);
        let r = NonZeroU64::new(x).unwrap().checked_add(y);
        match x.checked_add(y) { Some(s) => assert!(r.map(|v| v.get()) == Some(s)), None => assert!(r.is_none()) }
    }
    // axiom_add_mean_finite / axiom_add_mean_between (Centroid::add, weights with w1 + w2 <= 2^53) are NOT discharged by Kani: CBMC has no model of
    // fma (a symbolic f64::mul_add is havoc: `a.mul_add(b, c) == a * b + c` is refuted in 0.4 s) and a single symbolic f64 division of two
    // converted u64 does not finish in 10 minutes.  They stay stated assumptions of unit td_int, argued on paper (ratio_other <= 1 - 2^-53 because
    // w1 + w2 is exact; delta carries a relative error <= 2^-53; so self_mean + delta * ratio_other lies strictly between the two means) and
    // exercised natively (2e8 adversarial cases around f64::MAX, ties at 2^53, extreme weight ratios: no violation).
    // Without the weight bound BOTH claims are false on the real code; the search harness below finds the input, and the playback on the real
    // code (native fma) confirms it.
    // search harness (expected to FAIL on the current code): Centroid::add with weights up to u64::MAX makes an infinite mean out of two finite ones
    #[kani::proof]
    fn td_search_add_mean_finite_any_weight() {
        let m1: f64 = kani::any(); let m2: f64 = kani::any(); let w1: u64 = kani::any(); let w2: u64 = kani::any();
        kani::assume(m1.is_finite() && m2.is_finite() && w1 >= 1 && w2 >= 1 && w1.checked_add(w2).is_some());
        let mut c = k_centroid(m1, w1);
        c.add(k_centroid(m2, w2));
        assert!(c.mean.is_finite());
    }
    // axiom_f64_min_max
    #[kani::proof]
    fn td_ax_min_max() {
        let a: f64 = kani::any(); let b: f64 = kani::any();
        if !a.is_nan() { assert!(k_le(a.min(b), a) && k_le(a, a.max(b))); }
        if !b.is_nan() { assert!(k_le(a.min(b), b) && k_le(b, a.max(b))); }
    }
    // vx_u64_as_f64 / u2f: the cast is a function of its operand (two evaluations agree bit for bit), finite, non-negative, monotone
    #[kani::proof]
    fn td_u64_as_f64() {
        let x: u64 = kani::any(); let y: u64 = kani::any();
        let fx = x as f64; let fy = y as f64;
        assert!(fx.to_bits() == (x as f64).to_bits());
        assert!(fx.is_finite() && fx >= 0.0);
        if x <= y { assert!(fx <= fy); }
        if x >= 1 { assert!(fx >= 1.0); }
    }
    // axiom_f64_ops_deterministic, comparison part: `==` agrees with partial_cmp (that + - * / are functions of their operands is
    // language semantics: two structurally equal float circuits are not something a SAT solver proves equal in useful time - tried, 15 min time-out)
    #[kani::proof]
    fn td_f64_eq_is_cmp_equal() {
        let a: f64 = kani::any(); let b: f64 = kani::any();
        assert!((a == b) == (a.partial_cmp(&b) == Some(Ordering::Equal)));
        assert!((a <= b) == k_le(a, b)); assert!((a >= b) == k_le(b, a)); assert!((a < b) == k_lt(a, b)); assert!((a > b) == k_gt(a, b));
    }
    // vx_lower_bound / vx_upper_bound: the REAL expressions `cs.binary_search_by(|c| centroid_lower_bound(c, v)).unwrap_or_else(identity)` (and
    // upper) return the partition point of `mean < v` (`mean > v`) on every slice that is partitioned by that predicate; lengths 0..=6.
    fn k_bounds_case<const N: usize>(upper: bool) {
        let cs: [Centroid; N] = core::array::from_fn(|_| k_centroid(kani::any(), 1));
        let v: f64 = kani::any();
        let pred = |c: &Centroid| if upper { !(c.mean > v) } else { c.mean < v };   // the "Less" side of the comparator
        let mut i = 0; while i + 1 < N { kani::assume(pred(&cs[i]) || !pred(&cs[i + 1])); i += 1; }   // partitioned: true* false*
        let r = if upper { cs.binary_search_by(|c| centroid_upper_bound(c, v)).unwrap_or_else(identity) }
                else { cs.binary_search_by(|c| centroid_lower_bound(c, v)).unwrap_or_else(identity) };
        assert!(r <= N);
        let j: usize = kani::any();
        if j < N { assert!(pred(&cs[j]) == (j < r)); }     // (no assume here: the cases run in sequence on one path)
    }
    #[kani::proof]
    #[kani::unwind(9)]
    fn td_shim_lower_bound() { k_bounds_case::<0>(false); k_bounds_case::<1>(false); k_bounds_case::<2>(false); k_bounds_case::<3>(false); k_bounds_case::<4>(false); k_bounds_case::<5>(false); k_bounds_case::<6>(false); }
    #[kani::proof]
    #[kani::unwind(9)]
    fn td_shim_upper_bound() { k_bounds_case::<0>(true); k_bounds_case::<1>(true); k_bounds_case::<2>(true); k_bounds_case::<3>(true); k_bounds_case::<4>(true); k_bounds_case::<5>(true); k_bounds_case::<6>(true); }
    // vx_sort_by_centroid_cmp: `b.sort_by(centroid_cmp)` on finite means: same length, permutation, ascending by mean; concrete lengths 0..=4
    fn k_sort_case<const N: usize>() {
        let x: [Centroid; N] = core::array::from_fn(|_| { let w: u64 = kani::any(); kani::assume(w != 0); k_centroid(kani::any(), w) });
        let mut i = 0; while i < N { kani::assume(x[i].mean.is_finite()); i += 1; }
        let mut b: Vec<Centroid> = x.to_vec();
        b.sort_by(centroid_cmp);
        assert!(b.len() == N);
        let w: u64 = kani::any(); kani::assume(w != 0); let probe = k_centroid(kani::any(), w);
        let same = |a: &Centroid, c: &Centroid| a.mean.to_bits() == c.mean.to_bits() && a.weight == c.weight;
        let mut c0 = 0; let mut c1 = 0; let mut i = 0;
        while i < N { if same(&x[i], &probe) { c0 += 1; } if same(&b[i], &probe) { c1 += 1; } if i + 1 < N { assert!(k_le(b[i].mean, b[i + 1].mean)); } i += 1; }
        assert!(c0 == c1);
    }
    #[kani::proof]
    #[kani::unwind(6)]
    fn td_shim_sort_by_centroid_cmp() { k_sort_case::<0>(); k_sort_case::<1>(); k_sort_case::<2>(); k_sort_case::<3>(); k_sort_case::<4>(); }
    // ---- witness searches for two defects found on the UNCHANGED code while writing the td_int contracts (both are expected to FAIL; the
    // ---- first is deliberately not registered in harnesses.json, run it by hand) -------------------------------------------------------------------
    // (1) td_search_add_mean_finite_any_weight (above): Centroid::add(mean 8.988465138557275e307 = 0x7FDFFFFFDFFFFFFF, weight 217) with
    //     other = (f64::MAX, weight 18446744073709550787) gives mean = +inf (debug_assert "Centroid's mean must be finite" fires): ratio_other rounds
    //     to 1.0 and delta was rounded up.  With w1 + w2 <= 2^53 the mean stays finite and between the two means (td_add_mean_*).
    //     Same mechanism, smaller numbers: (-1.0, w 1) + (9007199254740994.0, w 2^60) -> 9007199254740996.0 > both means.
    // (2) [REPAIRED in /repo by b0fe4a6, clamp added] weighted_average had no clamp to [x1, x2] (datasketches-java weightedAverageSorted has one), so
    //     quantile() could leave [min, max] and was not monotone at the ulp level on ordinary data with duplicates:  TDigestMut::new(10); 5 x update(0.1);
    //     for i in 0..2000 { update(1.1 + 0.37 * i) }; quantile(0.001001) = 0.09999999999999999 < min_value() = 0.1.  On the pre-fix code the harness
    //     below (then restricted to finite weights) failed in 9 s; on the clamped code it is a complete proof and is registered.
    // /*@C10.weighted_average_in_range*/ on the REAL weighted_average: every non-NaN x1 <= x2 and ANY w1, w2 (NaN and infinities included)
    #[kani::proof]
    fn td_weighted_average_in_range() {
        let x1: f64 = kani::any(); let x2: f64 = kani::any(); let w1: f64 = kani::any(); let w2: f64 = kani::any();
        kani::assume(x1 <= x2);
        // Kani's built-in checks fail a harness wherever an operation CREATES a NaN from non-NaN operands (0 * inf, inf - inf, 0 / 0, inf / inf), and
        // a constraint on an intermediate RESULT makes CBMC reason about the multiplier / divider circuits (no verdict in 10 min).  So the weights
        // range over three input-only regions that together drive the unclamped value x through every class: NaN (C1), every finite value of
        // either sign, inside or outside [x1, x2], including negative and zero weights (C2), +-inf by overflow (C3).  The clamp never looks at w.
        let b500 = 3.273390607896142e150; let b600 = 4.149515568880993e180; let b100 = 1.2676506002282294e30;   // 2^500, 2^600, 2^100
        let c1 = w1.is_nan() && w2.is_nan();
        let c2 = x1.abs() <= b500 && x2.abs() <= b500 && w1.abs() <= b500 && w2.abs() <= b500 && w1 + w2 != 0.0;
        let c3 = x1.is_finite() && x1.abs() >= b600 && w1.is_finite() && w1.abs() >= b600 && x2.abs() <= b100 && w2.abs() <= 1.0;
        kani::assume(c1 || c2 || c3);
        let r = weighted_average(x1, w1, x2, w2);
        assert!(!r.is_nan());
        assert!(x1 <= r && r <= x2);
    }
    // axiom_f64_max_lub: f64::max is the least upper bound of its operands
    #[kani::proof]
    fn td_ax_max_lub() {
        let a: f64 = kani::any(); let b: f64 = kani::any(); let c: f64 = kani::any();
        kani::assume(k_le(a, c) && k_le(b, c));
        assert!(k_le(a.max(b), c));
    }
