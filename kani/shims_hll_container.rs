    // hll_sketch vx_iter_container:  `c.coupons.iter().filter(|&&c| c != COUPON_EMPTY).copied().collect()` == nz(c.coupons)
    // (the non-empty coupons in TABLE ORDER).  The harness calls the REAL Container::iter on a symbolic table of <= 8 slots (the List size).
    #[kani::proof]
    #[kani::unwind(10)]
    fn shim_iter_container() {
        let a: [u32; 8] = kani::any(); let n: usize = kani::any(); kani::assume(n <= 8);
        let c = Container::from_coupons(3, a[..n].to_vec().into_boxed_slice(), kani::any());
        // (1) the iterator itself, element by element
        let mut it = c.iter();
        let mut k = 0; let mut i = 0;
        while i < n { if a[i] != COUPON_EMPTY { assert!(it.next() == Some(a[i])); k += 1; } i += 1; }
        assert!(it.next().is_none());
        // (2) the collected vector of the shim
        let r: Vec<u32> = c.iter().collect();
        assert!(r.len() == k);
        let j: usize = kani::any(); kani::assume(j < k);
        // r[j] is the j-th non-empty word
        let mut seen = 0; let mut i = 0; let mut e = 0u32;
        while i < n { if a[i] != 0 { if seen == j { e = a[i]; } seen += 1; } i += 1; }
        assert!(r[j] == e && r[j] != 0);
    }
