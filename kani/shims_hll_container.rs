    // hll_sketch vx_iter_container:  `c.coupons.iter().filter(|&&c| c != COUPON_EMPTY).copied().collect()` == nz(c.coupons)
    // (the non-empty coupons in TABLE ORDER).  The harness calls the REAL Container::iter on tables of 0..=8 slots (8 = the List size) whose
    // words are all symbolic.  (Table LENGTH concrete per case: with a symbolic length CBMC aborts / runs out of memory on Vec growth.)
    fn iter_container_case<const N: usize>() {
        let a: [u32; N] = kani::any();
        let c = Container::from_coupons(3, a.to_vec().into_boxed_slice(), kani::any());
        // (1) the iterator itself, element by element
        let mut it = c.iter();
        let mut k = 0; let mut i = 0;
        while i < N { if a[i] != COUPON_EMPTY { assert!(it.next() == Some(a[i])); k += 1; } i += 1; }
        assert!(it.next().is_none());
        // (2) the collected vector of the shim: r[j] is the j-th non-empty word
        let r: Vec<u32> = c.iter().collect();
        assert!(r.len() == k);
        let j: usize = kani::any();
        if j < k {
            let mut seen = 0; let mut i = 0; let mut e = 0u32;
            while i < N { if a[i] != 0 { if seen == j { e = a[i]; } seen += 1; } i += 1; }
            assert!(r[j] == e && r[j] != 0);
        }
    }
    #[kani::proof]
    #[kani::unwind(10)]
    fn shim_iter_container_small() { iter_container_case::<0>(); iter_container_case::<1>(); iter_container_case::<2>(); iter_container_case::<3>(); iter_container_case::<4>(); }
    #[kani::proof]
    #[kani::unwind(10)]
    fn shim_iter_container_8() { iter_container_case::<8>(); }
