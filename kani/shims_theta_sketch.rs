    // theta_sketch (external_body iter of CompactThetaSketch): `self.entries.iter().copied()` yields exactly entries, in order;
    // ThetaSketch::iter is table.iter() (see shim_theta_table_iter)
    #[kani::proof]
    #[kani::unwind(8)]
    fn shim_compact_theta_iter() {
        let a: [u64; 6] = kani::any(); let n: usize = kani::any(); kani::assume(n <= 6);
        let c = CompactThetaSketch { entries: a[..n].to_vec(), theta: kani::any(), seed_hash: kani::any(), ordered: kani::any(), empty: kani::any() };
        let mut it = c.iter();
        let mut i = 0;
        while i < n { assert!(it.next() == Some(a[i])); i += 1; }
        assert!(it.next().is_none());
    }
