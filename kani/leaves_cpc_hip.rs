    // C01 premise for CPC, one step of the HIP recurrence (CpcSketch::update_hip is opaque in the VX units cpc_update / cpc_api).
    // update_sparse / update_windowed call update_hip(row_col) right after `num_coupons += 1`, so with c = the count BEFORE the increment
    // the premise of the c01_cpc_hip_* harnesses (hip_est_accum >= num_coupons, finite or +inf) is carried from c to c + 1.
    // Loop-free; lg_k symbolic over the whole range 4..=26, row_col / kxp / hip_est_accum / num_coupons fully symbolic.
    fn hip_state(lg_k: u8, c_after: u32, kxp: f64, hip: f64) -> CpcSketch {
        CpcSketch {
            lg_k,
            seed: DEFAULT_UPDATE_SEED,
            seed_hash: 0,
            first_interesting_column: 0,
            num_coupons: c_after,
            surprising_value_table: None,
            window_offset: 0,
            sliding_window: Vec::new(),
            merge_flag: false,
            kxp,
            hip_est_accum: hip,
        }
    }
    // for ANY column: 0 < kxp <= k finite and hip >= c finite  ==>  hip' >= c + 1 (not NaN) and kxp' <= k (not NaN)
    #[kani::proof]
    fn leaf_cpc_update_hip_accum_step() {
        let lg_k: u8 = kani::any(); kani::assume(lg_k >= 4 && lg_k <= 26);
        let k = (1u64 << lg_k) as f64;
        let c: u32 = kani::any(); kani::assume(c < u32::MAX);
        let kxp: f64 = kani::any(); kani::assume(kxp.is_finite() && kxp > 0.0 && kxp <= k);
        let hip: f64 = kani::any(); kani::assume(hip.is_finite() && hip >= c as f64);
        let row_col: u32 = kani::any();
        let mut s = hip_state(lg_k, c + 1, kxp, hip);
        s.update_hip(row_col);
        assert!(s.hip_est_accum >= (c as f64) + 1.0);
        assert!(s.hip_est_accum >= s.num_coupons as f64);
        assert!(s.kxp <= k && s.kxp <= kxp);
        assert!(s.num_coupons == c + 1 && s.lg_k == lg_k && !s.merge_flag);
    }
    // the lower end of the kxp range needs the fact that the coupon is NOVEL: its probability mass 2^-(col+1) is still part of kxp
    // (kxp = sum over the unset bits (r, c) of 2^-(c+1)); then kxp' >= 0, and kxp' == 0 only when that was the last unset mass
    #[kani::proof]
    fn leaf_cpc_update_hip_kxp_range() {
        let lg_k: u8 = kani::any(); kani::assume(lg_k >= 4 && lg_k <= 26);
        let k = (1u64 << lg_k) as f64;
        let c: u32 = kani::any(); kani::assume(c < u32::MAX);
        let row_col: u32 = kani::any();
        let col = (row_col & 63) as usize;
        let kxp: f64 = kani::any(); kani::assume(kxp.is_finite() && kxp >= INVERSE_POWERS_OF_2[col + 1] && kxp <= k);
        let hip: f64 = kani::any(); kani::assume(hip.is_finite() && hip >= c as f64);
        let mut s = hip_state(lg_k, c + 1, kxp, hip);
        s.update_hip(row_col);
        assert!(s.kxp >= 0.0 && s.kxp <= k);
        assert!(s.kxp > 0.0 || kxp == INVERSE_POWERS_OF_2[col + 1]);
    }
    // (without the novelty premise the lower bound fails: kxp = 0.1, col = 0 gives kxp' = -0.4)

    // fresh sketch: kxp == k exactly, accumulator 0 (the float facts the VX unit cpc_api leaves uninterpreted: k_as_f64, 0.0)
    fn seed_hash_stub(_seed: u64) -> u16 { 1 }
    #[kani::proof]
    #[kani::stub(compute_seed_hash, seed_hash_stub)]
    fn leaf_cpc_fresh_kxp_is_k() {
        let lg_k: u8 = kani::any(); kani::assume(lg_k >= 4 && lg_k <= 26);
        let s = CpcSketch::with_seed(lg_k, DEFAULT_UPDATE_SEED);
        assert!(s.kxp == (1u64 << lg_k) as f64 && s.kxp >= 16.0 && s.kxp <= 67108864.0);
        assert!(s.hip_est_accum == 0.0 && s.num_coupons == 0 && !s.merge_flag);
    }
    // max_serialized_bytes above the empirical table: floor(0.6 * 2^n) == 3 * 2^n div 5 for n = 20..=26
    // (the contract ASSUMED for the shim vx_factor_times_k of unit cpc_api)
    #[kani::proof]
    fn leaf_cpc_max_bytes_factor() {
        let n: u8 = kani::any(); kani::assume(n >= 20 && n <= 26);
        let k: usize = 1usize << n;
        assert!(CpcSketch::max_serialized_bytes(n) == (3 * k) / 5 + 40);
    }
