    // WITNESS harnesses (bounded, DESIGN.md 7.3e) for C08 on the REAL CountMinSketch<u32>, through the public entry points
    // with_seed / update_with_weight / estimate / merge / halve / total_weight only (no private helper is named).  Tables of 3 rows x 7
    // buckets (21 cells: not a multiple of 2, 4 or 8) with ARBITRARY counters below 2^30; the whole table is compared with the model.
    const WR: u8 = 3; const WB: u32 = 7; const WN: usize = 21;
    fn w_cm(cells: [u32; WN], total: u32) -> CountMinSketch<u32> {
        let mut s = CountMinSketch::<u32>::with_seed(WR, WB, 9001);
        let mut i = 0; while i < WN { s.counts[i] = cells[i]; i += 1; }
        s.total_weight = total; s
    }
    fn w_cells() -> [u32; WN] { let c: [u32; WN] = kani::any(); let mut i = 0; while i < WN { kani::assume(c[i] < (1 << 30)); i += 1; } c }
    // the DOCUMENTED bucket of a row: h1 of MurmurHash3-x64-128(item, row seed) mod num_buckets
    fn w_bucket(s: &CountMinSketch<u32>, row: usize, item: u64) -> usize {
        let mut h = MurmurHash3X64128::with_seed(s.hash_seeds[row]); item.hash(&mut h); let (h1, _) = h.finish128(); (h1 % WB as u64) as usize
    }
    #[kani::proof] #[kani::unwind(90)]
    fn w_c08_cm_merge_is_cellwise_sum() {
        let a = w_cells(); let b = w_cells(); let ta: u32 = kani::any(); let tb: u32 = kani::any(); kani::assume(ta < (1 << 30) && tb < (1 << 30));
        let mut s = w_cm(a, ta); let o = w_cm(b, tb);
        s.merge(&o);
        let i: usize = kani::any(); kani::assume(i < WN);
        assert!(s.counts[i] == a[i] + b[i]);
        assert!(s.total_weight() == ta + tb);
        assert!(o.counts[i] == b[i] && o.total_weight() == tb);
        assert!(s.counts.len() == WN);
    }
    #[kani::proof] #[kani::unwind(23)]
    fn w_c08_cm_halve_is_cellwise() {
        let a = w_cells(); let ta: u32 = kani::any(); kani::assume(ta < (1 << 30));
        let mut s = w_cm(a, ta);
        s.halve();
        let i: usize = kani::any(); kani::assume(i < WN);
        assert!(s.counts[i] == a[i] / 2);
        assert!(s.total_weight() == ta / 2);
    }
    // one update of a concrete item (the hash runs concretely) into an arbitrary table: exactly the documented cell of every row
    // grows by the weight, every other cell is unchanged, the total grows by the weight, and estimate() is the minimum of those cells
    #[kani::proof] #[kani::unwind(23)]
    fn w_c08_cm_update_hits_documented_buckets() {
        let a = w_cells(); let ta: u32 = kani::any(); kani::assume(ta < (1 << 30));
        let w: u32 = kani::any(); kani::assume(w >= 1 && w < (1 << 30));
        let item: u64 = 0x1234_5678_9abc_def0;
        let mut s = w_cm(a, ta);
        s.update_with_weight(item, w);
        let i: usize = kani::any(); kani::assume(i < WN);
        let row = i / WB as usize; let col = i % WB as usize;
        let hit = w_bucket(&s, row, item) == col;
        assert!(s.counts[i] == if hit { a[i] + w } else { a[i] });
        assert!(s.total_weight() == ta + w);
        let e = s.estimate(item);
        let c0 = s.counts[w_bucket(&s, 0, item)]; let c1 = s.counts[7 + w_bucket(&s, 1, item)]; let c2 = s.counts[14 + w_bucket(&s, 2, item)];
        let m = if c0 < c1 { if c0 < c2 { c0 } else { c2 } } else if c1 < c2 { c1 } else { c2 };
        assert!(e == m);
    }
