    // part of vx_sketch_clone (cpc_union / cpc_union2): derive(Clone) on PairTable is field-wise, every field / slot symbolic
    fn pt_clone_case<const T: usize>() {
        let slots: [u32; T] = kani::any();
        let s = PairTable { lg_size: kani::any(), num_valid_bits: kani::any(), num_items: kani::any(), slots: slots.to_vec() };
        let c = s.clone();
        assert!(c.lg_size == s.lg_size && c.num_valid_bits == s.num_valid_bits && c.num_items == s.num_items && c.slots.len() == T);
        let j: usize = kani::any(); if j < T { assert!(c.slots[j] == slots[j]); }
    }
    #[kani::proof]
    #[kani::unwind(10)]
    fn shim_pair_table_clone() { pt_clone_case::<0>(); pt_clone_case::<4>(); pt_clone_case::<8>(); }
