    // cpc_union / cpc_union2 vx_sketch_clone: `s.clone()` == *s (derive(Clone) on CpcSketch is field-wise; Vec::clone copies the contents; the
    // PairTable part is shim_pair_table_clone).  Bounded: window of 0 or 4 bytes, table None or a fresh 4-slot table, scalars / bytes symbolic.
    fn clone_case<const W: usize>(with_table: bool) {
        let win: [u8; W] = kani::any();
        let table = if with_table { Some(PairTable::new(2, 10)) } else { None };
        let s = CpcSketch { lg_k: kani::any(), seed: kani::any(), seed_hash: kani::any(), first_interesting_column: kani::any(), num_coupons: kani::any(),
            surprising_value_table: table, window_offset: kani::any(), sliding_window: win.to_vec(), merge_flag: kani::any(), kxp: kani::any(), hip_est_accum: kani::any() };
        let c = s.clone();
        assert!(c.lg_k == s.lg_k && c.seed == s.seed && c.seed_hash == s.seed_hash && c.first_interesting_column == s.first_interesting_column);
        assert!(c.num_coupons == s.num_coupons && c.window_offset == s.window_offset && c.merge_flag == s.merge_flag);
        assert!(c.kxp.to_bits() == s.kxp.to_bits() && c.hip_est_accum.to_bits() == s.hip_est_accum.to_bits());
        assert!(c.sliding_window.len() == W);
        let i: usize = kani::any(); if i < W { assert!(c.sliding_window[i] == win[i]); }
        match (&c.surprising_value_table, &s.surprising_value_table) {
            (None, None) => { assert!(!with_table); }
            (Some(a), Some(b)) => {
                assert!(with_table && a.slots().len() == 4 && b.slots().len() == 4);
                let j: usize = kani::any(); if j < 4 { assert!(a.slots()[j] == b.slots()[j]); }
            }
            _ => { assert!(false); }
        }
    }
    #[kani::proof]
    #[kani::unwind(6)]
    fn shim_sketch_clone() { clone_case::<0>(false); clone_case::<4>(false); clone_case::<0>(true); clone_case::<4>(true); }
