    // WITNESS harnesses, family W2 (CPC), part 1: CpcUnion (C06).  Bounded stand-ins (DESIGN.md 2.4 / 7.3e) for the VX units
    // cpc_union / cpc_union_kernels: the C06 postconditions as executable assertions over the stable entry points
    // CpcUnion::{new, update, to_sketch, num_coupons, lg_k} and CpcSketch::{new, row_col_update, build_bit_matrix, num_coupons}.
    // Model: a CPC sketch of parameter lg_k IS its K x 64 bit matrix; the union result is the OR of the inputs' matrices with the
    // rows folded modulo 2^min(lg_k), its coupon count is the popcount of that matrix, and it is marked merged (ICON, no HIP).
    //
    // Why most inputs are concrete: one symbolic coupon makes "was it novel?" a symbolic branch, after which PairTable::num_items
    // is symbolic and CBMC unwinds the `while 4*num_items > 3*size { rebuild }` loop of every later maybe_insert to the bound
    // (measured: no verdict in 10 min for two symbolic coupons at lg_k = 4).  So: symbolic where there is at most ONE table
    // insertion (harness 1: arbitrary 64-row matrix + arbitrary coupon), concrete enumerations elsewhere.

    /// expected fold of a 64-row matrix onto 16 rows (row r goes to row r mod 16)
    fn fold_64_to_16(m: &[u64; 64]) -> [u64; 16] {
        let mut exp = [0u64; 16];
        let mut r = 0usize;
        while r < 64 {
            exp[r & 15] |= m[r];
            r += 1;
        }
        exp
    }

    /// C06 reduce_k fold + Case B: a union in bit-matrix mode at lg_k = 6 (ANY 64 x 64 matrix) receives a one-coupon sketch of
    /// lg_k = 4 (ANY row, col): afterwards the union has lg_k = 4 and holds exactly fold(matrix) | coupon.
    /// (The popcount clause is checked in the concrete harnesses: a popcount equality over 16 symbolic words costs CBMC > 4 min.)
    pub fn reduce_k_fold_body(m: [u64; 64], row: u32, col: u32) {
        let mut u = CpcUnion { lg_k: 6, seed: DEFAULT_UPDATE_SEED, state: UnionState::BitMatrix(m.to_vec()) };
        let mut s = CpcSketch::new(4);
        s.row_col_update((row << 6) | col);
        u.update(&s);
        let mut exp = fold_64_to_16(&m);
        exp[row as usize] |= 1u64 << col;
        assert!(u.lg_k() == 4);
        match &u.state {
            UnionState::BitMatrix(x) => {
                assert!(x.len() == 16);
                let mut i = 0usize;
                while i < 16 {
                    assert!(x[i] == exp[i]);
                    i += 1;
                }
            }
            _ => assert!(false),
        }
    }

    #[kani::proof]
    #[kani::unwind(65)]
    fn w2_c06_union_reduce_k_fold_6_to_4() {
        let m: [u64; 64] = kani::any();
        let row: u32 = kani::any();
        let col: u32 = kani::any();
        kani::assume(row < 16 && col < 64);
        reduce_k_fold_body(m, row, col);
    }

    /// all C06 result clauses for a union whose expected folded matrix is `exp` (rows 0..2^lg_min)
    fn check_result(u: &CpcUnion, lg_min: u8, exp: &[u64; 32]) {
        let k = 1usize << lg_min;
        let r = u.to_sketch();
        assert!(r.lg_k() == lg_min);
        assert!(u.lg_k() == lg_min);
        assert!(r.merge_flag); // marked merged: ICON estimator, image without HIP registers
        let mut cnt = 0u32;
        let m = r.build_bit_matrix();
        assert!(m.len() == k);
        let mut i = 0usize;
        while i < k {
            assert!(m[i] == exp[i]);
            cnt += exp[i].count_ones();
            i += 1;
        }
        assert!(r.num_coupons() == cnt);
        assert!(u.num_coupons() == cnt);
    }

    fn model_set(exp: &mut [u64; 32], lg_min: u8, rc: u32) {
        exp[((rc >> 6) as usize) & ((1usize << lg_min) - 1)] |= 1u64 << (rc & 63);
    }

    /// one sparse input (accumulator routes: same lg_k = Case A copy shortcut; union bigger = reduce_k while empty;
    /// union smaller = walk with row mask)
    pub fn one_input_body(lg_u: u8, lg_a: u8, rc: u32) {
        let mut a = CpcSketch::new(lg_a);
        a.row_col_update(rc);
        let mut u = CpcUnion::new(lg_u);
        u.update(&a);
        let lg_min = lg_u.min(lg_a);
        let mut exp = [0u64; 32];
        model_set(&mut exp, lg_min, rc);
        check_result(&u, lg_min, &exp);
    }

    #[kani::proof]
    #[kani::unwind(33)]
    fn w2_c06_union_one_sparse_input_merged() {
        let rcs: [u32; 3] = [(0 << 6) | 0, (15 << 6) | 63, (9 << 6) | 8];
        let lgs: [(u8, u8); 3] = [(4, 4), (5, 4), (4, 5)];
        for rc in rcs {
            for (lu, la) in lgs {
                one_input_body(lu, la, rc);
            }
        }
        one_input_body(4, 5, (31 << 6) | 17);
        one_input_body(5, 5, (31 << 6) | 17);
    }

    /// two sparse inputs in both orders (reduce_k of a NON-empty accumulator, Case A walk, duplicates after folding)
    pub fn two_inputs_body(lg_u: u8, lg_a: u8, rc_a: u32, lg_b: u8, rc_b: u32) {
        let mut a = CpcSketch::new(lg_a);
        a.row_col_update(rc_a);
        let mut b = CpcSketch::new(lg_b);
        b.row_col_update(rc_b);
        let lg_min = lg_u.min(lg_a).min(lg_b);
        let mut exp = [0u64; 32];
        model_set(&mut exp, lg_min, rc_a);
        model_set(&mut exp, lg_min, rc_b);
        let mut u1 = CpcUnion::new(lg_u);
        u1.update(&a);
        u1.update(&b);
        check_result(&u1, lg_min, &exp);
        let mut u2 = CpcUnion::new(lg_u);
        u2.update(&b);
        u2.update(&a);
        u2.update(&b); // repetition changes nothing
        check_result(&u2, lg_min, &exp);
    }

    #[kani::proof]
    #[kani::unwind(33)]
    fn w2_c06_union_two_sparse_inputs_any_order() {
        two_inputs_body(5, 5, (20 << 6) | 3, 4, (9 << 6) | 8); // reduce_k on a non-empty accumulator
        two_inputs_body(5, 5, (20 << 6) | 3, 4, (4 << 6) | 3); // the two coupons coincide after folding (20 mod 16 = 4)
        two_inputs_body(4, 4, (1 << 6) | 0, 4, (1 << 6) | 0); // same coupon twice
    }

    pub fn feed(s: &mut CpcSketch, exp: &mut [u64; 32], lg_min: u8, pairs: &[(u32, u32)]) {
        for &(row, col) in pairs {
            s.row_col_update((row << 6) | col);
            model_set(exp, lg_min, (row << 6) | col);
        }
    }

    /// end to end through the public API only: Hybrid lg_k 6 (7 coupons, rows up to 63) -> union(6) goes to bit-matrix mode;
    /// Sparse lg_k 4 -> reduce_k 6 -> 4 (fold by 4) + Case B; Hybrid lg_k 5 -> Case C (window + table with row mask);
    /// to_sketch (window/table rebuilt from the matrix, Pinned flavor, 11 coupons)
    #[kani::proof]
    #[kani::unwind(65)]
    fn w2_c06_union_end_to_end_lgk_6_4_5() {
        let mut exp = [0u64; 32];
        let mut a = CpcSketch::new(6);
        feed(&mut a, &mut exp, 4, &[(1, 0), (17, 9), (33, 2), (49, 30), (40, 5), (63, 12), (2, 1)]);
        assert!(a.flavor() == Flavor::Hybrid);
        let mut b = CpcSketch::new(4);
        feed(&mut b, &mut exp, 4, &[(1, 3)]);
        assert!(b.flavor() == Flavor::Sparse);
        let mut c = CpcSketch::new(5);
        feed(&mut c, &mut exp, 4, &[(1, 0), (20, 11), (31, 4)]);
        assert!(c.flavor() == Flavor::Hybrid);
        let mut u = CpcUnion::new(6);
        u.update(&a);
        u.update(&b);
        u.update(&c);
        check_result(&u, 4, &exp);
    }
