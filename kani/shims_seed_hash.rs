    // cm_codec axiom_default_seed_hash: seed_hash_spec(DEFAULT_UPDATE_SEED) != 0 (known answer 0x93cc).  A concrete run of the REAL
    // compute_seed_hash (murmur3 x64 128 of the 8 LE bytes of the seed, seed 0, low 16 bits of h1) on the real constant.
    #[kani::proof]
    #[kani::unwind(10)]
    fn shim_default_seed_hash() {
        assert!(DEFAULT_UPDATE_SEED == 9001);
        let h = compute_seed_hash(DEFAULT_UPDATE_SEED);
        assert!(h == 0x93cc);
        assert!(h != 0);
    }
