    // fi_sketch vx_sort_rows_desc: `rows.sort_by_key(|row| std::cmp::Reverse(row.estimate))` => permutation of the rows, estimates descending.
    // REAL Row<T> (T = u64), concrete lengths 0..=4, every field symbolic.
    fn any_row() -> Row<u64> { Row { item: kani::any(), estimate: kani::any(), upper_bound: kani::any(), lower_bound: kani::any() } }
    fn sort_rows_case<const N: usize>() {
        let x: [Row<u64>; N] = core::array::from_fn(|_| any_row());
        let mut rows: Vec<Row<u64>> = x.to_vec();
        rows.sort_by_key(|row| std::cmp::Reverse(row.estimate));
        assert!(rows.len() == N);
        let w = any_row();
        let mut c0 = 0; let mut c1 = 0; let mut i = 0;
        while i < N { if x[i] == w { c0 += 1; } if rows[i] == w { c1 += 1; } if i + 1 < N { assert!(rows[i].estimate >= rows[i + 1].estimate); } i += 1; }
        assert!(c0 == c1);
    }
    #[kani::proof]
    #[kani::unwind(6)]
    fn shim_sort_rows_desc() { sort_rows_case::<0>(); sort_rows_case::<1>(); sort_rows_case::<2>(); sort_rows_case::<3>(); sort_rows_case::<4>(); }
