    // fi_sketch vx_sort_rows_desc: `rows.sort_by_key(|row| std::cmp::Reverse(row.estimate))` => permutation of the rows, estimates descending.
    // REAL Row<T> (T = u64), <= 4 rows, every field symbolic.
    fn any_row() -> Row<u64> { Row { item: kani::any(), estimate: kani::any(), upper_bound: kani::any(), lower_bound: kani::any() } }
    #[kani::proof]
    #[kani::unwind(6)]
    fn shim_sort_rows_desc() {
        let x = [any_row(), any_row(), any_row(), any_row()];
        let n: usize = kani::any(); kani::assume(n <= 4);
        let mut rows: Vec<Row<u64>> = x[..n].to_vec();
        rows.sort_by_key(|row| std::cmp::Reverse(row.estimate));
        assert!(rows.len() == n);
        let w = any_row();
        let mut c0 = 0; let mut c1 = 0; let mut i = 0;
        while i < n { if x[i] == w { c0 += 1; } if rows[i] == w { c1 += 1; } if i + 1 < n { assert!(rows[i].estimate >= rows[i + 1].estimate); } i += 1; }
        assert!(c0 == c1);
    }
