    // theta/bit_pack.rs against the REFERENCE BIT STREAM of the compressed theta form (serVer 4, DESIGN.md Appendix A):
    // values of `w` bits each, written one after the other, most significant bit first; stream bit k lives in byte k/8 at bit 7 - k%8.
    //     stream bit (i*w + j) == bit (w-1-j) of value i            (0 <= j < w)
    // COMPLETE proofs: every value array, every initial buffer content, every width of the stated range (the width is symbolic); the
    // position (i, j) that is compared is symbolic as well, so one assertion covers every bit of the output.  Loops have constant bounds
    // <= 8 and are fully unwound under #[kani::unwind(9)] (unwinding assertions on): the widths of a round-trip range, the 1..=7 tail
    // values, the byte loop of pack_value/unpack_value.  (Ranges are narrow because Kani's reachability traces, not SAT, dominate the time.)
    // These are the contracts the VX unit theta_codec assumes for pack_bits_block / unpack_bits_block / BitPacker / BitUnpacker.

    fn vk_mask(w: u8) -> u64 { if w >= 64 { u64::MAX } else { (1u64 << w) - 1 } }
    fn vk_stream_bit(buf: &[u8], k: usize) -> u8 { (buf[k >> 3] >> (7 - (k & 7))) & 1 }

    // pack_bits_block(v, bytes[..w], w): every bit of bytes[0..w] is (over)written with the reference stream of v & mask (high bits of v ignored)
    fn vk_pack_block_stream_one(w: u8) {
        let v: [u64; 8] = kani::any();
        let mut buf: [u8; 63] = kani::any();            // arbitrary previous content
        pack_bits_block(&v, &mut buf[..w as usize], w);
        let i: usize = kani::any(); kani::assume(i < 8);
        let j: u8 = kani::any(); kani::assume(j < w);
        let k = i * (w as usize) + j as usize;
        assert!(vk_stream_bit(&buf, k) == ((v[i] >> (w - 1 - j)) & 1) as u8);
    }
    // the width is symbolic, but each path runs the check with a constant width (one pack_bits_<w> per path; keeps Kani's traces short)
    fn vk_pack_block_stream(lo: u8, hi: u8) {
        let w: u8 = kani::any(); kani::assume(lo <= w && w <= hi);
        let mut c = lo;
        while c <= hi { if w == c { vk_pack_block_stream_one(c); } c += 1; }
    }

    // unpack_bits_block(out, bytes[..w], w) on ARBITRARY bytes: out[i] < 2^w and bit (w-1-j) of out[i] is stream bit i*w + j
    fn vk_unpack_block_stream_one(w: u8) {
        let buf: [u8; 63] = kani::any();
        let mut out: [u64; 8] = kani::any();            // arbitrary previous content
        unpack_bits_block(&mut out, &buf[..w as usize], w);
        let i: usize = kani::any(); kani::assume(i < 8);
        let j: u8 = kani::any(); kani::assume(j < w);
        let k = i * (w as usize) + j as usize;
        assert!(((out[i] >> (w - 1 - j)) & 1) as u8 == vk_stream_bit(&buf, k));
        assert!(out[i] & !vk_mask(w) == 0);
    }
    fn vk_unpack_block_stream(lo: u8, hi: u8) {
        let w: u8 = kani::any(); kani::assume(lo <= w && w <= hi);
        let mut c = lo;
        while c <= hi { if w == c { vk_unpack_block_stream_one(c); } c += 1; }
    }

    // unpack_bits_block(pack_bits_block(v, w), w) == v for every v with v[i] < 2^w.  The width is symbolic, but each path runs
    // vk_block_roundtrip_one with a constant width (one pack_bits_<w>/unpack_bits_<w> pair per path).
    fn vk_block_roundtrip_one(w: u8) {
        let mut v: [u64; 8] = kani::any();
        let m = vk_mask(w);
        v[0] &= m; v[1] &= m; v[2] &= m; v[3] &= m; v[4] &= m; v[5] &= m; v[6] &= m; v[7] &= m;
        let mut buf = [0u8; 63];
        pack_bits_block(&v, &mut buf[..w as usize], w);
        let mut out: [u64; 8] = kani::any();
        unpack_bits_block(&mut out, &buf[..w as usize], w);
        assert!(out[0] == v[0] && out[1] == v[1] && out[2] == v[2] && out[3] == v[3] && out[4] == v[4] && out[5] == v[5] && out[6] == v[6] && out[7] == v[7]);
    }
    fn vk_block_roundtrip(lo: u8, hi: u8) {
        let w: u8 = kani::any(); kani::assume(lo <= w && w <= hi);
        let mut c = lo;
        while c <= hi { if w == c { vk_block_roundtrip_one(c); } c += 1; }
    }

    // the tail: n in 1..=7 values through a fresh BitPacker into a buffer of ANY previous content and any sufficient length (serialize_v4: w zero bytes):
    // byte_index/byte_bit_used are the bit position n*w, byte_used() == ceil(n*w/8); the first n*w stream bits are the reference stream;
    // the padding bits of the last byte are 0; bytes after byte_used() are untouched
    fn vk_tail_pack_stream(lo: u8, hi: u8) {
        let w: u8 = kani::any(); kani::assume(lo <= w && w <= hi);
        let n: usize = kani::any(); kani::assume(1 <= n && n <= 7);
        let v: [u64; 7] = kani::any();
        let init: [u8; 64] = kani::any();
        let mut buf = init;
        let nbits = n * (w as usize);
        let len: usize = kani::any(); kani::assume(len <= 64 && nbits <= 8 * len);
        let used; let bi; let bu;
        {
            let mut packer = BitPacker::new(&mut buf[..len]);
            let mut t = 0usize;
            while t < 7 { if t < n { packer.pack_value(v[t], w); } t += 1; }
            used = packer.byte_used(); bi = packer.byte_index; bu = packer.byte_bit_used;
        }
        assert!(used == (nbits + 7) / 8);
        assert!(bi == nbits / 8 && bu as usize == nbits % 8);
        let i: usize = kani::any(); kani::assume(i < n);
        let j: u8 = kani::any(); kani::assume(j < w);
        let k = i * (w as usize) + j as usize;
        assert!(vk_stream_bit(&buf, k) == ((v[i] >> (w - 1 - j)) & 1) as u8);
        let p: usize = kani::any(); kani::assume(nbits <= p && p < 8 * 64);
        if p < 8 * used { assert!(vk_stream_bit(&buf, p) == 0); } else { assert!(vk_stream_bit(&buf, p) == vk_stream_bit(&init, p)); }
    }

    // one pack_value from an ARBITRARY packer state whose current byte has zero padding (the state every pack_value leaves behind):
    // earlier bits kept, the next w bits are the value MSB first, the rest of the last touched byte is 0, later bytes untouched
    fn vk_pack_value_step(lo: u8, hi: u8) {
        let w: u8 = kani::any(); kani::assume(lo <= w && w <= hi);
        let value: u64 = kani::any();
        let init: [u8; 24] = kani::any();
        let mut buf = init;
        let bi: usize = kani::any(); let bu: u8 = kani::any(); kani::assume(bi <= 15 && bu < 8);
        let p0 = 8 * bi + bu as usize;
        if bu > 0 { kani::assume(init[bi] & (0xffu8 >> bu) == 0); }
        let (bi2, bu2);
        {
            let mut packer = BitPacker { bytes: &mut buf[..], byte_index: bi, byte_bit_used: bu };
            packer.pack_value(value, w);
            bi2 = packer.byte_index; bu2 = packer.byte_bit_used;
        }
        let p1 = p0 + w as usize;
        assert!(bu2 < 8 && 8 * bi2 + bu2 as usize == p1);
        let k: usize = kani::any(); kani::assume(k < 8 * 24);
        let end = (p1 + 7) / 8 * 8;
        if k < p0 { assert!(vk_stream_bit(&buf, k) == vk_stream_bit(&init, k)); }
        else if k < p1 { assert!(vk_stream_bit(&buf, k) == ((value >> (w as usize - 1 - (k - p0))) & 1) as u8); }
        else if k < end { assert!(vk_stream_bit(&buf, k) == 0); }
        else { assert!(vk_stream_bit(&buf, k) == vk_stream_bit(&init, k)); }
    }

    // one unpack_value from an ARBITRARY unpacker state on arbitrary bytes: the value spelled by the next w stream bits, position advanced by w
    fn vk_unpack_value_step(lo: u8, hi: u8) {
        let w: u8 = kani::any(); kani::assume(lo <= w && w <= hi);
        let buf: [u8; 24] = kani::any();
        let bi: usize = kani::any(); let bu: u8 = kani::any(); kani::assume(bi <= 15 && bu < 8);
        let p0 = 8 * bi + bu as usize;
        let mut unpacker = BitUnpacker { bytes: &buf[..], byte_index: bi, byte_bit_used: bu };
        let x = unpacker.unpack_value(w);
        assert!(unpacker.byte_bit_used < 8 && 8 * unpacker.byte_index + unpacker.byte_bit_used as usize == p0 + w as usize);
        let j: u8 = kani::any(); kani::assume(j < w);
        assert!(((x >> (w - 1 - j)) & 1) as u8 == vk_stream_bit(&buf, p0 + j as usize));
        assert!(x & !vk_mask(w) == 0);
    }

    // BitUnpacker on ARBITRARY bytes (ceil(n*w/8) of them, as deserialize_v4 reads): value i < 2^w, its bit (w-1-j) is stream bit i*w + j
    fn vk_tail_unpack_stream(lo: u8, hi: u8) {
        let w: u8 = kani::any(); kani::assume(lo <= w && w <= hi);
        let n: usize = kani::any(); kani::assume(1 <= n && n <= 7);
        let buf: [u8; 64] = kani::any();
        let nbytes = (n * (w as usize) + 7) / 8;
        let mut out = [0u64; 7];
        {
            let mut unpacker = BitUnpacker::new(&buf[..nbytes]);
            let mut t = 0usize;
            while t < 7 { if t < n { out[t] = unpacker.unpack_value(w); } t += 1; }
        }
        let i: usize = kani::any(); kani::assume(i < n);
        let j: u8 = kani::any(); kani::assume(j < w);
        let k = i * (w as usize) + j as usize;
        assert!(((out[i] >> (w - 1 - j)) & 1) as u8 == vk_stream_bit(&buf, k));
        assert!(out[i] & !vk_mask(w) == 0);
    }

    // tail round trip: the bytes BitPacker produced (only byte_used() of them), read back by BitUnpacker, give the n values
    fn vk_tail_roundtrip(lo: u8, hi: u8) {
        let w: u8 = kani::any(); kani::assume(lo <= w && w <= hi);
        let n: usize = kani::any(); kani::assume(1 <= n && n <= 7);
        let mut v: [u64; 7] = kani::any();
        let m = vk_mask(w);
        v[0] &= m; v[1] &= m; v[2] &= m; v[3] &= m; v[4] &= m; v[5] &= m; v[6] &= m;
        let mut buf = [0u8; 64];
        let used;
        {
            let mut packer = BitPacker::new(&mut buf[..w as usize]);
            let mut t = 0usize;
            while t < 7 { if t < n { packer.pack_value(v[t], w); } t += 1; }
            used = packer.byte_used();
        }
        let mut unpacker = BitUnpacker::new(&buf[..used]);
        let i: usize = kani::any(); kani::assume(i < n);
        let mut t = 0usize;
        let mut got = 0u64;
        while t < 7 { if t < n { let x = unpacker.unpack_value(w); if t == i { got = x; } } t += 1; }
        assert!(got == v[i]);
    }

    macro_rules! vk_ranges {
        ($f:ident, $u:literal: $($name:ident = $lo:literal ..= $hi:literal),* $(,)?) => {
            $( #[kani::proof] #[kani::unwind($u)] fn $name() { $f($lo, $hi) } )*
        };
    }
    vk_ranges!(vk_pack_block_stream, 9:
        bp_pack_stream_w01_08 = 1..=8, bp_pack_stream_w09_16 = 9..=16, bp_pack_stream_w17_24 = 17..=24, bp_pack_stream_w25_32 = 25..=32,
        bp_pack_stream_w33_40 = 33..=40, bp_pack_stream_w41_48 = 41..=48, bp_pack_stream_w49_56 = 49..=56, bp_pack_stream_w57_63 = 57..=63);
    vk_ranges!(vk_unpack_block_stream, 9:
        bp_unpack_stream_w01_08 = 1..=8, bp_unpack_stream_w09_16 = 9..=16, bp_unpack_stream_w17_24 = 17..=24, bp_unpack_stream_w25_32 = 25..=32,
        bp_unpack_stream_w33_40 = 33..=40, bp_unpack_stream_w41_48 = 41..=48, bp_unpack_stream_w49_56 = 49..=56, bp_unpack_stream_w57_63 = 57..=63);
    vk_ranges!(vk_block_roundtrip, 9:
        bp_block_rt_w01_08 = 1..=8, bp_block_rt_w09_14 = 9..=14, bp_block_rt_w15_19 = 15..=19, bp_block_rt_w20_24 = 20..=24,
        bp_block_rt_w25_28 = 25..=28, bp_block_rt_w29_32 = 29..=32, bp_block_rt_w33_36 = 33..=36, bp_block_rt_w37_40 = 37..=40,
        bp_block_rt_w41_44 = 41..=44, bp_block_rt_w45_48 = 45..=48, bp_block_rt_w49_52 = 49..=52, bp_block_rt_w53_56 = 53..=56,
        bp_block_rt_w57_60 = 57..=60, bp_block_rt_w61_63 = 61..=63);
    vk_ranges!(vk_tail_pack_stream, 9:
        bp_tail_pack_stream_w01_32 = 1..=32, bp_tail_pack_stream_w33_63 = 33..=63);
    vk_ranges!(vk_pack_value_step, 9:
        bp_pack_value_step_w01_32 = 1..=32, bp_pack_value_step_w33_64 = 33..=64);
    vk_ranges!(vk_unpack_value_step, 9:
        bp_unpack_value_step_w01_32 = 1..=32, bp_unpack_value_step_w33_64 = 33..=64);
    vk_ranges!(vk_tail_unpack_stream, 9:
        bp_tail_unpack_stream_w01_32 = 1..=32, bp_tail_unpack_stream_w33_63 = 33..=63);
    vk_ranges!(vk_tail_roundtrip, 9:
        bp_tail_rt_w01_32 = 1..=32, bp_tail_rt_w33_63 = 33..=63);
