    // theta/bit_pack.rs against the REFERENCE BIT STREAM of the compressed theta form (serVer 4, DESIGN.md Appendix A):
    // values of `w` bits each, written one after the other, most significant bit first; stream bit k lives in byte k/8 at bit 7 - k%8.
    //     stream bit (i*w + j) == bit (w-1-j) of value i            (0 <= j < w)
    // COMPLETE proofs: every value array, every initial buffer content, every width of the stated range; the position (i, j) that is
    // compared is symbolic as well, so one assertion covers every bit of the output.  No loop except the 1..=7 tail values (unwind 9).
    // These are the contracts the VX unit theta_codec assumes for pack_bits_block / unpack_bits_block / BitPacker / BitUnpacker.

    fn vk_mask(w: u8) -> u64 { if w >= 64 { u64::MAX } else { (1u64 << w) - 1 } }
    fn vk_stream_bit(buf: &[u8], k: usize) -> u8 { (buf[k >> 3] >> (7 - (k & 7))) & 1 }

    // pack_bits_block(v, bytes[..w], w): every bit of bytes[0..w] is (over)written with the reference stream of v & mask (high bits of v ignored)
    fn vk_pack_block_stream(lo: u8, hi: u8) {
        let w: u8 = kani::any(); kani::assume(lo <= w && w <= hi);
        let v: [u64; 8] = kani::any();
        let mut buf: [u8; 63] = kani::any();            // arbitrary previous content
        pack_bits_block(&v, &mut buf[..w as usize], w);
        let i: usize = kani::any(); kani::assume(i < 8);
        let j: u8 = kani::any(); kani::assume(j < w);
        let k = i * (w as usize) + j as usize;
        assert!(vk_stream_bit(&buf, k) == ((v[i] >> (w - 1 - j)) & 1) as u8);
    }

    // unpack_bits_block(out, bytes[..w], w) on ARBITRARY bytes: out[i] < 2^w and bit (w-1-j) of out[i] is stream bit i*w + j
    fn vk_unpack_block_stream(lo: u8, hi: u8) {
        let w: u8 = kani::any(); kani::assume(lo <= w && w <= hi);
        let buf: [u8; 63] = kani::any();
        let mut out: [u64; 8] = kani::any();            // arbitrary previous content
        unpack_bits_block(&mut out, &buf[..w as usize], w);
        let i: usize = kani::any(); kani::assume(i < 8);
        let j: u8 = kani::any(); kani::assume(j < w);
        let k = i * (w as usize) + j as usize;
        assert!(((out[i] >> (w - 1 - j)) & 1) as u8 == vk_stream_bit(&buf, k));
        assert!(out[i] & !vk_mask(w) == 0);
    }

    // unpack_bits_block(pack_bits_block(v, w), w) == v for every v with v[i] < 2^w
    fn vk_block_roundtrip(lo: u8, hi: u8) {
        let w: u8 = kani::any(); kani::assume(lo <= w && w <= hi);
        let mut v: [u64; 8] = kani::any();
        let m = vk_mask(w);
        v[0] &= m; v[1] &= m; v[2] &= m; v[3] &= m; v[4] &= m; v[5] &= m; v[6] &= m; v[7] &= m;
        let mut buf = [0u8; 63];
        pack_bits_block(&v, &mut buf[..w as usize], w);
        let mut out: [u64; 8] = kani::any();
        unpack_bits_block(&mut out, &buf[..w as usize], w);
        assert!(out == v);
    }

    // the tail: n in 1..=7 values through BitPacker into a zeroed block of w bytes (as serialize_v4 does):
    // byte_used() == ceil(n*w/8); the first n*w stream bits are the reference stream; the padding bits of the last byte are 0
    fn vk_tail_pack_stream(lo: u8, hi: u8) {
        let w: u8 = kani::any(); kani::assume(lo <= w && w <= hi);
        let n: usize = kani::any(); kani::assume(1 <= n && n <= 7);
        let v: [u64; 7] = kani::any();
        let mut buf = [0u8; 64];
        let used;
        {
            let mut packer = BitPacker::new(&mut buf[..w as usize]);
            let mut t = 0usize;
            while t < 7 { if t < n { packer.pack_value(v[t], w); } t += 1; }
            used = packer.byte_used();
        }
        let nbits = n * (w as usize);
        assert!(used == (nbits + 7) / 8);
        let i: usize = kani::any(); kani::assume(i < n);
        let j: u8 = kani::any(); kani::assume(j < w);
        let k = i * (w as usize) + j as usize;
        assert!(vk_stream_bit(&buf, k) == ((v[i] >> (w - 1 - j)) & 1) as u8);
        let p: usize = kani::any(); kani::assume(nbits <= p && p < 8 * used);
        assert!(vk_stream_bit(&buf, p) == 0);
    }

    // BitUnpacker on ARBITRARY bytes (ceil(n*w/8) of them, as deserialize_v4 reads): value i < 2^w, its bit (w-1-j) is stream bit i*w + j
    fn vk_tail_unpack_stream(lo: u8, hi: u8) {
        let w: u8 = kani::any(); kani::assume(lo <= w && w <= hi);
        let n: usize = kani::any(); kani::assume(1 <= n && n <= 7);
        let buf: [u8; 64] = kani::any();
        let nbytes = (n * (w as usize) + 7) / 8;
        let mut out = [0u64; 7];
        {
            let mut unpacker = BitUnpacker::new(&buf[..nbytes]);
            let mut t = 0usize;
            while t < 7 { if t < n { out[t] = unpacker.unpack_value(w); } t += 1; }
        }
        let i: usize = kani::any(); kani::assume(i < n);
        let j: u8 = kani::any(); kani::assume(j < w);
        let k = i * (w as usize) + j as usize;
        assert!(((out[i] >> (w - 1 - j)) & 1) as u8 == vk_stream_bit(&buf, k));
        assert!(out[i] & !vk_mask(w) == 0);
    }

    // tail round trip: the bytes BitPacker produced (only byte_used() of them), read back by BitUnpacker, give the n values
    fn vk_tail_roundtrip(lo: u8, hi: u8) {
        let w: u8 = kani::any(); kani::assume(lo <= w && w <= hi);
        let n: usize = kani::any(); kani::assume(1 <= n && n <= 7);
        let mut v: [u64; 7] = kani::any();
        let m = vk_mask(w);
        v[0] &= m; v[1] &= m; v[2] &= m; v[3] &= m; v[4] &= m; v[5] &= m; v[6] &= m;
        let mut buf = [0u8; 64];
        let used;
        {
            let mut packer = BitPacker::new(&mut buf[..w as usize]);
            let mut t = 0usize;
            while t < 7 { if t < n { packer.pack_value(v[t], w); } t += 1; }
            used = packer.byte_used();
        }
        let mut unpacker = BitUnpacker::new(&buf[..used]);
        let i: usize = kani::any(); kani::assume(i < n);
        let mut t = 0usize;
        let mut got = 0u64;
        while t < 7 { if t < n { let x = unpacker.unpack_value(w); if t == i { got = x; } } t += 1; }
        assert!(got == v[i]);
    }

    macro_rules! vk_ranges {
        ($f:ident, $u:literal: $($name:ident = $lo:literal ..= $hi:literal),* $(,)?) => {
            $( #[kani::proof] #[kani::unwind($u)] fn $name() { $f($lo, $hi) } )*
        };
    }
    vk_ranges!(vk_pack_block_stream, 9:
        bp_pack_stream_w01_16 = 1..=16, bp_pack_stream_w17_32 = 17..=32, bp_pack_stream_w33_48 = 33..=48, bp_pack_stream_w49_63 = 49..=63);
    vk_ranges!(vk_unpack_block_stream, 9:
        bp_unpack_stream_w01_16 = 1..=16, bp_unpack_stream_w17_32 = 17..=32, bp_unpack_stream_w33_48 = 33..=48, bp_unpack_stream_w49_63 = 49..=63);
    vk_ranges!(vk_block_roundtrip, 9:
        bp_block_rt_w01_08 = 1..=8, bp_block_rt_w09_16 = 9..=16, bp_block_rt_w17_22 = 17..=22, bp_block_rt_w23_28 = 23..=28,
        bp_block_rt_w29_33 = 29..=33, bp_block_rt_w34_38 = 34..=38, bp_block_rt_w39_43 = 39..=43, bp_block_rt_w44_47 = 44..=47,
        bp_block_rt_w48_51 = 48..=51, bp_block_rt_w52_55 = 52..=55, bp_block_rt_w56_59 = 56..=59, bp_block_rt_w60_63 = 60..=63);
    vk_ranges!(vk_tail_pack_stream, 9:
        bp_tail_pack_stream_w01_32 = 1..=32, bp_tail_pack_stream_w33_63 = 33..=63);
    vk_ranges!(vk_tail_unpack_stream, 9:
        bp_tail_unpack_stream_w01_32 = 1..=32, bp_tail_unpack_stream_w33_63 = 33..=63);
    vk_ranges!(vk_tail_roundtrip, 9:
        bp_tail_rt_w01_32 = 1..=32, bp_tail_rt_w33_63 = 33..=63);
