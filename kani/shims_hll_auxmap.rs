    // hll_codec4 vx_aux_collect:  `aux.iter().collect()` == the (slot, value) pairs of the map, each exactly once (pairs_list(r, aux.view())).
    // The REAL AuxMap::iter is run on a symbolic table (lg_size = 2: 4 entries, every entry word symbolic, lg_config_k symbolic 4..=21) and shown
    // to yield, in TABLE ORDER, exactly (get_slot(e) & (2^lg_config_k - 1), get_value(e)) for every non-empty entry e: the same sequence as the
    // consuming iterator AuxMapIter (verified against the map view in unit hll_auxmap, C02.aux_into_iter / C02.aux_iter_next).
    // pairs_list then follows from the table invariant awf (distinct slots) exactly as for into_iter.
    #[kani::proof]
    #[kani::unwind(7)]
    fn shim_aux_iter_table_order() {
        let a: [u32; 4] = kani::any(); let lg_config_k: u8 = kani::any(); kani::assume(lg_config_k >= 4 && lg_config_k <= 21);
        let aux = AuxMap { lg_size: 2, lg_config_k, entries: a.to_vec().into_boxed_slice(), count: kani::any() };
        let mask: u32 = (1u32 << lg_config_k) - 1;
        let mut it = aux.iter();
        let mut k = 0; let mut i = 0;
        while i < 4 { if a[i] != ENTRY_EMPTY { assert!(it.next() == Some((get_slot(a[i]) & mask, get_value(a[i])))); k += 1; } i += 1; }
        assert!(it.next().is_none());
        // the collected vector of the shim: same length, same elements
        let r: Vec<(u32, u8)> = aux.iter().collect();
        assert!(r.len() == k);
        // and it is the sequence of the verified consuming iterator
        let mut it2 = aux.clone().into_iter();
        let mut j = 0;
        while j < k { assert!(it2.next() == Some(r[j])); j += 1; }
        assert!(it2.next().is_none());
    }
    // pairs_list directly, under the no-duplicate-slot part of awf: slots of r pairwise distinct, and every listed pair is what `get` returns
    #[kani::proof]
    #[kani::unwind(7)]
    fn shim_aux_iter_pairs_list() {
        let a: [u32; 4] = kani::any(); let lg_config_k: u8 = kani::any(); kani::assume(lg_config_k >= 4 && lg_config_k <= 21);
        let mask: u32 = (1u32 << lg_config_k) - 1;
        // awf (no two non-empty entries carry the same slot)
        let mut i = 0;
        while i < 4 { let mut j = i + 1; while j < 4 { kani::assume(a[i] == 0 || a[j] == 0 || (get_slot(a[i]) & mask) != (get_slot(a[j]) & mask)); j += 1; } i += 1; }
        let aux = AuxMap { lg_size: 2, lg_config_k, entries: a.to_vec().into_boxed_slice(), count: kani::any() };
        let r: Vec<(u32, u8)> = aux.iter().collect();
        let p: usize = kani::any(); let q: usize = kani::any(); kani::assume(p < r.len() && q < r.len() && p != q);
        assert!(r[p].0 != r[q].0);                                   // clause 2: each slot once
        // clause 3: every non-empty table entry is listed (with its value: clause 1)
        let t: usize = kani::any(); kani::assume(t < 4 && a[t] != 0);
        let mut found = false; let mut i = 0;
        while i < r.len() { if r[i] == (get_slot(a[t]) & mask, get_value(a[t])) { found = true; } i += 1; }
        assert!(found);
    }
