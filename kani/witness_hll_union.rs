    // WITNESS harnesses (bounded, DESIGN.md 2.4) for C03 on the REAL HllUnion at lg_k = 4 (16 registers), through the stable entry points
    //   HllUnion::new / update, HllSketch::from_mode / mode, Array4/6/8::new / update / register accessors, Array8::serialize
    // (no merge helper is named: merge_array46_same_lgk, copy_or_downsample, ... may be restructured freely).
    //
    // Scenario (the one the test-suite never reaches): the gadget has GROWN from coupons (List -> Array8 at the 8th distinct coupon because
    // lg_k < 8), so it is an IN-ORDER Array8 whose HIP accumulator is live; then an ARRAY-mode sketch of the same lg_k is merged.
    // Both operands are the promotion of 8 concrete coupons followed by two coupons with a symbolic 6-bit value at fixed slots
    // (gadget: slots 1 and 14, source: slots 2 and 10).  Sources: Hll6 (Array6) and Hll8 (Array8); an Hll4 source is not tractable (below).
    //   C03.max   every result register == max(gadget register before, source register)
    //   C03.ooo   the merged result is flagged out-of-order (observed in the serialized image, flags byte bit 4, and the image's lg_k/mode)
    // ABSTRACTION (measured: without it CBMC needs > 15 min / runs out of memory even for concrete operands, because every arm of every
    // `match` on `Mode` inside HllUnion::update is explored and each explored copy of the kxq recomputation carries 16 f64 divisions with
    // NaN / overflow checks): the two pure f64 book-keeping routines are stubbed out -
    //   HipEstimator::update            (hip_accum, kxq0, kxq1 only; never the out-of-order flag)
    //   Array8::rebuild_cached_values   (num_zeros, kxq0, kxq1 only; never the registers or the flag)
    // so the harnesses speak about REGISTERS and the OUT-OF-ORDER FLAG only (the float side is covered by the VX units hll_array8 /
    // hll_union and the complete Kani harnesses c01_hll_hip_update_contract, shim_rebuild_cached_values_lgk4).
    pub fn hip_update_stub(_e: &mut crate::hll::estimator::HipEstimator, _lg_config_k: u8, _old_value: u8, _new_value: u8) {}
    pub fn rebuild_cached_values_stub(_a: &mut Array8) {}

    pub const GADGET_COUPONS: [u32; 8] = [
        (3 << 26) | 0, (1 << 26) | 1, (7 << 26) | 2, (2 << 26) | 5, (12 << 26) | 7, (1 << 26) | 9, (33 << 26) | 12, (5 << 26) | 15,
    ];
    pub const SOURCE_COUPONS: [u32; 8] = [
        (1 << 26) | 0, (4 << 26) | 1, (7 << 26) | 2, (2 << 26) | 3, (9 << 26) | 6, (20 << 26) | 9, (2 << 26) | 12, (40 << 26) | 14,
    ];
    // NOTE (measured): building the sketches through HllSketch::update_with_coupon is not tractable - CBMC does not constant-fold the
    // `Mode` discriminant, so even for concrete coupons it unwinds the Array4 promotion (AuxMap::grow, shift_to_bigger_cur_min) at every
    // call.  The two operands are therefore built exactly as promote_container_to_array builds them (Array::new + update per coupon:
    // an IN-ORDER array) and wrapped with HllSketch::from_mode; the merge itself runs through HllUnion::update.
    pub fn grown_gadget(c1: u32, c2: u32) -> HllUnion {
        let mut g = Array8::new(4);
        let mut i = 0;
        while i < 8 { g.update(GADGET_COUPONS[i]); i += 1; }
        g.update(c1); g.update(c2);
        HllUnion { lg_max_k: 4, gadget: HllSketch::from_mode(4, Mode::Array8(g)) }
    }
    // (one builder per type, no `match` on the type: CBMC explores every arm of a match on an enum and merges the results, which makes
    // the whole source sketch non-constant)
    pub fn source4(c1: u32, c2: u32) -> HllSketch { let mut a = Array4::new(4); let mut i = 0; while i < 8 { a.update(SOURCE_COUPONS[i]); i += 1; } a.update(c1); a.update(c2); HllSketch::from_mode(4, Mode::Array4(a)) }
    pub fn source6(c1: u32, c2: u32) -> HllSketch { let mut a = Array6::new(4); let mut i = 0; while i < 8 { a.update(SOURCE_COUPONS[i]); i += 1; } a.update(c1); a.update(c2); HllSketch::from_mode(4, Mode::Array6(a)) }
    pub fn source8(c1: u32, c2: u32) -> HllSketch { let mut a = Array8::new(4); let mut i = 0; while i < 8 { a.update(SOURCE_COUPONS[i]); i += 1; } a.update(c1); a.update(c2); HllSketch::from_mode(4, Mode::Array8(a)) }
    pub fn reg(s: &HllSketch, slot: u32) -> u8 {
        match s.mode() {
            Mode::Array4(a) => a.get(slot),
            Mode::Array6(a) => a.get(slot),
            Mode::Array8(a) => a.values()[slot as usize],
            _ => { assert!(false, "array mode expected"); 0 }
        }
    }
    /// flags byte of the Hll8 image of the gadget (byte 5; bit 4 = out-of-order)
    pub fn gadget_flags(u: &HllUnion) -> u8 {
        match u.gadget.mode() {
            Mode::Array8(a) => { let img = a.serialize(4); assert!(img.len() == 40 + 16 && img[3] == 4); img[5] }
            _ => { assert!(false, "the gadget is an Array8"); 0 }
        }
    }
    pub fn body_merge_into_grown(mut u: HllUnion, s: HllSketch, q: u32) {
        // a gadget grown from coupons is in order
        assert!(gadget_flags(&u) & OUT_OF_ORDER_FLAG == 0);
        let before = reg(&u.gadget, q);
        let src = reg(&s, q);
        u.update(&s);
        assert!(u.lg_config_k() == 4);
        let after = reg(&u.gadget, q);
        assert!(after == if before > src { before } else { src }, "C03.max register-wise maximum");
        assert!(gadget_flags(&u) & OUT_OF_ORDER_FLAG != 0, "C03.ooo a merged result is flagged out-of-order");
    }
    pub const OUT_OF_ORDER_FLAG: u8 = 16;
    // (measured: with symbolic SLOTS all 16 registers become symbolic and every explored copy of Array8::rebuild_cached_values carries
    // 16 symbolic f64 divisions: CBMC runs out of memory.  The slot is therefore fixed and the 6-bit VALUE is symbolic.)
    pub fn sym_coupon(slot: u32) -> u32 { let v: u8 = kani::any(); kani::assume(v <= 63); ((v as u32) << 26) | slot }

    #[kani::proof]
    #[kani::unwind(18)]
    #[kani::stub(crate::hll::estimator::HipEstimator::update, hip_update_stub)]
    #[kani::stub(crate::hll::array8::Array8::rebuild_cached_values, rebuild_cached_values_stub)]
    fn w1_union_hll6_into_grown_gadget() {
        let q: u32 = kani::any(); kani::assume(q < 16);
        body_merge_into_grown(grown_gadget(sym_coupon(1), sym_coupon(14)), source6(sym_coupon(2), sym_coupon(10)), q);
    }
    // [not tractable: an Hll4 (Array4) source - even a concrete one - makes CBMC unwind AuxMap::grow / shift_to_bigger_cur_min in the arms
    //  of HllUnion::update that reinterpret the source as a List/Set (every arm of a match on Mode is explored): no verdict in 10 min.
    //  body_merge_into_grown(grown_gadget(sym_coupon(2), sym_coupon(14)), source4(0, 0), q) is the body to use once that is affordable.]
    #[kani::proof]
    #[kani::unwind(18)]
    #[kani::stub(crate::hll::estimator::HipEstimator::update, hip_update_stub)]
    #[kani::stub(crate::hll::array8::Array8::rebuild_cached_values, rebuild_cached_values_stub)]
    fn w1_union_hll8_into_grown_gadget() {
        let q: u32 = kani::any(); kani::assume(q < 16);
        body_merge_into_grown(grown_gadget(sym_coupon(1), sym_coupon(14)), source8(sym_coupon(2), sym_coupon(10)), q);
    }

    // the first array input is copied into an EMPTY union: registers equal the source's, result flagged out-of-order
    pub fn body_copy_into_empty(s: HllSketch, q: u32) {
        let mut u = HllUnion::new(4);
        let src = reg(&s, q);
        u.update(&s);
        assert!(reg(&u.gadget, q) == src, "C03.max union with the empty set");
        assert!(gadget_flags(&u) & OUT_OF_ORDER_FLAG != 0, "C03.ooo a merged result is flagged out-of-order");
    }
    #[kani::proof]
    #[kani::unwind(18)]
    #[kani::stub(crate::hll::estimator::HipEstimator::update, hip_update_stub)]
    #[kani::stub(crate::hll::array8::Array8::rebuild_cached_values, rebuild_cached_values_stub)]
    fn w1_union_hll6_into_empty() {
        let q: u32 = kani::any(); kani::assume(q < 16);
        body_copy_into_empty(source6(sym_coupon(2), sym_coupon(10)), q);
    }
