    // WITNESS harnesses (bounded, DESIGN.md 2.4) for C14 / C02 on the REAL HLL coupon list, through the stable entry points
    //   List::default / update / container, Container::len / is_full / iter, HllSketch::new / update_with_coupon / mode
    //
    // (1) List model check: 9 fully symbolic non-empty coupons offered to a default list (8 slots).
    //   C14.list.len    after every update: len == min(number of distinct coupons offered, 8)   (a repeat is never counted)
    //   C14.list.once   the list holds every retained coupon exactly once: the number of non-empty slots == len and every one of the
    //                   first 8 offered coupons is in the list
    //   C14.list.full   an update of a FULL list (the 9th offer: count == table size) does not fail and changes nothing
    //                   (HllSketch::update_with_coupon then sees is_full() and promotes)
    fn offered_before(c: &[u32], i: usize) -> bool {
        let mut j = 0; let mut r = false;
        while j < i { if c[j] == c[i] { r = true; } j += 1; }
        r
    }
    // (internal iteration: `fold` is one loop over the slots; `next()` in a loop costs CBMC a quadratic number of unwindings)
    fn holds(l: &List, x: u32) -> usize { l.container().iter().fold(0usize, |n, e| if e == x { n + 1 } else { n }) }
    pub fn body_list(c: [u32; 9]) {
        let mut l = List::default();
        assert!(l.container().capacity() == 8 && l.container().is_empty());
        let mut distinct = 0usize;
        let mut i = 0;
        while i < 9 {
            let fresh = !offered_before(&c, i);
            let full_before = l.container().is_full();
            l.update(c[i]);
            if fresh && !full_before { distinct += 1; }
            assert!(l.container().len() == distinct, "C14.list.len len == number of distinct coupons offered (capped at the table size)");
            assert!(l.container().is_full() == (distinct == 8), "C14.list.full is_full exactly at 8 coupons");
            i += 1;
        }
        let total = l.container().iter().fold(0usize, |n, _e| n + 1);
        assert!(total == distinct, "C14.list.once number of stored coupons == len");
        let mut j = 0;
        while j < 8 { assert!(holds(&l, c[j]) == 1, "C14.list.once every offered coupon is stored exactly once"); j += 1; }
    }
    #[kani::proof]
    #[kani::unwind(11)]
    fn w1_hll_list_model_9_coupons() {
        let c: [u32; 9] = kani::any();
        let mut i = 0;
        while i < 9 { kani::assume(c[i] != 0); i += 1; }
        body_list(c);
    }

    // (2) promotion at the right count (lg_k = 4 < 8: List -> Array directly): 7 concrete distinct coupons, then one fully symbolic coupon.
    //   C14.promote   the sketch is still a List with 7 (repeat) coupons, or has been promoted to the array of its target type exactly
    //                 when the 8th distinct coupon arrived; after promotion every register is the maximum value offered for its slot
    pub const SEVEN: [u32; 7] = [(3 << 26) | 0, (1 << 26) | 1, (7 << 26) | 2, (2 << 26) | 5, (12 << 26) | 7, (33 << 26) | 12, (5 << 26) | 0x3ff_fff5];
    pub fn body_promote(t: HllType, c: u32, q: u32) {
        let mut s = HllSketch::new(4, t);
        let mut i = 0;
        while i < 7 { s.update_with_coupon(SEVEN[i]); i += 1; }
        let mut known = false; let mut j = 0;
        while j < 7 { if SEVEN[j] == c { known = true; } j += 1; }
        s.update_with_coupon(c);
        // model register q: max value over the coupons whose slot (low 26 bits, reduced mod 16) is q
        let mut m = 0u8; let mut j = 0;
        while j < 7 { if (SEVEN[j] & 15) == q { let v = (SEVEN[j] >> 26) as u8; if v > m { m = v; } } j += 1; }
        if (c & 15) == q { let v = (c >> 26) as u8; if v > m { m = v; } }
        match s.mode() {
            Mode::List { list, hll_type } => {
                assert!(known, "C14.promote the 8th distinct coupon promotes the list");
                assert!(list.container().len() == 7 && *hll_type == t);
            }
            Mode::Set { .. } => { assert!(false, "C14.promote lg_k < 8 never uses the Set mode"); }
            Mode::Array4(a) => { assert!(!known && t == HllType::Hll4, "C14.promote only at the 8th distinct coupon"); assert!(a.get(q) == m, "C02 register == max value offered"); }
            Mode::Array6(a) => { assert!(!known && t == HllType::Hll6, "C14.promote only at the 8th distinct coupon"); assert!(a.get(q) == m, "C02 register == max value offered"); }
            Mode::Array8(a) => { assert!(!known && t == HllType::Hll8, "C14.promote only at the 8th distinct coupon"); assert!(a.values()[q as usize] == m, "C02 register == max value offered"); }
        }
    }
    #[kani::proof]
    #[kani::unwind(18)]
    fn w1_hll_promote_at_8th_coupon_hll8() {
        let c: u32 = kani::any(); kani::assume(c != 0);
        let q: u32 = kani::any(); kani::assume(q < 16);
        body_promote(HllType::Hll8, c, q);
    }
    #[kani::proof]
    #[kani::unwind(18)]
    fn w1_hll_promote_at_8th_coupon_hll6() {
        let c: u32 = kani::any(); kani::assume(c != 0);
        let q: u32 = kani::any(); kani::assume(q < 16);
        body_promote(HllType::Hll6, c, q);
    }
    #[kani::proof]
    #[kani::unwind(18)]
    fn w1_hll_promote_at_8th_coupon_hll4() {
        let c: u32 = kani::any(); kani::assume(c != 0);
        let q: u32 = kani::any(); kani::assume(q < 16);
        body_promote(HllType::Hll4, c, q);
    }

    // (3) a FULL list as List::deserialize hands it out (compact image with coupon count == table size: 8 stored coupons, all symbolic,
    //     non-empty): the next update_with_coupon must not fail; the sketch leaves the List mode (promotion of a full list)
    pub fn body_full_list_image(words: [u32; 8], c: u32) {
        let mut img = [0u8; 32];
        let mut i = 0;
        while i < 8 { let b = words[i].to_le_bytes(); img[4 * i] = b[0]; img[4 * i + 1] = b[1]; img[4 * i + 2] = b[2]; img[4 * i + 3] = b[3]; i += 1; }
        let r = List::deserialize(SketchSlice::new(&img), 3, 8, false, true);
        if let Ok(list) = r {
            assert!(list.container().len() == 8 && list.container().is_full());
            let mut s = HllSketch::from_mode(4, Mode::List { list, hll_type: HllType::Hll8 });
            s.update_with_coupon(c);
            assert!(matches!(s.mode(), Mode::Array8(_)), "C14.list.full a full list is promoted at the next update");
        } else {
            assert!(false, "a compact LIST image with count == table size is accepted");
        }
    }
    #[kani::proof]
    #[kani::unwind(18)]
    fn w1_hll_full_list_image_update() {
        let words: [u32; 8] = kani::any();
        let mut i = 0;
        while i < 8 { kani::assume(words[i] != 0); i += 1; }
        let c: u32 = kani::any(); kani::assume(c != 0);
        body_full_list_image(words, c);
    }
