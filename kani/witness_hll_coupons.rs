    // WITNESS harnesses (bounded, DESIGN.md 2.4) for C14 / C02 on the REAL HLL coupon list, through the stable entry points
    //   List::default / update / deserialize / container, Container::len / is_full / capacity / iter
    //
    // (1) List model check: 9 fully symbolic non-empty coupons offered to a default list (8 slots).
    //   C14.list.len    after every update: len == min(number of distinct coupons offered, 8)   (a repeat is never counted)
    //   C14.list.once   the list holds every retained coupon exactly once: the number of non-empty slots == len and every one of the
    //                   first 8 offered coupons is in the list
    //   C14.list.full   an update of a FULL list (the 9th offer: count == table size) does not fail and changes nothing
    //                   (HllSketch::update_with_coupon then sees is_full() and promotes)
    fn offered_before(c: &[u32], i: usize) -> bool {
        let mut j = 0; let mut r = false;
        while j < i { if c[j] == c[i] { r = true; } j += 1; }
        r
    }
    // (internal iteration: `fold` is one loop over the slots; `next()` in a loop costs CBMC a quadratic number of unwindings)
    fn holds(l: &List, x: u32) -> usize { l.container().iter().fold(0usize, |n, e| if e == x { n + 1 } else { n }) }
    pub fn body_list(c: [u32; 9]) {
        let mut l = List::default();
        assert!(l.container().capacity() == 8 && l.container().is_empty());
        let mut distinct = 0usize;
        let mut i = 0;
        while i < 9 {
            let fresh = !offered_before(&c, i);
            let full_before = l.container().is_full();
            l.update(c[i]);
            if fresh && !full_before { distinct += 1; }
            assert!(l.container().len() == distinct, "C14.list.len len == number of distinct coupons offered (capped at the table size)");
            assert!(l.container().is_full() == (distinct == 8), "C14.list.full is_full exactly at 8 coupons");
            i += 1;
        }
        let total = l.container().iter().fold(0usize, |n, _e| n + 1);
        assert!(total == distinct, "C14.list.once number of stored coupons == len");
        let mut j = 0;
        while j < 8 { assert!(holds(&l, c[j]) == 1, "C14.list.once every offered coupon is stored exactly once"); j += 1; }
    }
    #[kani::proof]
    #[kani::unwind(11)]
    fn w1_hll_list_model_9_coupons() {
        let c: [u32; 9] = kani::any();
        let mut i = 0;
        while i < 9 { kani::assume(c[i] != 0); i += 1; }
        body_list(c);
    }

    // (2) a FULL list as List::deserialize hands it out (compact image with coupon count == table size: 8 stored coupons, all symbolic and
    //     non-empty): the next List::update - repeat or new coupon - must not fail and leaves the 8 coupons in place; is_full() stays true,
    //     which is what makes HllSketch::update_with_coupon promote the list.
    //     (HllSketch::update_with_coupon itself is not tractable for CBMC: every arm of its `match` on Mode is explored, including the
    //     Array4 promotion with AuxMap::grow and shift_to_bigger_cur_min, even for concrete coupons - measured > 10 min.)
    fn fmt_stub(_a: core::fmt::Arguments<'_>) -> String { String::new() }
    pub fn body_full_list_image(words: [u32; 8], c: u32, j: usize) {
        let mut img = [0u8; 32];
        let mut i = 0;
        while i < 8 { let b = words[i].to_le_bytes(); img[4 * i] = b[0]; img[4 * i + 1] = b[1]; img[4 * i + 2] = b[2]; img[4 * i + 3] = b[3]; i += 1; }
        let r = List::deserialize(SketchSlice::new(&img), 3, 8, false, true);
        if let Ok(mut list) = r {
            assert!(list.container().len() == 8 && list.container().is_full(), "C13 a compact LIST image with count == table size is a full list");
            assert!(holds(&list, words[j]) >= 1);
            list.update(c);
            assert!(list.container().len() == 8 && list.container().is_full(), "C14.list.full an update of a full list keeps it full (the sketch then promotes)");
            assert!(holds(&list, words[j]) >= 1, "C14.list.full no stored coupon is lost");
            assert!(list.container().iter().fold(0usize, |n, _e| n + 1) == 8);
        } else {
            assert!(false, "a compact LIST image with count == table size is accepted");
        }
    }
    #[kani::proof]
    #[kani::unwind(11)]
    #[kani::stub(alloc::fmt::format, fmt_stub)]
    fn w1_hll_full_list_image_update() {
        let words: [u32; 8] = kani::any();
        let mut i = 0;
        while i < 8 { kani::assume(words[i] != 0); i += 1; }
        let c: u32 = kani::any(); kani::assume(c != 0);
        let j: usize = kani::any(); kani::assume(j < 8);
        body_full_list_image(words, c, j);
    }
