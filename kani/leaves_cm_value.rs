    // Count-Min counter types (macro instances in countmin/value.rs): the trait laws the VX unit cm_sketch states as `cm_law`, and
    // the documented semantics of halve / decay ("multiplies the value by decay and truncates back into T"), per instance, all values
    fn fmt_stub(_a: core::fmt::Arguments<'_>) -> String { String::new() }
    macro_rules! unsigned_laws { ($t:ty, $h:ident, $d:ident, $m:ident, $b:ident) => {
        #[kani::proof] fn $h() { let v: $t = kani::any(); assert!(UnsignedCountMinValue::halve(v) == v / 2); assert!(CountMinValue::abs(v) == v);
            let w: $t = kani::any(); if let Some(s) = v.checked_add(w) { assert!(CountMinValue::add(v, w) == s); } }
        #[kani::proof] fn $d() { let v: $t = kani::any(); let d: f64 = kani::any(); kani::assume(d >= 0.0 && d <= 1.0);
            let r = UnsignedCountMinValue::decay(v, d); assert!(r == ((v as f64) * d) as $t); assert!(r <= v || core::mem::size_of::<$t>() == 8); }
        #[kani::proof] fn $m() { let a: $t = kani::any(); let b: $t = kani::any(); let d: f64 = kani::any(); kani::assume(d >= 0.0 && d <= 1.0 && a <= b);
            assert!(UnsignedCountMinValue::decay(a, d) <= UnsignedCountMinValue::decay(b, d)); }
        #[kani::proof] #[kani::unwind(4)] #[kani::stub(alloc::fmt::format, fmt_stub)] fn $b() { let v: $t = kani::any(); let by = CountMinValue::to_bytes(v); assert!(u64::from_le_bytes(by) == v as u64);
            if let Ok(w) = <$t as CountMinValue>::try_from_bytes(by) { assert!(w == v); } else { assert!(false); } }
    } }
    unsigned_laws!(u8, leaf_cm_u8_halve_add, leaf_cm_u8_decay_formula, leaf_cm_u8_decay_monotone, leaf_cm_u8_bytes);
    unsigned_laws!(u16, leaf_cm_u16_halve_add, leaf_cm_u16_decay_formula, leaf_cm_u16_decay_monotone, leaf_cm_u16_bytes);
    unsigned_laws!(u32, leaf_cm_u32_halve_add, leaf_cm_u32_decay_formula, leaf_cm_u32_decay_monotone, leaf_cm_u32_bytes);
    unsigned_laws!(u64, leaf_cm_u64_halve_add, leaf_cm_u64_decay_formula, leaf_cm_u64_decay_monotone, leaf_cm_u64_bytes);
    macro_rules! signed_laws { ($t:ty, $a:ident, $b:ident) => {
        #[kani::proof] fn $a() { let v: $t = kani::any(); let w: $t = kani::any(); if let Some(s) = v.checked_add(w) { assert!(CountMinValue::add(v, w) == s); }
            if v != <$t>::MIN { assert!(CountMinValue::abs(v) == if v < 0 { -v } else { v }); } }
        #[kani::proof] #[kani::unwind(4)] #[kani::stub(alloc::fmt::format, fmt_stub)] fn $b() { let v: $t = kani::any(); let by = CountMinValue::to_bytes(v); assert!(i64::from_le_bytes(by) == v as i64);
            if let Ok(w) = <$t as CountMinValue>::try_from_bytes(by) { assert!(w == v); } else { assert!(false); } }
    } }
    signed_laws!(i8, leaf_cm_i8_add_abs, leaf_cm_i8_bytes);
    signed_laws!(i16, leaf_cm_i16_add_abs, leaf_cm_i16_bytes);
    signed_laws!(i32, leaf_cm_i32_add_abs, leaf_cm_i32_bytes);
    signed_laws!(i64, leaf_cm_i64_add_abs, leaf_cm_i64_bytes);
