    // Units hll_array8 / hll_array8_merge: the ASSUMED contracts of the two opaque callees of Array8::rebuild_estimator_from_registers
    // (and of the two Array8 merge kernels), checked on the REAL functions:
    //   HipEstimator::set_out_of_order(ooo):  final.ooo() == ooo
    //   Array8::rebuild_cached_values():      bytes and lg_config_k unchanged, num_zeros == number of zero registers, ooo flag unchanged
    fn any_estimator(lg_k: u8) -> HipEstimator {
        // every field symbolic (through the real setters; the fields are private to hll/estimator.rs)
        let mut e = HipEstimator::new(lg_k);
        e.set_out_of_order(kani::any());
        e.set_hip_accum(kani::any());
        e.set_kxq0(kani::any());
        e.set_kxq1(kani::any());
        e
    }
    // complete: loop free, all inputs (three f64 accumulators, both flags) range over their full domain
    #[kani::proof]
    fn shim_set_out_of_order_flag() {
        let mut e = any_estimator(4);
        let ooo: bool = kani::any();
        e.set_out_of_order(ooo);
        assert!(e.is_out_of_order() == ooo);
    }
    // bounded: lg_k = 4 (16 registers), every register symbolic in 0..=63 (a register above 63 makes `1u64 << val` overflow: known finding
    // C14 "register bytes above 63 are accepted"), stale num_zeros and estimator state symbolic
    #[kani::proof]
    #[kani::unwind(18)]
    fn shim_rebuild_cached_values_lgk4() {
        let mut a = Array8::new(4);
        let regs: [u8; 16] = kani::any();
        let mut i = 0;
        while i < 16 { kani::assume(regs[i] <= 63); a.bytes[i] = regs[i]; i += 1; }
        a.num_zeros = kani::any();
        a.estimator = any_estimator(4);
        let ooo = a.estimator.is_out_of_order();
        a.rebuild_cached_values();
        assert!(a.lg_config_k == 4 && a.bytes.len() == 16);
        let mut zeros = 0u32; let mut j = 0;
        while j < 16 { assert!(a.bytes[j] == regs[j]); if regs[j] == 0 { zeros += 1; } j += 1; }
        assert!(a.num_zeros == zeros);
        assert!(a.estimator.is_out_of_order() == ooo);
    }
