    // theta_sketch vx_collect: `s.iter().collect()` == nonzero_seq(s.table.entries), ThetaSketch::iter being `self.table.iter()`.
    // The REAL ThetaHashTable::iter is run on a symbolic table of <= 6 slots: it yields the non-zero entries in table order.
    #[kani::proof]
    #[kani::unwind(8)]
    fn shim_theta_table_iter() {
        let a: [u64; 6] = kani::any(); let n: usize = kani::any(); kani::assume(n <= 6);
        let t = ThetaHashTable { lg_cur_size: kani::any(), lg_nom_size: kani::any(), lg_max_size: kani::any(), resize_factor: ResizeFactor::X1,
            sampling_probability: 1.0, hash_seed: kani::any(), theta: kani::any(), entries: a[..n].to_vec(), num_entries: kani::any() };
        let mut it = t.iter();
        let mut k = 0; let mut i = 0;
        while i < n { if a[i] != 0 { assert!(it.next() == Some(a[i])); k += 1; } i += 1; }
        assert!(it.next().is_none());
        let r: Vec<u64> = t.iter().collect();
        assert!(r.len() == k);
        let j: usize = kani::any(); kani::assume(j < k);
        let mut seen = 0; let mut i = 0; let mut e = 0u64;
        while i < n { if a[i] != 0 { if seen == j { e = a[i]; } seen += 1; } i += 1; }
        assert!(r[j] == e);
    }
