    // theta_sketch vx_collect: `s.iter().collect()` == nonzero_seq(s.table.entries), ThetaSketch::iter being `self.table.iter()`.
    // The REAL ThetaHashTable::iter is run on tables of 0..=6 slots with symbolic contents: it yields the non-zero entries in table order.
    fn theta_table_iter_case<const N: usize>() {
        let a: [u64; N] = kani::any();
        let t = ThetaHashTable { lg_cur_size: kani::any(), lg_nom_size: kani::any(), lg_max_size: kani::any(), resize_factor: ResizeFactor::X1,
            sampling_probability: 1.0, hash_seed: kani::any(), theta: kani::any(), entries: a.to_vec(), num_entries: kani::any() };
        let mut it = t.iter();
        let mut k = 0; let mut i = 0;
        while i < N { if a[i] != 0 { assert!(it.next() == Some(a[i])); k += 1; } i += 1; }
        assert!(it.next().is_none());
        let r: Vec<u64> = t.iter().collect();
        assert!(r.len() == k);
        let j: usize = kani::any();
        if j < k {
            let mut seen = 0; let mut i = 0; let mut e = 0u64;
            while i < N { if a[i] != 0 { if seen == j { e = a[i]; } seen += 1; } i += 1; }
            assert!(r[j] == e);
        }
    }
    #[kani::proof]
    #[kani::unwind(8)]
    fn shim_theta_table_iter() {
        theta_table_iter_case::<0>(); theta_table_iter_case::<1>(); theta_table_iter_case::<2>(); theta_table_iter_case::<3>();
        theta_table_iter_case::<4>(); theta_table_iter_case::<6>();
    }
