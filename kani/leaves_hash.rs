    // leaf: read_u64_le(b) = little-endian value of <= 8 bytes, zero padded (assumed by the VX hash units)
    #[kani::proof]
    #[kani::unwind(9)]
    fn leaf_read_u64_le() {
        let buf: [u8; 8] = kani::any();
        let n: usize = kani::any();
        kani::assume(n <= 8);
        let r = read_u64_le(&buf[..n]);
        let mut expect: u64 = 0;
        let mut i = 0;
        while i < 8 {
            if i < n { expect |= (buf[i] as u64) << (8 * i); }
            i += 1;
        }
        assert!(r == expect);
    }
