    // the suggestion formulas of the Bloom builder are float code; the VX unit bloom_core assumes only that their results lie inside the
    // MIN/MAX constants (the final clamp).  Proved here for every input (ln / log2 are over-approximated by CBMC, which only makes
    // the claim stronger: whatever they return, the clamp keeps the result in range; NaN included).
    #[kani::proof]
    fn leaf_bloom_suggest_num_hashes_in_range() {
        let n: u64 = kani::any(); let m: u64 = kani::any();
        kani::assume(n >= 1 && m >= BloomFilterBuilder::MIN_NUM_BITS && m <= BloomFilterBuilder::MAX_NUM_BITS);   // documented domain (with_accuracy asserts max_items > 0)
        let k = BloomFilterBuilder::suggest_num_hashes_from_accuracy(n, m);
        assert!(k >= BloomFilterBuilder::MIN_NUM_HASHES && k <= BloomFilterBuilder::MAX_NUM_HASHES);
    }
    #[kani::proof]
    fn leaf_bloom_suggest_num_hashes_from_fpp_in_range() {
        let p: f64 = kani::any(); kani::assume(p > 0.0 && p <= 1.0);
        let k = BloomFilterBuilder::suggest_num_hashes_from_fpp(p);
        assert!(k >= BloomFilterBuilder::MIN_NUM_HASHES && k <= BloomFilterBuilder::MAX_NUM_HASHES);
    }
    #[kani::proof]
    fn leaf_bloom_suggest_num_bits_in_range() {
        let n: u64 = kani::any(); let p: f64 = kani::any(); kani::assume(n >= 1 && p > 0.0 && p <= 1.0);
        let b = BloomFilterBuilder::suggest_num_bits(n, p);
        assert!(b >= BloomFilterBuilder::MIN_NUM_BITS && b <= BloomFilterBuilder::MAX_NUM_BITS);
    }
