    // Discharge of small predicate / float-arithmetic shims whose body is a self-contained std expression (no crate items needed).
    // All loop-free over the full operand domain => COMPLETE.

    // hll_dispatch vx_in_4_21:  (4..=21).contains(&x) == (4 <= x <= 21)
    #[kani::proof]
    fn shim_in_4_21() { let x: u8 = kani::any(); assert!((4..=21).contains(&x) == (4 <= x && x <= 21)); }
    // bloom_codec vx_ensure_preamble_longs_in_range (its shim body): (lo..=hi).contains(&actual) == (lo <= actual <= hi)
    #[kani::proof]
    fn shim_range_inclusive_contains_u8() { let lo: u8 = kani::any(); let hi: u8 = kani::any(); let x: u8 = kani::any(); assert!((lo..=hi).contains(&x) == (lo <= x && x <= hi)); }
    // td_int vx_in_unit_interval: f_in_unit is uninterpreted (the shim DEFINES it); its documented meaning "rank in [0.0, 1.0]":
    // (0.0..=1.0).contains(&r) == (0 <= r <= 1), false for NaN, true for -0.0
    #[kani::proof]
    fn shim_in_unit_interval() {
        let r: f64 = kani::any();
        let v = (0.0..=1.0).contains(&r);
        assert!(v == (r >= 0.0 && r <= 1.0));
        if v { assert!(!r.is_nan() && r.is_finite()); }
    }
    // cm_sketch vx_decay_in_range: decay_ok is uninterpreted (the shim DEFINES it); documented meaning "finite and within (0, 1]"
    #[kani::proof]
    fn shim_decay_in_range() {
        let d: f64 = kani::any();
        let v = d > 0.0 && d <= 1.0;
        if v { assert!(d.is_finite() && !d.is_nan() && d != 0.0); }
        if d.is_nan() || d.is_infinite() || d == 0.0 { assert!(!v); }
    }
    // theta_bounds vx_theta_out_of_range:  r == !theta_ok(theta)  for `theta <= 0.0 || theta > 1.0`.
    // theta_ok is uninterpreted, but the SAME unit uses it as the premise of leaf_div_not_nan, whose Kani leaf (leaves_float.rs) assumes
    // `b > 0.0 && b <= 1.0`.  So the two assumed facts are consistent only if   !(t <= 0.0 || t > 1.0)  ==  (t > 0.0 && t <= 1.0)   for every t.
    // AS STATED (every f64) this is FALSE: t = NaN passes the range check of binomial_bounds::{lower_bound, upper_bound}.
    #[kani::proof]
    fn shim_theta_out_of_range_as_first_stated_demo() { let t: f64 = kani::any(); assert!((t <= 0.0 || t > 1.0) == !(t > 0.0 && t <= 1.0)); }   // NOT registered: fails at NaN (kept as the record of the corrected contract)
    // the contract as it stands now in contracts/theta_bounds.rs, with theta_ok(t) := 0 < t <= 1, for EVERY f64:
    //   theta_ok(t) ==> !r,   (!r && !nan(t)) ==> theta_ok(t),   nan(t) ==> !r
    #[kani::proof]
    fn shim_theta_out_of_range_contract() {
        let t: f64 = kani::any(); let r = t <= 0.0 || t > 1.0; let ok = t > 0.0 && t <= 1.0;
        if ok { assert!(!r); }
        if !r && !t.is_nan() { assert!(ok); }
        if t.is_nan() { assert!(!r); }
    }
    // ... and it holds exactly off NaN
    #[kani::proof]
    fn shim_theta_out_of_range_not_nan() { let t: f64 = kani::any(); kani::assume(!t.is_nan()); assert!((t <= 0.0 || t > 1.0) == !(t > 0.0 && t <= 1.0)); }
    // consequence on the real expression sequence of lower_bound for theta = NaN: the check passes and the estimate is NaN
    #[kani::proof]
    fn shim_theta_nan_passes_check() {
        let n: u64 = kani::any(); let t = f64::NAN;
        assert!(!(t <= 0.0 || t > 1.0));
        assert!((n as f64 / t).is_nan());
    }
    // cpc_union vx_golden_stride: 4 <= num_slots ==> 2 <= r && r + 1 < num_slots, for EVERY u32 (the leaf leaf_cpc_golden_stride covers 2^2..2^26 only)
    #[kani::proof]
    fn shim_cpc_golden_stride_all_u32() {
        let num_slots: u32 = kani::any(); kani::assume(num_slots >= 4);
        let r = (0.6180339887498949 * (num_slots as f64)) as u32;
        assert!(2 <= r && (r as u64) + 1 < num_slots as u64);
    }
    // fi_map vx_golden_stride: n > 0 ==> r < n, for every usize
    #[kani::proof]
    fn shim_fi_golden_stride_all_usize() {
        let n: usize = kani::any(); kani::assume(n > 0);
        let r = (n as f64 * 0.6180339887498949) as usize;
        assert!(r < n);
    }
    // fi_map vx_load_threshold: `ensures r == n * 3 / 4` is stated WITHOUT a precondition, i.e. for every usize
    // NOT registered (fails above 2^51): record of why the contract now has `requires n <= 2^51`
    #[kani::proof]
    fn shim_fi_load_threshold_unbounded_demo() {
        let n: usize = kani::any();
        let r = (n as f64 * 0.75) as usize;
        assert!((r as u128) == (n as u128) * 3 / 4);
    }
    // ... it holds for every n <= 2^51 (powers of two or not): a domain on which the contract is true (call sites: n = 2^lg, lg <= 40).
    // (Already false at n = 3893737177830741 ~ 2^51.8: 0.75 n = ...055.75 is not representable, ulp 0.5, and rounds up.)
    #[kani::proof]
    fn shim_fi_load_threshold_upto_2_51() {
        let n: usize = kani::any(); kani::assume(n <= (1usize << 51));
        let r = (n as f64 * 0.75) as usize;
        assert!(r == n * 3 / 4);
    }
