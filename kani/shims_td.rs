    // td_int shims / assume_specifications on the REAL Centroid type (mean: f64, weight: NonZeroU64); bounded: <= 3 + 3 centroids.
    fn any_centroid() -> Centroid { let w: u64 = kani::any(); kani::assume(w != 0); Centroid { mean: kani::any(), weight: NonZeroU64::new(w).unwrap() } }
    fn same(a: &Centroid, b: &Centroid) -> bool { a.mean.to_bits() == b.mean.to_bits() && a.weight == b.weight }
    // vx_extend_take: `b.extend(std::mem::take(c))`  =>  final(b) == old(b) ++ old(c), final(c) empty
    #[kani::proof]
    #[kani::unwind(6)]
    fn shim_extend_take() {
        let x = [any_centroid(), any_centroid(), any_centroid()]; let y = [any_centroid(), any_centroid(), any_centroid()];
        let n: usize = kani::any(); let m: usize = kani::any(); kani::assume(n <= 3 && m <= 3);
        let mut b: Vec<Centroid> = x[..n].to_vec(); let mut c: Vec<Centroid> = y[..m].to_vec();
        b.extend(std::mem::take(&mut c));
        assert!(c.len() == 0);
        assert!(b.len() == n + m);
        let i: usize = kani::any(); kani::assume(i < n + m);
        assert!(if i < n { same(&b[i], &x[i]) } else { same(&b[i], &y[i - n]) });
    }
    // assume_specification <[T]>::sort_by (buffer.sort_by(centroid_cmp)): same length, permutation.  Means NaN-free, as the VX unit requires
    // before the call (centroid_cmp is unreachable!() on NaN).  Also checked although the contract does not claim it: ascending by mean.
    // Concrete lengths 0..=4 (a symbolic length makes CBMC execute the whole driftsort).
    fn sort_by_case<const N: usize>() {
        let x: [Centroid; N] = core::array::from_fn(|_| any_centroid());
        let mut i = 0; while i < N { kani::assume(!x[i].mean.is_nan()); i += 1; }
        let mut b: Vec<Centroid> = x.to_vec();
        b.sort_by(centroid_cmp);
        assert!(b.len() == N);
        let w = any_centroid();
        let mut c0 = 0; let mut c1 = 0; let mut i = 0;
        while i < N { if same(&x[i], &w) { c0 += 1; } if same(&b[i], &w) { c1 += 1; } if i + 1 < N { assert!(b[i].mean <= b[i + 1].mean); } i += 1; }
        assert!(c0 == c1);
    }
    #[kani::proof]
    #[kani::unwind(6)]
    fn shim_sort_by_centroid_cmp() { sort_by_case::<0>(); sort_by_case::<1>(); sort_by_case::<2>(); sort_by_case::<3>(); sort_by_case::<4>(); }
    // assume_specification <[T]>::reverse on Vec<Centroid> (concrete lengths 0..=5)
    fn reverse_case<const N: usize>() {
        let x: [Centroid; N] = core::array::from_fn(|_| any_centroid());
        let mut b: Vec<Centroid> = x.to_vec();
        b.reverse();
        assert!(b.len() == N);
        let i: usize = kani::any(); if i < N { assert!(same(&b[i], &x[N - 1 - i])); }
    }
    #[kani::proof]
    #[kani::unwind(7)]
    fn shim_reverse_centroids() { reverse_case::<0>(); reverse_case::<1>(); reverse_case::<2>(); reverse_case::<3>(); reverse_case::<4>(); reverse_case::<5>(); }
    // td_codec vx_alloc_raw_centroids / vx_alloc_centroids_u16: Vec::<Centroid>::with_capacity(n) is empty
    #[kani::proof]
    #[kani::unwind(4)]
    fn shim_with_capacity_centroids() {
        let n: usize = kani::any(); kani::assume(n <= 64);
        let v: Vec<Centroid> = Vec::with_capacity(n);
        assert!(v.len() == 0 && v.capacity() >= n);
    }
