    // Discharge of the iterator / collection shims whose body is a std expression over std types (BOUNDED: symbolic contents, length <= the
    // stated bound; the std code under test is length-generic).  Specs transcribed: nz / nonzero_seq = filter (!= 0) in order, total_pc = sum of
    // popcounts, zip_seq = pairwise up to the shorter length, sorted_perm_of = ascending permutation.
    fn nz_u32(s: &[u32], out: &mut [u32; 8]) -> usize { let mut k = 0; let mut i = 0; while i < s.len() { if s[i] != 0 { out[k] = s[i]; k += 1; } i += 1; } k }
    fn nz_u64(s: &[u64], out: &mut [u64; 8]) -> usize { let mut k = 0; let mut i = 0; while i < s.len() { if s[i] != 0 { out[k] = s[i]; k += 1; } i += 1; } k }

    // The table LENGTH is concrete per case (0..=6) and the CONTENTS symbolic: with a symbolic length CBMC must model Vec growth / memmove with
    // symbolic sizes (collect: no verdict in 500 s, retain: solver out of memory).
    // hll_codec_coupons vx_collect_nonzero: s.iter().filter(|&&c| c != 0).copied().collect() == nz(s)   (Box<[u32]>)
    fn collect_nonzero_case<const N: usize>() {
        let a: [u32; N] = kani::any();
        let s: Box<[u32]> = a.to_vec().into_boxed_slice();
        let r: Vec<u32> = s.iter().filter(|&&c| c != 0).copied().collect();
        let mut e = [0u32; 8]; let k = nz_u32(&a, &mut e);
        assert!(r.len() == k);
        let i: usize = kani::any(); if i < k { assert!(r[i] == e[i]); }      // no assume here: the cases run in sequence
    }
    #[kani::proof]
    #[kani::unwind(8)]
    fn shim_collect_nonzero() {
        collect_nonzero_case::<0>(); collect_nonzero_case::<1>(); collect_nonzero_case::<2>(); collect_nonzero_case::<3>();
        collect_nonzero_case::<4>(); collect_nonzero_case::<5>(); collect_nonzero_case::<6>();
    }
    // theta_table vx_retain_nonzero: v.retain(|&e| e != 0) == nonzero_seq(v)
    fn retain_nonzero_case<const N: usize>() {
        let a: [u64; N] = kani::any();
        let mut v: Vec<u64> = a.to_vec();
        v.retain(|&e| e != 0);
        let mut e = [0u64; 8]; let k = nz_u64(&a, &mut e);
        assert!(v.len() == k);
        let i: usize = kani::any(); if i < k { assert!(v[i] == e[i]); }
    }
    #[kani::proof]
    #[kani::unwind(8)]
    fn shim_retain_nonzero() {
        retain_nonzero_case::<0>(); retain_nonzero_case::<1>(); retain_nonzero_case::<2>(); retain_nonzero_case::<3>();
        retain_nonzero_case::<4>(); retain_nonzero_case::<5>(); retain_nonzero_case::<6>();
    }
    // bloom_codec vx_sum_count_ones: s.iter().map(|w| w.count_ones() as u64).sum() == total_pc(s)
    #[kani::proof]
    #[kani::unwind(8)]
    fn shim_sum_count_ones() {
        let a: [u64; 6] = kani::any(); let n: usize = kani::any(); kani::assume(n <= 6);
        let s: Box<[u64]> = a[..n].to_vec().into_boxed_slice();
        let r: u64 = s.iter().map(|w| w.count_ones() as u64).sum();
        let mut e: u64 = 0; let mut i = 0; while i < n { e += a[i].count_ones() as u64; i += 1; }
        assert!(r == e && r <= 64 * n as u64);
    }
    // fi_map vx_none_vec: (0..n).map(|_| None).collect::<Vec<Option<T>>>() has length n, all None   (T = u64 and a non-Copy T; n concrete per case)
    fn none_vec_case<const N: usize>() {
        let n: usize = N;
        let r: Vec<Option<u64>> = (0..n).map(|_| None).collect();
        assert!(r.len() == n);
        let i: usize = kani::any(); if i < n { assert!(r[i].is_none()); }
        let r2: Vec<Option<Box<u32>>> = (0..n).map(|_| None).collect();
        assert!(r2.len() == n); if i < n { assert!(r2[i].is_none()); }
    }
    #[kani::proof]
    #[kani::unwind(10)]
    fn shim_none_vec() { none_vec_case::<0>(); none_vec_case::<1>(); none_vec_case::<2>(); none_vec_case::<5>(); none_vec_case::<8>(); }
    // fi_codec vx_zip + VxZip::next: items.into_iter().zip(values) yields (items[i], values[i]) for i < min(len, len), then None
    #[kani::proof]
    #[kani::unwind(7)]
    fn shim_zip() {
        let a: [u32; 4] = kani::any(); let b: [u64; 4] = kani::any();
        let n: usize = kani::any(); let m: usize = kani::any(); kani::assume(n <= 4 && m <= 4);
        let items: Vec<u32> = a[..n].to_vec(); let values: Vec<u64> = b[..m].to_vec();
        let mut it = items.into_iter().zip(values);
        let l = if n <= m { n } else { m };
        let mut i = 0;
        while i < l { assert!(it.next() == Some((a[i], b[i]))); i += 1; }
        assert!(it.next().is_none());
        assert!(it.next().is_none());
    }
    // hll_codec_coupons vx_sort_unstable (Vec<u32>): sorted_perm_of(final, old), same length.  Concrete lengths 0..=6 (see shims_std.rs).
    fn sort_vec_u32_case<const N: usize>() {
        let a: [u32; N] = kani::any(); let w: u32 = kani::any();
        let mut v: Vec<u32> = a.to_vec();
        v.sort_unstable();
        assert!(v.len() == N);
        let mut c0 = 0; let mut c1 = 0; let mut i = 0;
        while i < N { if a[i] == w { c0 += 1; } if v[i] == w { c1 += 1; } if i + 1 < N { assert!(v[i] <= v[i + 1]); } i += 1; }
        assert!(c0 == c1);
    }
    #[kani::proof]
    #[kani::unwind(8)]
    fn shim_sort_unstable_vec_u32() {
        sort_vec_u32_case::<0>(); sort_vec_u32_case::<1>(); sort_vec_u32_case::<2>(); sort_vec_u32_case::<3>();
        sort_vec_u32_case::<4>(); sort_vec_u32_case::<5>(); sort_vec_u32_case::<6>();
    }
    // theta_codec vx_fill_u8: v.fill(x)
    #[kani::proof]
    #[kani::unwind(10)]
    fn shim_fill_u8() {
        let a: [u8; 8] = kani::any(); let n: usize = kani::any(); kani::assume(n <= 8); let x: u8 = kani::any();
        let mut v: Vec<u8> = a[..n].to_vec();
        v.fill(x);
        assert!(v.len() == n);
        let i: usize = kani::any(); kani::assume(i < n); assert!(v[i] == x);
    }
    // theta_codec vx_subslice_u8: &v[lo..hi] == v.subrange(lo, hi)   (identity of the sub-slice: pointer + length)
    #[kani::proof]
    #[kani::unwind(10)]
    fn shim_subslice_u8() {
        let a: [u8; 8] = kani::any(); let n: usize = kani::any(); kani::assume(n <= 8);
        let v: Vec<u8> = a[..n].to_vec();
        let lo: usize = kani::any(); let hi: usize = kani::any(); kani::assume(lo <= hi && hi <= n);
        let r: &[u8] = &v[lo..hi];
        assert!(r.len() == hi - lo);
        let i: usize = kani::any(); kani::assume(i < hi - lo); assert!(r[i] == a[lo + i]);
    }
    // vx_alloc_vec (bloom_codec u64, cm_codec generic), vx_vec_u32, vx_zeroed_u8 (hll_codec4/8, theta_codec), vx_zeroed_u64, vx_vec_u8,
    // vx_zeroed_item_bytes_raw: vec![x; n] has length n and every element == x (x symbolic: both the zeroed-allocation and the fill path).
    // (The C14 `requires` of these shims bound n at the call site; they are obligations of the callers, not facts about vec!.)
    fn vec_repeat_case<const N: usize>() {
        let n: usize = N; let j: usize = kani::any(); let i = if j < n { j } else { 0 };      // no assume: the cases run in sequence
        let x8: u8 = kani::any(); let v8 = vec![x8; n]; assert!(v8.len() == n && (n == 0 || v8[i] == x8));
        let z8 = vec![0u8; n]; assert!(z8.len() == n && (n == 0 || z8[i] == 0));
        let x32: u32 = kani::any(); let v32 = vec![x32; n]; assert!(v32.len() == n && (n == 0 || v32[i] == x32));
        let x64: u64 = kani::any(); let v64 = vec![x64; n]; assert!(v64.len() == n && (n == 0 || v64[i] == x64));
        let z64 = vec![0u64; n]; assert!(z64.len() == n && (n == 0 || z64[i] == 0));
        let xi: i64 = kani::any(); let vi = vec![xi; n]; assert!(vi.len() == n && (n == 0 || vi[i] == xi));
    }
    #[kani::proof]
    #[kani::unwind(10)]
    fn shim_vec_repeat() { vec_repeat_case::<0>(); vec_repeat_case::<1>(); vec_repeat_case::<3>(); vec_repeat_case::<8>(); }
    // ... and for a symbolic length (u8 / u64 instances)
    #[kani::proof]
    #[kani::unwind(6)]
    fn shim_vec_repeat_symbolic_len() {
        let n: usize = kani::any(); kani::assume(n <= 4); let i: usize = kani::any(); kani::assume(i < n);
        let z8 = vec![0u8; n]; assert!(z8.len() == n && z8[i] == 0);
        let x64: u64 = kani::any(); let v64 = vec![x64; n]; assert!(v64.len() == n && v64[i] == x64);
    }
    // vx_alloc_raw_u64s, vx_alloc_raw_f64s, vx_with_capacity_u64 (and the Centroid instances in shims_td.rs): Vec::with_capacity(n) is empty
    #[kani::proof]
    #[kani::unwind(4)]
    fn shim_with_capacity_empty() {
        let n: usize = kani::any(); kani::assume(n <= 64);
        let v: Vec<u64> = Vec::with_capacity(n); assert!(v.len() == 0 && v.capacity() >= n);
        let f: Vec<f64> = Vec::with_capacity(n); assert!(f.len() == 0);
    }
    // td_codec vx_add_weight_raw: `*acc += w` under the C14 precondition acc + w <= u64::MAX
    #[kani::proof]
    fn shim_add_weight_raw() {
        let a0: u64 = kani::any(); let w: u64 = kani::any(); kani::assume((a0 as u128) + (w as u128) <= u64::MAX as u128);
        let mut acc = a0; acc += w;
        assert!((acc as u128) == (a0 as u128) + (w as u128));
    }
