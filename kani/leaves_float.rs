    // float-order leaves used by the C01 theta bracket (DESIGN 2.3)
    #[kani::proof]
    fn leaf_min_max_bracket() {
        let est: f64 = kani::any(); let nf: f64 = kani::any(); let raw: f64 = kani::any();
        kani::assume(!est.is_nan());
        let lb = est.min(nf.max(raw));
        assert!(lb <= est);
        let ub = est.max(raw);
        assert!(est <= ub);
    }
    #[kani::proof]
    fn leaf_div_not_nan() {
        let a: f64 = kani::any(); let b: f64 = kani::any();
        kani::assume(a.is_finite() && a >= 0.0 && b > 0.0 && b <= 1.0);
        assert!(!(a / b).is_nan());
    }
    #[kani::proof]
    fn leaf_u64_as_f64_finite_nonneg() {
        let n: u64 = kani::any();
        let f = n as f64;
        assert!(f.is_finite() && f >= 0.0);
    }
