    // WITNESS harness (bounded, DESIGN.md 7.3e) for C13/C02 on the REAL HashSet::deserialize + HashSet::update: a compact SET-mode
    // image (only the stored coupons, as this library and Java's compact form write it) must read back as a table in which every
    // stored coupon is FOUND again: re-offering one leaves the coupon count unchanged (an update after a round trip is idempotent).
    // Bound: one concrete image of 10 coupons (several sharing the home slot of the 32-slot table, different strides), lg_arr 5, the
    // re-offered coupon chosen symbolically among the 10; unwind 34.
    fn w_fmt_stub(_a: core::fmt::Arguments<'_>) -> String { String::new() }
    const W_SET: [u32; 10] = [0x0400_0021, 0x0800_0041, 0x0c00_0061, 0x1000_0022, 0x1400_0422, 0x1800_0822, 0x1c00_0003, 0x2000_0c03, 0x0400_7fe1, 0x2400_0025];
    #[kani::proof]
    #[kani::unwind(34)]
    #[kani::stub(alloc::fmt::format, w_fmt_stub)]
    fn w_c13_hll_compact_set_image_then_reoffer() {
        let mut img = [0u8; 44];
        img[0] = 10;                                   // coupon count (u32 LE) at the cursor
        let mut i = 0;
        while i < 10 { let b = W_SET[i].to_le_bytes(); img[4 + 4 * i] = b[0]; img[5 + 4 * i] = b[1]; img[6 + 4 * i] = b[2]; img[7 + 4 * i] = b[3]; i += 1; }
        let r = HashSet::deserialize(SketchSlice::new(&img), 5, true);
        if let Ok(mut set) = r {
            assert!(set.container().len() == 10, "C13 a compact SET image holds its coupon count");
            let j: usize = kani::any(); kani::assume(j < 10);
            set.update(W_SET[j]);
            assert!(set.container().len() == 10, "C02/C13 re-offering a stored coupon after deserialize does not add it again");
            let stored = set.container().iter().fold(0usize, |n, _e| n + 1);
            assert!(stored == 10);
        } else {
            assert!(false, "a compact SET image with 10 coupons is accepted");
        }
    }
