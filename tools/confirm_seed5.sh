#!/bin/bash
# confirm_seed5.sh <prop> : confirm round-5 seeds of /tmp/seed5_<prop> and store them as seeded/<prop>_13..15
p=$1
for k in 1 2 3; do
  n=$((k+12))
  [ -f /tmp/seed5_$p/seed_$k.patch ] || continue
  cp /tmp/seed5_$p/seed_$k.patch /tmp/seed5_$p/seed_$n.patch; cp /tmp/seed5_$p/seed_${k}_demo.rs /tmp/seed5_$p/seed_${n}_demo.rs; cp /tmp/seed5_$p/seed_$k.txt /tmp/seed5_$p/seed_$n.txt
  CARGO_BUILD_JOBS=4 python3 /verif/tools/confirm_seed.py /tmp/seed5_$p $p $n
done
