#!/usr/bin/env python3
"""linkprove.py [--unit A] [--fn NAME] [--prover B] [--jobs N] [--json OUT] [--keep DIR] [--repo DIR] [--no-cache] [-v]

SEMANTIC check of the cross-unit contract links (DESIGN 7.3); tools/linkcheck.py decides only the syntactic sufficient condition.

A *link* (A, f, B): unit A uses f through an `external_body` stub with an ASSUMED contract, unit B verifies the real body of f
against its own contract.  Modular soundness needs   requires_A ==> requires_B   and   ensures_B ==> ensures_A.
For every link this tool
  1. generates B's full unit text from the current /repo exactly as the check does (vx.generate),
  2. appends, inside the verus! block,
     (i)  the transitive closure of the spec-level definitions A's contract of f mentions (spec fns - free and methods, with their
          impl headers -, ghost struct/enum types, consts, type aliases, uninterpreted `spec fn ..;`), taken from A's text and renamed
          with the suffix `__A`; a definition is NOT renamed (it is identified with B's) when B has a token-identical definition
          in the same context whose own dependencies are identified too, or when A leaves it uninterpreted (`uninterp`, or an
          `external_body` type) and B has a definition of the same name and signature (A's proof holds for every interpretation);
     (ii) a wrapper `vx_linkwrap` with f's signature and A's contract (renamed) whose body only calls B's verified f,
  3. runs Verus restricted to the wrapper (`--verify-root --verify-function vx_linkwrap`).
  4. when the plain wrapper fails, retries with PROOF HINTS in the wrapper body only (never in the contract): `reveal` of the opaque
     spec fns of both contracts and `assert(a =~= b)` for assumed equalities; then, for every function that A leaves uninterpreted
     and B does not define under the same name, tries to INTERPRET it by a spec fn of B with the same context and signature (most
     similar name first, at most 3 combinations): the renamed symbol is then defined as `f__A(..) { b_fn(..) }`.  A's proof holds
     for every interpretation of its uninterpreted symbols, so any interpretation that proves the links is a valid refinement - but
     it must be ONE interpretation per symbol: phase 2 re-checks all links of A under each candidate when links chose different ones.
     (Axioms that A states about an uninterpreted symbol - `external_body proof fn` - are NOT checked against the interpretation;
     they stay assumptions of A, listed in its evidence.)
Verdicts (one line per link, best prover first when several units verify f):
  proved         Verus accepts the wrapper: requires_A ==> requires_B and ensures_B ==> ensures_A.  `hints=none|reveal|reveal+ext`,
                 `instantiates=` (A-uninterpreted symbols / external_body types identified with B's same-named definitions),
                 `interpretation=sym:=b_fn`, `renamed=n` (A definitions that were copied because B words them differently),
                 `model_types` (a type of the signature is a different MODEL type in A, e.g. `struct Error { k: u8 }`: the wrapper keeps
                 B's type; only clauses that do not look inside the type can be linked), `checked under the generic bounds of ..`.
  failed         Verus rejects the wrapper; each failing clause is listed: `precondition not satisfied | <clause of B's f>` = A's callers
                 are not made to establish it; `postcondition not satisfied | <clause assumed in A>` = B's contract does not give it.
                 `uninterpreted in A without ..: names` says which abstract symbols of A have no interpretation (a refinement mapping
                 has to be written by hand).  `(rlimit)` = undecided by the solver, not refuted.
  not-checkable  front-end error (missing type, ghost parameter only B has, name clash), with the reason
  assumed        no ready unit verifies f (not a link; listed with -v)
Nothing under contracts/ or units/ is written; generated files live in a temp dir that is removed (copies with --keep DIR); verdicts are
cached in /verif/.cache/linkprove/<sha1 of the generated text>.json (reused only while this file is unchanged).
`--unit` takes a unit name or the path of a scratch unit json (its `overlay` may be an absolute path): that unit then plays A.
Exit code 0 iff every link is proved."""
import sys, os, json, re, glob, hashlib, tempfile, shutil, time
from concurrent.futures import ThreadPoolExecutor
HERE = os.path.dirname(os.path.abspath(__file__)); ROOT = os.path.dirname(HERE)
sys.path.insert(0, HERE)
import vxlib as X
import vx
import linkcheck as L

WRAP = 'vx_linkwrap'
CACHE = os.path.join(ROOT, '.cache', 'linkprove')
TOOL_SHA = hashlib.sha1(open(os.path.abspath(__file__), 'rb').read()).hexdigest()[:12]      # a cached verdict is reused only when this file is unchanged
MODS = ('open', 'closed', 'uninterp', 'proof', 'exec', 'tracked', 'ghost', 'unsafe', 'broadcast', 'default', 'extern', 'async', 'axiom')

# ------------------------------------------------------------------ item parser (token level)
class Item:
    def __init__(self, **kw): self.__dict__.update(kw)

def _end_semi(ts, i):
    d = 0
    while i < len(ts):
        if ts[i] in '([{': d += 1
        elif ts[i] in ')]}': d -= 1
        elif ts[i] == ';' and d == 0: return i
        i += 1
    return len(ts) - 1

def _first_brace(ts, i):
    d = 0
    while i < len(ts):
        if ts[i] in '([': d += 1
        elif ts[i] in ')]': d -= 1
        elif ts[i] == '{' and d == 0: return i
        elif ts[i] == ';' and d == 0: return None
        i += 1
    return None

def parse_items(ts, ctx=None):
    """ts: token strings of a verus! block (or of an impl body) -> list of Item (kind, name, toks, kw index, ctx, ...)"""
    out = []; i = 0; n = len(ts)
    while i < n:
        start = i; attrs = []
        while i + 1 < n and ts[i] == '#' and ts[i + 1] in ('[', '!'):
            j = i + 1 if ts[i + 1] == '[' else i + 2
            e = X.match_close(ts, j); attrs.append(ts[i:e + 1]); i = e + 1
        mods = []
        while i < n:
            t = ts[i]
            if t == 'pub':
                mods.append(t); i += 1
                if i < n and ts[i] == '(': i = X.match_close(ts, i) + 1
            elif t in MODS: mods.append(t); i += 1
            elif t == 'spec':
                mods.append(t); i += 1
                if i < n and ts[i] == '(': i = X.match_close(ts, i) + 1
            elif t == 'const' and i + 1 < n and ts[i + 1] == 'fn': mods.append(t); i += 1
            else: break
        if i >= n: break
        kw = ts[i]; ki = i; name = None; inner = None; header = None; body = True
        if kw == 'fn':
            name = ts[i + 1]; bo = X.body_open(ts, i)
            # body_open scans to the end of the token list: a declaration `fn f(..) -> T;` must end at its own `;`
            se = _end_semi(ts, i)
            if bo is None or se < bo: end = se; body = False
            else: end = X.match_close(ts, bo)
        elif kw in ('struct', 'enum', 'union'):
            name = ts[i + 1]; b = _first_brace(ts, i)
            if b is None: end = _end_semi(ts, i)
            else:
                end = X.match_close(ts, b)
        elif kw in ('impl', 'trait', 'mod', 'group'):
            b = _first_brace(ts, i)
            if b is None: end = _end_semi(ts, i)
            else:
                end = X.match_close(ts, b); header = tuple(ts[i:b])
                name = ts[i + 1] if kw != 'impl' else None
                if kw in ('impl', 'trait'): inner = parse_items(ts[b + 1:end], ctx=header)
        elif kw in ('const', 'static'):
            name = ts[i + 1]
            if name == 'mut': name = ts[i + 2]
            # `const N: T = E;`  or  `exec const N: T ensures c { .. }`
            j = i; d = 0; eq = False
            while j < n:
                if ts[j] in '([': d += 1
                elif ts[j] in ')]': d -= 1
                elif ts[j] == '=' and d == 0: eq = True; break
                elif ts[j] in ('{', ';') and d == 0: break
                elif ts[j] in X.CLAUSE_KW and d == 0: break
                j += 1
            if eq or j >= n or ts[j] == ';': end = _end_semi(ts, i)
            else:
                bo = X.body_open(ts, i); end = X.match_close(ts, bo) if bo is not None else _end_semi(ts, i)
        elif kw in ('type', 'use', 'global', 'assume_specification'):
            name = ts[i + 1] if kw == 'type' else None; end = _end_semi(ts, i)
        elif kw.endswith('!'):
            b = i + 1
            while b < n and ts[b] not in '([{': b += 1
            end = X.match_close(ts, b)
            if end + 1 < n and ts[end + 1] == ';': end += 1
            name = ts[i + 1] if ts[i + 1] not in '([{' else None
        else:
            b = _first_brace(ts, i); se = _end_semi(ts, i)
            end = se if (b is None or se < b) else X.match_close(ts, b)
        mode = 'spec' if 'spec' in mods else ('proof' if ('proof' in mods or 'axiom' in mods) else 'exec')
        ext = any('external_body' in a for a in attrs)
        out.append(Item(kind=kw, name=name, toks=ts[start:end + 1], ki=ki - start, ctx=ctx, inner=inner, header=header, mods=mods, attrs=attrs,
                        mode=mode, uninterp=('uninterp' in mods) or (kw == 'fn' and mode == 'spec' and (ext or not body)) or (kw in ('struct', 'enum') and ext), has_body=body))
        i = end + 1
    return out

def verus_tokens(text):
    m = X.mask(text); mm = re.search(r'verus!\s*\{', m)
    if not mm: raise ValueError('no verus! block')
    o = mm.end() - 1; c = X.match_brace(m, o)
    return [str(t) for t in X.tokens(text[o + 1:c])], c

def canon(it):
    """definition tokens without attributes, visibility, tags: what is compared between A and B"""
    return tuple(L._strip(it.toks[it.ki:]))

def canon_ctx(ctx):
    """impl header without attributes and WITHOUT generic bounds / where clauses: `impl<T: Eq + Hash> M<T>` and `impl<T> M<T>` are the
    same context for a spec definition (the wrapper is then checked under B's bounds when A's do not suffice, and says so)"""
    if not ctx: return None
    ts = L._strip(list(ctx))
    if 'where' in ts: ts = ts[:ts.index('where')]
    out = []; i = 0
    if len(ts) > 1 and ts[1] == '<':
        out = ts[:2]; i = 2; d = 1; skip = False
        while i < len(ts) and d > 0:
            t = ts[i]
            if t == '<': d += 1
            elif t == '>': d -= 1
            if d == 1 and t == ':' : skip = True
            elif d == 1 and t == ',': skip = False
            if d == 0: out.append(t); i += 1; break
            if not skip: out.append(t)
            i += 1
    out += ts[i:]
    return tuple(out)

def fn_sig(it):
    """parameter types and result type of a spec fn (names ignored): identification of uninterpreted functions"""
    ts = L._strip(it.toks[it.ki:]); po = ts.index('('); pc = X.match_close(ts, po)
    params = []
    for a in L._split_top(ts[po + 1:pc]):
        a = list(a)
        params.append(tuple(a[a.index(':') + 1:]) if ':' in a else tuple(a))
    k = pc + 1; ret = []
    if k < len(ts) and ts[k] == '->':
        k += 1
        while k < len(ts) and ts[k] not in ('{', ';') and ts[k] not in X.CLAUSE_KW: ret.append(ts[k]); k += 1
        if ret and ret[0] == '(' and X.match_close(ret, 0) == len(ret) - 1 and ':' in ret: ret = ret[ret.index(':') + 1:-1]
    gen = tuple(ts[2:po])
    return (gen, tuple(params), tuple(ret))

DEF_KINDS = ('fn', 'struct', 'enum', 'const', 'type')
def def_table(items):
    """name -> [Item] for the spec-level definitions (spec fns free/methods, types, consts, aliases); trait impls stay out"""
    tab = {}
    def walk(its):
        for it in its:
            if it.kind == 'impl':
                if 'for' in it.header: continue
                walk(it.inner or [])
            elif it.kind == 'trait': continue
            elif it.kind in DEF_KINDS and it.name:
                if it.kind == 'fn' and it.mode != 'spec': continue
                tab.setdefault(it.name, []).append(it)
    walk(items)
    return tab

def find_fn(items, path):
    """the exec/any fn item for 'Type::f' or 'f' (same lookup rule as vxlib.locate_fn: first impl block whose header names Type)"""
    if '::' in path:
        ty, fn = path.split('::')
        for it in items:
            if it.kind == 'impl' and re.search(r'\b%s\b' % re.escape(ty), ' '.join(it.header)):
                for f in it.inner or []:
                    if f.kind == 'fn' and f.name == fn and f.has_body: return f
        return None
    for it in items:
        if it.kind == 'fn' and it.name == path and it.has_body: return it
    return None

# ------------------------------------------------------------------ fn header
def parse_header(it):
    """-> dict(name, generics, params [(text tokens, kind, name)], ret tokens, rname, clauses tokens (from the first clause keyword), raw head)"""
    ts = [t for t in it.toks[it.ki:]]
    bo = X.body_open(ts, 0); head = ts[:bo] if bo is not None else ts[:-1]
    po = head.index('('); pc = X.match_close(head, po)
    params = []
    for a in L._split_top(L._strip(head[po + 1:pc])):
        a = list(a)
        if 'self' in a and ':' not in a: params.append((a, 'self', 'self'))
        elif a[0] in ('Ghost', 'Tracked') and a[1] == '(': params.append((a, 'ghost', a[2]))
        else:
            nm = a[a.index(':') - 1]
            params.append((a, 'exec', nm))
    k = next((i for i in range(pc + 1, len(head)) if head[i] in X.CLAUSE_KW), len(head))
    ret = head[pc + 1:k]
    return {'name': head[1], 'generics': head[2:po], 'params': params, 'ret': ret, 'clauses': head[k:], 'head': head}

def clause_lines(cl):
    """clause tokens `requires a, b ensures c` -> text with one clause per line (so that a Verus span names one clause)"""
    out = []; cur = None; run = []
    def flush():
        if cur is None: return
        out.append(cur)
        # keep tags: split on the stripped-free tokens but re-emit with tags attached
        for c in _split_keep_tags(run): out.append('    ' + ' '.join(c) + ' ,')
    for t in cl:
        if t in X.CLAUSE_KW:
            flush(); cur = t; run = []
        else: run.append(t)
    flush()
    return out

def _split_keep_tags(ts):
    out = [[]]; d = 0; i = 0
    while i < len(ts):
        t = ts[i]
        if t in ('forall', 'exists', 'choose') and i + 1 < len(ts) and ts[i + 1] == '|':
            j = i + 2
            while j < len(ts) and ts[j] != '|': j += 1
            out[-1].extend(ts[i:j + 1]); i = j + 1; continue
        if t in ('(', '[', '{'): d += 1
        elif t in (')', ']', '}'): d -= 1
        if t == ',' and d == 0: out.append([])
        else: out[-1].append(t)
        i += 1
    return [c for c in out if [t for t in c if not t.startswith('/*')]]

# ------------------------------------------------------------------ building the link file
class NotCheckable(Exception):
    pass

_gen_cache = {}
def unit_text(u, repo):
    """generated unit text (real functions/items of the current repo spliced in); falls back to the overlay text"""
    key = (u['_overlay_path'], u['name'], repo)
    if key not in _gen_cache:
        try:
            g = vx.generate(u, repo); txt = g.text; probs = g.problems
        except Exception as ex:
            txt = open(u['_overlay_path']).read(); probs = [{'kind': 'generate-failed', 'detail': str(ex)}]
        ts, close = verus_tokens(txt)
        items = parse_items(ts)
        _gen_cache[key] = (txt, close, items, def_table(items), probs)
    return _gen_cache[key]

def type_name_of_header(header):
    """`impl<T: X> Foo<T>` -> Foo"""
    h = list(header)[1:]
    if h and h[0] == '<':
        d = 0
        for i, t in enumerate(h):
            if t == '<': d += 1
            elif t == '>':
                d -= 1
                if d == 0: h = h[i + 1:]; break
    return h[0] if h else None

def refs(ts, defs):
    """names of `defs` that the token run refers to, judged by position: a spec fn only where it is called (`f(`, `f::<`), a
    type / const / alias only where it is not a field access, a field name or a binder (`.k`, `k:`)"""
    out = set()
    for i, t in enumerate(ts):
        ds = defs.get(t)
        if not ds: continue
        nx = ts[i + 1] if i + 1 < len(ts) else ''; pv = ts[i - 1] if i > 0 else ''
        if any(d.kind == 'fn' for d in ds) and (nx == '(' or (nx == '::' and i + 2 < len(ts) and ts[i + 2] == '<')): out.add(t)
        elif any(d.kind != 'fn' for d in ds) and pv != '.' and nx != ':' and nx != '(' and pv not in ('fn', 'let', 'mut', '|'): out.add(t)
        elif any(d.kind in ('struct', 'enum') for d in ds) and pv != '.' and nx == '(' and pv != 'fn': out.add(t)      # tuple struct / variant constructor
    return out

def all_type_names(items):
    return set(it.name for it in items if it.kind in ('struct', 'enum', 'union', 'type') and it.name)

def build(A, fA_path, B, fB_path, repo, hints=False, inst=None, b_ctx=False):
    """-> (text, info) or raises NotCheckable.  inst: {A's uninterpreted name: name of the B spec fn that interprets it}"""
    sfx = '__' + re.sub(r'\W', '_', A['name'])
    txtA, _, itemsA, defsA, _ = unit_text(A, repo)
    txtB, closeB, itemsB, defsB, probsB = unit_text(B, repo)
    if any(p['kind'] == 'lost-anchor' for p in probsB): raise NotCheckable('prover unit does not generate: %s' % probsB[0].get('detail'))
    fa = find_fn(itemsA, fA_path); fb = find_fn(itemsB, fB_path)
    if fa is None: raise NotCheckable('stub %s not found in %s' % (fA_path, A['name']))
    if fb is None: raise NotCheckable('function %s not found in %s' % (fB_path, B['name']))
    if any('external_body' in a for a in fb.attrs): raise NotCheckable('function is external_body in the proving unit too')
    ha = parse_header(fa); hb = parse_header(fb)
    # ---- closure of A's definitions mentioned by the contract (and the signature); a method is taken only when its type exists
    #      in B or is itself part of the closure (names are resolved by name, not by type)
    typesB = all_type_names(itemsB)
    def usable(d, closure):
        return d.ctx is None or type_name_of_header(d.ctx) in typesB or type_name_of_header(d.ctx) in closure
    closure = {}
    while True:
        before = sum(len(v) for v in closure.values())
        todo = list(refs(ha['head'], defsA)) + list(closure)
        if fa.ctx: todo += list(refs(list(fa.ctx), defsA))
        seen = set()
        while todo:
            nme = todo.pop()
            if nme in seen: continue
            seen.add(nme)
            ds = [d for d in defsA[nme] if usable(d, closure)]
            if not ds: continue
            closure[nme] = ds
            for d in ds:
                for t in refs(list(d.toks) + list(d.ctx or ()), defsA):
                    if t not in seen: todo.append(t)
        if sum(len(v) for v in closure.values()) == before: break
    # ---- which names are identified with B's definitions (greatest fixpoint)
    def same_in_B(d):
        for e in defsB.get(d.name, []):
            if e.kind != d.kind or canon_ctx(e.ctx) != canon_ctx(d.ctx): continue
            if d.uninterp:
                if d.kind != 'fn' or fn_sig(d) == fn_sig(e): return 'same' if (e.uninterp and d.kind == 'fn') else 'instantiated'
                continue
            if e.uninterp: continue
            if canon(e) == canon(d): return 'same'
        return None
    how = {}
    shared = set()
    for nme, ds in closure.items():
        r = [same_in_B(d) for d in ds]
        if all(r): shared.add(nme); how[nme] = 'instantiated' if 'instantiated' in r else 'same'
    changed = True
    while changed:
        changed = False
        for nme in sorted(shared):
            for d in closure[nme]:
                if d.uninterp and d.kind != 'fn': continue
                dep = [t for t in refs(list(d.toks) + list(d.ctx or ()), closure) if t not in shared]
                if dep: shared.discard(nme); changed = True; break
    renamed = sorted(set(closure) - shared)
    fn_names = set(nme for nme in renamed if any(d.kind == 'fn' for d in closure[nme]))
    ty_names = set(nme for nme in renamed if any(d.kind != 'fn' for d in closure[nme]))
    def ren(ts):
        out = []
        for i, t in enumerate(ts):
            nx = ts[i + 1] if i + 1 < len(ts) else ''
            pv = ts[i - 1] if i > 0 else ''
            if t in fn_names and pv == 'fn': out.append(t + sfx)
            elif t in ty_names and pv in ('const', 'static', 'struct', 'enum', 'type', 'union'): out.append(t + sfx)
            elif t in fn_names and (nx == '(' or (nx == '::' and i + 2 < len(ts) and ts[i + 2] == '<')) and not (pv in ('struct', 'enum')): out.append(t + sfx)
            elif t in ty_names and pv != '.' and nx != ':' and pv not in ('fn', 'let', 'mut', '|') and (nx != '(' or any(d.kind in ('struct', 'enum') for d in closure[t])): out.append(t + sfx)
            else: out.append(t)
        return out
    # a type of the exec signature that A defines differently (A works with a MODEL of the real type, e.g. `struct Error { k: u8 }`):
    # the wrapper keeps B's type in its signature; clauses of A that look inside the model type then do not type-check
    # (-> not-checkable), clauses that do not are linked as usual.  Reported as `model_types`.
    sig_toks = [t for p in ha['params'] for t in p[0]] + list(ha['ret']) + list(fa.ctx or ())
    clash = sorted(set(t for t in sig_toks if t in ty_names))
    ren_all = ren
    def ren_sig(ts):
        r_ = ren_all(ts)
        return [t if (t in clash) else r for t, r in zip(ts, r_)]
    # ---- uninterpreted functions of A that B does not define under the same name: need an interpretation
    unmatched = {}
    for nme in renamed:
        for d in closure[nme]:
            if d.kind == 'fn' and d.uninterp:
                cands = []
                for bn, es in defsB.items():
                    for e in es:
                        if e.kind == 'fn' and canon_ctx(e.ctx) == canon_ctx(d.ctx) and fn_sig(e) == fn_sig(d): cands.append(bn)
                import difflib
                cands = sorted(set(cands), key=lambda c: -difflib.SequenceMatcher(a=c, b=nme).ratio())
                unmatched[nme] = cands
    inst = dict(inst or {})
    # ---- emit A's renamed definitions
    parts = ['\n// ===== linkprove: definitions of unit %s used by its assumed contract of %s (suffix %s) =====' % (A['name'], fA_path, sfx)]
    groups = {}
    for nme in renamed:
        for d in closure[nme]:
            groups.setdefault(d.ctx, []).append(d)
    def emit_def(d):
        ts = [t for t in d.toks if not t.startswith('/*')]
        # one module: visibility qualifiers are irrelevant (and `pub open` may not mention a private renamed fn)
        body = ts[d.ki:]; pre = []
        i = 0
        while i < d.ki:
            if ts[i] == 'pub':
                i += 1
                if i < d.ki and ts[i] == '(': i = X.match_close(ts, i) + 1
                continue
            if ts[i] in ('open', 'closed'): i += 1; continue
            pre.append(ts[i]); i += 1
        if d.kind == 'fn' and d.uninterp and d.name in inst:
            # interpretation of an uninterpreted function of A by a spec fn of B with the same signature
            h = parse_header(d); names = [p[2] for p in h['params']]
            call = ('self . %s ( %s )' % (inst[d.name], ' , '.join(n for n in names if n != 'self'))) if 'self' in names else '%s ( %s )' % (inst[d.name], ' , '.join(names))
            sig = ts[d.ki:]
            cut = next((k for k, t in enumerate(sig) if t in X.CLAUSE_KW or t in ('{', ';')), len(sig))
            return 'spec ' + X.emit(ren(sig[:cut])) + ' { ' + call + ' }      // linkprove: interpretation of the uninterpreted %s\n' % d.name
        return X.emit(ren(pre + body))
    b_headers = {}
    for it in itemsB:
        if it.kind == 'impl' and 'for' not in it.header:
            k_ = canon_ctx(it.header)
            if k_ not in b_headers or len(it.header) > len(b_headers[k_]): b_headers[k_] = it.header
    for ctx, ds in groups.items():
        if ctx is None:
            for d in ds: parts.append(emit_def(d))
        else:
            hdr = list(ctx)
            if b_ctx and canon_ctx(ctx) in b_headers: hdr = list(b_headers[canon_ctx(ctx)])      # B's generic bounds (see check_link)
            parts.append(' '.join(ren(hdr)) + ' {'); parts += [emit_def(d) for d in ds]; parts.append('}')
    # ---- the call of B's f
    execA = [p for p in ha['params'] if p[1] != 'ghost']; ghostA = {p[2]: p for p in ha['params'] if p[1] == 'ghost'}
    args = []; k = 0; recv = None
    execB = [p for p in hb['params'] if p[1] != 'ghost']
    if len(execA) != len(execB): raise NotCheckable('parameter lists differ (%d vs %d exec parameters)' % (len(execA), len(execB)))
    for p in hb['params']:
        if p[1] == 'ghost':
            if p[2] in ghostA: args.append('%s ( %s )' % (p[0][0], p[2]))
            else:
                e = ghost_from_requires(hb, p[2])
                if e is None: raise NotCheckable('ghost parameter `%s` of %s::%s cannot be chosen from the contract' % (' '.join(p[0]), B['name'], fB_path))
                args.append('%s ( %s )' % (p[0][0], e))
        else:
            a = execA[k]; k += 1
            if (a[1] == 'self') != (p[1] == 'self'): raise NotCheckable('receiver differs')
            if p[1] == 'self': recv = 'self'
            else: args.append(a[2])
    trait_of = None
    if fb.ctx and 'for' in fb.ctx:
        hdr = list(fb.ctx); fi = hdr.index('for'); g0 = 1
        if hdr[1] == '<':
            d = 0
            for i, t in enumerate(hdr[1:], 1):
                if t == '<': d += 1
                elif t == '>':
                    d -= 1
                    if d == 0: g0 = i + 1; break
        trait_of = hdr[g0:fi]
    if recv: call = 'self . %s ( %s )' % (hb['name'], ' , '.join(args))
    elif fb.ctx and trait_of: call = '< Self as %s > :: %s ( %s )' % (' '.join(trait_of), hb['name'], ' , '.join(args))
    elif fb.ctx: call = '%s :: %s ( %s )' % (type_name_of_header(fb.ctx), hb['name'], ' , '.join(args))
    else: call = '%s ( %s )' % (hb['name'], ' , '.join(args))
    # ---- hints: reveal opaque spec fns of both contracts, extensional equality for assumed `==`
    hint_txt = []; post_txt = []
    if hints:
        clB = {}; todo = list(refs(hb['head'], defsB))
        while todo:
            nme = todo.pop()
            if nme in clB: continue
            clB[nme] = defsB[nme]
            for d in defsB[nme]:
                for t in refs(d.toks, defsB):
                    if t not in clB: todo.append(t)
        seen = set()
        def rv(d, nm):
            if d.kind != 'fn' or not any('opaque' in a for a in d.attrs): return
            p = ('%s :: %s' % (type_name_of_header(ren(list(d.ctx))), nm)) if d.ctx else nm
            if p not in seen: seen.add(p); hint_txt.append('reveal ( %s ) ;' % p)
        for nme, ds in clB.items():
            for d in ds:
                if d.ctx is None or 'for' not in d.ctx: rv(d, nme)
        for nme, ds in closure.items():
            for d in ds: rv(d, nme + sfx if nme in fn_names else nme)
        muts = [p[2] for p in ha['params'] if p[1] == 'exec' and '&' in p[0] and 'mut' in p[0]] + (['self'] if any(p[1] == 'self' and 'mut' in p[0] and '&' in p[0] for p in ha['params']) else [])
        _, ensA = split_clauses(ha['clauses'])
        for c in (ensA if hints == 2 else []):
            for c2 in L._conjuncts(tuple(t for t in L._strip(c))):
                c2 = list(c2); d = 0; pos = None; bad = False
                for i, t in enumerate(c2):
                    if t in '([{': d += 1
                    elif t in ')]}': d -= 1
                    elif d == 0 and t == '==' and pos is None: pos = i
                    elif d == 0 and t in ('==>', '<==>', '||', '|||', '<==', '&&', '&&&', '=~=', '<', '>', '<=', '>=', '!=', 'matches', 'is', '==', 'if'): bad = True
                if pos is None or bad or c2[0] in ('forall', 'exists'): continue
                post_txt.append('assert ( ( %s ) =~= ( %s ) ) ;' % (' '.join(ren(final_to_cur(c2[:pos], muts))), ' '.join(ren(final_to_cur(c2[pos + 1:], muts)))))
    # ---- the wrapper (a stub inside a trait impl gets its wrapper in an inherent impl of the same type)
    wctx = list(fa.ctx) if fa.ctx else None
    ret = list(ha['ret'])
    if wctx and 'for' in wctx:
        fi = wctx.index('for'); g0 = 1
        if wctx[1] == '<':
            d = 0
            for i, t in enumerate(wctx[1:], 1):
                if t == '<': d += 1
                elif t == '>':
                    d -= 1
                    if d == 0: g0 = i + 1; break
        tr = wctx[g0:fi]; wctx = wctx[:g0] + wctx[fi + 1:]
        # associated types of A's trait impl (`type Item = (u32, u8);`) are substituted: B may hold the function in an inherent impl
        assoc = {}
        for it in itemsA:
            if it.kind == 'impl' and it.header == fa.ctx:
                for x in it.inner or []:
                    if x.kind == 'type' and '=' in x.toks: assoc[x.name] = [t for t in x.toks[x.toks.index('=') + 1:] if t != ';']
        def fix(ts):
            out = []; i = 0
            while i < len(ts):
                if ts[i] == 'Self' and i + 2 < len(ts) and ts[i + 1] == '::' and ts[i + 2] in assoc:
                    out += assoc[ts[i + 2]]; i += 3
                elif ts[i] == 'Self' and i + 2 < len(ts) and ts[i + 1] == '::' and ts[i + 2][:1].isupper() and (i + 3 >= len(ts) or ts[i + 3] not in ('(', '::', '{')):
                    out += ['<', 'Self', 'as'] + tr + ['>', '::', ts[i + 2]]; i += 3
                else: out.append(ts[i]); i += 1
            return out
        ret = fix(ret); ha = dict(ha); ha['clauses'] = fix(list(ha['clauses'])); ha['params'] = [(fix(p[0]), p[1], p[2]) for p in ha['params']]
    rn = None
    r = L._strip(ret)
    if len(r) > 4 and r[0] == '->' and r[1] == '(' and r[3] == ':': rn = r[2]
    whead = ['fn', WRAP] + ren_sig([t for t in ha['generics']]) + ['('] + ren_sig(join_params(ha['params'])) + [')'] + ren_sig(ret)
    lines = [' '.join(whead)] + clause_lines(ren(list(ha['clauses'])))
    body = ['{']
    if hint_txt: body.append('    proof { ' + ' '.join(hint_txt) + ' }')
    if post_txt and (rn or not ret):
        body.append('    let %s = %s ;' % (rn, call) if rn else '    %s ;' % call)
        body.append('    proof { ' + ' '.join(post_txt) + ' }')
        if rn: body.append('    ' + rn)
    else: body.append('    ' + call)
    body.append('}')
    wtxt = '\n'.join(lines + body)
    if wctx and b_ctx and fb.ctx and 'for' not in fb.ctx: wctx = list(fb.ctx)      # B's impl header (its generic bounds): see check_link
    if wctx: wtxt = ' '.join(ren_sig(wctx)) + ' {\n' + wtxt + '\n}'
    parts.append('// ===== linkprove: wrapper with the contract assumed in %s, body = the function verified in %s =====' % (A['name'], B['name']))
    parts.append(wtxt)
    add = '\n'.join(parts) + '\n'
    text = txtB[:closeB] + add + txtB[closeB:]
    info = {'renamed': renamed, 'identified': sorted(nme for nme in shared if how.get(nme) == 'same'), 'instantiated': sorted(nme for nme in shared if how.get(nme) == 'instantiated'),
            'uninterpreted_unmatched': {k_: v_[:4] for k_, v_ in unmatched.items()}, 'added': add, 'model_types': clash}
    return text, info

def split_clauses(cl):
    req, ens = [], []; cur = None; run = []
    def flush():
        if cur == 'requires': req.extend(_split_keep_tags(run))
        elif cur == 'ensures': ens.extend(_split_keep_tags(run))
    for t in cl:
        if t in X.CLAUSE_KW: flush(); cur = t; run = []
        else: run.append(t)
    flush()
    return req, ens

def join_params(params):
    out = []
    for p in params:
        if out: out.append(',')
        out += p[0]
    return out

def final_to_cur(ts, muts):
    """a postcondition expression -> the same expression at the point after the call inside the wrapper body: final(x) -> x"""
    out = []; i = 0
    while i < len(ts):
        if ts[i] == 'final' and i + 3 < len(ts) and ts[i + 1] == '(' and ts[i + 3] == ')' and ts[i + 2] in muts:
            out.append(ts[i + 2]); i += 4; continue
        out.append(ts[i]); i += 1
    return out

def ghost_from_requires(hb, g):
    """`requires g == E` (or `E == g`) where E does not mention another ghost parameter: E evaluated at the call (old(x) -> x)"""
    req, _ = split_clauses(hb['clauses'])
    others = set(p[2] for p in hb['params'] if p[1] == 'ghost') - {g}
    for c in req:
        for c2 in L._conjuncts(tuple(t for t in c if not t.startswith('/*'))):
            c2 = list(c2)
            while c2 and c2[0] == '(' and X.match_close(c2, 0) == len(c2) - 1: c2 = c2[1:-1]
            d = 0; eq = [i for i, t in enumerate(c2) if t == '==']
            for i in eq:
                lhs, rhs = c2[:i], c2[i + 1:]
                for a, b in ((lhs, rhs), (rhs, lhs)):
                    if a == [g] and g not in b and not (set(b) & others) and not any(t in ('==>', '&&', '||', '==') for t in b):
                        out = []; k = 0
                        while k < len(b):
                            if b[k] == 'old' and k + 3 < len(b) and b[k + 1] == '(' and b[k + 3] == ')': out += ['(', '*', b[k + 2], ')']; k += 4
                            else: out.append(b[k]); k += 1
                        return ' '.join(out)
    return None

# ------------------------------------------------------------------ running
def describe(diag, lines, fname):
    """one line per Verus error: message + the clause text of every span"""
    msg = diag.get('message', '')
    bits = []
    for s in diag.get('spans', []):
        ls, le = s.get('line_start', 0), s.get('line_end', 0)
        if os.path.basename(str(s.get('file_name', ''))) == fname and 1 <= ls <= len(lines):
            if ls == le: tx = lines[ls - 1][max(s.get('column_start', 1) - 1, 0):max(s.get('column_end', 1) - 1, 0)]
            else: tx = ' '.join(l.strip() for l in lines[ls - 1:le])
        else:
            tx = ' '.join(t.get('text', '').strip() for t in s.get('text', []))
        lab = s.get('label') or ''
        if lab.startswith('at the end of the function body'): continue
        bits.append(('%s: ' % lab if lab else '') + re.sub(r'\s+', ' ', tx.strip())[:300])
    return {'message': msg, 'spans': bits}

# messages of Verus that mean "this proof obligation does not hold / was not proved" (anything else at level error is a front-end error)
OBLIGATION = ('postcondition not satisfied', 'precondition not satisfied', 'assertion failed', 'possible arithmetic underflow/overflow', 'possible division by zero',
              'possible bit shift underflow/overflow', 'recommendation not met', 'decreases not satisfied', 'could not prove termination', 'invariant not satisfied',
              'index out of bounds', 'slice index', 'unreachable', 'failed this', 'might', 'cannot show', 'could not prove')

def classify(v, text, fname):
    lines = text.split('\n')
    vr = v.get('json', {}).get('verification-results', {})
    if v.get('timeout'): return 'failed', [{'message': 'verus timed out', 'spans': []}], 'timeout'
    errs = [d for d in v['diags'] if d.get('level') == 'error' and not d.get('message', '').lower().startswith('aborting due to')]
    rl = [d for d in v['diags'] if d.get('level') != 'error']
    ok = bool(vr) and not vr.get('encountered-error') and not vr.get('encountered-vir-error') and vr.get('errors', 1) == 0 and v.get('rc') == 0
    if ok and vr.get('verified', 0) >= 1 and not errs: return 'proved', [], None
    oblig = [d for d in errs if any(k in d.get('message', '').lower() for k in OBLIGATION)]
    other = [d for d in errs if d not in oblig and not ('resource limit' in d.get('message', '').lower() or 'rlimit' in d.get('message', '').lower())]
    if other: return 'not-checkable', [describe(d, lines, fname) for d in other], 'front-end'
    if oblig: return 'failed', [describe(d, lines, fname) for d in oblig], None
    if rl or errs: return 'failed', [describe(d, lines, fname) for d in (rl + errs)], 'rlimit'
    if ok and vr.get('verified', 0) == 0: return 'not-checkable', [{'message': 'wrapper not selected by --verify-function', 'spans': []}], 'front-end'
    return 'not-checkable', [{'message': (v.get('raw_err') or v.get('raw_out') or 'no result')[-600:], 'spans': []}], 'tool'

def run_one(text, workdir, tag, rlimit=None, use_cache=True):
    key = hashlib.sha1((text + '|rlimit=%s' % rlimit).encode()).hexdigest()
    cp = os.path.join(CACHE, key + '.json')
    if use_cache and os.path.exists(cp):
        try:
            c = json.load(open(cp))
            if c.get('tool') == TOOL_SHA: c['cached'] = True; return c
        except Exception: pass
    d = tempfile.mkdtemp(prefix='lp_', dir=workdir)
    path = os.path.join(d, 'lp_%s.rs' % re.sub(r'\W', '_', tag)[:60])
    open(path, 'w').write(text)
    v = vx.run_verus(path, rlimit=rlimit, timeout=600, extra=['--verify-root', '--verify-function', WRAP, '--num-threads', '1'])
    verdict, why, note = classify(v, text, os.path.basename(path))
    res = {'verdict': verdict, 'why': why, 'note': note, 'verus_s': round(v['wall_s'], 1), 'sha': key, 'tool': TOOL_SHA}
    if verdict in ('proved', 'failed') and note not in ('timeout',):
        try:
            os.makedirs(CACHE, exist_ok=True); json.dump(res, open(cp + '.tmp%d' % os.getpid(), 'w')); os.replace(cp + '.tmp%d' % os.getpid(), cp)
        except Exception: pass
    return res

def check_link(A, e, B, fB_path, repo, workdir, keep=None, use_cache=True, max_interp=3, force=None):
    opts = e[2] if len(e) > 2 else {}
    fA_path = opts.get('overlay', e[1])
    rec = {'unit': A['name'], 'fn': e[1], 'file': e[0], 'prover': B['name']}
    try:
        text, info = build(A, fA_path, B, fB_path, repo, hints=False)
    except NotCheckable as ex:
        rec.update(verdict='not-checkable', reason=str(ex)); return rec
    except Exception as ex:
        rec.update(verdict='not-checkable', reason='cannot build the link file: %s: %s' % (type(ex).__name__, ex)); return rec
    rec['renamed'] = info['renamed']; rec['identified'] = info['identified']; rec['instantiated'] = info['instantiated']
    if info['uninterpreted_unmatched']: rec['uninterpreted_unmatched'] = info['uninterpreted_unmatched']
    if info['model_types']: rec['model_types'] = info['model_types']
    tag = '%s__%s__%s' % (A['name'], e[1], B['name'])
    rec['verus_s'] = 0; rec['attempts'] = []
    def attempt(label, **kw):
        try: t, _ = build(A, fA_path, B, fB_path, repo, **kw)
        except Exception as ex: return None
        if keep:
            os.makedirs(keep, exist_ok=True); open(os.path.join(keep, 'lp_%s%s.rs' % (re.sub(r'\W', '_', tag), label)), 'w').write(t)
        r = run_one(t, workdir, tag + label, rlimit=B.get('rlimit'), use_cache=use_cache)
        rec['verus_s'] = round(rec['verus_s'] + (0 if r.get('cached') else r['verus_s']), 1); rec['attempts'].append('%s:%s' % (label or 'plain', r['verdict']))
        return r
    # 1. the contract as written, body = the call;  2. the same with proof hints in the wrapper body (reveal, extensional equality);
    # 3. A's uninterpreted functions that B does not define under the same name interpreted by a B spec fn of the same signature
    r1 = attempt('')
    base = {}
    if r1['verdict'] == 'not-checkable' and any('trait bound' in w['message'] for w in r1['why']):
        # B verifies f in an impl block with more generic bounds than A's stub declares: check the contract under B's bounds (noted)
        r1b = attempt('_bctx', b_ctx=True)
        if r1b and r1b['verdict'] != 'not-checkable': r1 = r1b; base = {'b_ctx': True}; rec['note_bounds'] = 'checked under the generic bounds of the impl block of %s (A declares fewer)' % B['name']
    if r1['verdict'] == 'proved': rec.update(verdict='proved', hints='none'); return rec
    best = r1
    def hinted(label, **kw):
        # reveal + extensional equalities; `=~=` does not type-check between different integer types: then reveal only
        kw = dict(base, **kw)
        r = attempt(label + '_hints', hints=2, **kw)
        if r and r['verdict'] == 'proved': return r, 'reveal+ext'
        if r is None or r['verdict'] == 'not-checkable':
            r = attempt(label + '_reveal', hints=1, **kw)
            if r and r['verdict'] == 'proved': return r, 'reveal'
        return r, None
    if r1['verdict'] == 'failed':
        r2, h = hinted('')
        if h: rec.update(verdict='proved', hints=h); return rec
        if r2 and r2['verdict'] == 'failed' and len(r2['why']) < len(best['why']): best = r2
        um = {k_: v_ for k_, v_ in info['uninterpreted_unmatched'].items() if v_}
        for k_, v_ in (force or {}).items():
            if k_ in um: um[k_] = [v_]      # phase 2: one interpretation per symbol for all links of A
        if um:
            names = sorted(um); tried = 0
            # first the most similar name for every symbol at once, then vary one symbol at a time
            combos = [{n_: um[n_][0] for n_ in names}]
            for n_ in names:
                for c_ in um[n_][1:]:
                    d_ = dict(combos[0]); d_[n_] = c_; combos.append(d_)
            for inst in combos[:max_interp]:
                r3, h = hinted('_interp%d' % tried, inst=inst); tried += 1
                if h:
                    rec.update(verdict='proved', hints=h, interpretation=inst); return rec
                if r3 and r3['verdict'] == 'failed' and len(r3['why']) < len(best['why']): best = r3; rec['interpretation_tried'] = inst
    if best['verdict'] == 'failed':
        rec.update(verdict='failed', why=best['why'])
        if best.get('note'): rec['note'] = best['note']
        return rec
    rec.update(verdict='not-checkable', reason=('type %s of the signature is defined differently in the two units and the contract looks inside it; ' % ','.join(rec['model_types']) if rec.get('model_types') else '') + 'verus front-end: ' + '; '.join(w['message'] for w in best['why'])[:600], why=best['why'])
    return rec

def links(U, only_unit=None, only_fn=None, only_prover=None):
    provers = {}
    for n, u in U.items():
        if not u.get('ready'): continue
        for e in u['functions']:
            opts = e[2] if len(e) > 2 else {}
            provers.setdefault((e[0], opts.get('real', e[1])), []).append((n, opts.get('overlay', e[1])))
    out = []; assumed = []
    for n, u in sorted(U.items()):
        if only_unit and n != only_unit: continue
        if not u.get('ready') and not only_unit: continue
        for e in u.get('opaque', []):
            if only_fn and only_fn not in (e[1], e[1].split('::')[-1]): continue
            ps = [p for p in provers.get((e[0], e[1]), []) if p[0] != n and (not only_prover or p[0] == only_prover)]
            if not ps: assumed.append({'unit': n, 'fn': e[1], 'file': e[0], 'verdict': 'assumed'}); continue
            out.append((u, e, ps))
    return out, assumed

RANK = {'proved': 0, 'failed': 1, 'not-checkable': 2}
def main():
    import argparse
    ap = argparse.ArgumentParser(description=__doc__, formatter_class=argparse.RawDescriptionHelpFormatter)
    ap.add_argument('--unit'); ap.add_argument('--fn'); ap.add_argument('--prover'); ap.add_argument('--jobs', type=int, default=1)
    ap.add_argument('--json'); ap.add_argument('--keep'); ap.add_argument('--repo', default='/repo'); ap.add_argument('--no-cache', action='store_true')
    ap.add_argument('-v', action='store_true')
    a = ap.parse_args()
    U = {}
    for f in sorted(glob.glob(os.path.join(ROOT, 'units', '*.json'))):
        u = vx.load_unit(f); U[u['name']] = u
    only = None
    if a.unit:
        if a.unit.endswith('.json') or os.sep in a.unit:
            u = vx.load_unit(a.unit); u['ready'] = True; U[u['name']] = u; only = u['name']      # scratch copy of a unit plays A
        else: only = a.unit
        if only not in U: print('unknown unit %s' % only); return 2
    lk, assumed = links(U, only, a.fn, a.prover)
    work = tempfile.mkdtemp(prefix='linkprove_', dir=os.environ.get('VX_TMP', '/tmp'))
    results = []
    try:
        # generation is shared (and not thread-safe in its cache): warm it up front
        for u, e, ps in lk:
            unit_text(u, a.repo)
            for pn, pp in ps: unit_text(U[pn], a.repo)
        def job(x):
            u, e, ps = x; cands = []
            for pn, pp in ps:
                r = check_link(u, e, U[pn], pp, a.repo, work, keep=a.keep, use_cache=not a.no_cache)
                cands.append(r)
                if r['verdict'] == 'proved': break
            cands.sort(key=lambda r: RANK[r['verdict']])
            best = dict(cands[0])
            if len(cands) > 1: best['other_provers'] = [{'prover': r['prover'], 'verdict': r['verdict']} for r in cands[1:]]
            line = fmt(best)
            print(line, flush=True)
            return best
        with ThreadPoolExecutor(max_workers=max(1, a.jobs)) as ex:
            results = list(ex.map(job, lk))
    finally:
        shutil.rmtree(work, ignore_errors=True)
    if a.v:
        for r in assumed: print('%-14s %-18s %-45s' % ('assumed', r['unit'], r['fn']))
    from collections import Counter
    summ = {'links': len(results), **dict(Counter(r['verdict'] for r in results)), 'proved_with_hints': sum(1 for r in results if r.get('hints') not in (None, 'none')), 'assumed_no_prover': len(assumed)}
    # an uninterpreted symbol of A must get ONE interpretation across all links of A (same-named identification is consistent by
    # construction).  Phase 2: where the per-link search chose different B functions for one symbol, every choice is tried on ALL
    # links of A that mention the symbol; one that keeps them proved is adopted, otherwise those links are `failed`.
    def conflicts_of(rs):
        interp = {}
        for r in rs:
            for k_, v_ in (r.get('interpretation') or {}).items(): interp.setdefault((r['unit'], k_), set()).add(v_)
        return {k_: sorted(v_) for k_, v_ in interp.items() if len(v_) > 1}
    notes = []
    work2 = tempfile.mkdtemp(prefix='linkprove_', dir=os.environ.get('VX_TMP', '/tmp'))
    try:
        for (un, sym), targets in sorted(conflicts_of(results).items()):
            idx = [i for i, r in enumerate(results) if r['unit'] == un and (sym in (r.get('interpretation') or {}) or sym in (r.get('uninterpreted_unmatched') or {}))]
            was = [results[i]['verdict'] for i in idx]; adopted = None
            for t in targets:
                new = []
                for i in idx:
                    u, e, ps = next(x for x in lk if x[0]['name'] == un and x[1][1] == results[i]['fn'])
                    pn, pp = next(p_ for p_ in ps if p_[0] == results[i]['prover'])
                    new.append(check_link(u, e, U[pn], pp, a.repo, work2, keep=a.keep, use_cache=not a.no_cache, force={sym: t}))
                if all(n_['verdict'] == 'proved' or w_ != 'proved' for n_, w_ in zip(new, was)):
                    adopted = t
                    for i, n_ in zip(idx, new):
                        if n_['verdict'] == 'proved' or results[i]['verdict'] == 'proved': results[i] = n_
                    break
            if adopted: notes.append('%s::%s interpreted as %s in all its links' % (un, sym, adopted))
            else:
                notes.append('%s::%s has NO single interpretation among %s that proves all its links' % (un, sym, targets))
                for i in idx:
                    if results[i]['verdict'] == 'proved' and sym in (results[i].get('interpretation') or {}):
                        results[i] = dict(results[i], verdict='failed', why=[{'message': 'proved only under the interpretation %s:=%s, which other links of %s contradict' % (sym, results[i]['interpretation'][sym], un), 'spans': []}])
    finally:
        shutil.rmtree(work2, ignore_errors=True)
    summ = {'links': len(results), **dict(Counter(r['verdict'] for r in results)), 'proved_with_hints': sum(1 for r in results if r.get('hints') not in (None, 'none')),
            'proved_by_interpretation': sum(1 for r in results if r['verdict'] == 'proved' and r.get('interpretation')), 'assumed_no_prover': len(assumed)}
    if notes:
        summ['interpretation_notes'] = notes
        for n_ in notes: print('phase2: ' + n_)
        for r in results:
            if any(n_.startswith('%s::' % r['unit']) for n_ in notes) and (r.get('interpretation') or r['verdict'] == 'failed' and r.get('uninterpreted_unmatched')): print('phase2: ' + fmt(r).split('\n')[0])
    print(json.dumps({'summary': summ}))
    if a.json:
        json.dump({'summary': summ, 'links': results, 'assumed': assumed}, open(a.json, 'w'), indent=1)
    return 0 if all(r['verdict'] == 'proved' for r in results) else 1

def fmt(r):
    s = '%-14s %-18s %-45s %-16s' % (r['verdict'], r['unit'], r['fn'], r.get('prover', ''))
    if r['verdict'] == 'proved':
        s += ' hints=%s' % r.get('hints')
        if r.get('instantiated'): s += ' instantiates=%s' % ','.join(r['instantiated'])
        if r.get('interpretation'): s += ' interpretation=%s' % ','.join('%s:=%s' % kv for kv in sorted(r['interpretation'].items()))
        if r.get('renamed'): s += ' renamed=%d' % len(r['renamed'])
        if r.get('note_bounds'): s += ' [%s]' % r['note_bounds']
        if r.get('model_types'): s += ' [%s: type %s of the signature is a different (model) type in %s; only the clauses are linked]' % ('model_types', ','.join(r['model_types']), r['unit'])
    elif r['verdict'] == 'failed':
        if r.get('note'): s += ' (%s)' % r['note']
        if r.get('note_bounds'): s += ' [%s]' % r['note_bounds']
        if r.get('interpretation_tried'): s += ' [failures listed are those left under the interpretation %s]' % ','.join('%s:=%s' % kv for kv in sorted(r['interpretation_tried'].items()))
        if r.get('uninterpreted_unmatched'): s += ' uninterpreted in %s without a same-named definition in %s: %s' % (r['unit'], r['prover'], ','.join(sorted(r['uninterpreted_unmatched'])))
        for w in r.get('why', [])[:8]:
            s += '\n      %s | %s' % (w['message'][:90], ' | '.join(w['spans'])[:420])
    else:
        s += ' ' + (r.get('reason') or '')[:400]
    return s

if __name__ == '__main__':
    sys.exit(main())
