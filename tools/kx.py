#!/usr/bin/env python3
"""KX: Kani on a per-run scratch copy of the real crate.

  kx.py run <harness-name>... [--repo DIR] [--jobs N] [--playback] [--keep]
  kx.py list

Registry: /verif/kani/harnesses.json  = [{name, file (under /verif/kani), append_to (src-relative file), kind: complete|bounded|search,
props: [..], tier: quick|thorough, timeout: seconds, note, bound}]
Each harness file is appended to its `append_to` source file of the COPY as `#[cfg(kani)] mod verif_kani_<stem> { use super::*; ... }`
(a child module sees its ancestors' private items) -- /repo is never touched.
"""
import os, re, sys, json, shutil, subprocess, tempfile, time
HERE = os.path.dirname(os.path.abspath(__file__)); ROOT = os.path.dirname(HERE)

def registry():
    return json.load(open(os.path.join(ROOT, 'kani', 'harnesses.json')))

CARGO_TOML = '[package]\nname = "datasketches"\nversion = "0.0.0"\nedition = "2024"\n\n[dev-dependencies]\ngoogletest = "0.14.2"\ninsta = "1.46.1"\n\n[lints.rust]\nunexpected_cfgs = { level = "allow" }\n[workspace]\n'

def make_crate(repo, files):
    """files: {harness file (abs): append_to rel}"""
    d = tempfile.mkdtemp(prefix='kx_', dir=os.environ.get('KX_TMP', '/tmp'))
    shutil.copytree(os.path.join(repo, 'datasketches/src'), os.path.join(d, 'src'))
    lock = os.path.join(repo, 'Cargo.lock')
    if os.path.exists(lock): shutil.copy(lock, d)
    elif os.path.exists('/repo/Cargo.lock'): shutil.copy('/repo/Cargo.lock', d)
    open(os.path.join(d, 'Cargo.toml'), 'w').write(CARGO_TOML)
    os.makedirs(os.path.join(d, '.cargo'), exist_ok=True)
    open(os.path.join(d, '.cargo', 'config.toml'), 'w').write('[net]\noffline = true\n')
    for hf, rel in files.items():
        stem = re.sub(r'\W', '_', os.path.basename(hf)[:-3])
        p = os.path.join(d, 'src', rel)
        body = open(hf).read()
        with open(p, 'a') as f:
            f.write('\n#[cfg(kani)]\n#[allow(unused_imports, dead_code, unused_variables, unused_mut)]\nmod verif_kani_%s {\n    use super::*;\n%s\n}\n' % (stem, body))
    return d

def parse_output(out, names):
    """per harness verdicts from regular (sequential) or terse (-j, per-thread) output"""
    res = {}
    def absorb(full, b):
        short = full.split('::')[-1]
        v = re.search(r'VERIFICATION:- (\w+)', b)
        t = re.search(r'Verification Time: ([\d.]+)s', b)
        r = res.setdefault(short, {'harness': full, 'verdict': 'NO-VERDICT', 'time_s': None, 'failed_checks': [], 'failed_locs': [], 'playback': [], 'stubs': []})
        if v: r['verdict'] = v.group(1)
        if t: r['time_s'] = round(float(t.group(1)), 2)
        r['failed_checks'] += re.findall(r'Failed Checks: (.*)', b)[:10]
        r['failed_locs'] += re.findall(r'Failed Checks: .*\n\s*File: "([^"]+)", line (\d+), in (\S+)', b)[:10]
        r['playback'] += re.findall(r'//\s*(-?[\w.]+)\s*\n\s*vec!\[([^\]]*)\]', b)
        r['stubs'] += re.findall(r'- Stub: (.*)', b)
        if re.search(r'timed out|TIMEOUT|CBMC timed out', b) and not r['failed_checks']: r['verdict'] = 'TIMEOUT'
    if re.search(r'(?m)^Thread \d+: ', out):
        cur = {}
        parts = re.split(r'(?m)^(Thread \d+): ', out)
        # parts = [pre, 'Thread 0', text, 'Thread 1', text, ...]
        for k in range(1, len(parts) - 1, 2):
            th, txt = parts[k], parts[k + 1]
            txt = txt.split('Manual Harness Summary')[0]
            m = re.match(r'Checking harness ([\w:]+)\.\.\.', txt)
            if m:
                cur[th] = m.group(1); absorb(m.group(1), txt)
            elif th in cur: absorb(cur[th], txt)
    else:
        blocks = re.split(r'(?m)^Checking harness ', out)
        for b in blocks[1:]:
            m = re.match(r'([\w:]+)\.\.\.', b)
            if m: absorb(m.group(1), b)
    return res

def _src_hash(repo):
    import hashlib
    h = hashlib.sha1(); base = os.path.join(repo, 'datasketches/src')
    for dp, dn, fn in sorted(os.walk(base)):
        dn.sort()
        for f in sorted(fn):
            p_ = os.path.join(dp, f); h.update(os.path.relpath(p_, base).encode()); h.update(open(p_, 'rb').read())
    h.update(open(os.path.abspath(__file__), 'rb').read())
    return h.hexdigest()

def _cache_path(srch, h):
    import hashlib
    body = open(os.path.join(ROOT, 'kani', h['file']), 'rb').read()
    key = hashlib.sha1(('%s|%s|%s|%s|%s' % (srch, h['name'], h.get('append_to'), h.get('timeout'), h.get('kind'))).encode() + body).hexdigest()
    return os.path.join(ROOT, '.cache', 'kx', '%s_%s.json' % (h['name'], key[:20]))

def run(names, repo='/repo', jobs=4, playback=False, keep=False, extra_timeout=None, overrides=None):
    """verdicts are cached under /verif/.cache/kx keyed by the sha1 of EVERY source file of the crate copy + the harness file + this
    tool, so a result is reused only for byte-identical input (several properties share harnesses; absent after a fresh restore)"""
    reg = {h['name']: dict(h) for h in registry()}
    for n_, o_ in (overrides or {}).items():
        if n_ in reg: reg[n_].update(o_)
    cached = {}
    use_cache = os.environ.get('KX_NO_CACHE') != '1' and not playback and not keep and not extra_timeout
    if use_cache:
        srch = _src_hash(repo); rest = []
        for n in names:
            cp = _cache_path(srch, reg[n])
            try:
                r_ = json.load(open(cp)); r_['cached'] = True; cached[n] = r_
            except (OSError, ValueError): rest.append(n)
        if not rest: return cached
        res_ = _run(rest, reg, repo, jobs, playback, keep, extra_timeout)
        os.makedirs(os.path.join(ROOT, '.cache', 'kx'), exist_ok=True)
        for n, r_ in res_.items():
            if r_.get('verdict') in ('SUCCESSFUL', 'FAILED'):
                try:
                    cp = _cache_path(srch, reg[n]); json.dump(r_, open(cp + '.tmp', 'w')); os.replace(cp + '.tmp', cp)
                except OSError: pass
        res_.update(cached)
        return {n: res_[n] for n in names if n in res_}
    return _run(names, reg, repo, jobs, playback, keep, extra_timeout)

def _run(names, reg, repo, jobs, playback, keep, extra_timeout):
    hs = [reg[n] for n in names]
    files = {}
    for h in hs: files[os.path.join(ROOT, 'kani', h['file'])] = h['append_to']
    d = make_crate(repo, files)
    results = {}
    t0 = time.time()
    try:
        # group by timeout so that --harness-timeout applies uniformly
        by_to = {}
        for h in hs: by_to.setdefault(int(extra_timeout or h.get('timeout', 300)), []).append(h)
        for to, group in by_to.items():
            cmd = ['cargo', 'kani', '-Z', 'stubbing', '-Z', 'function-contracts', '-Z', 'unstable-options', '--harness-timeout', '%ds' % to, '--exact']
            mods = {}
            for h in group:
                stem = re.sub(r'\W', '_', h['file'][:-3])
                modpath = h['append_to'][:-3].replace('/', '::')
                if modpath.endswith('::mod'): modpath = modpath[:-5]
                if modpath == 'lib': modpath = ''
                full = '::'.join([x for x in (modpath, 'verif_kani_%s' % stem, h['name']) if x])
                cmd += ['--harness', full]
            if playback: cmd += ['-Z', 'concrete-playback', '--concrete-playback=print']
            if jobs and jobs > 1 and len(group) > 1 and not playback: cmd += ['-j', str(jobs), '--output-format', 'terse']
            env = dict(os.environ, CARGO_NET_OFFLINE='true', CARGO_TARGET_DIR=os.path.join(d, 'target'))
            env.pop('RUSTUP_TOOLCHAIN', None)
            hard = to * max(1, (len(group) + max(jobs, 1) - 1) // max(jobs, 1)) + 600
            try:
                p = subprocess.run(cmd, cwd=d, env=env, capture_output=True, text=True, timeout=hard)
                out = p.stdout + '\n' + p.stderr
            except subprocess.TimeoutExpired as e:
                o = (e.stdout or b''); o2 = (e.stderr or b'')
                out = (o.decode(errors='replace') if isinstance(o, bytes) else o) + (o2.decode(errors='replace') if isinstance(o2, bytes) else o2)
            got = parse_output(out, [h['name'] for h in group])
            for h in group:
                r = got.get(h['name'])
                if r is None:
                    r = {'verdict': 'ERROR', 'time_s': None, 'failed_checks': [], 'playback': [], 'detail': out[-2500:]}
                    if re.search(r'timed out|Timeout', out) and 'error' not in out.lower()[:200]: r['verdict'] = 'TIMEOUT'
                r.update({'name': h['name'], 'kind': h.get('kind'), 'props': h.get('props', []), 'bound': h.get('bound'), 'note': h.get('note', '')})
                results[h['name']] = r
    finally:
        if keep: print('kept', d, file=sys.stderr)
        else: shutil.rmtree(d, ignore_errors=True)
    for r in results.values(): r['batch_wall_s'] = round(time.time() - t0, 1)
    return results

def playback(name, repo='/repo', timeout=None):
    """re-run one failing harness with --concrete-playback=inplace on a fresh copy, then execute the generated unit test on the
    real code with `cargo kani playback`; returns dict(values, test_source, concrete_failed, concrete_output)"""
    reg = {h['name']: h for h in registry()}
    h = reg[name]
    d = make_crate(repo, {os.path.join(ROOT, 'kani', h['file']): h['append_to']})
    out = {'harness': name, 'values': [], 'test_source': None, 'concrete_failed': None, 'concrete_output': ''}
    try:
        stem = re.sub(r'\W', '_', h['file'][:-3])
        modpath = h['append_to'][:-3].replace('/', '::')
        if modpath.endswith('::mod'): modpath = modpath[:-5]
        if modpath == 'lib': modpath = ''
        full = '::'.join([x for x in (modpath, 'verif_kani_%s' % stem, h['name']) if x])
        env = dict(os.environ, CARGO_NET_OFFLINE='true', CARGO_TARGET_DIR=os.path.join(d, 'target')); env.pop('RUSTUP_TOOLCHAIN', None)
        to = int(timeout or h.get('timeout', 300))
        cmd = ['cargo', 'kani', '-Z', 'stubbing', '-Z', 'function-contracts', '-Z', 'concrete-playback', '--concrete-playback=inplace', '-Z', 'unstable-options', '--harness-timeout', '%ds' % to, '--exact', '--harness', full]
        try:
            p = subprocess.run(cmd, cwd=d, env=env, capture_output=True, text=True, timeout=to + 600)
        except subprocess.TimeoutExpired:
            return out
        src = open(os.path.join(d, 'src', h['append_to'])).read()
        m = re.search(r'(#\[test\]\s*fn kani_concrete_playback_\w+\(\) \{.*?\n\s*\})', src, re.S)
        if not m: return out
        out['test_source'] = m.group(1)
        out['values'] = re.findall(r'//\s*(.+?)\s*\n\s*vec!\[([^\]]*)\]', m.group(1))
        try:
            p2 = subprocess.run(['cargo', 'kani', 'playback', '-Z', 'concrete-playback', '--', 'kani_concrete_playback'], cwd=d, env=env, capture_output=True, text=True, timeout=1200)
            o = p2.stdout + p2.stderr
            out['concrete_failed'] = bool(re.search(r'test result: FAILED', o))
            pm = re.search(r"panicked at ([^\n]*\n[^\n]*)", o)
            out['concrete_output'] = (pm.group(0) if pm else o[-400:])[:500]
            out['stubbed'] = 'has stubs which are not applied' in src
        except subprocess.TimeoutExpired:
            pass
        return out
    finally:
        shutil.rmtree(d, ignore_errors=True)

def main():
    if len(sys.argv) < 2: print(__doc__); return 2
    if sys.argv[1] == 'list':
        for h in registry(): print('%-40s %-9s %-8s %s %s' % (h['name'], h.get('kind'), h.get('tier'), ','.join(h.get('props', [])), h.get('note', '')[:60]))
        return 0
    if sys.argv[1] == 'run':
        args = sys.argv[2:]; names = []
        repo = '/repo'; jobs = 4; i = 0
        while i < len(args):
            if args[i] == '--repo': repo = args[i + 1]; i += 2
            elif args[i] == '--jobs': jobs = int(args[i + 1]); i += 2
            elif args[i] in ('--playback', '--keep'): i += 1
            elif args[i] == '--timeout': i += 2
            else: names.append(args[i]); i += 1
        to = int(sys.argv[sys.argv.index('--timeout') + 1]) if '--timeout' in sys.argv else None
        if names == ['all']: names = [h['name'] for h in registry()]
        res = run(names, repo, jobs, '--playback' in sys.argv, '--keep' in sys.argv, to)
        bad = 0
        for n, r in res.items():
            print('%-40s %-10s %-12s %6ss %s' % (n, r.get('kind'), r['verdict'], r.get('time_s'), '; '.join(r.get('failed_checks', [])[:3])))
            for v, b in r.get('playback', [])[:40]: print('     playback %s [%s]' % (v, b))
            if r['verdict'] in ('ERROR', 'NO-VERDICT'): print(r.get('detail', '')[-2500:])
            if r['verdict'] != 'SUCCESSFUL': bad = 1
        return bad
    print(__doc__); return 2

if __name__ == '__main__':
    sys.exit(main())
