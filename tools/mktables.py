#!/usr/bin/env python3
"""regenerates the machine-made tables of DESIGN.md section 7 (between the AUTOGEN markers) from units/, props.json, known_findings.json, seeded/"""
import json, os, re, glob
ROOT = os.path.dirname(os.path.dirname(os.path.abspath(__file__)))
def J(p): return json.load(open(os.path.join(ROOT, p)))
units = {f[:-5]: J('units/' + f) for f in sorted(os.listdir(os.path.join(ROOT, 'units'))) if f.endswith('.json')}
props = J('props.json'); kf = J('known_findings.json')
out = []
out.append('#### Units (ready = used by checks)\n')
out.append('| unit | source files | real functions verified | opaque (assumed contract, signature checked) | serves | known findings |')
out.append('|---|---|---|---|---|---|')
for n, u in units.items():
    if not u.get('ready'): continue
    files = sorted(set(e[0] for e in u.get('functions', [])))
    nk = len([f for f in kf['findings'] if f.get('unit') == n])
    out.append('| %s | %s | %d | %d | %s | %s |' % (n, ', '.join(files), len(u.get('functions', [])), len(u.get('opaque', [])), ' '.join(u.get('serves', u.get('primary', []))), nk or '-'))
out.append('\n#### Properties\n')
out.append('| property | level | units | Kani harnesses (quick+thorough) | not decided (reported in evidence, never counted) |')
out.append('|---|---|---|---|---|')
for p in sorted(props):
    P = props[p]; us = P['units'] if P['units'] != '*' else 'all ready units'
    out.append('| %s | %s | %s | %d | %s |' % (p, P.get('level'), ', '.join(us) if isinstance(us, list) else us, len(P.get('kx', [])), '; '.join(P.get('not_decided', []))[:400]))
out.append('\n#### Known findings (genuine defects recorded, not repaired) - %d\n' % len(kf['findings']))
out.append('| property | unit / function | obligation (tag) | what fails |')
out.append('|---|---|---|---|')
for f in kf['findings']:
    out.append('| %s%s | %s / %s | %s | %s |' % (f.get('property'), (' (+' + ','.join(f.get('also', [])) + ')') if f.get('also') else '', f.get('unit'), f.get('fn') or f.get('harness'), f.get('match', ''), (f.get('what') or '').replace('|', '/')[:260]))
out.append('\n#### Repaired defects (`fix:` commits in /repo)\n')
for l in kf['fixed']: out.append('- ' + l)
out.append('\n#### Seeded changes (confirmed in scratch worktrees) and which check reports them\n')
out.append('| seed | what it changes | result of the property\'s quick check |')
out.append('|---|---|---|')
res = J('seeded/results.json') if os.path.exists(os.path.join(ROOT, 'seeded/results.json')) else {}
for d in sorted(glob.glob(os.path.join(ROOT, 'seeded', 'C*_*'))):
    n = os.path.basename(d)
    try: m = json.load(open(os.path.join(d, 'meta.json')))
    except Exception: continue
    what = re.sub(r'\s+', ' ', m.get('breaks', ''))[:230].replace('|', '/')
    out.append('| %s | %s | %s |' % (n, what, res.get(n, 'not yet evaluated')))
txt = '\n'.join(out) + '\n'
p = os.path.join(ROOT, 'DESIGN.md'); s = open(p).read()
a, b = '<!-- AUTOGEN:BEGIN -->', '<!-- AUTOGEN:END -->'
if a in s: s = s[:s.index(a) + len(a)] + '\n' + txt + s[s.index(b):]
else: s += '\n' + a + '\n' + txt + b + '\n'
open(p, 'w').write(s); print('tables written:', len(out), 'lines')
