#!/usr/bin/env python3
"""evalseeds.py [names...]: run every stored seed against its property's quick check (on a scratch copy) and record the outcome in seeded/results.json"""
import json, os, subprocess, sys, glob, re
ROOT = os.path.dirname(os.path.dirname(os.path.abspath(__file__)))
rp = os.path.join(ROOT, 'seeded', 'results.json')
res = json.load(open(rp)) if os.path.exists(rp) else {}
jobs = 1
if '--jobs' in sys.argv:
    k_ = sys.argv.index('--jobs'); jobs = int(sys.argv[k_ + 1]); del sys.argv[k_:k_ + 2]
names = sys.argv[1:] or sorted(os.path.basename(d) for d in glob.glob(os.path.join(ROOT, 'seeded', 'C*_*')))
def one(n):
    prop = n.split('_')[0]
    extra = json.load(open(os.path.join(ROOT, 'seeded', n, 'meta.json'))).get('also_check', [])
    r = subprocess.run(['python3', os.path.join(ROOT, 'tools', 'seedtest.py'), os.path.join(ROOT, 'seeded', n, 'patch.diff'), prop] + extra + ['--show'], capture_output=True, text=True, cwd=ROOT)
    lines = [l for l in r.stdout.split('\n') if l.strip()]
    rc = {}
    for l in lines:
        m = re.match(r'(C\d\d) rc=(\d)', l)
        if m: rc[m.group(1)] = int(m.group(2))
    obl = [l.strip() for l in lines if l.startswith('       ')]
    verdict = 'CAUGHT' if any(v == 1 for v in rc.values()) else ('UNDECIDED (exit 2)' if any(v == 2 for v in rc.values()) else 'MISSED (exit 0)')
    return n, '%s by %s: %s' % (verdict, ','.join(k for k, v in rc.items() if v == 1) or ','.join(rc), '; '.join(o[:110] for o in obl[:2]))
from concurrent.futures import ThreadPoolExecutor
with ThreadPoolExecutor(max_workers=jobs) as ex:
    for n, v in ex.map(one, names):
        res[n] = v; print(n, v[:200], flush=True); json.dump(res, open(rp, 'w'), indent=1)
