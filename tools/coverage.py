#!/usr/bin/env python3
"""coverage.py: which functions of /repo/datasketches/src are under contract (verified / opaque) in some ready unit, per file.
used by ./check to fill evidence.coverage.not_under_contract for the files a property is anchored in"""
import os, re, json, sys
HERE = os.path.dirname(os.path.abspath(__file__)); ROOT = os.path.dirname(HERE)
sys.path.insert(0, HERE)
import vxlib as X
SRC = '/repo/datasketches/src/'
def fns_of_file(path):
    """[(qualified name, line)] for every non-test fn with a body"""
    try: src = open(path).read()
    except OSError: return []
    m = X.mask(src)
    cut = m.find('#[cfg(test)]')
    if cut >= 0: m = m[:cut]
    out = []
    impls = []
    for mm in re.finditer(r'\bimpl\b[^{;]*\{', m):
        o = mm.end() - 1
        try: c = X.match_brace(m, o)
        except ValueError: continue
        head = m[mm.start():o]
        t = re.search(r'\bfor\s+([A-Za-z_0-9]+)', head) or re.search(r'impl(?:\s*<[^>]*>)?\s+([A-Za-z_0-9]+)', head)
        impls.append((o, c, t.group(1) if t else '?'))
    for mm in re.finditer(r'\bfn\s+([A-Za-z_0-9]+)', m):
        s = mm.start(); name = mm.group(1)
        ty = next((t for o, c, t in impls if o < s < c), None)
        depth = m.count('{', 0, s) - m.count('}', 0, s)
        if depth > (1 if ty else 0): continue      # nested fn
        out.append(((ty + '::' if ty else '') + name, src.count('\n', 0, s) + 1))
    return out
def under_contract(repo_src=SRC):
    cov = {}
    for f in sorted(os.listdir(os.path.join(ROOT, 'units'))):
        if not f.endswith('.json'): continue
        u = json.load(open(os.path.join(ROOT, 'units', f)))
        if not u.get('ready'): continue
        for ent in u.get('functions', []):
            real = (ent[2] if len(ent) > 2 else {}).get('real', ent[1])
            cov.setdefault((ent[0], real), []).append((f[:-5], 'verified'))
        for ent in u.get('opaque', []):
            cov.setdefault((ent[0], ent[1]), []).append((f[:-5], 'opaque'))
    return cov
def kani_covers():
    try: return {k: v for k, v in json.load(open(os.path.join(ROOT, 'kani', 'covers.json'))).items() if not k.startswith('_')}
    except (OSError, ValueError): return {}
def report(files):
    cov = under_contract(); res = {'verified': 0, 'opaque_only': 0, 'kani_complete_only': 0, 'not_under_contract': []}; kc = kani_covers()
    for rel in files:
        rel = rel.replace('datasketches/src/', '')
        for name, line in fns_of_file(SRC + rel):
            st = cov.get((rel, name)) or cov.get((rel, name.split('::')[-1]))
            if st and any(k == 'verified' for _, k in st): res['verified'] += 1
            elif st: res['opaque_only'] += 1
            elif any(re.search(e['fn'], name) for e in kc.get(rel, [])): res['kani_complete_only'] += 1
            else: res['not_under_contract'].append('%s:%d %s' % (rel, line, name))
    return res
if __name__ == '__main__':
    props = {json.loads(l)['id']: json.loads(l) for l in open(os.path.join(ROOT, 'properties.jsonl'))}
    for p in [a for a in sys.argv[1:] if not a.startswith("-")] or sorted(props):
        r = report(props[p]['anchors'].get('files', []))
        print(p, 'verified', r['verified'], 'opaque-only', r['opaque_only'], 'not under contract', len(r['not_under_contract']))
        if '-v' in sys.argv: print('   ' + '\n   '.join(r['not_under_contract']))
