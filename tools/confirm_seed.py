#!/usr/bin/env python3
"""confirm_seed.py <worktree> <property> <k> : confirm a seeded change in its scratch worktree (compiles, existing suite still passes,
demo fails with the change and passes without), then store it under /verif/seeded/<property>_<k>/ with meta.json"""
import sys, os, subprocess, json, shutil, re
ROOT = os.path.dirname(os.path.dirname(os.path.abspath(__file__)))
wt, prop, k = sys.argv[1], sys.argv[2], sys.argv[3]
env = dict(os.environ, CARGO_TARGET_DIR=os.path.join(wt, 'target'), CARGO_NET_OFFLINE='true')
base = json.load(open('/root/.vp/BASELINE.json'))
always_fail = set(x.split('::')[-1] for x in base['always_fail'])
def sh(cmd, **kw): return subprocess.run(cmd, shell=True, cwd=wt, env=env, capture_output=True, text=True, **kw)
patch = os.path.join(wt, 'seed_%s.patch' % k); demo = os.path.join(wt, 'seed_%s_demo.rs' % k); txt = os.path.join(wt, 'seed_%s.txt' % k)
sh('git checkout -- . ; rm -f datasketches/tests/seed_demo.rs')
demo_src = open(demo).read()
first = demo_src.split('\n')[0]
internal = None
m = re.search(r'(datasketches/src/\S+\.rs)', first) if ('append' in first.lower() or 'cfg(test)' in demo_src[:400]) else None
if m and 'use datasketches::' not in demo_src: internal = m.group(1)
def run_demo():
    if internal:
        p = os.path.join(wt, internal); orig = open(p).read(); open(p, 'a').write('\n' + demo_src + '\n')
        r = sh('cargo test -p datasketches --offline --lib seed 2>&1 | tail -30'); 
        out = r.stdout
        # restore the appended part only
        cur = open(p).read(); open(p, 'w').write(cur.replace('\n' + demo_src + '\n', ''))
        return out
    shutil.copy(demo, os.path.join(wt, 'datasketches/tests/seed_demo.rs'))
    r = sh('cargo test -p datasketches --offline --test seed_demo 2>&1 | tail -30'); os.remove(os.path.join(wt, 'datasketches/tests/seed_demo.rs')); return r.stdout
res = {'property': prop, 'seed': k}
out_clean = run_demo(); res['demo_without_change'] = 'passes' if re.search(r'test result: ok', out_clean) else 'FAILS'
a = sh('git apply %s' % patch); res['applies'] = a.returncode == 0
suite = sh('cargo test --workspace --no-fail-fast --offline 2>&1')
failed = set(re.findall(r'^test (\S+) \.\.\. FAILED', suite.stdout, re.M)); failed = set(x.split('::')[-1] for x in failed)
res['compiles'] = 'error: could not compile' not in suite.stdout
res['new_suite_failures'] = sorted(failed - always_fail)
out_seeded = run_demo(); res['demo_with_change'] = 'fails' if re.search(r'test result: FAILED|panicked', out_seeded) else 'PASSES'
sh('git checkout -- .')
ok = res['applies'] and res['compiles'] and not res['new_suite_failures'] and res['demo_without_change'] == 'passes' and res['demo_with_change'] == 'fails'
res['confirmed'] = ok
print(json.dumps(res))
if ok:
    d = os.path.join(ROOT, 'seeded', '%s_%s' % (prop, k)); os.makedirs(d, exist_ok=True)
    shutil.copy(patch, os.path.join(d, 'patch.diff')); shutil.copy(demo, os.path.join(d, 'demo.rs'))
    meta = {'property': prop, 'breaks': open(txt).read() if os.path.exists(txt) else '', 'demo_kind': 'internal #[cfg(test)] module appended to %s' % internal if internal else 'integration test (datasketches/tests/)',
            'confirmed_by': 'tools/confirm_seed.py in a scratch worktree of /repo: git apply; cargo test --workspace --no-fail-fast --offline (no failure outside BASELINE always_fail); demo fails with the change, passes without', 'result': res}
    json.dump(meta, open(os.path.join(d, 'meta.json'), 'w'), indent=1)
