#!/usr/bin/env python3
"""setup: nothing to build (pure python + installed verus/kani); sanity-check the tools and warm Verus once"""
import shutil, subprocess, sys, os, tempfile
ok = True
for t in ('verus', 'cargo'):
    if not shutil.which(t): print('missing tool', t); ok = False
d = tempfile.mkdtemp(prefix='vx_setup_')
open(os.path.join(d, 'w.rs'), 'w').write('use vstd::prelude::*;\nverus!{ proof fn t() ensures 1 + 1 == 2int {} }\nfn main(){}\n')
p = subprocess.run(['verus', os.path.join(d, 'w.rs')], capture_output=True, text=True)
print(p.stdout.strip()[-200:])
shutil.rmtree(d, ignore_errors=True)
os.makedirs(os.path.join(os.path.dirname(os.path.dirname(os.path.abspath(__file__))), 'replays'), exist_ok=True)
sys.exit(0 if ok and p.returncode == 0 else 1)
