#!/usr/bin/env python3
"""benigntest.py <patch>... : apply each behaviour-preserving patch to a scratch copy of /repo's sources and run every ready VX unit
that extracts something from a changed file (vx.py run <unit> --repo <copy>).  Prints one line per patch: ok | ALARM | undecided.
Kani harnesses are not run here (use tools/seedtest.py <patch> <Cxx> for those)."""
import sys, os, json, re, subprocess, tempfile, shutil, glob
ROOT = os.path.dirname(os.path.dirname(os.path.abspath(__file__)))
def units_for(files):
    out = []
    for uf in sorted(glob.glob(os.path.join(ROOT, 'units', '*.json'))):
        u = json.load(open(uf))
        if not u.get('ready'): continue
        used = set(e[0] for k in ('functions', 'items', 'opaque') for e in u.get(k, []))
        if used & files: out.append(os.path.basename(uf)[:-5])
    return out
def main():
    rc = 0
    for patch in sys.argv[1:]:
        patch = os.path.abspath(patch)
        files = set(re.findall(r'^\+\+\+ b/datasketches/src/(\S+)', open(patch).read(), re.M))
        d = tempfile.mkdtemp(prefix='benign_', dir='/tmp')
        try:
            os.makedirs(os.path.join(d, 'datasketches'))
            shutil.copytree('/repo/datasketches/src', os.path.join(d, 'datasketches/src'))
            p = subprocess.run(['patch', '-p1', '-s', '-i', patch], cwd=d, capture_output=True, text=True)
            if p.returncode != 0: print(patch, 'PATCH FAILED', p.stdout, p.stderr); rc = 2; continue
            verdict = 'ok'; lines = []
            for u in units_for(files):
                def run(repo):
                    r = subprocess.run([sys.executable, os.path.join(ROOT, 'tools/vx.py'), 'run', u, '--repo', repo, '--json'], capture_output=True, text=True, cwd=ROOT)
                    try: return json.loads(r.stdout[r.stdout.index('{'):])
                    except Exception: return {'status': 'tool-error', 'failures': [], 'problems': [r.stdout[-300:] + r.stderr[-300:]]}
                key = lambda f: (f.get('fn'), f.get('kind'), f.get('tag') or (f.get('clause') or '')[:80])
                base = run('/repo'); cur = run(d)
                bk = set(key(f) for f in base.get('failures') or [])
                newf = [key(f) for f in (cur.get('failures') or []) if key(f) not in bk and f.get('kind') == 'definite']
                und = [key(f) for f in (cur.get('failures') or []) if key(f) not in bk and f.get('kind') != 'definite']
                if newf: verdict = 'ALARM'
                elif und or cur['status'] not in ('ok', 'failed') or cur.get('problems'):
                    if verdict == 'ok': verdict = 'undecided'
                lines.append('    %s status=%s new_failures=%s problems=%s' % (u, cur['status'], newf[:5], [str(x)[:160] for x in (cur.get('problems') or [])][:3]))
            print('%s %s' % (os.path.relpath(patch, ROOT), verdict))
            for l in lines:
                if 'new_failures=[]' not in l or 'problems=[]' not in l: print(l)
        finally:
            shutil.rmtree(d, ignore_errors=True)
    return rc
sys.exit(main())
