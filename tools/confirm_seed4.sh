#!/bin/bash
# confirm_seed4.sh <prop> : confirm round-4 seeds of /tmp/seed4_<prop> and store them as seeded/<prop>_10..12
p=$1
for k in 1 2 3; do
  n=$((k+9))
  [ -f /tmp/seed4_$p/seed_$k.patch ] || continue
  cp /tmp/seed4_$p/seed_$k.patch /tmp/seed4_$p/seed_$n.patch; cp /tmp/seed4_$p/seed_${k}_demo.rs /tmp/seed4_$p/seed_${n}_demo.rs; cp /tmp/seed4_$p/seed_$k.txt /tmp/seed4_$p/seed_$n.txt
  CARGO_BUILD_JOBS=4 python3 /verif/tools/confirm_seed.py /tmp/seed4_$p $p $n
done
