#!/bin/bash
# confirm_seed2.sh <prop> : confirm round-2 seeds of /tmp/seed2_<prop> and store them as seeded/<prop>_4..6
p=$1
for k in 1 2 3; do
  n=$((k+3))
  cp /tmp/seed2_$p/seed_$k.patch /tmp/seed2_$p/seed_$n.patch; cp /tmp/seed2_$p/seed_${k}_demo.rs /tmp/seed2_$p/seed_${n}_demo.rs; cp /tmp/seed2_$p/seed_$k.txt /tmp/seed2_$p/seed_$n.txt
  python3 /verif/tools/confirm_seed.py /tmp/seed2_$p $p $n
done
