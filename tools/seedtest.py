#!/usr/bin/env python3
"""seedtest.py <patch.diff> <Cxx> [Cyy ...] [--all]  : apply a seeded change to a scratch COPY of /repo, run the named checks against it, clean up.
Prints one line per check: property, exit code, VIOLATION/UNDECIDED lines."""
import sys, os, subprocess, tempfile, shutil, json
ROOT = os.path.dirname(os.path.dirname(os.path.abspath(__file__)))
def main():
    patch = os.path.abspath(sys.argv[1]); props = [a for a in sys.argv[2:] if not a.startswith('--')]
    if '--all' in sys.argv: props = sorted(json.load(open(os.path.join(ROOT, 'props.json'))))
    d = tempfile.mkdtemp(prefix='seedeval_', dir='/tmp')
    try:
        os.makedirs(os.path.join(d, 'datasketches'))
        shutil.copytree('/repo/datasketches/src', os.path.join(d, 'datasketches/src'))
        shutil.copy('/repo/Cargo.lock', d)
        p = subprocess.run(['patch', '-p1', '-s', '-i', patch], cwd=d, capture_output=True, text=True)
        if p.returncode != 0: print('PATCH FAILED', p.stdout, p.stderr); return 2
        rc_all = 0
        for pr in props:
            r = subprocess.run([os.path.join(ROOT, 'check'), pr, '--repo', d] + (['--tier', 'thorough'] if '--thorough' in sys.argv else []), cwd=ROOT, capture_output=True, text=True, env=dict(os.environ, VX_EVIDENCE_DIR=os.path.join(d, 'ev')))
            lines = [l for l in r.stdout.split('\n') if l.startswith(('VIOLATION', 'UNDECIDED', 'KNOWN-FINDING'))]
            print('%s rc=%d %s' % (pr, r.returncode, ' | '.join(l[:200] for l in lines[:4])))
            if '--show' in sys.argv:
                for l in lines:
                    if l.startswith('VIOLATION'):
                        rp = l.split('replay=')[1].split()[0]
                        try:
                            j = json.load(open(rp)); print('      ', j['obligation'][:220])
                        except Exception: pass
            rc_all = max(rc_all, r.returncode)
        return rc_all
    finally:
        shutil.rmtree(d, ignore_errors=True)
sys.exit(main())
