#!/usr/bin/env python3
"""VX library: locate real items in /repo, normalise them (drop list + rewrite table of DESIGN.md 2.1), erase the ghost
text of an annotated snapshot (overlay), check that what is left is the real code token for token, rebase the ghost runs onto
the current real code, and emit a single-file Verus unit with an origin map."""
import re, difflib, json, os

# ------------------------------------------------------------------ tokens
class Tok(str):
    """a token that remembers the /repo line it came from (None for synthesised tokens)"""
    line = None
    def __new__(cls, s, line=None):
        o = str.__new__(cls, s); o.line = line; return o

TOK = re.compile(r"""
    (?P<ws>\s+)|(?P<lc>//[^\n]*)|(?P<bc>/\*.*?\*/)|
    (?P<rstr>b?r(?P<h>\#*)".*?"(?P=h))|
    (?P<str>b?"(?:\\.|[^"\\])*")|
    (?P<chr>b?'(?:\\.[^']*|[^'\\])')|
    (?P<life>'[A-Za-z_][A-Za-z0-9_]*)|
    (?P<num>\d[\dA-Za-z_]*(?:\.\d[\dA-Za-z_]*|\.(?![\.A-Za-z_]))?)|
    (?P<id>[A-Za-z_][A-Za-z0-9_]*(?:!(?![=]))?)|
    (?P<op><<=|>>=|\.\.=|\.\.\.|=~~=|=~=|!==|===|==>|<==>|<==|::|->|=>|==|!=|<=|>=|&&&|\|\|\||&&|\|\||<<|>>|\+=|-=|\*=|/=|%=|\^=|&=|\|=|\.\.|[-+*/%^!&|=<>@.,;:\#$?~(){}\[\]])
""", re.X | re.S)

def tokens(src, base_line=1):
    out = []; i = 0; line = base_line
    while i < len(src):
        m = TOK.match(src, i)
        if not m: raise ValueError('tokenize at %r' % src[i:i + 40])
        g = m.lastgroup; s = m.group()
        if g not in ('ws', 'lc', 'bc') or (g == 'bc' and s.startswith('/*@')):
            # `ident!` is a macro name only when followed by ( [ {  ; otherwise `!` is an operator
            if g == 'id' and s.endswith('!'):
                j = m.end()
                while j < len(src) and src[j] in ' \t\n': j += 1
                if j >= len(src) or src[j] not in '([{':
                    out.append(Tok(s[:-1], line)); out.append(Tok('!', line)); line += s.count('\n'); i = m.end(); continue
            out.append(Tok(s, line))
        line += s.count('\n'); i = m.end()
    return out

def emit(toks):
    """token list -> text; newline after ; { } and before tags"""
    parts = []
    for t in toks:
        if t.startswith('/*@'): parts.append('\n')
        parts.append(t)
        parts.append('\n' if t in (';', '{', '}') else ' ')
    return ''.join(parts)

def emit_with_lines(toks):
    """returns (text, origin) where origin[k] = /repo line of the first real token on emitted line k (0-based) or None"""
    lines = [[]]
    for t in toks:
        if t.startswith('/*@') and lines[-1]: lines.append([])
        lines[-1].append(t)
        if t in (';', '{', '}'): lines.append([])
    if not lines[-1]: lines.pop()
    text = '\n'.join(' '.join(l) for l in lines) + '\n'
    origin = []
    for l in lines:
        o = None
        for t in l:
            if getattr(t, 'line', None) is not None: o = t.line; break
        origin.append(o)
    return text, origin

# ------------------------------------------------------------------ locating items in Rust / Verus text
def scan_spans(src):
    i, n, out = 0, len(src), []
    while i < n:
        c = src[i]
        if src.startswith('//', i):
            j = src.find('\n', i); j = n if j < 0 else j
            out.append(('lc', i, j)); i = j
        elif src.startswith('/*', i):
            depth, j = 1, i + 2
            while j < n and depth:
                if src.startswith('/*', j): depth += 1; j += 2
                elif src.startswith('*/', j): depth -= 1; j += 2
                else: j += 1
            out.append(('bc', i, j)); i = j
        elif c == '"' or (c in 'br' and re.match(r'(b?r#*"|b")', src[i:i + 8]) and (i == 0 or not (src[i - 1].isalnum() or src[i - 1] == '_'))):
            m = re.match(r'b?r(#*)"', src[i:i + 8])
            if m:
                close = '"' + m.group(1); j = src.find(close, i + m.end()); j = n if j < 0 else j + len(close)
            else:
                j = i + (2 if c == 'b' else 1)
                while j < n and src[j] != '"':
                    j += 2 if src[j] == '\\' else 1
                j += 1
            out.append(('str', i, j)); i = j
        elif c == "'":
            m = re.match(r"'(\\.[^']*|[^'\\])'", src[i:i + 12])
            if m: out.append(('chr', i, i + m.end())); i += m.end()
            else: i += 1
        else:
            i += 1
    return out

def mask(src):
    b = list(src)
    for k, s, e in scan_spans(src):
        for i in range(s, e):
            if b[i] != '\n': b[i] = ' '
    return ''.join(b)

def match_brace(m, open_idx):
    depth = 0
    for i in range(open_idx, len(m)):
        if m[i] == '{': depth += 1
        elif m[i] == '}':
            depth -= 1
            if depth == 0: return i
    raise ValueError('unbalanced')

def find_impl_blocks(m, ty):
    for mm in re.finditer(r'\bimpl\b[^{;]*?\b%s\b[^{;]*\{' % re.escape(ty), m):
        o = mm.end() - 1
        yield mm.start(), o, match_brace(m, o)

class LostAnchor(Exception):
    pass

def match_close(toks, i):
    pair = {'(': ')', '[': ']', '{': '}'}; o = toks[i]; c = pair[o]; d = 0
    for k in range(i, len(toks)):
        if toks[k] == o: d += 1
        elif toks[k] == c:
            d -= 1
            if d == 0: return k
    raise ValueError('unbalanced')

CLAUSE_KW = ('requires', 'ensures', 'invariant', 'invariant_except_break', 'decreases', 'recommends', 'no_unwind', 'opens_invariants', 'returns', 'default_ensures')

def body_open(ts, i):
    """ts[i] == 'fn'; index of the `{` opening the function body (skipping if/else/match blocks inside clauses); None for a
    declaration ended by `;`"""
    k = i + 2; d = 0
    while k < len(ts):
        t = ts[k]
        if t in '([': d += 1
        elif t in ')]': d -= 1
        elif t == ';' and d == 0: return None
        elif t == '{' and d == 0:
            j = k - 1; dd = 0; prev_kw = None; passed_block = False
            while j > i:
                if ts[j] in ')]}': dd += 1
                elif ts[j] in '([{':
                    dd -= 1
                    if dd == 0 and ts[j] == '{': passed_block = True
                if dd == 0 and (ts[j] in ('if', 'match', 'else', ',') or ts[j] in CLAUSE_KW): prev_kw = ts[j]; break
                j -= 1
            if (prev_kw in ('if', 'match') and not passed_block) or ts[k - 1] == 'else':
                k = match_close(ts, k) + 1; continue
            return k
        k += 1
    return None

def fn_span_in(src, lo, hi, name, base_line_of=None):
    """locate `fn name` in src[lo:hi] at brace depth 0 relative to lo; returns (start_of_fn_kw, end_after_body, tokens)"""
    m = mask(src)
    for mm in re.finditer(r'\bfn\s+%s\b' % re.escape(name), m[lo:hi]):
        start = lo + mm.start()
        # depth relative to lo must be 0 (not a nested fn of another function)
        depth = m.count('{', lo, start) - m.count('}', lo, start)
        if depth != 0: continue
        base = src.count('\n', 0, start) + 1
        ts = tokens(src[start:hi], base)
        o = body_open(ts, 0)
        if o is None: continue
        c = match_close(ts, o)
        ts = ts[:c + 1]
        # byte end: re-scan
        i = start; n = 0
        while n < len(ts):
            mt = TOK.match(src, i)
            g = mt.lastgroup
            if g not in ('ws', 'lc', 'bc') or (g == 'bc' and mt.group().startswith('/*@')):
                s = mt.group()
                if g == 'id' and s.endswith('!'):
                    j = mt.end()
                    while j < len(src) and src[j] in ' \t\n': j += 1
                    n += 1 if (j < len(src) and src[j] in '([{') else 2
                else: n += 1
            i = mt.end()
        return start, i, ts
    return None

def locate_fn(src, path):
    """path = 'Type::fn' or 'fn' or 'Type::fn#2' (second impl match); returns (start, end, tokens)"""
    m = mask(src)
    if '::' in path:
        ty, fn = path.split('::')
        for s0, o, e in find_impl_blocks(m, ty):
            r = fn_span_in(src, o + 1, e, fn)
            if r: return r
        raise LostAnchor('fn %s' % path)
    # free function: depth 0 in file, or inside `verus! {` (depth 1)
    for mm in re.finditer(r'\bfn\s+%s\b' % re.escape(path), m):
        start = mm.start()
        depth = m.count('{', 0, start) - m.count('}', 0, start)
        head = m[:start]
        in_verus = bool(re.search(r'verus!\s*\{', head)) and depth == 1
        if depth != 0 and not in_verus: continue
        # reject methods in impl at depth 0? (depth 0 means top-level)
        base = src.count('\n', 0, start) + 1
        ts = tokens(src[start:], base)
        o = body_open(ts, 0)
        if o is None: continue
        c = match_close(ts, o); ts = ts[:c + 1]
        i = start; n = 0
        while n < len(ts):
            mt = TOK.match(src, i); g = mt.lastgroup
            if g not in ('ws', 'lc', 'bc') or (g == 'bc' and mt.group().startswith('/*@')):
                s = mt.group()
                if g == 'id' and s.endswith('!'):
                    j = mt.end()
                    while j < len(src) and src[j] in ' \t\n': j += 1
                    n += 1 if (j < len(src) and src[j] in '([{') else 2
                else: n += 1
            i = mt.end()
        return start, i, ts
    raise LostAnchor('fn %s' % path)

def locate_item(src, kw, name):
    """const/static/struct/enum/type: returns (start_of_kw, end) byte span"""
    m = mask(src)
    for mm in re.finditer(r'\b%s\s+%s\b' % (kw, re.escape(name)), m):
        start = mm.start()
        depth = m.count('{', 0, start) - m.count('}', 0, start)
        has_verus = bool(re.search(r'verus!\s*\{', m[:start]))
        # top level, inside `verus! {`, or an associated const of an impl block at either level
        if depth > (2 if has_verus else 1): continue
        o = m.find('{', start); semi = m.find(';', start)
        if kw in ('const', 'static', 'type') or (0 <= semi and (o < 0 or semi < o)):
            return start, semi + 1
        return start, match_brace(m, o) + 1
    raise LostAnchor('%s %s' % (kw, name))

# ------------------------------------------------------------------ drop list + rewrite table on REAL tokens
ASSERT_MACROS = ('assert_eq!', 'assert_ne!', 'debug_assert_eq!', 'debug_assert_ne!', 'assert!', 'debug_assert!')
MSG_MACROS = ('unreachable!', 'panic!', 'unimplemented!', 'todo!')

def split_args(toks, j):
    """toks[j] is an opening bracket: returns (args, close_index) with args split at top-level commas"""
    d = 0; args = [[]]; k = j
    while True:
        tk = toks[k]
        if tk in '([{': d += 1
        if tk in ')]}': d -= 1
        if d == 0: break
        if d == 1 and tk == ',': args.append([])
        elif not (k == j): args[-1].append(tk)
        k += 1
    return [a for a in args if a], k

def normalize(toks):
    """drop list: `pub`/`pub(..)`, attributes listed in DESIGN, message arguments of assert-like macros; R12."""
    out = []; i = 0
    while i < len(toks):
        t = toks[i]
        if t == 'pub':
            i += 1
            if i < len(toks) and toks[i] == '(': i = match_close(toks, i) + 1
            continue
        if t == '#' and i + 2 < len(toks) and toks[i + 1] == '[' and toks[i + 2] in ('derive', 'inline', 'allow', 'track_caller', 'rustfmt', 'must_use', 'doc', 'cfg_attr', 'expect', 'cold'):
            i = match_close(toks, i + 1) + 1; continue
        if t in ASSERT_MACROS and i + 1 < len(toks) and toks[i + 1] == '(':
            args, k = split_args(toks, i + 1)
            if t.endswith('_eq!') or t.endswith('_ne!'):
                op = '==' if t.endswith('_eq!') else '!='
                out += [Tok(t.replace('_eq', '').replace('_ne', ''), t.line), Tok('(', t.line)] + args[0] + [Tok(op, t.line)] + args[1] + [Tok(')', t.line)]
            else:
                out += [t, toks[i + 1]] + args[0] + [toks[k]]
            i = k + 1; continue
        if t in MSG_MACROS and i + 1 < len(toks) and toks[i + 1] == '(':
            k = match_close(toks, i + 1)
            out += [t, toks[i + 1], toks[k]]; i = k + 1; continue
        if t == '.' and i + 2 < len(toks) and toks[i + 1] == 'expect' and toks[i + 2] == '(':
            k = match_close(toks, i + 2)
            out += [t, toks[i + 1], toks[i + 2], Tok('""', t.line), toks[k]]; i = k + 1; continue
        out.append(t); i += 1
    return out

def strip_suffix(expr, suf):
    return expr[:-len(suf)] if len(expr) >= len(suf) and list(expr[-len(suf):]) == suf else None

def T(s, line=None):
    return [Tok(x, line) for x in s.split()]

def rewrite_loops(toks, user_iters=(), force_r1b=(), by_ref_loops=(), keep_for=()):
    """R1 family, canonical output; loop ordinal k counts every `for` of the function in source order."""
    n_loop = [0]
    def rw(ts):
        res = []; i = 0
        while i < len(ts):
            if ts[i] == 'for' and not (i > 0 and ts[i - 1] in ('impl', '>')):
                L = ts[i].line
                j = i + 1; d = 0
                while not (ts[j] == 'in' and d == 0):
                    d += ts[j] in '([{'; d -= ts[j] in ')]}'; j += 1
                pat = ts[i + 1:j]
                k = j + 1; d = 0
                while not (ts[k] == '{' and d == 0):
                    d += ts[k] in '(['; d -= ts[k] in ')]'; k += 1
                expr = ts[j + 1:k]; e = match_close(ts, k)
                n_loop[0] += 1; q = str(n_loop[0])
                body = rw(ts[k + 1:e])
                is_range = any(t in ('..', '..=') for t in expr)
                if int(q) in keep_for:
                    # a `for` Verus accepts verbatim (e.g. `a.iter_mut().zip(&b)`): kept as written
                    res += [ts[i]] + pat + [ts[j]] + expr + [ts[k]] + body + [ts[e]]
                    i = e + 1; continue
                rev = strip_suffix(expr, ['.', 'rev', '(', ')'])
                if is_range and rev is not None and rev[0] == '(' and rev[-1] == ')':
                    inner = rev[1:-1]; dd = 0
                    for z, tk in enumerate(inner):
                        dd += tk in '([{'; dd -= tk in ')]}'
                        if tk == '..' and dd == 0: lo, hi = inner[:z], inner[z + 1:]; break
                    N, Lo = 'vx_n' + q, 'vx_lo' + q
                    res += T('let mut %s =' % N, L) + hi + T('; let %s =' % Lo, L) + lo + T('; while %s > %s { %s -= 1 ; let' % (N, Lo, N), L) + pat + T('= %s ;' % N, L) + body + T('}', L)
                    i = e + 1; continue
                itm = strip_suffix(expr, ['.', 'iter_mut', '(', ')'])
                if (not is_range) and itm is not None:
                    I = 'vx_i' + q
                    res += T('let mut %s = 0 ; while %s <' % (I, I), L) + itm + T('. len ( ) { let', L) + pat + T('= & mut', L) + itm + T('[ %s ] ;' % I, L) + body + T('%s += 1 ; }' % I, L)
                    i = e + 1; continue
                if is_range:
                    if ('continue' in body or int(q) in force_r1b) and pat != ['_']:
                        # R1b: for i in A..B { .. continue .. }
                        dd = 0
                        for z, tk in enumerate(expr):
                            dd += tk in '([{'; dd -= tk in ')]}'
                            if tk == '..' and dd == 0: lo, hi = expr[:z], expr[z + 1:]; break
                        N, En = 'vx_n' + q, 'vx_end' + q
                        res += T('let mut %s =' % N, L) + lo + T('; let %s =' % En, L) + hi + T('; while %s < %s { let' % (N, En), L) + pat + T('= %s ; %s += 1 ;' % (N, N), L) + body + T('}', L)
                        i = e + 1; continue
                    if pat == ['_']: pat = T('vx_u' + q, L)
                    res += [ts[i]] + pat + [ts[j]] + expr + [ts[k]] + body + [ts[e]]
                    i = e + 1; continue
                # user iterators (R10): for P in E  (E's type has a hand-written next()) -> loop/match
                if any(list(expr[-len(u):]) == u for u in user_iters if len(expr) >= len(u)):
                    It = 'vx_it' + q
                    res += T('let mut %s =' % It, L) + expr + T('; loop { match %s . next ( ) { Some (' % It, L) + pat + T(') => {', L) + body + T('} None => { break ; } } }', L)
                    i = e + 1; continue
                S, I = 'vx_s' + q, 'vx_i' + q
                enum = strip_suffix(expr, ['.', 'enumerate', '(', ')'])
                if enum is not None: expr = enum
                copied = False
                for suf in (['.', 'iter', '(', ')', '.', 'copied', '(', ')'], ['.', 'iter', '(', ')']):
                    st = strip_suffix(expr, suf)
                    if st is not None: expr = st; copied = 'copied' in suf; break
                if expr[0] == '&': expr = expr[1:]
                if enum is not None:
                    assert pat[0] == '(' and pat[-1] == ')'
                    iv = pat[1]; xpat = pat[3:-1]
                else:
                    iv = None; xpat = pat
                # the items of a slice iterator are references: `&x` / `.copied()` bind the value, a plain pattern binds `&S[i]`
                by_ref = int(q) in by_ref_loops   # type-dependent (iterating a slice reference with a plain pattern): declared per loop in the unit file
                xv = [t for t in xpat if t != '&']
                bind = (T('let', L) + [iv] + T('= %s ;' % I, L)) if iv is not None else []
                bind += T('let', L) + xv + T('=', L) + (T('&', L) if by_ref else []) + T('%s [ %s ] ;' % (S, I), L)
                inc = T('%s += 1 ;' % I, L)
                has_continue = 'continue' in body
                is_place = len(expr) % 2 == 1 and all((t == '.' if z % 2 else (t.isidentifier() or t.isdigit())) for z, t in enumerate(expr))
                if is_place:
                    nb = []
                    for t in bind: nb += (list(expr) if t == S else [t])
                    bind = nb
                    res += T('let mut %s = 0 ; while %s <' % (I, I), L) + expr + T('. len ( ) {', L) + bind
                else:
                    res += T('let %s =' % S, L) + expr + T('; let mut %s = 0 ; while %s < %s . len ( ) {' % (I, I, S), L) + bind
                res += (inc + body) if has_continue else (body + inc)
                res += T('}', L)
                i = e + 1
            else:
                res.append(ts[i]); i += 1
        return res
    return rw(toks)

LE_FNS = ('from_le_bytes', 'from_be_bytes', 'to_le_bytes', 'to_be_bytes', 'from_bits', 'to_bits')
PRIMS = ('u8', 'u16', 'u32', 'u64', 'u128', 'usize', 'i8', 'i16', 'i32', 'i64', 'i128', 'isize', 'f32', 'f64')

def simple_rewrites(ts, opts=None):
    """R2 (.map_err(insufficient_data(T)) -> .vx_io(T)), R4 (uN::from_le_bytes(A) -> vx_uN_from_le_bytes(A)), R11 (path prefixes)."""
    opts = opts or {}
    drop_paths = set(opts.get('drop_path_prefixes', [])) | {'super', 'crate'}
    out = []; i = 0; n = len(ts)
    while i < n:
        t = ts[i]
        if ts[i:i + 3] == ['.', 'map_err', '('] and i + 4 < n and ts[i + 3] in ('insufficient_data', 'make_error') and ts[i + 4] == '(':
            close = match_close(ts, i + 4)
            out += T('. vx_io (', t.line) + ts[i + 5:close] + T(')', t.line); i = match_close(ts, i + 2) + 1; continue
        if t in PRIMS and i + 3 < n and ts[i + 1] == '::' and ts[i + 2] in ('from_le_bytes', 'from_be_bytes', 'from_bits') and ts[i + 3] == '(':
            out.append(Tok('vx_%s_%s' % (t, ts[i + 2]), t.line)); i += 3; continue
        # R11: leading path segments that only name modules of the flat unit
        if t in drop_paths and i + 1 < n and ts[i + 1] == '::' and (not out or out[-1] != '::' or True):
            # drop `seg ::` repeatedly while seg is a module segment
            if not (out and out[-1] == '::' and t not in drop_paths):
                i += 2; continue
        if t == 'Self' and i + 2 < n and ts[i + 1] == '::' and ts[i + 2] not in ('Item', 'Output', 'Error') and (i + 3 >= n or ts[i + 3] != '{') and not opts.get('keep_self_paths'):
            nx = ts[i + 2]
            free = opts.get('free_fns')
            # `Self::CONST` always; `Self::f(` only when the overlay has `f` as a free function (an associated fn of the real code
            # that the flat unit holds at module level); a method that the overlay keeps inside the impl stays `Self::f`
            if nx.upper() == nx or (nx[0].islower() and (free is None or nx in free)):
                i += 2; continue
        out.append(t); i += 1
    return out

def rewrite_ref_cmp(ts):
    """R9: `X == & E` / `X != & E`  ->  `* X == E` for simple identifier X (value == &CONST)"""
    out = []; i = 0
    while i < len(ts):
        if ts[i] in ('==', '!=') and i + 1 < len(ts) and ts[i + 1] == '&' and out and out[-1].isidentifier() and out[-1] not in ('self',) and (len(out) < 2 or out[-2] not in ('.',)):
            x = out.pop(); out += [Tok('*', x.line), x, ts[i]]; i += 2; continue
        out.append(ts[i]); i += 1
    return out

def apply_expr_rewrites(ts, rules):
    """unit-declared expression rewrites (R13/R14/R15/R16/R17/R6/R7/R8...): each rule = {from: "rust tokens", to: "tokens"}; every
    occurrence in the function is replaced.  `from` may contain $1..$9 wildcards matching one balanced token group up to the next literal token."""
    for rule in rules:
        pat = [str(x) for x in tokens(rule['from'])]; rep = [str(x) for x in tokens(rule['to'])]
        out = []; i = 0; count = 0
        while i < len(ts):
            binds = {}; k = i; ok = True; pi = 0
            while pi < len(pat):
                p = pat[pi]
                if p == '$' and pi + 1 < len(pat) and pat[pi + 1].isdigit():
                    nxt = pat[pi + 2] if pi + 2 < len(pat) else None
                    d = 0; s = k
                    while k < len(ts):
                        if d == 0 and ts[k] == nxt: break
                        if ts[k] in '([{': d += 1
                        elif ts[k] in ')]}':
                            if d == 0: break
                            d -= 1
                        k += 1
                    if k == s or (nxt is not None and (k >= len(ts) or ts[k] != nxt)): ok = False; break
                    binds[pat[pi + 1]] = ts[s:k]; pi += 2; continue
                if k >= len(ts) or ts[k] != p: ok = False; break
                k += 1; pi += 1
            if ok:
                L = ts[i].line; ri = 0
                # a wildcard group that the replacement DROPS (format arguments of an error message, ...) and that contains arithmetic:
                # remembered, so that a changed function whose dropped text could overflow/index is not silently accepted
                used = set(rep[k_ + 1] for k_ in range(len(rep) - 1) if rep[k_] == '$')
                for bk, btoks in binds.items():
                    if bk not in used and any(str(t) in ('-', '+', '*', '/', '%', '<<', '>>', '[') for t in btoks):
                        rule.setdefault('_dropped', []).append(' '.join(str(t) for t in btoks)[:200])
                while ri < len(rep):
                    if rep[ri] == '$' and ri + 1 < len(rep) and rep[ri + 1].isdigit(): out += binds[rep[ri + 1]]; ri += 2
                    else: out.append(Tok(rep[ri], L)); ri += 1
                i = k; count += 1
            else:
                out.append(ts[i]); i += 1
        ts = out
        rule['_count'] = rule.get('_count', 0) + count
    return ts

def real_pipeline(ts, unit, path):
    """everything that is done to the real tokens of one function before they are compared / emitted"""
    ts = normalize(ts)
    ts = simple_rewrites(ts, unit.get('rewrite_opts'))
    if unit.get('r9', False): ts = rewrite_ref_cmp(ts)
    rules = [r for r in unit.get('expr_rewrites', []) if r.get('fn') in (None, path, '*')]
    pre = [r for r in rules if r.get('stage') == 'pre']
    post = [r for r in rules if r.get('stage') != 'pre']
    ts = apply_expr_rewrites(ts, pre)
    ui = [[str(x) for x in tokens(u)] for u in unit.get('user_iters', [])]
    ts = rewrite_loops(ts, ui, tuple(unit.get('force_r1b', {}).get(path, [])), tuple(unit.get('r1_by_ref', {}).get(path, [])), tuple(unit.get('keep_for', {}).get(path, [])))
    ts = apply_expr_rewrites(ts, post)
    return ts

# ------------------------------------------------------------------ the eraser (overlay -> real tokens + ghost runs)
def clause_end(ts, i):
    k = i; d = 0
    while True:
        t = ts[k]
        if t in '([': d += 1
        elif t in ')]': d -= 1
        elif t == '{' and d == 0:
            j = k - 1; dd = 0; prev_kw = None; passed_block = False
            while j >= i:
                if ts[j] in ')]}': dd += 1
                elif ts[j] in '([{':
                    dd -= 1
                    if dd == 0 and ts[j] == '{': passed_block = True
                if dd == 0 and (ts[j] in ('if', 'match', 'else', ',') or ts[j] in CLAUSE_KW): prev_kw = ts[j]; break
                j -= 1
            if (prev_kw in ('if', 'match') and not passed_block) or ts[k - 1] == 'else': k = match_close(ts, k) + 1; continue
            return k
        k += 1

def erase(ts):
    E = []; G = [[]]
    def ghost(toks): G[-1].extend(toks)
    def real(tok): E.append(tok); G.append([])
    i = 0; n = len(ts)
    while i < n:
        t = ts[i]
        if t.startswith('/*@'): ghost([t]); i += 1; continue
        if t == '#' and i + 2 < n and ts[i + 1] == '[' and ts[i + 2] in ('verifier', 'trigger', 'verus_spec'):
            j = match_close(ts, i + 1) + 1; ghost(ts[i:j]); i = j; continue
        if t == '#' and i + 3 < n and ts[i + 1] == '!' and ts[i + 2] == '[' and ts[i + 3] in ('trigger', 'auto'):
            j = match_close(ts, i + 2) + 1; ghost(ts[i:j]); i = j; continue
        if t in CLAUSE_KW and t not in ('returns',):
            j = clause_end(ts, i); ghost(ts[i:j]); i = j; continue
        if t == 'proof' and i + 1 < n and ts[i + 1] == '{':
            j = match_close(ts, i + 1) + 1; ghost(ts[i:j]); i = j; continue
        if t == 'let' and i + 1 < n and ts[i + 1] in ('ghost', 'tracked'):
            j = i; d = 0
            while not (ts[j] == ';' and d == 0): d += ts[j] in '([{'; d -= ts[j] in ')]}'; j += 1
            ghost(ts[i:j + 1]); i = j + 1; continue
        if t in ('hide', 'reveal', 'reveal_with_fuel') and i + 1 < n and ts[i + 1] == '(' and (not E or E[-1] in ('{', ';', '}')):
            j = match_close(ts, i + 1) + 1
            if j < n and ts[j] == ';': j += 1
            ghost(ts[i:j]); i = j; continue
        if t in ('assert', 'assume') and i + 1 < n and ts[i + 1] in ('(', 'forall'):
            j = i + 1; d = 0
            while True:
                if ts[j] in '([{': d += 1
                elif ts[j] in ')]}':
                    d -= 1
                    if d == 0 and ts[j] == '}' and 'by' in ts[i:j]: j += 1; break
                elif ts[j] == ';' and d == 0: j += 1; break
                j += 1
            if j < n and ts[j] == ';' and ts[j - 1] == '}': j += 1
            ghost(ts[i:j]); i = j; continue
        if t == '|' and (not E or E[-1] in ('(', ',', '=', 'return', '{', ';', '=>')):
            j = i + 1; real(t)
            while ts[j] != '|':
                if ts[j] == ':':
                    k = j; d = 0
                    while not (d == 0 and ts[k] in (',', '|')): d += ts[k] in '<(['; d -= ts[k] in '>)]'; k += 1
                    ghost(ts[j:k]); j = k
                else: real(ts[j]); j += 1
            real(ts[j]); j += 1
            if ts[j] == '->' and ts[j + 1] == '(':
                close = match_close(ts, j + 1); k = close + 1
                if ts[k] in CLAUSE_KW: k = clause_end(ts, k)
                assert ts[k] == '{'
                end = match_close(ts, k)
                ghost(ts[j:k + 1])
                inner, ig = erase(ts[k + 1:end])
                for idx, tok in enumerate(inner): ghost(ig[idx]); real(tok)
                ghost(ig[len(inner)]); ghost([ts[end]])
                i = end + 1; continue
            i = j; continue
        if t == '->' and i + 3 < n and ts[i + 1] == '(' and ts[i + 3] == ':' and ts[i + 2].isidentifier() and ts[i + 2] not in PRIMS:
            real(t); ghost(ts[i + 1:i + 4]); close = match_close(ts, i + 1)
            for tok in ts[i + 4:close]: real(tok)
            ghost([ts[close]]); i = close + 1; continue
        if t == 'in' and i + 2 < n and ts[i + 2] == ':' and ts[i + 1].isidentifier() and E and 'for' in E[-8:]:
            # Verus `for x in it: expr` names the ghost iterator: `it :` is ghost
            real(t); ghost(ts[i + 1:i + 3]); i += 3; continue
        if t in ('Ghost', 'Tracked') and i + 1 < n and ts[i + 1] == '(':
            j = match_close(ts, i + 1) + 1
            if j < n and ts[j] == ':':
                j += 1; d = 0
                while not (d == 0 and ts[j] in (',', ')')): d += ts[j] in '<('; d -= ts[j] in '>)'; j += 1
            if j < n and ts[j] == ',': ghost(ts[i:j + 1]); i = j + 1; continue
            if E and E[-1] == ',' and not G[-1]:
                c = E.pop(); G.pop(); ghost([c])
            ghost(ts[i:j]); i = j; continue
        real(t); i += 1
    return E, G

def drop_ghost_else(E, G):
    out_e = []; out_g = [[]]; i = 0
    while i < len(E):
        if E[i] == 'else' and i + 2 < len(E) and E[i + 1] == '{' and E[i + 2] == '}':
            out_g[-1] += G[i] + [E[i]] + G[i + 1] + [E[i + 1]] + G[i + 2] + [E[i + 2]]; i += 3; continue
        # ghost-only `if c { }` statement with no else (a guard hint, rule 16): `if` ... `{` `}` whose block is empty after erasure and
        # whose condition is pure -- kept as ghost only when written inside `proof {}`; a bare one is real code and stays.
        out_g[-1] += G[i]; out_e.append(E[i]); out_g.append([]); i += 1
    out_g[-1] += G[len(E)]
    return out_e, out_g

def erase_fn(ts):
    E, G = erase(normalize(ts))
    return drop_ghost_else(E, G)

def strs(ts):
    return [str(t) for t in ts]

def rebase(snapshot, ghost_before, current):
    """ghost runs attached to snapshot tokens are moved onto `current` (real tokens now); returns (tokens, n_edits, edits)"""
    if strs(snapshot) == strs(current):
        toks = []
        for k, t in enumerate(current): toks += ghost_before[k] + [t]
        toks += ghost_before[len(snapshot)]
        return toks, 0, []
    # the closing brace of the function is pinned to the closing brace of the function (a flat diff of a flipped if/else may
    # otherwise match it to an inner `}` and push the trailing proof block behind the end of the function)
    if len(snapshot) > 1 and len(current) > 1 and str(snapshot[-1]) == '}' and str(current[-1]) == '}':
        _sm = difflib.SequenceMatcher(a=strs(snapshot)[:-1], b=strs(current)[:-1], autojunk=False)
        _ops = _sm.get_opcodes()
        na, nb = len(snapshot) - 1, len(current) - 1
        if _ops and _ops[-1][0] == 'equal': _ops[-1] = ('equal', _ops[-1][1], na + 1, _ops[-1][3], nb + 1)
        else: _ops.append(('equal', na, na + 1, nb, nb + 1))
        class _SM:
            def get_opcodes(self_): return list(_ops)
        sm = _SM()
    else:
        sm = difflib.SequenceMatcher(a=strs(snapshot), b=strs(current), autojunk=False)
    # a consistently renamed local (every `old` became `new`, `old` no longer occurs) is renamed in the ghost text too
    ren = {}; bad = set()
    KW_ = {'let', 'mut', 'if', 'else', 'for', 'while', 'loop', 'in', 'match', 'return', 'break', 'continue', 'as', 'fn', 'ref', 'move', 'self', 'Self', 'true', 'false', 'unsafe', 'where', 'impl', 'dyn', 'const', 'static'}
    for tag, a0, a1, b0, b1 in sm.get_opcodes():
        if tag == 'replace' and a1 - a0 == b1 - b0:
            # a rename run replaces identifiers by identifiers and nothing else: `* bufbits -=` -> `let codeword_len =` is an
            # inserted statement that happens to have the same length, not a rename of bufbits
            if not all(str(x) == str(y) or (x.isidentifier() and y.isidentifier() and str(x) not in KW_ and str(y) not in KW_) for x, y in zip(snapshot[a0:a1], current[b0:b1])): continue
            for x, y in zip(snapshot[a0:a1], current[b0:b1]):
                if x.isidentifier() and y.isidentifier() and not x[0].isupper():
                    if ren.get(str(x), str(y)) != str(y): bad.add(str(x))
                    ren[str(x)] = str(y)
    cur_set = set(strs(current)); snap_set = set(strs(snapshot))
    cand = {x: y for x, y in ren.items() if x not in bad and y not in snap_set}
    cur_vars = set(t for i_, t in enumerate(strs(current)) if not (i_ > 0 and strs(current)[i_ - 1] == '.'))
    ren = {x: y for x, y in cand.items() if x not in cur_vars}
    # a new real name that is already used by a ghost local / binder of this function would capture it: alpha-rename the ghost one first
    # (not when the ghost name is called like a function or is part of a path)
    for y in set(cand.values()):
        occ = [(run, i_) for run in ghost_before for i_, t in enumerate(run) if str(t) == y and not (i_ > 0 and str(run[i_ - 1]) == '.')]
        if not occ: continue
        if any((i_ + 1 < len(run) and str(run[i_ + 1]) in ('(', '::')) or (i_ > 0 and str(run[i_ - 1]) == '::') for run, i_ in occ): continue
        ghost_before = [[Tok(y + '_vxg') if (str(t) == y and not (i_ > 0 and str(run[i_ - 1]) == '.')) else t for i_, t in enumerate(run)] for run in ghost_before]
    # (a ghost identifier in call position `x (` is a spec fn that happens to share the local's name: not renamed)
    if ren: ghost_before = [[Tok(ren[str(t)] if (str(t) in ren and not (i_ > 0 and str(run[i_ - 1]) == '.') and not (i_ + 1 < len(run) and str(run[i_ + 1]) == '(')) else str(t)) for i_, t in enumerate(run)] for run in ghost_before]
    # a name that was renamed in one scope only (e.g. the index of one of two loops that both use `i`): rename the ghost text
    # from the first renamed occurrence to the end of the block enclosing the last one
    sa_ = strs(snapshot)
    for x, y in cand.items():
        if x in ren: continue
        pos = [a0 + k for tag, a0, a1, b0, b1 in sm.get_opcodes() if tag == 'replace' and a1 - a0 == b1 - b0 for k in range(a1 - a0) if sa_[a0 + k] == x]
        if not pos: continue
        lo, hi = min(pos), max(pos)
        # every occurrence of x inside [lo, hi] must have been renamed
        if any(sa_[k] == x and k not in pos and not (k > 0 and sa_[k - 1] == '.') for k in range(lo, hi + 1)): continue
        d = 0; end = hi
        for k in range(hi, len(sa_)):
            if sa_[k] == '{': d += 1
            elif sa_[k] == '}':
                if d == 0: end = k; break
                d -= 1
        if any(sa_[k] == x and not (k > 0 and sa_[k - 1] == '.') for k in range(hi + 1, end + 1)): continue
        for k in range(lo, min(end + 1, len(ghost_before))):
            run_ = ghost_before[k]
            ghost_before[k] = [Tok(y if (str(t) == x and not (i_ > 0 and str(run_[i_ - 1]) == '.')) else str(t)) for i_, t in enumerate(run_)]
    ops = sm.get_opcodes()
    # moved blocks (e.g. the two branches of a flipped if/else, a hoisted statement): a run of >= 5 tokens that was deleted in one
    # place and inserted verbatim in another keeps its ghost runs
    del_idx = [k for tag, a0, a1, b0, b1 in ops if tag in ('delete', 'replace') for k in range(a0, a1)]
    ins_idx = [k for tag, a0, a1, b0, b1 in ops if tag in ('insert', 'replace') for k in range(b0, b1)]
    moved = {}; taken_a = set()
    sa, sb = strs(snapshot), strs(current)
    if del_idx and ins_idx:
        for mb in difflib.SequenceMatcher(a=[sa[k] for k in del_idx], b=[sb[k] for k in ins_idx], autojunk=False).get_matching_blocks():
            if mb.size >= 5:
                for k in range(mb.size):
                    moved[ins_idx[mb.b + k]] = del_idx[mb.a + k]; taken_a.add(del_idx[mb.a + k])
    # a moved `{` carries its matching `}` (and the ghost run in front of it, typically the proof at the end of the block) with it,
    # whatever the flat alignment did with the closing braces
    for bi, ai in list(moved.items()):
        if sb[bi] == '{' and sa[ai] == '{':
            try: cb, ca = match_close(sb, bi), match_close(sa, ai)
            except ValueError: continue
            if moved.get(cb) != ca:
                prev = moved.get(cb)
                if prev is not None: taken_a.discard(prev)
                # another new token may already hold `ca`: release it
                for k_, v_ in list(moved.items()):
                    if v_ == ca and k_ != cb: del moved[k_]
                moved[cb] = ca; taken_a.add(ca)
    items = []; pending = []; edits = []          # items: ('g', ghost run) | ('r', real token)
    def G_(run):
        if run: items.append(('g', list(run)))
    for tag, a0, a1, b0, b1 in ops:
        if tag == 'equal':
            for k in range(a1 - a0):
                for r_ in pending: G_(r_)
                pending = []
                if (b0 + k) in moved: G_(ghost_before[moved[b0 + k]])
                elif (a0 + k) not in taken_a: G_(ghost_before[a0 + k])
                items.append(('r', current[b0 + k]))
        else:
            edits.append({'op': tag, 'was': ' '.join(snapshot[a0:a1]), 'now': ' '.join(current[b0:b1]),
                          'line': next((t.line for t in current[b0:b1] if getattr(t, 'line', None)), None)})
            for k in range(a0, a1):
                if k not in taken_a and ghost_before[k]: pending.append(ghost_before[k])
            for bi in range(b0, b1):
                if bi in moved: G_(ghost_before[moved[bi]])
                items.append(('r', current[bi]))
    for r_ in pending: G_(r_)
    G_(ghost_before[len(snapshot)])
    # statement-level ghost (proof blocks, ghost lets, asserts) must sit at a statement boundary: when the token it was attached
    # to was edited (renamed, or tokens inserted before it) the run would land in mid-statement; move it back to the
    # nearest preceding boundary (after `;` `{` `}`)
    STMT = ('proof', 'assert', 'let', 'hide', 'reveal', 'reveal_with_fuel', 'else')
    i_ = 0
    while i_ < len(items):
        kind, val = items[i_]
        if kind == 'g' and str(val[0]) in STMT:
            j = i_
            while j > 0 and items[j - 1][0] == 'g': j -= 1       # skip ghost neighbours
            if j > 0 and str(items[j - 1][1]) not in (';', '{', '}'):
                d = 0; k = j - 1
                while k >= 0:
                    if items[k][0] == 'r':
                        t_ = str(items[k][1])
                        if t_ in (')', ']'): d += 1
                        elif t_ in ('(', '['): d -= 1
                        elif t_ in (';', '{', '}') and d <= 0: break
                    k -= 1
                if k >= 0:
                    run = items.pop(i_)
                    kk = k + 1
                    while kk < len(items) and items[kk][0] == 'g' and kk < i_: kk += 1   # after ghost runs already at that boundary
                    items.insert(kk, run)
        i_ += 1
    toks = []
    for kind, val in items:
        if kind == 'g': toks += val
        else: toks.append(val)
    return toks, len(edits), edits

# ------------------------------------------------------------------ directed normalisation of restructured control flow (R30-R33)
# When the current function differs from the snapshot, a small set of SOUND, purely syntactic control-flow rewrites is tried on
# the CURRENT tokens; one is kept only when it brings the function closer (token LCS distance) to the snapshot.  What Verus then
# checks is the rewritten form of the current code; every applied rule is recorded (`normalized_by`) in the unit result.
#   R30a  `if C { return; } REST }`            -> `if !(C) { REST } }`              (unit fn, the `if` is a statement of the fn body)
#   R30b  `if C { BODY } }` (last stmt of fn)  -> `if !(C) { return; } BODY }`      (unit fn, no else)
#   R30c  `if C { X; return; } REST }`         -> `if C { X } else { REST } }`      (unit fn; `}` closes a block that runs to the fn end)
#   R30d  `if C { continue; } REST }`          -> `if !(C) { REST } }`              (`}` closes the body of a for / while / loop; R30e is the reverse)
#   R31a  `if A { if B { X } }`                -> `if A && B { X }`                 (no else on either, no `let` in A or B)
#   R31b  `if A && B { X }`                    -> `if A { if B { X } }`             (no else, split at a top-level &&)
#   R32a  `match E { P => X, Q => Y }`         -> `if let P = E { X } else { Y }`   (two arms, no guards, Q binds nothing)
#   R32b  `if let P = E { X } else { Y }`      -> `match E { P => { X } _ => { Y } }`
#   R33a  `loop { if C { break; } B }`         -> `while !(C) { B }`
#   R33b  `while C { B }`                      -> `loop { if !(C) { break; } B }`   (C without `let`)
#   R34   `A op B`                             -> `B op' A`                         (comparison with swapped operands; simple operands only)
# `!(C)` is simplified only where that is exact for every type: `!(!X)` = X for an operator-free X, `!(a == b)` = `a != b`.
_BINOPS = ('&&', '||', '==', '!=', '<', '>', '<=', '>=', '+', '-', '*', '/', '%', '&', '|', '^', '<<', '>>', '=', 'as', '..', '..=', '?')

def _top_level(ts):
    """indices of tokens of ts at bracket depth 0"""
    d = 0; out = []
    for i, t in enumerate(ts):
        if t in ('(', '[', '{'): d += 1
        elif t in (')', ']', '}'): d -= 1
        elif d == 0: out.append(i)
    return out

def _neg(c):
    c = list(c); top = _top_level(c)
    ops = [i for i in top if c[i] in _BINOPS]
    if c and c[0] == '!' and not [i for i in ops if i > 0] and 'let' not in c: return c[1:]
    if c and not ops and c[0] != '!' and 'let' not in c: return [Tok('!')] + c
    if len(ops) == 1 and c[ops[0]] in ('==', '!=') :
        i = ops[0]; return c[:i] + [Tok('!=' if c[i] == '==' else '==', getattr(c[i], 'line', None))] + c[i + 1:]
    return [Tok('!'), Tok('(')] + c + [Tok(')')]

def _cond_end(ts, i):
    """ts[i] in ('if','while','match'); index of the `{` that opens its block"""
    d = 0; k = i + 1
    while k < len(ts):
        t = ts[k]
        if t in ('(', '['): d += 1
        elif t in (')', ']'): d -= 1
        elif t == '{' and d == 0: return k
        k += 1
    return None

def _stmt_start(ts, i):
    return i > 0 and ts[i - 1] in (';', '{', '}')

def _enclosing_open(ts, i):
    d = 0
    for k in range(i - 1, -1, -1):
        if ts[k] == '}': d += 1
        elif ts[k] == '{':
            if d == 0: return k
            d -= 1
    return None

def _tail_block(ts, o, bo):
    """the block opened at ts[o] runs to the end of the function: it is the fn body, or a branch of an if/else statement that is the
    last statement of a block which itself runs to the end of the function (so falling out of it == `return;` in a unit fn)"""
    for _ in range(12):
        if o == bo: return True
        c = match_close(ts, o)
        # the whole if / else-if / else chain this block belongs to must end right before the `}` of its enclosing block
        e = c
        while e + 1 < len(ts) and ts[e + 1] == 'else':
            k = e + 2
            if ts[k] == 'if':
                k = _cond_end(ts, k)
                if k is None: return False
            if ts[k] != '{': return False
            e = match_close(ts, k)
        if e + 1 >= len(ts) or ts[e + 1] != '}': return False
        # and it must be an `if`/`else` block (not a loop / match arm / closure)
        j = o - 1; d = 0
        while j >= 0:
            if ts[j] in (')', ']'): d += 1
            elif ts[j] in ('(', '['): d -= 1
            elif d == 0 and ts[j] in (';', '{', '}', 'if', 'else', 'while', 'for', 'loop', 'match', '=>', '|'): break
            j -= 1
        if j < 0 or ts[j] not in ('if', 'else'): return False
        if ts[j] == 'if' and j + 1 < len(ts) and ts[j + 1] == 'let': pass
        o = _enclosing_open(ts, o)
        if o is None: return False
    return False

def _is_loop_body(ts, o):
    """ts[o] == '{' opens the body of a for / while / loop"""
    j = o - 1; d = 0
    while j >= 0:
        if ts[j] in (')', ']'): d += 1
        elif ts[j] in ('(', '['): d -= 1
        elif d == 0 and ts[j] in (';', '{', '}', 'if', 'else', 'while', 'for', 'loop', 'match', '=>', '|'): break
        j -= 1
    return j >= 0 and ts[j] in ('while', 'for', 'loop')

def _is_unit_fn(ts, bo):
    return '->' not in [str(t) for t in ts[:bo]]

def _norm_candidates(ts):
    ts = list(ts); n = len(ts)
    try: bo = body_open(ts, 0)
    except Exception: bo = None
    if bo is None: return
    try: bc = match_close(ts, bo)
    except ValueError: return
    unit_fn = _is_unit_fn(ts, bo)
    for i in range(bo, n):
        t = ts[i]
        try:
            if t == 'if' and _stmt_start(ts, i) and (i + 1 < n and ts[i + 1] != 'let'):
                o = _cond_end(ts, i)
                if o is None: continue
                c = match_close(ts, o); cond = ts[i + 1:o]; body = ts[o + 1:c]
                has_else = c + 1 < n and ts[c + 1] == 'else'
                enc = _enclosing_open(ts, i)
                if not has_else and unit_fn and enc is not None and _tail_block(ts, enc, bo):
                    ec = match_close(ts, enc)
                    if [str(x) for x in body] == ['return', ';']:                                      # R30a
                        yield 'R30a', ts[:i] + [ts[i]] + _neg(cond) + [ts[o]] + ts[c + 1:ec] + [ts[c]] + ts[ec:]
                    elif [str(x) for x in body[-2:]] == ['return', ';'] and c + 1 < ec:                # R30c
                        yield 'R30c', ts[:i] + ts[i:o + 1] + body[:-2] + [ts[c], Tok('else'), Tok('{')] + ts[c + 1:ec] + [Tok('}')] + ts[ec:]
                    if c + 1 == ec:                                                                    # R30b
                        yield 'R30b', ts[:i] + [ts[i]] + _neg(cond) + [ts[o], Tok('return'), Tok(';'), ts[c]] + body + ts[ec:]
                if not has_else and enc is not None and _is_loop_body(ts, enc):
                    ec = match_close(ts, enc)
                    if [str(x) for x in body] == ['continue', ';']:                                    # R30d
                        yield 'R30d', ts[:i] + [ts[i]] + _neg(cond) + [ts[o]] + ts[c + 1:ec] + [ts[c]] + ts[ec:]
                    if c + 1 == ec and 'continue' not in [str(x) for x in ts[enc:i]]:                  # R30e
                        yield 'R30e', ts[:i] + [ts[i]] + _neg(cond) + [ts[o], Tok('continue'), Tok(';'), ts[c]] + body + ts[ec:]
                if not has_else and 'let' not in cond:
                    if body and body[0] == 'if' and (len(body) > 1 and body[1] != 'let'):              # R31a
                        o2 = _cond_end(body, 0)
                        if o2 is not None and match_close(body, o2) == len(body) - 1 and 'let' not in body[1:o2]:
                            def par(x):
                                return [Tok('(')] + list(x) + [Tok(')')] if any(x[k] in ('||', '=', '..', '..=') for k in _top_level(x)) else list(x)
                            yield 'R31a', ts[:i + 1] + par(cond) + [Tok('&&')] + par(body[1:o2]) + body[o2:] + ts[c + 1:]
                    for k in _top_level(cond):                                                          # R31b
                        if cond[k] == '&&' and not any(cond[m] == '||' for m in _top_level(cond)):
                            yield 'R31b', ts[:i + 1] + cond[:k] + [ts[o], Tok('if')] + cond[k + 1:] + [Tok('{')] + body + [Tok('}'), ts[c]] + ts[c + 1:]
            if t == 'if' and i + 1 < n and ts[i + 1] == 'let' and (_stmt_start(ts, i) or ts[i - 1] in ('=', 'return', '=>')):   # R32b
                o = _cond_end(ts, i)
                if o is None: continue
                c = match_close(ts, o); head = ts[i + 2:o]
                eqs = [k for k in _top_level(head) if head[k] == '=']
                if not eqs: continue
                pat, scrut = head[:eqs[0]], head[eqs[0] + 1:]
                if c + 1 < n and ts[c + 1] == 'else':
                    if ts[c + 2] != '{': continue
                    c2 = match_close(ts, c + 2); els = ts[c + 2:c2 + 1]; end = c2 + 1
                else:
                    els = [Tok('{'), Tok('}')]; end = c + 1
                yield 'R32b', ts[:i] + [Tok('match')] + scrut + [Tok('{')] + pat + [Tok('=>')] + ts[o:c + 1] + [Tok('_'), Tok('=>')] + els + [Tok('}')] + ts[end:]
            if t == 'match' and (_stmt_start(ts, i) or ts[i - 1] in ('=', 'return', '=>')):                                     # R32a
                o = _cond_end(ts, i)
                if o is None: continue
                c = match_close(ts, o); inner = ts[o + 1:c]
                arms = []; k = 0; ok = True
                while k < len(inner):
                    tl = [m for m in _top_level(inner[k:]) if inner[k + m] == '=>']
                    if not tl: ok = False; break
                    a = k + tl[0]; pat = inner[k:a]
                    if a + 1 < len(inner) and inner[a + 1] == '{':
                        e = match_close(inner, a + 1); arm = inner[a + 1:e + 1]; k = e + 1
                        if k < len(inner) and inner[k] == ',': k += 1
                    else:
                        rest = inner[a + 1:]; cm = [m for m in _top_level(rest) if rest[m] == ',']
                        e = (a + 1 + cm[0]) if cm else len(inner)
                        ex = inner[a + 1:e]
                        semi = [Tok(';')] if any(ex[m] in ('=', '+=', '-=', '*=', '/=', '|=', '&=', '^=', '<<=', '>>=', '%=') for m in _top_level(ex)) else []
                        arm = [Tok('{')] + ex + semi + [Tok('}')]; k = e + 1
                    arms.append((pat, arm))
                if not ok or len(arms) != 2: continue
                (p1, a1), (p2, a2) = arms
                if 'if' in p1 or 'if' in p2: continue
                binds = [x for x in p2 if re.match(r'^[a-z_][a-z0-9_]*$', x) and x != '_']
                if binds: continue
                yield 'R32a', ts[:i] + [Tok('if'), Tok('let')] + p1 + [Tok('=')] + ts[i + 1:o] + a1 + [Tok('else')] + a2 + ts[c + 1:]
            if t == 'loop' and i + 1 < n and ts[i + 1] == '{' and _stmt_start(ts, i):                                            # R33a
                o = i + 1; c = match_close(ts, o)
                if ts[o + 1] == 'if' and ts[o + 2] != 'let':
                    o2 = _cond_end(ts, o + 1); c2 = match_close(ts, o2)
                    if [str(x) for x in ts[o2 + 1:c2]] == ['break', ';'] and not (c2 + 1 < n and ts[c2 + 1] == 'else'):
                        yield 'R33a', ts[:i] + [Tok('while')] + _neg(ts[o + 2:o2]) + [ts[o]] + ts[c2 + 1:]
            if t == 'while' and _stmt_start(ts, i) and ts[i + 1] != 'let':                                                     # R33b
                o = _cond_end(ts, i)
                if o is None: continue
                yield 'R33b', ts[:i] + [Tok('loop'), ts[o], Tok('if')] + _neg(ts[i + 1:o]) + [Tok('{'), Tok('break'), Tok(';'), Tok('}')] + ts[o + 1:]
        except (ValueError, IndexError):
            continue

_FLIP = {'<': '>', '>': '<', '<=': '>=', '>=': '<=', '==': '==', '!=': '!='}
_ATOM = re.compile(r'^(?:[A-Za-z_][A-Za-z0-9_]*|\d[\dA-Za-z_]*(?:\.\d[\dA-Za-z_]*|\.)?)$')

def _swap_candidates(ts):
    """R34: `A op B` -> `B op' A` for a comparison whose operands are simple (identifier / literal / field / path / call / index chains)
    and which is delimited on both sides by tokens that cannot belong to a larger operand.  Exact for every type (IEEE included)."""
    n = len(ts)
    for i in range(1, n - 1):
        if ts[i] not in _FLIP: continue
        # left operand
        j = i - 1
        try:
            while j >= 0:
                t = ts[j]
                if t in (')', ']'):
                    d = 0; k = j
                    while k >= 0:
                        if ts[k] in (')', ']'): d += 1
                        elif ts[k] in ('(', '['):
                            d -= 1
                            if d == 0: break
                        k -= 1
                    if k < 0: raise ValueError
                    j = k - 1; continue
                if t in ('.', '::') or (_ATOM.match(t) and t not in ('as', 'if', 'while', 'return', 'in', 'let', 'else', 'match')): j -= 1; continue
                break
            lo = j + 1
            if lo >= i or j < 0 or ts[j] not in ('(', '||', '&&', 'if', 'while', '=', 'return', '{', ';', ',', '!'): continue
            if ts[lo] in ('.', '::') or ts[lo] in ('(', '['): continue
            k = i + 1
            while k < n:
                t = ts[k]
                if t in ('(', '['):
                    k = match_close(ts, k) + 1; continue
                if t in ('.', '::') or (_ATOM.match(t) and t not in ('as', 'if', 'while', 'return', 'in', 'let', 'else', 'match')): k += 1; continue
                break
            hi = k
            if hi <= i + 1 or hi >= n or ts[hi] not in (')', '||', '&&', '{', '}', ';', ',') : continue
            if ts[i + 1] in ('.', '::', '(', '['): continue
            L, R = ts[lo:i], ts[i + 1:hi]
            if any(x in ('<', '>') for x in L + R): continue
            yield 'R34', ts[:lo] + R + [Tok(_FLIP[ts[i]], getattr(ts[i], 'line', None))] + L + ts[hi:]
        except (ValueError, IndexError):
            continue

def _lcs_dist(a, b):
    sm = difflib.SequenceMatcher(a=a, b=b, autojunk=False)
    m = sum(bl.size for bl in sm.get_matching_blocks())
    return (len(a) - m) + (len(b) - m)

def directed_normalize(raw, snap, pipeline, max_steps=6):
    """raw: the real tokens of the function as located in /repo; pipeline: raw tokens -> tokens after drop list / rewrite table.
    The rules are applied to the RAW tokens (before the loop rewrites, so that a `continue` guard does not change the loop form) and
    a candidate is judged by the distance of its pipelined form to the snapshot.  Returns (pipelined tokens, [rule names applied])."""
    raw = list(raw); s = strs(snap); applied = []
    cur = pipeline(raw); best = _lcs_dist(strs(cur), s)
    for _ in range(max_steps):
        if best == 0: break
        pick = None
        import itertools
        for name, cand in itertools.chain(_norm_candidates(raw), _swap_candidates(raw)):
            try: pc = pipeline(cand)
            except Exception: continue
            d = _lcs_dist(strs(pc), s)
            if d < best and (pick is None or d < pick[0]): pick = (d, name, cand, pc)
        if pick is None:
            # two swapped comparisons that only TOGETHER match a rewrite pattern (`0.0 >= t || 1.0 < t` for the shim pattern `$1 <= 0.0 || $1 > 1.0`)
            firsts = list(_swap_candidates(raw))[:24]
            for _, c1 in firsts:
                for _, c2 in list(_swap_candidates(c1))[:24]:
                    try: pc = pipeline(c2)
                    except Exception: continue
                    d = _lcs_dist(strs(pc), s)
                    if d < best and (pick is None or d < pick[0]): pick = (d, 'R34+R34', c2, pc)
            if pick is None: break
        best, name, raw, cur = pick; applied.append(name)
    return cur, applied
