#!/usr/bin/env python3
"""linkcheck.py [-v] [unit ...]: mechanical check of the cross-unit contract links (DESIGN 7.3).

A function that unit A uses as `opaque` (external_body stub with an ASSUMED contract) and unit B verifies (its real body against
B's contract) is a *link*.  Modular soundness needs   requires_A ==> requires_B   and   ensures_B ==> ensures_A.
This tool decides the syntactic sufficient condition, clause by clause on tokens:
    every `ensures` clause assumed in A is one of the clauses proved in B (or a conjunct of one),
    every `requires` clause B's proof needs is one of the clauses A demands of its callers,
    and every spec function / spec method those clauses mention is defined with identical tokens in both overlays (transitively).
Result names are normalised, tags and `#[trigger]` attributes ignored.  Verdict per link:
    proved     the assumed contract is implied clause-for-clause by a proving unit
    differs    some assumed clause has no identical proved clause, or a spec definition differs (listed; the contract stays an assumption)
    assumed    no ready unit verifies the function (a genuine assumption of A)
The result is reported in every evidence file (trusted_base entries of opaque functions carry the verdict)."""
import sys, os, json, re, glob
HERE = os.path.dirname(os.path.abspath(__file__)); ROOT = os.path.dirname(HERE)
sys.path.insert(0, HERE)
import vxlib as X

def _units():
    out = {}
    for f in sorted(glob.glob(os.path.join(ROOT, 'units', '*.json'))):
        u = json.load(open(f))
        if u.get('ready'):
            u['name'] = os.path.basename(f)[:-5]; out[u['name']] = u
    return out

_ov_cache = {}
def _overlay(u):
    p = os.path.join(ROOT, u['overlay'])
    if p not in _ov_cache: _ov_cache[p] = open(p).read()
    return _ov_cache[p]

def _strip(ts):
    out = []; i = 0; ts = [str(t) for t in ts]
    while i < len(ts):
        t = ts[i]
        if t.startswith('/*'): i += 1; continue
        if t == '#' and i + 1 < len(ts) and ts[i + 1] == '[':
            i = X.match_close(ts, i + 1) + 1; continue
        out.append(t); i += 1
    return out

def _split_top(ts):
    """split a clause run at top-level commas (binder lists of forall/exists/choose and closures `|a, b|` are not split)"""
    out = [[]]; d = 0; i = 0
    while i < len(ts):
        t = ts[i]
        if t in ('forall', 'exists', 'choose') and i + 1 < len(ts) and ts[i + 1] == '|':
            j = i + 2
            while j < len(ts) and ts[j] != '|': j += 1
            out[-1].extend(ts[i:j + 1]); i = j + 1; continue
        if t in '([{': d += 1
        elif t in ')]}': d -= 1
        if t == ',' and d == 0: out.append([])
        else: out[-1].append(t)
        i += 1
    return [tuple(c) for c in out if c]

def _conjuncts(c):
    """top-level `&&` / `&&&` conjuncts of a clause (after removing one pair of enclosing parentheses)"""
    c = list(c)
    while c and c[0] == '(' and X.match_close(c, 0) == len(c) - 1: c = c[1:-1]
    out = [[]]; d = 0
    for t in c:
        if t in '([{': d += 1
        elif t in ')]}': d -= 1
        if t in ('&&', '&&&') and d == 0: out.append([])
        else: out[-1].append(t)
    if any(t in ('==>', '<==>', '||', '|||', '<==') for t in c) and len(out) > 1:
        # precedence: `a && b ==> c` is (a && b) ==> c: only split when no weaker operator is at top level
        d = 0
        for t in c:
            if t in '([{': d += 1
            elif t in ')]}': d -= 1
            if d == 0 and t in ('==>', '<==>', '||', '|||', '<=='): return [tuple(c)]
    return [tuple(x) for x in out if x]

def contract_of(ov, path):
    """(requires clauses, ensures clauses, result name) of fn `path` in overlay text"""
    s, e, ts = X.locate_fn(ov, path)
    ts = _strip(ts); bo = X.body_open(ts, 0)
    head = ts[:bo]
    rname = None
    if '->' in head:
        a = head.index('->')
        if a + 2 < len(head) and head[a + 1] == '(' and head[a + 3] == ':': rname = head[a + 2]
    k = next((i for i, t in enumerate(head) if t in X.CLAUSE_KW), len(head))
    clauses = {'requires': [], 'ensures': []}
    cur = None; run = []
    def flush():
        if cur in clauses: clauses[cur].extend(_split_top(run))
    for t in head[k:]:
        if t in X.CLAUSE_KW:
            flush(); cur = t; run = []
        else: run.append(t)
    flush()
    def ren(c): return tuple('vx_r' if (rname and t == rname) else t for t in c)
    return [ren(c) for c in clauses['requires']], [ren(c) for c in clauses['ensures']], rname

_defs_cache = {}
def spec_defs(ov):
    """name -> set of token tuples of every `spec fn name` / `proof fn`-free definition in the overlay (methods included)"""
    if id(ov) in _defs_cache: return _defs_cache[id(ov)]
    m = X.mask(ov); out = {}
    for mm in re.finditer(r'\bspec\s+fn\s+([A-Za-z_0-9]+)', m):
        st = mm.start(); fnpos = m.find('fn', st)
        try:
            ts = X.tokens(ov[fnpos:fnpos + 20000])
            bo = X.body_open(ts, 0)
            if bo is None:
                semi = ts.index(';'); body = ts[:semi + 1]
            else: body = ts[:X.match_close(ts, bo) + 1]
        except Exception: continue
        out.setdefault(mm.group(1), set()).add(tuple(_strip(body)))
    _defs_cache[id(ov)] = out
    return out

def closure_differs(names, ovA, ovB, seen=None):
    """spec names (transitively) whose definition in A has no token-identical definition in B"""
    dA, dB = spec_defs(ovA), spec_defs(ovB); bad = []; seen = seen if seen is not None else set(); todo = list(names)
    while todo:
        n = todo.pop()
        if n in seen or n not in dA: continue
        seen.add(n)
        if n not in dB: bad.append(n + ' (not defined in prover)'); continue
        if not dA[n] <= dB[n]: bad.append(n)
        for d in dA[n]:
            for t in d:
                if t in dA and t not in seen: todo.append(t)
    return bad

def check_links(only=None):
    U = _units(); provers = {}
    for n, u in U.items():
        for e in u['functions']:
            opts = e[2] if len(e) > 2 else {}
            provers.setdefault((e[0], opts.get('real', e[1])), []).append((n, opts.get('overlay', e[1])))
    res = []
    for n, u in sorted(U.items()):
        if only and n not in only: continue
        ovA = _overlay(u)
        for e in u.get('opaque', []):
            key = (e[0], e[1]); opts = e[2] if len(e) > 2 else {}
            rec = {'unit': n, 'fn': e[1], 'file': e[0]}
            ps = [p for p in provers.get(key, []) if p[0] != n]
            if not ps:
                rec['verdict'] = 'assumed'; res.append(rec); continue
            try: reqA, ensA, _ = contract_of(ovA, opts.get('overlay', e[1]))
            except Exception as ex:
                rec['verdict'] = 'differs'; rec['why'] = ['cannot parse stub: %s' % ex]; res.append(rec); continue
            best = None
            for pn, ppath in ps:
                ovB = _overlay(U[pn])
                try: reqB, ensB, _ = contract_of(ovB, ppath)
                except Exception as ex:
                    why = ['cannot parse prover %s: %s' % (pn, ex)]; cand = (len(why), pn, why); best = cand if best is None or cand < best else best; continue
                provedB = set(ensB) | set(c2 for c in ensB for c2 in _conjuncts(c))
                demandedA = set(reqA) | set(c2 for c in reqA for c2 in _conjuncts(c))
                why = []
                for c in ensA:
                    if c in provedB: continue
                    if all(c2 in provedB for c2 in _conjuncts(c)): continue
                    why.append('assumed ensures not proved verbatim: ' + ' '.join(c)[:200])
                for c in reqB:
                    if c in demandedA: continue
                    if all(c2 in demandedA for c2 in _conjuncts(c)): continue
                    why.append('prover requires not demanded by the stub: ' + ' '.join(c)[:200])
                names = set(t for c in list(ensA) + list(reqB) for t in c)
                for b in closure_differs(names, ovA, ovB): why.append('spec definition differs: ' + b)
                cand = (len(why), pn, why)
                if best is None or cand < best: best = cand
            rec['prover'] = best[1]
            rec['verdict'] = 'proved' if best[0] == 0 else 'differs'
            if best[0]: rec['why'] = best[2]
            rec['n_assumed_clauses'] = len(ensA)
            res.append(rec)
    return res

def summary(res):
    from collections import Counter
    return dict(Counter(r['verdict'] for r in res))

def verdict_map():
    """(unit, fn) -> 'proved in <unit>' | 'differs from <unit>' | 'assumed'; used by ./check for the evidence trusted_base"""
    out = {}
    for r in check_links():
        out[(r['unit'], r['fn'])] = ('link proved: contract implied clause-for-clause by unit %s' % r['prover']) if r['verdict'] == 'proved' else \
            ('link NOT mechanical: verified in unit %s under a differently worded contract (%d difference(s))' % (r['prover'], len(r.get('why', []))) if r['verdict'] == 'differs' else 'no unit verifies this function: assumed contract')
    return out

if __name__ == '__main__':
    args = [a for a in sys.argv[1:] if not a.startswith('-')]
    res = check_links(set(args) or None)
    print(json.dumps(summary(res)))
    for r in res:
        if r['verdict'] == 'differs' or '-v' in sys.argv:
            print('%-10s %-18s %-45s %s' % (r['verdict'], r['unit'], r['fn'], r.get('prover', '')))
            if '-v' in sys.argv or '-w' in sys.argv:
                for w in r.get('why', []): print('      ' + w)
