#!/usr/bin/env python3
"""VX: generate a Verus unit from /repo's working tree + an annotated snapshot, run Verus, classify.

  vx.py gen  <unit> [--repo DIR] [-o FILE]      generate only, print the erasure/rebase report
  vx.py run  <unit> [--repo DIR] [--no-canary] [--keep] [--rlimit N]   generate, verify, canary; prints a JSON result
  vx.py import <unit> [--repo DIR]              re-align a scratch overlay to the real tokens (LCS), verify, rewrite the overlay
"""
import sys, os, json, re, subprocess, tempfile, time, shutil, difflib, hashlib
HERE = os.path.dirname(os.path.abspath(__file__)); ROOT = os.path.dirname(HERE)
sys.path.insert(0, HERE)
import vxlib as X

SRC = 'datasketches/src/'
VERUS = shutil.which('verus') or '/usr/local/bin/verus'
TOOLS_SHA = hashlib.sha1(b''.join(open(os.path.join(HERE, f), 'rb').read() for f in ('vx.py', 'vxlib.py'))).hexdigest()[:12]

def load_unit(name):
    p = name if name.endswith('.json') else os.path.join(ROOT, 'units', name + '.json')
    u = json.load(open(p)); u.setdefault('name', os.path.basename(p)[:-5])
    u['_overlay_path'] = os.path.join(ROOT, u['overlay'])
    return u

class Gen:
    pass

def generate(unit, repo='/repo', import_mode=False, strip_body=(), extra_consts=(), extra_getters=(), extra_specs=()):
    """returns Gen with .text, .report (per function), .regions [(line_lo, line_hi, fn path, rel file, origin lines)], .items"""
    ov = open(unit['_overlay_path']).read()
    # free functions of the overlay (depth 1 inside verus!{}): decides whether `Self::f` of the real code becomes a bare `f`
    m_ov = X.mask(ov)
    free = set()
    for mm in re.finditer(r'\bfn\s+([A-Za-z_0-9]+)', m_ov):
        if m_ov.count('{', 0, mm.start()) - m_ov.count('}', 0, mm.start()) == 1: free.add(mm.group(1))
    unit = dict(unit); ro = dict(unit.get('rewrite_opts') or {}); ro['free_fns'] = free; unit['rewrite_opts'] = ro
    g = Gen(); g.report = []; g.items = []; g.problems = []; g.unit_name = unit['name']
    pieces = []
    for ent in unit['functions']:
        rel, path = ent[0], ent[1]
        opts = ent[2] if len(ent) > 2 else {}
        rpath = os.path.join(repo, SRC, rel)
        try:
            rsrc = open(rpath).read()
            rs, re_, rts = X.locate_fn(rsrc, opts.get('real', path))
        except (X.LostAnchor, OSError) as e:
            g.problems.append({'kind': 'lost-anchor', 'where': 'repo', 'fn': path, 'detail': str(e)}); continue
        for r_ in unit.get('expr_rewrites', []): r_.pop('_dropped', None)
        cur = X.real_pipeline(rts, unit, path)
        dropped = [d_ for r_ in unit.get('expr_rewrites', []) for d_ in r_.get('_dropped', [])]
        try:
            os_, oe, ots = X.locate_fn(ov, opts.get('overlay', path))
        except X.LostAnchor as e:
            g.problems.append({'kind': 'lost-anchor', 'where': 'overlay', 'fn': path, 'detail': str(e)}); continue
        E, G = X.erase_fn(ots)
        G = [[X.Tok(str(t)) for t in run] for run in G]      # ghost tokens carry no /repo line
        exact = X.strs(E) == X.strs(cur)
        renames = {}
        if import_mode and not exact:
            # scratch overlay: align erased tokens with the real ones, learn vx_* renames, rebase ghost onto the real tokens
            sm = difflib.SequenceMatcher(a=X.strs(E), b=X.strs(cur), autojunk=False)
            for tag, a0, a1, b0, b1 in sm.get_opcodes():
                if tag == 'replace' and a1 - a0 == b1 - b0:
                    for x, y in zip(E[a0:a1], cur[b0:b1]):
                        if x.isidentifier() and y.isidentifier() and (y.startswith('vx_') or x.startswith('vx_')): renames[str(x)] = str(y)
            if renames:
                G = [[X.Tok(renames.get(str(t), str(t))) for t in run] for run in G]
                E = [X.Tok(renames.get(str(t), str(t))) for t in E]
        normalized_by = []
        if not exact and not import_mode:
            # restructured control flow: sound syntactic rewrites (R30-R33) of the CURRENT code towards the snapshot's shape
            import copy
            u2 = copy.deepcopy({k_: v_ for k_, v_ in unit.items() if k_ != 'rewrite_opts'}); u2['rewrite_opts'] = unit.get('rewrite_opts')
            cur, normalized_by = X.directed_normalize(rts, E, lambda ts_: X.real_pipeline(ts_, u2, path))
        toks, n_edits, edits = X.rebase(E, G, cur)
        stripped = False
        if path in strip_body:
            # fallback when the rebased text no longer parses (the body was restructured): keep the contract on the signature,
            # take the CURRENT body without any ghost text; the function is then checked against its contract with no proof hints
            be, bc = X.body_open(E, 0), X.body_open(cur, 0)
            if be is not None and bc is not None:
                head, _, _ = X.rebase(E[:be], G[:be] + [[]], cur[:bc])
                toks = head + G[be] + list(cur[bc:]); stripped = True
        text, origin = X.emit_with_lines(toks)
        if stripped: text = '#[verifier::exec_allows_no_decreases_clause] ' + text
        g.report.append({'fn': path, 'file': rel, 'line': rts[0].line, 'real_tokens': len(cur), 'overlay_tokens': len(ots),
                         'ghost_tokens': sum(len(r) for r in G), 'erasure_exact': exact, 'edits': edits, 'renames': renames, 'body_ghost_stripped': stripped, 'dropped_arithmetic': dropped, 'normalized_by': normalized_by,
                         'snapshot_sha': hashlib.sha1(' '.join(X.strs(E)).encode()).hexdigest()[:12]})
        pieces.append((os_, oe, text, origin, path, rel))
    g.opaque = []
    for ent in unit.get('opaque', []):
        rel, path = ent[0], ent[1]
        try:
            rsrc = open(os.path.join(repo, SRC, rel)).read()
            rs, re_, rts = X.locate_fn(rsrc, path)
            os_, oe, ots = X.locate_fn(ov, (ent[2] if len(ent) > 2 else {}).get('overlay', path))
        except (X.LostAnchor, OSError) as e:
            g.problems.append({'kind': 'lost-anchor', 'where': 'opaque', 'fn': path, 'detail': str(e)}); continue
        rsig = X.simple_rewrites(X.normalize(rts[:X.body_open(rts, 0)]), unit.get('rewrite_opts'))
        E, G = X.erase_fn(ots)
        osig = E[:X.body_open(E, 0)]
        def _notrail(ts_):
            ts_ = X.strs(ts_); return [t for i_, t in enumerate(ts_) if not (t == ',' and i_ + 1 < len(ts_) and ts_[i_ + 1] in (')', '>'))]
        same = _notrail(rsig) == _notrail(osig)
        g.opaque.append({'fn': path, 'file': rel, 'line': rts[0].line, 'signature_matches_repo': same, 'real_sig': ' '.join(rsig) if not same else None, 'overlay_sig': ' '.join(osig) if not same else None})
        if not same: g.problems.append({'kind': 'opaque-signature', 'fn': path, 'detail': 'real: %s | overlay: %s' % (' '.join(rsig), ' '.join(osig))})
    for ent in unit.get('items', []):
        rel, kw, name = ent[0], ent[1], ent[2]
        try:
            rsrc = open(os.path.join(repo, SRC, rel)).read()
            rs, re_ = X.locate_item(rsrc, kw, name)
            os_, oe = X.locate_item(ov, kw, name)
        except (X.LostAnchor, OSError) as e:
            g.problems.append({'kind': 'lost-anchor', 'where': 'item', 'fn': '%s %s' % (kw, name), 'detail': str(e)}); continue
        base = rsrc.count('\n', 0, rs) + 1
        rt = X.simple_rewrites(X.normalize(X.tokens(rsrc[rs:re_], base)), unit.get('rewrite_opts'))
        cc = unit.get('const_contracts', {}).get(name)
        if cc and kw == 'const':
            # R20: `const N: T = E;` -> `exec const N: T ensures <clause> { proof { <hint> } E }` (real initializer tokens kept)
            eq = X.strs(rt).index('='); head = rt[1:eq]; init = rt[eq + 1:-1]
            new_rt = X.T('const') + head + X.T('ensures') + X.tokens(cc['ensures']) + X.T('{ proof {') + X.tokens(cc.get('proof', '')) + X.T('}') + init + X.T('}')
            m_ = X.mask(ov); o_ = m_.find('{', os_); oe = X.match_brace(m_, o_) + 1
            ot = X.tokens(ov[os_:oe]); same = X.strs(new_rt) == X.strs(ot); rt = new_rt
        else:
            ot = X.tokens(ov[os_:oe])
            same = X.strs(rt) == X.strs([t for t in ot])
        text, origin = X.emit_with_lines(rt)
        g.items.append({'item': '%s %s' % (kw, name), 'file': rel, 'line': base, 'identical_to_snapshot': same})
        pieces.append((os_, oe, text, origin, '%s %s' % (kw, name), rel))
    # closed-world check: every fn inside the named impl blocks of /repo must be under contract in this unit (verified, opaque) or be
    # listed as ignored; a NEW method of such a type (e.g. a Hasher::write_u8 override) is code the property depends on without a contract
    for ent in unit.get('closed_impls', []):
        rel, ty = ent[0], ent[1]
        try: rsrc = open(os.path.join(repo, SRC, rel)).read()
        except OSError: continue
        m_ = X.mask(rsrc); cut = m_.find('#[cfg(test)]')
        if cut >= 0: m_ = m_[:cut]
        known = set(e[1].split('::')[-1] for e in unit.get('functions', []) if e[0] == rel) | set((e[2] if len(e) > 2 else {}).get('real', e[1]).split('::')[-1] for e in unit.get('functions', []) if e[0] == rel) \
                | set(e[1].split('::')[-1] for e in unit.get('opaque', []) if e[0] == rel) | set(ent[2] if len(ent) > 2 else [])
        for s0, o, c in X.find_impl_blocks(m_, ty):
            for mm in re.finditer(r'\bfn\s+([A-Za-z_0-9]+)', m_[o:c]):
                if m_.count('{', o + 1, o + mm.start()) - m_.count('}', o + 1, o + mm.start()) != 0: continue
                if mm.group(1) not in known:
                    g.problems.append({'kind': 'function-not-under-contract', 'fn': '%s::%s' % (ty, mm.group(1)), 'detail': 'impl block of %s in %s has a function that is neither under contract nor listed as ignored in unit %s' % (ty, rel, unit['name'])})
    res = ov
    marks = []
    for s, e, text, origin, path, rel in sorted(pieces, key=lambda p: -p[0]):
        res = res[:s] + '/*<<VX %s>>*/ ' % path + text + '/*<<VX end>>*/' + res[e:]
    # constants of /repo that changed code refers to but the overlay does not know (a NEW module-level const): taken verbatim from /repo
    g.extra_consts = []
    for name in extra_consts:
        own = sorted(set(e[0] for e in unit.get('functions', [])))
        dirs = sorted(set(os.path.dirname(r_) for r_ in own))
        sibl = [os.path.join(d_, f_) for d_ in dirs for f_ in sorted(os.listdir(os.path.join(repo, SRC, d_))) if f_.endswith('.rs') and os.path.join(d_, f_) not in own]
        for rel in own + sibl:
            try:
                rsrc = open(os.path.join(repo, SRC, rel)).read(); rs, re_ = X.locate_item(rsrc, 'const', name)
            except (X.LostAnchor, OSError): continue
            rt = X.simple_rewrites(X.normalize(X.tokens(rsrc[rs:re_])), unit.get('rewrite_opts'))
            res = res.replace('verus! {', 'verus! {\n' + X.emit(rt), 1); g.extra_consts.append('%s (%s)' % (name, rel)); break
    # std functions that changed code started to use and vstd does not specify: frame-like assumed specs from tools/std_specs.json
    g.extra_specs = []
    for path_, spec_ in extra_specs:
        if spec_.split('ensures')[0].split('requires')[0].strip() in res: continue      # the overlay already carries it
        res = res.replace('verus! {', 'verus! {\n' + spec_ + '\n', 1); g.extra_specs.append(path_)
    if g.extra_specs and 'feature(allocator_api)' not in res: res = '#![feature(allocator_api)]\n' + res
    # one-expression accessors of /repo that changed code calls but the unit does not hold: taken from /repo with the automatic
    # contract `ensures r == <its own body>` (only when the body is a single side-effect-free expression of a `&self` method)
    g.extra_getters = []
    for ty, name in extra_getters:
        own = sorted(set(e[0] for e in unit.get('functions', [])))
        dirs = sorted(set(os.path.dirname(r_) for r_ in own))
        sibl = [os.path.join(d_, f_) for d_ in dirs for f_ in sorted(os.listdir(os.path.join(repo, SRC, d_))) if f_.endswith('.rs') and os.path.join(d_, f_) not in own]
        for rel in own + sibl:
            try:
                rsrc = open(os.path.join(repo, SRC, rel)).read(); m_r = X.mask(rsrc)
                hit = None
                for s0, o, c in X.find_impl_blocks(m_r, ty):
                    r_ = X.fn_span_in(rsrc, o + 1, c, name)
                    if r_: hit = (s0, o, r_); break
                if not hit: continue
            except Exception: continue
            s0, o, (fs, fe, fts) = hit
            fts = X.simple_rewrites(X.normalize(fts), unit.get('rewrite_opts'))
            bo = X.body_open(fts, 0); body = fts[bo + 1:-1]; sig = fts[:bo]
            ssig = X.strs(sig); sbody = X.strs(body)
            if ';' in sbody or 'mut' in ssig or '->' not in ssig or any(t in sbody for t in ('for', 'while', 'loop', 'let', 'return', '?')) or '&' not in ssig: break
            arrow = ssig.index('->')
            header = X.tokens(rsrc[s0:o])          # `impl<..> Type<..>` of the real block
            if 'for' in X.strs(header): break       # trait impls stay out
            txt = X.emit(header) + ' { ' + X.emit(sig[:arrow + 1]) + ' ( vx_r : ' + X.emit(sig[arrow + 1:]) + ' ) ensures vx_r == ( ' + X.emit(body) + ' ) { ' + X.emit(body) + ' } }\n'
            idx = res.rfind('}', 0, res.rfind('fn main'))
            res = res[:idx] + txt + res[idx:]; g.extra_getters.append('%s::%s (%s)' % (ty, name, rel)); break
    # regions: recompute by scanning markers
    g.text = res
    g.regions = []
    omap = {p[4]: (p[3], p[5]) for p in pieces}
    lines = res.split('\n')
    cur_r = None
    for ln, l in enumerate(lines, 1):
        m = re.search(r'/\*<<VX (.+?)>>\*/', l)
        if m and m.group(1) != 'end': cur_r = [ln, None, m.group(1)]
        if '/*<<VX end>>*/' in l and cur_r:
            cur_r[1] = ln; o, rel = omap[cur_r[2]]; g.regions.append((cur_r[0], cur_r[1], cur_r[2], rel, o)); cur_r = None
    return g

# ------------------------------------------------------------------ running Verus
def run_verus(path, rlimit=None, timeout=900, extra=()):
    cmd = [VERUS, path, '--output-json', '--time', '--error-format=json', '--multiple-errors', '50', '--crate-name', os.path.basename(path)[:-3]]
    if rlimit: cmd += ['--rlimit', str(rlimit)]
    cmd += list(extra)
    t0 = time.time()
    try:
        p = subprocess.run(cmd, capture_output=True, text=True, timeout=timeout, cwd=os.path.dirname(path))
    except subprocess.TimeoutExpired:
        return {'timeout': True, 'wall_s': time.time() - t0, 'diags': [], 'json': {}, 'rc': -1}
    out = {'rc': p.returncode, 'wall_s': time.time() - t0, 'diags': [], 'json': {}, 'raw_err': ''}
    try:
        out['json'] = json.loads(p.stdout)
    except Exception:
        out['raw_out'] = p.stdout[-2000:]
    raw = []
    for l in p.stderr.split('\n'):
        l = l.strip()
        if l.startswith('{'):
            try:
                d = json.loads(l)
                if d.get('level') in ('error',) or (d.get('level') == 'note' and 'resource limit' in d.get('message', '')) or (d.get('level') == 'warning' and ('rlimit' in d.get('message', '') or 'resource limit' in d.get('message', ''))):
                    out['diags'].append(d)
                continue
            except Exception: pass
        if l: raw.append(l)
    out['raw_err'] = '\n'.join(raw)[-3000:]
    return out

DEFINITE = ('postcondition not satisfied', 'precondition not satisfied', 'invariant not satisfied', 'assertion failed', 'possible arithmetic underflow/overflow',
            'possible division by zero', 'index out of bounds', 'possible bit shift underflow/overflow', 'recommendation not met', 'decreases not satisfied',
            'termination', 'unreachable', 'failed this', 'could not prove', 'cannot show', 'might', 'not satisfied', 'slice index', 'not met', 'evaluates to false', 'simplifies to')

def classify_diag(d, g, gen_lines):
    """-> dict(kind, fn, clause, tag, text, real_file, real_line, definite)"""
    msg = d.get('message', '')
    spans = d.get('spans', [])
    prim = next((s for s in spans if s.get('is_primary')), spans[0] if spans else None)
    sec = [s for s in spans if not s.get('is_primary')]
    info = {'message': msg, 'definite': False, 'fn': None, 'tag': None, 'clause': None, 'real_file': None, 'real_line': None, 'kind': 'other', 'in_real_code': False}
    low = msg.lower()
    if low.startswith('aborting due to'): info['kind'] = 'summary'
    elif 'resource limit' in low or 'rlimit' in low or 'timed out' in low or 'incomplete' in low: info['kind'] = 'rlimit'
    elif any(k in low for k in DEFINITE): info['kind'] = 'definite'; info['definite'] = True
    else: info['kind'] = 'tool-error'
    def region_of(line):
        for lo, hi, path, rel, origin in g.regions:
            if lo <= line <= hi: return lo, hi, path, rel, origin
        return None
    def enclosing_fn(line):
        # function name by scanning generated text backwards for `fn name`
        for k in range(line - 1, -1, -1):
            m = re.search(r'\bfn\s+([A-Za-z_0-9]+)', gen_lines[k])
            if m: return m.group(1)
        return None
    if prim:
        pl = prim.get('line_start', 0)
        r = region_of(pl)
        info['gen_line'] = pl
        info['text'] = ' '.join(t.get('text', '').strip() for t in prim.get('text', []))[:300]
        if r:
            lo, hi, path, rel, origin = r
            info['fn'] = path; info['real_file'] = rel
            k = pl - lo
            # origin is indexed by emitted line of the piece; the marker shares the first line
            if 0 <= k < len(origin) and origin[k] is not None: info['real_line'] = origin[k]; info['in_real_code'] = True
            else:
                # nearest earlier real line
                for kk in range(min(k, len(origin) - 1), -1, -1):
                    if origin[kk] is not None: info['real_line'] = origin[kk]; break
        else:
            info['fn'] = enclosing_fn(pl)
    # the failing clause (secondary span for pre/postconditions, the primary span for invariants/asserts)
    def span_text(s):
        if s.get('file_name') and not str(s.get('file_name')).endswith(('vxu_%s.rs' % g.unit_name, 'vxc_%s.rs' % g.unit_name)):
            return ' '.join((t.get('text', '')[max(t.get('highlight_start', 1) - 1, 0):max(t.get('highlight_end', 1) - 1, 0)]).strip() for t in s.get('text', [])).strip()
        tx = ' '.join((t.get('text', '')[max(t.get('highlight_start', 1) - 1, 0):max(t.get('highlight_end', 1) - 1, 0)]).strip() for t in s.get('text', []))
        if not tx.strip():
            ls, le = s.get('line_start', 0), s.get('line_end', 0)
            if 1 <= ls <= len(gen_lines):
                if ls == le: tx = gen_lines[ls - 1][s.get('column_start', 1) - 1:s.get('column_end', 1) - 1]
                else: tx = ' '.join(gen_lines[ls - 1:le])
        return tx.strip()
    def span_tag(s):
        if s.get('file_name') and not str(s.get('file_name')).endswith(('vxu_%s.rs' % g.unit_name, 'vxc_%s.rs' % g.unit_name)): return None
        ls = s.get('line_start', 0)
        if not (1 <= ls <= len(gen_lines)): return None
        before = gen_lines[ls - 1][:max(s.get('column_start', 1) - 1, 0)]
        mm = re.search(r'/\*@([^*]+)\*/\s*$', before)
        if mm: return mm.group(1).strip()
        mm = re.search(r'/\*@([^*]+)\*/', span_text(s))
        return mm.group(1).strip() if mm else None
    csp = sec[0] if sec else prim
    stmt_sp = prim
    if 'postcondition' in low and prim is not None:
        csp = prim; stmt_sp = sec[0] if sec else prim      # Verus: primary = the failed clause, secondary = "at the end of the function body"
    if csp is not None:
        info['clause'] = span_text(csp)[:400]; info['clause_line'] = csp.get('line_start'); info['tag'] = span_tag(csp)
        if stmt_sp is not None and csp is not stmt_sp: info['text'] = span_text(stmt_sp)[:300]
        if info['tag'] is None and prim is not None and csp is not prim: info['tag'] = span_tag(prim)
        if stmt_sp is not None and stmt_sp is not prim:
            r2 = region_of(stmt_sp.get('line_start', 0))
            if r2:
                k2 = stmt_sp.get('line_start', 0) - r2[0]
                for kk in range(min(k2, len(r2[4]) - 1), -1, -1):
                    if r2[4][kk] is not None: info['real_line'] = r2[4][kk]; break
    if csp is not None and csp is not prim and csp.get('file_name') and not str(csp.get('file_name')).endswith('vxu_%s.rs' % g.unit_name) and prim is not None:
        info['clause'] = span_text(prim)[:400]; info['tag'] = span_tag(prim)
    # callee of a failed precondition
    if 'precondition' in low and prim:
        info['callsite'] = info.get('text')
    return info

def count_obligations(g, ok_fns):
    """syntactic obligation count of the generated unit: tagged clauses, other ensures/invariant clauses, asserts, safety sites of real code"""
    ts = X.tokens(g.text)
    n_tag = sum(1 for t in ts if t.startswith('/*@'))
    n_assert = sum(1 for t in ts if t in ('assert', 'assert!', 'debug_assert!', 'unreachable!', 'panic!'))
    return n_tag, n_assert

def add_canaries(g):
    """copy of the unit in which every region function gets `proof { if vx_canary(k) { assert(false); } }` at body start and after every loop"""
    lines = g.text.split('\n')
    out_text = g.text
    # operate on text by tokens per region is heavy; do it textually on region line ranges
    n = [0]
    new_lines = list(lines)
    expected = []
    for lo, hi, path, rel, origin in g.regions:
        if path.startswith(('const ', 'struct ', 'enum ', 'static ', 'type ')): continue
        seg = '\n'.join(lines[lo - 1:hi])
        ts = X.tokens(seg)
        try:
            i0 = next(i for i, t in enumerate(ts) if t == 'fn')
        except StopIteration: continue
        bo = X.body_open(ts, i0)
        if bo is None: continue
        # external_body functions are not verified: skip (look at the text before region for the attribute)
        before = '\n'.join(lines[max(0, lo - 3):lo]).split('/*<<VX')[0]
        last_stmt = re.split(r'[;}]', before)[-1]
        if 'external_body' in last_stmt: continue
        ins = {}
        def can():
            n[0] += 1; expected.append((path, n[0])); return X.tokens('proof { if vx_canary ( %d ) { assert ( false ) ; } }' % n[0])
        p0 = bo + 1
        while p0 + 1 < len(ts) and ts[p0] in ('hide', 'reveal', 'reveal_with_fuel') and ts[p0 + 1] == '(':
            p0 = X.match_close(ts, p0 + 1) + 1
            if p0 < len(ts) and ts[p0] == ';': p0 += 1
        ins[p0] = can()
        # after loops
        i = bo + 1
        while i < len(ts):
            if ts[i] in ('while', 'loop') or (ts[i] == 'for' and i + 1 < len(ts)):
                # find the loop body `{` : first `{` at paren depth 0 that is not inside clause if/match
                k = i + 1; d = 0; found = None
                while k < len(ts):
                    if ts[k] in '([': d += 1
                    elif ts[k] in ')]': d -= 1
                    elif ts[k] in X.CLAUSE_KW and d == 0:
                        k = X.clause_end(ts, k); found = k; break
                    elif ts[k] == '{' and d == 0: found = k; break
                    k += 1
                if found is not None:
                    c = X.match_close(ts, found)
                    # only loops in statement position (next token is not an operator / `.`)
                    if c + 1 < len(ts) and ts[c + 1] not in ('.', '?', ')', ',', 'else') and not (ts[i] == 'loop' and ts[c + 1] == '}'):
                        ins.setdefault(c + 1, [])
                        ins[c + 1] = ins[c + 1] + can()
                    i = found + 1; continue
            i += 1
        new = []
        for k, t in enumerate(ts):
            if k in ins: new += ins[k]
            new.append(t)
        # every canary is a failed query and the shared z3 process degrades after failed queries: one prover process per function
        new_lines[lo - 1] = '#[verifier::spinoff_prover] ' + X.emit(new).rstrip('\n')
        for k in range(lo, hi): new_lines[k] = ''
    text = '\n'.join(new_lines)
    text = text.replace('verus! {', 'verus! {\nuninterp spec fn vx_canary(k: int) -> bool;\n', 1)
    return text, expected

def assumption_scan(text):
    out = []
    ts = X.tokens(text)
    for i, t in enumerate(ts):
        if t == 'assume_specification':
            j = i
            while j < len(ts) and ts[j] != ']': j += 1
            out.append('assume_specification ' + ''.join(ts[i + 1:j + 1]).replace('[', '[ ').replace(']', ' ]'))
        if t == 'external_body' or t == 'external_fn_specification' or t == 'external_type_specification':
            # name of the following fn/struct
            for j in range(i, min(i + 60, len(ts))):
                if ts[j] in ('fn', 'struct') and j + 1 < len(ts): out.append('%s %s %s' % (t, ts[j], ts[j + 1])); break
        if t == 'axiom' or (t.startswith('axiom_') and i > 0 and ts[i - 1] == 'fn'):
            out.append('axiom fn ' + t)
        if t in ('assume', 'admit') and i + 1 < len(ts) and ts[i + 1] == '(':
            out.append('FORBIDDEN %s(' % t)
    return sorted(set(out))

def run_unit(unit, repo='/repo', canary=True, keep=False, rlimit=None, workdir=None):
    t0 = time.time(); strip_done = False
    res = {'unit': unit['name'], 'status': 'ok', 'problems': [], 'failures': [], 'functions': [], 'wall_s': 0}
    g = generate(unit, repo)
    res['report'] = g.report; res['items'] = g.items; res['opaque'] = g.opaque
    if g.problems:
        res['status'] = 'undecided'; res['problems'] = g.problems; res['wall_s'] = time.time() - t0; return res
    for r in g.report:
        r['changed'] = bool(r['edits'])
        if r.get('dropped_arithmetic'):      # none on the pinned tree (measured): any occurrence comes from changed code
            res['problems'].append({'kind': 'dropped-expression', 'fn': r['fn'], 'detail': 'the rewrite table drops an expression with arithmetic (e.g. a format argument) - not checked: %s' % '; '.join(r['dropped_arithmetic'][:3])})
    key = hashlib.sha1((g.text + '|canary=%s|rlimit=%s|%s|%s' % (canary, rlimit or unit.get('rlimit'), TOOLS_SHA, json.dumps(res['problems'], sort_keys=True))).encode()).hexdigest()   # generate-time problems are not visible in the text (a dropped format argument): part of the key
    cdir = os.path.join(ROOT, '.cache'); cpath_ = os.path.join(cdir, '%s_%s.json' % (unit['name'], key))
    if os.environ.get('VX_NO_CACHE') != '1' and os.path.exists(cpath_) and not keep:
        try:
            c = json.load(open(cpath_)); c['cached'] = True; c['report'] = res['report']; c['items'] = res['items']; c['opaque'] = res['opaque']; return c
        except Exception: pass
    d = workdir or tempfile.mkdtemp(prefix='vx_%s_' % unit['name'], dir=os.environ.get('VX_TMP', '/tmp'))
    os.makedirs(d, exist_ok=True)
    try:
        fname = 'vxu_%s.rs' % unit['name']
        path = os.path.join(d, fname)
        open(path, 'w').write(g.text)
        gen_lines = g.text.split('\n')
        v = run_verus(path, rlimit=rlimit or unit.get('rlimit'))
        res['verus_wall_s'] = round(v['wall_s'], 2)
        vj = v.get('json', {})
        vr = vj.get('verification-results', {})
        res['verified'] = vr.get('verified'); res['errors'] = vr.get('errors')
        res['verus_success'] = vr.get('success')
        # per function breakdown
        fb = []
        try:
            for mod in vj['times-ms']['smt']['smt-run-module-times']:
                for f in mod.get('function-breakdown', []):
                    fb.append({'function': f.get('function'), 'success': f.get('success'), 'time_ms': f.get('time'), 'rlimit': f.get('rlimit')})
        except Exception: pass
        res['functions'] = fb
        try: res['smt_ms'] = vj['times-ms']['smt']['total']
        except Exception: res['smt_ms'] = None
        if v.get('timeout'):
            res['status'] = 'undecided'; res['problems'].append({'kind': 'timeout', 'detail': 'verus timed out'})
        elif vr.get('success') is None and not v['diags']:
            res['status'] = 'undecided'; res['problems'].append({'kind': 'tool-error', 'detail': (v.get('raw_err') or v.get('raw_out') or '')[-1500:]})
        for dgn in v['diags']:
            info = classify_diag(dgn, g, gen_lines)
            if info['kind'] != 'summary': res['failures'].append(info)
        # a changed function that names a module-level const the overlay does not have: fetch it from /repo and retry once
        missing = sorted(set(m_.group(1) for f in res['failures'] if f['kind'] == 'tool-error' for m_ in re.finditer(r'cannot find value `([A-Z][A-Z0-9_]*)`', f.get('message', ''))))
        if missing and any(r['edits'] for r in g.report):
            g1 = generate(unit, repo, extra_consts=missing)
            if g1.extra_consts:
                open(path, 'w').write(g1.text)
                v1 = run_verus(path, rlimit=rlimit or unit.get('rlimit'))
                g, v, gen_lines = g1, v1, g1.text.split('\n')
                vj = v.get('json', {}); vr = vj.get('verification-results', {})
                res['verified'] = vr.get('verified'); res['errors'] = vr.get('errors'); res['verus_success'] = vr.get('success'); res['extra_consts'] = g1.extra_consts; res['extra_consts_names'] = missing
                res['failures'] = [x for x in (classify_diag(dgn, g, gen_lines) for dgn in v['diags']) if x['kind'] != 'summary']
        # a changed function that calls a std function vstd has no spec for: inject the frame-like assumed spec (tools/std_specs.json) and retry once
        try: STD_SPECS = {k_: v_ for k_, v_ in json.load(open(os.path.join(HERE, 'std_specs.json'))).items() if not k_.startswith('_')}
        except (OSError, ValueError): STD_SPECS = {}
        unsup = sorted(set(m_.group(1) for f in res['failures'] if f['kind'] == 'tool-error' for m_ in re.finditer(r'`([^`]+)` is not supported', f.get('message', ''))))
        specs = [(u_, STD_SPECS[u_]['spec']) for u_ in unsup if u_ in STD_SPECS]
        if specs and any(r['edits'] for r in g.report):
            g1 = generate(unit, repo, extra_consts=res.get('extra_consts_names', ()), extra_specs=specs)
            if g1.extra_specs:
                open(path, 'w').write(g1.text)
                v1 = run_verus(path, rlimit=rlimit or unit.get('rlimit'))
                g, v, gen_lines = g1, v1, g1.text.split('\n')
                vj = v.get('json', {}); vr = vj.get('verification-results', {})
                res['verified'] = vr.get('verified'); res['errors'] = vr.get('errors'); res['verus_success'] = vr.get('success'); res['extra_std_specs'] = g1.extra_specs
                res['failures'] = [x for x in (classify_diag(dgn, g, gen_lines) for dgn in v['diags']) if x['kind'] != 'summary']
        getters = sorted(set((m_.group(2), m_.group(1)) for f in res['failures'] if f['kind'] == 'tool-error' for m_ in re.finditer(r'no method named `([a-z_0-9]+)` found for (?:struct|reference|enum) `&?(?:mut )?([A-Za-z_0-9]+)', f.get('message', ''))))
        if getters and any(r['edits'] for r in g.report):
            g1 = generate(unit, repo, extra_consts=res.get('extra_consts_names', ()), extra_getters=getters)
            if g1.extra_getters:
                open(path, 'w').write(g1.text)
                v1 = run_verus(path, rlimit=rlimit or unit.get('rlimit'))
                f1 = [x for x in (classify_diag(dgn, g1, g1.text.split('\n')) for dgn in v1['diags']) if x['kind'] != 'summary']
                if not any(x['kind'] == 'tool-error' for x in f1):
                    g, v, gen_lines = g1, v1, g1.text.split('\n')
                    vj = v.get('json', {}); vr = vj.get('verification-results', {})
                    res['verified'] = vr.get('verified'); res['errors'] = vr.get('errors'); res['verus_success'] = vr.get('success'); res['extra_getters'] = g1.extra_getters
                    res['failures'] = f1
        te_fns = set(f['fn'] for f in res['failures'] if f['kind'] == 'tool-error' and f.get('fn'))
        changed_fns = set(r['fn'] for r in g.report if r['edits'])
        retry = sorted(te_fns & changed_fns)
        if not retry and any(f['kind'] == 'tool-error' for f in res['failures']) and len(changed_fns) == 1 and not strip_done:
            retry = sorted(changed_fns)      # the front-end error was reported outside the region (e.g. at a call site of the changed function)
        if retry and not strip_done:
            g2 = generate(unit, repo, strip_body=set(retry))
            open(path, 'w').write(g2.text)
            v2 = run_verus(path, rlimit=rlimit or unit.get('rlimit'))
            f2 = [classify_diag(dgn, g2, g2.text.split('\n')) for dgn in v2['diags']]
            f2 = [x for x in f2 if x['kind'] != 'summary']
            if not any(x['kind'] == 'tool-error' for x in f2):
                g, v, gen_lines = g2, v2, g2.text.split('\n')
                vj = v.get('json', {}); vr = vj.get('verification-results', {})
                res['verified'] = vr.get('verified'); res['errors'] = vr.get('errors'); res['verus_success'] = vr.get('success')
                res['report'] = g.report
                for x in f2:
                    if x.get('fn') in retry: x['proof_not_transferred'] = True
                res['failures'] = f2; res['body_ghost_stripped'] = retry
        if res['failures']:
            kinds = set(f['kind'] for f in res['failures'])
            if 'definite' in kinds: res['status'] = 'failed'
            elif 'tool-error' in kinds: res['status'] = 'undecided'; res['problems'].append({'kind': 'tool-error', 'detail': '; '.join(f['message'] for f in res['failures'])[:1500]})
            else: res['status'] = 'undecided'; res['problems'].append({'kind': 'rlimit', 'detail': '; '.join((f.get('fn') or '?') for f in res['failures'])})
        elif vr.get('success') is False and res['status'] == 'ok':
            res['status'] = 'undecided'; res['problems'].append({'kind': 'tool-error', 'detail': (v.get('raw_err') or '')[-1500:]})
        n_tag, n_assert = count_obligations(g, None)
        res['tagged_clauses'] = n_tag; res['assert_sites'] = n_assert
        res['trusted'] = assumption_scan(g.text)
        if any(x.startswith('FORBIDDEN') for x in res['trusted']):
            res['status'] = 'undecided'; res['problems'].append({'kind': 'forbidden-assume', 'detail': 'assume(/admit( in unit'})
        # canary
        if canary and res['status'] in ('ok', 'failed') and not any(f['kind'] != 'definite' for f in res['failures']):
            ctext, expected = add_canaries(g)
            cpath = os.path.join(d, 'vxc_%s.rs' % unit['name'])
            def canary_run(text):
                open(cpath, 'w').write(text)
                cv_ = run_verus(cpath, rlimit=rlimit or unit.get('rlimit'))
                cerr = [x for x in cv_['diags'] if 'assertion failed' in x.get('message', '')]
                hit_ = set(); clines = text.split('\n')
                for x in cerr:
                    for s in x.get('spans', []):
                        if s.get('is_primary'):
                            ln = s.get('line_start', 0)
                            for k in range(ln - 1, max(ln - 4, -1), -1):
                                m = re.search(r'vx_canary \( (\d+) \)', clines[k]) if k < len(clines) else None
                                if m: hit_.add(int(m.group(1))); break
                return cv_, hit_
            cv, hit = canary_run(ctext)
            if any(e[1] not in hit for e in expected):
                # the spinoff-prover copy is only a speed-up (and crashes Verus on some units): fall back to the plain copy
                cv2, hit2 = canary_run(ctext.replace('#[verifier::spinoff_prover] ', ''))
                hit |= hit2; cv['wall_s'] += cv2['wall_s']
                if len(hit2) >= len(hit): cv['diags'] = cv2['diags']
            missing = [e for e in expected if e[1] not in hit]
            # canaries in provably dead code can never be refuted: the unit file names how many may be missing per function
            allow = dict(unit.get('canary_allow_missing', {}))
            kept = []
            for e in missing:
                if allow.get(e[0], 0) > 0: allow[e[0]] -= 1
                else: kept.append(e)
            res['canaries_exempt_dead_code'] = len(missing) - len(kept); missing = kept
            res['canaries'] = len(expected) - res['canaries_exempt_dead_code']; res['canaries_failed_as_expected'] = res['canaries'] - len(missing)
            res['canary_wall_s'] = round(cv['wall_s'], 2)
            if missing:
                # a canary can also be swallowed by an rlimit in that function: only call it vacuous when verus said "verified" for it
                other = [x.get('message', '') for x in cv['diags'] if 'assertion failed' not in x.get('message', '')]
                res['canary_missing'] = missing[:20]; res['canary_other'] = other[:5]
                if res['status'] == 'ok': res['status'] = 'undecided'
                res['problems'].append({'kind': 'vacuity', 'detail': 'canary not refuted in %s' % missing[:5]})
        if keep: res['kept'] = d
    finally:
        if not keep and not workdir: shutil.rmtree(d, ignore_errors=True)
    if res['status'] == 'ok' and any(p_['kind'] == 'dropped-expression' for p_ in res['problems']): res['status'] = 'undecided'
    res['wall_s'] = round(time.time() - t0, 2)
    res['gen_sha'] = key
    if res['status'] in ('ok', 'failed') and not any(p_['kind'] in ('timeout', 'tool-error') for p_ in res['problems']):
        try:
            os.makedirs(cdir, exist_ok=True); json.dump(res, open(cpath_ + '.tmp', 'w')); os.replace(cpath_ + '.tmp', cpath_)
        except Exception: pass
    return res

def cmd_import(unit, repo):
    g = generate(unit, repo, import_mode=True)
    if g.problems:
        print(json.dumps(g.problems, indent=1)); return 2
    for r in g.report:
        print('%-50s real %4d ghost %5d exact=%s edits=%d renames=%s' % (r['fn'], r['real_tokens'], r['ghost_tokens'], r['erasure_exact'], len(r['edits']), r['renames']))
        for e in r['edits'][:12]: print('      %s: [%s] -> [%s]' % (e['op'], e['was'][:90], e['now'][:90]))
    d = tempfile.mkdtemp(prefix='vximp_', dir='/tmp'); path = os.path.join(d, 'vxu_%s.rs' % unit['name'])
    open(path, 'w').write(g.text)
    v = run_verus(path, rlimit=unit.get('rlimit'))
    vr = v.get('json', {}).get('verification-results', {})
    print('verus:', vr, 'wall %.1fs' % v['wall_s'])
    for dgn in v['diags'][:15]:
        info = classify_diag(dgn, g, g.text.split('\n'))
        print('  FAIL', info['kind'], info['fn'], '|', info['message'][:100], '|', (info.get('clause') or '')[:120])
    if not vr.get('success') and not v['diags']: print(v.get('raw_err', '')[-3000:])
    if '--write' in sys.argv or vr.get('success'):
        # the generated text, minus markers, becomes the new overlay (erasure-exact by construction)
        new = re.sub(r'/\*<<VX [^>]*>>\*/ ?', '', g.text)
        out = unit['_overlay_path'] if vr.get('success') or '--force' in sys.argv else unit['_overlay_path'] + '.imported'
        open(out, 'w').write(new); print('wrote', out)
    print('scratch file:', path)
    return 0 if vr.get('success') else 1

def main():
    if len(sys.argv) < 3: print(__doc__); return 2
    cmd, name = sys.argv[1], sys.argv[2]
    repo = sys.argv[sys.argv.index('--repo') + 1] if '--repo' in sys.argv else '/repo'
    unit = load_unit(name)
    if cmd == 'gen':
        g = generate(unit, repo)
        out = sys.argv[sys.argv.index('-o') + 1] if '-o' in sys.argv else None
        if out: open(out, 'w').write(g.text)
        for r in g.report:
            print('%-50s real %4d ghost %5d exact=%s edits=%d' % (r['fn'], r['real_tokens'], r['ghost_tokens'], r['erasure_exact'], len(r['edits'])))
            for e in r['edits'][:10]: print('      %s: [%s] -> [%s]' % (e['op'], e['was'][:100], e['now'][:100]))
        for it in g.items: print(it)
        for p in g.problems: print('PROBLEM', p)
        return 0
    if cmd == 'run':
        rl = int(sys.argv[sys.argv.index('--rlimit') + 1]) if '--rlimit' in sys.argv else None
        res = run_unit(unit, repo, canary='--no-canary' not in sys.argv, keep='--keep' in sys.argv, rlimit=rl)
        if '--json' in sys.argv: print(json.dumps(res, indent=1))
        else:
            print('unit %s status=%s verified=%s errors=%s wall=%.1fs canaries=%s/%s' % (res['unit'], res['status'], res.get('verified'), res.get('errors'), res['wall_s'], res.get('canaries_failed_as_expected'), res.get('canaries')))
            for r in res['report']:
                if not r['erasure_exact']: print('  not exact:', r['fn'], [(e['was'][:60], e['now'][:60]) for e in r['edits'][:4]])
            for f in res['failures'][:30]: print('  FAIL %s fn=%s tag=%s real=%s:%s | %s | %s' % (f['kind'], f['fn'], f['tag'], f['real_file'], f['real_line'], f['message'][:80], (f.get('clause') or '')[:140]))
            for p in res['problems']: print('  PROBLEM', p)
            if res.get('kept'): print('  kept', res['kept'])
        return {'ok': 0, 'failed': 1}.get(res['status'], 2)
    if cmd == 'import':
        return cmd_import(unit, repo)
    print(__doc__); return 2

if __name__ == '__main__':
    sys.exit(main())
