#!/bin/bash
# confirm_seed3.sh <prop> : confirm round-3 seeds of /tmp/seed3_<prop> and store them as seeded/<prop>_7..9
p=$1
for k in 1 2 3; do
  n=$((k+6))
  [ -f /tmp/seed3_$p/seed_$k.patch ] || continue
  cp /tmp/seed3_$p/seed_$k.patch /tmp/seed3_$p/seed_$n.patch; cp /tmp/seed3_$p/seed_${k}_demo.rs /tmp/seed3_$p/seed_${n}_demo.rs; cp /tmp/seed3_$p/seed_$k.txt /tmp/seed3_$p/seed_$n.txt
  CARGO_BUILD_JOBS=4 python3 /verif/tools/confirm_seed.py /tmp/seed3_$p $p $n
done
