#!/usr/bin/env python3
"""writes MANIFEST.json from props.json (claimed properties) + the not_applicable table below"""
import json, os
ROOT = os.path.dirname(os.path.dirname(os.path.abspath(__file__)))
props = json.load(open(os.path.join(ROOT, 'props.json')))
allp = [json.loads(l)['id'] for l in open(os.path.join(ROOT, 'properties.jsonl'))]
NA = json.load(open(os.path.join(ROOT, 'not_applicable.json')))
checks = []
for p in sorted(props):
    P = props[p]
    checks.append({
        'property_id': p,
        'quick_cmd': './check %s --tier quick' % p,
        'thorough_cmd': './check %s --tier thorough' % p,
        'evidence_file': '/verif/evidence/%s.json' % p,
        'replay_cmd_template': './check --replay {path}',
        'engine': 'vx+kx',
        'level_claimed': {'category': P.get('level', 'proof'), 'text': P['level_text'], 'design_ref': P.get('design_ref', 'DESIGN.md section 4, ' + p)},
        'level_note': P['level_note'],
        'technique': P.get('technique', 'contract-based deductive verification: Verus contracts on the real functions re-extracted from /repo every run (erasure-checked annotated snapshots), leaf contracts discharged by complete Kani harnesses'),
    })
m = {
    'version': 1,
    'setup_cmd': 'python3 tools/setup.py',
    'hooks': {'guard': 'cfg(kani) / cfg(verus_keep_ghost) on per-run scratch copies only; no hook in /repo', 'enable': 'none needed: checks extract real functions from /repo/datasketches/src into Verus units and copy the crate for Kani, appending #[cfg(kani)] child modules to the copy',
              'baseline_off_cmd': 'cd /repo && cargo test --workspace --no-fail-fast --offline', 'source_commits': [], 'add_only': True},
    'engines': [
        {'name': 'vx', 'path': 'tools/vx.py', 'serves_properties': sorted(props), 'kind_free_text': 'Verus 0.2026.09.13 on real functions extracted mechanically every run; overlays are annotated snapshots whose erasure must equal the real tokens'},
        {'name': 'kx', 'path': 'tools/kx.py', 'serves_properties': sorted(p for p in props if props[p].get('kx')), 'kind_free_text': 'Kani 0.68 / CBMC 6.11 harnesses appended as child modules to a per-run copy of the real crate; complete (loop-free, full-domain) leaves and bounded stand-ins labelled apart'},
    ],
    'checks': checks,
    'not_applicable': [{'property_id': p, 'reason': NA[p]} for p in allp if p not in props],
    'notes': 'See DESIGN.md. Exit 2 = UNDECIDED (lost anchor / resource limit / tool error), never used on the unchanged tree.',
}
for p in allp:
    assert p in props or p in NA, 'property %s neither claimed nor not_applicable' % p
json.dump(m, open(os.path.join(ROOT, 'MANIFEST.json'), 'w'), indent=1)
print('MANIFEST.json: %d checks, %d not_applicable' % (len(checks), len(m['not_applicable'])))
