#![feature(allocator_api)]
use vstd::prelude::*;
use vstd::iset::*;
use vstd::arithmetic::power2::*;
use std::hash::Hash;
verus! {
global size_of usize == 8;

// =====================================================================================================================
// Coupons and coupon tables: the definitions of unit hll_coupons (where List::update / HashSet::update / the constructors
// are VERIFIED against exactly these contracts)
// =====================================================================================================================
const COUPON_EMPTY : u32 = 0 ;

const RESIZE_NUMERATOR : u32 = 3 ;

const RESIZE_DENOMINATOR : u32 = 4 ;


spec fn cslot(c: u32) -> u32 { c & 0x3ffffff }
spec fn cval(c: u32) -> u8 { (c >> 26) as u8 }
spec fn nz(s: Seq<u32>) -> Seq<u32> decreases s.len() {
    if s.len() == 0 { Seq::empty() } else if s.last() != 0 { nz(s.drop_last()).push(s.last()) } else { nz(s.drop_last()) }
}
spec fn cset(cs: Seq<u32>) -> ISet<u32> { ISet::new(|c: u32| c != 0 && cs.contains(c)) }
spec fn no_dup(cs: Seq<u32>) -> bool {
    forall|i: int, j: int| 0 <= i < cs.len() && 0 <= j < cs.len() && i != j && cs[i] != 0 ==> cs[i] != cs[j]
}
spec fn packed(cs: Seq<u32>, n: int) -> bool {
    &&& 0 <= n <= cs.len()
    &&& forall|i: int| 0 <= i < n ==> cs[i] != 0
    &&& forall|i: int| n <= i < cs.len() ==> cs[i] == 0
}
spec fn probe_at(p0: int, s: int, j: int, size: int) -> int { (p0 + j * s) % size }
spec fn home(c: u32, lg: usize) -> int { (c as int) % (pow2(lg as nat) as int) }
spec fn stride_of(c: u32, lg: usize) -> int { (((c & 0x3ffffffu32) >> lg) | 1u32) as int }
spec fn path(cs: Seq<u32>, c: u32, lg: usize, t: int) -> int { probe_at(home(c, lg), stride_of(c, lg), t, cs.len() as int) }
spec fn zero_free(cs: Seq<u32>, c: u32, lg: usize, j: int) -> bool {
    forall|t: int| 0 <= t < j ==> cs[#[trigger] path(cs, c, lg, t)] != 0
}
spec fn reach_at(cs: Seq<u32>, lg: usize, i: int) -> bool {
    exists|j: int| 0 <= j < cs.len() && i == path(cs, cs[i], lg, j) && #[trigger] zero_free(cs, cs[i], lg, j)
}
spec fn reach(cs: Seq<u32>, lg: usize) -> bool {
    forall|i: int| 0 <= i < cs.len() && cs[i] != 0 ==> #[trigger] reach_at(cs, lg, i)
}
spec fn tbl_shape(cs: Seq<u32>, lg: usize) -> bool { lg <= 26 && cs.len() == pow2(lg as nat) }
spec fn tbl_ok(cs: Seq<u32>, lg: usize) -> bool { tbl_shape(cs, lg) && no_dup(cs) && reach(cs, lg) }

// ---- facts about nz / cset (proved here again; they are pure sequence lemmas) ----
proof fn lemma_nz_contains(cs: Seq<u32>, c: u32)
  requires c != 0
  ensures nz(cs).contains(c) <==> cs.contains(c)
  decreases cs.len()
{
    if cs.len() > 0 {
        let d = cs.drop_last(); let n = cs.len() as int;
        lemma_nz_contains(d, c);
        if cs.contains(c) {
            let i = choose|i: int| 0 <= i < cs.len() && cs[i] == c;
            if i < n - 1 { assert(d[i] == c); assert(d.contains(c)); let k = choose|k: int| 0 <= k < nz(d).len() && nz(d)[k] == c; if cs.last() != 0 { assert(nz(cs)[k] == c); } }
            else { assert(nz(cs)[nz(cs).len() - 1] == c); }
        }
        if nz(cs).contains(c) {
            let k = choose|k: int| 0 <= k < nz(cs).len() && nz(cs)[k] == c;
            if cs.last() != 0 && k == nz(cs).len() - 1 { assert(cs[n - 1] == c); }
            else { assert(nz(d)[k] == c); assert(d.contains(c)); let i = choose|i: int| 0 <= i < d.len() && d[i] == c; assert(cs[i] == c); }
        }
    }
}
proof fn lemma_nz_nonzero(cs: Seq<u32>, k: int)
  requires 0 <= k < nz(cs).len()
  ensures nz(cs)[k] != 0
  decreases cs.len()
{
    if cs.len() > 0 {
        if cs.last() != 0 && k == nz(cs).len() - 1 { } else { lemma_nz_nonzero(cs.drop_last(), k); }
    }
}
proof fn lemma_nz_len(cs: Seq<u32>)
  ensures nz(cs).len() <= cs.len()
  decreases cs.len()
{
    if cs.len() > 0 { lemma_nz_len(cs.drop_last()); }
}
proof fn lemma_nz_no_duplicates(cs: Seq<u32>)
  requires no_dup(cs)
  ensures nz(cs).no_duplicates()
  decreases cs.len()
{
    if cs.len() > 0 {
        let d = cs.drop_last(); let n = cs.len() as int;
        assert(no_dup(d)) by { assert forall|i: int, j: int| 0 <= i < d.len() && 0 <= j < d.len() && i != j && d[i] != 0 implies d[i] != d[j] by { assert(cs[i] != cs[j]); } }
        lemma_nz_no_duplicates(d);
        if cs.last() != 0 {
            let c = cs.last();
            lemma_nz_contains(d, c);
            if d.contains(c) { let i = choose|i: int| 0 <= i < d.len() && d[i] == c; assert(cs[i] != cs[n - 1]); }
            assert forall|a: int, b: int| 0 <= a < nz(cs).len() && 0 <= b < nz(cs).len() && a != b implies nz(cs)[a] != nz(cs)[b] by {
                let m = nz(d).len() as int;
                if a == m { assert(nz(d)[b] != c) by { if nz(d)[b] == c { assert(nz(d).contains(c)); } } }
                else if b == m { assert(nz(d)[a] != c) by { if nz(d)[a] == c { assert(nz(d).contains(c)); } } }
                else { }
            }
        }
    }
}
// the coupons yielded by the iterator are exactly the view of the table
proof fn lemma_cset_nz(cs: Seq<u32>)
  ensures cset(nz(cs)) == cset(cs)
{
    assert forall|c: u32| cset(nz(cs)).contains(c) <==> #[trigger] cset(cs).contains(c) by { if c != 0 { lemma_nz_contains(cs, c); } }
    assert(cset(nz(cs)) =~= cset(cs));
}
// replaying one more coupon of a sequence
proof fn lemma_cset_take(s: Seq<u32>, i: int)
  requires 0 <= i < s.len(), s[i] != 0
  ensures cset(s.take(i + 1)) == cset(s.take(i)).insert(s[i]),
    s.no_duplicates() ==> !cset(s.take(i)).contains(s[i])
{
    let a = s.take(i); let b = s.take(i + 1);
    assert forall|c: u32| #[trigger] cset(b).contains(c) <==> cset(a).insert(s[i]).contains(c) by {
        if cset(a).contains(c) { let k = choose|k: int| 0 <= k < a.len() && a[k] == c; assert(b[k] == c); }
        if c == s[i] { assert(b[i] == c); }
        if cset(b).contains(c) { let k = choose|k: int| 0 <= k < b.len() && b[k] == c; if k < i { assert(a[k] == c); } }
    }
    assert(cset(b) =~= cset(a).insert(s[i]));
    if s.no_duplicates() && cset(a).contains(s[i]) { let k = choose|k: int| 0 <= k < a.len() && a[k] == s[i]; assert(s[k] == s[i]); }
}
proof fn lemma_cset_empty(s: Seq<u32>)
  requires s.len() == 0
  ensures cset(s) == ISet::<u32>::empty()
{
    assert(cset(s) =~= ISet::<u32>::empty());
}

// =====================================================================================================================
// The textbook model of an HLL register array: register[slot] = max value over the coupons mapped to slot (0 if none)
// =====================================================================================================================
spec fn max8(a: u8, b: u8) -> u8 { if a >= b { a } else { b } }
spec fn slot_of(c: u32, lg: u8) -> int { (cslot(c) as int) % (pow2(lg as nat) as int) }
spec fn reg_apply(r: Seq<u8>, c: u32, lg: u8) -> Seq<u8> { r.update(slot_of(c, lg), max8(r[slot_of(c, lg)], cval(c))) }
spec fn is_regs_of(r: Seq<u8>, s: ISet<u32>, lg: u8) -> bool {
    &&& r.len() == pow2(lg as nat)
    &&& forall|c: u32| s.contains(c) ==> r[#[trigger] slot_of(c, lg)] >= cval(c)
    &&& forall|i: int| 0 <= i < r.len() && r[i] != 0 ==> exists|c: u32| s.contains(c) && #[trigger] slot_of(c, lg) == i && cval(c) == r[i]
}
proof fn lemma_slot_range(c: u32, lg: u8)
  ensures 0 <= slot_of(c, lg) < pow2(lg as nat)
{
    lemma_pow2_pos(lg as nat);
    vstd::arithmetic::div_mod::lemma_mod_bound(cslot(c) as int, pow2(lg as nat) as int);
}
proof fn lemma_regs_zero(lg: u8)
  ensures is_regs_of(Seq::new(pow2(lg as nat), |i: int| 0u8), ISet::<u32>::empty(), lg)
{
}
// C02 core step: max-updating the register of c turns the model of S into the model of S ∪ {c}
proof fn lemma_regs_step(r: Seq<u8>, s: ISet<u32>, c: u32, lg: u8)
  requires is_regs_of(r, s, lg)
  ensures is_regs_of(reg_apply(r, c, lg), s.insert(c), lg)
{
    let r2 = reg_apply(r, c, lg); let s2 = s.insert(c); let sl = slot_of(c, lg);
    lemma_slot_range(c, lg);
    assert forall|x: u32| s2.contains(x) implies r2[#[trigger] slot_of(x, lg)] >= cval(x) by {
        lemma_slot_range(x, lg);
        if x != c { assert(s.contains(x)); }
    }
    assert forall|i: int| 0 <= i < r2.len() && r2[i] != 0 implies exists|x: u32| s2.contains(x) && #[trigger] slot_of(x, lg) == i && cval(x) == r2[i] by {
        if i == sl && r2[i] == cval(c) { assert(s2.contains(c) && slot_of(c, lg) == i); }
        else {
            assert(r[i] == r2[i]);
            let x = choose|x: u32| s.contains(x) && #[trigger] slot_of(x, lg) == i && cval(x) == r[i];
            assert(s2.contains(x) && slot_of(x, lg) == i);
        }
    }
}
// the model determines the registers: two register arrays that model the same coupon set are equal
proof fn lemma_regs_unique(r1: Seq<u8>, r2: Seq<u8>, s: ISet<u32>, lg: u8)
  requires is_regs_of(r1, s, lg), is_regs_of(r2, s, lg)
  ensures r1 == r2
{
    assert forall|i: int| 0 <= i < r1.len() implies r1[i] == r2[i] by {
        if r1[i] != 0 { let x = choose|x: u32| s.contains(x) && #[trigger] slot_of(x, lg) == i && cval(x) == r1[i]; assert(r2[slot_of(x, lg)] >= cval(x)); }
        if r2[i] != 0 { let x = choose|x: u32| s.contains(x) && #[trigger] slot_of(x, lg) == i && cval(x) == r2[i]; assert(r1[slot_of(x, lg)] >= cval(x)); }
    }
    assert(r1 =~= r2);
}

// =====================================================================================================================
// hll/container.rs, list.rs, hash_set.rs: by contract (verified in unit hll_coupons)
// =====================================================================================================================
enum HllType {
Hll4 , Hll6 , Hll8 , }

impl Clone for HllType { fn clone(&self) -> Self { match self { HllType::Hll4 => HllType::Hll4, HllType::Hll6 => HllType::Hll6, HllType::Hll8 => HllType::Hll8 } } }
impl Copy for HllType {}

struct Container {
lg_size : usize , coupons : Box < [ u32 ] > , len : usize , }


impl Container {
    spec fn view(&self) -> ISet<u32> { cset(self.coupons@) }
    spec fn wf_len(&self) -> bool { self.len == nz(self.coupons@).len() }

    fn len ( & self ) -> ( r : usize ) ensures r == self . len {
self . len }


    fn lg_size ( & self ) -> ( r : usize ) ensures r == self . lg_size {
self . lg_size }


    fn is_full ( & self ) -> ( r : bool ) ensures r == ( self . len == self . coupons @ . len ( ) ) {
self . len == self . coupons . len ( ) }


    fn capacity ( & self ) -> ( r : usize ) ensures r == self . coupons @ . len ( ) {
self . coupons . len ( ) }


    // float leaf (cubic interpolation over the coupon count); only passed on to set_hip_accum
    #[verifier::external_body]
    fn estimate(&self) -> (r: f64)
    { unimplemented!() }
}

// R16 shim for `Container::iter` (an `impl Iterator` adapter chain): the non-empty coupons in table order, materialized
#[verifier::external_body]
fn vx_iter_container(c: &Container) -> (r: Vec<u32>)
  ensures r@ == nz(c.coupons@)
{ c.coupons.iter().filter(|&&c| c != COUPON_EMPTY).copied().collect() }

struct List {
container : Container , }

impl List {
    spec fn view(&self) -> ISet<u32> { cset(self.container.coupons@) }
    spec fn wf(&self) -> bool { packed(self.container.coupons@, self.container.len as int) && no_dup(self.container.coupons@) }

    #[verifier::external_body]
    fn default() -> (r: Self)
      ensures r.wf(), r@ == ISet::<u32>::empty(), r.container.len == 0, r.container.lg_size == 3, r.container.coupons@.len() == 8
    { unimplemented!() }

    fn container ( & self ) -> ( r : & Container ) ensures r == & self . container {
& self . container }


    #[verifier::external_body]
    fn update(&mut self, coupon: u32)
      requires old(self).wf(), coupon != 0,
        old(self).container.len < old(self).container.coupons@.len(),
      ensures
        final(self).wf(), final(self).container.lg_size == old(self).container.lg_size,
        final(self)@ == old(self)@.insert(coupon),
        final(self).container.coupons@ == (if old(self)@.contains(coupon) { old(self).container.coupons@ } else { old(self).container.coupons@.update(old(self).container.len as int, coupon) }),
        final(self).container.len == old(self).container.len + (if old(self)@.contains(coupon) { 0int } else { 1int }),
        final(self).container.wf_len(),
    { unimplemented!() }
}

struct HashSet {
container : Container , }

impl HashSet {
    spec fn view(&self) -> ISet<u32> { cset(self.container.coupons@) }
    spec fn shape(&self) -> bool { tbl_shape(self.container.coupons@, self.container.lg_size) }
    spec fn has_room(&self) -> bool { nz(self.container.coupons@).len() < self.container.coupons@.len() }
    spec fn wf(&self) -> bool { tbl_ok(self.container.coupons@, self.container.lg_size) && self.container.wf_len() }

    #[verifier::external_body]
    fn default() -> (r: Self)
      ensures r.wf(), r@ == ISet::<u32>::empty(), r.container.len == 0, r.container.lg_size == 5, r.container.coupons@.len() == 32
    { unimplemented!() }

    #[verifier::external_body]
    fn new(lg_size: usize) -> (r: Self)
      requires lg_size <= 26
      ensures r.wf(), r@ == ISet::<u32>::empty(), r.container.len == 0, r.container.lg_size == lg_size, r.container.coupons@.len() == pow2(lg_size as nat)
    { unimplemented!() }

    fn container ( & self ) -> ( r : & Container ) ensures r == & self . container {
& self . container }


    #[verifier::external_body]
    fn update(&mut self, coupon: u32)
      requires old(self).shape(), coupon != 0, old(self).container.len < usize::MAX,
        old(self).has_room(),
      ensures
        final(self).shape(), final(self).container.lg_size == old(self).container.lg_size,
        final(self)@ == old(self)@.insert(coupon),
        final(self).container.len <= old(self).container.len + 1,
        old(self).wf() ==> final(self).wf(),
        old(self).wf() ==> final(self).container.len == old(self).container.len + (if old(self)@.contains(coupon) { 0int } else { 1int }),
    { unimplemented!() }
}

// =====================================================================================================================
// hll/array4.rs, array6.rs, array8.rs: by contract (verified in units hll_array4 / hll_array6 / hll_array8 against the
// views reg(i) / regs() of those units; here the register view is abstract)
// =====================================================================================================================
#[verifier::external_body]
struct Array4 { _p: u8 }
#[verifier::external_body]
struct Array6 { _p: u8 }
#[verifier::external_body]
struct Array8 { _p: u8 }
spec fn zero_regs(lg: u8) -> Seq<u8> { Seq::new(pow2(lg as nat), |i: int| 0u8) }
impl Array4 {
    uninterp spec fn regs(&self) -> Seq<u8>;
    uninterp spec fn lg(&self) -> u8;
    // (named wf2 as in unit hll_array4, where new / update are verified: the full invariant including the cur_min counter)
    uninterp spec fn wf2(&self) -> bool;
    #[verifier::external_body]
    fn new(lg_config_k: u8) -> (r: Self)
      requires 4 <= lg_config_k <= 21
      ensures r.wf2(), r.lg() == lg_config_k, r.regs() == zero_regs(lg_config_k)
    { unimplemented!() }
    #[verifier::external_body]
    fn update(&mut self, coupon: u32)
      requires old(self).wf2()
      ensures final(self).wf2(), final(self).lg() == old(self).lg(), final(self).regs() == reg_apply(old(self).regs(), coupon, old(self).lg())
    { unimplemented!() }
    // writes the float accumulator of the estimator only
    #[verifier::external_body]
    fn set_hip_accum(&mut self, value: f64)
      ensures final(self).wf2() == old(self).wf2(), final(self).lg() == old(self).lg(), final(self).regs() == old(self).regs()
    { unimplemented!() }
}
impl Array6 {
    uninterp spec fn regs(&self) -> Seq<u8>;
    uninterp spec fn lg(&self) -> u8;
    uninterp spec fn wf(&self) -> bool;
    #[verifier::external_body]
    fn new(lg_config_k: u8) -> (r: Self)
      requires 4 <= lg_config_k <= 21
      ensures r.wf(), r.lg() == lg_config_k, r.regs() == zero_regs(lg_config_k)
    { unimplemented!() }
    #[verifier::external_body]
    fn update(&mut self, coupon: u32)
      requires old(self).wf()
      ensures final(self).wf(), final(self).lg() == old(self).lg(), final(self).regs() == reg_apply(old(self).regs(), coupon, old(self).lg())
    { unimplemented!() }
    #[verifier::external_body]
    fn set_hip_accum(&mut self, value: f64)
      ensures final(self).wf() == old(self).wf(), final(self).lg() == old(self).lg(), final(self).regs() == old(self).regs()
    { unimplemented!() }
}
impl Array8 {
    uninterp spec fn regs(&self) -> Seq<u8>;
    uninterp spec fn lg(&self) -> u8;
    uninterp spec fn wf(&self) -> bool;
    #[verifier::external_body]
    fn new(lg_config_k: u8) -> (r: Self)
      requires 4 <= lg_config_k <= 21
      ensures r.wf(), r.lg() == lg_config_k, r.regs() == zero_regs(lg_config_k)
    { unimplemented!() }
    #[verifier::external_body]
    fn update(&mut self, coupon: u32)
      requires old(self).wf()
      ensures final(self).wf(), final(self).lg() == old(self).lg(), final(self).regs() == reg_apply(old(self).regs(), coupon, old(self).lg())
    { unimplemented!() }
    #[verifier::external_body]
    fn set_hip_accum(&mut self, value: f64)
      ensures final(self).wf() == old(self).wf(), final(self).lg() == old(self).lg(), final(self).regs() == old(self).regs()
    { unimplemented!() }
}

// hll/mod.rs `coupon`: by contract (verified in unit hll_coupons, C16): the coupon is a function of the item's murmur digest
spec fn cpack(slot: u32, value: u8) -> u32 { (((value & 0x3f) as u32) << 26) | (slot & 0x3ffffff) }
spec fn clz64(x: u64) -> int { vstd::std_specs::bits::u64_leading_zeros(x) as int }
spec fn min_int(a: int, b: int) -> int { if a <= b { a } else { b } }
spec fn coupon_of(lo: u64, hi: u64) -> u32 { cpack((lo & 0x3ffffff) as u32, (min_int(clz64(hi), 62) + 1) as u8) }
uninterp spec fn murmur128<H>(v: H) -> (u64, u64);
#[verifier::external_body]
fn coupon<H: Hash>(v: H) -> (r: u32)
  ensures r == coupon_of(murmur128(v).0, murmur128(v).1), r != 0
{ unimplemented!() }

// =====================================================================================================================
// hll/mode.rs, hll/sketch.rs
// =====================================================================================================================
enum Mode {
List {
list : List , hll_type : HllType }
, Set {
set : HashSet , hll_type : HllType }
, Array4 ( Array4 ) , Array6 ( Array6 ) , Array8 ( Array8 ) , }


struct HllSketch {
lg_config_k : u8 , mode : Mode , }


// sparse modes: the coupon set; dense modes: the register array
spec fn mode_wf(m: Mode, lg_k: u8) -> bool {
    match m {
        // a list has 8 slots and is promoted as soon as it is full
        Mode::List { list, hll_type } => list.wf() && list.container.lg_size == 3 && list.container.coupons@.len() == 8 && list.container.len < 8,
        // a set is grown / promoted as soon as its load exceeds 3/4; it never outgrows 2^(lg_k - 3) slots
        Mode::Set { set, hll_type } => set.wf() && lg_k >= 8 && 5 <= set.container.lg_size <= lg_k - 3 && 4 * set.container.len <= 3 * set.container.coupons@.len(),
        Mode::Array4(a) => a.wf2() && a.lg() == lg_k,
        Mode::Array6(a) => a.wf() && a.lg() == lg_k,
        Mode::Array8(a) => a.wf() && a.lg() == lg_k,
    }
}
// the mode holds exactly the textbook state for the coupon set s
spec fn mode_models(m: Mode, lg_k: u8, s: ISet<u32>) -> bool {
    match m {
        Mode::List { list, hll_type } => list@ == s,
        Mode::Set { set, hll_type } => set@ == s,
        Mode::Array4(a) => is_regs_of(a.regs(), s, lg_k),
        Mode::Array6(a) => is_regs_of(a.regs(), s, lg_k),
        Mode::Array8(a) => is_regs_of(a.regs(), s, lg_k),
    }
}
spec fn mode_type(m: Mode) -> HllType {
    match m {
        Mode::List { list, hll_type } => hll_type,
        Mode::Set { set, hll_type } => hll_type,
        Mode::Array4(a) => HllType::Hll4,
        Mode::Array6(a) => HllType::Hll6,
        Mode::Array8(a) => HllType::Hll8,
    }
}
// the sparse representations stay small (C18): list count <= 7, set count <= 3/4 * 2^lg_arr, lg_arr <= lg_k - 3
spec fn mode_sparse_bound(m: Mode, lg_k: u8) -> bool {
    match m {
        Mode::List { list, hll_type } => list.container.len <= 7 && list.container.coupons@.len() == 8,
        Mode::Set { set, hll_type } => 4 * set.container.len <= 3 * set.container.coupons@.len() && set.container.coupons@.len() == pow2(set.container.lg_size as nat) && set.container.lg_size <= lg_k - 3,
        _ => true,
    }
}

proof fn lemma_pow2_small()
  ensures pow2(3) == 8, pow2(5) == 32
{
    lemma2_to64();
}
proof fn lemma_pow2_double(n: nat)
  ensures pow2(n + 1) == 2 * pow2(n), pow2(n) > 0
{
    lemma_pow2_unfold(n + 1); lemma_pow2_pos(n);
}
proof fn lemma_pow2_ge32(n: nat)
  requires 5 <= n <= 26
  ensures 32 <= pow2(n) <= 0x4000000
{
    lemma2_to64();
    if n > 5 { lemma_pow2_strictly_increases(5, n); }
    if n < 26 { lemma_pow2_strictly_increases(n, 26); }
}

// R12b: a DOCUMENTED panic ("# Panics: if lg_config_k is not in range [4, 21]") is modelled as 'returns only if the condition holds':
// the condition is a tagged POSTCONDITION (`*_validated`) instead of a precondition, so weakening or removing the check is noticed.
// Body = the original statement.
#[verifier::external_body] fn vx_documented_panic(c: bool) ensures c { assert!(c); }

impl HllSketch {
    spec fn wf(&self) -> bool { 4 <= self.lg_config_k <= 21 && mode_wf(self.mode, self.lg_config_k) }
    spec fn models(&self, s: ISet<u32>) -> bool { mode_models(self.mode, self.lg_config_k, s) }

    fn new ( lg_config_k : u8 , hll_type : HllType ) -> ( r : Self ) ensures
/*@C17.hll.lg_k_range_validated*/ 4 <= lg_config_k <= 21 ,
/*@C02.sketch_init*/ r . wf ( ) , r . models ( ISet :: < u32 > :: empty ( ) ) , r . lg_config_k == lg_config_k , mode_type ( r . mode ) == hll_type ,
/*@C02.sketch_init_list*/ r . mode is List ,
/*@C18.hll.sparse_size*/ mode_sparse_bound ( r . mode , r . lg_config_k ) , {
vx_documented_panic ( ( 4 ..= 21 ) . contains ( & lg_config_k ) ) ;
let list = List :: default ( ) ;
Self {
lg_config_k , mode : Mode :: List {
list , hll_type }
, }
}


    fn update < T : Hash > ( & mut self , value : T ) requires old ( self ) . wf ( ) ensures
/*@C02.sketch_wf*/ final ( self ) . wf ( ) , final ( self ) . lg_config_k == old ( self ) . lg_config_k ,
/*@C02.sketch_type*/ mode_type ( final ( self ) . mode ) == mode_type ( old ( self ) . mode ) ,
/*@C02.sketch_model_item*/ forall | s : ISet < u32 > | # [ trigger ] old ( self ) . models ( s ) ==> final ( self ) . models ( s . insert ( coupon_of ( murmur128 ( value ) . 0 , murmur128 ( value ) . 1 ) ) ) ,
/*@C18.hll.sparse_size*/ mode_sparse_bound ( final ( self ) . mode , final ( self ) . lg_config_k ) , {
let coupon = coupon ( value ) ;
self . update_with_coupon ( coupon ) ;
}


    fn update_with_coupon ( & mut self , coupon : u32 ) requires old ( self ) . wf ( ) , coupon != 0 ensures
/*@C02.sketch_wf*/ final ( self ) . wf ( ) , final ( self ) . lg_config_k == old ( self ) . lg_config_k ,
/*@C02.sketch_type*/ mode_type ( final ( self ) . mode ) == mode_type ( old ( self ) . mode ) ,
/*@C02.sketch_model*/ forall | s : ISet < u32 > | # [ trigger ] old ( self ) . models ( s ) ==> final ( self ) . models ( s . insert ( coupon ) ) ,
/*@C18.hll.sparse_size*/ mode_sparse_bound ( final ( self ) . mode , final ( self ) . lg_config_k ) , {
proof {
lemma_pow2_small ( ) ;
assert forall | r : Seq < u8 > , s : ISet < u32 > , lg : u8 | # [ trigger ] is_regs_of ( r , s , lg ) implies is_regs_of ( reg_apply ( r , coupon , lg ) , s . insert ( coupon ) , lg ) by {
lemma_regs_step ( r , s , coupon , lg ) ;
}
}
match & mut self . mode {
Mode :: List {
list , hll_type }
=> {
list . update ( coupon ) ;
let should_promote = list . container ( ) . is_full ( ) ;
if should_promote {
self . mode = if self . lg_config_k < 8 {
promote_container_to_array ( list . container ( ) , * hll_type , self . lg_config_k ) }
else {
promote_container_to_set ( list . container ( ) , * hll_type ) }
}
}
Mode :: Set {
set , hll_type }
=> {
proof {
lemma_nz_len ( set . container . coupons @ ) ;
lemma_pow2_ge32 ( set . container . lg_size as nat ) ;
}
set . update ( coupon ) ;
let should_promote = RESIZE_DENOMINATOR as usize * set . container ( ) . len ( ) > RESIZE_NUMERATOR as usize * set . container ( ) . capacity ( ) ;
if should_promote {
self . mode = if set . container ( ) . lg_size ( ) == self . lg_config_k as usize - 3 {
promote_container_to_array ( set . container ( ) , * hll_type , self . lg_config_k ) }
else {
grow_set ( set , * hll_type ) }
}
}
Mode :: Array4 ( arr ) => arr . update ( coupon ) , Mode :: Array6 ( arr ) => arr . update ( coupon ) , Mode :: Array8 ( arr ) => arr . update ( coupon ) , }
}

}

fn promote_container_to_set ( container : & Container , hll_type : HllType ) -> ( r : Mode ) requires nz ( container . coupons @ ) . len ( ) <= 24 ensures ( r matches Mode :: Set {
set , hll_type : h }
&& h == hll_type && set . wf ( ) && set . container . lg_size == 5 && set . container . coupons @ . len ( ) == 32 &&
/*@C02.promote.list_to_set*/ set @ == container @ &&
/*@C18.hll.promote_set_load*/ set . container . len <= nz ( container . coupons @ ) . len ( ) ) , {
let mut set = HashSet :: default ( ) ;
let vx_s1 = vx_iter_container ( container ) ;
let mut vx_i1 = 0 ;
proof {
lemma_cset_empty ( vx_s1 @ . take ( 0 ) ) ;
}
while vx_i1 < vx_s1 . len ( ) invariant vx_s1 @ == nz ( container . coupons @ ) , vx_s1 @ . len ( ) <= 24 , vx_i1 <= vx_s1 @ . len ( ) , set . wf ( ) , set . container . lg_size == 5 , set . container . coupons @ . len ( ) == 32 , set . container . len <= vx_i1 ,
/*@C02.promote.list_to_set*/ set @ == cset ( vx_s1 @ . take ( vx_i1 as int ) ) , decreases vx_s1 @ . len ( ) - vx_i1 {
proof {
lemma_nz_nonzero ( container . coupons @ , vx_i1 as int ) ;
lemma_cset_take ( vx_s1 @ , vx_i1 as int ) ;
}
let coupon = vx_s1 [ vx_i1 ] ;
set . update ( coupon ) ;
vx_i1 += 1 ;
}
proof {
assert ( vx_s1 @ . take ( vx_i1 as int ) =~= vx_s1 @ ) ;
lemma_cset_nz ( container . coupons @ ) ;
}
Mode :: Set {
set , hll_type }
}


fn grow_set ( old_set : & HashSet , hll_type : HllType ) -> ( r : Mode ) requires old_set . shape ( ) , old_set . container . lg_size < 26 ensures ( r matches Mode :: Set {
set , hll_type : h }
&& h == hll_type && set . wf ( ) && set . container . lg_size == old_set . container . lg_size + 1 && set . container . coupons @ . len ( ) == 2 * old_set . container . coupons @ . len ( ) &&
/*@C02.promote.grow_set*/ set @ == old_set @ &&
/*@C18.hll.grow_set_load*/ set . container . len <= nz ( old_set . container . coupons @ ) . len ( ) &&
/*@C02.promote.grow_set_count*/ ( old_set . wf ( ) ==> set . container . len == old_set . container . len ) ) , {
let new_size = old_set . container ( ) . lg_size ( ) + 1 ;
let mut new_set = HashSet :: new ( new_size ) ;
let vx_s1 = vx_iter_container ( old_set . container ( ) ) ;
let mut vx_i1 = 0 ;
proof {
lemma_cset_empty ( vx_s1 @ . take ( 0 ) ) ;
lemma_nz_len ( old_set . container . coupons @ ) ;
lemma_pow2_double ( old_set . container . lg_size as nat ) ;
if old_set . wf ( ) {
lemma_nz_no_duplicates ( old_set . container . coupons @ ) ;
}
}
while vx_i1 < vx_s1 . len ( ) invariant vx_s1 @ == nz ( old_set . container . coupons @ ) , vx_s1 @ . len ( ) <= old_set . container . coupons @ . len ( ) , vx_i1 <= vx_s1 @ . len ( ) , old_set . wf ( ) ==> vx_s1 @ . no_duplicates ( ) , new_set . wf ( ) , new_set . container . lg_size == old_set . container . lg_size + 1 , new_set . container . coupons @ . len ( ) == 2 * old_set . container . coupons @ . len ( ) , new_set . container . len <= vx_i1 ,
/*@C02.promote.grow_set_count*/ old_set . wf ( ) ==> new_set . container . len == vx_i1 ,
/*@C02.promote.grow_set*/ new_set @ == cset ( vx_s1 @ . take ( vx_i1 as int ) ) , decreases vx_s1 @ . len ( ) - vx_i1 {
proof {
lemma_nz_nonzero ( old_set . container . coupons @ , vx_i1 as int ) ;
lemma_cset_take ( vx_s1 @ , vx_i1 as int ) ;
}
let coupon = vx_s1 [ vx_i1 ] ;
new_set . update ( coupon ) ;
vx_i1 += 1 ;
}
proof {
assert ( vx_s1 @ . take ( vx_i1 as int ) =~= vx_s1 @ ) ;
lemma_cset_nz ( old_set . container . coupons @ ) ;
}
Mode :: Set {
set : new_set , hll_type , }
}


fn promote_container_to_array ( container : & Container , hll_type : HllType , lg_config_k : u8 ) -> ( r : Mode ) requires 4 <= lg_config_k <= 21 ensures mode_type ( r ) == hll_type , ! ( r is List ) , ! ( r is Set ) , mode_wf ( r , lg_config_k ) ,
/*@C02.promote.to_array*/ mode_models ( r , lg_config_k , container @ ) , {
match hll_type {
HllType :: Hll4 => {
let mut array = Array4 :: new ( lg_config_k ) ;
let vx_s1 = vx_iter_container ( container ) ;
let mut vx_i1 = 0 ;
proof {
lemma_cset_empty ( vx_s1 @ . take ( 0 ) ) ;
lemma_regs_zero ( lg_config_k ) ;
}
while vx_i1 < vx_s1 . len ( ) invariant vx_s1 @ == nz ( container . coupons @ ) , vx_i1 <= vx_s1 @ . len ( ) , array . wf2 ( ) , array . lg ( ) == lg_config_k ,
/*@C02.promote.to_array*/ is_regs_of ( array . regs ( ) , cset ( vx_s1 @ . take ( vx_i1 as int ) ) , lg_config_k ) , decreases vx_s1 @ . len ( ) - vx_i1 {
proof {
lemma_nz_nonzero ( container . coupons @ , vx_i1 as int ) ;
lemma_cset_take ( vx_s1 @ , vx_i1 as int ) ;
lemma_regs_step ( array . regs ( ) , cset ( vx_s1 @ . take ( vx_i1 as int ) ) , vx_s1 @ [ vx_i1 as int ] , lg_config_k ) ;
}
let coupon = vx_s1 [ vx_i1 ] ;
array . update ( coupon ) ;
vx_i1 += 1 ;
}
proof {
assert ( vx_s1 @ . take ( vx_i1 as int ) =~= vx_s1 @ ) ;
lemma_cset_nz ( container . coupons @ ) ;
}
array . set_hip_accum ( container . estimate ( ) ) ;
Mode :: Array4 ( array ) }
HllType :: Hll6 => {
let mut array = Array6 :: new ( lg_config_k ) ;
let vx_s2 = vx_iter_container ( container ) ;
let mut vx_i2 = 0 ;
proof {
lemma_cset_empty ( vx_s2 @ . take ( 0 ) ) ;
lemma_regs_zero ( lg_config_k ) ;
}
while vx_i2 < vx_s2 . len ( ) invariant vx_s2 @ == nz ( container . coupons @ ) , vx_i2 <= vx_s2 @ . len ( ) , array . wf ( ) , array . lg ( ) == lg_config_k ,
/*@C02.promote.to_array*/ is_regs_of ( array . regs ( ) , cset ( vx_s2 @ . take ( vx_i2 as int ) ) , lg_config_k ) , decreases vx_s2 @ . len ( ) - vx_i2 {
proof {
lemma_nz_nonzero ( container . coupons @ , vx_i2 as int ) ;
lemma_cset_take ( vx_s2 @ , vx_i2 as int ) ;
lemma_regs_step ( array . regs ( ) , cset ( vx_s2 @ . take ( vx_i2 as int ) ) , vx_s2 @ [ vx_i2 as int ] , lg_config_k ) ;
}
let coupon = vx_s2 [ vx_i2 ] ;
array . update ( coupon ) ;
vx_i2 += 1 ;
}
proof {
assert ( vx_s2 @ . take ( vx_i2 as int ) =~= vx_s2 @ ) ;
lemma_cset_nz ( container . coupons @ ) ;
}
array . set_hip_accum ( container . estimate ( ) ) ;
Mode :: Array6 ( array ) }
HllType :: Hll8 => {
let mut array = Array8 :: new ( lg_config_k ) ;
let vx_s3 = vx_iter_container ( container ) ;
let mut vx_i3 = 0 ;
proof {
lemma_cset_empty ( vx_s3 @ . take ( 0 ) ) ;
lemma_regs_zero ( lg_config_k ) ;
}
while vx_i3 < vx_s3 . len ( ) invariant vx_s3 @ == nz ( container . coupons @ ) , vx_i3 <= vx_s3 @ . len ( ) , array . wf ( ) , array . lg ( ) == lg_config_k ,
/*@C02.promote.to_array*/ is_regs_of ( array . regs ( ) , cset ( vx_s3 @ . take ( vx_i3 as int ) ) , lg_config_k ) , decreases vx_s3 @ . len ( ) - vx_i3 {
proof {
lemma_nz_nonzero ( container . coupons @ , vx_i3 as int ) ;
lemma_cset_take ( vx_s3 @ , vx_i3 as int ) ;
lemma_regs_step ( array . regs ( ) , cset ( vx_s3 @ . take ( vx_i3 as int ) ) , vx_s3 @ [ vx_i3 as int ] , lg_config_k ) ;
}
let coupon = vx_s3 [ vx_i3 ] ;
array . update ( coupon ) ;
vx_i3 += 1 ;
}
proof {
assert ( vx_s3 @ . take ( vx_i3 as int ) =~= vx_s3 @ ) ;
lemma_cset_nz ( container . coupons @ ) ;
}
array . set_hip_accum ( container . estimate ( ) ) ;
Mode :: Array8 ( array ) }
}
}

}
fn main(){}
