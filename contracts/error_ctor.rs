#![allow(non_snake_case)]
use vstd::prelude::*;
use std::fmt;
verus! {
// =====================================================================================================================
// error.rs: the crate's Error type and its constructors.  Every other unit uses these through `external_body` stubs of which only
// "returns an Error" is assumed; this unit verifies the real bodies: they are total (no panic, no arithmetic, no indexing) and
// kind() / message() return what the constructor was given.
// String-producing std leaves (`Into<String>::into`, `ToString::to_string`, `format!`) enter through shims whose body is the original
// expression and whose result is an uninterpreted function of the arguments (nothing about the TEXT of a message is claimed).
// =====================================================================================================================
#[derive(Clone, Copy, PartialEq, Eq)]
#[non_exhaustive]
enum ErrorKind {
    InvalidArgument,
    InvalidData,
}

struct Error {
    kind: ErrorKind,
    message: String,
    context: Vec<(&'static str, String)>,
}

// `message.into()` (R15 std leaf)
pub uninterp spec fn into_string_spec<M>(m: M) -> Seq<char>;
#[verifier::external_body]
#[verifier::allow(undeclared_external_trait)]
fn vx_into_string<M: Into<String>>(m: M) -> (r: String) ensures r@ == into_string_spec(m) { m.into() }
// std: `impl<T> From<T> for T` (identity) and `impl From<&str> for String` (copies the characters).  KX shim_into_string_identity (bounded: <= 4 bytes)
#[verifier::external_body] proof fn axiom_into_string_of_string(s: String) ensures into_string_spec::<String>(s) == s@ {}
#[verifier::external_body] proof fn axiom_into_string_of_str(s: &'static str) ensures into_string_spec::<&'static str>(s) == s@ {}
// `value.to_string()` (R15 std leaf)
pub uninterp spec fn to_string_spec<V>(v: V) -> Seq<char>;
#[verifier::external_body]
#[verifier::allow(undeclared_external_trait)]
fn vx_to_string<V: ToString>(v: V) -> (r: String) ensures r@ == to_string_spec(v) { v.to_string() }
// `format!(..)` (R15 std leaves; one shim per call site, the body is the original macro call)
pub uninterp spec fn fmt_insufficient_data_spec<D>(msg: D) -> Seq<char>;
#[verifier::external_body]
#[verifier::allow(undeclared_external_trait)]
fn vx_fmt_insufficient_data<D: fmt::Display>(msg: D) -> (r: String) ensures r@ == fmt_insufficient_data_spec(msg) { format!("insufficient data: {msg}") }
pub uninterp spec fn fmt_insufficient_data_of_spec<D>(context: &'static str, msg: D) -> Seq<char>;
#[verifier::external_body]
#[verifier::allow(undeclared_external_trait)]
fn vx_fmt_insufficient_data_of<D: fmt::Display>(context: &'static str, msg: D) -> (r: String) ensures r@ == fmt_insufficient_data_of_spec(context, msg) { format!("insufficient data ({context}): {msg}") }
pub uninterp spec fn fmt_invalid_family_spec(expected: u8, name: &'static str, actual: u8) -> Seq<char>;
#[verifier::external_body]
fn vx_fmt_invalid_family(expected: u8, name: &'static str, actual: u8) -> (r: String) ensures r@ == fmt_invalid_family_spec(expected, name, actual) { format!("invalid family: expected {expected} ({name}), got {actual}") }
pub uninterp spec fn fmt_invalid_preamble_longs_spec(expected: Seq<u8>, actual: u8) -> Seq<char>;
#[verifier::external_body]
fn vx_fmt_invalid_preamble_longs(expected: &[u8], actual: u8) -> (r: String) ensures r@ == fmt_invalid_preamble_longs_spec(expected@, actual) { format!("invalid preamble longs: expected {expected:?}, got {actual}") }

// R21: with_context takes `mut self`; `self.context.push(e); self` is the functional update (VERIFIED here, not assumed)
fn vx_push_context(e: Error, key: &'static str, value: String) -> (r: Error)
  ensures r.kind == e.kind, r.message == e.message, r.context@ == e.context@.push((key, value))
{ let mut e = e; e.context.push((key, value)); e }

impl ErrorKind {
    const fn into_static(self) -> (r: &'static str)
      ensures /*@C17.error.kind_name*/ r@ == (match self { ErrorKind::InvalidArgument => "InvalidArgument"@, ErrorKind::InvalidData => "InvalidData"@ })
    {
        match self {
            ErrorKind::InvalidArgument => "InvalidArgument",
            ErrorKind::InvalidData => "InvalidData",
        }
    }
}

impl Error {
    // what a constructor fixes: the kind, the message text, and an empty context list
    spec fn is(&self, kind: ErrorKind, text: Seq<char>) -> bool { self.kind == kind && self.message@ == text && self.context@.len() == 0 }

    fn new(kind: ErrorKind, message: impl Into<String>) -> (r: Self)
      ensures /*@C17.error.new*/ r.is(kind, into_string_spec(message))
    {
        Self {
            kind,
            message: vx_into_string(message),
            context: vec![],
        }
    }

    #[verifier::allow(undeclared_external_trait)]
    fn with_context(self, key: &'static str, value: impl ToString) -> (r: Self)
      ensures /*@C17.error.with_context.frame*/ r.kind == self.kind && r.message == self.message,
        /*@C17.error.with_context.appended*/ r.context@.len() == self.context@.len() + 1 && r.context@.take(self.context@.len() as int) == self.context@
            && r.context@.last().0 == key && r.context@.last().1@ == to_string_spec(value),
    {
        vx_push_context(self, key, vx_to_string(value))
    }

    fn kind(&self) -> (r: ErrorKind)
      ensures /*@C17.error.kind*/ r == self.kind
    {
        self.kind
    }

    fn message(&self) -> (r: &str)
      ensures /*@C17.error.message*/ r@ == self.message@
    {
        self.message.as_str()
    }

    fn invalid_argument(msg: impl Into<String>) -> (r: Self)
      ensures /*@C17.error.invalid_argument*/ r.is(ErrorKind::InvalidArgument, into_string_spec(msg))
    {
        Self::new(ErrorKind::InvalidArgument, msg)
    }

    fn deserial(msg: impl Into<String>) -> (r: Self)
      ensures /*@C17.error.deserial*/ r.is(ErrorKind::InvalidData, into_string_spec(msg))
    {
        Self::new(ErrorKind::InvalidData, msg)
    }

    fn insufficient_data(msg: impl fmt::Display) -> (r: Self)
      ensures /*@C17.error.insufficient_data*/ r.is(ErrorKind::InvalidData, fmt_insufficient_data_spec(msg))
    {
        proof { assert forall|s: String| #[trigger] into_string_spec::<String>(s) == s@ by { axiom_into_string_of_string(s); } }
        Self::deserial(vx_fmt_insufficient_data(msg))
    }

    fn insufficient_data_of(context: &'static str, msg: impl fmt::Display) -> (r: Self)
      ensures /*@C17.error.insufficient_data_of*/ r.is(ErrorKind::InvalidData, fmt_insufficient_data_of_spec(context, msg))
    {
        proof { assert forall|s: String| #[trigger] into_string_spec::<String>(s) == s@ by { axiom_into_string_of_string(s); } }
        Self::deserial(vx_fmt_insufficient_data_of(context, msg))
    }

    fn invalid_family(expected: u8, actual: u8, name: &'static str) -> (r: Self)
      ensures /*@C17.error.invalid_family*/ r.is(ErrorKind::InvalidData, fmt_invalid_family_spec(expected, name, actual))
    {
        proof { assert forall|s: String| #[trigger] into_string_spec::<String>(s) == s@ by { axiom_into_string_of_string(s); } }
        Self::deserial(vx_fmt_invalid_family(expected, name, actual))
    }

    fn invalid_preamble_longs(expected: &[u8], actual: u8) -> (r: Self)
      ensures /*@C17.error.invalid_preamble_longs*/ r.is(ErrorKind::InvalidData, fmt_invalid_preamble_longs_spec(expected@, actual))
    {
        proof { assert forall|s: String| #[trigger] into_string_spec::<String>(s) == s@ by { axiom_into_string_of_string(s); } }
        Error::deserial(vx_fmt_invalid_preamble_longs(expected, actual))
    }
}

// the rustdoc example of `Error`, as a theorem about the real constructor and getters
fn vx_doc_example() {
    proof { axiom_into_string_of_str("bad input"); }
    let err = Error::new(ErrorKind::InvalidArgument, "bad input");
    let k = err.kind();
    let m = err.message();
    assert(/*@C17.error.doc_example*/ k == ErrorKind::InvalidArgument && m@ == "bad input"@);
}
}
fn main(){}
