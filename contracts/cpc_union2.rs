use vstd::prelude::*;
use vstd::iset::*;
use vstd::arithmetic::power2::*;
use vstd::arithmetic::div_mod::*;
verus! {
global size_of usize == 8;
const EMPTY: u32 = 0xffff_ffff;

// ---------- PairTable by contract: definitions and the contracts of new / maybe_insert copied VERBATIM from contracts/cpc_core.rs
// (which assumes them; the bodies are proved in the unit cpc_pairtable) ----------
#[derive(Clone)]
struct PairTable {
lg_size : u8 , num_valid_bits : u8 , num_items : u32 , slots : Vec < u32 > , }



spec fn pholds(ss: Seq<u32>, item: u32) -> bool { exists|i: int| 0 <= i < ss.len() && ss[i] == item }
spec fn pdistinct(ss: Seq<u32>) -> bool { forall|i: int, j: int| 0 <= i < ss.len() && 0 <= j < ss.len() && i != j && ss[i] != EMPTY ==> ss[i] != ss[j] }
spec fn pocc(ss: Seq<u32>) -> Set<int> { Set::range(0, ss.len() as int).filter(|i: int| ss[i] != EMPTY) }
impl PairTable {
    #[verifier::external_body]
    fn new(lg_size: u8, num_valid_bits: u8) -> (r: Self)
      requires 2 <= lg_size <= 26, lg_size + 1 <= num_valid_bits <= 32
      ensures r.wf(), r.lg_size == lg_size, r.num_valid_bits == num_valid_bits, r.num_items == 0, r.items() =~= ISet::<u32>::empty()
    { unimplemented!() }
    uninterp spec fn wf_rest(&self) -> bool;
    spec fn wf(&self) -> bool { self.wf_rest() && pdistinct(self.slots@) && self.num_items == pocc(self.slots@).len() }
    spec fn items(&self) -> ISet<u32> { ISet::new(|c: u32| c != EMPTY && pholds(self.slots@, c)) }
    spec fn room(&self) -> bool { self.lg_size < 26 || 4 * (self.num_items as int + 1) <= 3 * 0x400_0000 }
    #[verifier::external_body]
    fn maybe_insert(&mut self, item: u32) -> (r: bool)
      requires old(self).wf(), item != EMPTY, (item as int) < pow2(old(self).num_valid_bits as nat), old(self).room(),
      ensures final(self).wf(), final(self).num_valid_bits == old(self).num_valid_bits,
        r == !old(self).items().contains(item), final(self).items() == old(self).items().insert(item),
        final(self).num_items == old(self).num_items + (if r { 1u32 } else { 0u32 }),
    { unimplemented!() }
}

// ---------- cpc/mod.rs ----------
#[derive(PartialEq, Eq, Structural)]
enum Flavor {
Empty , Sparse , Hybrid , Pinned , Sliding , }



// flavor_spec, dco and the contracts of determine_flavor / determine_correct_offset: copied VERBATIM from contracts/cpc_update.rs, where the bodies are verified
spec fn flavor_spec(lg_k: u8, c: u32) -> Flavor {
    let k = pow2(lg_k as nat) as int; let c = c as int;
    if c == 0 { Flavor::Empty } else if 32 * c < 3 * k { Flavor::Sparse } else if 2 * c < k { Flavor::Hybrid } else if 8 * c < 27 * k { Flavor::Pinned } else { Flavor::Sliding }
}
#[verifier::external_body]
fn determine_flavor(lg_k: u8, num_coupons: u32) -> (r: Flavor)
  requires 4 <= lg_k <= 26
  ensures r == flavor_spec(lg_k, num_coupons)
{ unimplemented!() }
spec fn dco(lg_k: u8, c: u32) -> int { let k = pow2(lg_k as nat) as int; if 8 * (c as int) < 19 * k { 0 } else { (8 * (c as int) - 19 * k) / (8 * k) } }
#[verifier::external_body]
fn determine_correct_offset(lg_k: u8, num_coupons: u32) -> (r: u8)
  requires 4 <= lg_k <= 26
  ensures dco(lg_k, num_coupons) <= 255 ==> r == dco(lg_k, num_coupons)
{ unimplemented!() }

// ---------- popcount as a count over bits ----------
pub open spec fn bit(x: u64, c: int) -> bool { (x >> (c as u64)) & 1 == 1 }
spec fn bit8(x: u8, c: int) -> bool { (x >> (c as u8)) & 1 == 1 }
spec fn rc(row: int, col: int) -> u32 { ((row as u32) << 6) | (col as u32) }
// number of set bits among the low n bits of w
pub open spec fn pcn(w: u64, n: int) -> int decreases n { if n <= 0 { 0 } else { pcn(w, n - 1) + (if bit(w, n - 1) { 1int } else { 0int }) } }
// std leaf: count_ones is the number of set bits
pub assume_specification [ u64::count_ones ] (w: u64) -> (r: u32) ensures r == pcn(w, 64);

// ---------- the abstract matrix algebra (definitions VERBATIM from contracts/cpc_union.rs) ----------
ghost struct AM { rows: int, f: spec_fn(int, int) -> bool }
spec fn am_get(a: AM, i: int, c: int) -> bool { (a.f)(i, c) }
spec fn am_eq(a: AM, b: AM) -> bool { a.rows == b.rows && forall|i: int, c: int| 0 <= i < a.rows && 0 <= c < 64 ==> #[trigger] am_get(a, i, c) == am_get(b, i, c) }
// popcount(U): the number of positions p = 64 r + c in [0, b) whose bit (r, c) is set; popcount of the whole matrix is lin(a, 64 rows)
spec fn lin(a: AM, b: int) -> int decreases b { if b <= 0 { 0 } else { lin(a, b - 1) + (if am_get(a, (b - 1) / 64, (b - 1) % 64) { 1int } else { 0int }) } }
spec fn am_popcount(a: AM) -> int { lin(a, 64 * a.rows) }
// a concrete u64 matrix as an abstract one
spec fn mat_am(m: Seq<u64>) -> AM { AM { rows: m.len() as int, f: |r: int, c: int| bit(m[r], c) } }

proof fn lemma_lin_row(a: AM, w: u64, r: int, n: int)
  requires 0 <= r, 0 <= n <= 64, forall|c: int| 0 <= c < 64 ==> am_get(a, r, c) == bit(w, c)
  ensures lin(a, 64 * r + n) == lin(a, 64 * r) + pcn(w, n)
  decreases n
{
    if n > 0 {
        lemma_lin_row(a, w, r, n - 1);
        let p = 64 * r + n - 1;
        assert(p / 64 == r && p % 64 == n - 1);
    }
}
proof fn lemma_lin_bounds(a: AM, b: int) requires 0 <= b ensures 0 <= lin(a, b) <= b decreases b { if b > 0 { lemma_lin_bounds(a, b - 1); } }
proof fn lemma_lin_mono(a: AM, b1: int, b2: int) requires 0 <= b1 <= b2 ensures lin(a, b1) <= lin(a, b2) decreases b2 - b1 { if b1 < b2 { lemma_lin_mono(a, b1, b2 - 1); } }
// equal matrices have equal counts
proof fn lemma_lin_eq(a: AM, a2: AM, b: int)
  requires am_eq(a, a2), 0 <= b <= 64 * a.rows
  ensures lin(a, b) == lin(a2, b)
  decreases b
{
    if b > 0 { lemma_lin_eq(a, a2, b - 1); let p = b - 1; assert(0 <= p / 64 < a.rows && 0 <= p % 64 < 64); assert(am_get(a, p / 64, p % 64) == am_get(a2, p / 64, p % 64)); }
}
proof fn lemma_lin_zero(a: AM, b: int)
  requires 0 <= b <= 64 * a.rows, forall|r: int, c: int| 0 <= r < a.rows && 0 <= c < 64 ==> !am_get(a, r, c)
  ensures lin(a, b) == 0
  decreases b
{
    if b > 0 { lemma_lin_zero(a, b - 1); let p = b - 1; assert(0 <= p / 64 < a.rows && 0 <= p % 64 < 64); }
}

fn count_bits_set_in_matrix ( matrix : & [ u64 ] ) -> ( r : u32 ) requires am_popcount ( mat_am ( matrix @ ) ) <= u32 :: MAX ensures
/*@C06.count_bits*/ r == am_popcount ( mat_am ( matrix @ ) ) {
let ghost a = mat_am ( matrix @ ) ;
let mut count = 0 ;
let mut vx_i1 = 0 ;
while vx_i1 < matrix . len ( ) invariant 0 <= vx_i1 <= matrix @ . len ( ) , a == mat_am ( matrix @ ) , count == lin ( a , 64 * vx_i1 ) , lin ( a , 64 * ( matrix @ . len ( ) as int ) ) <= u32 :: MAX , decreases matrix @ . len ( ) - vx_i1 {
let word = matrix [ vx_i1 ] ;
proof {
lemma_lin_row ( a , word , vx_i1 as int , 64 ) ;
lemma_lin_mono ( a , 64 * ( vx_i1 + 1 ) , 64 * ( matrix @ . len ( ) as int ) ) ;
}
count += word . count_ones ( ) ;
vx_i1 += 1 ;
}
count }



// ================= the sketch by contract (view and invariant copied VERBATIM from contracts/cpc_update.rs) =================
#[derive(Clone)]
struct CpcSketch {
lg_k : u8 , seed : u64 , seed_hash : u16 , first_interesting_column : u8 , num_coupons : u32 , surprising_value_table : Option < PairTable > , window_offset : u8 , sliding_window : Vec < u8 > , merge_flag : bool , kxp : f64 , hip_est_accum : f64 , }



impl CpcSketch {
    spec fn k(&self) -> int { pow2(self.lg_k as nat) as int }
    // the abstract matrix M() as an element of the algebra
    spec fn am(&self) -> AM { AM { rows: self.k(), f: |r: int, c: int| self.mbit(r, c) } }
    spec fn tbl(&self) -> ISet<u32> { if self.surprising_value_table is Some { self.surprising_value_table->0.items() } else { ISet::empty() } }
    // the abstract bit matrix, as the paper defines it
    spec fn mbit(&self, row: int, col: int) -> bool {
        let off = self.window_offset as int;
        if self.sliding_window@.len() != 0 && off <= col < off + 8 { bit8(self.sliding_window@[row], col - off) }
        else if col < off { !self.tbl().contains(rc(row, col)) }
        else { self.tbl().contains(rc(row, col)) }
    }
    spec fn wf_matrix(&self) -> bool {
        &&& 4 <= self.lg_k <= 26
        &&& self.window_offset <= 56
        &&& (self.sliding_window@.len() == 0 || self.sliding_window@.len() == self.k())
        &&& self.num_coupons != 0 ==> self.surprising_value_table is Some && self.surprising_value_table->0.wf()
              && (forall|x: u32| #[trigger] self.tbl().contains(x) ==> (x >> 6) < self.k())
              && (self.sliding_window@.len() != 0 ==> forall|x: u32| self.tbl().contains(x) ==> !(self.window_offset <= (x & 63) < self.window_offset + 8))
        &&& self.num_coupons == 0 ==> self.window_offset == 0 && self.sliding_window@.len() == 0
              && (self.surprising_value_table is Some ==> self.tbl() =~= ISet::empty())
    }
    spec fn tbl_nvb_ok(&self) -> bool { self.surprising_value_table is Some && self.surprising_value_table->0.num_valid_bits == 6 + self.lg_k }
    spec fn windowed(&self) -> bool { self.sliding_window@.len() != 0 }
    spec fn fic_ok(&self) -> bool {
        &&& self.first_interesting_column <= self.window_offset
        &&& forall|r: int, c: int| 0 <= r < self.k() && 0 <= c < self.first_interesting_column ==> self.mbit(r, c)
    }
    spec fn thresholds(&self) -> bool {
        let c = self.num_coupons as int; let k = self.k(); let off = self.window_offset as int;
        &&& !self.windowed() ==> off == 0 && 32 * c < 3 * k
        &&& self.windowed() ==> 32 * c >= 3 * k && 8 * c < (27 + 8 * off) * k && (off > 0 ==> 8 * c >= (27 + 8 * (off - 1)) * k)
    }
    spec fn wf(&self) -> bool {
        &&& self.wf_matrix()
        &&& self.fic_ok()
        &&& self.thresholds()
        &&& self.num_coupons != 0 ==> self.tbl_nvb_ok()
        &&& self.num_coupons != 0 && !self.windowed() ==> self.surprising_value_table->0.num_items == self.num_coupons
    }

    fn is_empty ( & self ) -> ( r : bool ) ensures r == ( self . num_coupons == 0 ) {
self . num_coupons == 0 }



    fn flavor ( & self ) -> ( r : Flavor ) requires 4 <= self . lg_k <= 26 ensures r == flavor_spec ( self . lg_k , self . num_coupons ) {
determine_flavor ( self . lg_k , self . num_coupons ) }



    // opaque (seed hash, float kxp): a fresh EMPTY sketch  (contract VERBATIM from contracts/cpc_union.rs)
    #[verifier::external_body]
    fn with_seed(lg_k: u8, seed: u64) -> (r: Self)
      requires 4 <= lg_k <= 26
      ensures r.lg_k == lg_k, r.seed == seed, r.first_interesting_column == 0, r.num_coupons == 0, r.surprising_value_table is None,
        r.window_offset == 0, r.sliding_window@.len() == 0, r.merge_flag == false,
    { unimplemented!() }
}
// `sketch.clone()`: the derived Clone of a plain-data struct returns an equal value (same shim as in contracts/cpc_union.rs)
#[verifier::external_body]
fn vx_sketch_clone(s: &CpcSketch) -> (r: CpcSketch) ensures r == *s { s.clone() }

enum UnionState {
Accumulator ( CpcSketch ) , BitMatrix ( Vec < u64 > ) , }



const DEFAULT_LG_K: u8 = 11;
const DEFAULT_UPDATE_SEED: u64 = 9001;
struct CpcUnion {
lg_k : u8 , seed : u64 , state : UnionState , }



impl CpcUnion {
    // k, ubit, uwf, um: VERBATIM from contracts/cpc_union.rs
    spec fn k(&self) -> int { pow2(self.lg_k as nat) as int }
    spec fn ubit(&self, r: int, c: int) -> bool {
        match self.state { UnionState::Accumulator(s) => s.mbit(r, c), UnionState::BitMatrix(m) => bit(m@[r], c) }
    }
    spec fn uwf(&self) -> bool {
        &&& 4 <= self.lg_k <= 26
        &&& match self.state {
              UnionState::Accumulator(s) => s.wf() && s.lg_k == self.lg_k && !s.windowed(),
              UnionState::BitMatrix(m) => m@.len() == self.k(),
            }
    }
    spec fn um(&self) -> AM { AM { rows: self.k(), f: |r: int, c: int| self.ubit(r, c) } }
    // what to_sketch needs of a bit-matrix state beyond uwf:
    //  - lg_k <= 18: PairTable capacity, as for move_window (unit cpc_core)
    //  - at least 3K/32 coupons: every BitMatrix state CpcUnion::update produces has them (the Java/C++ getResult assert it); NOT proved here,
    //    it needs C == popcount(M()) of the source sketches, which the sketch invariant of cpc_update does not carry
    //  - fewer than 59.375 K coupons (hash-dependent, same as CpcSketch::below_last_window): the window offset stays <= 56
    spec fn ts_pre(&self) -> bool {
        match self.state {
            UnionState::Accumulator(s) => true,
            UnionState::BitMatrix(m) => self.lg_k <= 18 && 32 * am_popcount(self.um()) >= 3 * self.k() && 8 * am_popcount(self.um()) < (27 + 8 * 56) * self.k(),
        }
    }

    // a fresh union: an Accumulator holding an EMPTY sketch, so U = the all-zero k x 64 matrix
    spec fn fresh(&self, lg_k: u8, seed: u64) -> bool {
        &&& self.lg_k == lg_k && self.seed == seed
        &&& match self.state { UnionState::Accumulator(s) => s.num_coupons == 0 && s.seed == seed && s.lg_k == lg_k && !s.merge_flag, UnionState::BitMatrix(m) => false }
    }
    fn default() -> (r: Self)
      ensures /*@C06.union.new.wf*/ r.uwf(), /*@C06.union.new.fresh*/ r.fresh(DEFAULT_LG_K, DEFAULT_UPDATE_SEED),
        /*@C06.union.new.empty*/ forall|row: int, c: int| 0 <= row < r.k() && 0 <= c < 64 ==> !r.ubit(row, c),
        /*@C06.union.new.count*/ am_popcount(r.um()) == 0,
    {
        Self::new(DEFAULT_LG_K)
    }
    fn new(lg_k: u8) -> (r: Self)
      requires 4 <= lg_k <= 26
      ensures /*@C06.union.new.wf*/ r.uwf(), /*@C06.union.new.fresh*/ r.fresh(lg_k, DEFAULT_UPDATE_SEED),
        /*@C06.union.new.empty*/ forall|row: int, c: int| 0 <= row < r.k() && 0 <= c < 64 ==> !r.ubit(row, c),
        /*@C06.union.new.count*/ am_popcount(r.um()) == 0,
    {
        Self::with_seed(lg_k, DEFAULT_UPDATE_SEED)
    }
    fn with_seed(lg_k: u8, seed: u64) -> (r: Self)
      requires 4 <= lg_k <= 26
      ensures /*@C06.union.new.wf*/ r.uwf(), /*@C06.union.new.fresh*/ r.fresh(lg_k, seed),
        /*@C06.union.new.empty*/ forall|row: int, c: int| 0 <= row < r.k() && 0 <= c < 64 ==> !r.ubit(row, c),
        /*@C06.union.new.count*/ am_popcount(r.um()) == 0,
    {
        // We begin with the accumulator holding an EMPTY_MERGED sketch object.
        let sketch = CpcSketch::with_seed(lg_k, seed);
        let state = UnionState::Accumulator(sketch);
        proof {
            lemma_k_bound(lg_k);
            assert forall|u: CpcUnion| u.fresh(lg_k, seed) && u.uwf() implies #[trigger] am_popcount(u.um()) == 0 by {
                assert forall|row: int, c: int| 0 <= row < u.k() && 0 <= c < 64 implies !am_get(u.um(), row, c) by { }
                lemma_lin_zero(u.um(), 64 * u.k());
            }
        }
        Self { lg_k, seed, state }
    }
    fn lg_k(&self) -> (r: u8)
      ensures /*@C06.union.lg_k*/ r == self.lg_k
    {
        self.lg_k
    }

    fn to_sketch ( & self ) -> ( r : CpcSketch ) requires self . uwf ( ) , self . ts_pre ( ) , ensures
/*@C06.to_sketch.wf*/ r . wf ( ) , r . lg_k == self . lg_k , r . seed == ( match self . state {
UnionState :: Accumulator ( a ) => if a . num_coupons == 0 {
self . seed }
else {
a . seed }
, UnionState :: BitMatrix ( m ) => self . seed }
) ,
/*@C06.to_sketch.matrix*/ am_eq ( r . am ( ) , self . um ( ) ) ,
/*@C06.to_sketch.count*/ r . num_coupons == am_popcount ( self . um ( ) ) ,
/*@C06.to_sketch.merge_flag*/ r . merge_flag ,
/*@C06.to_sketch.offset*/ r . window_offset == dco ( r . lg_k , r . num_coupons ) ,
/*@C06.to_sketch.fic*/ r . fic_ok ( ) , {
match & self . state {
UnionState :: Accumulator ( sketch ) => {
proof {
lemma_k_bound ( self . lg_k ) ;
if sketch . num_coupons == 0 {
lemma_lin_zero ( self . um ( ) , 64 * self . k ( ) ) ;
}
}
if sketch . is_empty ( ) {
let mut empty = CpcSketch :: with_seed ( self . lg_k , self . seed ) ;
empty . merge_flag = true ;
empty }
else {
let ghost a = * sketch ;
let mut sketch = vx_sketch_clone ( sketch ) ;
assert! ( sketch . flavor ( ) == Flavor :: Sparse ) ;
sketch . merge_flag = true ;
proof {
assert forall | r : int , c : int | 0 <= r < a . k ( ) && 0 <= c < 64 implies sketch . mbit ( r , c ) == a . mbit ( r , c ) by {
}
assert forall | x : u32 | # [ trigger ] sketch . tbl ( ) . contains ( x ) implies ( x >> 6 ) < sketch . k ( ) by {
assert ( a . tbl ( ) . contains ( x ) ) ;
}
lemma_sparse_count ( a ) ;
lemma_lin_eq ( a . am ( ) , self . um ( ) , 64 * self . k ( ) ) ;
}
sketch }
}
UnionState :: BitMatrix ( matrix ) => {
let ghost bm = matrix @ ;
proof {
lemma_k_bound ( self . lg_k ) ;
lemma_shl_us ( self . lg_k ) ;
lemma2_to64 ( ) ;
if self . lg_k < 18 {
lemma_pow2_strictly_increases ( self . lg_k as nat , 18 ) ;
}
lemma_lin_eq ( self . um ( ) , mat_am ( bm ) , 64 * self . k ( ) ) ;
assert ( am_popcount ( mat_am ( bm ) ) == am_popcount ( self . um ( ) ) ) ;
assert ( ( 27 + 8 * 56 ) * self . k ( ) == 475 * self . k ( ) ) by ( nonlinear_arith ) ;
}
let lg_k = self . lg_k ;
let mut sketch = CpcSketch :: with_seed ( lg_k , self . seed ) ;
let num_coupons = count_bits_set_in_matrix ( matrix ) ;
sketch . num_coupons = num_coupons ;
proof {
lemma_dco_range ( lg_k , num_coupons ) ;
}
let offset = determine_correct_offset ( lg_k , num_coupons ) ;
sketch . window_offset = offset ;
let k = 1 << lg_k ;
let mut sliding_window = vec! [ 0u8 ;
k ] ;
let new_table_lg_size = ( lg_k - 4 ) . max ( 2 ) ;
let mut table = PairTable :: new ( new_table_lg_size , 6 + lg_k ) ;
proof {
lemma_masks ( offset ) ;
}
let mask_for_clearing_window = ( 0xFFu64 << offset ) ^ u64 :: MAX ;
let mask_for_flipping_early_zone = ( 1u64 << offset ) - 1 ;
let mut all_surprises_ored = 0 ;
proof {
assert forall | c : int | 0 <= c < 64 implies ! bit ( 0u64 , c ) by {
let cc = c as u64 ;
assert ( cc < 64 ==> ! ( ( 0u64 >> cc ) & 1 == 1 ) ) by ( bit_vector ) ;
}
}
for i in 0 .. k invariant 4 <= lg_k <= 18 , k == pow2 ( lg_k as nat ) , 16 <= k <= 0x4_0000 , matrix @ == bm , bm . len ( ) == k , offset <= 56 , mask_for_clearing_window == ( 0xFFu64 << offset ) ^ u64 :: MAX , mask_for_flipping_early_zone == ( ( 1u64 << offset ) - 1 ) as u64 , sliding_window @ . len ( ) == k , forall | r : int | 0 <= r < i ==> # [ trigger ] sliding_window @ [ r ] == ( ( bm [ r ] >> offset ) & 0xff ) as u8 , table . wf ( ) , table . num_valid_bits == 6 + lg_k , forall | x : u32 | # [ trigger ] table . items ( ) . contains ( x ) ==> ( x >> 6 ) < i ,
/*@C06.to_sketch.matrix*/ forall | r : int , c : int | 0 <= r < k && 0 <= c < 64 ==> table . items ( ) . contains ( rc ( r , c ) ) == ( r < i && sp ( bm [ r ] , offset , c ) ) , table . num_items <= 64 * i , forall | r : int , c : int | 0 <= r < i && 0 <= c < 64 && sp ( bm [ r ] , offset , c ) ==> bit ( all_surprises_ored , c ) , {
let mut pattern = matrix [ i ] ;
sliding_window [ i ] = ( ( pattern >> offset ) & 0xFF ) as u8 ;
pattern &= mask_for_clearing_window ;
pattern ^= mask_for_flipping_early_zone ;
let ghost aso0 = all_surprises_ored ;
all_surprises_ored |= pattern ;
let ghost p0 = pattern ;
let ghost mut lo : int = 0 ;
let ghost mut cnt : int = 0 ;
proof {
assert forall | c : int | 0 <= c < 64 implies bit ( all_surprises_ored , c ) == ( bit ( aso0 , c ) || bit ( p0 , c ) ) by {
lemma_or_bit ( aso0 , p0 , c ) ;
}
}
while pattern != 0 invariant 4 <= lg_k <= 18 , k == pow2 ( lg_k as nat ) , 16 <= k <= 0x4_0000 , 0 <= i < k , offset <= 56 , table . wf ( ) , table . num_valid_bits == 6 + lg_k , p0 == ( bm [ i as int ] & ( ( 0xFFu64 << offset ) ^ u64 :: MAX ) ) ^ ( ( ( 1u64 << offset ) - 1 ) as u64 ) , forall | x : u32 | # [ trigger ] table . items ( ) . contains ( x ) ==> ( x >> 6 ) < i + 1 ,
/*@C06.to_sketch.matrix*/ forall | r : int , c : int | 0 <= r < k && 0 <= c < 64 ==> table . items ( ) . contains ( rc ( r , c ) ) == ( ( r < i && sp ( bm [ r ] , offset , c ) ) || ( r == i && bit ( p0 , c ) && ! bit ( pattern , c ) ) ) , forall | c : int | 0 <= c < 64 && bit ( pattern , c ) ==> bit ( p0 , c ) , forall | c : int | 0 <= c < lo ==> ! bit ( pattern , c ) , 0 <= cnt <= lo <= 64 , table . num_items <= 64 * i + cnt , decreases pattern {
let col = pattern . trailing_zeros ( ) ;
let ghost pprev = pattern ;
proof {
vstd :: std_specs :: bits :: axiom_u64_trailing_zeros ( pattern ) ;
lemma_tz_facts ( pattern , col , lo ) ;
}
pattern ^= 1u64 << col ;
let row_col = ( ( i as u32 ) << 6 ) | col ;
proof {
lemma_rowcol ( i as int , col as int , lg_k ) ;
assert forall | c : int | 0 <= c < 64 implies bit ( pattern , c ) == ( bit ( pprev , c ) != ( c == col ) ) by {
lemma_flip_bit32 ( pprev , col , c ) ;
}
lemma_rc_inj ( i as int , col as int , i as int , col as int ) ;
assert ( ! table . items ( ) . contains ( row_col ) ) ;
}
let ghost t0 = table . items ( ) ;
let is_novel = table . maybe_insert ( row_col ) ;
assert! ( is_novel ) ;
proof {
assert forall | r : int , c : int | 0 <= r < k && 0 <= c < 64 implies table . items ( ) . contains ( rc ( r , c ) ) == ( ( r < i && sp ( bm [ r ] , offset , c ) ) || ( r == i && bit ( p0 , c ) && ! bit ( pattern , c ) ) ) by {
lemma_rc_inj ( r , c , i as int , col as int ) ;
assert ( t0 . contains ( rc ( r , c ) ) == ( ( r < i && sp ( bm [ r ] , offset , c ) ) || ( r == i && bit ( p0 , c ) && ! bit ( pprev , c ) ) ) ) ;
}
assert forall | x : u32 | # [ trigger ] table . items ( ) . contains ( x ) implies ( x >> 6 ) < i + 1 by {
if x != row_col {
assert ( t0 . contains ( x ) ) ;
}
}
lo = col as int + 1 ;
cnt = cnt + 1 ;
}
}
proof {
assert forall | c : int | 0 <= c < 64 implies ! bit ( pattern , c ) by {
let cc = c as u64 ;
assert ( cc < 64 ==> ! ( ( 0u64 >> cc ) & 1 == 1 ) ) by ( bit_vector ) ;
}
assert forall | c : int | 0 <= c < 64 implies bit ( p0 , c ) == sp ( bm [ i as int ] , offset , c ) by {
}
}
}
proof {
vstd :: std_specs :: bits :: axiom_u64_trailing_zeros ( all_surprises_ored ) ;
}
sketch . first_interesting_column = all_surprises_ored . trailing_zeros ( ) as u8 ;
if sketch . first_interesting_column > offset {
sketch . first_interesting_column = offset ;
}
sketch . sliding_window = sliding_window ;
sketch . surprising_value_table = Some ( table ) ;
sketch . merge_flag = true ;
proof {
let fic = sketch . first_interesting_column ;
assert ( sketch . tbl ( ) == table . items ( ) ) ;
assert forall | r : int , c : int | 0 <= r < k && 0 <= c < 64 implies
/*@C06.to_sketch.matrix*/ sketch . mbit ( r , c ) == bit ( bm [ r ] , c ) by {
lemma_sp ( bm [ r ] , offset , c ) ;
if offset <= c < offset + 8 {
lemma_win_bit ( bm [ r ] , offset , c ) ;
}
}
assert forall | x : u32 | sketch . tbl ( ) . contains ( x ) implies ! ( sketch . window_offset <= ( x & 63 ) < sketch . window_offset + 8 ) by {
lemma_rc ( x ) ;
let r = ( x >> 6 ) as int ;
let c = ( x & 63 ) as int ;
assert ( table . items ( ) . contains ( rc ( r , c ) ) ) ;
lemma_sp ( bm [ r ] , offset , c ) ;
}
assert forall | r : int , c : int | 0 <= r < k && 0 <= c < fic implies sketch . mbit ( r , c ) by {
lemma_sp ( bm [ r ] , offset , c ) ;
assert ( ! bit ( all_surprises_ored , c ) ) ;
}
assert forall | x : u32 | # [ trigger ] sketch . tbl ( ) . contains ( x ) implies ( x >> 6 ) < sketch . k ( ) by {
assert ( table . items ( ) . contains ( x ) ) ;
}
lemma_thresholds_from_dco ( lg_k , num_coupons ) ;
assert ( sketch . wf_matrix ( ) ) ;
assert ( sketch . fic_ok ( ) ) ;
assert ( sketch . thresholds ( ) ) ;
}
sketch }
}
}



    fn num_coupons ( & self ) -> ( r : u32 ) requires self . uwf ( ) , self . state is BitMatrix ==> am_popcount ( self . um ( ) ) <= u32 :: MAX , ensures
/*@C06.num_coupons*/ r == am_popcount ( self . um ( ) ) , {
proof {
lemma_k_bound ( self . lg_k ) ;
lemma_num_coupons ( * self ) ;
}
match & self . state {
UnionState :: Accumulator ( sketch ) => sketch . num_coupons , UnionState :: BitMatrix ( matrix ) => count_bits_set_in_matrix ( matrix ) , }
}


}
proof fn lemma_shl_us(l: u8) requires l <= 26 ensures (1usize << l) == pow2(l as nat), pow2(l as nat) <= 0x400_0000, pow2(l as nat) >= 1 {
    lemma2_to64(); if l < 26 { lemma_pow2_strictly_increases(l as nat, 26); } lemma_pow2_pos(l as nat);
    vstd::bits::lemma_usize_shl_is_mul(1, l as usize);
    assert((1usize << (l as usize)) == (1usize << l));
}
proof fn lemma_k_bound(l: u8) requires 4 <= l <= 26 ensures 16 <= pow2(l as nat) <= 0x400_0000 {
    lemma2_to64(); if l < 26 { lemma_pow2_strictly_increases(l as nat, 26); } if l > 4 { lemma_pow2_strictly_increases(4, l as nat); }
}
proof fn lemma_rc(x: u32)
  ensures rc((x >> 6) as int, (x & 63) as int) == x, (x & 63) < 64
{
    assert((((x >> 6) << 6) | (x & 63)) == x) by (bit_vector);
    assert((x & 63) < 64) by (bit_vector);
}
proof fn lemma_rc_inj(r: int, c: int, r2: int, c2: int)
  requires 0 <= r < 0x400_0000, 0 <= c < 64, 0 <= r2 < 0x400_0000, 0 <= c2 < 64
  ensures (rc(r, c) == rc(r2, c2)) <==> (r == r2 && c == c2), rc(r, c) >> 6 == r, rc(r, c) & 63 == c
{
    let a = r as u32; let b = c as u32; let a2 = r2 as u32; let b2 = c2 as u32;
    assert(a < 0x400_0000 && b < 64 && a2 < 0x400_0000 && b2 < 64 ==> ((((a << 6) | b) == ((a2 << 6) | b2)) <==> (a == a2 && b == b2))) by (bit_vector);
    assert(a < 0x400_0000 && b < 64 ==> (((a << 6) | b) >> 6) == a && (((a << 6) | b) & 63) == b) by (bit_vector);
}
spec fn sp(m: u64, no: u8, c: int) -> bool { bit((m & ((0xFFu64 << no) ^ u64::MAX)) ^ (((1u64 << no) - 1) as u64), c) }
proof fn lemma_sp(m: u64, no: u8, c: int)
  requires no <= 56, 0 <= c < 64
  ensures sp(m, no, c) == (if c < no { !bit(m, c) } else if c < no + 8 { false } else { bit(m, c) })
{
    let cc = c as u64;
    assert(no <= 56 && cc < 64 ==> (((((m & ((0xFFu64 << no) ^ 0xffff_ffff_ffff_ffffu64)) ^ (((1u64 << no) - 1) as u64)) >> cc) & 1 == 1)
        == (if cc < no as u64 { !((m >> cc) & 1 == 1) } else if cc < (no as u64) + 8 { false } else { (m >> cc) & 1 == 1 }))) by (bit_vector);
}
proof fn lemma_win_bit(m: u64, no: u8, c: int)
  requires no <= 56, no <= c < no + 8
  ensures bit8(((m >> no) & 0xff) as u8, c - no) == bit(m, c)
{
    let cc = c as u64;
    assert(no <= 56 && (no as u64) <= cc && cc < (no as u64) + 8 ==>
        ((((((m >> no) & 0xff) as u8) >> ((cc - no as u64) as u8)) & 1 == 1) == ((m >> cc) & 1 == 1))) by (bit_vector);
}
proof fn lemma_masks(no: u8) requires no <= 56 ensures (1u64 << no) >= 1 { assert(no <= 56 ==> (1u64 << no) >= 1) by (bit_vector); }
proof fn lemma_or_bit(a: u64, b: u64, c: int) requires 0 <= c < 64 ensures bit(a | b, c) == (bit(a, c) || bit(b, c)) {
    let cc = c as u64;
    assert(cc < 64 ==> ((((a | b) >> cc) & 1 == 1) == (((a >> cc) & 1 == 1) || ((b >> cc) & 1 == 1)))) by (bit_vector);
}
proof fn lemma_tz_facts(p: u64, col: u32, lo: int)
  requires p != 0, col == vstd::std_specs::bits::u64_trailing_zeros(p), 0 <= lo <= 64, forall|c: int| 0 <= c < lo ==> !bit(p, c)
  ensures col < 64, bit(p, col as int), lo <= col, (p ^ (1u64 << col)) < p, forall|c: int| 0 <= c < col ==> !bit(p, c)
{
    vstd::std_specs::bits::axiom_u64_trailing_zeros(p);
    let cu = col as u64;
    assert(cu < 64 && (p >> cu) & 1 == 1 ==> (p ^ (1u64 << cu)) < p) by (bit_vector);
    assert((1u64 << col) == (1u64 << cu)) by (bit_vector) requires cu == col as u64, col < 64;
    if lo > col { assert(!bit(p, col as int)); }
    assert forall|c: int| 0 <= c < col implies !bit(p, c) by { let j = c as u64; assert((p >> j) & 1 == 0); }
}
proof fn lemma_rowcol(i: int, col: int, lg_k: u8)
  requires 4 <= lg_k <= 18, 0 <= i < pow2(lg_k as nat), 0 <= col < 64
  ensures (((i as u32) << 6) | (col as u32)) == rc(i, col), rc(i, col) != EMPTY, (rc(i, col) as int) < pow2((6 + lg_k) as nat)
{
    lemma2_to64(); lemma_pow2_adds(6, lg_k as nat);
    if lg_k < 18 { lemma_pow2_strictly_increases(lg_k as nat, 18); }
    let a = i as u32; let b = col as u32;
    let kk = pow2(lg_k as nat) as u32;
    assert(a < 0x4_0000 && b < 64 ==> ((a << 6) | b) < 0x100_0000) by (bit_vector);
    assert(a < kk && b < 64 && kk <= 0x4_0000 ==> ((a << 6) | b) < 64 * kk) by (bit_vector);
}
proof fn lemma_dco(lg_k: u8, c: u32, no: int)
  requires 4 <= lg_k <= 26, 1 <= no <= 56, 8 * (c as int) >= (27 + 8 * (no - 1)) * pow2(lg_k as nat), 8 * (c as int) < (27 + 8 * no) * pow2(lg_k as nat)
  ensures dco(lg_k, c) == no
{
    let k = pow2(lg_k as nat) as int; lemma_pow2_pos(lg_k as nat);
    let t = 8 * (c as int) - 19 * k;
    assert((27 + 8 * (no - 1)) * k == 19 * k + no * (8 * k)) by (nonlinear_arith);
    assert((27 + 8 * no) * k == 19 * k + (no + 1) * (8 * k)) by (nonlinear_arith);
    assert(t / (8 * k) == no) by (nonlinear_arith) requires no * (8 * k) <= t, t < (no + 1) * (8 * k), k > 0;
}
proof fn lemma_num_coupons(u: CpcUnion)
  requires u.uwf()
  ensures match u.state { UnionState::Accumulator(sk) => sk.num_coupons == am_popcount(u.um()), UnionState::BitMatrix(m) => am_popcount(mat_am(m@)) == am_popcount(u.um()) }
{
    lemma_k_bound(u.lg_k);
    match u.state {
        UnionState::Accumulator(sk) => {
            if sk.num_coupons == 0 { lemma_lin_zero(u.um(), 64 * u.k()); }
            else { lemma_sparse_count(sk); lemma_lin_eq(sk.am(), u.um(), 64 * u.k()); }
        },
        UnionState::BitMatrix(m) => { lemma_lin_eq(u.um(), mat_am(m@), 64 * u.k()); },
    }
}
proof fn lemma_flip_bit32(x: u64, col: u32, c: int)
  requires col < 64, 0 <= c < 64
  ensures bit(x ^ (1u64 << col), c) == (bit(x, c) != (c == col))
{
    let cc = c as u64;
    assert(col < 64 && cc < 64 ==> ((((x ^ (1u64 << col)) >> cc) & 1 == 1) == (((x >> cc) & 1 == 1) != (cc == col as u64)))) by (bit_vector);
}
// below 59.375 K coupons the offset determine_correct_offset computes is at most 56
proof fn lemma_dco_range(lg_k: u8, c: u32)
  requires 4 <= lg_k <= 26, 8 * (c as int) < (27 + 8 * 56) * pow2(lg_k as nat)
  ensures 0 <= dco(lg_k, c) <= 56
{
    let k = pow2(lg_k as nat) as int; lemma_pow2_pos(lg_k as nat);
    let t = 8 * (c as int) - 19 * k;
    if t >= 0 {
        assert(t < 57 * (8 * k)) by (nonlinear_arith) requires t == 8 * (c as int) - 19 * k, 8 * (c as int) < (27 + 8 * 56) * k, k > 0;
        assert(0 <= t / (8 * k) <= 56) by (nonlinear_arith) requires 0 <= t, t < 57 * (8 * k), k > 0;
    }
}
// offset == dco(lg_k, C) gives the window thresholds of the sketch invariant
proof fn lemma_thresholds_from_dco(lg_k: u8, c: u32)
  requires 4 <= lg_k <= 26, 0 <= dco(lg_k, c) <= 56
  ensures 8 * (c as int) < (27 + 8 * dco(lg_k, c)) * pow2(lg_k as nat),
    dco(lg_k, c) > 0 ==> 8 * (c as int) >= (27 + 8 * (dco(lg_k, c) - 1)) * pow2(lg_k as nat),
{
    let k = pow2(lg_k as nat) as int; lemma_pow2_pos(lg_k as nat);
    let t = 8 * (c as int) - 19 * k; let o = dco(lg_k, c);
    if t >= 0 {
        lemma_fundamental_div_mod(t, 8 * k);
        lemma_mod_bound(t, 8 * k);
        assert(o == t / (8 * k));
        assert(t == (8 * k) * o + t % (8 * k));
        assert((27 + 8 * o) * k == 19 * k + (8 * k) * o + 8 * k) by (nonlinear_arith);
        if o > 0 { assert((27 + 8 * (o - 1)) * k == 19 * k + (8 * k) * o) by (nonlinear_arith); }
    } else {
        assert((27 + 8 * o) * k == 27 * k) by (nonlinear_arith) requires o == 0;
    }
}
// a Sparse (or empty-table) sketch holds exactly num_items coupons: count the occupied slots by value
spec fn occ_below(ss: Seq<u32>, b: int) -> Set<int> { pocc(ss).filter(|i: int| (ss[i] as int) < b) }
proof fn lemma_occ_below(s: CpcSketch, b: int)
  requires s.wf_matrix(), !s.windowed(), s.window_offset == 0, s.num_coupons != 0, 0 <= b <= 64 * s.k()
  ensures lin(s.am(), b) == occ_below(s.surprising_value_table->0.slots@, b).len()
  decreases b
{
    let ss = s.surprising_value_table->0.slots@;
    lemma_k_bound(s.lg_k);
    if b == 0 {
        assert(occ_below(ss, 0) =~= Set::<int>::empty());
    } else {
        lemma_occ_below(s, b - 1);
        let p = b - 1; let r = p / 64; let c = p % 64; let x = p as u32;
        assert(0 <= r < s.k() && 0 <= c < 64);
        lemma_rc_inj(r, c, r, c);
        assert(rc(r, c) == x) by {
            let a = r as u32; let d = c as u32;
            assert(a < 0x400_0000 && d < 64 ==> ((a << 6) | d) == a * 64 + d) by (bit_vector);
        }
        assert(s.mbit(r, c) == s.tbl().contains(x));
        if x != EMPTY && pholds(ss, x) {
            let i = choose|i: int| 0 <= i < ss.len() && ss[i] == x;
            assert(occ_below(ss, b) =~= occ_below(ss, b - 1).insert(i)) by {
                assert forall|j: int| occ_below(ss, b).contains(j) <==> occ_below(ss, b - 1).insert(i).contains(j) by {
                    if occ_below(ss, b).contains(j) && j != i { assert(ss[j] != ss[i]); }
                }
            }
            assert(!occ_below(ss, b - 1).contains(i));
        } else {
            assert(occ_below(ss, b) =~= occ_below(ss, b - 1)) by {
                assert forall|j: int| occ_below(ss, b).contains(j) implies occ_below(ss, b - 1).contains(j) by {
                    if ss[j] == x { assert(pholds(ss, x)); }
                }
            }
        }
    }
}
proof fn lemma_sparse_count(s: CpcSketch)
  requires s.wf(), !s.windowed(), s.num_coupons != 0
  ensures am_popcount(s.am()) == s.num_coupons
{
    let ss = s.surprising_value_table->0.slots@;
    lemma_k_bound(s.lg_k);
    lemma_occ_below(s, 64 * s.k());
    assert(occ_below(ss, 64 * s.k()) =~= pocc(ss)) by {
        assert forall|j: int| pocc(ss).contains(j) implies occ_below(ss, 64 * s.k()).contains(j) by {
            let x = ss[j];
            assert(pholds(ss, x));
            assert(s.tbl().contains(x));
            let kk = s.k() as u32;
            assert((x >> 6) < kk && kk <= 0x400_0000 ==> (x as u64) < 64 * (kk as u64)) by (bit_vector);
        }
    }
}
}
fn main(){}
