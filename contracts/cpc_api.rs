use vstd::prelude::*;
use vstd::iset::*;
use vstd::arithmetic::power2::*;
use std::hash::Hash;
verus! {
global size_of usize == 8;
const EMPTY: u32 = 0xffff_ffff;

// ---------- configuration constants (taken from /repo every run) ----------
const DEFAULT_LG_K : u8 = 11 ;

const MIN_LG_K : u8 = 4 ;

const MAX_LG_K : u8 = 26 ;

const DEFAULT_UPDATE_SEED : u64 = 9001 ;


// ---------- PairTable: abstract view only (definitions VERBATIM from contracts/cpc_core.rs; bodies proved in unit cpc_pairtable) ----------
struct PairTable {
lg_size : u8 , num_valid_bits : u8 , num_items : u32 , slots : Vec < u32 > , }


spec fn pholds(ss: Seq<u32>, item: u32) -> bool { exists|i: int| 0 <= i < ss.len() && ss[i] == item }
spec fn pdistinct(ss: Seq<u32>) -> bool { forall|i: int, j: int| 0 <= i < ss.len() && 0 <= j < ss.len() && i != j && ss[i] != EMPTY ==> ss[i] != ss[j] }
spec fn pocc(ss: Seq<u32>) -> Set<int> { Set::range(0, ss.len() as int).filter(|i: int| ss[i] != EMPTY) }
impl PairTable {
    uninterp spec fn wf_rest(&self) -> bool;
    spec fn wf(&self) -> bool { self.wf_rest() && pdistinct(self.slots@) && self.num_items == pocc(self.slots@).len() }
    spec fn items(&self) -> ISet<u32> { ISet::new(|c: u32| c != EMPTY && pholds(self.slots@, c)) }
}
// dco: verbatim from contracts/cpc_core.rs
spec fn dco(lg_k: u8, c: u32) -> int { let k = pow2(lg_k as nat) as int; if 8 * (c as int) < 19 * k { 0 } else { (8 * (c as int) - 19 * k) / (8 * k) } }

// ---------- popcount of a bit matrix (definitions VERBATIM from contracts/cpc_union2.rs) ----------
pub open spec fn bit(x: u64, c: int) -> bool { (x >> (c as u64)) & 1 == 1 }
spec fn bit8(x: u8, c: int) -> bool { (x >> (c as u8)) & 1 == 1 }
spec fn rc(row: int, col: int) -> u32 { ((row as u32) << 6) | (col as u32) }
ghost struct AM { rows: int, f: spec_fn(int, int) -> bool }
spec fn am_get(a: AM, i: int, c: int) -> bool { (a.f)(i, c) }
spec fn am_eq(a: AM, b: AM) -> bool { a.rows == b.rows && forall|i: int, c: int| 0 <= i < a.rows && 0 <= c < 64 ==> #[trigger] am_get(a, i, c) == am_get(b, i, c) }
spec fn lin(a: AM, b: int) -> int decreases b { if b <= 0 { 0 } else { lin(a, b - 1) + (if am_get(a, (b - 1) / 64, (b - 1) % 64) { 1int } else { 0int }) } }
spec fn am_popcount(a: AM) -> int { lin(a, 64 * a.rows) }
spec fn mat_am(m: Seq<u64>) -> AM { AM { rows: m.len() as int, f: |r: int, c: int| bit(m[r], c) } }

// opaque: contract copied VERBATIM from the one PROVED in contracts/cpc_union2.rs (unit cpc_union2)
#[verifier::external_body]
fn count_bits_set_in_matrix(matrix: &[u64]) -> (r: u32)
  requires am_popcount(mat_am(matrix@)) <= u32::MAX
  ensures r == am_popcount(mat_am(matrix@))
{ unimplemented!() }

// ---------- hash leaves (C16: the digest is the subject of unit hash_murmur) ----------
#[verifier::external_body]
struct MurmurHash3X64128 { _p: u8 }
// the 128-bit MurmurHash3 digest of the byte stream `v.hash(..)` feeds to a hasher seeded with `seed`
uninterp spec fn murmur128<T>(seed: u64, v: T) -> (u64, u64);
impl MurmurHash3X64128 {
    uninterp spec fn digest(&self) -> (u64, u64);
    uninterp spec fn seed_of(&self) -> u64;
    uninterp spec fn fresh(&self) -> bool;
    // the hasher invariant finish128 needs (unit hash_murmur: a reachable state, fewer than 16 buffered bytes, byte count fits u64)
    uninterp spec fn fed(&self) -> bool;
    #[verifier::external_body]
    fn with_seed(seed: u64) -> (r: Self)
      ensures r.fresh(), r.seed_of() == seed
    { unimplemented!() }
    #[verifier::external_body]
    fn finish128(&self) -> (r: (u64, u64))
      requires self.fed()
      ensures r == self.digest()
    { unimplemented!() }
}
// R7 shim for `value.hash(&mut hasher)`: feeding v to a fresh hasher seeded with s makes its digest murmur128(s, v) (definition of murmur128)
#[verifier::external_body]
fn vx_hash_item<T: Hash>(value: T, hasher: &mut MurmurHash3X64128)
  requires old(hasher).fresh()
  ensures final(hasher).digest() == murmur128(old(hasher).seed_of(), value), final(hasher).fed()   // `write` keeps the hasher invariant (proved in unit hash_murmur)
{ unimplemented!() /* value.hash(hasher) */ }

// R12b: a DOCUMENTED panic ("# Panics: if lg_k is not in the range") is modelled as 'returns only if the condition holds': the
// condition is a tagged POSTCONDITION (`*_validated`) instead of a precondition, so weakening or removing the check is noticed.
// Body = the original statement.
#[verifier::external_body] fn vx_documented_panic(c: bool) ensures c { assert!(c); }

pub uninterp spec fn seed_hash_spec(seed: u64) -> u16;
// opaque: contract VERBATIM from the one PROVED in contracts/hash_murmur.rs (panics iff the seed hash is zero)
#[verifier::external_body]
fn compute_seed_hash(seed: u64) -> (r: u16)
  ensures r == seed_hash_spec(seed), r != 0 && seed_hash_spec(seed) != 0,
{ unimplemented!() }

// Java Double.doubleToLongBits canonicalisation (float leaf)
uninterp spec fn canonical_double_spec(value: f64) -> u64;
#[verifier::external_body]
fn canonical_double(value: f64) -> (r: u64)
  ensures r == canonical_double_spec(value)
{ unimplemented!() }
uninterp spec fn f32_to_f64_spec(value: f32) -> f64;

// ---------- C16: the reference derivation of (row, col) from the digest (Java CpcSketch.hashUpdate / C++ cpc_sketch::update) ----------
//   col    = min(numberOfLeadingZeros(hash1), 63)
//   row    = hash0 & (k - 1)
//   rowCol = (row << 6) | col;   if (rowCol == -1) rowCol ^= (1 << 6)
spec fn clz64(x: u64) -> int { vstd::std_specs::bits::u64_leading_zeros(x) as int }
spec fn ref_col(hash1: u64) -> u32 { if clz64(hash1) > 63 { 63u32 } else { clz64(hash1) as u32 } }
spec fn ref_row(hash0: u64, lg_k: u8) -> u32 { (hash0 & (((1u64 << lg_k) - 1) as u64)) as u32 }
spec fn ref_row_col(hash0: u64, hash1: u64, lg_k: u8) -> u32 {
    let row_col = (ref_row(hash0, lg_k) << 6) | ref_col(hash1);
    if row_col == 0xffff_ffffu32 { row_col ^ (1u32 << 6) } else { row_col }
}
// the pair an item contributes to a sketch with (seed, lg_k)
spec fn item_rc<T>(seed: u64, v: T, lg_k: u8) -> u32 { ref_row_col(murmur128(seed, v).0, murmur128(seed, v).1, lg_k) }

// what the reference pair means in arithmetic: row = hash0 mod k (k - 2 instead of k - 1 in the one sentinel case), col = min(clz, 63)
proof fn lemma_ref_row_col(h0: u64, h1: u64, lg_k: u8)
  requires 4 <= lg_k <= 26
  ensures
    /*@C16.cpc_row_col.not_sentinel*/ ref_row_col(h0, h1, lg_k) != EMPTY,
    /*@C16.cpc_row_col.row_range*/ (ref_row_col(h0, h1, lg_k) >> 6) < pow2(lg_k as nat),
    /*@C16.cpc_row_col.col*/ (ref_row_col(h0, h1, lg_k) & 63) == (if clz64(h1) > 63 { 63 } else { clz64(h1) }),
    /*@C16.cpc_row_col.row*/ (ref_row_col(h0, h1, lg_k) >> 6) == (if lg_k == 26 && (h0 as int) % 0x400_0000 == 0x3ff_ffff && clz64(h1) >= 63 { 0x3ff_fffe } else { (h0 as int) % (pow2(lg_k as nat) as int) }),
{
    lemma_shl64(lg_k); lemma_k_bound(lg_k); lemma2_to64();
    vstd::std_specs::bits::axiom_u64_leading_zeros(h1);
    let k = (1u64 << lg_k);
    let m = (k - 1) as u64;
    let row = (h0 & m) as u32;
    let col = ref_col(h1);
    assert(col <= 63);
    assert(h0 & m == h0 % k) by (bit_vector) requires k == (1u64 << lg_k), m == (k - 1) as u64, 4 <= lg_k <= 26;
    assert((h0 & m) < k) by (bit_vector) requires k == (1u64 << lg_k), m == (k - 1) as u64, 4 <= lg_k <= 26;
    let x = (row << 6) | col;
    assert(row < 0x400_0000 && col <= 63 ==> (x >> 6) == row && (x & 63) == col) by (bit_vector) requires x == (row << 6) | col;
    assert(row < 0x400_0000 && col <= 63 ==> (x == 0xffff_ffffu32 <==> (row == 0x3ff_ffff && col == 63))) by (bit_vector) requires x == (row << 6) | col;
    if x == 0xffff_ffffu32 {
        assert((0xffff_ffffu32 ^ (1u32 << 6)) == 0xffff_ffbfu32) by (bit_vector);
        assert((0xffff_ffbfu32 >> 6) == 0x3ff_fffeu32 && (0xffff_ffbfu32 & 63) == 63u32) by (bit_vector);
        assert(k == 0x400_0000) by {
            if lg_k < 26 { lemma_pow2_strictly_increases(lg_k as nat, 26); }
        }
    }
}

// ---------- float leaves ----------
uninterp spec fn k_as_f64(lg_k: u8) -> f64;
// `(1 << lg_k) as f64`: K as a float (shim body is the original expression; i32 shift, lg_k <= 26 < 31)
#[verifier::external_body]
fn vx_k_as_f64(lg_k: u8) -> (r: f64)
  requires lg_k <= 30
  ensures r == k_as_f64(lg_k)
{ (1 << lg_k) as f64 }
#[verifier::external_body]
fn vx_f32_to_f64(value: f32) -> (r: f64)
  ensures r == f32_to_f64_spec(value)
{ value as f64 }
// `(EMPIRICAL_MAX_SIZE_FACTOR * k as f64) as usize` with factor 0.6 and k = 2^n, 20 <= n <= 26: floor(0.6 k) == 3k div 5
// (backed by the Kani leaf leaf_cpc_max_bytes_factor, which enumerates the seven values)
#[verifier::external_body]
fn vx_factor_times_k(factor: f64, k: i32) -> (r: usize)
  requires factor == 0.6f64, exists|n: nat| 20 <= n <= 26 && k == pow2(n)
  ensures r == (3 * k) / 5
{ (factor * k as f64) as usize }

// ---------- cpc/estimator.rs: the estimator leaves (float; bounds are the subject of the Kani harnesses c01_cpc_*) ----------
#[repr(u8)]
#[derive(Clone, Copy)]
enum NumStdDev {
One = 1 , Two = 2 , Three = 3 , }


uninterp spec fn icon_estimate_spec(lg_k: u8, c: u32) -> f64;
uninterp spec fn icon_lb_spec(lg_k: u8, c: u32, kappa: NumStdDev) -> f64;
uninterp spec fn icon_ub_spec(lg_k: u8, c: u32, kappa: NumStdDev) -> f64;
uninterp spec fn hip_lb_spec(lg_k: u8, c: u32, hip: f64, kappa: NumStdDev) -> f64;
uninterp spec fn hip_ub_spec(lg_k: u8, c: u32, hip: f64, kappa: NumStdDev) -> f64;
#[verifier::external_body]
fn icon_estimate(lg_k: u8, num_coupons: u32) -> (r: f64) requires 4 <= lg_k <= 26 ensures r == icon_estimate_spec(lg_k, num_coupons) { unimplemented!() }
#[verifier::external_body]
fn icon_confidence_lb(lg_k: u8, num_coupons: u32, kappa: NumStdDev) -> (r: f64) requires 4 <= lg_k <= 26 ensures r == icon_lb_spec(lg_k, num_coupons, kappa) { unimplemented!() }
#[verifier::external_body]
fn icon_confidence_ub(lg_k: u8, num_coupons: u32, kappa: NumStdDev) -> (r: f64) requires 4 <= lg_k <= 26 ensures r == icon_ub_spec(lg_k, num_coupons, kappa) { unimplemented!() }
#[verifier::external_body]
fn hip_confidence_lb(lg_k: u8, num_coupons: u32, hip_est_accum: f64, kappa: NumStdDev) -> (r: f64) requires 4 <= lg_k <= 26 ensures r == hip_lb_spec(lg_k, num_coupons, hip_est_accum, kappa) { unimplemented!() }
#[verifier::external_body]
fn hip_confidence_ub(lg_k: u8, num_coupons: u32, hip_est_accum: f64, kappa: NumStdDev) -> (r: f64) requires 4 <= lg_k <= 26 ensures r == hip_ub_spec(lg_k, num_coupons, hip_est_accum, kappa) { unimplemented!() }

// C01 (dispatch): a sketch that was never merged reports its HIP accumulator, a merged one the ICON estimate of (lg_k, C)
spec fn cpc_estimate_spec(merge_flag: bool, hip: f64, lg_k: u8, c: u32) -> f64 { if !merge_flag { hip } else { icon_estimate_spec(lg_k, c) } }
spec fn cpc_lb_spec(merge_flag: bool, hip: f64, lg_k: u8, c: u32, kappa: NumStdDev) -> f64 { if !merge_flag { hip_lb_spec(lg_k, c, hip, kappa) } else { icon_lb_spec(lg_k, c, kappa) } }
spec fn cpc_ub_spec(merge_flag: bool, hip: f64, lg_k: u8, c: u32, kappa: NumStdDev) -> f64 { if !merge_flag { hip_ub_spec(lg_k, c, hip, kappa) } else { icon_ub_spec(lg_k, c, kappa) } }

fn estimate ( merge_flag : bool , hip_est_accum : f64 , lg_k : u8 , num_coupons : u32 ) -> ( r : f64 ) requires 4 <= lg_k <= 26 ensures
/*@C01.cpc.dispatch*/ r == cpc_estimate_spec ( merge_flag , hip_est_accum , lg_k , num_coupons ) {
if ! merge_flag {
hip_est_accum }
else {
icon_estimate ( lg_k , num_coupons ) }
}


fn lower_bound ( merge_flag : bool , hip_est_accum : f64 , lg_k : u8 , num_coupons : u32 , kappa : NumStdDev , ) -> ( r : f64 ) requires 4 <= lg_k <= 26 ensures
/*@C01.cpc.dispatch*/ r == cpc_lb_spec ( merge_flag , hip_est_accum , lg_k , num_coupons , kappa ) {
if ! merge_flag {
hip_confidence_lb ( lg_k , num_coupons , hip_est_accum , kappa ) }
else {
icon_confidence_lb ( lg_k , num_coupons , kappa ) }
}


fn upper_bound ( merge_flag : bool , hip_est_accum : f64 , lg_k : u8 , num_coupons : u32 , kappa : NumStdDev , ) -> ( r : f64 ) requires 4 <= lg_k <= 26 ensures
/*@C01.cpc.dispatch*/ r == cpc_ub_spec ( merge_flag , hip_est_accum , lg_k , num_coupons , kappa ) {
if ! merge_flag {
hip_confidence_ub ( lg_k , num_coupons , hip_est_accum , kappa ) }
else {
icon_confidence_ub ( lg_k , num_coupons , kappa ) }
}


// ---------- the sketch (view and invariant copied VERBATIM from contracts/cpc_update.rs / cpc_union2.rs) ----------
struct CpcSketch {
lg_k : u8 , seed : u64 , seed_hash : u16 , first_interesting_column : u8 , num_coupons : u32 , surprising_value_table : Option < PairTable > , window_offset : u8 , sliding_window : Vec < u8 > , merge_flag : bool , kxp : f64 , hip_est_accum : f64 , }


impl CpcSketch {
    spec fn k(&self) -> int { pow2(self.lg_k as nat) as int }
    spec fn am(&self) -> AM { AM { rows: self.k(), f: |r: int, c: int| self.mbit(r, c) } }
    spec fn tbl(&self) -> ISet<u32> { if self.surprising_value_table is Some { self.surprising_value_table->0.items() } else { ISet::empty() } }
    // the abstract bit matrix, as the paper defines it
    spec fn mbit(&self, row: int, col: int) -> bool {
        let off = self.window_offset as int;
        if self.sliding_window@.len() != 0 && off <= col < off + 8 { bit8(self.sliding_window@[row], col - off) }
        else if col < off { !self.tbl().contains(rc(row, col)) }
        else { self.tbl().contains(rc(row, col)) }
    }
    spec fn wf_matrix(&self) -> bool {
        &&& 4 <= self.lg_k <= 26
        &&& self.window_offset <= 56
        &&& (self.sliding_window@.len() == 0 || self.sliding_window@.len() == self.k())
        &&& self.num_coupons != 0 ==> self.surprising_value_table is Some && self.surprising_value_table->0.wf()
              && (forall|x: u32| #[trigger] self.tbl().contains(x) ==> (x >> 6) < self.k())
              && (self.sliding_window@.len() != 0 ==> forall|x: u32| self.tbl().contains(x) ==> !(self.window_offset <= (x & 63) < self.window_offset + 8))
        &&& self.num_coupons == 0 ==> self.window_offset == 0 && self.sliding_window@.len() == 0
              && (self.surprising_value_table is Some ==> self.tbl() =~= ISet::empty())
    }
    spec fn tbl_nvb_ok(&self) -> bool { self.surprising_value_table is Some && self.surprising_value_table->0.num_valid_bits == 6 + self.lg_k }
    spec fn windowed(&self) -> bool { self.sliding_window@.len() != 0 }
    spec fn fic_ok(&self) -> bool {
        &&& self.first_interesting_column <= self.window_offset
        &&& forall|r: int, c: int| 0 <= r < self.k() && 0 <= c < self.first_interesting_column ==> self.mbit(r, c)
    }
    spec fn thresholds(&self) -> bool {
        let c = self.num_coupons as int; let k = self.k(); let off = self.window_offset as int;
        &&& !self.windowed() ==> off == 0 && 32 * c < 3 * k
        &&& self.windowed() ==> 32 * c >= 3 * k && 8 * c < (27 + 8 * off) * k && (off > 0 ==> 8 * c >= (27 + 8 * (off - 1)) * k)
    }
    spec fn wf(&self) -> bool {
        &&& self.wf_matrix()
        &&& self.fic_ok()
        &&& self.thresholds()
        &&& self.num_coupons != 0 ==> self.tbl_nvb_ok()
        &&& self.num_coupons != 0 && !self.windowed() ==> self.surprising_value_table->0.num_items == self.num_coupons
    }
    // hash-dependent assumption (see cpc_update): fewer than 59.375 K coupons
    spec fn below_last_window(&self) -> bool { 8 * (self.num_coupons as int + 1) < (27 + 8 * 56) * self.k() }

    // ---- addition of this unit: what validate() checks -- C is the population count of the abstract matrix ----
    spec fn count_ok(&self) -> bool { self.num_coupons == am_popcount(self.am()) }

    // opaque: contract copied VERBATIM from the one PROVED in contracts/cpc_union.rs (unit cpc_union; proof from cpc_core)
    #[verifier::external_body]
    fn build_bit_matrix(&self) -> (matrix: Vec<u64>)
      requires self.wf_matrix(),
      ensures matrix@.len() == self.k(), forall|r: int, c: int| 0 <= r < self.k() && 0 <= c < 64 ==> bit(matrix@[r], c) == self.mbit(r, c),
    { unimplemented!() }

    // opaque: contract copied VERBATIM from the one PROVED in contracts/cpc_update.rs (unit cpc_update)
    #[verifier::external_body]
    fn row_col_update(&mut self, row_col: u32)
      requires old(self).wf(), row_col != EMPTY, (row_col >> 6) < old(self).k(), old(self).windowed() ==> old(self).lg_k <= 18, old(self).below_last_window(),
      ensures final(self).wf(), final(self).lg_k == old(self).lg_k, final(self).merge_flag == old(self).merge_flag,
        forall|r: int, c: int| 0 <= r < old(self).k() && 0 <= c < 64 ==> final(self).mbit(r, c) == (old(self).mbit(r, c) || (r == (row_col >> 6) && c == (row_col & 63))),
        final(self).num_coupons == old(self).num_coupons + (if old(self).mbit((row_col >> 6) as int, (row_col & 63) as int) { 0u32 } else { 1u32 }),
        final(self).window_offset == dco(final(self).lg_k, final(self).num_coupons),
        final(self).windowed() <==> 32 * (final(self).num_coupons as int) >= 3 * final(self).k(),
    { unimplemented!() }

    fn default ( ) -> ( r : Self ) ensures
/*@C05.new.empty*/ r . fresh ( DEFAULT_LG_K , DEFAULT_UPDATE_SEED ) , r . wf ( ) , r . count_ok ( ) {
Self :: new ( DEFAULT_LG_K ) }


    // a freshly constructed sketch: no coupons, no table, no window, HIP mode, kxp == K, accumulator 0
    spec fn fresh(&self, lg_k: u8, seed: u64) -> bool {
        &&& self.lg_k == lg_k && self.seed == seed && self.seed_hash == seed_hash_spec(seed) && self.seed_hash != 0
        &&& self.first_interesting_column == 0 && self.num_coupons == 0 && self.surprising_value_table is None
        &&& self.window_offset == 0 && self.sliding_window@.len() == 0 && self.merge_flag == false
        &&& self.kxp == k_as_f64(lg_k) && self.hip_est_accum == 0.0f64
    }

    fn new ( lg_k : u8 ) -> ( r : Self ) ensures
/*@C05.new.lg_k_validated*/ 4 <= lg_k <= 26 ,
/*@C05.new.empty*/ r . fresh ( lg_k , DEFAULT_UPDATE_SEED ) , r . wf ( ) , r . count_ok ( ) {
Self :: with_seed ( lg_k , DEFAULT_UPDATE_SEED ) }


    // the range assert is a documented panic ("Panics if lg_k is not in the range"): R12b, the function returns only for valid lg_k
    fn with_seed ( lg_k : u8 , seed : u64 ) -> ( r : Self ) ensures
/*@C05.with_seed.lg_k_validated*/ 4 <= lg_k <= 26 ,
/*@C05.new.empty*/ r . fresh ( lg_k , seed ) ,
/*@C05.new.wf*/ r . wf ( ) ,
/*@C05.new.matrix_empty*/ forall | row : int , c : int | 0 <= row < r . k ( ) && 0 <= c < 64 ==> ! r . mbit ( row , c ) ,
/*@C05.validate*/ r . count_ok ( ) , {
vx_documented_panic ( ( MIN_LG_K ..= MAX_LG_K ) . contains ( & lg_k ) ) ;
assert ( /*@C05.with_seed.lg_k_validated*/ 4 <= lg_k <= 26 ) ;
proof {
lemma_k_bound ( lg_k ) ;
assert forall | s : CpcSketch | s . num_coupons == 0 && s . surprising_value_table is None && s . sliding_window @ . len ( ) == 0 && s . window_offset == 0 && s . lg_k == lg_k implies # [ trigger ] s . count_ok ( ) by {
lemma_lin_zero ( s . am ( ) , 64 * s . k ( ) ) ;
}
}
Self {
lg_k , seed , seed_hash : compute_seed_hash ( seed ) , first_interesting_column : 0 , num_coupons : 0 , surprising_value_table : None , window_offset : 0 , sliding_window : vec! [ ] , merge_flag : false , kxp : vx_k_as_f64 ( lg_k ) , hip_est_accum : 0.0 , }
}


    fn lg_k ( & self ) -> ( r : u8 ) ensures r == self . lg_k {
self . lg_k }


    fn estimate ( & self ) -> ( r : f64 ) requires 4 <= self . lg_k <= 26 ensures
/*@C01.cpc.dispatch*/ r == cpc_estimate_spec ( self . merge_flag , self . hip_est_accum , self . lg_k , self . num_coupons ) {
estimate ( self . merge_flag , self . hip_est_accum , self . lg_k , self . num_coupons , ) }


    fn lower_bound ( & self , kappa : NumStdDev ) -> ( r : f64 ) requires 4 <= self . lg_k <= 26 ensures
/*@C01.cpc.dispatch*/ r == cpc_lb_spec ( self . merge_flag , self . hip_est_accum , self . lg_k , self . num_coupons , kappa ) {
lower_bound ( self . merge_flag , self . hip_est_accum , self . lg_k , self . num_coupons , kappa , ) }


    fn upper_bound ( & self , kappa : NumStdDev ) -> ( r : f64 ) requires 4 <= self . lg_k <= 26 ensures
/*@C01.cpc.dispatch*/ r == cpc_ub_spec ( self . merge_flag , self . hip_est_accum , self . lg_k , self . num_coupons , kappa ) {
upper_bound ( self . merge_flag , self . hip_est_accum , self . lg_k , self . num_coupons , kappa , ) }


    fn is_empty ( & self ) -> ( r : bool ) ensures r == ( self . num_coupons == 0 ) {
self . num_coupons == 0 }


    fn update < T : Hash > ( & mut self , value : T ) requires old ( self ) . wf ( ) , old ( self ) . count_ok ( ) , old ( self ) . windowed ( ) ==> old ( self ) . lg_k <= 18 , old ( self ) . below_last_window ( ) , ensures
/*@C05.update.wf*/ final ( self ) . wf ( ) , final ( self ) . lg_k == old ( self ) . lg_k , final ( self ) . merge_flag == old ( self ) . merge_flag ,
/*@C05.update.onebit*/ forall | r : int , c : int | 0 <= r < old ( self ) . k ( ) && 0 <= c < 64 ==> final ( self ) . mbit ( r , c ) == ( old ( self ) . mbit ( r , c ) || ( r == ( item_rc ( old ( self ) . seed , value , old ( self ) . lg_k ) >> 6 ) && c == ( item_rc ( old ( self ) . seed , value , old ( self ) . lg_k ) & 63 ) ) ) ,
/*@C05.update.count*/ final ( self ) . num_coupons == old ( self ) . num_coupons + ( if old ( self ) . mbit ( ( item_rc ( old ( self ) . seed , value , old ( self ) . lg_k ) >> 6 ) as int , ( item_rc ( old ( self ) . seed , value , old ( self ) . lg_k ) & 63 ) as int ) {
0u32 }
else {
1u32 }
) ,
/*@C05.update.offset*/ final ( self ) . window_offset == dco ( final ( self ) . lg_k , final ( self ) . num_coupons ) ,
/*@C05.update.flavor*/ final ( self ) . windowed ( ) <==> 32 * ( final ( self ) . num_coupons as int ) >= 3 * final ( self ) . k ( ) ,
/*@C05.validate*/ final ( self ) . count_ok ( ) , {
let mut hasher = MurmurHash3X64128 :: with_seed ( self . seed ) ;
vx_hash_item ( value , & mut hasher ) ;
let ( h1 , h2 ) = hasher . finish128 ( ) ;
proof {
lemma_shl64 ( self . lg_k ) ;
lemma_k_bound ( self . lg_k ) ;
lemma_ref_row_col ( h1 , h2 , self . lg_k ) ;
vstd :: std_specs :: bits :: axiom_u64_leading_zeros ( h2 ) ;
}
let k = 1 << self . lg_k ;
let col = h2 . leading_zeros ( ) ;
let col = if col > 63 {
63 }
else {
col as u8 }
;
proof {
let m = ( k - 1 ) as u64 ;
let l = self . lg_k ;
assert ( ( h1 & m ) < k ) by ( bit_vector ) requires k == ( 1u64 << l ) , m == ( k - 1 ) as u64 , 4 <= l <= 26 ;
assert ( h1 & m == h1 % k ) by ( bit_vector ) requires k == ( 1u64 << l ) , m == ( k - 1 ) as u64 , 4 <= l <= 26 ;
}
let row = ( h1 & ( k - 1 ) ) as u32 ;
let mut row_col = ( row << 6 ) | ( col as u32 ) ;
if row_col == u32 :: MAX {
row_col ^= 1 << 6 ;
}
assert (
/*@C16.cpc_row_col*/ row_col == ref_row_col ( h1 , h2 , self . lg_k ) ) ;
assert (
/*@C16.cpc_row_col*/ row_col == item_rc ( self . seed , value , self . lg_k ) ) ;
self . row_col_update ( row_col ) ;
proof {
lemma_setbit_count ( old ( self ) . am ( ) , self . am ( ) , ( row_col >> 6 ) as int , ( row_col & 63 ) as int , 64 * old ( self ) . k ( ) ) ;
}
}


    fn update_f64 ( & mut self , value : f64 ) requires old ( self ) . wf ( ) , old ( self ) . count_ok ( ) , old ( self ) . windowed ( ) ==> old ( self ) . lg_k <= 18 , old ( self ) . below_last_window ( ) , ensures
/*@C05.update.wf*/ final ( self ) . wf ( ) , final ( self ) . lg_k == old ( self ) . lg_k , final ( self ) . merge_flag == old ( self ) . merge_flag ,
/*@C05.update.onebit*/ forall | r : int , c : int | 0 <= r < old ( self ) . k ( ) && 0 <= c < 64 ==> final ( self ) . mbit ( r , c ) == ( old ( self ) . mbit ( r , c ) || ( r == ( item_rc ( old ( self ) . seed , canonical_double_spec ( value ) , old ( self ) . lg_k ) >> 6 ) && c == ( item_rc ( old ( self ) . seed , canonical_double_spec ( value ) , old ( self ) . lg_k ) & 63 ) ) ) ,
/*@C05.validate*/ final ( self ) . count_ok ( ) , {
let canonical = canonical_double ( value ) ;
self . update ( canonical ) ;
}


    fn update_f32 ( & mut self , value : f32 ) requires old ( self ) . wf ( ) , old ( self ) . count_ok ( ) , old ( self ) . windowed ( ) ==> old ( self ) . lg_k <= 18 , old ( self ) . below_last_window ( ) , ensures
/*@C05.update.wf*/ final ( self ) . wf ( ) , final ( self ) . lg_k == old ( self ) . lg_k , final ( self ) . merge_flag == old ( self ) . merge_flag ,
/*@C05.update.onebit*/ forall | r : int , c : int | 0 <= r < old ( self ) . k ( ) && 0 <= c < 64 ==> final ( self ) . mbit ( r , c ) == ( old ( self ) . mbit ( r , c ) || ( r == ( item_rc ( old ( self ) . seed , canonical_double_spec ( f32_to_f64_spec ( value ) ) , old ( self ) . lg_k ) >> 6 ) && c == ( item_rc ( old ( self ) . seed , canonical_double_spec ( f32_to_f64_spec ( value ) ) , old ( self ) . lg_k ) & 63 ) ) ) ,
/*@C05.validate*/ final ( self ) . count_ok ( ) , {
self . update_f64 ( vx_f32_to_f64 ( value ) ) ;
}


    fn max_serialized_bytes ( lg_k : u8 ) -> ( r : usize ) ensures
/*@C18.cpc.max_bytes_lg_k_validated*/ 4 <= lg_k <= 26 ,
/*@C18.cpc.max_bytes_value*/ r == max_bytes_spec ( lg_k ) ,
/*@C18.cpc.max_bytes_monotone*/ forall | j : u8 | 4 <= j < lg_k ==> max_bytes_spec ( j ) < r ,
/*@C18.cpc.max_bytes_range*/ 40 + pow2 ( lg_k as nat ) / 2 <= r <= 40 + 2 * pow2 ( lg_k as nat ) , {
vx_documented_panic ( ( MIN_LG_K ..= MAX_LG_K ) . contains ( & lg_k ) ) ;
assert ( /*@C18.cpc.max_bytes_lg_k_validated*/ 4 <= lg_k <= 26 ) ;
const MAX_PREAMBLE_SIZE_BYTES : usize = 40 ;
const EMPIRICAL_SIZE_MAX_LGK : u8 = 19 ;
const EMPIRICAL_MAX_SIZE_FACTOR : f64 = 0.6 ;
let EMPIRICAL_MAX_SIZE_BYTES : [ usize ;
16 ] = [ 24 , 36 , 56 , 100 , 180 , 344 , 660 , 1292 , 2540 , 5020 , 9968 , 19836 , 39532 , 78880 , 157516 , 314656 , ] ;
assert ( /*@C18.cpc.max_bytes_value*/ EMPIRICAL_MAX_SIZE_FACTOR == 0.6f64 ) ;
proof {
lemma_max_bytes ( lg_k ) ;
lemma_shl_i32 ( lg_k ) ;
}
if lg_k <= EMPIRICAL_SIZE_MAX_LGK {
EMPIRICAL_MAX_SIZE_BYTES [ ( lg_k - MIN_LG_K ) as usize ] + MAX_PREAMBLE_SIZE_BYTES }
else {
let k = 1 << lg_k ;
vx_factor_times_k ( EMPIRICAL_MAX_SIZE_FACTOR , k ) + MAX_PREAMBLE_SIZE_BYTES }
}


    // validate() recounts the matrix: it is exactly the check C == popcount(M()); on a reachable sketch (wf + count_ok) it returns true
    fn validate ( & self ) -> ( r : bool ) requires self . wf_matrix ( ) , self . lg_k <= 25 || self . count_ok ( ) , ensures
/*@C05.validate*/ r == self . count_ok ( ) ,
/*@C05.validate*/ self . wf ( ) && self . count_ok ( ) ==> r , {
let bit_matrix = self . build_bit_matrix ( ) ;
proof {
lemma_k_bound ( self . lg_k ) ;
lemma_lin_eq ( self . am ( ) , mat_am ( bit_matrix @ ) , 64 * self . k ( ) ) ;
lemma_lin_bounds ( self . am ( ) , 64 * self . k ( ) ) ;
lemma2_to64 ( ) ;
if self . lg_k < 26 {
lemma_pow2_strictly_increases ( self . lg_k as nat , 26 ) ;
}
}
let num_bits_set = count_bits_set_in_matrix ( & bit_matrix ) ;
num_bits_set == self . num_coupons }


    fn num_coupons ( & self ) -> ( r : u32 ) ensures r == self . num_coupons {
self . num_coupons }

}

// ---------- C18: the reference size table (Java CpcSketch.empiricalMaxBytes / C++ get_max_serialized_size_bytes) ----------
spec fn ref_empirical(lg_k: u8) -> int {
    if lg_k == 4 { 24 } else if lg_k == 5 { 36 } else if lg_k == 6 { 56 } else if lg_k == 7 { 100 } else if lg_k == 8 { 180 } else if lg_k == 9 { 344 }
    else if lg_k == 10 { 660 } else if lg_k == 11 { 1292 } else if lg_k == 12 { 2540 } else if lg_k == 13 { 5020 } else if lg_k == 14 { 9968 }
    else if lg_k == 15 { 19836 } else if lg_k == 16 { 39532 } else if lg_k == 17 { 78880 } else if lg_k == 18 { 157516 } else { 314656 }
}
// lg_k <= 19: empirical table + 40; above: floor(0.6 K) + 40
spec fn max_bytes_spec(lg_k: u8) -> int {
    if lg_k <= 19 { ref_empirical(lg_k) + 40 } else { (3 * (pow2(lg_k as nat) as int)) / 5 + 40 }
}
proof fn lemma_max_bytes(lg_k: u8)
  requires 4 <= lg_k <= 26
  ensures
    forall|j: u8| 4 <= j < lg_k ==> max_bytes_spec(j) < max_bytes_spec(lg_k),
    40 + pow2(lg_k as nat) / 2 <= max_bytes_spec(lg_k) <= 40 + 2 * pow2(lg_k as nat),
{
    lemma2_to64();
    assert(pow2(17) == 0x2_0000 && pow2(18) == 0x4_0000 && pow2(19) == 0x8_0000 && pow2(20) == 0x10_0000 && pow2(21) == 0x20_0000 && pow2(22) == 0x40_0000
        && pow2(23) == 0x80_0000 && pow2(24) == 0x100_0000 && pow2(25) == 0x200_0000 && pow2(26) == 0x400_0000) by {
        lemma_pow2_adds(16, 1); lemma_pow2_adds(16, 2); lemma_pow2_adds(16, 3); lemma_pow2_adds(16, 4); lemma_pow2_adds(16, 5); lemma_pow2_adds(16, 6);
        lemma_pow2_adds(16, 7); lemma_pow2_adds(16, 8); lemma_pow2_adds(16, 9); lemma_pow2_adds(16, 10);
    }
    assert forall|j: u8| 4 <= j < lg_k implies max_bytes_spec(j) < max_bytes_spec(lg_k) by {
        lemma_max_bytes_step(j, lg_k);
    }
    lemma_max_bytes_value(lg_k);
}
spec fn max_bytes_lit(lg_k: u8) -> int {
    if lg_k <= 19 { ref_empirical(lg_k) + 40 } else if lg_k == 20 { 629185 } else if lg_k == 21 { 1258331 } else if lg_k == 22 { 2516622 }
    else if lg_k == 23 { 5033204 } else if lg_k == 24 { 10066369 } else if lg_k == 25 { 20132699 } else { 40265358 }
}
proof fn lemma_max_bytes_value(lg_k: u8)
  requires 4 <= lg_k <= 26
  ensures max_bytes_spec(lg_k) == max_bytes_lit(lg_k), 40 + pow2(lg_k as nat) / 2 <= max_bytes_spec(lg_k) <= 40 + 2 * pow2(lg_k as nat),
{
    lemma2_to64();
    lemma_pow2_adds(16, 1); lemma_pow2_adds(16, 2); lemma_pow2_adds(16, 3); lemma_pow2_adds(16, 4); lemma_pow2_adds(16, 5); lemma_pow2_adds(16, 6);
    lemma_pow2_adds(16, 7); lemma_pow2_adds(16, 8); lemma_pow2_adds(16, 9); lemma_pow2_adds(16, 10);
}
proof fn lemma_max_bytes_step(j: u8, l: u8)
  requires 4 <= j < l <= 26
  ensures max_bytes_spec(j) < max_bytes_spec(l)
{
    lemma_max_bytes_value(j); lemma_max_bytes_value(l);
}

// ---------- lemmas ----------
proof fn lemma_lin_bounds(a: AM, b: int) requires 0 <= b ensures 0 <= lin(a, b) <= b decreases b { if b > 0 { lemma_lin_bounds(a, b - 1); } }
proof fn lemma_lin_eq(a: AM, a2: AM, b: int)
  requires am_eq(a, a2), 0 <= b <= 64 * a.rows
  ensures lin(a, b) == lin(a2, b)
  decreases b
{
    if b > 0 { lemma_lin_eq(a, a2, b - 1); let p = b - 1; assert(0 <= p / 64 < a.rows && 0 <= p % 64 < 64); assert(am_get(a, p / 64, p % 64) == am_get(a2, p / 64, p % 64)); }
}
proof fn lemma_lin_zero(a: AM, b: int)
  requires 0 <= b <= 64 * a.rows, forall|r: int, c: int| 0 <= r < a.rows && 0 <= c < 64 ==> !am_get(a, r, c)
  ensures lin(a, b) == 0
  decreases b
{
    if b > 0 { lemma_lin_zero(a, b - 1); let p = b - 1; assert(0 <= p / 64 < a.rows && 0 <= p % 64 < 64); }
}
// setting one bit of a matrix raises its population count by one iff the bit was clear
proof fn lemma_setbit_count(a: AM, a2: AM, r0: int, c0: int, b: int)
  requires a.rows == a2.rows, 0 <= r0 < a.rows, 0 <= c0 < 64, 0 <= b <= 64 * a.rows,
    forall|r: int, c: int| 0 <= r < a.rows && 0 <= c < 64 ==> am_get(a2, r, c) == (am_get(a, r, c) || (r == r0 && c == c0)),
  ensures lin(a2, b) == lin(a, b) + (if !am_get(a, r0, c0) && 64 * r0 + c0 < b { 1int } else { 0int })
  decreases b
{
    if b > 0 {
        lemma_setbit_count(a, a2, r0, c0, b - 1);
        let p = b - 1;
        assert(0 <= p / 64 < a.rows && 0 <= p % 64 < 64);
        assert(am_get(a2, p / 64, p % 64) == (am_get(a, p / 64, p % 64) || (p / 64 == r0 && p % 64 == c0)));
        assert((p / 64 == r0 && p % 64 == c0) <==> p == 64 * r0 + c0);
    }
}
proof fn lemma_k_bound(l: u8) requires 4 <= l <= 26 ensures 16 <= pow2(l as nat) <= 0x400_0000 {
    lemma2_to64(); if l < 26 { lemma_pow2_strictly_increases(l as nat, 26); } if l > 4 { lemma_pow2_strictly_increases(4, l as nat); }
}
proof fn lemma_shl64(l: u8) requires l <= 26 ensures (1u64 << l) == pow2(l as nat) {
    lemma2_to64(); if l < 26 { lemma_pow2_strictly_increases(l as nat, 26); }
    vstd::bits::lemma_u64_shl_is_mul(1, l as u64);
    assert((1u64 << (l as u64)) == (1u64 << l));
}
proof fn lemma_shl_i32(l: u8) requires l <= 26 ensures (1i32 << l) == pow2(l as nat), pow2(l as nat) <= 0x400_0000, l >= 20 ==> pow2(l as nat) >= 0x10_0000 {
    lemma_shl64(l); lemma2_to64(); lemma_pow2_adds(16, 4);
    if l < 26 { lemma_pow2_strictly_increases(l as nat, 26); } if l > 20 { lemma_pow2_strictly_increases(20, l as nat); }
    assert(l <= 26 ==> (1i32 << l) == ((1u64 << l) as i32) && (1u64 << l) <= 0x400_0000) by (bit_vector);
}
}
fn main(){}
