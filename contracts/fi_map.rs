#![feature(allocator_api)]
use vstd::prelude::*;
use vstd::std_specs::cmp::*;
use std::hash::Hash;
use vstd::iset::*;
use vstd::arithmetic::power2::*;
use vstd::arithmetic::div_mod::*;
use vstd::arithmetic::mul::*;
verus! {
global size_of usize == 8;

// ================= probe.vx =================
// odd s, 2^n | d*s  ==>  2^n | d
proof fn lemma_odd_cancel(n: nat, s: int, d: int)
  requires s % 2 == 1, (d * s) % (pow2(n) as int) == 0
  ensures d % (pow2(n) as int) == 0
  decreases n
{
    lemma_pow2_pos(n);
    if n == 0 {
        lemma2_to64();
    } else {
        let p = pow2(n) as int;
        let q = pow2((n - 1) as nat) as int;
        lemma_pow2_pos((n - 1) as nat);
        assert(p == 2 * q) by { lemma_pow2_unfold(n); }
        let m = (d * s) / p;
        assert(d * s == p * m) by { lemma_fundamental_div_mod(d * s, p); }
        assert((d * s) % 2 == 0) by {
            assert(d * s == 2 * (q * m)) by (nonlinear_arith) requires d * s == p * m, p == 2 * q;
        }
        if d % 2 != 0 {
            let a = d / 2; let b = s / 2;
            assert(d * s == 2 * (2 * a * b + a + b) + 1) by (nonlinear_arith) requires d == 2 * a + 1, s == 2 * b + 1;
            assert(false);
        }
        let d2 = d / 2;
        assert((d2 * s) % q == 0) by {
            assert(2 * (d2 * s) == 2 * (q * m)) by (nonlinear_arith) requires d == 2 * d2, d * s == p * m, p == 2 * q;
            lemma_mod_multiples_basic(m, q);
            assert(q * m == m * q) by (nonlinear_arith);
        }
        lemma_odd_cancel((n - 1) as nat, s, d2);
        let t = d2 / q;
        assert(d2 == q * t) by { lemma_fundamental_div_mod(d2, q); }
        assert(d == p * t) by (nonlinear_arith) requires d == 2 * d2, d2 == q * t, p == 2 * q;
        lemma_mod_multiples_basic(t, p);
        assert(p * t == t * p) by (nonlinear_arith);
    }
}

spec fn probe_at(p0: int, s: int, j: int, size: int) -> int { (p0 + j * s) % size }

// the probe sequence is injective on [0, 2^n)
proof fn lemma_probe_injective(n: nat, p0: int, s: int, j1: int, j2: int)
  requires s % 2 == 1, 0 <= j1 < pow2(n), 0 <= j2 < pow2(n),
           probe_at(p0, s, j1, pow2(n) as int) == probe_at(p0, s, j2, pow2(n) as int)
  ensures j1 == j2
{
    let size = pow2(n) as int;
    lemma_pow2_pos(n);
    // (p0 + j1 s) - (p0 + j2 s) = (j1 - j2) s  is a multiple of size
    let a = p0 + j1 * s; let b = p0 + j2 * s;
    lemma_fundamental_div_mod(a, size);
    lemma_fundamental_div_mod(b, size);
    let d = j1 - j2;
    assert(a - b == d * s) by (nonlinear_arith) requires a == p0 + j1 * s, b == p0 + j2 * s, d == j1 - j2;
    let qa = a / size; let qb = b / size;
    assert(a - b == size * (qa - qb)) by (nonlinear_arith) requires a == size * qa + a % size, b == size * qb + b % size, a % size == b % size;
    lemma_mod_multiples_basic(qa - qb, size);
    assert(size * (qa - qb) == (qa - qb) * size) by (nonlinear_arith);
    assert((d * s) % size == 0);
    lemma_odd_cancel(n, s, d);
    // |d| < size and size | d  ==> d == 0
    lemma_fundamental_div_mod(d, size);
    let t = d / size;
    assert(d == size * t);
    assert(-size < d < size);
    if t == 0 { assert(size * t == 0) by (nonlinear_arith) requires t == 0; }
    if t >= 1 { assert(size * t >= size) by (nonlinear_arith) requires t >= 1, size > 0; }
    if t <= -1 { assert(size * t <= -size) by (nonlinear_arith) requires t <= -1, size > 0; }
}

// one step of the exec probe: (probe + stride) & mask  ==  probe_at(.., j+1)
proof fn lemma_probe_step(p0: int, s: int, j: int, size: int, cur: int)
  requires size > 0, cur == probe_at(p0, s, j, size)
  ensures (cur + s) % size == probe_at(p0, s, j + 1, size)
{
    let a = p0 + j * s;
    assert(p0 + (j + 1) * s == a + s) by (nonlinear_arith) requires a == p0 + j * s;
    lemma_add_mod_noop(a, s, size);
    lemma_add_mod_noop(a % size, s, size);
    lemma_mod_twice(a, size);
}

// pigeonhole: j distinct probe positions, all of them "occupied", and fewer than `size` occupied slots
// We keep a ghost set of visited positions.
proof fn lemma_visited_bound(visited: Set<int>, occupied: Set<int>, size: int)
  requires visited.subset_of(occupied)
  ensures visited.len() <= occupied.len()
{
    vstd::set_lib::lemma_len_subset(visited, occupied);
}
// ================= frequencies/reverse_purge_item_hash_map.rs (real code + overlay) =================
const DRIFT_LIMIT : usize = 1024 ;


const MAX_SAMPLE_SIZE : usize = 1024 ;


pub assume_specification<T: Ord> [ <[T]>::select_nth_unstable ] (s: &mut [T], index: usize) -> (r: (&mut [T], &mut T, &mut [T]))
  requires index < old(s)@.len()
  ensures
    r.0@.len() == index,
    (r.0@.push(*r.1) + r.2@).to_multiset() == old(s)@.to_multiset(),
    final(s)@ == final(r.0)@.push(*final(r.1)) + final(r.2)@,
    T::obeys_cmp_spec() ==> forall|i: int| 0 <= i < r.0@.len() ==> #[trigger] r.0@[i].cmp_spec(&*r.1) != core::cmp::Ordering::Greater,
    T::obeys_cmp_spec() ==> forall|i: int| 0 <= i < r.2@.len() ==> (*r.1).cmp_spec(&#[trigger] r.2@[i]) != core::cmp::Ordering::Greater;
spec fn ssub(a: u64, b: u64) -> u64 { if a >= b { (a - b) as u64 } else { 0u64 } }

#[verifier::reject_recursive_types(T)]
struct ReversePurgeItemHashMap < T > {
lg_length : u8 , load_threshold : usize , keys : Vec < Option < T >> , values : Vec < u64 > , states : Vec < u16 > , num_active : usize , }



pub uninterp spec fn hash_spec<T>(item: T) -> u64;
// R17: hash-quality assertion, an assumption at the statement
#[verifier::external_body] fn vx_hash_quality(cond: bool) ensures cond { debug_assert!(cond); }
pub assume_specification<T: Default> [ core::mem::take::<T> ] (dest: &mut T) -> (r: T)
  ensures r == *old(dest);
// R12b: the documented requirement "map_size must be a power of two" (asserted by `new`) is modelled as 'returns only if the condition
// holds': a tagged POSTCONDITION (`*_validated`) instead of a precondition, so weakening or removing the check is noticed.
#[verifier::external_body] fn vx_documented_panic(c: bool) ensures c { assert!(c); }
pub assume_specification [ usize::is_power_of_two ] (n: usize) -> (r: bool) ensures r == exists|j: nat| j < 64 && n == pow2(j);
pub assume_specification [ usize::trailing_zeros ] (n: usize) -> (r: u32) ensures forall|j: nat| j < 64 && n == pow2(j) ==> r == j;
// R13
#[verifier::external_body] fn vx_none_vec<T>(n: usize) -> (r: Vec<Option<T>>) ensures r@.len() == n, forall|i: int| 0 <= i < n ==> r@[i] is None { (0..n).map(|_| None).collect() }
// R15: `(new_size as f64 * LOAD_FACTOR) as usize`
#[verifier::external_body] fn vx_load_threshold(n: usize) -> (r: usize) requires n <= 0x8_0000_0000_0000 /* 2^51: KX shim_fi_load_threshold_upto_2_51; false above */ ensures r == n * 3 / 4 { (n as f64 * 0.75) as usize }

#[verifier::external_body]
fn hash_item<T: Hash>(item: &T) -> (r: u64) ensures r == hash_spec(*item) { unimplemented!() }

spec fn eq_law<T: Eq>() -> bool { <T as PartialEqSpec>::obeys_eq_spec() && forall|a: T, b: T| #[trigger] a.eq_spec(&b) == (a == b) }
spec fn fhome<T>(k: T, n: int) -> int { (hash_spec(k) as int) % n }
spec fn fpos<T>(k: T, t: int, n: int) -> int { probe_at(fhome(k, n), 1, t, n) }
spec fn focc(st: Seq<u16>) -> Set<int> { Set::range(0, st.len() as int).filter(|i: int| st[i] > 0) }
spec fn ffull_before<T>(st: Seq<u16>, k: T, j: int) -> bool {
    forall|t: int| 0 <= t < j ==> st[#[trigger] fpos(k, t, st.len() as int)] > 0
}
spec fn fclear_before<T>(ks: Seq<Option<T>>, st: Seq<u16>, k: T, j: int) -> bool {
    forall|t: int| 0 <= t < j ==> st[#[trigger] fpos(k, t, st.len() as int)] > 0 && ks[fpos(k, t, st.len() as int)] != Some(k)
}
spec fn freach_at<T>(ks: Seq<Option<T>>, st: Seq<u16>, p: int) -> bool {
    &&& ks[p] is Some && 1 <= st[p] <= st.len()
    &&& p == fpos(ks[p]->0, st[p] - 1, st.len() as int)
    &&& ffull_before(st, ks[p]->0, st[p] - 1)
}
spec fn fshape<T>(ks: Seq<Option<T>>, vs: Seq<u64>, st: Seq<u16>, lg: u8) -> bool {
    1 <= lg <= 40 && ks.len() == pow2(lg as nat) && vs.len() == ks.len() && st.len() == ks.len()
}
spec fn fdistinct<T>(ks: Seq<Option<T>>, st: Seq<u16>) -> bool {
    forall|p: int, q: int| 0 <= p < st.len() && 0 <= q < st.len() && p != q && st[p] > 0 && st[q] > 0 ==> ks[p] != ks[q]
}
spec fn fok<T>(ks: Seq<Option<T>>, st: Seq<u16>) -> bool {
    &&& forall|p: int| 0 <= p < st.len() && st[p] > 0 ==> #[trigger] freach_at(ks, st, p)
    &&& fdistinct(ks, st)
}
spec fn fholds<T>(ks: Seq<Option<T>>, st: Seq<u16>, k: T) -> bool { exists|i: int| 0 <= i < st.len() && st[i] > 0 && ks[i] == Some(k) }
spec fn fidx<T>(ks: Seq<Option<T>>, st: Seq<u16>, k: T) -> int { choose|i: int| 0 <= i < st.len() && st[i] > 0 && ks[i] == Some(k) }
spec fn fval<T>(ks: Seq<Option<T>>, vs: Seq<u64>, st: Seq<u16>, k: T) -> u64 { if fholds(ks, st, k) { vs[fidx(ks, st, k)] } else { 0 } }

impl<T: Eq + Hash> ReversePurgeItemHashMap<T> {
    spec fn shape(&self) -> bool { fshape(self.keys@, self.values@, self.states@, self.lg_length) }
    spec fn wf(&self) -> bool {
        &&& self.shape() && fok(self.keys@, self.states@)
        &&& self.num_active == focc(self.states@).len() && self.num_active < self.states@.len()
    }
    spec fn val(&self, k: T) -> u64 { fval(self.keys@, self.values@, self.states@, k) }

    fn hash_probe ( & self , key : & T ) -> ( r : usize ) requires eq_law :: < T > ( ) , self . shape ( ) , focc ( self . states @ ) . len ( ) < self . states @ . len ( ) , ensures r < self . states @ . len ( ) , exists | j : int | 0 <= j < self . states @ . len ( ) && r == fpos ( * key , j , self . states @ . len ( ) as int ) && # [ trigger ] fclear_before ( self . keys @ , self . states @ , * key , j ) , self . states @ [ r as int ] > 0 ==> self . keys @ [ r as int ] == Some ( * key ) , fok ( self . keys @ , self . states @ ) && self . states @ [ r as int ] == 0 ==> ! fholds ( self . keys @ , self . states @ , * key ) , {
let ghost ks = self . keys @ ;
let ghost st = self . states @ ;
let ghost lg = self . lg_length ;
let ghost sz = pow2 ( lg as nat ) as int ;
proof {
lemma_fmask ( hash_spec ( * key ) as usize , lg ) ;
lemma_pow2_pos ( lg as nat ) ;
}
let mask = self . keys . len ( ) - 1 ;
let mut probe = ( hash_item ( key ) as usize ) & mask ;
let ghost p0 = probe as int ;
let ghost mut j : int = 0 ;
let ghost mut visited : Set < int > = Set :: empty ( ) ;
proof {
assert ( p0 == fhome ( * key , sz ) ) ;
assert ( p0 == probe_at ( p0 , 1 , 0 , sz ) ) by {
lemma_small_mod ( p0 as nat , sz as nat ) ;
}
}
while self . states [ probe ] > 0 invariant_except_break 0 <= j < sz , invariant eq_law :: < T > ( ) , self . shape ( ) , focc ( st ) . len ( ) < st . len ( ) , ks == self . keys @ , st == self . states @ , lg == self . lg_length , sz == pow2 ( lg as nat ) , sz == st . len ( ) , mask == sz - 1 , p0 == fhome ( * key , sz ) , 0 <= p0 < sz , probe == probe_at ( p0 , 1 , j , sz ) , 0 <= probe < sz , 0 <= j < sz , forall | p : int | visited . contains ( p ) <==> exists | i : int | 0 <= i < j && p == probe_at ( p0 , 1 , i , sz ) , visited . len ( ) == j , visited . subset_of ( focc ( st ) ) , fclear_before ( ks , st , * key , j ) , ensures st [ probe as int ] > 0 ==> ks [ probe as int ] == Some ( * key ) , decreases sz - j {
let matches = self . keys [ probe ] . as_ref ( ) . map ( | existing : & T | -> ( r : bool ) ensures r == ( * existing == * key ) {
existing == key }
) . unwrap_or ( false ) ;
if matches {
break ;
}
proof {
let cur = probe as int ;
lemma_probe_step ( p0 , 1 , j , sz , cur ) ;
lemma_fmask ( ( probe + 1 ) as usize , lg ) ;
assert ( focc ( st ) . contains ( cur ) ) ;
assert ( ! visited . contains ( cur ) ) by {
if visited . contains ( cur ) {
let i = choose | i : int | 0 <= i < j && cur == probe_at ( p0 , 1 , i , sz ) ;
lemma_probe_injective ( lg as nat , p0 , 1 , i , j ) ;
}
}
let v2 = visited . insert ( cur ) ;
lemma_visited_bound ( v2 , focc ( st ) , sz ) ;
assert forall | p : int | v2 . contains ( p ) <==> exists | i : int | 0 <= i < j + 1 && p == probe_at ( p0 , 1 , i , sz ) by {
if v2 . contains ( p ) {
if p == cur {
assert ( p == probe_at ( p0 , 1 , j , sz ) ) ;
}
else {
let i = choose | i : int | 0 <= i < j && p == probe_at ( p0 , 1 , i , sz ) ;
assert ( 0 <= i < j + 1 ) ;
}
}
if exists | i : int | 0 <= i < j + 1 && p == probe_at ( p0 , 1 , i , sz ) {
let i = choose | i : int | 0 <= i < j + 1 && p == probe_at ( p0 , 1 , i , sz ) ;
if i < j {
assert ( visited . contains ( p ) ) ;
}
}
}
visited = v2 ;
assert ( fclear_before ( ks , st , * key , j + 1 ) ) ;
}
probe = ( probe + 1 ) & mask ;
proof {
assert ( probe as int == probe_at ( p0 , 1 , j + 1 , sz ) ) ;
j = j + 1 ;
}
}
proof {
if fok ( ks , st ) && st [ probe as int ] == 0 && fholds ( ks , st , * key ) {
let i0 = choose | i : int | 0 <= i < st . len ( ) && st [ i ] > 0 && ks [ i ] == Some ( * key ) ;
assert ( freach_at ( ks , st , i0 ) ) ;
let j0 = st [ i0 ] - 1 ;
if j0 < j {
assert ( ks [ fpos ( * key , j0 , sz ) ] != Some ( * key ) ) ;
}
else if j0 > j {
assert ( st [ fpos ( * key , j , sz ) ] > 0 ) ;
}
else {
}
assert ( false ) ;
}
}
probe }




    // NOTE (R17): preservation of `runs_short` by adjust_or_put_value / resize is NOT provable (it is a hash-quality property: probe runs stay
    // shorter than DRIFT_LIMIT); unit fi_sketch assumes it explicitly, here it shows up as vx_hash_quality and as a precondition of purge.
    fn adjust_or_put_value ( & mut self , key : T , adjust_amount : u64 ) requires eq_law :: < T > ( ) , old ( self ) . wf ( ) , old ( self ) . num_active + 1 < old ( self ) . states @ . len ( ) , old ( self ) . val ( key ) + adjust_amount <= u64 :: MAX , ensures final ( self ) . wf ( ) , final ( self ) . lg_length == old ( self ) . lg_length , final ( self ) . load_threshold == old ( self ) . load_threshold , forall | k2 : T | final ( self ) . val ( k2 ) == ( if k2 == key {
( old ( self ) . val ( key ) + adjust_amount ) as u64 }
else {
old ( self ) . val ( k2 ) }
) , forall | k2 : T | fholds ( final ( self ) . keys @ , final ( self ) . states @ , k2 ) == ( fholds ( old ( self ) . keys @ , old ( self ) . states @ , k2 ) || k2 == key ) , final ( self ) . num_active == old ( self ) . num_active + ( if fholds ( old ( self ) . keys @ , old ( self ) . states @ , key ) {
0usize }
else {
1usize }
) , {
let ghost ks = self . keys @ ;
let ghost st = self . states @ ;
let ghost vs = self . values @ ;
let ghost lg = self . lg_length ;
let ghost sz = pow2 ( lg as nat ) as int ;
proof {
lemma_fmask ( hash_spec ( key ) as usize , lg ) ;
lemma_pow2_pos ( lg as nat ) ;
}
let mask = self . keys . len ( ) - 1 ;
let mut probe = ( hash_item ( & key ) as usize ) & mask ;
let mut drift : usize = 1 ;
let ghost p0 = probe as int ;
let ghost mut j : int = 0 ;
let ghost mut visited : Set < int > = Set :: empty ( ) ;
proof {
assert ( p0 == fhome ( key , sz ) ) ;
assert ( p0 == probe_at ( p0 , 1 , 0 , sz ) ) by {
lemma_small_mod ( p0 as nat , sz as nat ) ;
}
}
while self . states [ probe ] != 0 invariant_except_break 0 <= j < sz , invariant eq_law :: < T > ( ) , self . shape ( ) , focc ( st ) . len ( ) < st . len ( ) , ks == self . keys @ , st == self . states @ , vs == self . values @ , lg == self . lg_length , sz == pow2 ( lg as nat ) , sz == st . len ( ) , mask == sz - 1 , self . num_active == old ( self ) . num_active , self . load_threshold == old ( self ) . load_threshold , p0 == fhome ( key , sz ) , 0 <= p0 < sz , probe == probe_at ( p0 , 1 , j , sz ) , 0 <= probe < sz , 0 <= j < sz , drift == j + 1 , drift < DRIFT_LIMIT , forall | p : int | visited . contains ( p ) <==> exists | i : int | 0 <= i < j && p == probe_at ( p0 , 1 , i , sz ) , visited . len ( ) == j , visited . subset_of ( focc ( st ) ) , fclear_before ( ks , st , key , j ) , ensures st [ probe as int ] > 0 ==> ks [ probe as int ] == Some ( key ) , decreases sz - j {
let matches = self . keys [ probe ] . as_ref ( ) . map ( | existing : & T | -> ( r : bool ) ensures r == ( * existing == key ) {
existing == & key }
) . unwrap_or ( false ) ;
if matches {
break ;
}
proof {
let cur = probe as int ;
lemma_probe_step ( p0 , 1 , j , sz , cur ) ;
lemma_fmask ( ( probe + 1 ) as usize , lg ) ;
assert ( focc ( st ) . contains ( cur ) ) ;
assert ( ! visited . contains ( cur ) ) by {
if visited . contains ( cur ) {
let i = choose | i : int | 0 <= i < j && cur == probe_at ( p0 , 1 , i , sz ) ;
lemma_probe_injective ( lg as nat , p0 , 1 , i , j ) ;
}
}
let v2 = visited . insert ( cur ) ;
lemma_visited_bound ( v2 , focc ( st ) , sz ) ;
assert forall | p : int | v2 . contains ( p ) <==> exists | i : int | 0 <= i < j + 1 && p == probe_at ( p0 , 1 , i , sz ) by {
if v2 . contains ( p ) {
if p == cur {
assert ( p == probe_at ( p0 , 1 , j , sz ) ) ;
}
else {
let i = choose | i : int | 0 <= i < j && p == probe_at ( p0 , 1 , i , sz ) ;
assert ( 0 <= i < j + 1 ) ;
}
}
if exists | i : int | 0 <= i < j + 1 && p == probe_at ( p0 , 1 , i , sz ) {
let i = choose | i : int | 0 <= i < j + 1 && p == probe_at ( p0 , 1 , i , sz ) ;
if i < j {
assert ( visited . contains ( p ) ) ;
}
}
}
visited = v2 ;
assert ( fclear_before ( ks , st , key , j + 1 ) ) ;
}
probe = ( probe + 1 ) & mask ;
drift += 1 ;
proof {
assert ( probe as int == probe_at ( p0 , 1 , j + 1 , sz ) ) ;
j = j + 1 ;
}
vx_hash_quality ( drift < DRIFT_LIMIT ) ;
}
proof {
if st [ probe as int ] == 0 {
lemma_fnot_held ( ks , st , key , j , probe as int ) ;
lemma_finsert_ok ( ks , vs , st , key , adjust_amount , probe as int , j ) ;
}
else {
lemma_fidx ( ks , st , key , probe as int ) ;
lemma_fadjust_ok ( ks , vs , st , key , adjust_amount , probe as int ) ;
}
}
if self . states [ probe ] == 0 {
self . keys [ probe ] = Some ( key ) ;
self . values [ probe ] = adjust_amount ;
self . states [ probe ] = drift as u16 ;
self . num_active += 1 ;
proof {
if st [ probe as int ] == 0 {
if self . keys @ =~= ks . update ( probe as int , Some ( key ) ) && self . values @ =~= vs . update ( probe as int , adjust_amount ) && self . states @ =~= st . update ( probe as int , ( j + 1 ) as u16 ) {
}
}
else {
if self . values @ =~= vs . update ( probe as int , ( vs [ probe as int ] + adjust_amount ) as u64 ) {
}
}
}
}
else {
self . values [ probe ] += adjust_amount ;
proof {
if st [ probe as int ] == 0 {
if self . keys @ =~= ks . update ( probe as int , Some ( key ) ) && self . values @ =~= vs . update ( probe as int , adjust_amount ) && self . states @ =~= st . update ( probe as int , ( j + 1 ) as u16 ) {
}
}
else {
if self . values @ =~= vs . update ( probe as int , ( vs [ probe as int ] + adjust_amount ) as u64 ) {
}
}
}
}
}




    fn hash_delete ( & mut self , mut delete_probe : usize ) requires old ( self ) . shape ( ) , fok ( old ( self ) . keys @ , old ( self ) . states @ ) , delete_probe < old ( self ) . states @ . len ( ) , old ( self ) . states @ [ delete_probe as int ] > 0 , focc ( old ( self ) . states @ ) . len ( ) < old ( self ) . states @ . len ( ) , exists | e : int | 1 <= e < DRIFT_LIMIT - 1 && old ( self ) . states @ [ # [ trigger ] dpos ( delete_probe as int , e , old ( self ) . states @ . len ( ) as int ) ] == 0 , ensures final ( self ) . shape ( ) , fok ( final ( self ) . keys @ , final ( self ) . states @ ) , final ( self ) . lg_length == old ( self ) . lg_length , final ( self ) . load_threshold == old ( self ) . load_threshold , final ( self ) . num_active == old ( self ) . num_active , focc ( final ( self ) . states @ ) . len ( ) == focc ( old ( self ) . states @ ) . len ( ) - 1 , forall | k2 : T | fholds ( final ( self ) . keys @ , final ( self ) . states @ , k2 ) == ( fholds ( old ( self ) . keys @ , old ( self ) . states @ , k2 ) && Some ( k2 ) != old ( self ) . keys @ [ delete_probe as int ] ) , forall | k2 : T | Some ( k2 ) != old ( self ) . keys @ [ delete_probe as int ] ==> fval ( final ( self ) . keys @ , final ( self ) . values @ , final ( self ) . states @ , k2 ) == fval ( old ( self ) . keys @ , old ( self ) . values @ , old ( self ) . states @ , k2 ) , exists | e : int | # [ trigger ] fdel_frame ( old ( self ) . keys @ , old ( self ) . values @ , old ( self ) . states @ , final ( self ) . keys @ , final ( self ) . values @ , final ( self ) . states @ , delete_probe as int , e ) , {
let ghost ks0 = self . keys @ ;
let ghost vs0 = self . values @ ;
let ghost st0 = self . states @ ;
let ghost lg = self . lg_length ;
let ghost n = st0 . len ( ) as int ;
let ghost idx0 = delete_probe as int ;
let ghost e : int = lemma_ffirst_empty_exists ( st0 , idx0 ) ;
let ghost mut m : int = 0 ;
let ghost mut h : int = 0 ;
self . states [ delete_probe ] = 0 ;
self . keys [ delete_probe ] = None ;
let mut drift : usize = 1 ;
proof {
lemma_pow2_pos ( lg as nat ) ;
lemma_fmask ( ( delete_probe + 1 ) as usize , lg ) ;
}
let mask = self . keys . len ( ) - 1 ;
let mut probe = ( delete_probe + drift ) & mask ;
proof {
lemma_small_mod ( idx0 as nat , n as nat ) ;
assert ( idx0 == dpos ( idx0 , 0 , n ) ) ;
lemma_probe_step ( idx0 , 1 , 0 , n , idx0 ) ;
if self . states @ =~= st0 . update ( idx0 , 0u16 ) && self . keys @ =~= ks0 . update ( idx0 , None ) {
}
lemma_fdel_init ( ks0 , vs0 , st0 , lg , idx0 , e ) ;
}
while self . states [ probe ] != 0 invariant fshape ( ks0 , vs0 , st0 , lg ) , fok ( ks0 , st0 ) , st0 [ dpos ( idx0 , e , n ) ] == 0 , n == st0 . len ( ) , e < DRIFT_LIMIT - 1 , self . shape ( ) , self . lg_length == lg , self . load_threshold == old ( self ) . load_threshold , self . num_active == old ( self ) . num_active , fdel_inv ( ks0 , st0 , self . keys @ , self . states @ , idx0 , e , m , h , lg ) , mask == n - 1 , n == pow2 ( lg as nat ) , probe == dpos ( idx0 , m + 1 , n ) , 0 <= probe < n , delete_probe == dpos ( idx0 , h , n ) , 0 <= delete_probe < n , drift == m + 1 - h , focc ( self . states @ ) . len ( ) == focc ( st0 ) . len ( ) - 1 , forall | k2 : T | fholds ( self . keys @ , self . states @ , k2 ) == ( fholds ( ks0 , st0 , k2 ) && Some ( k2 ) != ks0 [ idx0 ] ) , forall | k2 : T | Some ( k2 ) != ks0 [ idx0 ] ==> fval ( self . keys @ , self . values @ , self . states @ , k2 ) == fval ( ks0 , vs0 , st0 , k2 ) , forall | w : int | e <= w < n ==> self . values @ [ # [ trigger ] dpos ( idx0 , w , n ) ] == vs0 [ dpos ( idx0 , w , n ) ] , forall | t : int | 0 <= t < e ==> st0 [ # [ trigger ] dpos ( idx0 , t , n ) ] > 0 , decreases e - m {
let ghost ks = self . keys @ ;
let ghost vs = self . values @ ;
let ghost st = self . states @ ;
proof {
lemma_fdel_progress ( ks0 , st0 , ks , st , idx0 , e , m , h , lg ) ;
if ! ( st [ probe as int ] as int > drift as int ) {
lemma_fdel_skip ( ks0 , st0 , ks , st , idx0 , e , m , h , lg ) ;
}
}
if self . states [ probe ] as usize > drift {
self . keys [ delete_probe ] = self . keys [ probe ] . take ( ) ;
self . values [ delete_probe ] = self . values [ probe ] ;
self . states [ delete_probe ] = self . states [ probe ] - drift as u16 ;
self . states [ probe ] = 0 ;
proof {
let d = delete_probe as int ;
let p = probe as int ;
if self . keys @ =~= ks . update ( d , ks [ p ] ) . update ( p , None ) && self . values @ =~= vs . update ( d , vs [ p ] ) && self . states @ =~= st . update ( d , ( st [ p ] - ( m + 1 - h ) ) as u16 ) . update ( p , 0u16 ) {
}
lemma_fdel_move ( ks0 , st0 , ks , vs , st , idx0 , e , m , h , lg ) ;
h = m + 1 ;
}
drift = 0 ;
delete_probe = probe ;
}
proof {
lemma_probe_step ( idx0 , 1 , m + 1 , n , probe as int ) ;
lemma_fmask ( ( probe + 1 ) as usize , lg ) ;
m = m + 1 ;
}
probe = ( probe + 1 ) & mask ;
drift += 1 ;
debug_assert! ( drift < DRIFT_LIMIT ) ;
}
proof {
lemma_fdel_final ( ks0 , st0 , self . keys @ , self . states @ , idx0 , e , m , h , lg ) ;
assert ( fdel_frame ( ks0 , vs0 , st0 , self . keys @ , self . values @ , self . states @ , idx0 , e ) ) ;
}
}




fn keep_only_positive_counts ( & mut self ) requires eq_law :: < T > ( ) , old ( self ) . wf ( ) , runs_short ( old ( self ) . states @ ) , ensures final ( self ) . wf ( ) , final ( self ) . lg_length == old ( self ) . lg_length , final ( self ) . load_threshold == old ( self ) . load_threshold , runs_short ( final ( self ) . states @ ) , forall | k : T | fholds ( final ( self ) . keys @ , final ( self ) . states @ , k ) == ( fholds ( old ( self ) . keys @ , old ( self ) . states @ , k ) && old ( self ) . val ( k ) > 0 ) , forall | k : T | fholds ( final ( self ) . keys @ , final ( self ) . states @ , k ) ==> final ( self ) . val ( k ) == old ( self ) . val ( k ) , forall | p : int | 0 <= p < final ( self ) . states @ . len ( ) && final ( self ) . states @ [ p ] > 0 ==> final ( self ) . values @ [ p ] > 0 , final ( self ) . num_active <= old ( self ) . num_active , ( exists | k : T | fholds ( old ( self ) . keys @ , old ( self ) . states @ , k ) && old ( self ) . val ( k ) == 0 ) ==> final ( self ) . num_active < old ( self ) . num_active , {
let ghost ks0 = self . keys @ ;
let ghost vs0 = self . values @ ;
let ghost st0 = self . states @ ;
let ghost lg = self . lg_length ;
let ghost n = st0 . len ( ) as int ;
proof {
lemma_pow2_pos ( lg as nat ) ;
}
let ghost z = lemma_fexists_empty ( st0 ) ;
let len = self . keys . len ( ) ;
let mut first_probe = len - 1 ;
#[verifier::loop_isolation(false)]
while self . states [ first_probe ] > 0 invariant self . states @ == st0 , 0 <= z <= first_probe < n , st0 [ z ] == 0 , n == st0 . len ( ) , decreases first_probe {
first_probe -= 1 ;
}
let mut vx_n1 = first_probe ;
let vx_lo1 = 0 ;
#[verifier::loop_isolation(false)]
while vx_n1 > vx_lo1 invariant eq_law :: < T > ( ) , self . wf ( ) , runs_short ( self . states @ ) , self . lg_length == lg , self . load_threshold == old ( self ) . load_threshold , n == self . states @ . len ( ) , n == pow2 ( lg as nat ) , fshape ( ks0 , vs0 , st0 , lg ) , 0 <= vx_lo1 <= vx_n1 <= first_probe < n , vx_lo1 == 0 , self . states @ [ first_probe as int ] == 0 , keep_inv ( ks0 , vs0 , st0 , self . keys @ , self . values @ , self . states @ ) , self . num_active <= old ( self ) . num_active , self . num_active == old ( self ) . num_active ==> self . keys @ == ks0 && self . states @ == st0 && self . values @ == vs0 , forall | x : int | vx_n1 <= x < first_probe && self . states @ [ x ] > 0 ==> self . values @ [ x ] > 0 , decreases vx_n1 {
vx_n1 -= 1 ;
let probe = vx_n1 ;
proof {
if self . states @ [ probe as int ] > 0 {
lemma_focc_pos ( self . states @ , probe as int ) ;
}
}
if self . states [ probe ] > 0 && self . values [ probe ] == 0 {
let ghost ks = self . keys @ ;
let ghost vs = self . values @ ;
let ghost st = self . states @ ;
proof {
lemma_runs_short_at ( st , probe as int ) ;
assert ( focc ( st ) . contains ( probe as int ) ) ;
}
self . hash_delete ( probe ) ;
self . num_active -= 1 ;
proof {
let fp = first_probe as int ;
let q = probe as int ;
lemma_keep_step ( ks0 , vs0 , st0 , ks , vs , st , self . keys @ , self . values @ , self . states @ , lg , q , fp , | x : int | q < x < fp ) ;
}
}
}
let mut vx_n2 = len ;
let vx_lo2 = first_probe ;
while vx_n2 > vx_lo2 invariant eq_law :: < T > ( ) , self . wf ( ) , runs_short ( self . states @ ) , self . lg_length == lg , self . load_threshold == old ( self ) . load_threshold , n == self . states @ . len ( ) , n == pow2 ( lg as nat ) , fshape ( ks0 , vs0 , st0 , lg ) , 0 <= vx_lo2 <= vx_n2 <= n , vx_lo2 == first_probe , first_probe < n , self . states @ [ first_probe as int ] == 0 , keep_inv ( ks0 , vs0 , st0 , self . keys @ , self . values @ , self . states @ ) , self . num_active <= old ( self ) . num_active , self . num_active == old ( self ) . num_active ==> self . keys @ == ks0 && self . states @ == st0 && self . values @ == vs0 , forall | x : int | ( vx_n2 <= x < n || 0 <= x < first_probe ) && self . states @ [ x ] > 0 ==> self . values @ [ x ] > 0 , decreases vx_n2 {
vx_n2 -= 1 ;
let probe = vx_n2 ;
proof {
if self . states @ [ probe as int ] > 0 {
lemma_focc_pos ( self . states @ , probe as int ) ;
}
}
if self . states [ probe ] > 0 && self . values [ probe ] == 0 {
let ghost ks = self . keys @ ;
let ghost vs = self . values @ ;
let ghost st = self . states @ ;
proof {
lemma_runs_short_at ( st , probe as int ) ;
assert ( focc ( st ) . contains ( probe as int ) ) ;
}
self . hash_delete ( probe ) ;
self . num_active -= 1 ;
proof {
let fp = first_probe as int ;
let q = probe as int ;
lemma_keep_step ( ks0 , vs0 , st0 , ks , vs , st , self . keys @ , self . values @ , self . states @ , lg , q , fp , | x : int | q < x < n || 0 <= x < fp ) ;
}
}
}
proof {
lemma_keep_final ( ks0 , vs0 , st0 , self . keys @ , self . values @ , self . states @ ) ;
if ( exists | k : T | fholds ( ks0 , st0 , k ) && fval ( ks0 , vs0 , st0 , k ) == 0 ) && self . num_active == old ( self ) . num_active {
let k = choose | k : T | fholds ( ks0 , st0 , k ) && fval ( ks0 , vs0 , st0 , k ) == 0 ;
assert ( fholds ( self . keys @ , self . states @ , k ) ) ;
}
}
}






    fn is_active ( & self , probe : usize ) -> ( r : bool ) requires probe < self . states @ . len ( ) ensures r == ( self . states @ [ probe as int ] > 0 ) {
self . states [ probe ] > 0 }



fn adjust_all_values_by ( & mut self , adjust_amount : u64 ) ensures final ( self ) . keys @ == old ( self ) . keys @ , final ( self ) . states @ == old ( self ) . states @ , final ( self ) . lg_length == old ( self ) . lg_length , final ( self ) . load_threshold == old ( self ) . load_threshold , final ( self ) . num_active == old ( self ) . num_active , final ( self ) . values @ . len ( ) == old ( self ) . values @ . len ( ) , forall | i : int | 0 <= i < old ( self ) . values @ . len ( ) ==> final ( self ) . values @ [ i ] == ssub ( old ( self ) . values @ [ i ] , adjust_amount ) , {
let mut vx_i1 = 0 ;
while vx_i1 < self . values . len ( ) invariant self . keys @ == old ( self ) . keys @ , self . states @ == old ( self ) . states @ , self . lg_length == old ( self ) . lg_length , self . load_threshold == old ( self ) . load_threshold , self . num_active == old ( self ) . num_active , self . values @ . len ( ) == old ( self ) . values @ . len ( ) , 0 <= vx_i1 <= self . values @ . len ( ) , forall | i : int | 0 <= i < vx_i1 ==> self . values @ [ i ] == ssub ( old ( self ) . values @ [ i ] , adjust_amount ) , forall | i : int | vx_i1 <= i < self . values @ . len ( ) ==> self . values @ [ i ] == old ( self ) . values @ [ i ] , decreases self . values @ . len ( ) - vx_i1 {
let value = & mut self . values [ vx_i1 ] ;
* value = value . saturating_sub ( adjust_amount ) ;
vx_i1 += 1 ;
}
}





    spec fn pos_vals(&self) -> bool { forall|p: int| 0 <= p < self.states@.len() && self.states@[p] > 0 ==> self.values@[p] > 0 }

    fn purge ( & mut self , sample_size : usize ) -> ( median : u64 ) requires eq_law :: < T > ( ) , old ( self ) . wf ( ) , runs_short ( old ( self ) . states @ ) , old ( self ) . pos_vals ( ) , old ( self ) . num_active > 0 , sample_size > 0 , ensures final ( self ) . wf ( ) , runs_short ( final ( self ) . states @ ) , final ( self ) . pos_vals ( ) , median > 0 , final ( self ) . lg_length == old ( self ) . lg_length , final ( self ) . load_threshold == old ( self ) . load_threshold , forall | k : T | final ( self ) . val ( k ) == ( if old ( self ) . val ( k ) > median {
( old ( self ) . val ( k ) - median ) as u64 }
else {
0u64 }
) ,
/*@C07.purge.values*/ forall | k : T | fholds ( final ( self ) . keys @ , final ( self ) . states @ , k ) == ( old ( self ) . val ( k ) > median ) , final ( self ) . num_active < old ( self ) . num_active ,
/*@C07.purge.progress*/
/*@C07.purge.median_is_counter*/ exists | k : T | fholds ( old ( self ) . keys @ , old ( self ) . states @ , k ) && # [ trigger ] old ( self ) . val ( k ) >= median , {
let ghost ks0 = self . keys @ ;
let ghost vs0 = self . values @ ;
let ghost st0 = self . states @ ;
let ghost n = st0 . len ( ) as int ;
let limit = sample_size . min ( self . num_active ) . min ( MAX_SAMPLE_SIZE ) ;
let mut samples = Vec :: with_capacity ( limit ) ;
let mut i = 0usize ;
proof {
assert ( focc ( st0 . take ( 0 ) ) =~= Set :: < int > :: empty ( ) ) ;
lemma_fmask ( 0usize , self . lg_length ) ;
}
while samples . len ( ) < limit invariant self . keys @ == ks0 , self . values @ == vs0 , self . states @ == st0 , self . wf ( ) , n == st0 . len ( ) , limit <= self . num_active , limit <= MAX_SAMPLE_SIZE , 0 <= i <= n , n <= 0x100_0000_0000 , samples @ . len ( ) == focc ( st0 . take ( i as int ) ) . len ( ) , samples @ . len ( ) <= limit , forall | j : int | 0 <= j < samples @ . len ( ) ==> # [ trigger ] sample_ok ( st0 , vs0 , samples @ [ j ] ) , decreases n - i {
proof {
if i as int == n {
assert ( st0 . take ( n ) =~= st0 ) ;
assert ( false ) ;
}
lemma_focc_take_step ( st0 , i as int ) ;
}
let ghost sprev = samples @ ;
if self . is_active ( i ) {
samples . push ( self . values [ i ] ) ;
proof {
assert forall | j : int | 0 <= j < samples @ . len ( ) implies # [ trigger ] sample_ok ( st0 , vs0 , samples @ [ j ] ) by {
if j < sprev . len ( ) {
assert ( samples @ [ j ] == sprev [ j ] ) ;
assert ( sample_ok ( st0 , vs0 , sprev [ j ] ) ) ;
}
else {
assert ( st0 [ i as int ] > 0 && vs0 [ i as int ] == samples @ [ j ] ) ;
}
}
}
}
i += 1 ;
}
let ghost s0 = samples @ ;
proof {
let sl = samples . len ( ) ;
assert ( sl >> 1 == sl / 2 ) by ( bit_vector ) ;
}
let mid = samples . len ( ) / 2 ;
samples . select_nth_unstable ( mid ) ;
let median = samples [ mid ] ;
proof {
assert ( samples @ . to_multiset ( ) == s0 . to_multiset ( ) ) ;
assert ( samples @ . to_multiset ( ) . contains ( samples @ [ mid as int ] ) ) by {
samples @ . to_multiset_ensures ( ) ;
}
s0 . to_multiset_ensures ( ) ;
assert ( s0 . contains ( median ) ) ;
let j = choose | j : int | 0 <= j < s0 . len ( ) && s0 [ j ] == median ;
assert ( sample_ok ( st0 , vs0 , s0 [ j ] ) ) ;
let p = choose | p : int | 0 <= p < st0 . len ( ) && st0 [ p ] > 0 && vs0 [ p ] == s0 [ j ] ;
assert ( median > 0 ) ;
assert ( freach_at ( ks0 , st0 , p ) ) ;
let k0 = ks0 [ p ] -> 0 ;
lemma_fidx ( ks0 , st0 , k0 , p ) ;
assert ( fholds ( old ( self ) . keys @ , old ( self ) . states @ , k0 ) && old ( self ) . val ( k0 ) >= median ) ;
}
self . adjust_all_values_by ( median ) ;
let ghost vs1 = self . values @ ;
proof {
lemma_purge_mid ( ks0 , vs0 , vs1 , st0 , median ) ;
}
self . keep_only_positive_counts ( ) ;
proof {
lemma_purge_post ( ks0 , vs0 , vs1 , st0 , self . keys @ , self . values @ , self . states @ , median ) ;
}
median }




    fn resize ( & mut self , new_size : usize ) requires eq_law :: < T > ( ) , old ( self ) . wf ( ) , old ( self ) . pos_vals ( ) , new_size == 2 * old ( self ) . states @ . len ( ) , old ( self ) . lg_length < 40 , ensures final ( self ) . wf ( ) , final ( self ) . pos_vals ( ) , final ( self ) . states @ . len ( ) == new_size , final ( self ) . lg_length == old ( self ) . lg_length + 1 , final ( self ) . num_active == old ( self ) . num_active , forall | k : T | final ( self ) . val ( k ) == old ( self ) . val ( k ) ,
/*@C07.resize.values*/ forall | k : T | fholds ( final ( self ) . keys @ , final ( self ) . states @ , k ) == fholds ( old ( self ) . keys @ , old ( self ) . states @ , k ) , final ( self ) . load_threshold == new_size * 3 / 4 , {
let ghost ks0 = self . keys @ ;
let ghost vs0 = self . values @ ;
let ghost st0 = self . states @ ;
let ghost lg0 = self . lg_length ;
let ghost n0 = st0 . len ( ) as int ;
proof {
lemma_pow2_unfold ( ( lg0 + 1 ) as nat ) ;
lemma_pow2_pos ( lg0 as nat ) ;
lemma_fmask ( 0usize , ( lg0 + 1 ) as u8 ) ;
}
assert! ( new_size . is_power_of_two ( ) ) ;
let mut old_keys = std :: mem :: take ( & mut self . keys ) ;
let old_values = std :: mem :: take ( & mut self . values ) ;
let old_states = std :: mem :: take ( & mut self . states ) ;
self . keys = vx_none_vec ( new_size ) ;
self . values = vec! [ 0 ;
new_size ] ;
self . states = vec! [ 0 ;
new_size ] ;
self . lg_length = new_size . trailing_zeros ( ) as u8 ;
self . load_threshold = vx_load_threshold ( new_size ) ;
self . num_active = 0 ;
proof {
assert ( focc ( self . states @ ) =~= Set :: < int > :: empty ( ) ) ;
assert ( focc ( st0 . take ( 0 ) ) =~= Set :: < int > :: empty ( ) ) ;
}
let mut vx_n1 = 0 ;
let vx_end1 = old_keys . len ( ) ;
while vx_n1 < vx_end1 invariant 0 <= vx_n1 <= vx_end1 , vx_end1 == n0 , self . load_threshold == new_size * 3 / 4 , eq_law :: < T > ( ) , old_values @ == vs0 , old_states @ == st0 , old_keys @ . len ( ) == n0 , n0 == st0 . len ( ) , vs0 . len ( ) == n0 , ks0 . len ( ) == n0 , fok ( ks0 , st0 ) , forall | p : int | 0 <= p < n0 && st0 [ p ] > 0 ==> vs0 [ p ] > 0 , focc ( st0 ) . len ( ) < n0 , forall | j : int | vx_n1 <= j < n0 ==> old_keys @ [ j ] == ks0 [ j ] , self . wf ( ) , self . pos_vals ( ) , self . states @ . len ( ) == new_size , new_size == 2 * n0 , self . lg_length == lg0 + 1 , self . num_active == focc ( st0 . take ( vx_n1 as int ) ) . len ( ) , forall | k : T | fholds ( self . keys @ , self . states @ , k ) == ( exists | j : int | 0 <= j < vx_n1 && st0 [ j ] > 0 && ks0 [ j ] == Some ( k ) ) , forall | k : T | fholds ( self . keys @ , self . states @ , k ) ==> self . val ( k ) == fval ( ks0 , vs0 , st0 , k ) , decreases vx_end1 - vx_n1 {
let i = vx_n1 ;
vx_n1 += 1 ;
proof {
lemma_focc_take_step ( st0 , i as int ) ;
}
if old_states [ i ] > 0 {
proof {
assert ( freach_at ( ks0 , st0 , i as int ) ) ;
}
let ghost pre = * self ;
if let Some ( key ) = old_keys [ i ] . take ( ) {
proof {
lemma_fidx ( ks0 , st0 , key , i as int ) ;
if fholds ( pre . keys @ , pre . states @ , key ) {
let j = choose | j : int | 0 <= j < i && st0 [ j ] > 0 && ks0 [ j ] == Some ( key ) ;
assert ( ks0 [ j ] != ks0 [ i as int ] ) ;
}
assert ( pre . val ( key ) == 0 ) ;
}
self . adjust_or_put_value ( key , old_values [ i ] ) ;
proof {
assert forall | k : T | fholds ( self . keys @ , self . states @ , k ) == ( exists | j : int | 0 <= j < i + 1 && st0 [ j ] > 0 && ks0 [ j ] == Some ( k ) ) by {
if k == key {
assert ( st0 [ i as int ] > 0 && ks0 [ i as int ] == Some ( k ) ) ;
}
else {
if exists | j : int | 0 <= j < i + 1 && st0 [ j ] > 0 && ks0 [ j ] == Some ( k ) {
let j = choose | j : int | 0 <= j < i + 1 && st0 [ j ] > 0 && ks0 [ j ] == Some ( k ) ;
assert ( j != i ) ;
assert ( 0 <= j < i ) ;
}
if fholds ( pre . keys @ , pre . states @ , k ) {
let j = choose | j : int | 0 <= j < i && st0 [ j ] > 0 && ks0 [ j ] == Some ( k ) ;
assert ( 0 <= j < i + 1 ) ;
}
}
}
assert forall | k : T | fholds ( self . keys @ , self . states @ , k ) implies self . val ( k ) == fval ( ks0 , vs0 , st0 , k ) by {
}
assert forall | k : T | fholds ( self . keys @ , self . states @ , k ) implies fval ( self . keys @ , self . values @ , self . states @ , k ) > 0 by {
let j = choose | j : int | 0 <= j < i + 1 && st0 [ j ] > 0 && ks0 [ j ] == Some ( k ) ;
lemma_fidx ( ks0 , st0 , k , j ) ;
assert ( vs0 [ j ] > 0 ) ;
assert ( fval ( ks0 , vs0 , st0 , k ) == vs0 [ j ] ) ;
assert ( self . val ( k ) == fval ( ks0 , vs0 , st0 , k ) ) ;
}
lemma_fpos_vals_after_put ( pre . keys @ , pre . values @ , pre . states @ , self . keys @ , self . values @ , self . states @ ) ;
}
}
}
else {
proof {
assert forall | k : T | fholds ( self . keys @ , self . states @ , k ) == ( exists | j : int | 0 <= j < i + 1 && st0 [ j ] > 0 && ks0 [ j ] == Some ( k ) ) by {
if exists | j : int | 0 <= j < i + 1 && st0 [ j ] > 0 && ks0 [ j ] == Some ( k ) {
let j = choose | j : int | 0 <= j < i + 1 && st0 [ j ] > 0 && ks0 [ j ] == Some ( k ) ;
assert ( 0 <= j < i ) ;
}
if fholds ( self . keys @ , self . states @ , k ) {
let j = choose | j : int | 0 <= j < i && st0 [ j ] > 0 && ks0 [ j ] == Some ( k ) ;
assert ( 0 <= j < i + 1 ) ;
}
}
}
}
}
proof {
assert ( st0 . take ( n0 ) =~= st0 ) ;
assert forall | k : T | fholds ( self . keys @ , self . states @ , k ) == fholds ( ks0 , st0 , k ) by {
}
assert forall | k : T | self . val ( k ) == fval ( ks0 , vs0 , st0 , k ) by {
}
}
}



    // an empty table of the given power-of-two size (float leaf vx_load_threshold, R13 vx_none_vec as in resize)
    fn new ( map_size : usize ) -> ( r : Self ) requires 2 <= map_size <= pow2 ( 40 ) , ensures
/*@C07.map_new.pow2_validated*/ exists | j : nat | j < 64 && map_size == pow2 ( j ) , r . wf ( ) , r . states @ . len ( ) == map_size , r . load_threshold == map_size * 3 / 4 , r . num_active == 0 , forall | p : int | 0 <= p < r . states @ . len ( ) ==> r . states @ [ p ] == 0 , {
vx_documented_panic ( map_size . is_power_of_two ( ) ) ;
assert ( /*@C07.map_new.pow2_validated*/ exists | j : nat | j < 64 && map_size == pow2 ( j ) ) ;
let ghost lgn = choose | j : nat | j < 64 && map_size == pow2 ( j ) ;
proof {
lemma2_to64 ( ) ;
if lgn > 40 {
lemma_pow2_strictly_increases ( 40 , lgn ) ;
}
}
let ghost lg = lgn as u8 ;
proof {
lemma_fmask ( 0usize , lg ) ;
lemma_pow2_strictly_increases ( 0 , lg as nat ) ;
}
let lg_length = map_size . trailing_zeros ( ) as u8 ;
let load_threshold = vx_load_threshold ( map_size ) ;
proof {
assert forall | st : Seq < u16 > | ( forall | i : int | 0 <= i < st . len ( ) ==> st [ i ] == 0 ) implies # [ trigger ] focc ( st ) . len ( ) == 0 by {
assert ( focc ( st ) =~= Set :: < int > :: empty ( ) ) ;
}
}
Self {
lg_length , load_threshold , keys : vx_none_vec ( map_size ) , values : vec! [ 0 ;
map_size ] , states : vec! [ 0 ;
map_size ] , num_active : 0 , }
}


    fn iter ( & self ) -> ( r : ReversePurgeItemIter < '_ , T > ) requires self . wf ( ) , ensures r . inv ( ) , * r . map == * self , r . yielded ( ) =~= Set :: < int > :: empty ( ) , {
ReversePurgeItemIter :: new ( self ) }


    fn get ( & self , key : & T ) -> ( r : u64 ) requires eq_law :: < T > ( ) , self . wf ( ) , ensures r == self . val ( * key ) {
let probe = self . hash_probe ( key ) ;
if self . states [ probe ] > 0 {
proof {
lemma_fidx ( self . keys @ , self . states @ , * key , probe as int ) ;
}
return self . values [ probe ] ;
}
0 }


}

proof fn lemma_fidx<T>(ks: Seq<Option<T>>, st: Seq<u16>, k: T, p: int)
  requires fdistinct(ks, st), 0 <= p < st.len(), st[p] > 0, ks[p] == Some(k)
  ensures fholds(ks, st, k), fidx(ks, st, k) == p
{
    let i = fidx(ks, st, k);
    if i != p { assert(ks[i] != ks[p]); }
}
proof fn lemma_fplbm(n: nat)
  ensures vstd::bits::low_bits_mask(n) == pow2(n) - 1
  decreases n
{
    lemma2_to64(); vstd::bits::lemma_low_bits_mask_values();
    if n > 0 { lemma_fplbm((n - 1) as nat); vstd::bits::lemma_low_bits_mask_unfold(n); lemma_pow2_unfold(n); }
}
proof fn lemma_fmask(x: usize, lg: u8)
  requires lg <= 40
  ensures pow2(lg as nat) <= 0x100_0000_0000, (x & ((pow2(lg as nat) - 1) as usize)) == (x as int) % (pow2(lg as nat) as int)
{
    lemma2_to64(); lemma_pow2_adds(32, 8); assert(pow2(40) == 0x100_0000_0000);
    if lg < 40 { lemma_pow2_strictly_increases(lg as nat, 40); }
    vstd::bits::lemma_usize_low_bits_mask_is_mod(x, lg as nat);
    lemma_fplbm(lg as nat);
}

proof fn lemma_fpos_range<T>(k: T, t: int, n: int) requires n > 0 ensures 0 <= fpos(k, t, n) < n { lemma_mod_bound(fhome(k, n) + t * 1, n); }
proof fn lemma_fnot_held<T>(ks: Seq<Option<T>>, st: Seq<u16>, k: T, j: int, p: int)
  requires fok(ks, st), 0 <= p < st.len(), st[p] == 0, 0 <= j < st.len(), p == fpos(k, j, st.len() as int), fclear_before(ks, st, k, j)
  ensures !fholds(ks, st, k)
{
    let n = st.len() as int;
    if fholds(ks, st, k) {
        let i0 = choose|i: int| 0 <= i < st.len() && st[i] > 0 && ks[i] == Some(k);
        assert(freach_at(ks, st, i0));
        let j0 = st[i0] - 1;
        if j0 < j { assert(ks[fpos(k, j0, n)] != Some(k)); }
        else if j0 > j { assert(st[fpos(k, j, n)] > 0); }
        assert(false);
    }
}
proof fn lemma_finsert_ok<T>(ks: Seq<Option<T>>, vs: Seq<u64>, st: Seq<u16>, k: T, v: u64, p: int, j: int)
  requires fok(ks, st), ks.len() == st.len(), vs.len() == st.len(), 0 <= p < st.len(), st[p] == 0, 0 <= j < st.len(), j + 1 < 1024, p == fpos(k, j, st.len() as int),
    fclear_before(ks, st, k, j), !fholds(ks, st, k)
  ensures ({ let ks2 = ks.update(p, Some(k)); let vs2 = vs.update(p, v); let st2 = st.update(p, (j + 1) as u16);
    &&& fok(ks2, st2)
    &&& focc(st2) =~= focc(st).insert(p) && !focc(st).contains(p)
    &&& forall|k2: T| fholds(ks2, st2, k2) == (fholds(ks, st, k2) || k2 == k)
    &&& forall|k2: T| fval(ks2, vs2, st2, k2) == (if k2 == k { v } else { fval(ks, vs, st, k2) }) })
{
    let n = st.len() as int;
    let ks2 = ks.update(p, Some(k)); let vs2 = vs.update(p, v); let st2 = st.update(p, (j + 1) as u16);
    assert forall|q: int| 0 <= q < n && st2[q] > 0 implies #[trigger] freach_at(ks2, st2, q) by {
        if q == p {
            assert forall|t: int| 0 <= t < j implies st2[#[trigger] fpos(k, t, n)] > 0 by { assert(st[fpos(k, t, n)] > 0); }
        } else {
            assert(freach_at(ks, st, q));
            let kq = ks[q]->0; let d = st[q] - 1;
            assert forall|t: int| 0 <= t < d implies st2[#[trigger] fpos(kq, t, n)] > 0 by { assert(st[fpos(kq, t, n)] > 0); lemma_fpos_range(kq, t, n); }
        }
    }
    assert forall|a: int, b: int| 0 <= a < n && 0 <= b < n && a != b && st2[a] > 0 && st2[b] > 0 implies ks2[a] != ks2[b] by {
        if a == p { if ks[b] == Some(k) { assert(fholds(ks, st, k)); } }
        else if b == p { if ks[a] == Some(k) { assert(fholds(ks, st, k)); } }
    }
    assert(fok(ks2, st2));
    assert forall|k2: T| fholds(ks2, st2, k2) == (fholds(ks, st, k2) || k2 == k) by {
        if k2 == k { assert(st2[p] > 0 && ks2[p] == Some(k)); }
        else {
            if fholds(ks2, st2, k2) { let i = choose|i: int| 0 <= i < st2.len() && st2[i] > 0 && ks2[i] == Some(k2); assert(i != p); assert(st[i] > 0 && ks[i] == Some(k2)); }
            if fholds(ks, st, k2) { let i = choose|i: int| 0 <= i < st.len() && st[i] > 0 && ks[i] == Some(k2); assert(i != p); assert(st2[i] > 0 && ks2[i] == Some(k2)); }
        }
    }
    assert forall|k2: T| fval(ks2, vs2, st2, k2) == (if k2 == k { v } else { fval(ks, vs, st, k2) }) by {
        if k2 == k { lemma_fidx(ks2, st2, k, p); }
        else if fholds(ks, st, k2) {
            let i = fidx(ks, st, k2); assert(i != p);
            lemma_fidx(ks2, st2, k2, i);
        }
    }
}
proof fn lemma_fadjust_ok<T>(ks: Seq<Option<T>>, vs: Seq<u64>, st: Seq<u16>, k: T, a: u64, p: int)
  requires fok(ks, st), vs.len() == st.len(), 0 <= p < st.len(), st[p] > 0, ks[p] == Some(k), vs[p] + a <= u64::MAX
  ensures ({ let vs2 = vs.update(p, (vs[p] + a) as u64);
    forall|k2: T| fval(ks, vs2, st, k2) == (if k2 == k { (fval(ks, vs, st, k) + a) as u64 } else { fval(ks, vs, st, k2) }) })
{
    let vs2 = vs.update(p, (vs[p] + a) as u64);
    lemma_fidx(ks, st, k, p);
    assert forall|k2: T| fval(ks, vs2, st, k2) == (if k2 == k { (fval(ks, vs, st, k) + a) as u64 } else { fval(ks, vs, st, k2) }) by {
        if k2 != k && fholds(ks, st, k2) { let i = fidx(ks, st, k2); if i == p { assert(ks[i] == Some(k2)); } }
    }
}

// ================= deletion by back-shift =================
spec fn dpos(idx0: int, w: int, n: int) -> int { probe_at(idx0, 1, w, n) }
spec fn in_seg(i: int, idx0: int, lo: int, hi: int, n: int) -> bool { exists|t: int| lo < t < hi && i == #[trigger] dpos(idx0, t, n) }
spec fn fdel_inv<T>(ks0: Seq<Option<T>>, st0: Seq<u16>, ks: Seq<Option<T>>, st: Seq<u16>, idx0: int, e: int, m: int, h: int, lg: u8) -> bool {
    let n = st.len() as int;
    &&& 1 <= lg <= 40 && n == pow2(lg as nat) && ks.len() == n && ks0.len() == n && st0.len() == n && 0 <= idx0 < n
    &&& fdistinct(ks, st)
    &&& 0 <= h <= m < e < n
    &&& forall|t: int| m < t < e ==> st[#[trigger] dpos(idx0, t, n)] == st0[dpos(idx0, t, n)] && ks[dpos(idx0, t, n)] == ks0[dpos(idx0, t, n)] && st[dpos(idx0, t, n)] > 0
    &&& st[dpos(idx0, e, n)] == 0 && ks[dpos(idx0, e, n)] == ks0[dpos(idx0, e, n)]
    &&& st[dpos(idx0, h, n)] == 0
    &&& forall|t: int| 0 <= t <= m && t != h ==> st[#[trigger] dpos(idx0, t, n)] > 0
    &&& forall|w: int| e < w < n ==> st[#[trigger] dpos(idx0, w, n)] == st0[dpos(idx0, w, n)] && ks[dpos(idx0, w, n)] == ks0[dpos(idx0, w, n)]
    &&& forall|i: int| 0 <= i < n && st[i] > 0 && !in_seg(i, idx0, m, e, n) ==> #[trigger] freach_at(ks, st, i)
}
spec fn fdel_frame<T>(ks0: Seq<Option<T>>, vs0: Seq<u64>, st0: Seq<u16>, ks: Seq<Option<T>>, vs: Seq<u64>, st: Seq<u16>, idx0: int, e: int) -> bool {
    let n = st0.len() as int;
    &&& 1 <= e < DRIFT_LIMIT - 1 && e < n
    &&& forall|t: int| 0 <= t < e ==> st0[#[trigger] dpos(idx0, t, n)] > 0
    &&& forall|w: int| e <= w < n ==> st[#[trigger] dpos(idx0, w, n)] == st0[dpos(idx0, w, n)] && ks[dpos(idx0, w, n)] == ks0[dpos(idx0, w, n)] && vs[dpos(idx0, w, n)] == vs0[dpos(idx0, w, n)]
}
proof fn lemma_dpos_range(idx0: int, w: int, n: int) requires n > 0 ensures 0 <= dpos(idx0, w, n) < n { lemma_mod_bound(idx0 + w * 1, n); }
spec fn foff(a: int, b: int, n: int) -> int { if b >= a { b - a } else { b - a + n } }
proof fn lemma_dpos_surj(idx0: int, i: int, n: int) -> (w: int)
  requires 0 <= idx0 < n, 0 <= i < n
  ensures 0 <= w < n, dpos(idx0, w, n) == i, w == foff(idx0, i, n)
{
    if i >= idx0 { lemma_small_mod(i as nat, n as nat); i - idx0 }
    else { lemma_mod_add_multiples_vanish(i, n); lemma_small_mod(i as nat, n as nat); i - idx0 + n }
}
proof fn lemma_dpos_inj(lg: u8, idx0: int, w1: int, w2: int)
  requires 0 <= w1 < pow2(lg as nat), 0 <= w2 < pow2(lg as nat), dpos(idx0, w1, pow2(lg as nat) as int) == dpos(idx0, w2, pow2(lg as nat) as int)
  ensures w1 == w2
{ lemma_probe_injective(lg as nat, idx0, 1, w1, w2); }
proof fn lemma_dpos_facts(lg: u8, idx0: int)
  ensures forall|t1: int, t2: int| 0 <= t1 < pow2(lg as nat) && 0 <= t2 < pow2(lg as nat) && t1 != t2 ==> #[trigger] dpos(idx0, t1, pow2(lg as nat) as int) != #[trigger] dpos(idx0, t2, pow2(lg as nat) as int),
    forall|t: int| 0 <= #[trigger] dpos(idx0, t, pow2(lg as nat) as int) < pow2(lg as nat)
{
    let n = pow2(lg as nat) as int; lemma_pow2_pos(lg as nat);
    assert forall|t1: int, t2: int| 0 <= t1 < n && 0 <= t2 < n && t1 != t2 implies #[trigger] dpos(idx0, t1, n) != #[trigger] dpos(idx0, t2, n) by {
        if dpos(idx0, t1, n) == dpos(idx0, t2, n) { lemma_dpos_inj(lg, idx0, t1, t2); }
    }
    assert forall|t: int| 0 <= #[trigger] dpos(idx0, t, n) < n by { lemma_dpos_range(idx0, t, n); }
}
proof fn lemma_shift_mod(a: int, b: int, u: int, n: int)
  requires n > 0, a % n == b % n
  ensures (a + u) % n == (b + u) % n
{ lemma_add_mod_noop(a, u, n); lemma_add_mod_noop(b, u, n); }

// a probe path ending outside the segment (c, e) and not at c cannot pass through offset c
proof fn lemma_fpath_avoid<T>(st: Seq<u16>, y: T, ji: int, i: int, idx0: int, c: int, e: int)
  requires st.len() > 0, 0 <= c < e, st[dpos(idx0, e, st.len() as int)] == 0, 0 <= ji,
    i == fpos(y, ji, st.len() as int), ffull_before(st, y, ji), 0 <= i < st.len(), st[i] > 0,
    !in_seg(i, idx0, c, e, st.len() as int), i != dpos(idx0, c, st.len() as int),
  ensures forall|t: int| 0 <= t < ji ==> #[trigger] fpos(y, t, st.len() as int) != dpos(idx0, c, st.len() as int)
{
    let n = st.len() as int;
    assert forall|t: int| 0 <= t < ji implies #[trigger] fpos(y, t, n) != dpos(idx0, c, n) by {
        if fpos(y, t, n) == dpos(idx0, c, n) {
            let hm = fhome(y, n);
            let v = c + (ji - t);
            lemma_shift_mod(hm + t * 1, idx0 + c * 1, ji - t, n);
            assert(fpos(y, ji, n) == dpos(idx0, v, n));
            if v < e { assert(in_seg(i, idx0, c, e, n)); }
            else if v == e { }
            else {
                let u = e - c;
                lemma_shift_mod(hm + t * 1, idx0 + c * 1, u, n);
                assert(fpos(y, t + u, n) == dpos(idx0, e, n));
                assert(st[fpos(y, t + u, n)] > 0);
            }
            assert(false);
        }
    }
}
proof fn lemma_ffirst_empty(st: Seq<u16>, idx0: int, d: int) -> (e: int)
  requires st.len() > 0, 1 <= d, st[dpos(idx0, d, st.len() as int)] == 0
  ensures 1 <= e <= d, st[dpos(idx0, e, st.len() as int)] == 0, forall|t: int| 1 <= t < e ==> st[#[trigger] dpos(idx0, t, st.len() as int)] > 0
  decreases d
{
    let n = st.len() as int;
    if exists|t: int| 1 <= t < d && st[dpos(idx0, t, n)] == 0 {
        let t = choose|t: int| 1 <= t < d && st[dpos(idx0, t, n)] == 0;
        lemma_ffirst_empty(st, idx0, t)
    } else { d }
}
proof fn lemma_ffirst_empty_exists(st0: Seq<u16>, idx0: int) -> (e: int)
  requires st0.len() > 0, exists|e: int| 1 <= e < DRIFT_LIMIT - 1 && st0[#[trigger] dpos(idx0, e, st0.len() as int)] == 0
  ensures 1 <= e < DRIFT_LIMIT - 1, st0[dpos(idx0, e, st0.len() as int)] == 0, forall|t: int| 1 <= t < e ==> st0[#[trigger] dpos(idx0, t, st0.len() as int)] > 0
{
    let d = choose|e: int| 1 <= e < DRIFT_LIMIT - 1 && st0[#[trigger] dpos(idx0, e, st0.len() as int)] == 0;
    lemma_ffirst_empty(st0, idx0, d)
}

proof fn lemma_seg_step(i: int, idx0: int, m: int, e: int, n: int)
  requires in_seg(i, idx0, m, e, n), !in_seg(i, idx0, m + 1, e, n)
  ensures i == dpos(idx0, m + 1, n)
{
    let t = choose|t: int| m < t < e && i == dpos(idx0, t, n);
    if t != m + 1 { assert(in_seg(i, idx0, m + 1, e, n)); }
}
proof fn lemma_fdel_init<T>(ks0: Seq<Option<T>>, vs0: Seq<u64>, st0: Seq<u16>, lg: u8, idx0: int, e: int)
  requires fshape(ks0, vs0, st0, lg), fok(ks0, st0), 0 <= idx0 < st0.len(), st0[idx0] > 0, 1 <= e,
    st0[dpos(idx0, e, st0.len() as int)] == 0, forall|t: int| 1 <= t < e ==> st0[#[trigger] dpos(idx0, t, st0.len() as int)] > 0
  ensures e < st0.len(),
    fdel_inv(ks0, st0, ks0.update(idx0, None), st0.update(idx0, 0u16), idx0, e, 0, 0, lg),
    focc(st0.update(idx0, 0u16)).len() == focc(st0).len() - 1,
    forall|k2: T| fholds(ks0.update(idx0, None), st0.update(idx0, 0u16), k2) == (fholds(ks0, st0, k2) && Some(k2) != ks0[idx0]),
    forall|k2: T| Some(k2) != ks0[idx0] ==> fval(ks0.update(idx0, None), vs0, st0.update(idx0, 0u16), k2) == fval(ks0, vs0, st0, k2),
{
    let n = st0.len() as int;
    let ks = ks0.update(idx0, None); let st = st0.update(idx0, 0u16);
    lemma_pow2_pos(lg as nat);
    lemma_small_mod(idx0 as nat, n as nat);
    assert(dpos(idx0, 0, n) == idx0);
    lemma_dpos_facts(lg, idx0);
    // e < n: otherwise an earlier offset is empty, or offset 0 is
    if e >= n {
        lemma_mod_add_multiples_vanish(idx0 + (e - n) * 1, n);
        assert(dpos(idx0, e - n, n) == dpos(idx0, e, n));
        if e - n >= 1 { assert(st0[dpos(idx0, e - n, n)] > 0); }
        assert(false);
    }
    assert forall|t: int| 0 < t < n implies #[trigger] dpos(idx0, t, n) != idx0 by { }
    assert(focc(st) =~= focc(st0).remove(idx0));
    assert(focc(st0).contains(idx0));
    assert(fdistinct(ks, st));
    assert forall|i: int| 0 <= i < n && st[i] > 0 && !in_seg(i, idx0, 0, e, n) implies #[trigger] freach_at(ks, st, i) by {
        assert(i != idx0);
        assert(freach_at(ks0, st0, i));
        let y = ks0[i]->0; let ji = st0[i] - 1;
        lemma_fpath_avoid(st0, y, ji, i, idx0, 0, e);
        assert forall|t: int| 0 <= t < ji implies st[#[trigger] fpos(y, t, n)] > 0 by { assert(st0[fpos(y, t, n)] > 0); lemma_fpos_range(y, t, n); }
    }
    assert forall|k2: T| fholds(ks, st, k2) == (fholds(ks0, st0, k2) && Some(k2) != ks0[idx0]) by {
        if fholds(ks, st, k2) { let i = choose|i: int| 0 <= i < st.len() && st[i] > 0 && ks[i] == Some(k2); assert(i != idx0); assert(st0[i] > 0 && ks0[i] == Some(k2)); assert(ks0[i] != ks0[idx0]); }
        if fholds(ks0, st0, k2) && Some(k2) != ks0[idx0] { let i = choose|i: int| 0 <= i < st0.len() && st0[i] > 0 && ks0[i] == Some(k2); assert(i != idx0); assert(st[i] > 0 && ks[i] == Some(k2)); }
    }
    assert forall|k2: T| Some(k2) != ks0[idx0] implies fval(ks, vs0, st, k2) == fval(ks0, vs0, st0, k2) by {
        if fholds(ks0, st0, k2) { let i = fidx(ks0, st0, k2); assert(i != idx0); lemma_fidx(ks, st, k2, i); }
    }
}
proof fn lemma_fdel_progress<T>(ks0: Seq<Option<T>>, st0: Seq<u16>, ks: Seq<Option<T>>, st: Seq<u16>, idx0: int, e: int, m: int, h: int, lg: u8)
  requires fdel_inv(ks0, st0, ks, st, idx0, e, m, h, lg), st[dpos(idx0, m + 1, st.len() as int)] != 0
  ensures m + 1 < e
{ }
proof fn lemma_fdel_final<T>(ks0: Seq<Option<T>>, st0: Seq<u16>, ks: Seq<Option<T>>, st: Seq<u16>, idx0: int, e: int, m: int, h: int, lg: u8)
  requires fdel_inv(ks0, st0, ks, st, idx0, e, m, h, lg), st[dpos(idx0, m + 1, st.len() as int)] == 0
  ensures fok(ks, st)
{
    let n = st.len() as int;
    if m + 1 < e { assert(st[dpos(idx0, m + 1, n)] > 0); }
    assert forall|i: int| 0 <= i < n && st[i] > 0 implies #[trigger] freach_at(ks, st, i) by { assert(!in_seg(i, idx0, m, e, n)); }
}
// the entry at offset m+1 has its home after the hole: it stays, and is reachable in the current table
proof fn lemma_fdel_skip<T>(ks0: Seq<Option<T>>, st0: Seq<u16>, ks: Seq<Option<T>>, st: Seq<u16>, idx0: int, e: int, m: int, h: int, lg: u8)
  requires fok(ks0, st0), fdel_inv(ks0, st0, ks, st, idx0, e, m, h, lg), m + 1 < e, st[dpos(idx0, m + 1, st.len() as int)] <= m + 1 - h
  ensures fdel_inv(ks0, st0, ks, st, idx0, e, m + 1, h, lg)
{
    let n = st.len() as int;
    let p = dpos(idx0, m + 1, n);
    lemma_pow2_pos(lg as nat);
    lemma_dpos_facts(lg, idx0);
    assert(st[dpos(idx0, m + 1, n)] > 0);
    assert(freach_at(ks0, st0, p));
    let k = ks0[p]->0; let s = st0[p] as int;
    assert(ks[p] == ks0[p] && st[p] == st0[p]);
    assert forall|u: int| 0 <= u < s - 1 implies st[#[trigger] fpos(k, u, n)] > 0 by {
        lemma_shift_mod(fhome(k, n) + (s - 1) * 1, idx0 + (m + 1) * 1, -(s - 1 - u), n);
        let w = m + 1 - (s - 1 - u);
        assert(fpos(k, u, n) == dpos(idx0, w, n));
        assert(h < w && w <= m);
    }
    assert(freach_at(ks, st, p));
    assert forall|i: int| 0 <= i < n && st[i] > 0 && !in_seg(i, idx0, m + 1, e, n) implies #[trigger] freach_at(ks, st, i) by {
        if in_seg(i, idx0, m, e, n) { lemma_seg_step(i, idx0, m, e, n); }
    }
}
// the entry at offset m+1 has its home at or before the hole: it moves into the hole
proof fn lemma_fdel_move<T>(ks0: Seq<Option<T>>, st0: Seq<u16>, ks: Seq<Option<T>>, vs: Seq<u64>, st: Seq<u16>, idx0: int, e: int, m: int, h: int, lg: u8)
  requires fok(ks0, st0), st0[dpos(idx0, e, st.len() as int)] == 0, fdel_inv(ks0, st0, ks, st, idx0, e, m, h, lg), m + 1 < e, vs.len() == st.len(),
    st[dpos(idx0, m + 1, st.len() as int)] > m + 1 - h
  ensures ({ let n = st.len() as int; let p = dpos(idx0, m + 1, n); let d = dpos(idx0, h, n);
    let ks2 = ks.update(d, ks[p]).update(p, None); let vs2 = vs.update(d, vs[p]); let st2 = st.update(d, (st[p] - (m + 1 - h)) as u16).update(p, 0u16);
    &&& fdel_inv(ks0, st0, ks2, st2, idx0, e, m + 1, m + 1, lg)
    &&& focc(st2).len() == focc(st).len()
    &&& forall|k2: T| fholds(ks2, st2, k2) == fholds(ks, st, k2)
    &&& forall|k2: T| fval(ks2, vs2, st2, k2) == fval(ks, vs, st, k2) })
{
    let n = st.len() as int; let p = dpos(idx0, m + 1, n); let d = dpos(idx0, h, n);
    let drift = m + 1 - h;
    let ks2 = ks.update(d, ks[p]).update(p, None); let vs2 = vs.update(d, vs[p]); let st2 = st.update(d, (st[p] - drift) as u16).update(p, 0u16);
    lemma_pow2_pos(lg as nat);
    lemma_dpos_facts(lg, idx0);
    assert(p != d);
    assert(st[dpos(idx0, m + 1, n)] > 0);
    assert(freach_at(ks0, st0, p));
    assert(ks[p] == ks0[p] && st[p] == st0[p]);
    let k = ks0[p]->0; let s = st0[p] as int; let s2 = s - drift;
    assert(1 <= s2 <= n);
    // new position on k's path
    lemma_shift_mod(fhome(k, n) + (s - 1) * 1, idx0 + (m + 1) * 1, -drift, n);
    assert(d == fpos(k, s2 - 1, n));
    assert forall|u: int| 0 <= u < s2 - 1 implies st2[#[trigger] fpos(k, u, n)] > 0 by {
        let q = fpos(k, u, n);
        lemma_fpos_range(k, u, n);
        assert(st0[fpos(k, u, n)] > 0);
        if q == d { lemma_probe_injective(lg as nat, fhome(k, n), 1, u, s2 - 1); }
        if q == p { lemma_probe_injective(lg as nat, fhome(k, n), 1, u, s - 1); }
        let w = lemma_dpos_surj(idx0, q, n);
        if w <= m { assert(w != h); assert(st[dpos(idx0, w, n)] > 0); }
        else if w == m + 1 { }
        else if w < e { assert(st[dpos(idx0, w, n)] > 0); }
        else if w == e { }
        else { assert(st[dpos(idx0, w, n)] == st0[dpos(idx0, w, n)]); }
    }
    assert(st2[d] == s2 && ks2[d] == Some(k));
    assert(freach_at(ks2, st2, d));
    assert(fdistinct(ks2, st2)) by {
        assert forall|a: int, b: int| 0 <= a < n && 0 <= b < n && a != b && st2[a] > 0 && st2[b] > 0 implies ks2[a] != ks2[b] by {
            if a == d { assert(b != p); assert(ks[b] != ks[p]); }
            else if b == d { assert(a != p); assert(ks[a] != ks[p]); }
            else { assert(a != p && b != p); assert(ks[a] != ks[b]); }
        }
    }
    assert forall|i: int| 0 <= i < n && st2[i] > 0 && !in_seg(i, idx0, m + 1, e, n) implies #[trigger] freach_at(ks2, st2, i) by {
        if i != d {
            assert(i != p);
            if in_seg(i, idx0, m, e, n) { lemma_seg_step(i, idx0, m, e, n); }
            assert(freach_at(ks, st, i));
            let y = ks[i]->0; let ji = st[i] - 1;
            lemma_fpath_avoid(st, y, ji, i, idx0, m + 1, e);
            assert forall|t: int| 0 <= t < ji implies st2[#[trigger] fpos(y, t, n)] > 0 by { assert(st[fpos(y, t, n)] > 0); lemma_fpos_range(y, t, n); }
        }
    }
    assert(focc(st2) =~= focc(st).remove(p).insert(d));
    assert(focc(st).contains(p) && !focc(st).contains(d));
    assert forall|k2: T| fholds(ks2, st2, k2) == fholds(ks, st, k2) by {
        if fholds(ks2, st2, k2) { let i = choose|i: int| 0 <= i < st2.len() && st2[i] > 0 && ks2[i] == Some(k2); if i == d { assert(st[p] > 0 && ks[p] == Some(k2)); } else { assert(i != p); assert(st[i] > 0 && ks[i] == Some(k2)); } }
        if fholds(ks, st, k2) { let i = choose|i: int| 0 <= i < st.len() && st[i] > 0 && ks[i] == Some(k2); if i == p { assert(st2[d] > 0 && ks2[d] == Some(k2)); } else { assert(i != d); assert(st2[i] > 0 && ks2[i] == Some(k2)); } }
    }
    assert forall|k2: T| fval(ks2, vs2, st2, k2) == fval(ks, vs, st, k2) by {
        if fholds(ks, st, k2) {
            let i = fidx(ks, st, k2);
            if i == p { lemma_fidx(ks2, st2, k2, d); } else { assert(i != d); lemma_fidx(ks2, st2, k2, i); }
        }
    }
}

// ================= keep_only_positive_counts =================
spec fn run_short_at(st: Seq<u16>, idx: int) -> bool { exists|e: int| 1 <= e < DRIFT_LIMIT - 1 && st[#[trigger] dpos(idx, e, st.len() as int)] == 0 }
spec fn runs_short(st: Seq<u16>) -> bool { forall|idx: int| 0 <= idx < st.len() ==> #[trigger] run_short_at(st, idx) }
proof fn lemma_runs_short_at(st: Seq<u16>, idx: int)
  requires runs_short(st), 0 <= idx < st.len()
  ensures exists|e: int| 1 <= e < DRIFT_LIMIT - 1 && st[#[trigger] dpos(idx, e, st.len() as int)] == 0
{ assert(run_short_at(st, idx)); }
// an occupied slot makes the occupancy count positive (so `num_active -= 1` cannot underflow wherever it is placed)
proof fn lemma_focc_pos(st: Seq<u16>, p: int)
  requires 0 <= p < st.len(), st[p] > 0
  ensures focc(st).len() > 0
{
    assert(focc(st).contains(p));
    vstd::set_lib::lemma_int_range(0, st.len() as int);
    Set::range(0, st.len() as int).lemma_len_filter(|i: int| st[i] > 0);
    if focc(st).len() == 0 { focc(st).lemma_len0_is_empty(); }
}
proof fn lemma_fexists_empty(st: Seq<u16>) -> (z: int)
  requires focc(st).len() < st.len()
  ensures 0 <= z < st.len(), st[z] == 0
{
    if forall|z: int| 0 <= z < st.len() ==> st[z] > 0 {
        assert(focc(st) =~= Set::range(0, st.len() as int));
        vstd::set_lib::lemma_int_range(0, st.len() as int);
        assert(false);
    }
    choose|z: int| 0 <= z < st.len() && st[z] == 0
}
spec fn keep_inv<T>(ks0: Seq<Option<T>>, vs0: Seq<u64>, st0: Seq<u16>, ks: Seq<Option<T>>, vs: Seq<u64>, st: Seq<u16>) -> bool {
    &&& forall|k: T| fholds(ks, st, k) ==> fholds(ks0, st0, k) && fval(ks, vs, st, k) == fval(ks0, vs0, st0, k)
    &&& forall|k: T| fholds(ks0, st0, k) && fval(ks0, vs0, st0, k) > 0 ==> fholds(ks, st, k)
}
proof fn lemma_keep_step<T>(ks0: Seq<Option<T>>, vs0: Seq<u64>, st0: Seq<u16>, ks: Seq<Option<T>>, vs: Seq<u64>, st: Seq<u16>,
    ks2: Seq<Option<T>>, vs2: Seq<u64>, st2: Seq<u16>, lg: u8, q: int, fp: int, scanned: spec_fn(int) -> bool)
  requires fshape(ks, vs, st, lg), fshape(ks2, vs2, st2, lg), fok(ks, st), fok(ks2, st2), runs_short(st),
    0 <= q < st.len(), 0 <= fp < st.len(), st[q] > 0, vs[q] == 0, st[fp] == 0,
    keep_inv(ks0, vs0, st0, ks, vs, st),
    forall|x: int| 0 <= x < st.len() && scanned(x) && st[x] > 0 ==> vs[x] > 0,
    // every unscanned slot other than q lies beyond the empty slot fp, going forward from q
    forall|x: int| 0 <= x < st.len() && !scanned(x) && x != q ==> foff(q, fp, st.len() as int) <= foff(q, x, st.len() as int),
    // hash_delete(q)'s postcondition
    forall|k2: T| fholds(ks2, st2, k2) == (fholds(ks, st, k2) && Some(k2) != ks[q]),
    forall|k2: T| Some(k2) != ks[q] ==> fval(ks2, vs2, st2, k2) == fval(ks, vs, st, k2),
    exists|e: int| #[trigger] fdel_frame(ks, vs, st, ks2, vs2, st2, q, e),
  ensures keep_inv(ks0, vs0, st0, ks2, vs2, st2), runs_short(st2), st2[fp] == 0,
    forall|x: int| 0 <= x < st.len() && (scanned(x) || x == q) && st2[x] > 0 ==> vs2[x] > 0,
{
    let n = st.len() as int;
    lemma_pow2_pos(lg as nat);
    let e = choose|e: int| #[trigger] fdel_frame(ks, vs, st, ks2, vs2, st2, q, e);
    assert(freach_at(ks, st, q));
    let kd = ks[q]->0;
    lemma_fidx(ks, st, kd, q);
    assert(fval(ks, vs, st, kd) == 0);
    // slots at forward offset >= e from q are unchanged; every slot at offset < e was active
    assert forall|x: int| 0 <= x < n && st[x] == 0 implies st2[x] == 0 by {
        let w = lemma_dpos_surj(q, x, n);
        if w < e { assert(st[dpos(q, w, n)] > 0); }
    }
    assert(runs_short(st2)) by {
        assert forall|idx: int| 0 <= idx < st2.len() implies #[trigger] run_short_at(st2, idx) by {
            lemma_runs_short_at(st, idx);
            let e2 = choose|e2: int| 1 <= e2 < DRIFT_LIMIT - 1 && st[#[trigger] dpos(idx, e2, n)] == 0;
            lemma_dpos_range(idx, e2, n);
            assert(st2[dpos(idx, e2, n)] == 0);
        }
    }
    assert forall|x: int| 0 <= x < n && (scanned(x) || x == q) && st2[x] > 0 implies vs2[x] > 0 by {
        assert(freach_at(ks2, st2, x));
        let k = ks2[x]->0;
        lemma_fidx(ks2, st2, k, x);
        assert(fholds(ks, st, k) && Some(k) != ks[q]);
        let pp = fidx(ks, st, k);
        assert(vs2[x] == vs[pp]);
        if pp == q { }
        else if scanned(pp) { }
        else {
            // pp is beyond fp, hence unchanged by the deletion
            let w = lemma_dpos_surj(q, pp, n);
            let wf = lemma_dpos_surj(q, fp, n);
            if w < e { assert(st[dpos(q, wf, n)] > 0); }
            assert(st2[pp] == st[pp] && ks2[pp] == ks[pp]);
            if pp != x { assert(ks2[pp] != ks2[x]); }
        }
    }
}
proof fn lemma_keep_final<T>(ks0: Seq<Option<T>>, vs0: Seq<u64>, st0: Seq<u16>, ks: Seq<Option<T>>, vs: Seq<u64>, st: Seq<u16>)
  requires keep_inv(ks0, vs0, st0, ks, vs, st), fok(ks, st), forall|x: int| 0 <= x < st.len() && st[x] > 0 ==> vs[x] > 0
  ensures forall|k: T| fholds(ks, st, k) == (fholds(ks0, st0, k) && fval(ks0, vs0, st0, k) > 0)
{
    assert forall|k: T| fholds(ks, st, k) == (fholds(ks0, st0, k) && fval(ks0, vs0, st0, k) > 0) by {
        if fholds(ks, st, k) { let i = fidx(ks, st, k); assert(vs[i] > 0); }
    }
}

// ================= purge =================
spec fn sample_ok(st0: Seq<u16>, vs0: Seq<u64>, x: u64) -> bool { exists|p: int| 0 <= p < st0.len() && st0[p] > 0 && vs0[p] == x }
proof fn lemma_focc_take_step(st: Seq<u16>, i: int)
  requires 0 <= i < st.len()
  ensures focc(st.take(i + 1)).len() == focc(st.take(i)).len() + (if st[i] > 0 { 1int } else { 0int }),
    focc(st.take(i)).len() <= focc(st).len(), focc(st.take(i + 1)).len() <= focc(st).len()
{
    let a = st.take(i + 1); let b = st.take(i);
    if st[i] > 0 { assert(focc(a) =~= focc(b).insert(i)); assert(!focc(b).contains(i)); }
    else { assert(focc(a) =~= focc(b)); }
    assert(focc(b).subset_of(focc(st))); vstd::set_lib::lemma_len_subset(focc(b), focc(st));
    assert(focc(a).subset_of(focc(st))); vstd::set_lib::lemma_len_subset(focc(a), focc(st));
}
// after adjust_all_values_by(med): same keys and states, val' = val ∸ med, and a zero-valued held key exists
proof fn lemma_purge_mid<T>(ks: Seq<Option<T>>, vs0: Seq<u64>, vs1: Seq<u64>, st: Seq<u16>, med: u64)
  requires fok(ks, st), vs0.len() == st.len(), vs1.len() == st.len(), forall|i: int| 0 <= i < st.len() ==> vs1[i] == ssub(vs0[i], med),
    exists|p: int| 0 <= p < st.len() && st[p] > 0 && vs0[p] == med,
  ensures forall|k: T| fval(ks, vs1, st, k) == ssub(fval(ks, vs0, st, k), med),
    exists|k: T| fholds(ks, st, k) && fval(ks, vs1, st, k) == 0,
{
    let p = choose|p: int| 0 <= p < st.len() && st[p] > 0 && vs0[p] == med;
    assert(freach_at(ks, st, p));
    let k = ks[p]->0;
    lemma_fidx(ks, st, k, p);
    assert(fholds(ks, st, k) && fval(ks, vs1, st, k) == 0);
}
proof fn lemma_purge_post<T>(ks0: Seq<Option<T>>, vs0: Seq<u64>, vs1: Seq<u64>, st0: Seq<u16>, ks: Seq<Option<T>>, vs: Seq<u64>, st: Seq<u16>, med: u64)
  requires med > 0, forall|p: int| 0 <= p < st0.len() && st0[p] > 0 ==> vs0[p] > 0, fok(ks0, st0), vs0.len() == st0.len(),
    forall|k: T| fval(ks0, vs1, st0, k) == ssub(fval(ks0, vs0, st0, k), med),
    forall|k: T| fholds(ks, st, k) == (fholds(ks0, st0, k) && fval(ks0, vs1, st0, k) > 0),
    forall|k: T| fholds(ks, st, k) ==> fval(ks, vs, st, k) == fval(ks0, vs1, st0, k),
  ensures forall|k: T| fval(ks, vs, st, k) == (if fval(ks0, vs0, st0, k) > med { (fval(ks0, vs0, st0, k) - med) as u64 } else { 0u64 }),
    forall|k: T| fholds(ks, st, k) == (fval(ks0, vs0, st0, k) > med),
{
    assert forall|k: T| fholds(ks, st, k) == (fval(ks0, vs0, st0, k) > med) by { }
    assert forall|k: T| fval(ks, vs, st, k) == (if fval(ks0, vs0, st0, k) > med { (fval(ks0, vs0, st0, k) - med) as u64 } else { 0u64 }) by { }
}

proof fn lemma_fpos_vals_after_put<T>(ks: Seq<Option<T>>, vs: Seq<u64>, st: Seq<u16>, ks2: Seq<Option<T>>, vs2: Seq<u64>, st2: Seq<u16>)
  requires fok(ks2, st2), vs2.len() == st2.len(), forall|k: T| fholds(ks2, st2, k) ==> fval(ks2, vs2, st2, k) > 0
  ensures forall|p: int| 0 <= p < st2.len() && st2[p] > 0 ==> vs2[p] > 0
{
    assert forall|p: int| 0 <= p < st2.len() && st2[p] > 0 implies vs2[p] > 0 by {
        assert(freach_at(ks2, st2, p));
        lemma_fidx(ks2, st2, ks2[p]->0, p);
    }
}
// the first m probe positions, as a set
spec fn probe_set(p0: int, s: int, m: nat, size: int) -> Set<int> decreases m {
    if m == 0 { Set::empty() } else { probe_set(p0, s, (m - 1) as nat, size).insert(probe_at(p0, s, m - 1, size)) }
}
proof fn lemma_probe_set(n: nat, p0: int, s: int, m: nat)
  requires s % 2 == 1, m <= pow2(n)
  ensures probe_set(p0, s, m, pow2(n) as int).finite(), probe_set(p0, s, m, pow2(n) as int).len() == m,
    forall|y: int| probe_set(p0, s, m, pow2(n) as int).contains(y) <==> exists|j: int| 0 <= j < m && y == probe_at(p0, s, j, pow2(n) as int),
    probe_set(p0, s, m, pow2(n) as int).subset_of(Set::range(0, pow2(n) as int)),
  decreases m
{
    let size = pow2(n) as int;
    lemma_pow2_pos(n);
    if m > 0 {
        let prev = probe_set(p0, s, (m - 1) as nat, size);
        lemma_probe_set(n, p0, s, (m - 1) as nat);
        let y = probe_at(p0, s, m - 1, size);
        if prev.contains(y) {
            let j = choose|j: int| 0 <= j < m - 1 && y == probe_at(p0, s, j, size);
            lemma_probe_injective(n, p0, s, j, m - 1);
        }
        lemma_mod_bound(p0 + (m - 1) * s, size);
        let cur = probe_set(p0, s, m, size);
        assert forall|z: int| cur.contains(z) <==> exists|j: int| 0 <= j < m && z == probe_at(p0, s, j, size) by {
            if cur.contains(z) { if z == y { assert(0 <= m - 1 < m); } else { let j = choose|j: int| 0 <= j < m - 1 && z == probe_at(p0, s, j, size); assert(0 <= j < m); } }
            if exists|j: int| 0 <= j < m && z == probe_at(p0, s, j, size) { let j = choose|j: int| 0 <= j < m && z == probe_at(p0, s, j, size); if j < m - 1 { assert(prev.contains(z)); } }
        }
    }
}
// every slot is hit (exactly once, by injectivity) in 2^n steps of an odd stride
proof fn lemma_probe_cover(n: nat, p0: int, s: int, i: int) -> (j: int)
  requires s % 2 == 1, 0 <= i < pow2(n)
  ensures 0 <= j < pow2(n), probe_at(p0, s, j, pow2(n) as int) == i
{
    let size = pow2(n) as int;
    lemma_probe_set(n, p0, s, pow2(n));
    let v = probe_set(p0, s, pow2(n), size);
    vstd::set_lib::lemma_int_range(0, size);
    vstd::set_lib::lemma_subset_equality(v, Set::range(0, size));
    assert(v.contains(i));
    choose|j: int| 0 <= j < pow2(n) && i == probe_at(p0, s, j, size)
}

// R15: `(size as f64 * 0.6180339887498949) as usize` -- float leaf: the truncated product with a factor < 1 is below size
pub uninterp spec fn vx_golden_stride_spec(n: usize) -> usize;
#[verifier::external_body] fn vx_golden_stride(n: usize) -> (r: usize) ensures r == vx_golden_stride_spec(n), n > 0 ==> r < n { (n as f64 * 0.6180339887498949) as usize }
proof fn lemma_odd_stride(g: usize, n: usize, lg: u8)
  requires 1 <= lg <= 40, n == pow2(lg as nat), g < n
  ensures (g | 1) % 2 == 1, 0 < (g | 1) < n
{
    lemma_pow2_unfold(lg as nat); lemma_pow2_pos((lg - 1) as nat); lemma_fmask(0usize, (lg - 1) as u8);
    let h = pow2((lg - 1) as nat) as usize;
    assert(n == 2 * h);
    assert((g | 1) % 2 == 1 && (g | 1) > 0 && (g | 1) < n) by (bit_vector) requires g < n, n == 2 * h, h < 0x1000_0000_0000_0000usize;
}
// ================= ReversePurgeItemIter =================
#[verifier::reject_recursive_types(T)]
struct ReversePurgeItemIter < 'a , T > {
map : & 'a ReversePurgeItemHashMap < T > , index : usize , count : usize , stride : usize , mask : usize , }


spec fn it_steps(index: int, stride: int, n: int) -> int {
    if index >= n { 0 } else { 1 + choose|t: int| 0 <= t < n && probe_at(0, stride, t, n) == index }
}
impl<'a, T: Eq + Hash> ReversePurgeItemIter<'a, T> {
    spec fn n(&self) -> int { self.map.states@.len() as int }
    spec fn steps(&self) -> int { it_steps(self.index as int, self.stride as int, self.n()) }
    spec fn yielded(&self) -> Set<int> { probe_set(0, self.stride as int, self.steps() as nat, self.n()).intersect(focc(self.map.states@)) }
    spec fn inv(&self) -> bool {
        &&& self.map.wf()
        &&& self.stride % 2 == 1 && 0 < self.stride < self.n() && self.mask == self.n() - 1
        &&& (self.index < self.n() || self.index as int == 0x1_0000_0000_0000_0000 - self.stride)
        &&& self.count == self.yielded().len()
    }

    fn new ( map : & 'a ReversePurgeItemHashMap < T > ) -> ( r : Self ) requires map . wf ( ) , ensures r . inv ( ) , r . map == map , r . yielded ( ) =~= Set :: < int > :: empty ( ) , {
proof {
lemma_fmask ( 0usize , map . lg_length ) ;
lemma_pow2_strictly_increases ( 0 , map . lg_length as nat ) ;
lemma2_to64 ( ) ;
}
let size = map . keys . len ( ) ;
let stride = vx_golden_stride ( size ) | 1 ;
proof {
lemma_odd_stride ( vx_golden_stride_spec ( size ) , size , map . lg_length ) ;
}
let mask = size - 1 ;
let index = 0usize . wrapping_sub ( stride ) ;
proof {
assert ( index as int == 0x1_0000_0000_0000_0000 - stride ) ;
assert ( it_steps ( index as int , stride as int , size as int ) == 0 ) ;
assert ( probe_set ( 0 , stride as int , 0nat , size as int ) . intersect ( focc ( map . states @ ) ) =~= Set :: < int > :: empty ( ) ) ;
}
Self {
map , index , count : 0 , stride , mask , }
}


    fn next ( & mut self ) -> ( r : Option < ( & 'a T , u64 ) > ) requires old ( self ) . inv ( ) ensures final ( self ) . inv ( ) , final ( self ) . map == old ( self ) . map , final ( self ) . stride == old ( self ) . stride , r is None ==> old ( self ) . yielded ( ) =~= focc ( old ( self ) . map . states @ ) && final ( self ) . index == old ( self ) . index && final ( self ) . count == old ( self ) . count , r matches Some ( kv ) ==> ( {
let p = final ( self ) . index as int ;
&&& 0 <= p < old ( self ) . n ( ) && old ( self ) . map . states @ [ p ] > 0 && old ( self ) . map . keys @ [ p ] == Some ( * kv . 0 ) && kv . 1 == old ( self ) . map . values @ [ p ] &&& ! old ( self ) . yielded ( ) . contains ( p ) && final ( self ) . yielded ( ) =~= old ( self ) . yielded ( ) . insert ( p ) }
) , {
let ghost st = self . map . states @ ;
let ghost n = st . len ( ) as int ;
let ghost sd = self . stride as int ;
let ghost lg = self . map . lg_length ;
proof {
lemma_pow2_pos ( lg as nat ) ;
lemma_fmask ( 0usize , lg ) ;
lemma_it_steps ( self . index as int , sd , lg ) ;
lemma_probe_set ( lg as nat , 0 , sd , self . steps ( ) as nat ) ;
assert ( self . yielded ( ) . subset_of ( focc ( st ) ) ) ;
vstd :: set_lib :: lemma_len_subset ( self . yielded ( ) , focc ( st ) ) ;
}
if self . count >= self . map . num_active {
proof {
vstd :: set_lib :: lemma_subset_equality ( self . yielded ( ) , focc ( st ) ) ;
}
return None ;
}
let ghost mut j : int = self . steps ( ) ;
loop invariant self . map == old ( self ) . map , self . stride == old ( self ) . stride , self . mask == old ( self ) . mask , self . count == old ( self ) . count , old ( self ) . inv ( ) , st == self . map . states @ , n == st . len ( ) , sd == self . stride , lg == self . map . lg_length , n == pow2 ( lg as nat ) , 1 <= lg <= 40 , n <= 0x100_0000_0000 , 0 <= j <= n , j == it_steps ( self . index as int , sd , n ) , ( self . index < n || ( self . index as int == 0x1_0000_0000_0000_0000 - sd && j == 0 ) ) , self . count == probe_set ( 0 , sd , j as nat , n ) . intersect ( focc ( st ) ) . len ( ) , self . count < focc ( st ) . len ( ) , probe_set ( 0 , sd , j as nat , n ) . intersect ( focc ( st ) ) =~= old ( self ) . yielded ( ) , decreases n - j {
proof {
lemma_probe_set ( lg as nat , 0 , sd , j as nat ) ;
if j == n {
vstd :: set_lib :: lemma_int_range ( 0 , n ) ;
vstd :: set_lib :: lemma_subset_equality ( probe_set ( 0 , sd , n as nat , n ) , Set :: range ( 0 , n ) ) ;
assert ( probe_set ( 0 , sd , n as nat , n ) . intersect ( focc ( st ) ) =~= focc ( st ) ) ;
assert ( false ) ;
}
lemma_it_next ( self . index , self . stride , lg , j ) ;
}
self . index = self . index . wrapping_add ( self . stride ) & self . mask ;
proof {
assert ( self . index as int == probe_at ( 0 , sd , j , n ) ) ;
lemma_it_steps_at ( sd , lg , j ) ;
lemma_probe_set ( lg as nat , 0 , sd , ( j + 1 ) as nat ) ;
let p = self . index as int ;
assert ( ! probe_set ( 0 , sd , j as nat , n ) . contains ( p ) ) by {
if probe_set ( 0 , sd , j as nat , n ) . contains ( p ) {
let t = choose | t : int | 0 <= t < j && p == probe_at ( 0 , sd , t , n ) ;
lemma_probe_injective ( lg as nat , 0 , sd , t , j ) ;
}
}
if st [ p ] > 0 {
assert ( probe_set ( 0 , sd , ( j + 1 ) as nat , n ) . intersect ( focc ( st ) ) =~= probe_set ( 0 , sd , j as nat , n ) . intersect ( focc ( st ) ) . insert ( p ) ) ;
}
else {
assert ( probe_set ( 0 , sd , ( j + 1 ) as nat , n ) . intersect ( focc ( st ) ) =~= probe_set ( 0 , sd , j as nat , n ) . intersect ( focc ( st ) ) ) ;
}
j = j + 1 ;
}
if self . map . states [ self . index ] > 0 {
self . count += 1 ;
proof {
assert ( freach_at ( self . map . keys @ , st , self . index as int ) ) ;
}
let key = self . map . keys [ self . index ] . as_ref ( ) . expect ( "" ) ;
return Some ( ( key , self . map . values [ self . index ] ) ) ;
}
}
}


}
proof fn lemma_it_steps(index: int, sd: int, lg: u8)
  requires 1 <= lg <= 40, sd % 2 == 1, 0 <= index
  ensures 0 <= it_steps(index, sd, pow2(lg as nat) as int) <= pow2(lg as nat)
{
    let n = pow2(lg as nat) as int;
    if index < n { let t = lemma_probe_cover(lg as nat, 0, sd, index); }
}
// after the j-th step the index is the j-th probe position, and it_steps recovers j + 1
proof fn lemma_it_steps_at(sd: int, lg: u8, j: int)
  requires 1 <= lg <= 40, sd % 2 == 1, 0 <= j < pow2(lg as nat)
  ensures it_steps(probe_at(0, sd, j, pow2(lg as nat) as int), sd, pow2(lg as nat) as int) == j + 1
{
    let n = pow2(lg as nat) as int; lemma_pow2_pos(lg as nat);
    let x = probe_at(0, sd, j, n);
    lemma_mod_bound(0 + j * sd, n);
    let t = choose|t: int| 0 <= t < n && probe_at(0, sd, t, n) == x;
    lemma_probe_injective(lg as nat, 0, sd, t, j);
}
proof fn lemma_it_next(index: usize, stride: usize, lg: u8, j: int)
  requires 1 <= lg <= 40, stride % 2 == 1, 0 < stride < pow2(lg as nat), 0 <= j < pow2(lg as nat),
    j == it_steps(index as int, stride as int, pow2(lg as nat) as int),
    index < pow2(lg as nat) || (index as int == 0x1_0000_0000_0000_0000 - stride && j == 0),
  ensures (index.wrapping_add(stride) & ((pow2(lg as nat) - 1) as usize)) as int == probe_at(0, stride as int, j, pow2(lg as nat) as int)
{
    let n = pow2(lg as nat) as int; let sd = stride as int;
    lemma_pow2_pos(lg as nat);
    lemma_fmask(index.wrapping_add(stride), lg);
    if (index as int) < n {
        let t = lemma_probe_cover(lg as nat, 0, sd, index as int);
        let t2 = choose|t: int| 0 <= t < n && probe_at(0, sd, t, n) == index as int;
        assert(j == 1 + t2);
        lemma_probe_step(0, sd, t2, n, index as int);
    } else {
        assert(index.wrapping_add(stride) == 0);
        lemma_small_mod(0nat, n as nat);
        assert(probe_at(0, sd, 0, n) == 0);
    }
}
}
fn main(){}
