use vstd::prelude::*;
use vstd::iset::*;
use vstd::arithmetic::power2::*;
verus! {
global size_of usize == 8;
const EMPTY: u32 = 0xffff_ffff;

// ---------- PairTable by contract ----------
// Definitions (pholds, pdistinct, pocc, wf, items, room) and the contracts of new / maybe_insert are copied VERBATIM from
// contracts/cpc_core.rs (which assumes them) -- the bodies are proved in the unit cpc_pairtable.  maybe_delete is stated in the
// same style (its body is proved in cpc_pairtable with the same items() postcondition).
struct PairTable {
lg_size : u8 , num_valid_bits : u8 , num_items : u32 , slots : Vec < u32 > , }


spec fn pholds(ss: Seq<u32>, item: u32) -> bool { exists|i: int| 0 <= i < ss.len() && ss[i] == item }
spec fn pdistinct(ss: Seq<u32>) -> bool { forall|i: int, j: int| 0 <= i < ss.len() && 0 <= j < ss.len() && i != j && ss[i] != EMPTY ==> ss[i] != ss[j] }
spec fn pocc(ss: Seq<u32>) -> Set<int> { Set::range(0, ss.len() as int).filter(|i: int| ss[i] != EMPTY) }
impl PairTable {
    #[verifier::external_body]
    fn new(lg_size: u8, num_valid_bits: u8) -> (r: Self)
      requires 2 <= lg_size <= 26, lg_size + 1 <= num_valid_bits <= 32
      ensures r.wf(), r.lg_size == lg_size, r.num_valid_bits == num_valid_bits, r.num_items == 0, r.items() =~= ISet::<u32>::empty()
    { unimplemented!() }
    uninterp spec fn wf_rest(&self) -> bool;
    spec fn wf(&self) -> bool { self.wf_rest() && pdistinct(self.slots@) && self.num_items == pocc(self.slots@).len() }
    spec fn items(&self) -> ISet<u32> { ISet::new(|c: u32| c != EMPTY && pholds(self.slots@, c)) }
    spec fn room(&self) -> bool { self.lg_size < 26 || 4 * (self.num_items as int + 1) <= 3 * 0x400_0000 }
    #[verifier::external_body]
    fn maybe_insert(&mut self, item: u32) -> (r: bool)
      requires old(self).wf(), item != EMPTY, (item as int) < pow2(old(self).num_valid_bits as nat), old(self).room(),
      ensures final(self).wf(), final(self).num_valid_bits == old(self).num_valid_bits,
        r == !old(self).items().contains(item), final(self).items() == old(self).items().insert(item),
        final(self).num_items == old(self).num_items + (if r { 1u32 } else { 0u32 }),
    { unimplemented!() }
    #[verifier::external_body]
    fn maybe_delete(&mut self, item: u32) -> (r: bool)
      requires old(self).wf(), item != EMPTY, (item as int) < pow2(old(self).num_valid_bits as nat),
      ensures final(self).wf(), final(self).num_valid_bits == old(self).num_valid_bits,
        r == old(self).items().contains(item), final(self).items() == old(self).items().remove(item),
    { unimplemented!() }
}

// ---------- cpc/mod.rs: flavor and offset as functions of (lg_k, C) ----------
enum Flavor {
Empty , Sparse , Hybrid , Pinned , Sliding , }


spec fn flavor_spec(lg_k: u8, c: u32) -> Flavor {
    let k = pow2(lg_k as nat) as int; let c = c as int;
    if c == 0 { Flavor::Empty } else if 32 * c < 3 * k { Flavor::Sparse } else if 2 * c < k { Flavor::Hybrid } else if 8 * c < 27 * k { Flavor::Pinned } else { Flavor::Sliding }
}
// dco: verbatim from contracts/cpc_core.rs
spec fn dco(lg_k: u8, c: u32) -> int { let k = pow2(lg_k as nat) as int; if 8 * (c as int) < 19 * k { 0 } else { (8 * (c as int) - 19 * k) / (8 * k) } }

fn determine_flavor ( lg_k : u8 , num_coupons : u32 ) -> ( r : Flavor ) requires 4 <= lg_k <= 26 ensures
/*@C05.flavor*/ r == flavor_spec ( lg_k , num_coupons ) {
proof {
lemma_shl64 ( lg_k ) ;
lemma_k_bound ( lg_k ) ;
let c = num_coupons as u64 ;
assert ( c <= 0xffff_ffff ==> ( c << 1 ) == c * 2 && ( c << 3 ) == c * 8 && ( c << 5 ) == c * 32 ) by ( bit_vector ) ;
}
let k : u64 = 1 << lg_k ;
let c2 = ( num_coupons as u64 ) << 1 ;
let c8 = ( num_coupons as u64 ) << 3 ;
let c32 = ( num_coupons as u64 ) << 5 ;
if num_coupons == 0 {
Flavor :: Empty }
else if c32 < ( 3 * k ) {
Flavor :: Sparse }
else if c2 < k {
Flavor :: Hybrid }
else if c8 < ( 27 * k ) {
Flavor :: Pinned }
else {
Flavor :: Sliding }
}


// the contract is the one contracts/cpc_core.rs ASSUMES for this function (there it is opaque); here the body is verified
fn determine_correct_offset ( lg_k : u8 , num_coupons : u32 ) -> ( r : u8 ) requires 4 <= lg_k <= 26 ensures
/*@C05.offset_fn*/ dco ( lg_k , num_coupons ) <= 255 ==> r == dco ( lg_k , num_coupons ) {
proof {
lemma_shl_i64 ( lg_k ) ;
lemma_shl_i64 ( ( lg_k + 3 ) as u8 ) ;
lemma_pow2_adds ( 3 , lg_k as nat ) ;
lemma2_to64 ( ) ;
let c = num_coupons as i64 ;
assert ( 0 <= c <= 0xffff_ffff ==> ( c << 3 ) == c * 8 ) by ( bit_vector ) ;
}
let k = 1 << lg_k ;
let tmp = ( ( num_coupons as i64 ) << 3 ) - ( 19 * k ) ;
if tmp < 0 {
0 }
else {
proof {
lemma_shr_i64 ( tmp , ( lg_k + 3 ) as u8 ) ;
}
( tmp >> ( lg_k + 3 ) ) as u8 }
}


// ---------- cpc/compression.rs ----------
spec fn pseudo_phase_spec(lg_k: u8, c: u32) -> int {
    let k = pow2(lg_k as nat) as int; let ci = c as int;
    if 1000 * ci < 2375 * k {
        if 4 * ci < 3 * k { 16 } else if 10 * ci < 11 * k { 17 } else if 100 * ci < 132 * k { 18 } else if 3 * ci < 5 * k { 19 }
        else if 1000 * ci < 1965 * k { 20 } else if 1000 * ci < 2275 * k { 21 } else { 6 }
    } else { ((c >> ((lg_k - 4) as u32)) & 15) as int }
}
fn determine_pseudo_phase ( lg_k : u8 , num_coupons : u32 ) -> ( r : u8 ) requires 4 <= lg_k <= 26 ensures
/*@C05.pseudo_phase*/ r == pseudo_phase_spec ( lg_k , num_coupons ) , r < 24 {
proof {
lemma_shl64 ( lg_k ) ;
lemma_k_bound ( lg_k ) ;
}
let k : u64 = 1 << lg_k ;
let c = num_coupons as u64 ;
if 1000 * c < 2375 * k {
if 4 * c < 3 * k {
16 }
else if 10 * c < 11 * k {
16 + 1 }
else if 100 * c < 132 * k {
16 + 2 }
else if 3 * c < 5 * k {
16 + 3 }
else if 1000 * c < 1965 * k {
16 + 4 }
else if 1000 * c < 2275 * k {
16 + 5 }
else {
6 }
}
else {
debug_assert! ( lg_k >= 4 ) ;
let tmp = num_coupons >> ( lg_k - 4 ) ;
proof {
let s8 = ( lg_k - 4 ) as u8 ;
let s32 = ( lg_k - 4 ) as u32 ;
assert ( s8 <= 22 && s32 == s8 as u32 ==> ( num_coupons >> s8 ) == ( num_coupons >> s32 ) ) by ( bit_vector ) ;
let t = num_coupons >> s8 ;
assert ( ( t & 15 ) < 16 && t & 15 == t % 16 && t & 15 == 15 & t ) by ( bit_vector ) ;
}
( tmp & 15 ) as u8 }
}


// ---------- the sketch ----------
struct CpcSketch {
lg_k : u8 , seed : u64 , seed_hash : u16 , first_interesting_column : u8 , num_coupons : u32 , surprising_value_table : Option < PairTable > , window_offset : u8 , sliding_window : Vec < u8 > , merge_flag : bool , kxp : f64 , hip_est_accum : f64 , }


// rc, bit, bit8, k, mbit, wf_matrix, tbl_nvb_ok: verbatim from contracts/cpc_core.rs (tbl: see the note at its definition)
spec fn rc(row: int, col: int) -> u32 { ((row as u32) << 6) | (col as u32) }
spec fn bit(x: u64, c: int) -> bool { (x >> (c as u64)) & 1 == 1 }
spec fn bit8(x: u8, c: int) -> bool { (x >> (c as u8)) & 1 == 1 }

impl CpcSketch {
    spec fn k(&self) -> int { pow2(self.lg_k as nat) as int }
    // cpc_core has `self.surprising_value_table->0.items()`; made total here (an EMPTY sketch has no table yet: its matrix is all zero).
    // The two definitions coincide whenever the table is Some, which every contract copied from cpc_core requires (tbl_nvb_ok).
    spec fn tbl(&self) -> ISet<u32> { if self.surprising_value_table is Some { self.surprising_value_table->0.items() } else { ISet::empty() } }
    // the abstract bit matrix, as the paper defines it
    spec fn mbit(&self, row: int, col: int) -> bool {
        let off = self.window_offset as int;
        if self.sliding_window@.len() != 0 && off <= col < off + 8 { bit8(self.sliding_window@[row], col - off) }
        else if col < off { !self.tbl().contains(rc(row, col)) }
        else { self.tbl().contains(rc(row, col)) }
    }
    spec fn wf_matrix(&self) -> bool {
        &&& 4 <= self.lg_k <= 26
        &&& self.window_offset <= 56
        &&& (self.sliding_window@.len() == 0 || self.sliding_window@.len() == self.k())
        &&& self.num_coupons != 0 ==> self.surprising_value_table is Some && self.surprising_value_table->0.wf()
              && (forall|x: u32| #[trigger] self.tbl().contains(x) ==> (x >> 6) < self.k())
              && (self.sliding_window@.len() != 0 ==> forall|x: u32| self.tbl().contains(x) ==> !(self.window_offset <= (x & 63) < self.window_offset + 8))
        &&& self.num_coupons == 0 ==> self.window_offset == 0 && self.sliding_window@.len() == 0
              && (self.surprising_value_table is Some ==> self.tbl() =~= ISet::empty())
    }
    spec fn tbl_nvb_ok(&self) -> bool { self.surprising_value_table is Some && self.surprising_value_table->0.num_valid_bits == 6 + self.lg_k }

    // ---- additions of this unit: the sketch-level invariant = wf_matrix + flavor/offset/first_interesting_column consistency ----
    spec fn windowed(&self) -> bool { self.sliding_window@.len() != 0 }
    spec fn fic_ok(&self) -> bool {
        &&& self.first_interesting_column <= self.window_offset
        &&& forall|r: int, c: int| 0 <= r < self.k() && 0 <= c < self.first_interesting_column ==> self.mbit(r, c)
    }
    // window/flavor thresholds; together they say window_offset == determine_correct_offset(lg_k, C) (lemma_offset_is_dco)
    spec fn thresholds(&self) -> bool {
        let c = self.num_coupons as int; let k = self.k(); let off = self.window_offset as int;
        &&& !self.windowed() ==> off == 0 && 32 * c < 3 * k
        &&& self.windowed() ==> 32 * c >= 3 * k && 8 * c < (27 + 8 * off) * k && (off > 0 ==> 8 * c >= (27 + 8 * (off - 1)) * k)
    }
    spec fn wf(&self) -> bool {
        &&& self.wf_matrix()
        &&& self.fic_ok()
        &&& self.thresholds()
        &&& self.num_coupons != 0 ==> self.tbl_nvb_ok()
        &&& self.num_coupons != 0 && !self.windowed() ==> self.surprising_value_table->0.num_items == self.num_coupons
    }
    // the state update_sparse starts from (row_col_update has just created the table when the sketch was empty)
    spec fn sparse_ready(&self) -> bool {
        &&& !self.windowed()
        &&& self.tbl_nvb_ok()
        &&& self.surprising_value_table->0.wf()
        &&& self.surprising_value_table->0.num_items == self.num_coupons
    }
    // hash-dependent assumption: fewer than 59.375 K coupons, i.e. the window never has to move past offset 56
    // (a 57th window position needs a hash with >= 57 leading zeros in a nearly full sketch)
    spec fn below_last_window(&self) -> bool { 8 * (self.num_coupons as int + 1) < (27 + 8 * 56) * self.k() }

    fn mut_surprising_value_table ( & mut self ) -> ( r : & mut PairTable ) requires old ( self ) . surprising_value_table is Some ensures * r == old ( self ) . surprising_value_table -> 0 , final ( self ) . surprising_value_table == Some ( * final ( r ) ) , final ( self ) . lg_k == old ( self ) . lg_k , final ( self ) . first_interesting_column == old ( self ) . first_interesting_column , final ( self ) . num_coupons == old ( self ) . num_coupons , final ( self ) . window_offset == old ( self ) . window_offset , final ( self ) . sliding_window == old ( self ) . sliding_window , final ( self ) . merge_flag == old ( self ) . merge_flag , final ( self ) . kxp == old ( self ) . kxp , final ( self ) . hip_est_accum == old ( self ) . hip_est_accum , {
self . surprising_value_table . as_mut ( ) . expect ( "" ) }


    // opaque: float arithmetic (f64 `+=` crashes Verus); frame only
    #[verifier::external_body]
    fn update_hip(&mut self, row_col: u32)
      ensures final(self).lg_k == old(self).lg_k, final(self).first_interesting_column == old(self).first_interesting_column,
              final(self).num_coupons == old(self).num_coupons, final(self).window_offset == old(self).window_offset,
              final(self).sliding_window == old(self).sliding_window, final(self).merge_flag == old(self).merge_flag,
              final(self).surprising_value_table == old(self).surprising_value_table,
    { unimplemented!() }

    // opaque: contract copied VERBATIM from the one PROVED in contracts/cpc_core.rs (unit cpc_core)
    #[verifier::external_body]
    fn move_window(&mut self)
      requires old(self).wf_matrix(), old(self).tbl_nvb_ok(), old(self).sliding_window@.len() == old(self).k(), old(self).window_offset < 56, old(self).num_coupons != 0, old(self).lg_k <= 18,
        8 * (old(self).num_coupons as int) >= (27 + 8 * (old(self).window_offset as int)) * old(self).k(),
        8 * (old(self).num_coupons as int) < (27 + 8 * (old(self).window_offset as int + 1)) * old(self).k(),
      ensures final(self).wf_matrix(), final(self).tbl_nvb_ok(), final(self).sliding_window@.len() == final(self).k(), final(self).window_offset == old(self).window_offset + 1,
        final(self).num_coupons == old(self).num_coupons, final(self).lg_k == old(self).lg_k, final(self).merge_flag == old(self).merge_flag, final(self).hip_est_accum == old(self).hip_est_accum,
        forall|r: int, c: int| 0 <= r < old(self).k() && 0 <= c < 64 ==> final(self).mbit(r, c) == old(self).mbit(r, c),
        final(self).first_interesting_column <= final(self).window_offset,
        forall|r: int, c: int| 0 <= r < old(self).k() && 0 <= c < final(self).first_interesting_column ==> final(self).mbit(r, c),
    { unimplemented!() }

    // opaque: contract copied VERBATIM from the one PROVED in contracts/cpc_core.rs (unit cpc_core)
    #[verifier::external_body]
    fn promote_sparse_to_windowed(&mut self)
      requires old(self).wf_matrix(), old(self).tbl_nvb_ok(), old(self).sliding_window@.len() == 0, old(self).num_coupons != 0, old(self).window_offset == 0,
        old(self).surprising_value_table->0.num_items <= 0x100_0000,
        32 * (old(self).num_coupons as int) == 3 * old(self).k() || (old(self).lg_k == 4 && 32 * (old(self).num_coupons as int) > 3 * old(self).k()),
        old(self).num_coupons < 0x400_0000,
      ensures final(self).wf_matrix(), final(self).tbl_nvb_ok(), final(self).sliding_window@.len() == final(self).k(), final(self).window_offset == 0,
        final(self).num_coupons == old(self).num_coupons, final(self).lg_k == old(self).lg_k, final(self).merge_flag == old(self).merge_flag,
        final(self).hip_est_accum == old(self).hip_est_accum, final(self).kxp == old(self).kxp, final(self).first_interesting_column == old(self).first_interesting_column,
        forall|r: int, c: int| 0 <= r < old(self).k() && 0 <= c < 64 ==> final(self).mbit(r, c) == old(self).mbit(r, c),
    { unimplemented!() }

    fn row_col_update ( & mut self , row_col : u32 ) requires old ( self ) . wf ( ) , row_col != EMPTY , ( row_col >> 6 ) < old ( self ) . k ( ) , old ( self ) . windowed ( ) ==> old ( self ) . lg_k <= 18 , old ( self ) . below_last_window ( ) , ensures
/*@C05.row_col_update.wf*/ final ( self ) . wf ( ) , final ( self ) . lg_k == old ( self ) . lg_k , final ( self ) . merge_flag == old ( self ) . merge_flag ,
/*@C05.row_col_update.onebit*/ forall | r : int , c : int | 0 <= r < old ( self ) . k ( ) && 0 <= c < 64 ==> final ( self ) . mbit ( r , c ) == ( old ( self ) . mbit ( r , c ) || ( r == ( row_col >> 6 ) && c == ( row_col & 63 ) ) ) ,
/*@C05.row_col_update.count*/ final ( self ) . num_coupons == old ( self ) . num_coupons + ( if old ( self ) . mbit ( ( row_col >> 6 ) as int , ( row_col & 63 ) as int ) {
0u32 }
else {
1u32 }
) ,
/*@C05.row_col_update.offset*/ final ( self ) . window_offset == dco ( final ( self ) . lg_k , final ( self ) . num_coupons ) ,
/*@C05.row_col_update.flavor*/ final ( self ) . windowed ( ) <==> 32 * ( final ( self ) . num_coupons as int ) >= 3 * final ( self ) . k ( ) , {
proof {
lemma_rc ( row_col ) ;
lemma_k_bound ( self . lg_k ) ;
lemma_offset_is_dco ( * self ) ;
}
let col = ( row_col & 63 ) as u8 ;
if col < self . first_interesting_column {
return ;
}
if self . num_coupons == 0 {
self . surprising_value_table = Some ( PairTable :: new ( 2 , 6 + self . lg_k ) ) ;
}
if self . sliding_window . is_empty ( ) {
self . update_sparse ( row_col ) ;
}
else {
self . update_windowed ( row_col ) ;
}
proof {
lemma_offset_is_dco ( * self ) ;
}
}


    fn update_sparse ( & mut self , row_col : u32 ) requires old ( self ) . wf ( ) , old ( self ) . sparse_ready ( ) , row_col != EMPTY , ( row_col >> 6 ) < old ( self ) . k ( ) , ensures
/*@C05.update_sparse.wf*/ final ( self ) . wf ( ) , final ( self ) . lg_k == old ( self ) . lg_k , final ( self ) . merge_flag == old ( self ) . merge_flag ,
/*@C05.update_sparse.onebit*/ forall | r : int , c : int | 0 <= r < old ( self ) . k ( ) && 0 <= c < 64 ==> final ( self ) . mbit ( r , c ) == ( old ( self ) . mbit ( r , c ) || ( r == ( row_col >> 6 ) && c == ( row_col & 63 ) ) ) ,
/*@C05.update_sparse.count*/ final ( self ) . num_coupons == old ( self ) . num_coupons + ( if old ( self ) . mbit ( ( row_col >> 6 ) as int , ( row_col & 63 ) as int ) {
0u32 }
else {
1u32 }
) , {
proof {
lemma_shl64 ( self . lg_k ) ;
lemma_k_bound ( self . lg_k ) ;
lemma_rc ( row_col ) ;
lemma_rowcol26 ( row_col , self . lg_k ) ;
let c = self . num_coupons as u64 ;
assert ( c <= 0xffff_ffff ==> ( c << 5 ) == c * 32 ) by ( bit_vector ) ;
}
let ghost row_g = ( row_col >> 6 ) as int ;
let ghost col_g = ( row_col & 63 ) as int ;
let k = 1 << self . lg_k ;
let c32pre = ( self . num_coupons as u64 ) << 5 ;
debug_assert! ( c32pre < 3 * k ) ;
let ghost mut mid = * self ;
let is_novel = self . mut_surprising_value_table ( ) . maybe_insert ( row_col ) ;
if is_novel {
proof {
mid = * self ;
assert forall | r : int , c : int | 0 <= r < old ( self ) . k ( ) && 0 <= c < 64 implies /*@C05.update_sparse.onebit*/ self . mbit ( r , c ) == ( old ( self ) . mbit ( r , c ) || ( r == row_g && c == col_g ) ) by {
lemma_rc_inj ( r , c , row_g , col_g ) ;
}
assert ( /*@C05.update_sparse.count*/ ! old ( self ) . mbit ( row_g , col_g ) ) ;
assert forall | x : u32 | # [ trigger ] self . tbl ( ) . contains ( x ) implies ( x >> 6 ) < self . k ( ) by {
if x != row_col {
assert ( old ( self ) . tbl ( ) . contains ( x ) ) ;
}
}
}
self . num_coupons += 1 ;
self . update_hip ( row_col ) ;
let c32post = ( self . num_coupons as u64 ) << 5 ;
proof {
let c = self . num_coupons as u64 ;
assert ( c <= 0xffff_ffff ==> ( c << 5 ) == c * 32 && ( c << 5 ) == 32 * c ) by ( bit_vector ) ;
assert ( self . tbl ( ) == mid . tbl ( ) ) ;
}
if c32post >= 3 * k {
proof {
lemma_promote_threshold ( self . lg_k , self . num_coupons as int ) ;
}
self . promote_sparse_to_windowed ( ) ;
}
}
proof {
if self . num_coupons == old ( self ) . num_coupons {
assert forall | r : int , c : int | 0 <= r < old ( self ) . k ( ) && 0 <= c < 64 implies /*@C05.update_sparse.onebit*/ self . mbit ( r , c ) == ( old ( self ) . mbit ( r , c ) || ( r == row_g && c == col_g ) ) by {
lemma_rc_inj ( r , c , row_g , col_g ) ;
}
assert ( /*@C05.update_sparse.count*/ old ( self ) . mbit ( row_g , col_g ) ) ;
assert forall | x : u32 | # [ trigger ] self . tbl ( ) . contains ( x ) implies ( x >> 6 ) < self . k ( ) by {
if x != row_col {
assert ( old ( self ) . tbl ( ) . contains ( x ) ) ;
}
}
}
else {
assert forall | r : int , c : int | 0 <= r < old ( self ) . k ( ) && 0 <= c < 64 implies /*@C05.update_sparse.onebit*/ self . mbit ( r , c ) == ( old ( self ) . mbit ( r , c ) || ( r == row_g && c == col_g ) ) by {
assert ( self . mbit ( r , c ) == mid . mbit ( r , c ) ) ;
}
}
}
}


    fn update_windowed ( & mut self , row_col : u32 ) requires old ( self ) . wf ( ) , old ( self ) . windowed ( ) , old ( self ) . lg_k <= 18 , row_col != EMPTY , ( row_col >> 6 ) < old ( self ) . k ( ) , old ( self ) . below_last_window ( ) , ensures
/*@C05.update_windowed.wf*/ final ( self ) . wf ( ) , final ( self ) . windowed ( ) , final ( self ) . lg_k == old ( self ) . lg_k , final ( self ) . merge_flag == old ( self ) . merge_flag ,
/*@C05.update_windowed.onebit*/ forall | r : int , c : int | 0 <= r < old ( self ) . k ( ) && 0 <= c < 64 ==> final ( self ) . mbit ( r , c ) == ( old ( self ) . mbit ( r , c ) || ( r == ( row_col >> 6 ) && c == ( row_col & 63 ) ) ) ,
/*@C05.update_windowed.count*/ final ( self ) . num_coupons == old ( self ) . num_coupons + ( if old ( self ) . mbit ( ( row_col >> 6 ) as int , ( row_col & 63 ) as int ) {
0u32 }
else {
1u32 }
) , {
debug_assert! ( self . window_offset <= 56 ) ;
proof {
lemma_shl64 ( self . lg_k ) ;
lemma_k_bound ( self . lg_k ) ;
lemma2_to64 ( ) ;
if self . lg_k < 18 {
lemma_pow2_strictly_increases ( self . lg_k as nat , 18 ) ;
}
}
let k = 1 << self . lg_k ;
let c32pre = ( self . num_coupons as u64 ) << 5 ;
proof {
let c = self . num_coupons as u64 ;
assert ( c <= 0xffff_ffff ==> ( c << 5 ) == c * 32 && ( c << 3 ) == c * 8 ) by ( bit_vector ) ;
let w = self . window_offset as u64 ;
assert ( w <= 56 ==> ( w << 3 ) == w * 8 ) by ( bit_vector ) ;
}
debug_assert! ( c32pre >= 3 * k ) ;
let c8pre = ( self . num_coupons as u64 ) << 3 ;
let w8pre = ( self . window_offset as u64 ) << 3 ;
proof {
assert ( ( 27 + w8pre ) * k <= 475 * 0x400_0000 ) by ( nonlinear_arith ) requires w8pre <= 448 , k <= 0x400_0000 ;
assert ( ( 27 + w8pre ) * k == ( 27 + 8 * ( self . window_offset as int ) ) * self . k ( ) ) by ( nonlinear_arith ) requires w8pre == 8 * ( self . window_offset as int ) , k == self . k ( ) ;
}
debug_assert! ( c8pre < ( 27 + w8pre ) * k ) ;
let mut is_novel = false ;
let col = ( row_col & 63 ) as u8 ;
let ghost row_g = ( row_col >> 6 ) as int ;
let ghost col_g = ( row_col & 63 ) as int ;
proof {
lemma_rc ( row_col ) ;
lemma_rowcol26 ( row_col , self . lg_k ) ;
assert forall | x : u32 | # [ trigger ] self . surprising_value_table -> 0 . items ( ) . contains ( x ) implies ( x >> 6 ) < self . k ( ) by {
assert ( self . tbl ( ) . contains ( x ) ) ;
}
lemma_items_bound ( self . surprising_value_table -> 0 , self . k ( ) ) ;
}
if col < self . window_offset {
is_novel = self . mut_surprising_value_table ( ) . maybe_delete ( row_col ) ;
}
else if col < self . window_offset + 8 {
let row = ( row_col >> 6 ) as usize ;
let old_bits = self . sliding_window [ row ] ;
let new_bits = old_bits | ( 1 << ( col - self . window_offset ) ) ;
if old_bits != new_bits {
self . sliding_window [ row ] = new_bits ;
is_novel = true ;
}
proof {
let sh = ( col - self . window_offset ) as u8 ;
let g_ob = old ( self ) . sliding_window @ [ row_g ] ;
let g_nb = g_ob | ( 1u8 << sh ) ;
assert forall | b : int | 0 <= b < 8 implies bit8 ( g_nb , b ) == ( bit8 ( g_ob , b ) || b == sh ) by {
lemma_or_bit8 ( g_ob , sh , b ) ;
}
assert ( sh < 8 ==> ( ( g_ob | ( 1u8 << sh ) ) != g_ob <==> ! ( ( g_ob >> sh ) & 1 == 1 ) ) ) by ( bit_vector ) ;
assert ( self . tbl ( ) == old ( self ) . tbl ( ) ) ;
}
}
else {
is_novel = self . mut_surprising_value_table ( ) . maybe_insert ( row_col ) ;
}
proof {
assert forall | r : int , c : int | 0 <= r < old ( self ) . k ( ) && 0 <= c < 64 implies /*@C05.update_windowed.onebit*/ self . mbit ( r , c ) == ( old ( self ) . mbit ( r , c ) || ( r == row_g && c == col_g ) ) by {
lemma_rc_inj ( r , c , row_g , col_g ) ;
}
assert ( /*@C05.update_windowed.count*/ is_novel == ! old ( self ) . mbit ( row_g , col_g ) ) ;
assert forall | x : u32 | # [ trigger ] self . tbl ( ) . contains ( x ) implies ( x >> 6 ) < self . k ( ) && ! ( self . window_offset <= ( x & 63 ) < self . window_offset + 8 ) by {
if x != row_col {
assert ( old ( self ) . tbl ( ) . contains ( x ) ) ;
}
}
}
let ghost mid = * self ;
if is_novel {
self . num_coupons += 1 ;
self . update_hip ( row_col ) ;
let c8post = ( self . num_coupons as u64 ) << 3 ;
proof {
let c = self . num_coupons as u64 ;
assert ( c <= 0xffff_ffff ==> ( c << 3 ) == c * 8 ) by ( bit_vector ) ;
lemma_window_bound ( self . num_coupons as int , self . window_offset as int , self . k ( ) ) ;
assert ( self . tbl ( ) == mid . tbl ( ) ) ;
}
if c8post >= ( 27 + w8pre ) * k {
proof {
lemma_offset_lt_56 ( self . num_coupons as int , self . window_offset as int , self . k ( ) ) ;
}
self . move_window ( ) ;
debug_assert! ( ( 1 ..= 56 ) . contains ( & self . window_offset ) ) ;
let w8post = ( self . window_offset as u64 ) << 3 ;
proof {
let w = self . window_offset as u64 ;
assert ( w <= 56 ==> ( w << 3 ) == w * 8 ) by ( bit_vector ) ;
assert ( ( 27 + w8post ) * k <= 475 * 0x400_0000 ) by ( nonlinear_arith ) requires w8post <= 448 , k <= 0x400_0000 ;
assert ( ( 27 + w8post ) * k == ( 27 + 8 * ( self . window_offset as int ) ) * self . k ( ) ) by ( nonlinear_arith ) requires w8post == 8 * ( self . window_offset as int ) , k == self . k ( ) ;
}
debug_assert! ( c8post < ( ( 27 + w8post ) * k ) ) ;
}
}
proof {
assert forall | r : int , c : int | 0 <= r < old ( self ) . k ( ) && 0 <= c < 64 implies /*@C05.update_windowed.onebit*/ self . mbit ( r , c ) == ( old ( self ) . mbit ( r , c ) || ( r == row_g && c == col_g ) ) by {
assert ( self . mbit ( r , c ) == mid . mbit ( r , c ) ) ;
}
}
}

}

// ---------- lemmas ----------
// window_offset is the function of (lg_k, C) that determine_correct_offset computes
proof fn lemma_offset_is_dco(s: CpcSketch)
  requires 4 <= s.lg_k <= 26, s.window_offset <= 56, s.thresholds()
  ensures s.window_offset == dco(s.lg_k, s.num_coupons)
{
    let k = s.k(); let c = s.num_coupons as int; let off = s.window_offset as int;
    lemma_k_bound(s.lg_k);
    if off > 0 { lemma_dco(s.lg_k, s.num_coupons, off); }
    else if 8 * c >= 19 * k {
        assert((27 + 8 * off) * k == 27 * k) by (nonlinear_arith) requires off == 0;
        assert((8 * c - 19 * k) / (8 * k) == 0) by (nonlinear_arith) requires 0 <= 8 * c - 19 * k < 8 * k, k > 0;
    }
}
// the sparse -> windowed transition happens exactly at C == 3K/32 (K >= 32), or at C == 2 for K == 16
proof fn lemma_promote_threshold(lg_k: u8, c: int)
  requires 4 <= lg_k <= 26, 32 * (c - 1) < 3 * pow2(lg_k as nat), 32 * c >= 3 * pow2(lg_k as nat)
  ensures 32 * c == 3 * pow2(lg_k as nat) || (lg_k == 4 && 32 * c > 3 * pow2(lg_k as nat)), 8 * c < 27 * pow2(lg_k as nat), c < 0x100_0000
{
    lemma2_to64(); lemma_k_bound(lg_k);
    if lg_k >= 5 {
        lemma_pow2_adds(5, (lg_k - 5) as nat);
        let m = pow2((lg_k - 5) as nat) as int;
        assert(pow2(lg_k as nat) == 32 * m);
        // 32(c-1) < 96 m <= 32 c  ==>  c == 3m
        assert(c == 3 * m) by (nonlinear_arith) requires 32 * (c - 1) < 96 * m, 32 * c >= 96 * m;
    }
}
// a table whose items all have a row below k holds at most 64 k items
proof fn lemma_count_bound(ss: Seq<u32>, n: int)
  requires pdistinct(ss), 0 <= n <= 0xffff_ffff, forall|i: int| 0 <= i < ss.len() && ss[i] != EMPTY ==> (#[trigger] ss[i] as int) < n
  ensures pocc(ss).len() <= n
  decreases n
{
    if n == 0 { assert(pocc(ss) =~= Set::<int>::empty()); }
    else {
        let v = (n - 1) as u32;
        if exists|j: int| 0 <= j < ss.len() && ss[j] == v {
            let j = choose|j: int| 0 <= j < ss.len() && ss[j] == v;
            let s2 = ss.update(j, EMPTY);
            assert forall|a: int, b: int| 0 <= a < s2.len() && 0 <= b < s2.len() && a != b && s2[a] != EMPTY implies s2[a] != s2[b] by {
                assert(ss[a] == s2[a]);
                if b != j { assert(ss[b] == s2[b]); }
            }
            assert forall|i: int| 0 <= i < s2.len() && s2[i] != EMPTY implies (#[trigger] s2[i] as int) < n - 1 by {
                assert(i != j); assert(s2[i] == ss[i]);
                if ss[i] == v { assert(ss[j] != ss[i]); }
            }
            lemma_count_bound(s2, n - 1);
            assert(pocc(s2) =~= pocc(ss).remove(j));
            assert(pocc(ss).contains(j));
        } else {
            assert forall|i: int| 0 <= i < ss.len() && ss[i] != EMPTY implies (#[trigger] ss[i] as int) < n - 1 by { }
            lemma_count_bound(ss, n - 1);
        }
    }
}
proof fn lemma_items_bound(t: PairTable, k: int)
  requires t.wf(), 1 <= k <= 0x4_0000, forall|x: u32| #[trigger] t.items().contains(x) ==> (x >> 6) < k
  ensures t.num_items <= 64 * k, t.room()
{
    let ss = t.slots@;
    assert forall|i: int| 0 <= i < ss.len() && ss[i] != EMPTY implies (#[trigger] ss[i] as int) < 64 * k by {
        assert(pholds(ss, ss[i]));
        assert(t.items().contains(ss[i]));
        let x = ss[i]; let kk = k as u32;
        assert((x >> 6) < kk && kk <= 0x4_0000 ==> x < 64 * kk) by (bit_vector);
    }
    lemma_count_bound(ss, 64 * k);
}
proof fn lemma_offset_lt_56(c: int, off: int, k: int)
  requires k >= 16, 0 <= off <= 56, 8 * c >= (27 + 8 * off) * k, 8 * c < (27 + 8 * 56) * k
  ensures off < 56
{
    if off == 56 { }
}
proof fn lemma_window_bound(c: int, off: int, k: int)
  requires k >= 16, 0 <= off <= 56, 8 * (c - 1) < (27 + 8 * off) * k
  ensures 8 * c < (27 + 8 * (off + 1)) * k
{
    assert((27 + 8 * (off + 1)) * k == (27 + 8 * off) * k + 8 * k) by (nonlinear_arith);
}
proof fn lemma_shl_i64(l: u8) requires l <= 29 ensures (1i64 << l) == pow2(l as nat), 1 <= pow2(l as nat) <= 0x2000_0000 {
    lemma2_to64(); if l < 29 { lemma_pow2_strictly_increases(l as nat, 29); } lemma_pow2_pos(l as nat);
    let u = l as u64;
    vstd::bits::lemma_u64_shl_is_mul(1, u);
    assert(u <= 29 ==> (1u64 << u) < 0x4000_0000u64) by (bit_vector);
    assert(l <= 29 ==> (1i64 << l) == ((1u64 << (l as u64)) as i64)) by (bit_vector);
}
proof fn lemma_shr_i64(t: i64, s: u8) requires 0 <= t, s <= 29 ensures (t >> s) == (t as int) / (pow2(s as nat) as int) {
    let u = t as u64; let su = s as u64;
    vstd::bits::lemma_u64_shr_is_div(u, su);
    assert(t >= 0 && s <= 29 ==> (t >> s) == ((t as u64) >> (s as u64)) as i64) by (bit_vector);
}
// the following lemmas are from contracts/cpc_core.rs (lemma_rc extended with the % / forms)
proof fn lemma_k_bound(l: u8) requires 4 <= l <= 26 ensures 16 <= pow2(l as nat) <= 0x400_0000 {
    lemma2_to64(); if l < 26 { lemma_pow2_strictly_increases(l as nat, 26); } if l > 4 { lemma_pow2_strictly_increases(4, l as nat); }
}
proof fn lemma_rc(x: u32)
  ensures rc((x >> 6) as int, (x & 63) as int) == x, (x & 63) < 64, (x & 63) == x % 64, (x >> 6) == x / 64
{
    assert((((x >> 6) << 6) | (x & 63)) == x) by (bit_vector);
    assert((x & 63) < 64) by (bit_vector);
    assert((x & 63) == x % 64 && (x >> 6) == x / 64) by (bit_vector);
}
proof fn lemma_rc_inj(r: int, c: int, r2: int, c2: int)
  requires 0 <= r < 0x400_0000, 0 <= c < 64, 0 <= r2 < 0x400_0000, 0 <= c2 < 64
  ensures (rc(r, c) == rc(r2, c2)) <==> (r == r2 && c == c2), rc(r, c) >> 6 == r, rc(r, c) & 63 == c
{
    let a = r as u32; let b = c as u32; let a2 = r2 as u32; let b2 = c2 as u32;
    assert(a < 0x400_0000 && b < 64 && a2 < 0x400_0000 && b2 < 64 ==> ((((a << 6) | b) == ((a2 << 6) | b2)) <==> (a == a2 && b == b2))) by (bit_vector);
    assert(a < 0x400_0000 && b < 64 ==> (((a << 6) | b) >> 6) == a && (((a << 6) | b) & 63) == b) by (bit_vector);
}
proof fn lemma_dco(lg_k: u8, c: u32, no: int)
  requires 4 <= lg_k <= 26, 1 <= no <= 56, 8 * (c as int) >= (27 + 8 * (no - 1)) * pow2(lg_k as nat), 8 * (c as int) < (27 + 8 * no) * pow2(lg_k as nat)
  ensures dco(lg_k, c) == no
{
    let k = pow2(lg_k as nat) as int; lemma_pow2_pos(lg_k as nat);
    let t = 8 * (c as int) - 19 * k;
    assert((27 + 8 * (no - 1)) * k == 19 * k + no * (8 * k)) by (nonlinear_arith);
    assert((27 + 8 * no) * k == 19 * k + (no + 1) * (8 * k)) by (nonlinear_arith);
    assert(t / (8 * k) == no) by (nonlinear_arith) requires no * (8 * k) <= t, t < (no + 1) * (8 * k), k > 0;
}
proof fn lemma_or_bit8(w: u8, col: u8, c: int)
  requires col < 8, 0 <= c < 8
  ensures bit8(w | (1u8 << col), c) == (bit8(w, c) || c == col)
{
    let cc = c as u8;
    assert(col < 8 && cc < 8 ==> ((((w | (1u8 << col)) >> cc) & 1 == 1) == (((w >> cc) & 1 == 1) || cc == col))) by (bit_vector);
}
proof fn lemma_shl64(l: u8) requires l <= 26 ensures (1u64 << l) == pow2(l as nat) {
    lemma2_to64(); if l < 26 { lemma_pow2_strictly_increases(l as nat, 26); }
    vstd::bits::lemma_u64_shl_is_mul(1, l as u64);
    assert((1u64 << (l as u64)) == (1u64 << l));
}
proof fn lemma_rowcol26(x: u32, lg_k: u8)
  requires 4 <= lg_k <= 26, (x >> 6) < pow2(lg_k as nat), x != EMPTY
  ensures (x as int) < pow2((6 + lg_k) as nat)
{
    lemma2_to64(); lemma_pow2_adds(6, lg_k as nat);
    lemma_k_bound(lg_k);
    let kk = pow2(lg_k as nat) as u32;
    assert((x >> 6) < kk && kk <= 0x400_0000 ==> (x as u64) < 64 * (kk as u64)) by (bit_vector);
}
}
fn main(){}
