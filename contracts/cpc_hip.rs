use vstd::prelude::*;
use vstd::std_specs::ops::*;
use vstd::std_specs::cmp::*;
verus! {
global size_of usize == 8;

// floats: operations are uninterpreted but DETERMINISTIC functions of their operands (same prelude as td_int / hll_estimator)
#[verifier::external_body] pub proof fn axiom_float_total()
  ensures forall|a: f64, b: f64| #[trigger] AddSpec::add_req(a, b), forall|a: f64, b: f64| #[trigger] SubSpec::sub_req(a, b),
          forall|a: f64, b: f64| #[trigger] MulSpec::mul_req(a, b), forall|a: f64, b: f64| #[trigger] DivSpec::div_req(a, b) {}
#[verifier::external_body] pub proof fn axiom_float_total_at(a: f64, b: f64)
  ensures AddSpec::add_req(a, b), SubSpec::sub_req(a, b), MulSpec::mul_req(a, b), DivSpec::div_req(a, b),
          AddSpec::add_req(b, a), SubSpec::sub_req(b, a), MulSpec::mul_req(b, a), DivSpec::div_req(b, a) {}
#[verifier::external_body] proof fn axiom_f64_ops_deterministic()
  ensures <f64 as AddSpec>::obeys_add_spec(), <f64 as SubSpec>::obeys_sub_spec(), <f64 as MulSpec>::obeys_mul_spec(), <f64 as DivSpec>::obeys_div_spec() {}
spec fn fadd(a: f64, b: f64) -> f64 { a.add_spec(b) }
spec fn fsub(a: f64, b: f64) -> f64 { a.sub_spec(b) }
spec fn fdiv(a: f64, b: f64) -> f64 { a.div_spec(b) }
pub uninterp spec fn i32_to_f64(n: i32) -> f64;
#[verifier::external_body] fn vx_i32_as_f64(n: i32) -> (r: f64) ensures r == i32_to_f64(n) { n as f64 }
// entry i of common::inv_pow2_table::INVERSE_POWERS_OF_2 (a static [f64; 256], not part of this unit): the shim stands for the indexing
// expression `INVERSE_POWERS_OF_2[i]`; its index bound is the precondition, its value an uninterpreted function of the index
pub uninterp spec fn ip2(i: int) -> f64;
#[verifier::external_body] fn vx_inverse_power_of_2(i: usize) -> (r: f64) requires i < 256 ensures r == ip2(i as int) { unimplemented!() }

struct PairTable {
lg_size : u8 , num_valid_bits : u8 , num_items : u32 , slots : Vec < u32 > , }

struct CpcSketch {
lg_k : u8 , seed : u64 , seed_hash : u16 , first_interesting_column : u8 , num_coupons : u32 , surprising_value_table : Option < PairTable > , window_offset : u8 , sliding_window : Vec < u8 > , merge_flag : bool , kxp : f64 , hip_est_accum : f64 , }

impl CpcSketch {
    // one step of the HIP recurrence: the accumulator grows by 1/p = k / kxp computed from kxp BEFORE the coupon's probability
    // mass 2^-(col+1) leaves it; nothing else changes
    fn update_hip(&mut self, row_col: u32)
      requires old(self).lg_k < 31,
      ensures
        /*@C01.cpc.hip_increment_from_old_kxp,C05.update_hip.accum*/ final(self).hip_est_accum == fadd(old(self).hip_est_accum, fdiv(i32_to_f64(1i32 << old(self).lg_k), old(self).kxp)),
        /*@C01.cpc.hip_kxp_step,C05.update_hip.kxp*/ final(self).kxp == fsub(old(self).kxp, ip2((row_col & 63) as int + 1)),
        /*@C05.update_hip.frame*/ final(self).lg_k == old(self).lg_k, final(self).seed == old(self).seed, final(self).seed_hash == old(self).seed_hash,
        final(self).first_interesting_column == old(self).first_interesting_column, final(self).num_coupons == old(self).num_coupons,
        final(self).window_offset == old(self).window_offset, final(self).sliding_window == old(self).sliding_window,
        final(self).merge_flag == old(self).merge_flag, final(self).surprising_value_table == old(self).surprising_value_table,
    {
        proof { axiom_float_total(); axiom_f64_ops_deterministic(); }
        let k = 1 << self.lg_k;
        let col = (row_col & 63) as usize;
        assert((row_col & 63) < 64) by (bit_vector);
        proof { axiom_float_total_at(i32_to_f64(k), self.kxp); }
        let one_over_p = vx_i32_as_f64(k) / self.kxp;
        proof { axiom_float_total_at(self.hip_est_accum, one_over_p); axiom_float_total_at(self.kxp, ip2(col as int + 1)); }
        self.hip_est_accum = self.hip_est_accum + one_over_p;
        self.kxp = self.kxp - vx_inverse_power_of_2(col + 1) // notice the "+1"
    }
}
}
fn main() {}
