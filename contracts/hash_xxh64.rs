use vstd::prelude::*;
verus! {
global size_of usize == 8;

// ================= assumptions about std =================
// u64::rotate_left: the usual definition for the rotation amounts the code uses (constants 1..63)
pub assume_specification[ u64::rotate_left ](x: u64, n: u32) -> (r: u64)
    ensures 0 < n < 64 ==> r == rotl64(x, n);
#[verifier::opaque]
pub open spec fn rotl64(x: u64, n: u32) -> u64 { (x << n) | (x >> ((64 - n) as u32)) }

// slice::chunks_exact / ChunksExact::next / ChunksExact::remainder (R10): the iterator is modelled by the not yet
// consumed suffix of the slice (ce_rest) and the chunk size (ce_size)
#[verifier::external_type_specification]
#[verifier::external_body]
#[verifier::reject_recursive_types(T)]
pub struct ExChunksExact<'a, T: 'a>(core::slice::ChunksExact<'a, T>);
pub uninterp spec fn ce_rest<'a, T>(c: core::slice::ChunksExact<'a, T>) -> Seq<T>;
pub uninterp spec fn ce_size<'a, T>(c: core::slice::ChunksExact<'a, T>) -> nat;
pub assume_specification<'a, T> [ <[T]>::chunks_exact ] (s: &'a [T], n: usize) -> (r: core::slice::ChunksExact<'a, T>)
  requires n > 0
  ensures ce_rest(r) == s@, ce_size(r) == n;
pub assume_specification<'a, T> [ <core::slice::ChunksExact<'a, T> as Iterator>::next ] (c: &mut core::slice::ChunksExact<'a, T>) -> (r: Option<&'a [T]>)
  ensures
    ce_size(*final(c)) == ce_size(*old(c)),
    ce_rest(*old(c)).len() >= ce_size(*old(c)) ==> (r matches Some(ch) && ch@ == ce_rest(*old(c)).take(ce_size(*old(c)) as int) && ce_rest(*final(c)) == ce_rest(*old(c)).skip(ce_size(*old(c)) as int)),
    ce_rest(*old(c)).len() < ce_size(*old(c)) ==> (r is None && ce_rest(*final(c)) == ce_rest(*old(c)));
// (only the case the code needs: once fewer than `size` elements are left, they are the remainder)
pub assume_specification<'a, T> [ core::slice::ChunksExact::<'a, T>::remainder ] (c: &core::slice::ChunksExact<'a, T>) -> (r: &'a [T])
  ensures ce_rest(*c).len() < ce_size(*c) ==> r@ == ce_rest(*c);

// ================= leaf (assumed here; discharged by the Kani harness leaf_read_u64_le) =================
// little-endian value of at most 8 bytes, zero padded
#[verifier::opaque]
spec fn le64(b: Seq<u8>) -> u64
  decreases b.len()
{
    if b.len() == 0 { 0 } else { (b[0] as u64) | (le64(b.skip(1)) << 8) }
}

#[verifier::external_body]
fn read_u64_le(bytes: &[u8]) -> (r: u64)
  requires bytes.len() <= 8
  ensures r == le64(bytes@)
{
    let mut buf = [0u8; 8];
    buf[..bytes.len()].copy_from_slice(bytes);
    u64::from_le_bytes(buf)
}

// ================= reference specification: XXH64 (Collet, xxhash.h / xxhash_spec.md) =================
const P1 : u64 = 0x9E3779B185EBCA87 ;

const P2 : u64 = 0xC2B2AE3D27D4EB4F ;

const P3 : u64 = 0x165667B19E3779F9 ;

const P4 : u64 = 0x85EBCA77C2B2AE63 ;

const P5 : u64 = 0x27D4EB2F165667C5 ;


spec fn wmul(a: u64, b: u64) -> u64 { a.wrapping_mul(b) }
spec fn wadd(a: u64, b: u64) -> u64 { a.wrapping_add(b) }
spec fn wsub(a: u64, b: u64) -> u64 { a.wrapping_sub(b) }

// XXH64_round
#[verifier::opaque]
spec fn round_spec(acc: u64, input: u64) -> u64 { wmul(rotl64(wadd(acc, wmul(input, P2)), 31), P1) }
// XXH64_mergeRound
#[verifier::opaque]
spec fn merge_round_spec(acc: u64, val: u64) -> u64 { wadd(wmul(acc ^ wmul(rotl64(wmul(val, P2), 31), P1), P1), P4) }
// XXH64_avalanche
#[verifier::opaque]
spec fn finalize_spec(h: u64) -> u64 {
    let h = h ^ (h >> 33);
    let h = wmul(h, P2);
    let h = h ^ (h >> 29);
    let h = wmul(h, P3);
    h ^ (h >> 32)
}
spec fn init_lanes(seed: u64) -> (u64, u64, u64, u64) { (wadd(wadd(seed, P1), P2), wadd(seed, P2), seed, wsub(seed, P1)) }
spec fn stripe_step(v: (u64, u64, u64, u64), s: Seq<u8>) -> (u64, u64, u64, u64) {
    (round_spec(v.0, le64(s.subrange(0, 8))), round_spec(v.1, le64(s.subrange(8, 16))), round_spec(v.2, le64(s.subrange(16, 24))), round_spec(v.3, le64(s.subrange(24, 32))))
}
// lanes after absorbing n 32-byte stripes of s, starting from v
spec fn stripes_from(v: (u64, u64, u64, u64), s: Seq<u8>, n: nat) -> (u64, u64, u64, u64)
  decreases n
{
    if n == 0 { v } else { stripe_step(stripes_from(v, s, (n - 1) as nat), s.subrange(32 * (n - 1), 32 * n as int)) }
}
// convergence of the four lanes
#[verifier::opaque]
spec fn converge(v: (u64, u64, u64, u64)) -> u64 {
    let acc = wadd(wadd(wadd(rotl64(v.0, 1), rotl64(v.1, 7)), rotl64(v.2, 12)), rotl64(v.3, 18));
    let acc = merge_round_spec(acc, v.0);
    let acc = merge_round_spec(acc, v.1);
    let acc = merge_round_spec(acc, v.2);
    merge_round_spec(acc, v.3)
}
#[verifier::opaque]
spec fn step8(h: u64, k: u64) -> u64 { wadd(wmul(rotl64(h ^ wmul(rotl64(wmul(k, P2), 31), P1), 27), P1), P4) }
#[verifier::opaque]
spec fn step4(h: u64, k: u64) -> u64 { wadd(wmul(rotl64(h ^ wmul(k, P1), 23), P2), P3) }
#[verifier::opaque]
spec fn step1(h: u64, b: u8) -> u64 { wmul(rotl64(h ^ wmul(b as u64, P5), 11), P1) }
// XXH64_finalize without the avalanche: consume the remaining (< 32) bytes, 8 at a time, then 4, then 1 at a time
spec fn xxh_tail(h: u64, t: Seq<u8>) -> u64
  decreases t.len()
{
    if t.len() >= 8 { xxh_tail(step8(h, le64(t.subrange(0, 8))), t.skip(8)) }
    else if t.len() >= 4 { xxh_tail(step4(h, le64(t.subrange(0, 4))), t.skip(4)) }
    else if t.len() >= 1 { xxh_tail(step1(h, t[0]), t.skip(1)) }
    else { h }
}
// the one-shot digest of the byte string d under `seed`
spec fn xxh64(seed: u64, d: Seq<u8>) -> u64 {
    let n = (d.len() / 32) as nat;
    let acc = if d.len() >= 32 { converge(stripes_from(init_lanes(seed), d, n)) } else { wadd(seed, P5) };
    finalize_spec(xxh_tail(wadd(acc, d.len() as u64), d.subrange(32 * n as int, d.len() as int)))
}

// ================= known-answer vectors: tie the spec to the published algorithm =================
// the sanity-check buffer of xxhsum (byte i = top byte of PRIME32 * PRIME64^i), lengths/seeds of the repo's tests
proof fn kat_xxh64()
{
    assert(xxh64(0x0, Seq::<u8>::empty()) == 0xEF46DB3751D8E999u64) by (compute);
    assert(xxh64(0x0, seq![0x00u8]) == 0xE934A84ADB052768u64) by (compute);
    assert(xxh64(0x0, seq![0x00u8, 0x52, 0x92, 0x9b, 0xb7, 0x32, 0xa3, 0x24, 0x2d, 0x00, 0xaf, 0x95, 0x0e, 0xec]) == 0x8282DCC4994E35C8u64) by (compute);
    assert(xxh64(0x0, seq![0x00u8, 0x52, 0x92, 0x9b, 0xb7, 0x32, 0xa3, 0x24, 0x2d, 0x00, 0xaf, 0x95, 0x0e, 0xec, 0xb8, 0x93, 0xe3, 0xdf, 0xef, 0x93, 0xaa, 0xd6, 0xcd, 0x2a, 0x53, 0x8b, 0x5c, 0x3f, 0x54, 0x5a, 0x6f, 0xd5]) == 0x18B216492BB44B70u64) by (compute);
    assert(xxh64(0x0, seq![0x00u8, 0x52, 0x92, 0x9b, 0xb7, 0x32, 0xa3, 0x24, 0x2d, 0x00, 0xaf, 0x95, 0x0e, 0xec, 0xb8, 0x93, 0xe3, 0xdf, 0xef, 0x93, 0xaa, 0xd6, 0xcd, 0x2a, 0x53, 0x8b, 0x5c, 0x3f, 0x54, 0x5a, 0x6f, 0xd5, 0x59]) == 0x55C8DC3E578F5B59u64) by (compute);
    assert(xxh64(0x0, seq![0x00u8, 0x52, 0x92, 0x9b, 0xb7, 0x32, 0xa3, 0x24, 0x2d, 0x00, 0xaf, 0x95, 0x0e, 0xec, 0xb8, 0x93, 0xe3, 0xdf, 0xef, 0x93, 0xaa, 0xd6, 0xcd, 0x2a, 0x53, 0x8b, 0x5c, 0x3f, 0x54, 0x5a, 0x6f, 0xd5, 0x59, 0xc0, 0xff, 0xfc, 0x8f, 0x85, 0xb9, 0x33, 0x1d, 0xab, 0x74, 0xf7, 0xb6, 0x05, 0x93, 0x27, 0xb0, 0x70, 0x84, 0xb3, 0x67, 0x7c, 0x9f, 0x76, 0x48, 0x00, 0x72, 0xed, 0x7b, 0x98, 0x17, 0xe8, 0xdd, 0x48, 0x5e, 0x0c, 0x0c, 0xcb, 0xd0, 0x65, 0x3f, 0xad, 0xb2, 0x8f, 0x11, 0xb0, 0x6c, 0xe8, 0x8d, 0xb0, 0xf1, 0x86, 0x08, 0x61, 0x59, 0x56, 0x6c, 0x8e, 0x4e, 0x78, 0x13, 0x63, 0xbd, 0xab, 0x9d, 0x32, 0x73, 0x09]) == 0x4BFE019CD91D9EA4u64) by (compute);
    assert(xxh64(0x9e3779b1, Seq::<u8>::empty()) == 0xAC75FDA2929B17EFu64) by (compute);
    assert(xxh64(0x9e3779b1, seq![0x00u8]) == 0x5014607643A9B4C3u64) by (compute);
    assert(xxh64(0x9e3779b1, seq![0x00u8, 0x52, 0x92, 0x9b, 0xb7, 0x32, 0xa3, 0x24, 0x2d, 0x00, 0xaf, 0x95, 0x0e, 0xec, 0xb8, 0x93, 0xe3, 0xdf, 0xef, 0x93, 0xaa, 0xd6, 0xcd, 0x2a, 0x53, 0x8b, 0x5c, 0x3f, 0x54, 0x5a, 0x6f, 0xd5]) == 0xB3F33BDF93ADE409u64) by (compute);
    assert(xxh64(0x9e3779b1, seq![0x00u8, 0x52, 0x92, 0x9b, 0xb7, 0x32, 0xa3, 0x24, 0x2d, 0x00, 0xaf, 0x95, 0x0e, 0xec, 0xb8, 0x93, 0xe3, 0xdf, 0xef, 0x93, 0xaa, 0xd6, 0xcd, 0x2a, 0x53, 0x8b, 0x5c, 0x3f, 0x54, 0x5a, 0x6f, 0xd5, 0x59, 0xc0, 0xff, 0xfc, 0x8f, 0x85, 0xb9, 0x33, 0x1d, 0xab, 0x74, 0xf7, 0xb6, 0x05, 0x93, 0x27, 0xb0, 0x70, 0x84, 0xb3, 0x67, 0x7c, 0x9f, 0x76, 0x48, 0x00, 0x72, 0xed, 0x7b, 0x98, 0x17, 0xe8, 0xdd, 0x48, 0x5e, 0x0c, 0x0c, 0xcb, 0xd0, 0x65, 0x3f, 0xad, 0xb2, 0x8f, 0x11, 0xb0, 0x6c, 0xe8, 0x8d, 0xb0, 0xf1, 0x86, 0x08, 0x61, 0x59, 0x56, 0x6c, 0x8e, 0x4e, 0x78, 0x13, 0x63, 0xbd, 0xab, 0x9d, 0x32, 0x73, 0x09]) == 0x4853706DC9625CAEu64) by (compute);
}

// ================= linking lemmas =================
proof fn lemma_prefix(v: (u64,u64,u64,u64), d1: Seq<u8>, d2: Seq<u8>, n: nat)
  requires 32 * n <= d1.len(), d1.len() <= d2.len(), d2.subrange(0, d1.len() as int) =~= d1
  ensures stripes_from(v, d1, n) == stripes_from(v, d2, n)
  decreases n
{
    if n > 0 {
        lemma_prefix(v, d1, d2, (n - 1) as nat);
        assert(d1.subrange(32 * (n - 1), 32 * n as int) =~= d2.subrange(32 * (n - 1), 32 * n as int));
    }
}
proof fn lemma_split(v: (u64,u64,u64,u64), s: Seq<u8>, a: nat, b: nat)
  requires 32 * (a + b) <= s.len()
  ensures stripes_from(v, s, a + b) == stripes_from(stripes_from(v, s, a), s.skip(32 * a as int), b)
  decreases b
{
    if b > 0 {
        lemma_split(v, s, a, (b - 1) as nat);
        let t = s.skip(32 * a as int);
        assert(s.subrange(32 * (a + b - 1), 32 * (a + b) as int) =~= t.subrange(32 * (b - 1), 32 * b as int));
        assert((a + b - 1) as nat == a + ((b - 1) as nat));
    }
}
proof fn lemma_after(pre: XxHash64, post: XxHash64, all: Seq<u8>, d: Seq<u8>)
  requires pre.represents(d), d.len() + all.len() < 0x1_0000_0000_0000_0000,
    post.seed == pre.seed, post.lanes() == pre.lanes(), post.total_len == pre.total_len.wrapping_add(all.len() as u64),
    post.buffer_len == pre.buffer_len + all.len(), post.buffer_len < 32,
    post.buffer@.subrange(0, post.buffer_len as int) =~= pre.buffer@.subrange(0, pre.buffer_len as int) + all,
  ensures post.represents(d + all)
{
    reveal(XxHash64::represents);
    let dd = d + all;
    let n = ((d.len() - pre.buffer_len) / 32) as nat;
    lemma_prefix(init_lanes(pre.seed), d, dd, n);
    assert(post.buffer@.subrange(0, post.buffer_len as int) =~= dd.subrange(dd.len() - post.buffer_len, dd.len() as int));
}
proof fn lemma_after2(pre: XxHash64, post: XxHash64, all: Seq<u8>, d: Seq<u8>, m: nat)
  requires pre.represents(d), d.len() + all.len() < 0x1_0000_0000_0000_0000,
    post.seed == pre.seed, post.total_len == pre.total_len.wrapping_add(all.len() as u64), post.buffer_len < 32,
    pre.buffer_len + all.len() == 32 * m + post.buffer_len,
    post.lanes() == stripes_from(pre.lanes(), pre.buffer@.subrange(0, pre.buffer_len as int) + all, m),
    post.buffer@.subrange(0, post.buffer_len as int) =~= (pre.buffer@.subrange(0, pre.buffer_len as int) + all).skip(32 * m as int),
  ensures post.represents(d + all)
{
    reveal(XxHash64::represents);
    let dd = d + all;
    let st = pre.buffer@.subrange(0, pre.buffer_len as int) + all;
    let n0 = ((d.len() - pre.buffer_len) / 32) as nat;
    assert(dd.skip(32 * n0 as int) =~= st);
    lemma_prefix(init_lanes(pre.seed), d, dd, n0);
    lemma_split(init_lanes(pre.seed), dd, n0, m);
    assert(((dd.len() - post.buffer_len) / 32) as nat == n0 + m);
    assert(post.buffer@.subrange(0, post.buffer_len as int) =~= dd.subrange(dd.len() - post.buffer_len, dd.len() as int));
}
// the digest of a represented string, in terms of the hasher's fields
spec fn acc_of(st: XxHash64) -> u64 { if st.total_len >= 32 { converge(st.lanes()) } else { wadd(st.seed, P5) } }
proof fn lemma_xx_digest(st: XxHash64, d: Seq<u8>)
  requires st.represents(d)
  ensures xxh64(st.seed, d) == finalize_spec(xxh_tail(wadd(acc_of(st), st.total_len), st.buffer@.subrange(0, st.buffer_len as int)))
{
    reveal(XxHash64::represents);
    let n = (d.len() / 32) as nat;
    assert(n == ((d.len() - st.buffer_len) / 32) as nat);
    assert(32 * n == d.len() - st.buffer_len);
    assert(d.subrange(32 * n as int, d.len() as int) =~= st.buffer@.subrange(0, st.buffer_len as int));
}
proof fn lemma_tail8(h: u64, t: Seq<u8>, idx: int)
  requires 0 <= idx, idx + 8 <= t.len()
  ensures xxh_tail(h, t.skip(idx)) == xxh_tail(step8(h, le64(t.subrange(idx, idx + 8))), t.skip(idx + 8))
{
    let u = t.skip(idx);
    assert(u.subrange(0, 8) =~= t.subrange(idx, idx + 8));
    assert(u.skip(8) =~= t.skip(idx + 8));
}
proof fn lemma_tail4(h: u64, t: Seq<u8>, idx: int)
  requires 0 <= idx, idx + 4 <= t.len(), t.len() < idx + 8
  ensures xxh_tail(h, t.skip(idx)) == xxh_tail(step4(h, le64(t.subrange(idx, idx + 4))), t.skip(idx + 4))
{
    let u = t.skip(idx);
    assert(u.subrange(0, 4) =~= t.subrange(idx, idx + 4));
    assert(u.skip(4) =~= t.skip(idx + 4));
}
proof fn lemma_tail1(h: u64, t: Seq<u8>, idx: int)
  requires 0 <= idx, idx < t.len(), t.len() < idx + 4
  ensures xxh_tail(h, t.skip(idx)) == xxh_tail(step1(h, t[idx]), t.skip(idx + 1))
{
    let u = t.skip(idx);
    assert(u.skip(1) =~= t.skip(idx + 1));
}

// ================= hash/xxhash.rs (real code + overlay) =================
struct XxHash64 {
seed : u64 , total_len : u64 , v1 : u64 , v2 : u64 , v3 : u64 , v4 : u64 , buffer : [ u8 ;
32 ] , buffer_len : usize , }


impl XxHash64 {
    spec fn lanes(&self) -> (u64, u64, u64, u64) { (self.v1, self.v2, self.v3, self.v4) }
    // the hasher state is the one reached after feeding exactly the bytes d to a hasher created with self.seed
    #[verifier::opaque]
    spec fn represents(&self, d: Seq<u8>) -> bool {
        &&& self.buffer_len < 32
        &&& d.len() < 0x1_0000_0000_0000_0000 && self.total_len == d.len()
        &&& self.lanes() == stripes_from(init_lanes(self.seed), d, ((d.len() - self.buffer_len) / 32) as nat)
        &&& (d.len() - self.buffer_len) % 32 == 0
        &&& self.buffer@.subrange(0, self.buffer_len as int) =~= d.subrange(d.len() - self.buffer_len, d.len() as int)
    }

    fn with_seed ( seed : u64 ) -> ( r : Self ) ensures
/*@C16.x_init*/ r . represents ( Seq :: < u8 > :: empty ( ) ) , r . seed == seed , r . buffer_len < 32 , {
proof {
reveal ( XxHash64 :: represents ) ;
}
XxHash64 {
seed , total_len : 0 , v1 : seed . wrapping_add ( P1 ) . wrapping_add ( P2 ) , v2 : seed . wrapping_add ( P2 ) , v3 : seed , v4 : seed . wrapping_sub ( P1 ) , buffer : [ 0 ;
32 ] , buffer_len : 0 , }
}


    fn finish64 ( & self ) -> ( r : u64 ) requires self . buffer_len < 32 , ensures
/*@C16.x_digest*/ forall | d : Seq < u8 > | # [ trigger ] self . represents ( d ) ==> r == xxh64 ( self . seed , d ) , {
hide ( vstd :: wrapping :: u64_specs :: wrapping_mul ) ;
hide ( vstd :: wrapping :: u64_specs :: wrapping_add ) ;
let mut hash = if self . total_len >= 32 {
proof {
reveal ( converge ) ;
}
let mut acc = self . v1 . rotate_left ( 1 ) . wrapping_add ( self . v2 . rotate_left ( 7 ) ) . wrapping_add ( self . v3 . rotate_left ( 12 ) ) . wrapping_add ( self . v4 . rotate_left ( 18 ) ) ;
acc = merge_round ( acc , self . v1 ) ;
acc = merge_round ( acc , self . v2 ) ;
acc = merge_round ( acc , self . v3 ) ;
acc = merge_round ( acc , self . v4 ) ;
acc }
else {
self . seed . wrapping_add ( P5 ) }
;
proof {
assert ( hash == acc_of ( * self ) ) ;
}
hash = hash . wrapping_add ( self . total_len ) ;
let ghost h0 = hash ;
let mut idx = 0 ;
let buf = & self . buffer [ .. self . buffer_len ] ;
proof {
assert ( buf @ . skip ( 0 ) =~= buf @ ) ;
}
while idx + 8 <= buf . len ( ) invariant buf @ . len ( ) < 32 , idx <= buf @ . len ( ) ,
/*@C16.x_tail8*/ xxh_tail ( h0 , buf @ ) == xxh_tail ( hash , buf @ . skip ( idx as int ) ) , decreases buf @ . len ( ) - idx {
proof {
lemma_tail8 ( hash , buf @ , idx as int ) ;
reveal ( step8 ) ;
assert forall | a : u64 , b : u64 | # [ trigger ] ( a ^ b ) == b ^ a by {
assert ( a ^ b == b ^ a ) by ( bit_vector ) ;
}
}
let mut k1 = read_u64_le ( & buf [ idx .. idx + 8 ] ) ;
k1 = k1 . wrapping_mul ( P2 ) ;
k1 = k1 . rotate_left ( 31 ) ;
k1 = k1 . wrapping_mul ( P1 ) ;
hash ^= k1 ;
hash = hash . rotate_left ( 27 ) . wrapping_mul ( P1 ) . wrapping_add ( P4 ) ;
idx += 8 ;
}
if idx + 4 <= buf . len ( ) {
proof {
lemma_tail4 ( hash , buf @ , idx as int ) ;
reveal ( step4 ) ;
assert forall | a : u64 , b : u64 | # [ trigger ] ( a ^ b ) == b ^ a by {
assert ( a ^ b == b ^ a ) by ( bit_vector ) ;
}
}
let k1 = read_u64_le ( & buf [ idx .. idx + 4 ] ) ;
hash ^= k1 . wrapping_mul ( P1 ) ;
hash = hash . rotate_left ( 23 ) . wrapping_mul ( P2 ) . wrapping_add ( P3 ) ;
idx += 4 ;
}
while idx < buf . len ( ) invariant buf @ . len ( ) < 32 , idx <= buf @ . len ( ) , buf @ . len ( ) < idx + 4 ,
/*@C16.x_tail1*/ xxh_tail ( h0 , buf @ ) == xxh_tail ( hash , buf @ . skip ( idx as int ) ) , decreases buf @ . len ( ) - idx {
proof {
lemma_tail1 ( hash , buf @ , idx as int ) ;
reveal ( step1 ) ;
assert forall | a : u64 , b : u64 | # [ trigger ] ( a ^ b ) == b ^ a by {
assert ( a ^ b == b ^ a ) by ( bit_vector ) ;
}
}
let k1 = buf [ idx ] as u64 ;
hash ^= k1 . wrapping_mul ( P5 ) ;
hash = hash . rotate_left ( 11 ) . wrapping_mul ( P1 ) ;
idx += 1 ;
}
proof {
assert ( buf @ . skip ( idx as int ) . len ( ) == 0 ) ;
assert ( xxh_tail ( h0 , buf @ ) == hash ) ;
assert forall | d : Seq < u8 > | # [ trigger ] self . represents ( d ) implies finalize_spec ( hash ) == xxh64 ( self . seed , d ) by {
lemma_xx_digest ( * self , d ) ;
}
}
finalize ( hash ) }


    fn hash_u64 ( input : u64 , seed : u64 ) -> ( r : u64 ) ensures
/*@C16.x_u64*/ forall | d : Seq < u8 > | d . len ( ) == 8 && le64 ( d ) == input ==> r == # [ trigger ] xxh64 ( seed , d ) , {
hide ( vstd :: wrapping :: u64_specs :: wrapping_mul ) ;
hide ( vstd :: wrapping :: u64_specs :: wrapping_add ) ;
let mut hash = seed . wrapping_add ( P5 ) . wrapping_add ( 8 ) ;
proof {
assert forall | a : u64 , b : u64 | # [ trigger ] ( a ^ b ) == b ^ a by {
assert ( a ^ b == b ^ a ) by ( bit_vector ) ;
}
}
let mut k1 = input ;
k1 = k1 . wrapping_mul ( P2 ) ;
k1 = k1 . rotate_left ( 31 ) ;
k1 = k1 . wrapping_mul ( P1 ) ;
hash ^= k1 ;
hash = hash . rotate_left ( 27 ) . wrapping_mul ( P1 ) . wrapping_add ( P4 ) ;
proof {
reveal ( step8 ) ;
assert forall | d : Seq < u8 > | d . len ( ) == 8 && le64 ( d ) == input implies finalize_spec ( hash ) == # [ trigger ] xxh64 ( seed , d ) by {
let t = d . subrange ( 0 , 8 ) ;
assert ( t =~= d ) ;
assert ( t . subrange ( 0 , 8 ) =~= d ) ;
assert ( xxh_tail ( hash , t . skip ( 8 ) ) == hash ) ;
}
}
finalize ( hash ) }


    fn update ( & mut self , chunk : & [ u8 ] ) requires chunk @ . len ( ) == 32 ensures
/*@C16.x_stripe*/ final ( self ) . lanes ( ) == stripe_step ( old ( self ) . lanes ( ) , chunk @ ) , final ( self ) . seed == old ( self ) . seed , final ( self ) . total_len == old ( self ) . total_len , final ( self ) . buffer == old ( self ) . buffer , final ( self ) . buffer_len == old ( self ) . buffer_len {
self . v1 = round ( self . v1 , read_u64_le ( & chunk [ 0 .. 8 ] ) ) ;
self . v2 = round ( self . v2 , read_u64_le ( & chunk [ 8 .. 16 ] ) ) ;
self . v3 = round ( self . v3 , read_u64_le ( & chunk [ 16 .. 24 ] ) ) ;
self . v4 = round ( self . v4 , read_u64_le ( & chunk [ 24 .. 32 ] ) ) ;
}


    fn finish ( & self ) -> ( r : u64 ) requires self . buffer_len < 32 , ensures
/*@C16.x_digest_h*/ forall | d : Seq < u8 > | # [ trigger ] self . represents ( d ) ==> r == xxh64 ( self . seed , d ) , {
self . finish64 ( ) }


    fn write ( & mut self , bytes : & [ u8 ] ) requires old ( self ) . buffer_len < 32 , bytes @ . len ( ) <= 0x7fff_ffff_ffff_ffff , ensures
/*@C16.x_append*/ forall | d : Seq < u8 > | # [ trigger ] old ( self ) . represents ( d ) && d . len ( ) + bytes @ . len ( ) < 0x1_0000_0000_0000_0000 ==> final ( self ) . represents ( d + bytes @ ) , final ( self ) . seed == old ( self ) . seed , final ( self ) . buffer_len < 32 , {
let ghost pre = * self ;
let ghost all = bytes @ ;
let ghost st = pre . buffer @ . subrange ( 0 , pre . buffer_len as int ) + all ;
self . total_len = self . total_len . wrapping_add ( bytes . len ( ) as u64 ) ;
if self . buffer_len + bytes . len ( ) < 32 {
self . buffer [ self . buffer_len .. self . buffer_len + bytes . len ( ) ] . copy_from_slice ( bytes ) ;
self . buffer_len += bytes . len ( ) ;
proof {
assert ( self . buffer @ . subrange ( 0 , self . buffer_len as int ) =~= st ) ;
assert forall | d : Seq < u8 > | # [ trigger ] pre . represents ( d ) && d . len ( ) + all . len ( ) < 0x1_0000_0000_0000_0000 implies self . represents ( d + all ) by {
lemma_after ( pre , * self , all , d ) ;
}
}
return ;
}
let mut bytes = bytes ;
if self . buffer_len != 0 {
let needed = 32 - self . buffer_len ;
self . buffer [ self . buffer_len .. ] . copy_from_slice ( & bytes [ .. needed ] ) ;
let chunk = self . buffer ;
self . update ( & chunk ) ;
self . buffer_len = 0 ;
bytes = & bytes [ needed .. ] ;
proof {
assert ( chunk @ =~= st . subrange ( 0 , 32 ) ) ;
assert ( stripes_from ( pre . lanes ( ) , st , 1 ) == stripe_step ( pre . lanes ( ) , st . subrange ( 0 , 32 ) ) ) by {
reveal_with_fuel ( stripes_from , 2 ) ;
}
assert ( bytes @ =~= st . skip ( 32 ) ) ;
}
}
proof {
if pre . buffer_len == 0 {
assert ( st =~= all ) ;
assert ( stripes_from ( pre . lanes ( ) , st , 0 ) == pre . lanes ( ) ) ;
}
}
let ghost done : int = if pre . buffer_len != 0 {
32 }
else {
0 }
;
let ghost base : nat = if pre . buffer_len != 0 {
1 }
else {
0 }
;
let mut chunks = bytes . chunks_exact ( 32 ) ;
let ghost mut i : nat = 0 ;
proof {
assert ( ce_rest ( chunks ) =~= bytes @ . skip ( 0 ) ) ;
}
let mut vx_it1 = & mut chunks ;
loop invariant ce_size ( * vx_it1 ) == 32 , self . buffer_len == 0 , self . seed == pre . seed , self . total_len == pre . total_len . wrapping_add ( all . len ( ) as u64 ) , done == 32 * base , done + bytes @ . len ( ) == st . len ( ) , bytes @ =~= st . skip ( done ) , 32 * i + ce_rest ( * vx_it1 ) . len ( ) == bytes @ . len ( ) , ce_rest ( * vx_it1 ) =~= bytes @ . skip ( 32 * i as int ) ,
/*@C16.x_stripes*/ self . lanes ( ) == stripes_from ( pre . lanes ( ) , st , base + i ) , ensures ce_rest ( * vx_it1 ) . len ( ) < 32 , decreases ce_rest ( * vx_it1 ) . len ( ) {
match vx_it1 . next ( ) {
Some ( chunk ) => {
self . update ( chunk ) ;
proof {
let n = base + i ;
assert ( chunk @ =~= st . subrange ( 32 * n as int , 32 * ( n + 1 ) as int ) ) ;
i = i + 1 ;
}
}
None => {
break ;
}
}
}
proof {
assert ( ce_size ( chunks ) == 32 ) ;
assert ( ce_rest ( chunks ) . len ( ) < 32 ) ;
}
let remainder = chunks . remainder ( ) ;
if ! remainder . is_empty ( ) {
self . buffer [ .. remainder . len ( ) ] . copy_from_slice ( remainder ) ;
self . buffer_len = remainder . len ( ) ;
}
proof {
let rest = ce_rest ( chunks ) ;
assert ( rest . len ( ) < 32 ) ;
assert ( self . buffer_len == rest . len ( ) ) ;
assert ( rest =~= st . skip ( done + 32 * i as int ) ) ;
assert ( pre . buffer_len + all . len ( ) == 32 * ( base + i ) + self . buffer_len ) ;
assert ( self . buffer @ . subrange ( 0 , self . buffer_len as int ) =~= st . skip ( 32 * ( base + i ) as int ) ) ;
assert forall | d : Seq < u8 > | # [ trigger ] pre . represents ( d ) && d . len ( ) + all . len ( ) < 0x1_0000_0000_0000_0000 implies self . represents ( d + all ) by {
lemma_after2 ( pre , * self , all , d , base + i ) ;
}
}
}

}

fn round ( mut acc : u64 , input : u64 ) -> ( r : u64 ) ensures
/*@C16.x_round*/ r == round_spec ( acc , input ) , {
hide ( vstd :: wrapping :: u64_specs :: wrapping_mul ) ;
hide ( vstd :: wrapping :: u64_specs :: wrapping_add ) ;
proof {
reveal ( round_spec ) ;
}
acc = acc . wrapping_add ( input . wrapping_mul ( P2 ) ) ;
acc = acc . rotate_left ( 31 ) ;
acc . wrapping_mul ( P1 ) }


fn merge_round ( mut acc : u64 , val : u64 ) -> ( r : u64 ) ensures
/*@C16.x_merge*/ r == merge_round_spec ( acc , val ) , {
hide ( vstd :: wrapping :: u64_specs :: wrapping_mul ) ;
hide ( vstd :: wrapping :: u64_specs :: wrapping_add ) ;
proof {
reveal ( merge_round_spec ) ;
}
let mut v = val ;
v = v . wrapping_mul ( P2 ) ;
v = v . rotate_left ( 31 ) ;
v = v . wrapping_mul ( P1 ) ;
acc ^= v ;
acc . wrapping_mul ( P1 ) . wrapping_add ( P4 ) }


fn finalize ( mut hash : u64 ) -> ( r : u64 ) ensures
/*@C16.x_avalanche*/ r == finalize_spec ( hash ) , {
hide ( vstd :: wrapping :: u64_specs :: wrapping_mul ) ;
hide ( vstd :: wrapping :: u64_specs :: wrapping_add ) ;
proof {
reveal ( finalize_spec ) ;
}
hash ^= hash >> 33 ;
hash = hash . wrapping_mul ( P2 ) ;
hash ^= hash >> 29 ;
hash = hash . wrapping_mul ( P3 ) ;
hash ^ ( hash >> 32 ) }


}
fn main(){}
