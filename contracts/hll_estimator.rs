use vstd::prelude::*;
use vstd::std_specs::ops::*;
use vstd::std_specs::cmp::*;
verus! {
global size_of usize == 8;

// floats: operations are uninterpreted but DETERMINISTIC functions of their operands (same prelude as td_int)
#[verifier::external_body] pub proof fn axiom_float_total()
  ensures forall|a: f64, b: f64| #[trigger] AddSpec::add_req(a, b), forall|a: f64, b: f64| #[trigger] SubSpec::sub_req(a, b),
          forall|a: f64, b: f64| #[trigger] MulSpec::mul_req(a, b), forall|a: f64, b: f64| #[trigger] DivSpec::div_req(a, b) {}
#[verifier::external_body] pub proof fn axiom_float_total_at(a: f64, b: f64)
  ensures AddSpec::add_req(a, b), SubSpec::sub_req(a, b), MulSpec::mul_req(a, b), DivSpec::div_req(a, b),
          AddSpec::add_req(b, a), SubSpec::sub_req(b, a), MulSpec::mul_req(b, a), DivSpec::div_req(b, a) {}
#[verifier::external_body] proof fn axiom_f64_ops_deterministic()
  ensures <f64 as AddSpec>::obeys_add_spec(), <f64 as SubSpec>::obeys_sub_spec(), <f64 as MulSpec>::obeys_mul_spec(), <f64 as DivSpec>::obeys_div_spec() {}
spec fn fadd(a: f64, b: f64) -> f64 { a.add_spec(b) }
spec fn fsub(a: f64, b: f64) -> f64 { a.sub_spec(b) }
spec fn fdiv(a: f64, b: f64) -> f64 { a.div_spec(b) }
pub uninterp spec fn i32_to_f64(n: i32) -> f64;
#[verifier::external_body] fn vx_i32_as_f64(n: i32) -> (r: f64) ensures r == i32_to_f64(n) { n as f64 }
// 2^-v as a double (Kani leaf_inv_pow2_exact: the real inv_pow2 returns exactly that bit pattern for v <= 63)
pub uninterp spec fn inv2(v: u8) -> f64;

pub struct HipEstimator {
    hip_accum: f64,
    kxq0: f64,
    kxq1: f64,
    out_of_order: bool,
}

#[verifier::external_body]
fn inv_pow2(value: u8) -> (r: f64) ensures r == inv2(value) { unimplemented!() }

// the register-sum pair after one register moves old -> new: each value's contribution leaves / enters the sum of ITS side
spec fn kxq_after(q0: f64, q1: f64, old_value: u8, new_value: u8) -> (f64, f64) {
    let a0 = if old_value < 32 { fsub(q0, inv2(old_value)) } else { q0 };
    let a1 = if old_value < 32 { q1 } else { fsub(q1, inv2(old_value)) };
    (if new_value < 32 { fadd(a0, inv2(new_value)) } else { a0 }, if new_value < 32 { a1 } else { fadd(a1, inv2(new_value)) })
}

impl HipEstimator {
    fn update(&mut self, lg_config_k: u8, old_value: u8, new_value: u8)
      requires lg_config_k < 31,
      ensures
        /*@C01.hip.increment_from_old_state,C02.hip.update*/ final(self).hip_accum == (if old(self).out_of_order { old(self).hip_accum } else { fadd(old(self).hip_accum, fdiv(i32_to_f64(1i32 << lg_config_k), fadd(old(self).kxq0, old(self).kxq1))) }),
        /*@C01.hip.kxq_step,C02.hip.kxq*/ (final(self).kxq0, final(self).kxq1) == kxq_after(old(self).kxq0, old(self).kxq1, old_value, new_value),
        /*@C03.flagflow.update_keeps_flag*/ final(self).out_of_order == old(self).out_of_order,
    {
        proof { axiom_float_total(); axiom_f64_ops_deterministic(); axiom_float_total_at(self.kxq0, self.kxq1); axiom_float_total_at(self.hip_accum, self.kxq0); }
        let k = vx_i32_as_f64(1 << lg_config_k);

        // Update HIP accumulator FIRST (unless out-of-order)
        // When out-of-order (from deserialization or merge), HIP is invalid
        if !self.out_of_order {
            proof { axiom_float_total_at(k, fadd(self.kxq0, self.kxq1)); axiom_float_total_at(self.hip_accum, fdiv(k, fadd(self.kxq0, self.kxq1))); }
            self.hip_accum = self.hip_accum + k / (self.kxq0 + self.kxq1);
        }

        // Always update KxQ registers (regardless of OOO flag)
        self.update_kxq(old_value, new_value);
    }

    fn update_kxq(&mut self, old_value: u8, new_value: u8)
      ensures
        /*@C01.hip.kxq_step,C02.hip.kxq*/ (final(self).kxq0, final(self).kxq1) == kxq_after(old(self).kxq0, old(self).kxq1, old_value, new_value),
        final(self).hip_accum == old(self).hip_accum, final(self).out_of_order == old(self).out_of_order,
    {
        proof { axiom_float_total(); axiom_f64_ops_deterministic(); axiom_float_total_at(self.kxq0, inv2(old_value)); axiom_float_total_at(self.kxq1, inv2(old_value)); }
        // Subtract old value contribution
        if old_value < 32 {
            self.kxq0 = self.kxq0 - inv_pow2(old_value);
        } else {
            self.kxq1 = self.kxq1 - inv_pow2(old_value);
        }
        proof { axiom_float_total_at(self.kxq0, inv2(new_value)); axiom_float_total_at(self.kxq1, inv2(new_value)); }

        // Add new value contribution
        if new_value < 32 {
            self.kxq0 = self.kxq0 + inv_pow2(new_value);
        } else {
            self.kxq1 = self.kxq1 + inv_pow2(new_value);
        }
    }
}
}
fn main() {}
