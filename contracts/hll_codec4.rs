#![feature(allocator_api)]
use vstd::prelude::*;
use vstd::arithmetic::power2::*;
use vstd::imap::*;
use vstd::iset::*;
use std::io;
use std::io::Cursor;
use std::io::Read;
verus! {
global size_of usize == 8;
pub assume_specification<T, A: std::alloc::Allocator> [std::vec::Vec::<T, A>::into_boxed_slice] (v: std::vec::Vec<T, A>) -> (r: std::boxed::Box<[T], A>)
  ensures r@ == v@;

// =====================================================================================================================
// Little-endian byte codecs (same definitions as unit hll_codec8): interpreted on both sides, the round trip is a lemma
// =====================================================================================================================
spec fn le32_bytes(n: u32) -> Seq<u8> { seq![(n & 0xff) as u8, ((n >> 8) & 0xff) as u8, ((n >> 16) & 0xff) as u8, ((n >> 24) & 0xff) as u8] }
spec fn le64_bytes(n: u64) -> Seq<u8> { le32_bytes((n & 0xffff_ffff) as u32) + le32_bytes((n >> 32) as u32) }
spec fn le32_val(b: Seq<u8>) -> u32 { (b[0] as u32) | ((b[1] as u32) << 8) | ((b[2] as u32) << 16) | ((b[3] as u32) << 24) }
spec fn le64_val(b: Seq<u8>) -> u64 { (le32_val(b.subrange(0, 4)) as u64) | ((le32_val(b.subrange(4, 8)) as u64) << 32) }

proof fn lemma_le32_roundtrip(n: u32) ensures le32_val(le32_bytes(n)) == n, le32_bytes(n).len() == 4 {
    let b0 = (n & 0xff) as u8; let b1 = ((n >> 8) & 0xff) as u8; let b2 = ((n >> 16) & 0xff) as u8; let b3 = ((n >> 24) & 0xff) as u8;
    assert((b0 as u32) | ((b1 as u32) << 8) | ((b2 as u32) << 16) | ((b3 as u32) << 24) == n) by (bit_vector)
      requires b0 == (n & 0xff) as u8, b1 == ((n >> 8) & 0xff) as u8, b2 == ((n >> 16) & 0xff) as u8, b3 == ((n >> 24) & 0xff) as u8;
}
proof fn lemma_le64_roundtrip(n: u64) ensures le64_val(le64_bytes(n)) == n, le64_bytes(n).len() == 8 {
    let lo = (n & 0xffff_ffff) as u32; let hi = (n >> 32) as u32;
    lemma_le32_roundtrip(lo); lemma_le32_roundtrip(hi);
    assert(le64_bytes(n).subrange(0, 4) =~= le32_bytes(lo));
    assert(le64_bytes(n).subrange(4, 8) =~= le32_bytes(hi));
    assert((lo as u64) | ((hi as u64) << 32) == n) by (bit_vector) requires lo == (n & 0xffff_ffff) as u32, hi == (n >> 32) as u32;
}
uninterp spec fn f64_bits(x: f64) -> u64;
uninterp spec fn f64_of_bits(b: u64) -> f64;
#[verifier::external_body] proof fn axiom_f64_bits_roundtrip(b: u64) ensures f64_bits(f64_of_bits(b)) == b {}
#[verifier::external_body] proof fn axiom_f64_of_bits_roundtrip(x: f64) ensures f64_of_bits(f64_bits(x)) == x {}

#[verifier::external_body] fn vx_u32_from_le_bytes(b: [u8; 4]) -> (r: u32) ensures r == le32_val(b@) { u32::from_le_bytes(b) }
#[verifier::external_body] fn vx_f64_from_le_bytes(b: [u8; 8]) -> (r: f64) ensures r == f64_of_bits(le64_val(b@)) { f64::from_le_bytes(b) }
#[verifier::external_body] fn vx_u32_to_le_bytes(n: u32) -> (r: [u8; 4]) ensures r@ == le32_bytes(n) { n.to_le_bytes() }
#[verifier::external_body] fn vx_f64_to_le_bytes(n: f64) -> (r: [u8; 8]) ensures r@ == le64_bytes(f64_bits(n)) { n.to_le_bytes() }

// a list of u32 words in an image, and reading word i of a payload (same definitions as unit hll_codec_coupons)
spec fn enc_u32s(s: Seq<u32>) -> Seq<u8> decreases s.len() { if s.len() == 0 { Seq::empty() } else { enc_u32s(s.drop_last()) + le32_bytes(s.last()) } }
spec fn dec_u32_at(p: Seq<u8>, i: int) -> u32 { le32_val(p.subrange(4 * i, 4 * i + 4)) }
spec fn dec_u32s(p: Seq<u8>, n: int) -> Seq<u32> { Seq::new(n as nat, |i: int| dec_u32_at(p, i)) }
proof fn lemma_skip_word(p: Seq<u8>, k: int)
  requires 0 <= k, 4 * k + 4 <= p.len()
  ensures p.skip(4 * k).take(4) == p.subrange(4 * k, 4 * k + 4), p.skip(4 * k).skip(4) == p.skip(4 * (k + 1)), dec_u32_at(p, k) == le32_val(p.skip(4 * k).take(4))
{
    assert(p.skip(4 * k).take(4) =~= p.subrange(4 * k, 4 * k + 4));
    assert(p.skip(4 * k).skip(4) =~= p.skip(4 * (k + 1)));
}
proof fn lemma_enc_u32s_len(s: Seq<u32>) ensures enc_u32s(s).len() == 4 * s.len() decreases s.len() {
    if s.len() > 0 { lemma_enc_u32s_len(s.drop_last()); lemma_le32_roundtrip(s.last()); }
}
proof fn lemma_enc_u32s_push(s: Seq<u32>, x: u32) ensures enc_u32s(s.push(x)) == enc_u32s(s) + le32_bytes(x) {
    assert(s.push(x).drop_last() =~= s);
}
proof fn lemma_dec_enc_u32s(s: Seq<u32>, tail: Seq<u8>, i: int)
  requires 0 <= i < s.len()
  ensures dec_u32_at(enc_u32s(s) + tail, i) == s[i]
  decreases s.len()
{
    lemma_enc_u32s_len(s); lemma_enc_u32s_len(s.drop_last()); lemma_le32_roundtrip(s.last());
    let e = enc_u32s(s) + tail;
    if i == s.len() - 1 {
        assert(e.subrange(4 * i, 4 * i + 4) =~= le32_bytes(s.last()));
    } else {
        lemma_dec_enc_u32s(s.drop_last(), le32_bytes(s.last()) + tail, i);
        assert(enc_u32s(s.drop_last()) + (le32_bytes(s.last()) + tail) =~= e);
    }
}
proof fn lemma_dec_enc_u32s_all(s: Seq<u32>, tail: Seq<u8>)
  ensures dec_u32s(enc_u32s(s) + tail, s.len() as int) == s
{
    assert forall|i: int| 0 <= i < s.len() implies dec_u32_at(enc_u32s(s) + tail, i) == s[i] by { lemma_dec_enc_u32s(s, tail, i); }
    assert(dec_u32s(enc_u32s(s) + tail, s.len() as int) =~= s);
}
// the non-empty words of a table, in table order
spec fn nz(s: Seq<u32>) -> Seq<u32> decreases s.len() {
    if s.len() == 0 { Seq::empty() } else if s.last() != 0 { nz(s.drop_last()).push(s.last()) } else { nz(s.drop_last()) }
}
proof fn lemma_nz_le(s: Seq<u32>) ensures nz(s).len() <= s.len() decreases s.len() { if s.len() > 0 { lemma_nz_le(s.drop_last()); } }
proof fn lemma_nz_id(s: Seq<u32>)
  requires forall|i: int| 0 <= i < s.len() ==> s[i] != 0
  ensures nz(s) == s
  decreases s.len()
{
    if s.len() > 0 { lemma_nz_id(s.drop_last()); assert(s.drop_last().push(s.last()) =~= s); }
}
// a dense list (as many non-empty words as words) has no empty word
proof fn lemma_nz_full(s: Seq<u32>, i: int)
  requires nz(s).len() == s.len(), 0 <= i < s.len()
  ensures s[i] != 0
  decreases s.len()
{
    lemma_nz_le(s.drop_last());
    if i < s.len() - 1 { lemma_nz_full(s.drop_last(), i); }
}
// a table with no non-empty word is all zero
proof fn lemma_nz_none(s: Seq<u32>, i: int)
  requires nz(s).len() == 0, 0 <= i < s.len()
  ensures s[i] == 0
  decreases s.len()
{
    if i < s.len() - 1 { lemma_nz_none(s.drop_last(), i); }
}

// =====================================================================================================================
// error / io shims
// =====================================================================================================================
#[verifier::external_type_specification]
#[verifier::external_body]
pub struct ExIoError(std::io::Error);

struct Error { k: u8 }
trait VxIo<T> { fn vx_io(self, tag: &'static str) -> Result<T, Error>; }
impl<T> VxIo<T> for Result<T, std::io::Error> {
  // R2: `.map_err(insufficient_data(tag))`
  #[verifier::external_body]
  fn vx_io(self, tag: &'static str) -> (r: Result<T, Error>)
    ensures self matches Ok(v) ==> r == Ok::<T, Error>(v), self is Err ==> r is Err
  { unimplemented!() }
}

// the largest register array a valid lg_k (<= 21) permits: 2^21 bytes
spec const MAX_REG_BYTES: usize = 0x20_0000;
// `vec![0u8; n]` in the parser: the allocation bound of C14 is the precondition
#[verifier::external_body]
fn vx_zeroed_u8(n: usize) -> (r: Vec<u8>)
  requires /*@C14.hll.alloc_bounded*/ n <= MAX_REG_BYTES
  ensures r@.len() == n, forall|i: int| 0 <= i < n ==> r@[i] == 0u8
{ vec![0u8; n] }

// =====================================================================================================================
// codec/encode.rs: SketchBytes, real bodies, view = the bytes written so far
// =====================================================================================================================
struct SketchBytes {
bytes : Vec < u8 > , }


impl SketchBytes {
    spec fn view(&self) -> Seq<u8> { self.bytes@ }

    fn with_capacity ( capacity : usize ) -> ( r : Self ) ensures r @ == Seq :: < u8 > :: empty ( ) {
Self {
bytes : Vec :: with_capacity ( capacity ) , }
}


    fn into_bytes ( self ) -> ( r : Vec < u8 > ) ensures r @ == self @ {
self . bytes }


    fn write ( & mut self , buf : & [ u8 ] ) ensures final ( self ) @ == old ( self ) @ + buf @ {
self . bytes . extend_from_slice ( buf ) ;
}


    fn write_u8 ( & mut self , n : u8 ) ensures final ( self ) @ == old ( self ) @ . push ( n ) {
self . bytes . push ( n ) ;
}


    fn write_u32_le ( & mut self , n : u32 ) ensures final ( self ) @ == old ( self ) @ + le32_bytes ( n ) {
self . write ( & vx_u32_to_le_bytes ( n ) ) ;
}


    fn write_f64_le ( & mut self , n : f64 ) ensures final ( self ) @ == old ( self ) @ + le64_bytes ( f64_bits ( n ) ) {
self . write ( & vx_f64_to_le_bytes ( n ) ) ;
}

}

// =====================================================================================================================
// codec/decode.rs: SketchSlice; the std Cursor is abstracted by rem() = the bytes not yet consumed.
// =====================================================================================================================
#[verifier::external_body]
struct SketchSlice < 'a > {
slice : Cursor < & 'a [ u8 ] > , }


impl SketchSlice<'_> {
    uninterp spec fn rem(&self) -> Seq<u8>;

    #[verifier::external_body]
    fn new(slice: &[u8]) -> (r: SketchSlice<'_>) ensures r.rem() == slice@ {
        unimplemented!()
    }

    #[verifier::external_body]
    fn read_exact(&mut self, buf: &mut [u8]) -> (r: io::Result<()>)
      ensures
        old(self).rem().len() >= old(buf)@.len() ==> (r is Ok && final(buf)@ == old(self).rem().take(old(buf)@.len() as int) && final(self).rem() == old(self).rem().skip(old(buf)@.len() as int)),
        old(self).rem().len() < old(buf)@.len() ==> r is Err,
        final(buf)@.len() == old(buf)@.len(),
    {
        unimplemented!()
    }

    fn read_u8 ( & mut self ) -> ( r : io :: Result < u8 > ) ensures old ( self ) . rem ( ) . len ( ) >= 1 ==> ( r matches Ok ( v ) && v == old ( self ) . rem ( ) [ 0 ] && final ( self ) . rem ( ) == old ( self ) . rem ( ) . skip ( 1 ) ) , old ( self ) . rem ( ) . len ( ) < 1 ==> r is Err , {
let mut buf = [ 0u8 ;
1 ] ;
self . read_exact ( & mut buf ) ? ;
Ok ( buf [ 0 ] ) }


    fn read_u32_le ( & mut self ) -> ( r : io :: Result < u32 > ) ensures old ( self ) . rem ( ) . len ( ) >= 4 ==> ( r matches Ok ( v ) && v == le32_val ( old ( self ) . rem ( ) . take ( 4 ) ) && final ( self ) . rem ( ) == old ( self ) . rem ( ) . skip ( 4 ) ) , old ( self ) . rem ( ) . len ( ) < 4 ==> r is Err , {
let mut buf = [ 0u8 ;
4 ] ;
self . read_exact ( & mut buf ) ? ;
Ok ( vx_u32_from_le_bytes ( buf ) ) }


    fn read_f64_le ( & mut self ) -> ( r : io :: Result < f64 > ) ensures old ( self ) . rem ( ) . len ( ) >= 8 ==> ( r matches Ok ( v ) && v == f64_of_bits ( le64_val ( old ( self ) . rem ( ) . take ( 8 ) ) ) && final ( self ) . rem ( ) == old ( self ) . rem ( ) . skip ( 8 ) ) , old ( self ) . rem ( ) . len ( ) < 8 ==> r is Err , {
let mut buf = [ 0u8 ;
8 ] ;
self . read_exact ( & mut buf ) ? ;
Ok ( vx_f64_from_le_bytes ( buf ) ) }

}

// =====================================================================================================================
// hll/serialization.rs, codec/family.rs, hll/mod.rs: constants, the mode byte, coupon words (taken from /repo every run)
// =====================================================================================================================
const SERIAL_VERSION : u8 = 1 ;

const COMPACT_FLAG_MASK : u8 = 8 ;
const OUT_OF_ORDER_FLAG_MASK : u8 = 16 ;

const HLL_PREINTS : u8 = 10 ;

const HLL_PREAMBLE_SIZE : usize = 40 ;

const CUR_MODE_HLL : u8 = 2 ;

const TGT_HLL4 : u8 = 0 ;

const COUPON_SIZE_BYTES : usize = 4 ;

const AUX_TOKEN : u8 = 15 ;

const KEY_BITS_26 : u32 = 26 ;

exec const KEY_MASK_26 : u32 ensures KEY_MASK_26 == 0x3ffffff {
proof {
assert ( ( 1u32 << 26u32 ) - 1 == 0x3ffffff ) by ( bit_vector ) ;
}
( 1 << KEY_BITS_26 ) - 1 }


struct Family {
id : u8 , name : & 'static str , min_pre_longs : u8 , max_pre_longs : u8 , }


impl Family {
    const HLL : Family = Family {
id : 7 , name : "HLL" , min_pre_longs : 1 , max_pre_longs : 1 , }
;

}

fn encode_mode_byte ( cur_mode : u8 , tgt_type : u8 ) -> ( r : u8 ) ensures r == ( cur_mode & 0x3 ) | ( ( tgt_type & 0x3 ) << 2 ) {
proof {
let a = cur_mode ;
let b = tgt_type ;
assert ( a & 0x3 == a % 4 && b & 0x3 == b % 4 && ( b & 0x3 ) << 2 == ( b % 4 ) * 4 && ( b % 4 ) * 4 <= 12 && ( a & 0x3 ) | ( ( b & 0x3 ) << 2 ) == ( ( b & 0x3 ) << 2 ) | ( a & 0x3 ) ) by ( bit_vector ) ;
}
( cur_mode & 0x3 ) | ( ( tgt_type & 0x3 ) << 2 ) }


// FORMAT: an aux / coupon word is value << 26 | slot  (slot in the low 26 bits, value in the high 6)
spec fn w_slot(w: u32) -> u32 { w & 0x3ffffff }
spec fn w_val(w: u32) -> u8 { (w >> 26) as u8 }
spec fn aux_word(slot: u32, value: u8) -> u32 { ((value as u32) << 26) | slot }
// what pack_coupon computes for arbitrary arguments
spec fn apack(slot: u32, value: u8) -> u32 { ((value as u32) << 26) | (slot & 0x3ffffff) }

fn get_slot ( coupon : u32 ) -> ( r : u32 ) ensures r == w_slot ( coupon ) {
proof {
assert ( coupon & 0x3ffffff == coupon % 0x4000000 && coupon & 0x3ffffff == 0x3ffffff & coupon ) by ( bit_vector ) ;
}
coupon & KEY_MASK_26 }


fn get_value ( coupon : u32 ) -> ( r : u8 ) ensures r == w_val ( coupon ) , r <= 63 {
proof {
assert ( ( coupon >> 26 ) <= 63 ) by ( bit_vector ) ;
assert ( coupon >> 26 == coupon / 0x4000000 && ( 1u32 << 26 ) == 0x4000000 ) by ( bit_vector ) ;
}
( coupon >> KEY_BITS_26 ) as u8 }


fn pack_coupon ( slot : u32 , value : u8 ) -> ( r : u32 ) ensures r == apack ( slot , value ) {
proof {
let v = value as u32 ;
let s = slot ;
assert ( ( v << 26 ) | ( s & 0x3ffffff ) == ( s & 0x3ffffff ) | ( v << 26 ) && s & 0x3ffffff == 0x3ffffff & s && s & 0x3ffffff == s % 0x4000000 ) by ( bit_vector ) ;
}
( ( value as u32 ) << KEY_BITS_26 ) | ( slot & KEY_MASK_26 ) }


proof fn lemma_pack_unpack(slot: u32, value: u8)
  requires slot <= 0x3ffffff, value <= 63
  ensures apack(slot, value) == aux_word(slot, value), w_slot(aux_word(slot, value)) == slot, w_val(aux_word(slot, value)) == value, value >= 1 ==> aux_word(slot, value) != 0
{
    let v = value as u32;
    assert(slot <= 0x3ffffff ==> (slot & 0x3ffffff) == slot) by (bit_vector);
    assert(slot <= 0x3ffffff && v <= 63 ==> (((v << 26) | slot) & 0x3ffffff) == slot) by (bit_vector);
    assert(slot <= 0x3ffffff && v <= 63 ==> (((v << 26) | slot) >> 26) == v) by (bit_vector);
    assert(v >= 1 && v <= 63 ==> ((v << 26) | slot) != 0) by (bit_vector);
}

// =====================================================================================================================
// hll/estimator.rs: accessors are real bodies; `new` is float code, by contract
// =====================================================================================================================
struct HipEstimator {
hip_accum : f64 , kxq0 : f64 , kxq1 : f64 , out_of_order : bool , }


impl HipEstimator {
    #[verifier::external_body]
    fn new(lg_config_k: u8) -> (r: Self)
      requires lg_config_k < 32
      ensures !r.out_of_order
    { unimplemented!() }

    fn hip_accum ( & self ) -> ( r : f64 ) ensures r == self . hip_accum {
self . hip_accum }


    fn kxq0 ( & self ) -> ( r : f64 ) ensures r == self . kxq0 {
self . kxq0 }


    fn kxq1 ( & self ) -> ( r : f64 ) ensures r == self . kxq1 {
self . kxq1 }


    // refinement of the abstract estimator model of units hll_array8 / hll_array8_merge (`ooo` is uninterpreted there)
    spec fn ooo(&self) -> bool { self.out_of_order }

    fn is_out_of_order ( & self ) -> ( r : bool ) ensures r == self . out_of_order {
self . out_of_order }


    fn set_out_of_order ( & mut self , ooo : bool ) ensures final ( self ) . out_of_order == ooo , final ( self ) . kxq0 == old ( self ) . kxq0 , final ( self ) . kxq1 == old ( self ) . kxq1 , ! ooo ==> final ( self ) . hip_accum == old ( self ) . hip_accum , ooo ==> final ( self ) . hip_accum == 0.0f64 , {
self . out_of_order = ooo ;
if ooo {
self . hip_accum = 0.0 ;
}
}


    fn set_hip_accum ( & mut self , value : f64 ) ensures final ( self ) . hip_accum == value , final ( self ) . kxq0 == old ( self ) . kxq0 , final ( self ) . kxq1 == old ( self ) . kxq1 , final ( self ) . out_of_order == old ( self ) . out_of_order {
self . hip_accum = value ;
}


    fn set_kxq0 ( & mut self , value : f64 ) ensures final ( self ) . kxq0 == value , final ( self ) . hip_accum == old ( self ) . hip_accum , final ( self ) . kxq1 == old ( self ) . kxq1 , final ( self ) . out_of_order == old ( self ) . out_of_order {
self . kxq0 = value ;
}


    fn set_kxq1 ( & mut self , value : f64 ) ensures final ( self ) . kxq1 == value , final ( self ) . hip_accum == old ( self ) . hip_accum , final ( self ) . kxq0 == old ( self ) . kxq0 , final ( self ) . out_of_order == old ( self ) . out_of_order {
self . kxq1 = value ;
}

}

// =====================================================================================================================
// AuxMap by contract (new / insert are VERIFIED against these contracts in unit hll_auxmap: inv() is the hash-table invariant wf2(),
// lgk() is lg_config_k, view() the slot -> value map).  The preconditions of `insert` that a PARSER must establish from the bytes are
// asserted with C14 tags at the call: a failure there is attacker-reachable (`unreachable!("slot {} already exists in aux map")`,
// table count out of step).
// =====================================================================================================================
#[verifier::external_body]
pub struct AuxMap { _p: u8 }
impl AuxMap {
    pub uninterp spec fn view(&self) -> IMap<u32, u8>;
    pub uninterp spec fn lgk(&self) -> u8;
    pub uninterp spec fn inv(&self) -> bool;
    pub open spec fn awf(&self) -> bool {
        &&& self.inv()
        &&& forall|s: u32| self.view().dom().contains(s) ==> s < pow2(self.lgk() as nat) && 1 <= #[trigger] self.view()[s] <= 63
    }
    #[verifier::external_body]
    fn new(lg_config_k: u8) -> (r: Self)
      requires 4 <= lg_config_k <= 21
      ensures r.awf(), r.lgk() == lg_config_k, r.view().dom() =~= ISet::empty()
    { unimplemented!() }
    #[verifier::external_body]
    fn insert(&mut self, slot: u32, value: u8)
      requires old(self).awf(), slot < pow2(old(self).lgk() as nat),
        !old(self).view().dom().contains(slot), 1 <= value <= 63
      ensures final(self).awf(), final(self).lgk() == old(self).lgk(), final(self).view() == old(self).view().insert(slot, value)
    { unimplemented!() }
}
// the (slot, value) pairs of a map, each exactly once, in some order
#[verifier::opaque]
spec fn pairs_list(e: Seq<(u32, u8)>, m: IMap<u32, u8>) -> bool {
    &&& forall|i: int| 0 <= i < e.len() ==> m.dom().contains((#[trigger] e[i]).0) && m[e[i].0] == e[i].1
    &&& forall|i: int, j: int| 0 <= i < e.len() && 0 <= j < e.len() && i != j ==> (#[trigger] e[i]).0 != (#[trigger] e[j]).0
    &&& forall|s: u32| m.dom().contains(s) ==> exists|i: int| 0 <= i < e.len() && (#[trigger] e[i]).0 == s
}
// R6 shim for `aux.iter().collect()` (AuxMap::iter is a filter_map closure chain over the table: iterator leaf).  ASSUMED: it yields every
// pair of the view exactly once - what unit hll_auxmap proves for the consuming iterator (C02.aux_into_iter / C02.aux_iter_next).
#[verifier::external_body]
fn vx_aux_collect(aux: &AuxMap) -> (r: Vec<(u32, u8)>)
  requires aux.awf()
  ensures pairs_list(r@, aux.view())
{ unimplemented!() /* aux.iter().collect() */ }

// =====================================================================================================================
// FORMAT SPEC (DESIGN.md Appendix A, "HLL"), HLL4 array-mode images.  Written from the published layout, not from the Rust code.
//   0 preInts=10 | 1 serVer=1 | 2 famID=7 | 3 lgK | 4 lgAuxArrInts (read for updatable images) | 5 flags: COMPACT 8, OUT_OF_ORDER 16 | 6 curMin
//   7 mode: curMode(2) | tgt(0)<<2 | 8 hipAccum f64 | 16 kxq0 f64 | 24 kxq1 f64 | 32 curMinCount u32 | 36 auxCount u32
//   40 k/2 nibble bytes, ALWAYS present (register i: low nibble of byte i/2 for even i, high nibble for odd i; 15 = "see aux")
//   40+k/2 aux section: COMPACT: auxCount words slot | value<<26, value = the ABSOLUTE register value (not value - curMin)
//                       updatable (COMPACT clear): the hash table itself, 2^lgAuxArrInts words, 0 = empty; auxCount of them are non-empty
//                       (a sketch without exceptions has auxCount = 0 and readers ignore whatever follows the nibbles)
// =====================================================================================================================
ghost struct Hll4 {
    lg_k: u8,
    ooo: bool,
    hip: u64,
    kxq0: u64,
    kxq1: u64,
    cur_min: u8,
    num_at_cur_min: u32,
    nibs: Seq<u8>,            // the k/2 nibble bytes
    aux: IMap<u32, u8>,       // exceptions: slot -> absolute register value
}
spec fn pow2k(l: u8) -> int { pow2(l as nat) as int }
spec fn nbytes4(l: u8) -> int { pow2k(l) / 2 }
spec fn hll_flags(compact: bool, ooo: bool) -> u8 { ((if compact { 8int } else { 0int }) + (if ooo { 16int } else { 0int })) as u8 }
spec fn hll_mode_byte(cur_mode: u8, tgt: u8) -> u8 { (cur_mode as int + 4 * (tgt as int)) as u8 }
// register view of an image / sketch: nibble i, and the value it stands for
spec fn nib(bytes: Seq<u8>, i: int) -> u8 { if i % 2 == 0 { bytes[i / 2] & 15 } else { bytes[i / 2] >> 4 } }
spec fn preg(cur_min: u8, bytes: Seq<u8>, aux: IMap<u32, u8>, i: int) -> int {
    let n = nib(bytes, i);
    if n < 15 { cur_min as int + n as int } else { aux[i as u32] as int }
}
spec fn pcnt(cur_min: u8, bytes: Seq<u8>, aux: IMap<u32, u8>, v: int, n: int) -> int decreases n {
    if n <= 0 { 0 } else { pcnt(cur_min, bytes, aux, v, n - 1) + (if preg(cur_min, bytes, aux, n - 1) == v { 1int } else { 0int }) }
}
// number of exception registers among the first n
spec fn cnt15(bytes: Seq<u8>, n: int) -> int decreases n { if n <= 0 { 0 } else { cnt15(bytes, n - 1) + (if nib(bytes, n - 1) == 15 { 1int } else { 0int }) } }

// the spec ENCODER: any writer (Java, C++, this crate).  `ws` = the words of the aux section, auxCount = its non-empty words
spec fn enc_hll4_pre(compact: bool, lg_arr: u8, v: Hll4, aux_count: u32) -> Seq<u8> {
    seq![10u8, 1u8, 7u8, v.lg_k, lg_arr, hll_flags(compact, v.ooo), v.cur_min, hll_mode_byte(2, 0)]
      + le64_bytes(v.hip) + le64_bytes(v.kxq0) + le64_bytes(v.kxq1) + le32_bytes(v.num_at_cur_min) + le32_bytes(aux_count)
}
spec fn enc_hll4(compact: bool, lg_arr: u8, v: Hll4, ws: Seq<u32>) -> Seq<u8> {
    enc_hll4_pre(compact, lg_arr, v, nz(ws).len() as u32) + v.nibs + enc_u32s(ws)
}
// the aux section lists every exception slot exactly once
#[verifier::opaque]
spec fn aux_slots_ok(ws: Seq<u32>, aux: IMap<u32, u8>) -> bool {
    &&& forall|i: int| 0 <= i < ws.len() && ws[i] != 0 ==> aux.dom().contains(w_slot(#[trigger] ws[i]))
    &&& forall|i: int, j: int| 0 <= i < ws.len() && 0 <= j < ws.len() && i != j && ws[i] != 0 && ws[j] != 0 ==> w_slot(#[trigger] ws[i]) != w_slot(#[trigger] ws[j])
    &&& forall|s: u32| aux.dom().contains(s) ==> exists|i: int| 0 <= i < ws.len() && ws[i] != 0 && w_slot(#[trigger] ws[i]) == s
}
// ... and each word carries the value of that register
#[verifier::opaque]
spec fn aux_values_ok(ws: Seq<u32>, aux: IMap<u32, u8>) -> bool {
    forall|i: int| 0 <= i < ws.len() && ws[i] != 0 ==> aux[w_slot(#[trigger] ws[i])] == w_val(ws[i])
}
// the shape of the aux section that the COMPACT flag and byte 4 announce
spec fn aux_layout_ok(compact: bool, lg_arr: u8, ws: Seq<u32>) -> bool {
    if compact { forall|i: int| 0 <= i < ws.len() ==> #[trigger] ws[i] != 0 }
    else { ws.len() == pow2k(lg_arr) || (nz(ws).len() == 0 && ws.len() == 0) }
}
// the spec DECODER: header fields of an image ...
spec fn hdr_lg_k(img: Seq<u8>) -> u8 { img[3] }
spec fn hdr_compact(img: Seq<u8>) -> bool { img[5] & 8 != 0 }
spec fn hdr_ooo(img: Seq<u8>) -> bool { img[5] & 16 != 0 }
spec fn hdr_cur_mode(img: Seq<u8>) -> u8 { img[7] & 3 }
spec fn hdr_tgt(img: Seq<u8>) -> u8 { (img[7] >> 2) & 3 }
// the words after the nibbles of a whole image
spec fn img_aux_words(img: Seq<u8>, lg_k: u8) -> Seq<u32> { dec_u32s(img.skip(40 + nbytes4(lg_k)), (img.len() - 40 - nbytes4(lg_k)) / 4) }
// ... and of the payload p = img.skip(8) (where HllSketch::deserialize hands the cursor to the array parser)
spec fn dec_hip_bits(p: Seq<u8>) -> u64 { le64_val(p.subrange(0, 8)) }
spec fn dec_kxq0_bits(p: Seq<u8>) -> u64 { le64_val(p.subrange(8, 16)) }
spec fn dec_kxq1_bits(p: Seq<u8>) -> u64 { le64_val(p.subrange(16, 24)) }
spec fn dec_cur_min_count(p: Seq<u8>) -> u32 { le32_val(p.subrange(24, 28)) }
spec fn dec_aux_count(p: Seq<u8>) -> u32 { le32_val(p.subrange(28, 32)) }
spec fn dec_regs(p: Seq<u8>, nregbytes: int) -> Seq<u8> { p.subrange(32, 32 + nregbytes) }
// how many aux words the layout stores
spec fn hll4_nwords(p: Seq<u8>, compact: bool, lg_arr: u8) -> int {
    if dec_aux_count(p) == 0 { 0 } else if compact { dec_aux_count(p) as int } else { pow2k(lg_arr) }
}
spec fn dec_aux_ws(p: Seq<u8>, lg_k: u8, compact: bool, lg_arr: u8) -> Seq<u32> { dec_u32s(p.skip(32 + nbytes4(lg_k)), hll4_nwords(p, compact, lg_arr)) }
// readers take the slot modulo k
spec fn r_slot(w: u32, lg_k: u8) -> u32 { (w_slot(w) as int % pow2k(lg_k)) as u32 }
// the exception map an aux section stands for: every non-empty word, in order
spec fn aux_of_words(ws: Seq<u32>, lg_k: u8) -> IMap<u32, u8> decreases ws.len() {
    if ws.len() == 0 { IMap::empty() }
    else if ws.last() == 0 { aux_of_words(ws.drop_last(), lg_k) }
    else { aux_of_words(ws.drop_last(), lg_k).insert(r_slot(ws.last(), lg_k), w_val(ws.last())) }
}
// a payload is well-formed as far as its LENGTH and COUNT fields go (the content conditions are the wf clauses of C14)
spec fn valid_hll4_payload(p: Seq<u8>, lg_k: u8, compact: bool, lg_arr: u8) -> bool {
    &&& p.len() >= 32 + nbytes4(lg_k)
    &&& p.len() >= 32 + nbytes4(lg_k) + 4 * hll4_nwords(p, compact, lg_arr)
    &&& nz(dec_aux_ws(p, lg_k, compact, lg_arr)).len() == dec_aux_count(p)
}
spec fn dec_hll4(p: Seq<u8>, cur_min: u8, lg_k: u8, ooo: bool, compact: bool, lg_arr: u8) -> Hll4 {
    Hll4 { lg_k, ooo, hip: dec_hip_bits(p), kxq0: dec_kxq0_bits(p), kxq1: dec_kxq1_bits(p), cur_min, num_at_cur_min: dec_cur_min_count(p),
           nibs: dec_regs(p, nbytes4(lg_k)), aux: aux_of_words(dec_aux_ws(p, lg_k, compact, lg_arr), lg_k) }
}

proof fn lemma_k(l: u8) requires 4 <= l <= 21 ensures 16 <= pow2(l as nat) <= 0x20_0000, pow2(l as nat) % 2 == 0, (1u32 << l) == pow2(l as nat), pow2((l - 1) as nat) * 2 == pow2(l as nat) {
    lemma2_to64(); if l < 21 { lemma_pow2_strictly_increases(l as nat, 21); } if l > 4 { lemma_pow2_strictly_increases(4, l as nat); }
    lemma_pow2_unfold(l as nat);
    vstd::bits::lemma_u32_shl_is_mul(1, l as u32);
    assert((1u32 << (l as u32)) == (1u32 << l));
}
proof fn lemma_shl_usize(l: u8)
  requires l <= 21
  ensures (1usize << l) == pow2(l as nat)
{
    lemma2_to64();
    lemma_pow2_strictly_increases(l as nat, 22);
    vstd::bits::lemma_usize_shl_is_mul(1, l as usize);
    assert((1usize << (l as usize)) == (1usize << l));
}
proof fn lemma_lbm(n: nat)
  ensures vstd::bits::low_bits_mask(n) == pow2(n) - 1
  decreases n
{
    lemma2_to64();
    vstd::bits::lemma_low_bits_mask_values();
    if n > 0 { lemma_lbm((n - 1) as nat); vstd::bits::lemma_low_bits_mask_unfold(n); lemma_pow2_unfold(n); }
}
proof fn lemma_mask(x: u32, l: u8)
  requires 4 <= l <= 21
  ensures (x & (((1u32 << l) - 1) as u32)) == x % (pow2(l as nat) as u32), (x & (((1u32 << l) - 1) as u32)) < pow2(l as nat)
{
    lemma_k(l);
    vstd::bits::lemma_u32_low_bits_mask_is_mod(x, l as nat);
    lemma_lbm(l as nat);
}

// what aux_of_words contains: the slots of the non-empty words; with distinct slots, each word's value
proof fn lemma_aux_of_words_dom(ws: Seq<u32>, lg_k: u8, s: u32)
  ensures aux_of_words(ws, lg_k).dom().contains(s) <==> exists|i: int| 0 <= i < ws.len() && #[trigger] ws[i] != 0 && r_slot(ws[i], lg_k) == s
  decreases ws.len()
{
    if ws.len() > 0 {
        let d = ws.drop_last();
        lemma_aux_of_words_dom(d, lg_k, s);
        if exists|i: int| 0 <= i < d.len() && #[trigger] d[i] != 0 && r_slot(d[i], lg_k) == s {
            let i = choose|i: int| 0 <= i < d.len() && #[trigger] d[i] != 0 && r_slot(d[i], lg_k) == s;
            assert(ws[i] != 0 && r_slot(ws[i], lg_k) == s);
        }
        if exists|i: int| 0 <= i < ws.len() && #[trigger] ws[i] != 0 && r_slot(ws[i], lg_k) == s {
            let i = choose|i: int| 0 <= i < ws.len() && #[trigger] ws[i] != 0 && r_slot(ws[i], lg_k) == s;
            if i < d.len() { assert(d[i] != 0 && r_slot(d[i], lg_k) == s); }
        }
        assert(ws[ws.len() - 1] == ws.last());
    }
}
proof fn lemma_aux_of_words_val(ws: Seq<u32>, lg_k: u8, i: int)
  requires 0 <= i < ws.len(), ws[i] != 0,
    forall|a: int, b: int| 0 <= a < ws.len() && 0 <= b < ws.len() && a != b && ws[a] != 0 && ws[b] != 0 ==> r_slot(#[trigger] ws[a], lg_k) != r_slot(#[trigger] ws[b], lg_k)
  ensures aux_of_words(ws, lg_k).dom().contains(r_slot(ws[i], lg_k)), aux_of_words(ws, lg_k)[r_slot(ws[i], lg_k)] == w_val(ws[i])
  decreases ws.len()
{
    let d = ws.drop_last();
    if i < ws.len() - 1 {
        assert forall|a: int, b: int| 0 <= a < d.len() && 0 <= b < d.len() && a != b && d[a] != 0 && d[b] != 0 implies r_slot(#[trigger] d[a], lg_k) != r_slot(#[trigger] d[b], lg_k) by {
            assert(d[a] == ws[a] && d[b] == ws[b]);
        }
        lemma_aux_of_words_val(d, lg_k, i);
        assert(d[i] == ws[i]);
        if ws.last() != 0 { assert(ws[ws.len() - 1] == ws.last()); assert(r_slot(ws[ws.len() - 1], lg_k) != r_slot(ws[i], lg_k)); }
    }
}

// the exception map read back from an aux section that lists `aux` (either layout) is `aux`
proof fn lemma_aux_roundtrip(ws: Seq<u32>, aux: IMap<u32, u8>, lg_k: u8)
  requires 4 <= lg_k <= 21, aux_slots_ok(ws, aux), aux_values_ok(ws, aux), forall|s: u32| aux.dom().contains(s) ==> s < pow2k(lg_k),
  ensures aux_of_words(ws, lg_k) == aux
{
    reveal(aux_slots_ok); reveal(aux_values_ok);
    let k = pow2k(lg_k);
    lemma_k(lg_k);
    let a2 = aux_of_words(ws, lg_k);
    assert forall|i: int| 0 <= i < ws.len() && ws[i] != 0 implies r_slot(#[trigger] ws[i], lg_k) == w_slot(ws[i]) by {
        assert(aux.dom().contains(w_slot(ws[i])));
        vstd::arithmetic::div_mod::lemma_small_mod(w_slot(ws[i]) as nat, k as nat);
    }
    assert forall|s: u32| a2.dom().contains(s) <==> aux.dom().contains(s) by {
        lemma_aux_of_words_dom(ws, lg_k, s);
        if aux.dom().contains(s) {
            let i = choose|i: int| 0 <= i < ws.len() && ws[i] != 0 && w_slot(#[trigger] ws[i]) == s;
            assert(ws[i] != 0 && r_slot(ws[i], lg_k) == s);
        }
    }
    assert forall|s: u32| a2.dom().contains(s) implies a2[s] == aux[s] by {
        let i = choose|i: int| 0 <= i < ws.len() && ws[i] != 0 && w_slot(#[trigger] ws[i]) == s;
        lemma_aux_of_words_val(ws, lg_k, i);
    }
    assert(a2 =~= aux);
}
// the 40 preamble bytes of any image, read back field by field
proof fn lemma_hll4_pre(compact: bool, lg_arr: u8, v: Hll4, cnt: u32, tail: Seq<u8>)
  ensures ({ let img = enc_hll4_pre(compact, lg_arr, v, cnt) + tail; let p = img.skip(8);
     &&& img.len() == 40 + tail.len()
     &&& img[0] == 10 && img[1] == 1 && img[2] == 7 && img[4] == lg_arr && img[6] == v.cur_min
     &&& hdr_lg_k(img) == v.lg_k &&& hdr_compact(img) == compact &&& hdr_ooo(img) == v.ooo &&& hdr_cur_mode(img) == 2 &&& hdr_tgt(img) == 0
     &&& dec_hip_bits(p) == v.hip &&& dec_kxq0_bits(p) == v.kxq0 &&& dec_kxq1_bits(p) == v.kxq1 &&& dec_cur_min_count(p) == v.num_at_cur_min &&& dec_aux_count(p) == cnt
     &&& p.skip(32) == tail })
{
    let img = enc_hll4_pre(compact, lg_arr, v, cnt) + tail; let p = img.skip(8);
    lemma_le64_roundtrip(v.hip); lemma_le64_roundtrip(v.kxq0); lemma_le64_roundtrip(v.kxq1); lemma_le32_roundtrip(v.num_at_cur_min); lemma_le32_roundtrip(cnt);
    assert(p.subrange(0, 8) =~= le64_bytes(v.hip));
    assert(p.subrange(8, 16) =~= le64_bytes(v.kxq0));
    assert(p.subrange(16, 24) =~= le64_bytes(v.kxq1));
    assert(p.subrange(24, 28) =~= le32_bytes(v.num_at_cur_min));
    assert(p.subrange(28, 32) =~= le32_bytes(cnt));
    assert(p.skip(32) =~= tail);
    let f = hll_flags(compact, v.ooo); let m = hll_mode_byte(2, 0);
    assert(img[5] == f && img[7] == m);
    assert((f == 0 || f == 8 || f == 16 || f == 24) ==> ((f & 8 != 0) == (f == 8 || f == 24)) && ((f & 16 != 0) == (f == 16 || f == 24))) by (bit_vector);
    assert(m == 2 ==> (m & 3 == 2) && ((m >> 2) & 3 == 0)) by (bit_vector);
}
// C11 at spec level: the spec decoder inverts the spec encoder for both aux layouts
proof fn lemma_hll4_roundtrip(compact: bool, lg_arr: u8, v: Hll4, ws: Seq<u32>)
  requires 4 <= v.lg_k <= 21, v.nibs.len() == nbytes4(v.lg_k), ws.len() < 0x1_0000_0000,
    aux_layout_ok(compact, lg_arr, ws), aux_slots_ok(ws, v.aux), aux_values_ok(ws, v.aux),
    forall|s: u32| v.aux.dom().contains(s) ==> s < pow2k(v.lg_k),
  ensures ({ let img = enc_hll4(compact, lg_arr, v, ws); let p = img.skip(8);
     &&& img.len() == 40 + nbytes4(v.lg_k) + 4 * ws.len()
     &&& img[0] == 10 && img[1] == 1 && img[2] == 7 && img[4] == lg_arr && img[6] == v.cur_min
     &&& hdr_lg_k(img) == v.lg_k &&& hdr_compact(img) == compact &&& hdr_ooo(img) == v.ooo &&& hdr_cur_mode(img) == 2 &&& hdr_tgt(img) == 0
     &&& valid_hll4_payload(p, v.lg_k, compact, lg_arr)
     &&& dec_aux_ws(p, v.lg_k, compact, lg_arr) == (if nz(ws).len() == 0 { Seq::<u32>::empty() } else { ws })
     &&& img_aux_words(img, v.lg_k) == ws
     &&& dec_hll4(p, v.cur_min, v.lg_k, v.ooo, compact, lg_arr) == v })
{
    let img = enc_hll4(compact, lg_arr, v, ws); let p = img.skip(8);
    let nb = nbytes4(v.lg_k);
    let cnt = nz(ws).len() as u32;
    lemma_nz_le(ws);
    lemma_enc_u32s_len(ws);
    let tail = v.nibs + enc_u32s(ws);
    assert(img =~= enc_hll4_pre(compact, lg_arr, v, cnt) + tail);
    lemma_hll4_pre(compact, lg_arr, v, cnt, tail);
    assert(dec_regs(p, nb) =~= v.nibs);
    assert(p.skip(32 + nb) =~= enc_u32s(ws) + Seq::<u8>::empty());
    assert(img.skip(40 + nb) =~= enc_u32s(ws) + Seq::<u8>::empty());
    lemma_dec_enc_u32s_all(ws, Seq::<u8>::empty());
    assert((img.len() - 40 - nb) / 4 == ws.len());
    let k = pow2k(v.lg_k);
    lemma_k(v.lg_k);
    if cnt == 0 {
        // no exception: whatever the writer appended is ignored
        assert(dec_aux_ws(p, v.lg_k, compact, lg_arr) =~= Seq::<u32>::empty());
        assert forall|s: u32| !v.aux.dom().contains(s) by {
            reveal(aux_slots_ok);
            if v.aux.dom().contains(s) {
                let i = choose|i: int| 0 <= i < ws.len() && ws[i] != 0 && w_slot(#[trigger] ws[i]) == s;
                lemma_nz_none(ws, i);
            }
        }
        assert(aux_of_words(Seq::<u32>::empty(), v.lg_k) =~= v.aux);
    } else {
        if compact { lemma_nz_id(ws); } else { assert(ws.len() == pow2k(lg_arr)); }
        assert(hll4_nwords(p, compact, lg_arr) == ws.len());
        assert(dec_aux_ws(p, v.lg_k, compact, lg_arr) == ws);
        lemma_aux_roundtrip(ws, v.aux, v.lg_k);
    }
}

// =====================================================================================================================
// hll/array4.rs
// =====================================================================================================================
struct Array4 {
lg_config_k : u8 , bytes : Box < [ u8 ] > , cur_min : u8 , num_at_cur_min : u32 , aux_map : Option < AuxMap > , estimator : HipEstimator , }



// the listed exception slots are exactly the nibbles holding 15: there are cnt15 of them
proof fn lemma_cnt15(slots: Seq<u32>, bytes: Seq<u8>, n: int)
  requires n >= 0,
    forall|i: int| 0 <= i < slots.len() ==> (#[trigger] slots[i]) < n && nib(bytes, slots[i] as int) == 15,
    forall|i: int, j: int| 0 <= i < slots.len() && 0 <= j < slots.len() && i != j ==> slots[i] != slots[j],
    forall|t: int| 0 <= t < n && nib(bytes, t) == 15 ==> exists|i: int| 0 <= i < slots.len() && #[trigger] slots[i] == t,
  ensures slots.len() == cnt15(bytes, n)
  decreases n
{
    if n > 0 {
        if nib(bytes, n - 1) == 15 {
            let i0 = choose|i: int| 0 <= i < slots.len() && #[trigger] slots[i] == n - 1;
            let s2 = slots.remove(i0);
            assert forall|i: int| 0 <= i < s2.len() implies (#[trigger] s2[i]) < n - 1 && nib(bytes, s2[i] as int) == 15 by {
                let i1 = if i < i0 { i } else { i + 1 };
                assert(s2[i] == slots[i1]); assert(slots[i1] != slots[i0]);
            }
            assert forall|i: int, j: int| 0 <= i < s2.len() && 0 <= j < s2.len() && i != j implies s2[i] != s2[j] by {
                let i1 = if i < i0 { i } else { i + 1 }; let j1 = if j < i0 { j } else { j + 1 };
                assert(s2[i] == slots[i1] && s2[j] == slots[j1]);
            }
            assert forall|t: int| 0 <= t < n - 1 && nib(bytes, t) == 15 implies exists|i: int| 0 <= i < s2.len() && #[trigger] s2[i] == t by {
                let i = choose|i: int| 0 <= i < slots.len() && #[trigger] slots[i] == t;
                assert(i != i0);
                let i2 = if i < i0 { i } else { i - 1 };
                assert(s2[i2] == t);
            }
            lemma_cnt15(s2, bytes, n - 1);
        } else {
            assert forall|i: int| 0 <= i < slots.len() implies (#[trigger] slots[i]) < n - 1 by { }
            lemma_cnt15(slots, bytes, n - 1);
        }
    } else {
        if slots.len() > 0 { assert(slots[0] < n); }
    }
}
proof fn lemma_cnt15_le(bytes: Seq<u8>, n: int) ensures 0 <= cnt15(bytes, n) <= (if n >= 0 { n } else { 0 }) decreases n { if n > 0 { lemma_cnt15_le(bytes, n - 1); } }

// the parser's aux loop, on pure values: `m` is the map after i words (given that none of them was empty)
#[verifier::opaque]
spec fn prefix_nz(pa: Seq<u8>, i: int) -> bool { forall|j: int| 0 <= j < i ==> dec_u32_at(pa, j) != 0 }
proof fn lemma_aux_start(pa: Seq<u8>, lg_k: u8, m: IMap<u32, u8>)
  requires m.dom() =~= ISet::empty()
  ensures m == aux_of_words(dec_u32s(pa, 0), lg_k)
{
    assert(m =~= aux_of_words(dec_u32s(pa, 0), lg_k));
}
proof fn lemma_aux_step(pa: Seq<u8>, i: int, lg_k: u8, m: IMap<u32, u8>)
  requires 0 <= i, prefix_nz(pa, i) ==> m == aux_of_words(dec_u32s(pa, i), lg_k)
  ensures prefix_nz(pa, i + 1) ==> m.insert(r_slot(dec_u32_at(pa, i), lg_k), w_val(dec_u32_at(pa, i))) == aux_of_words(dec_u32s(pa, i + 1), lg_k)
{
    reveal(prefix_nz);
    assert(dec_u32s(pa, i + 1).drop_last() =~= dec_u32s(pa, i));
    assert(dec_u32s(pa, i + 1).last() == dec_u32_at(pa, i));
}
// a COMPACT payload that is valid (auxCount non-empty words among auxCount words) has no empty word
proof fn lemma_aux_done(p0: Seq<u8>, pa: Seq<u8>, lg_k: u8, lg_arr: u8)
  requires valid_hll4_payload(p0, lg_k, true, lg_arr), pa == p0.skip(32 + nbytes4(lg_k))
  ensures prefix_nz(pa, dec_aux_count(p0) as int), dec_aux_ws(p0, lg_k, true, lg_arr) == dec_u32s(pa, dec_aux_count(p0) as int)
{
    reveal(prefix_nz);
    let ws = dec_aux_ws(p0, lg_k, true, lg_arr);
    let n = dec_aux_count(p0);
    if n > 0 {
        assert(ws == dec_u32s(pa, n as int));
        assert forall|j: int| 0 <= j < n implies dec_u32_at(pa, j) != 0 by { lemma_nz_full(ws, j); }
    } else {
        assert(ws =~= dec_u32s(pa, 0));
    }
}

// serialize, step 0: there are as many pairs as exception nibbles
proof fn lemma_ser4_count(a: Array4, es: Seq<(u32, u8)>)
  requires a.wf(), pairs_list(es, a.auxv())
  ensures es.len() == cnt15(a.bytes@, a.k()), es.len() <= a.k()
{
    reveal(pairs_list); reveal(Array4::wf_aux_token); reveal(Array4::wf_aux_range);
    lemma_k(a.lg_config_k);
    let kk = a.k();
    let slots = Seq::new(es.len(), |i: int| es[i].0);
    assert forall|i: int| 0 <= i < slots.len() implies (#[trigger] slots[i]) < kk && nib(a.bytes@, slots[i] as int) == 15 by {
        assert(a.auxv().dom().contains(es[i].0));
        assert(nib(a.bytes@, es[i].0 as int) == 15 <==> a.auxv().dom().contains((es[i].0 as int) as u32));
    }
    assert forall|i: int, j: int| 0 <= i < slots.len() && 0 <= j < slots.len() && i != j implies slots[i] != slots[j] by {
        assert(es[i].0 != es[j].0);
    }
    assert forall|t: int| 0 <= t < kk && nib(a.bytes@, t) == 15 implies exists|i: int| 0 <= i < slots.len() && #[trigger] slots[i] == t by {
        assert(a.auxv().dom().contains(t as u32));
        let i = choose|i: int| 0 <= i < es.len() && (#[trigger] es[i]).0 == t as u32;
        assert(slots[i] == t);
    }
    lemma_k(a.lg_config_k);
    lemma_cnt15(slots, a.bytes@, kk);
    lemma_cnt15_le(a.bytes@, kk);
}

// serialize, step 1: every pair of the aux map is (slot < k, the register value of that slot), and that value is >= cur_min + 15
proof fn lemma_ser4_pairs(a: Array4, es: Seq<(u32, u8)>)
  requires a.wf(), pairs_list(es, a.auxv())
  ensures forall|j: int| 0 <= j < es.len() ==> (#[trigger] es[j]).0 <= 0x3ffffff && 15 <= es[j].1 <= 63 && a.reg(es[j].0 as int) == es[j].1 as int
{
    reveal(pairs_list); reveal(Array4::wf_aux_token); reveal(Array4::wf_aux_range);
    lemma_k(a.lg_config_k);
    assert forall|j: int| 0 <= j < es.len() implies (#[trigger] es[j]).0 <= 0x3ffffff && 15 <= es[j].1 <= 63 && a.reg(es[j].0 as int) == es[j].1 as int by {
        let s = es[j].0;
        assert(a.auxv().dom().contains(s));
        assert(nib(a.bytes@, s as int) == 15 <==> a.auxv().dom().contains((s as int) as u32));
    }
}
// serialize, step 1b: words that carry those slots and values list the aux map
proof fn lemma_ser4_words(a: Array4, es: Seq<(u32, u8)>, wr: Seq<u32>)
  requires a.wf(), pairs_list(es, a.auxv()), wr.len() == es.len(),
    forall|j: int| 0 <= j < wr.len() ==> w_slot(#[trigger] wr[j]) == es[j].0,
    forall|j: int| 0 <= j < wr.len() ==> w_val(#[trigger] wr[j]) as int == a.reg(es[j].0 as int),
  ensures
    forall|i: int| 0 <= i < wr.len() ==> #[trigger] wr[i] != 0,
    aux_slots_ok(wr, a.auxv()),
    forall|i: int| 0 <= i < wr.len() && wr[i] != 0 ==> w_val(#[trigger] wr[i]) as int == a.reg(w_slot(wr[i]) as int),
{
    lemma_ser4_pairs(a, es);
    reveal(pairs_list); reveal(aux_slots_ok);
    assert forall|i: int| 0 <= i < wr.len() implies #[trigger] wr[i] != 0 by {
        let w = wr[i];
        assert(es[i].1 >= 15 && w_val(w) == es[i].1);
        assert((w >> 26) != 0 ==> w != 0) by (bit_vector);
    }
    assert forall|s: u32| a.auxv().dom().contains(s) implies exists|i: int| 0 <= i < wr.len() && wr[i] != 0 && w_slot(#[trigger] wr[i]) == s by {
        let i = choose|i: int| 0 <= i < es.len() && (#[trigger] es[i]).0 == s;
        assert(wr[i] != 0 && w_slot(wr[i]) == s);
    }
    assert forall|i: int, j: int| 0 <= i < wr.len() && 0 <= j < wr.len() && i != j && wr[i] != 0 && wr[j] != 0 implies w_slot(#[trigger] wr[i]) != w_slot(#[trigger] wr[j]) by {
        assert(es[i].0 != es[j].0);
    }
    assert forall|i: int| 0 <= i < wr.len() implies a.auxv().dom().contains(w_slot(#[trigger] wr[i])) by {
        assert(a.auxv().dom().contains(es[i].0));
    }
}
// serialize, step 2: the aux section read back from the whole image is the list written
proof fn lemma_ser4_image(a: Array4, ws: Seq<u32>, img: Seq<u8>, cf: bool, lg_arr: u8)
  requires a.wf_shape(), img == enc_hll4(cf, lg_arr, a.aview(), ws), ws.len() <= 0x20_0000
  ensures img_aux_words(img, a.lg_config_k) == ws, img.len() == 40 + nbytes4(a.lg_config_k) + 4 * ws.len(), img[4] == lg_arr, hdr_compact(img) == cf
{
    let f = hll_flags(cf, a.estimator.out_of_order);
    lemma_k(a.lg_config_k);
    lemma_enc_u32s_len(ws);
    lemma_le64_roundtrip(a.aview().hip); lemma_le64_roundtrip(a.aview().kxq0); lemma_le64_roundtrip(a.aview().kxq1);
    lemma_le32_roundtrip(a.num_at_cur_min); lemma_le32_roundtrip(nz(ws).len() as u32);
    assert(img[5] == f);
    assert((f == 0 || f == 16) ==> (f & 8 == 0)) by (bit_vector);
    assert((f == 8 || f == 24) ==> (f & 8 != 0)) by (bit_vector);
    assert(img.skip(40 + nbytes4(a.lg_config_k)) =~= enc_u32s(ws) + Seq::<u8>::empty());
    lemma_dec_enc_u32s_all(ws, Seq::<u8>::empty());
    assert((img.len() - 40 - nbytes4(a.lg_config_k)) / 4 == ws.len());
}

impl Array4 {
    spec fn k(&self) -> int { pow2(self.lg_config_k as nat) as int }
    spec fn auxv(&self) -> IMap<u32, u8> { if self.aux_map is Some { self.aux_map->0.view() } else { IMap::empty() } }
    // C02 register view (same as unit hll_array4)
    spec fn reg(&self, i: int) -> int { preg(self.cur_min, self.bytes@, self.auxv(), i) }
    // abstract content of the sketch (floats as bit patterns)
    spec fn aview(&self) -> Hll4 {
        Hll4 { lg_k: self.lg_config_k, ooo: self.estimator.out_of_order, hip: f64_bits(self.estimator.hip_accum), kxq0: f64_bits(self.estimator.kxq0),
               kxq1: f64_bits(self.estimator.kxq1), cur_min: self.cur_min, num_at_cur_min: self.num_at_cur_min, nibs: self.bytes@, aux: self.auxv() }
    }
    // the invariant of unit hll_array4 (wf2), one conjunct per fact a parser has to establish
    spec fn wf_shape(&self) -> bool { 4 <= self.lg_config_k <= 21 && self.bytes@.len() * 2 == self.k() }
    spec fn wf_aux_map(&self) -> bool { self.aux_map matches Some(m) ==> m.awf() && m.lgk() == self.lg_config_k }
    // nibble == 15 <=> the slot has an aux entry (update: `.expect("slot should be in aux_map ..")`)
    #[verifier::opaque]
    spec fn wf_aux_token(&self) -> bool { forall|i: int| 0 <= i < self.k() ==> (nib(self.bytes@, i) == 15 <==> #[trigger] self.auxv().dom().contains(i as u32)) }
    // aux values are out of nibble range (shift_to_bigger_cur_min: `old_actual_val - new_cur_min`; update compares against cur_min + 15)
    #[verifier::opaque]
    spec fn wf_aux_range(&self) -> bool { forall|s: u32| #[trigger] self.auxv().dom().contains(s) ==> s < self.k() && self.cur_min + 15 <= self.auxv()[s] <= 63 }
    // registers are at most 63 (get: `cur_min + raw`; estimator: `1 << value`)
    #[verifier::opaque]
    spec fn wf_reg_range(&self) -> bool { self.cur_min <= 63 && forall|i: int| 0 <= i < self.k() ==> #[trigger] preg(self.cur_min, self.bytes@, self.auxv(), i) <= 63 }
    // num_at_cur_min counts the registers equal to cur_min and is positive (update: `num_at_cur_min -= 1`, shift: `raw - 1`)
    #[verifier::opaque]
    spec fn wf_num_at_cur_min(&self) -> bool { self.num_at_cur_min == pcnt(self.cur_min, self.bytes@, self.auxv(), self.cur_min as int, self.k()) && self.num_at_cur_min > 0 }
    spec fn wf_ooo_hip(&self) -> bool { self.estimator.out_of_order ==> self.estimator.hip_accum == 0.0f64 }
    spec fn wf(&self) -> bool {
        self.wf_shape() && self.wf_aux_map() && self.wf_aux_token() && self.wf_aux_range() && self.wf_reg_range() && self.wf_num_at_cur_min() && self.wf_ooo_hip()
    }

    #[verifier::loop_isolation(false)]
    #[verifier::spinoff_prover]
    fn deserialize ( mut cursor : SketchSlice , cur_min : u8 , lg_config_k : u8 , _compact : bool , ooo : bool , Ghost ( lg_arr ) : Ghost < u8 > , ) -> ( r : Result < Self , Error > ) requires 4 <= lg_config_k <= 21 , ensures
/*@C13.hll4.accepts*/ valid_hll4_payload ( cursor . rem ( ) , lg_config_k , _compact , lg_arr ) ==> r is Ok ,
/*@C14.hll4.rejects_truncated*/ cursor . rem ( ) . len ( ) < 32 + nbytes4 ( lg_config_k ) || ( _compact && cursor . rem ( ) . len ( ) < 32 + nbytes4 ( lg_config_k ) + 4 * dec_aux_count ( cursor . rem ( ) ) ) ==> r is Err ,
/*@C13.hll4.lg_k*/ r matches Ok ( a ) ==> a . lg_config_k == lg_config_k ,
/*@C13.hll4.cur_min*/ r matches Ok ( a ) ==> a . cur_min == cur_min ,
/*@C13.hll4.regs*/ r matches Ok ( a ) ==> a . bytes @ == dec_regs ( cursor . rem ( ) , nbytes4 ( lg_config_k ) ) ,
/*@C13.hll4.num_at_cur_min*/ r matches Ok ( a ) ==> a . num_at_cur_min == dec_cur_min_count ( cursor . rem ( ) ) ,
/*@C13.hll4.flags.ooo*/ r matches Ok ( a ) ==> a . estimator . out_of_order == ooo ,
/*@C13.hll4.kxq*/ r matches Ok ( a ) ==> f64_bits ( a . estimator . kxq0 ) == dec_kxq0_bits ( cursor . rem ( ) ) && f64_bits ( a . estimator . kxq1 ) == dec_kxq1_bits ( cursor . rem ( ) ) ,
/*@C13.hll4.hip*/ r matches Ok ( a ) ==> ! ooo ==> f64_bits ( a . estimator . hip_accum ) == dec_hip_bits ( cursor . rem ( ) ) ,
/*@C13.hll4.compact.aux*/ r matches Ok ( a ) ==> _compact && valid_hll4_payload ( cursor . rem ( ) , lg_config_k , _compact , lg_arr ) ==> a . auxv ( ) == aux_of_words ( dec_aux_ws ( cursor . rem ( ) , lg_config_k , true , lg_arr ) , lg_config_k ) ,
/*@C13.hll4.updatable.aux*/ r matches Ok ( a ) ==> ! _compact && valid_hll4_payload ( cursor . rem ( ) , lg_config_k , _compact , lg_arr ) ==> a . auxv ( ) == aux_of_words ( dec_aux_ws ( cursor . rem ( ) , lg_config_k , false , lg_arr ) , lg_config_k ) ,
/*@C14.hll4.wf_shape*/ r matches Ok ( a ) ==> a . wf_shape ( ) ,
/*@C14.hll4.wf_aux_map*/ r matches Ok ( a ) ==> a . wf_aux_map ( ) ,
/*@C14.hll4.wf_ooo_hip*/ r matches Ok ( a ) ==> a . wf_ooo_hip ( ) ,
/*@C14.hll4.wf_aux_token*/ r matches Ok ( a ) ==> a . wf_aux_token ( ) ,
/*@C14.hll4.wf_aux_range*/ r matches Ok ( a ) ==> a . wf_aux_range ( ) ,
/*@C14.hll4.wf_reg_range*/ r matches Ok ( a ) ==> a . wf_reg_range ( ) ,
/*@C14.hll4.wf_num_at_cur_min*/ r matches Ok ( a ) ==> a . wf_num_at_cur_min ( ) , {
proof {
lemma_k ( lg_config_k ) ;
lemma_shl_usize ( ( lg_config_k - 1 ) as u8 ) ;
}
let num_bytes = 1 << ( lg_config_k - 1 ) ;
let ghost p0 = cursor . rem ( ) ;
let ghost nb = nbytes4 ( lg_config_k ) ;
let ghost ok_len = valid_hll4_payload ( p0 , lg_config_k , _compact , lg_arr ) ;
let hip_accum = cursor . read_f64_le ( ) . vx_io ( "hip_accum" ) ? ;
let kxq0 = cursor . read_f64_le ( ) . vx_io ( "kxq0" ) ? ;
let kxq1 = cursor . read_f64_le ( ) . vx_io ( "kxq1" ) ? ;
let num_at_cur_min = cursor . read_u32_le ( ) . vx_io ( "num_at_cur_min" ) ? ;
let aux_count = cursor . read_u32_le ( ) . vx_io ( "aux_count" ) ? ;
let mut data = vx_zeroed_u8 ( num_bytes ) ;
cursor . read_exact ( & mut data ) . vx_io ( "data" ) ? ;
let ghost pa = cursor . rem ( ) ;
proof {
assert ( p0 . take ( 8 ) =~= p0 . subrange ( 0 , 8 ) ) ;
assert ( p0 . skip ( 8 ) . take ( 8 ) =~= p0 . subrange ( 8 , 16 ) ) ;
assert ( p0 . skip ( 8 ) . skip ( 8 ) . take ( 8 ) =~= p0 . subrange ( 16 , 24 ) ) ;
assert ( p0 . skip ( 8 ) . skip ( 8 ) . skip ( 8 ) . take ( 4 ) =~= p0 . subrange ( 24 , 28 ) ) ;
assert ( p0 . skip ( 8 ) . skip ( 8 ) . skip ( 8 ) . skip ( 4 ) . take ( 4 ) =~= p0 . subrange ( 28 , 32 ) ) ;
assert ( p0 . skip ( 8 ) . skip ( 8 ) . skip ( 8 ) . skip ( 4 ) . skip ( 4 ) . take ( nb ) =~= dec_regs ( p0 , nb ) ) ;
assert ( pa =~= p0 . skip ( 32 + nb ) ) ;
assert (
/*@C13.hll4.num_at_cur_min*/ num_at_cur_min == dec_cur_min_count ( p0 ) ) ;
assert (
/*@C13.hll4.aux_count*/ aux_count == dec_aux_count ( p0 ) ) ;
}
let mut aux_map = None ;
if aux_count > 0 {
let mut aux = AuxMap :: new ( lg_config_k ) ;
proof {
lemma_aux_start ( pa , lg_config_k , aux . view ( ) ) ;
if ok_len {
lemma_nz_le ( dec_aux_ws ( p0 , lg_config_k , _compact , lg_arr ) ) ;
}
}
for i in 0 .. aux_count invariant 4 <= lg_config_k <= 21 , aux . awf ( ) , aux . lgk ( ) == lg_config_k , pa . len ( ) >= 4 * i , cursor . rem ( ) == pa . skip ( 4 * i ) , ok_len ==> pa . len ( ) >= 4 * aux_count ,
/*@C13.hll4.compact.aux*/ prefix_nz ( pa , i as int ) ==> aux . view ( ) == aux_of_words ( dec_u32s ( pa , i as int ) , lg_config_k ) , {
let coupon = cursor . read_u32_le ( ) . vx_io ( "coupon" ) ? ;
proof {
lemma_k ( lg_config_k ) ;
lemma_skip_word ( pa , i as int ) ;
lemma_mask ( w_slot ( coupon ) , lg_config_k ) ;
lemma_aux_step ( pa , i as int , lg_config_k , aux . view ( ) ) ;
}
let slot = get_slot ( coupon ) & ( ( 1 << lg_config_k ) - 1 ) ;
let value = get_value ( coupon ) ;
proof {
assert (
/*@C14.hll4.aux_no_dup*/ ! aux . view ( ) . dom ( ) . contains ( slot ) ) ;
assert (
/*@C14.hll4.aux_value_nonzero*/ 1 <= value ) ;
}
aux . insert ( slot , value ) ;
}
aux_map = Some ( aux ) ;
}
let mut estimator = HipEstimator :: new ( lg_config_k ) ;
estimator . set_hip_accum ( hip_accum ) ;
estimator . set_kxq0 ( kxq0 ) ;
estimator . set_kxq1 ( kxq1 ) ;
estimator . set_out_of_order ( ooo ) ;
proof {
axiom_f64_bits_roundtrip ( le64_val ( p0 . subrange ( 0 , 8 ) ) ) ;
axiom_f64_bits_roundtrip ( le64_val ( p0 . subrange ( 8 , 16 ) ) ) ;
axiom_f64_bits_roundtrip ( le64_val ( p0 . subrange ( 16 , 24 ) ) ) ;
if _compact && ok_len {
lemma_aux_done ( p0 , pa , lg_config_k , lg_arr ) ;
}
if valid_hll4_payload ( p0 , lg_config_k , _compact , lg_arr ) {
lemma_nz_le ( dec_aux_ws ( p0 , lg_config_k , _compact , lg_arr ) ) ;
}
}
Ok ( Self {
lg_config_k , bytes : data . into_boxed_slice ( ) , cur_min , num_at_cur_min , aux_map , estimator , }
) }


    #[verifier::spinoff_prover]
    fn serialize ( & self , lg_config_k : u8 ) -> ( r : Vec < u8 > ) requires self . wf ( ) , lg_config_k == self . lg_config_k ensures
/*@C12.hll4.image*/ r @ == enc_hll4 ( hdr_compact ( r @ ) , r @ [ 4 ] , self . aview ( ) , img_aux_words ( r @ , lg_config_k ) ) ,
/*@C12.hll4.aux_slots*/ aux_slots_ok ( img_aux_words ( r @ , lg_config_k ) , self . auxv ( ) ) ,
/*@C12.hll4.aux_values_absolute*/ forall | i : int | 0 <= i < img_aux_words ( r @ , lg_config_k ) . len ( ) && img_aux_words ( r @ , lg_config_k ) [ i ] != 0 ==> w_val ( # [ trigger ] img_aux_words ( r @ , lg_config_k ) [ i ] ) as int == self . reg ( w_slot ( img_aux_words ( r @ , lg_config_k ) [ i ] ) as int ) ,
/*@C12.hll4.aux_layout*/ aux_layout_ok ( hdr_compact ( r @ ) , r @ [ 4 ] , img_aux_words ( r @ , lg_config_k ) ) ,
/*@C18.hll4.size*/ r @ . len ( ) == 40 + pow2k ( lg_config_k ) / 2 + 4 * cnt15 ( self . bytes @ , pow2k ( lg_config_k ) ) ,
/*@C18.hll4.bound*/ r @ . len ( ) <= 40 + pow2k ( lg_config_k ) / 2 + 4 * pow2k ( lg_config_k ) , {
proof {
lemma_k ( lg_config_k ) ;
lemma_shl_usize ( ( lg_config_k - 1 ) as u8 ) ;
}
let num_bytes = 1 << ( lg_config_k - 1 ) ;
let aux_entries : Vec < ( u32 , u8 ) > = if let Some ( aux ) = & self . aux_map {
vx_aux_collect ( aux ) }
else {
vec! [ ] }
;
let ghost es = aux_entries @ ;
proof {
assert ( pairs_list ( es , self . auxv ( ) ) ) by {
if self . aux_map is None {
assert ( es . len ( ) == 0 ) ;
reveal ( pairs_list ) ;
}
}
lemma_ser4_count ( * self , es ) ;
lemma_ser4_pairs ( * self , es ) ;
}
let aux_count = aux_entries . len ( ) as u32 ;
let total_size = HLL_PREAMBLE_SIZE + num_bytes + ( aux_count as usize * COUPON_SIZE_BYTES ) ;
let mut bytes = SketchBytes :: with_capacity ( total_size ) ;
bytes . write_u8 ( HLL_PREINTS ) ;
bytes . write_u8 ( SERIAL_VERSION ) ;
bytes . write_u8 ( Family :: HLL . id ) ;
bytes . write_u8 ( lg_config_k ) ;
bytes . write_u8 ( 0 ) ;
let mut flags = COMPACT_FLAG_MASK ;
if self . estimator . is_out_of_order ( ) {
flags |= OUT_OF_ORDER_FLAG_MASK ;
}
bytes . write_u8 ( flags ) ;
let ghost cf = flags & 8 != 0 ;
let ghost la = bytes @ [ 4 ] ;
proof {
assert ( 0u8 | 16u8 == 16u8 && 8u8 | 16u8 == 24u8 ) by ( bit_vector ) ;
assert ( ( flags == 0 || flags == 16 ) ==> ( flags & 8 == 0 ) ) by ( bit_vector ) ;
assert ( ( flags == 8 || flags == 24 ) ==> ( flags & 8 != 0 ) ) by ( bit_vector ) ;
}
bytes . write_u8 ( self . cur_min ) ;
bytes . write_u8 ( encode_mode_byte ( CUR_MODE_HLL , TGT_HLL4 ) ) ;
proof {
assert ( ( 2u8 & 0x3 ) | ( ( 0u8 & 0x3 ) << 2 ) == 2u8 ) by ( bit_vector ) ;
}
bytes . write_f64_le ( self . estimator . hip_accum ( ) ) ;
bytes . write_f64_le ( self . estimator . kxq0 ( ) ) ;
bytes . write_f64_le ( self . estimator . kxq1 ( ) ) ;
bytes . write_u32_le ( self . num_at_cur_min ) ;
bytes . write_u32_le ( aux_count ) ;
bytes . write ( & self . bytes ) ;
let ghost hdr = bytes @ ;
proof {
assert (
/*@C12.hll4.image*/ hdr =~= enc_hll4_pre ( cf , la , self . aview ( ) , aux_count ) + self . bytes @ ) ;
}
let ghost mut wr : Seq < u32 > = Seq :: empty ( ) ;
let mut vx_i1 = 0 ;
while vx_i1 < aux_entries . len ( ) invariant vx_i1 <= es . len ( ) , es == aux_entries @ , wr . len ( ) == vx_i1 , bytes @ == hdr + enc_u32s ( wr ) , forall | j : int | 0 <= j < es . len ( ) ==> ( # [ trigger ] es [ j ] ) . 0 <= 0x3ffffff && 15 <= es [ j ] . 1 <= 63 && self . reg ( es [ j ] . 0 as int ) == es [ j ] . 1 as int ,
/*@C12.hll4.aux_slots*/ forall | j : int | 0 <= j < wr . len ( ) ==> w_slot ( # [ trigger ] wr [ j ] ) == es [ j ] . 0 ,
/*@C12.hll4.aux_values_absolute*/ forall | j : int | 0 <= j < wr . len ( ) ==> w_val ( # [ trigger ] wr [ j ] ) as int == self . reg ( es [ j ] . 0 as int ) , decreases es . len ( ) - vx_i1 {
let ( slot , value ) = aux_entries [ vx_i1 ] ;
let coupon = pack_coupon ( slot , value ) ;
bytes . write_u32_le ( coupon ) ;
proof {
assert ( es [ vx_i1 as int ] . 0 == slot && es [ vx_i1 as int ] . 1 == value ) ;
if slot <= 0x3ffffff && value <= 63 {
lemma_pack_unpack ( slot , value ) ;
}
lemma_enc_u32s_push ( wr , coupon ) ;
assert ( hdr + enc_u32s ( wr ) + le32_bytes ( coupon ) =~= hdr + ( enc_u32s ( wr ) + le32_bytes ( coupon ) ) ) ;
wr = wr . push ( coupon ) ;
}
vx_i1 += 1 ;
}
proof {
lemma_ser4_words ( * self , es , wr ) ;
lemma_nz_id ( wr ) ;
lemma_ser4_image ( * self , wr , bytes @ , cf , la ) ;
}
bytes . into_bytes ( ) }

}

// =====================================================================================================================
// C11 over both contracts: a verified client that serializes, re-reads the header the way HllSketch::deserialize does and
// hands the cursor to the parser.  Not real code; it exists so that Verus composes the two contracts with the spec-level lemma.
// =====================================================================================================================
fn c11_roundtrip_hll4(a: &Array4) -> (b: Array4)
  requires a.wf(),
  ensures /*@C11.hll4.roundtrip*/ b.aview() == a.aview(), /*@C11.hll4.wf*/ b.wf(),
{
    let img = a.serialize(a.lg_config_k);
    let ghost ws = img_aux_words(img@, a.lg_config_k);
    let ghost cf = hdr_compact(img@);
    let ghost la = img@[4];
    proof {
        lemma_k(a.lg_config_k);
        lemma_cnt15_le(a.bytes@, pow2k(a.lg_config_k));
        assert(forall|s: u32| a.auxv().dom().contains(s) ==> s < pow2k(a.lg_config_k)) by { reveal(Array4::wf_aux_range); }
        assert(aux_values_ok(ws, a.auxv())) by {
            reveal(aux_values_ok); reveal(aux_slots_ok); reveal(Array4::wf_aux_token); reveal(Array4::wf_aux_range);
            assert forall|i: int| 0 <= i < ws.len() && ws[i] != 0 implies a.auxv()[w_slot(#[trigger] ws[i])] == w_val(ws[i]) by {
                let s = w_slot(ws[i]);
                assert(a.auxv().dom().contains(s));
                assert(nib(a.bytes@, s as int) == 15 <==> a.auxv().dom().contains((s as int) as u32));
                assert(w_val(ws[i]) as int == a.reg(s as int));
            }
        }
        lemma_hll4_roundtrip(cf, la, a.aview(), ws);
    }
    let mut cursor = SketchSlice::new(img.as_slice());
    let ghost i0 = cursor.rem();
    let mut hdr: Vec<u8> = Vec::new();
    for n in 0..8usize
      invariant hdr@.len() == n, i0 == img@, i0.len() >= 40, cursor.rem() == i0.skip(n as int), forall|j: int| 0 <= j < n ==> hdr@[j] == #[trigger] i0[j],
    {
        let x = cursor.read_u8();
        proof { assert(i0.skip(n as int).skip(1) =~= i0.skip(n as int + 1)); }
        let v = match x { Ok(v) => v, Err(_) => { proof { assert(false); } 0u8 } };
        hdr.push(v);
    }
    let lg_config_k = hdr[3];
    let compact = (hdr[5] & 8) != 0;
    let ooo = (hdr[5] & OUT_OF_ORDER_FLAG_MASK) != 0;
    let cur_min = hdr[6];
    let r = Array4::deserialize(cursor, cur_min, lg_config_k, compact, ooo, Ghost(hdr@[4]));
    match r {
        Ok(b) => {
            proof {
                let p = i0.skip(8);
                if nz(ws).len() == 0 { assert(aux_of_words(Seq::<u32>::empty(), lg_config_k) =~= IMap::<u32, u8>::empty()); }
                assert(b.auxv() =~= a.auxv());
                axiom_f64_of_bits_roundtrip(a.estimator.hip_accum);
                axiom_f64_of_bits_roundtrip(b.estimator.hip_accum);
            }
            b
        }
        Err(_) => { proof { assert(false); } c11_unreachable4() }
    }
}
#[verifier::external_body] fn c11_unreachable4() -> Array4 requires false { unreachable!() }


// =====================================================================================================================
// REFINEMENT MAPPING for unit hll_dispatch (tools/linkprove.py).  hll_dispatch calls every per-mode parser through a stub
//     T_accepts(payload, fields) ==> r is Ok,      r matches Ok(a) ==> T_parsed(a, payload, fields)
// with T_accepts / T_parsed uninterpreted there.  Here they are DEFINED as the clauses this unit states for the real body
// (one conjunct per tagged clause of `deserialize`; a rejection clause `c ==> r is Err` appears as `!c`), so the stub is implied.
// =====================================================================================================================
spec fn array4_accepts(p: Seq<u8>, cur_min: u8, lg_k: u8, compact: bool, ooo: bool, lg_arr: u8) -> bool { valid_hll4_payload(p, lg_k, compact, lg_arr) }
spec fn array4_parsed(a: Array4, p: Seq<u8>, cur_min: u8, lg_k: u8, compact: bool, ooo: bool, lg_arr: u8) -> bool {
    &&& !(p.len() < 32 + nbytes4(lg_k) || (compact && p.len() < 32 + nbytes4(lg_k) + 4 * dec_aux_count(p)))
    &&& a.lg_config_k == lg_k
    &&& a.cur_min == cur_min
    &&& a.bytes@ == dec_regs(p, nbytes4(lg_k))
    &&& a.num_at_cur_min == dec_cur_min_count(p)
    &&& a.estimator.out_of_order == ooo
    &&& f64_bits(a.estimator.kxq0) == dec_kxq0_bits(p) && f64_bits(a.estimator.kxq1) == dec_kxq1_bits(p)
    &&& (!ooo ==> f64_bits(a.estimator.hip_accum) == dec_hip_bits(p))
    &&& (compact && valid_hll4_payload(p, lg_k, compact, lg_arr) ==> a.auxv() == aux_of_words(dec_aux_ws(p, lg_k, true, lg_arr), lg_k))
    &&& (!compact && valid_hll4_payload(p, lg_k, compact, lg_arr) ==> a.auxv() == aux_of_words(dec_aux_ws(p, lg_k, false, lg_arr), lg_k))
    &&& a.wf_shape() && a.wf_aux_map() && a.wf_ooo_hip() && a.wf_aux_token() && a.wf_aux_range() && a.wf_reg_range() && a.wf_num_at_cur_min()
}

// REFINEMENT MAPPING for unit hll_api (tools/linkprove.py): hll_api calls the per-mode writers through stubs
//     requires self.ser_pre() [, lg_config_k == self.lg_config_k]     ensures self.image(lg_config_k, [hll_type,] r@)
// with `ser_pre` / `image` uninterpreted there; here they are the precondition and the conjunction of the clauses proved for the real body.
impl Array4 {
    spec fn ser_pre(&self) -> bool { self.wf() }
    spec fn image(&self, lg: u8, b: Seq<u8>) -> bool {
        &&& b == enc_hll4(hdr_compact(b), b[4], self.aview(), img_aux_words(b, lg))
        &&& aux_slots_ok(img_aux_words(b, lg), self.auxv())
        &&& (forall|i: int| 0 <= i < img_aux_words(b, lg).len() && img_aux_words(b, lg)[i] != 0 ==> w_val(#[trigger] img_aux_words(b, lg)[i]) as int == self.reg(w_slot(img_aux_words(b, lg)[i]) as int))
        &&& aux_layout_ok(hdr_compact(b), b[4], img_aux_words(b, lg))
        &&& b.len() == 40 + pow2k(lg) / 2 + 4 * cnt15(self.bytes@, pow2k(lg))
        &&& b.len() <= 40 + pow2k(lg) / 2 + 4 * pow2k(lg)
    }
}
}
fn main(){}
