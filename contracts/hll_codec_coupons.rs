#![feature(allocator_api)]
use vstd::prelude::*;
use vstd::arithmetic::power2::*;
use vstd::multiset::*;
use vstd::iset::*;
use std::io;
use std::io::Cursor;
use std::io::Read;
verus! {
global size_of usize == 8;
pub assume_specification<T, A: std::alloc::Allocator> [std::vec::Vec::<T, A>::into_boxed_slice] (v: std::vec::Vec<T, A>) -> (r: std::boxed::Box<[T], A>)
  ensures r@ == v@;

// =====================================================================================================================
// Little-endian byte codecs (same definitions as unit hll_codec8)
// =====================================================================================================================
spec fn le32_bytes(n: u32) -> Seq<u8> { seq![(n & 0xff) as u8, ((n >> 8) & 0xff) as u8, ((n >> 16) & 0xff) as u8, ((n >> 24) & 0xff) as u8] }
spec fn le32_val(b: Seq<u8>) -> u32 { (b[0] as u32) | ((b[1] as u32) << 8) | ((b[2] as u32) << 16) | ((b[3] as u32) << 24) }
proof fn lemma_le32_roundtrip(n: u32) ensures le32_val(le32_bytes(n)) == n, le32_bytes(n).len() == 4 {
    let b0 = (n & 0xff) as u8; let b1 = ((n >> 8) & 0xff) as u8; let b2 = ((n >> 16) & 0xff) as u8; let b3 = ((n >> 24) & 0xff) as u8;
    assert((b0 as u32) | ((b1 as u32) << 8) | ((b2 as u32) << 16) | ((b3 as u32) << 24) == n) by (bit_vector)
      requires b0 == (n & 0xff) as u8, b1 == ((n >> 8) & 0xff) as u8, b2 == ((n >> 16) & 0xff) as u8, b3 == ((n >> 24) & 0xff) as u8;
}
#[verifier::external_body] fn vx_u32_from_le_bytes(b: [u8; 4]) -> (r: u32) ensures r == le32_val(b@) { u32::from_le_bytes(b) }
#[verifier::external_body] fn vx_u32_to_le_bytes(n: u32) -> (r: [u8; 4]) ensures r@ == le32_bytes(n) { n.to_le_bytes() }

// a list of u32 words in an image, and reading word i of a payload
spec fn enc_u32s(s: Seq<u32>) -> Seq<u8> decreases s.len() { if s.len() == 0 { Seq::empty() } else { enc_u32s(s.drop_last()) + le32_bytes(s.last()) } }
spec fn dec_u32_at(p: Seq<u8>, i: int) -> u32 { le32_val(p.subrange(4 * i, 4 * i + 4)) }
spec fn dec_u32s(p: Seq<u8>, n: int) -> Seq<u32> { Seq::new(n as nat, |i: int| dec_u32_at(p, i)) }
proof fn lemma_skip_word(p: Seq<u8>, k: int)
  requires 0 <= k, 4 * k + 4 <= p.len()
  ensures p.skip(4 * k).take(4) == p.subrange(4 * k, 4 * k + 4), p.skip(4 * k).skip(4) == p.skip(4 * (k + 1)), dec_u32_at(p, k) == le32_val(p.skip(4 * k).take(4))
{
    assert(p.skip(4 * k).take(4) =~= p.subrange(4 * k, 4 * k + 4));
    assert(p.skip(4 * k).skip(4) =~= p.skip(4 * (k + 1)));
}
proof fn lemma_enc_u32s_len(s: Seq<u32>) ensures enc_u32s(s).len() == 4 * s.len() decreases s.len() {
    if s.len() > 0 { lemma_enc_u32s_len(s.drop_last()); lemma_le32_roundtrip(s.last()); }
}
proof fn lemma_enc_u32s_push(s: Seq<u32>, x: u32) ensures enc_u32s(s.push(x)) == enc_u32s(s) + le32_bytes(x) {
    assert(s.push(x).drop_last() =~= s);
}
// C11 at spec level for word lists: decoding the encoded list gives the list back (whatever follows it)
proof fn lemma_dec_enc_u32s(s: Seq<u32>, tail: Seq<u8>, i: int)
  requires 0 <= i < s.len()
  ensures dec_u32_at(enc_u32s(s) + tail, i) == s[i]
  decreases s.len()
{
    lemma_enc_u32s_len(s); lemma_enc_u32s_len(s.drop_last()); lemma_le32_roundtrip(s.last());
    let e = enc_u32s(s) + tail;
    if i == s.len() - 1 {
        assert(e.subrange(4 * i, 4 * i + 4) =~= le32_bytes(s.last()));
    } else {
        lemma_dec_enc_u32s(s.drop_last(), le32_bytes(s.last()) + tail, i);
        assert(enc_u32s(s.drop_last()) + (le32_bytes(s.last()) + tail) =~= e);
    }
}
proof fn lemma_dec_enc_u32s_all(s: Seq<u32>, tail: Seq<u8>)
  ensures dec_u32s(enc_u32s(s) + tail, s.len() as int) == s
{
    assert forall|i: int| 0 <= i < s.len() implies dec_u32_at(enc_u32s(s) + tail, i) == s[i] by { lemma_dec_enc_u32s(s, tail, i); }
    assert(dec_u32s(enc_u32s(s) + tail, s.len() as int) =~= s);
}

spec fn zeros(n: int) -> Seq<u32> { Seq::new(n as nat, |i: int| 0u32) }
// how many coupon words a LIST image stores
spec fn list_stored(lg_arr: usize, count: usize, compact: bool) -> int { if compact { count as int } else { pow2(lg_arr as nat) as int } }
// the non-empty coupons of a table, in table order
spec fn nz(s: Seq<u32>) -> Seq<u32> decreases s.len() {
    if s.len() == 0 { Seq::empty() } else if s.last() != 0 { nz(s.drop_last()).push(s.last()) } else { nz(s.drop_last()) }
}
proof fn lemma_nz_push(s: Seq<u32>, x: u32) ensures nz(s.push(x)) == (if x != 0 { nz(s).push(x) } else { nz(s) }) {
    assert(s.push(x).drop_last() =~= s);
}
proof fn lemma_nz_take_le(s: Seq<u32>, i: int)
  requires 0 <= i <= s.len()
  ensures nz(s.take(i)).len() <= nz(s).len() <= s.len()
  decreases s.len()
{
    if s.len() == 0 { assert(s.take(i) =~= s); }
    else if i == s.len() { assert(s.take(i) =~= s); lemma_nz_take_le(s.drop_last(), i - 1); }
    else { assert(s.take(i) =~= s.drop_last().take(i)); lemma_nz_take_le(s.drop_last(), i); }
}
// once a prefix holds as many non-empty coupons as the whole table, the rest of the table is empty
proof fn lemma_nz_prefix_full(s: Seq<u32>, i: int)
  requires 0 <= i <= s.len(), nz(s.take(i)).len() == nz(s).len()
  ensures nz(s.take(i)) == nz(s)
  decreases s.len()
{
    if i == s.len() { assert(s.take(i) =~= s); }
    else {
        assert(s.take(i) =~= s.drop_last().take(i));
        lemma_nz_take_le(s.drop_last(), i);
        lemma_nz_prefix_full(s.drop_last(), i);
    }
}
proof fn lemma_nz_all_zero(s: Seq<u32>)
  requires forall|i: int| 0 <= i < s.len() ==> s[i] == 0
  ensures nz(s).len() == 0
  decreases s.len()
{
    if s.len() > 0 { lemma_nz_all_zero(s.drop_last()); }
}
proof fn lemma_nz_append_zeros(s: Seq<u32>, n: int)
  requires n >= 0
  ensures nz(s + zeros(n)) == nz(s)
  decreases n
{
    if n == 0 { assert(s + zeros(0) =~= s); }
    else {
        lemma_nz_append_zeros(s, n - 1);
        assert((s + zeros(n)).drop_last() =~= s + zeros(n - 1));
    }
}
proof fn lemma_nz_nonzero(s: Seq<u32>, j: int)
  requires 0 <= j < nz(s).len()
  ensures nz(s)[j] != 0
  decreases s.len()
{
    if s.len() > 0 {
        if s.last() != 0 && j == nz(s).len() - 1 { } else { lemma_nz_nonzero(s.drop_last(), j); }
    }
}
proof fn lemma_nz_id(s: Seq<u32>)
  requires forall|i: int| 0 <= i < s.len() ==> s[i] != 0
  ensures nz(s) == s
  decreases s.len()
{
    if s.len() > 0 { lemma_nz_id(s.drop_last()); assert(s.drop_last().push(s.last()) =~= s); }
}

spec fn seq_set(s: Seq<u32>) -> ISet<u32> { ISet::new(|c: u32| s.contains(c)) }
proof fn lemma_seq_set_push(s: Seq<u32>, c: u32) ensures seq_set(s.push(c)) == seq_set(s).insert(c) {
    let t = s.push(c);
    assert forall|x: u32| seq_set(t).contains(x) <==> (seq_set(s).contains(x) || x == c) by {
        if s.contains(x) { let j = choose|j: int| 0 <= j < s.len() && s[j] == x; assert(t[j] == x); }
        if t.contains(x) { let j = choose|j: int| 0 <= j < t.len() && t[j] == x; if j < s.len() { assert(s[j] == x); } }
        assert(t[s.len() as int] == c);
    }
    assert(seq_set(t) =~= seq_set(s).insert(c));
}

// =====================================================================================================================
// error / io shims
// =====================================================================================================================
#[verifier::external_type_specification]
#[verifier::external_body]
pub struct ExIoError(std::io::Error);

struct Error { k: u8 }
trait VxIo<T> { fn vx_io(self, tag: &'static str) -> Result<T, Error>; }
impl<T> VxIo<T> for Result<T, std::io::Error> {
  // R2: `.map_err(insufficient_data(tag))` and `.map_err(|_| Error::insufficient_data(format!(..)))`
  #[verifier::external_body]
  fn vx_io(self, tag: &'static str) -> (r: Result<T, Error>)
    ensures self matches Ok(v) ==> r == Ok::<T, Error>(v), self is Err ==> r is Err
  { unimplemented!() }
}

#[verifier::external_body] fn vx_err_deserial() -> Error { unimplemented!() }   // `Error::deserial(format!(..))`
// the largest coupon table a valid HLL image has: lg_arr <= lg_k - 3 <= 18 (beyond that the sketch is in HLL mode)
spec const MAX_COUPON_SLOTS: usize = 0x4_0000;
// `vec![x; n]`: the allocation bound of C14 is the precondition
#[verifier::external_body]
fn vx_vec_u32(x: u32, n: usize) -> (r: Vec<u32>)
  requires /*@C14.coupons.alloc_bounded*/ n <= MAX_COUPON_SLOTS
  ensures r@.len() == n, forall|i: int| 0 <= i < n ==> r@[i] == x
{ vec![x; n] }

// iterator / sort leaves of HashSet::serialize
spec fn sorted(s: Seq<u32>) -> bool { forall|i: int, j: int| 0 <= i <= j < s.len() ==> s[i] <= s[j] }
// l is the ascending rearrangement of s (kept opaque: the byte-level reasoning never looks inside)
#[verifier::opaque]
spec fn sorted_perm_of(l: Seq<u32>, s: Seq<u32>) -> bool { sorted(l) && l.to_multiset() == s.to_multiset() && l.len() == s.len() }
#[verifier::external_body]
fn vx_collect_nonzero(s: &Box<[u32]>) -> (r: Vec<u32>)
  ensures r@ == nz(s@)
{ s.iter().filter(|&&c| c != 0).copied().collect() }
#[verifier::external_body]
fn vx_sort_unstable(v: &mut Vec<u32>)
  ensures sorted_perm_of(final(v)@, old(v)@), final(v)@.len() == old(v)@.len()
{ v.sort_unstable() }

// =====================================================================================================================
// codec/encode.rs, codec/decode.rs (real bodies; same contracts as in unit hll_codec8)
// =====================================================================================================================
struct SketchBytes {
    bytes: Vec<u8>,
}

impl SketchBytes {
    spec fn view(&self) -> Seq<u8> { self.bytes@ }

    fn with_capacity(capacity: usize) -> (r: Self) ensures r@ == Seq::<u8>::empty() {
        Self {
            bytes: Vec::with_capacity(capacity),
        }
    }

    fn into_bytes(self) -> (r: Vec<u8>) ensures r@ == self@ {
        self.bytes
    }

    fn write(&mut self, buf: &[u8]) ensures final(self)@ == old(self)@ + buf@ {
        self.bytes.extend_from_slice(buf);
    }

    fn write_u8(&mut self, n: u8) ensures final(self)@ == old(self)@.push(n) {
        self.bytes.push(n);
    }

    fn write_u32_le(&mut self, n: u32) ensures final(self)@ == old(self)@ + le32_bytes(n) {
        self.write(&vx_u32_to_le_bytes(n));
    }
}

#[verifier::external_body]
struct SketchSlice<'a> {
    slice: Cursor<&'a [u8]>,
}

impl SketchSlice<'_> {
    uninterp spec fn rem(&self) -> Seq<u8>;

    #[verifier::external_body]
    fn new(slice: &[u8]) -> (r: SketchSlice<'_>) ensures r.rem() == slice@ {
        unimplemented!()
    }

    #[verifier::external_body]
    fn read_exact(&mut self, buf: &mut [u8]) -> (r: io::Result<()>)
      ensures
        old(self).rem().len() >= old(buf)@.len() ==> (r is Ok && final(buf)@ == old(self).rem().take(old(buf)@.len() as int) && final(self).rem() == old(self).rem().skip(old(buf)@.len() as int)),
        old(self).rem().len() < old(buf)@.len() ==> r is Err,
        final(buf)@.len() == old(buf)@.len(),
    {
        unimplemented!()
    }

    fn read_u32_le(&mut self) -> (r: io::Result<u32>)
      ensures
        old(self).rem().len() >= 4 ==> (r matches Ok(v) && v == le32_val(old(self).rem().take(4)) && final(self).rem() == old(self).rem().skip(4)),
        old(self).rem().len() < 4 ==> r is Err,
    {
        let mut buf = [0u8; 4];
        self.read_exact(&mut buf)?;
        Ok(vx_u32_from_le_bytes(buf))
    }
}

// =====================================================================================================================
// constants, HllType, the mode byte (taken from /repo every run)
// =====================================================================================================================
const SERIAL_VERSION: u8 = 1;
const EMPTY_FLAG_MASK: u8 = 4;
const COMPACT_FLAG_MASK: u8 = 8;
const LIST_PREINTS: u8 = 2;
const HASH_SET_PREINTS: u8 = 3;
const LIST_PREAMBLE_SIZE: usize = 8;
const SET_PREAMBLE_SIZE: usize = 12;
const CUR_MODE_LIST: u8 = 0;
const CUR_MODE_SET: u8 = 1;
const COUPON_EMPTY: u32 = 0;

struct Family {
    id: u8,
    name: &'static str,
    min_pre_longs: u8,
    max_pre_longs: u8,
}

impl Family {
    const HLL: Family = Family {
        id: 7,
        name: "HLL",
        min_pre_longs: 1,
        max_pre_longs: 1,
    };
}

enum HllType {
    Hll4,
    Hll6,
    Hll8,
}
impl Clone for HllType { fn clone(&self) -> Self { match self { HllType::Hll4 => HllType::Hll4, HllType::Hll6 => HllType::Hll6, HllType::Hll8 => HllType::Hll8 } } }
impl Copy for HllType {}
spec fn tgt_of(h: HllType) -> u8 { match h { HllType::Hll4 => 0, HllType::Hll6 => 1, HllType::Hll8 => 2 } }

fn encode_mode_byte(cur_mode: u8, tgt_type: u8) -> (r: u8) ensures r == (cur_mode & 0x3) | ((tgt_type & 0x3) << 2) {
    proof {
    let a = cur_mode ;
    let b = tgt_type ;
    assert ( a & 0x3 == a % 4 && b & 0x3 == b % 4 && ( b & 0x3 ) << 2 == ( b % 4 ) * 4 && ( b % 4 ) * 4 <= 12 && ( a & 0x3 ) | ( ( b & 0x3 ) << 2 ) == ( ( b & 0x3 ) << 2 ) | ( a & 0x3 ) ) by ( bit_vector ) ;
    }
    (cur_mode & 0x3) | ((tgt_type & 0x3) << 2)
}

// =====================================================================================================================
// FORMAT SPEC (DESIGN.md Appendix A, "HLL"), coupon modes
//   LIST: 0 preInts=2 | 1 serVer=1 | 2 famID=7 | 3 lgK | 4 lgArr | 5 flags EMPTY 4, COMPACT 8 | 6 listCount | 7 mode: 0 | tgt<<2
//         8.. coupons u32: listCount of them if COMPACT else 2^lgArr (with empties)
//   SET:  0 preInts=3 | .. | 5 flags COMPACT 8 | 6 unused | 7 mode: 1 | tgt<<2 | 8-11 hashSetCount u32
//         12.. coupons u32: hashSetCount of them if COMPACT else 2^lgArr (with empties)
// =====================================================================================================================
spec fn coupon_flags(empty: bool, compact: bool) -> u8 { ((if empty { 4int } else { 0int }) + (if compact { 8int } else { 0int })) as u8 }
spec fn enc_hll_list(lg_k: u8, lg_arr: u8, tgt: u8, compact: bool, count: u8, slots: Seq<u32>) -> Seq<u8> {
    seq![2u8, 1u8, 7u8, lg_k, lg_arr, coupon_flags(count == 0, compact), count, (4 * tgt) as u8] + enc_u32s(slots)
}
spec fn enc_hll_set(lg_k: u8, lg_arr: u8, tgt: u8, compact: bool, count: u32, slots: Seq<u32>) -> Seq<u8> {
    seq![3u8, 1u8, 7u8, lg_k, lg_arr, coupon_flags(false, compact), 0u8, (1 + 4 * tgt) as u8] + le32_bytes(count) + enc_u32s(slots)
}

// =====================================================================================================================
// hll/container.rs
// =====================================================================================================================
struct Container {
    lg_size: usize,
    coupons: Box<[u32]>,
    len: usize,
}

impl Container {
    // the table invariant every user of Container relies on (List::update scans for an empty slot, HashSet::update masks with 2^lg_size - 1,
    // HllSketch promotes when len reaches the capacity / the load factor)
    spec fn wf_lg(&self) -> bool { self.lg_size <= 26 }
    spec fn wf_capacity(&self) -> bool { self.coupons@.len() == pow2(self.lg_size as nat) }
    spec fn wf_len(&self) -> bool { self.len == nz(self.coupons@).len() }
    spec fn wf(&self) -> bool { self.wf_lg() && self.wf_capacity() && self.wf_len() }
    // abstract view: the set of coupons held
    spec fn cset(&self) -> ISet<u32> { ISet::new(|c: u32| c != 0 && self.coupons@.contains(c)) }

    fn new(lg_size: usize) -> (r: Self)
      requires /*@C14.coupons.lg_size_range*/ lg_size <= 18
      ensures r.wf_lg(), r.wf_capacity(), r.lg_size == lg_size, r.len == 0, forall|i: int| 0 <= i < r.coupons@.len() ==> r.coupons@[i] == 0
    {
        proof { lemma_shl_us(lg_size); }
        Self {
            lg_size,
            coupons: vx_vec_u32(COUPON_EMPTY, 1 << lg_size).into_boxed_slice(),
            len: 0,
        }
    }

    fn from_coupons(lg_size: usize, coupons: Box<[u32]>, len: usize) -> (r: Self)
      ensures r.lg_size == lg_size, r.coupons == coupons, r.len == len
    {
        Self {
            lg_size,
            coupons,
            len,
        }
    }

    fn len(&self) -> (r: usize) ensures r == self.len {
        self.len
    }

    fn lg_size(&self) -> (r: usize) ensures r == self.lg_size {
        self.lg_size
    }

    fn is_empty(&self) -> (r: bool) ensures r == (self.len == 0) {
        self.len == 0
    }
}

proof fn lemma_shl_us64(l: usize)
  requires l < 64
  ensures (1usize << l) == pow2(l as nat)
{
    lemma2_to64(); lemma2_to64_rest();
    lemma_pow2_strictly_increases(l as nat, 64);
    vstd::bits::lemma_usize_shl_is_mul(1, l);
}
proof fn lemma_shl_small(l: usize)
  requires l < 64, (1usize << l) <= 0x4_0000
  ensures l <= 18
{
    assert(l < 64 && (1usize << l) <= 0x4_0000 ==> l <= 18) by (bit_vector);
}
proof fn lemma_shl_us(l: usize)
  requires l <= 26
  ensures (1usize << l) == pow2(l as nat), pow2(l as nat) <= 0x400_0000, l <= 18 ==> pow2(l as nat) <= 0x4_0000
{
    lemma2_to64();
    lemma_pow2_strictly_increases(l as nat, 27);
    if l < 18 { lemma_pow2_strictly_increases(l as nat, 18); }
    vstd::bits::lemma_usize_shl_is_mul(1, l);
    assert(pow2(26) == 0x400_0000 && pow2(27) == 0x800_0000 && pow2(18) == 0x4_0000) by { lemma2_to64_rest(); lemma_pow2_adds(13, 13); lemma_pow2_adds(13, 14); lemma_pow2_adds(9, 9); }
}

// =====================================================================================================================
// hll/list.rs
// =====================================================================================================================
struct List {
    container: Container,
}

impl List {
    fn new(lg_size: usize) -> (r: Self)
      requires lg_size <= 18
      ensures r.container.wf_lg(), r.container.wf_capacity(), r.container.lg_size == lg_size, r.container.len == 0, forall|i: int| 0 <= i < r.container.coupons@.len() ==> r.container.coupons@[i] == 0
    {
        Self {
            container: Container::new(lg_size),
        }
    }

    #[verifier::loop_isolation(false)]
    fn deserialize(
        mut cursor: SketchSlice,
        lg_arr: usize,
        coupon_count: usize,
        empty: bool,
        compact: bool,
    ) -> (r: Result<Self, Error>)
      requires lg_arr <= 255, coupon_count <= 255,    // each comes from ONE header byte (HllSketch::deserialize: `lg_arr as usize`, `state as usize`); nothing else is assumed
      ensures
        /*@C13.list.accepts*/ lg_arr <= 18 && list_stored(lg_arr, coupon_count, compact) <= pow2(lg_arr as nat) && cursor.rem().len() >= 4 * list_stored(lg_arr, coupon_count, compact) ==> r is Ok,
        /*@C14.list.rejects_truncated*/ lg_arr <= 26 && !empty && coupon_count > 0 && cursor.rem().len() < 4 * list_stored(lg_arr, coupon_count, compact) ==> r is Err,
        /*@C14.list.rejects_overfull*/ lg_arr <= 26 && list_stored(lg_arr, coupon_count, compact) > pow2(lg_arr as nat) ==> r is Err,
        /*@C13.list.lg_arr*/ r matches Ok(a) ==> a.container.lg_size == lg_arr,
        /*@C13.list.count*/ r matches Ok(a) ==> a.container.len == coupon_count,
        /*@C13.list.coupons*/ r matches Ok(a) ==> lg_arr <= 26 && !empty && coupon_count > 0 ==> a.container.coupons@ == dec_u32s(cursor.rem(), list_stored(lg_arr, coupon_count, compact)) + zeros(pow2(lg_arr as nat) - list_stored(lg_arr, coupon_count, compact)),
        /*@C13.list.empty*/ r matches Ok(a) ==> lg_arr <= 26 && !(!empty && coupon_count > 0) ==> a.container.coupons@ == zeros(pow2(lg_arr as nat) as int),
        /*@C14.list.wf_lg*/ r matches Ok(a) ==> a.container.wf_lg(),
        /*@C11.C13.list.wf_capacity*/ r matches Ok(a) ==> lg_arr < 64 ==> a.container.wf_capacity(),   // for lg_arr >= 64 the shift itself is the (separately reported) failing obligation
        /*@C14.list.wf_len*/ r matches Ok(a) ==> a.container.wf_len(),
    {
        proof { if lg_arr < 64 { lemma_shl_us64(lg_arr); } if lg_arr <= 26 { lemma_shl_us(lg_arr); } }
        // The table always has 2^lg_arr slots; a compact image stores only the first `coupon_count` of them
        let array_size = 1 << lg_arr;
        let num_stored = if compact { coupon_count } else { array_size };
        if num_stored > array_size {
            return Err(vx_err_deserial());
        }
        let ghost p0 = cursor.rem();

        // Read coupons
        let mut coupons = vx_vec_u32(0u32, array_size);
        
        if !empty && coupon_count > 0 {
            let mut vx_i1 = 0;
            while vx_i1 < num_stored && vx_i1 < coupons.len()
              invariant
                coupons@.len() == array_size, vx_i1 <= num_stored <= array_size,
                p0.len() >= 4 * vx_i1,
                cursor.rem() == p0.skip(4 * vx_i1),
                forall|j: int| 0 <= j < vx_i1 ==> coupons@[j] == dec_u32_at(p0, j),
                forall|j: int| vx_i1 <= j < array_size ==> coupons@[j] == 0,
              decreases num_stored - vx_i1
            {
                let i = vx_i1;
                let coupon = &mut coupons[vx_i1];
                *coupon = cursor.read_u32_le().vx_io("coupon")?;
                proof { lemma_skip_word(p0, vx_i1 as int); }
                vx_i1 += 1;
            }
            proof { assert(coupons@ =~= dec_u32s(p0, num_stored as int) + zeros(array_size - num_stored)); }
        } else {
            proof { assert(coupons@ =~= zeros(array_size as int)); }
        }

        Ok(Self {
            container: Container::from_coupons(lg_arr, coupons.into_boxed_slice(), coupon_count),
        })
    }

    fn serialize(&self, lg_config_k: u8, hll_type: HllType) -> (r: Vec<u8>)
      requires self.container.wf_len(), self.container.len <= 255, self.container.lg_size <= 255
      ensures
        /*@C12.list.image*/ r@ == enc_hll_list(lg_config_k, self.container.lg_size as u8, tgt_of(hll_type), true, self.container.len as u8, nz(self.container.coupons@)),
        /*@C18.list.size*/ r@.len() == 8 + 4 * self.container.len,
    {
        let compact = true; // Always use compact format
        let empty = self.container.is_empty();
        let coupon_count = self.container.len();
        let lg_arr = self.container.lg_size();

        // Compute size
        let array_size = if compact { coupon_count } else { 1 << lg_arr };
        let total_size = LIST_PREAMBLE_SIZE + (array_size * 4);

        let mut bytes = SketchBytes::with_capacity(total_size);

        // Write preamble
        bytes.write_u8(LIST_PREINTS);
        bytes.write_u8(SERIAL_VERSION);
        bytes.write_u8(Family::HLL.id);
        bytes.write_u8(lg_config_k);
        bytes.write_u8(lg_arr as u8);

        // Write flags
        let mut flags = 0u8;
        if empty {
            flags |= EMPTY_FLAG_MASK;
        }
        if compact {
            flags |= COMPACT_FLAG_MASK;
        }
        bytes.write_u8(flags);

        // Write count
        bytes.write_u8(coupon_count as u8);

        // Write mode byte: LIST mode with target HLL type
        bytes.write_u8(encode_mode_byte(CUR_MODE_LIST, hll_type as u8));
        proof {
            let t = tgt_of(hll_type);
            assert(t <= 2 ==> (0u8 & 0x3) | ((t & 0x3) << 2) == 4 * t) by (bit_vector);
            assert((0u8 | 4u8) | 8u8 == 12u8 && (0u8 | 8u8) | 4u8 == 12u8 && 0u8 | 8u8 == 8u8 && 0u8 | 4u8 == 4u8) by (bit_vector);
        }
        let ghost hdr = bytes@;
        let ghost all = self.container.coupons@;
        proof { lemma_nz_take_le(all, 0); assert(all.take(0) =~= Seq::<u32>::empty()); }

        // Write coupons (only non-empty ones if compact)
        if !empty {
            let mut write_idx = 0;
            let mut vx_i1 = 0;
            while vx_i1 < self.container.coupons.len()
              invariant_except_break
                write_idx < array_size,
              invariant
                vx_i1 <= all.len(), all == self.container.coupons@, array_size == nz(all).len(), array_size > 0, compact,
                write_idx == nz(all.take(vx_i1 as int)).len(),
                bytes@ == hdr + enc_u32s(nz(all.take(vx_i1 as int))),
                write_idx >= array_size || vx_i1 == all.len() ==> nz(all.take(vx_i1 as int)) == nz(all),
              ensures
                bytes@ == hdr + enc_u32s(nz(all)),
              decreases all.len() - vx_i1
            {
                let coupon = self.container.coupons[vx_i1];
                vx_i1 += 1;
                proof {
                    assert(all.take(vx_i1 as int) =~= all.take(vx_i1 as int - 1).push(coupon));
                    lemma_nz_push(all.take(vx_i1 as int - 1), coupon);
                    lemma_enc_u32s_push(nz(all.take(vx_i1 as int - 1)), coupon);
                    lemma_nz_take_le(all, vx_i1 as int);
                    if vx_i1 == all.len() { assert(all.take(vx_i1 as int) =~= all); }
                    if coupon != 0 && write_idx as int + 1 >= array_size as int { lemma_nz_prefix_full(all, vx_i1 as int); }
                }
                if compact && coupon == 0 {
                    continue; // Skip empty coupons in compact mode
                }
                bytes.write_u32_le(coupon);
                write_idx += 1;
                proof {
                    assert(hdr + enc_u32s(nz(all.take(vx_i1 as int - 1))) + le32_bytes(coupon) =~= hdr + (enc_u32s(nz(all.take(vx_i1 as int - 1))) + le32_bytes(coupon)));
                }
                if write_idx >= array_size {
                    break;
                }
            }
        }
        proof {
            lemma_enc_u32s_len(nz(all));
            if empty { assert(hdr + enc_u32s(nz(all)) =~= hdr); }
        }

        bytes.into_bytes()
    }
}

// =====================================================================================================================
// hll/hash_set.rs
// =====================================================================================================================
struct HashSet {
    container: Container,
}

impl HashSet {
    spec fn has_room(&self) -> bool { nz(self.container.coupons@).len() < self.container.coupons@.len() }
    // HllSketch grows / promotes the set as soon as 4 * len > 3 * capacity: between updates the load is at most 3/4
    spec fn wf_load(&self) -> bool { 4 * self.container.len <= 3 * self.container.coupons@.len() }

    fn new(lg_size: usize) -> (r: Self)
      requires /*@C14.set.lg_arr_range*/ lg_size <= 18
      ensures r.container.wf_lg(), r.container.wf_capacity(), r.container.lg_size == lg_size, r.container.len == 0, forall|i: int| 0 <= i < r.container.coupons@.len() ==> r.container.coupons@[i] == 0
    {
        Self {
            container: Container::new(lg_size),
        }
    }

    // by contract: every clause here is implied by the contract VERIFIED on the real probe loop in unit hll_coupons (contracts/hll_coupons.rs)
    #[verifier::external_body]
    fn update(&mut self, coupon: u32)
      requires old(self).container.wf_lg(), old(self).container.wf_capacity(), old(self).container.len < usize::MAX, /*@C14.set.table_full*/ old(self).has_room(),
      ensures final(self).container.wf_lg(), final(self).container.wf_capacity(), final(self).container.lg_size == old(self).container.lg_size,
        final(self).container.len <= old(self).container.len + 1,
        coupon != 0 ==> final(self).container.cset() == old(self).container.cset().insert(coupon),
        coupon != 0 && old(self).container.wf_len() ==> final(self).container.wf_len(),
        // COUPON_EMPTY itself: the first empty slot "receives" it and len is incremented although nothing is stored
        coupon == 0 ==> final(self).container.coupons@ == old(self).container.coupons@ && final(self).container.len == old(self).container.len + 1,
    { unimplemented!() }

    #[verifier::loop_isolation(false)]
    fn deserialize(
        mut cursor: SketchSlice,
        lg_arr: usize,
        compact: bool,
    ) -> (r: Result<Self, Error>)
      requires lg_arr <= 255,     // one header byte; nothing else is assumed
      ensures
        /*@C13.set.accepts*/ (compact || lg_arr <= 18) && cursor.rem().len() >= 4
            && cursor.rem().len() - 4 >= 4 * (if compact { le32_val(cursor.rem().take(4)) as int } else { pow2(lg_arr as nat) as int }) ==> r is Ok,
        /*@C13.set.lg_arr*/ r matches Ok(a) ==> a.container.lg_size == lg_arr,
        /*@C13.set.compact.coupons*/ r matches Ok(a) ==> compact ==> cursor.rem().len() >= 4 && ({
            let n = le32_val(cursor.rem().take(4)) as int; let p = cursor.rem().skip(4);
            p.len() >= 4 * n && ((forall|j: int| 0 <= j < n ==> dec_u32_at(p, j) != 0) ==> a.container.cset() == seq_set(dec_u32s(p, n)) && a.container.wf_len()) }),
        /*@C13.set.table.coupons*/ r matches Ok(a) ==> !compact && lg_arr <= 26 ==> cursor.rem().len() >= 4 && a.container.len == le32_val(cursor.rem().take(4))
              && a.container.coupons@ == dec_u32s(cursor.rem().skip(4), pow2(lg_arr as nat) as int),
        /*@C14.set.rejects_truncated*/ cursor.rem().len() < 4 ==> r is Err,
        /*@C14.set.wf_lg*/ r matches Ok(a) ==> a.container.wf_lg(),
        /*@C14.set.wf_capacity*/ r matches Ok(a) ==> lg_arr < 64 ==> a.container.wf_capacity(),
        /*@C14.set.wf_len*/ r matches Ok(a) ==> a.container.wf_len(),
        /*@C14.set.wf_load*/ r matches Ok(a) ==> a.wf_load(),
    {
        let ghost p00 = cursor.rem();
        // Read coupon count from bytes 8-11
        let coupon_count = cursor
            .read_u32_le()
            .vx_io("coupon_count")?;
        let coupon_count = coupon_count as usize;
        let ghost p0 = cursor.rem();

        if compact {
            // Compact mode: only couponCount coupons are stored
            // Create a new hash set and insert coupons one by one
            let mut hash_set = HashSet::new(lg_arr);
            proof {
                lemma_nz_all_zero(hash_set.container.coupons@);
                assert(hash_set.container.cset() =~= ISet::<u32>::empty());
                assert(seq_set(dec_u32s(p0, 0)) =~= ISet::<u32>::empty());
            }
            for i in 0..coupon_count
              invariant
                hash_set.container.wf_lg(), hash_set.container.wf_capacity(), hash_set.container.lg_size == lg_arr,
                p0.len() >= 4 * i, cursor.rem() == p0.skip(4 * i), p0 == p00.skip(4),
                (forall|j: int| 0 <= j < i ==> dec_u32_at(p0, j) != 0) ==> hash_set.container.wf_len() && hash_set.container.cset() == seq_set(dec_u32s(p0, i as int)),
                hash_set.container.len <= i,
            {
                let coupon = cursor.read_u32_le().vx_io("coupon")?;
                proof {
                    lemma_skip_word(p0, i as int);
                    assert(coupon == dec_u32_at(p0, i as int));
                    assert(dec_u32s(p0, i as int + 1) =~= dec_u32s(p0, i as int).push(coupon));
                    lemma_seq_set_push(dec_u32s(p0, i as int), coupon);
                }
                hash_set.update(coupon);
            }
            Ok(hash_set)
        } else {
            // Non-compact mode: full hash table with empty slots
            proof { if lg_arr < 64 { lemma_shl_us64(lg_arr); } if lg_arr <= 26 { lemma_shl_us(lg_arr); } }
            let array_size = 1 << lg_arr;

            // Read entire hash table including empty slots
            let mut coupons = vx_vec_u32(0u32, array_size);
            let mut vx_i2 = 0;
            while vx_i2 < coupons.len()
              invariant
                coupons@.len() == array_size, vx_i2 <= array_size,
                p0.len() >= 4 * vx_i2,
                cursor.rem() == p0.skip(4 * vx_i2),
                forall|j: int| 0 <= j < vx_i2 ==> coupons@[j] == dec_u32_at(p0, j),
              decreases array_size - vx_i2
            {
                let i = vx_i2;
                let coupon = &mut coupons[vx_i2];
                *coupon = cursor.read_u32_le().vx_io("coupon")?;
                proof { lemma_skip_word(p0, vx_i2 as int); }
                vx_i2 += 1;
            }
            proof { assert(coupons@ =~= dec_u32s(p0, array_size as int)); }

            Ok(Self {
                container: Container::from_coupons(
                    lg_arr,
                    coupons.into_boxed_slice(),
                    coupon_count,
                ),
            })
        }
    }

    fn serialize(&self, lg_config_k: u8, hll_type: HllType) -> (r: Vec<u8>)
      requires self.container.wf(),
      ensures
        /*@C12.set.image*/ exists|l: Seq<u32>| sorted_perm_of(l, nz(self.container.coupons@))
            && r@ == #[trigger] enc_hll_set(lg_config_k, self.container.lg_size as u8, tgt_of(hll_type), true, self.container.len as u32, l),
        /*@C18.set.size*/ r@.len() == 12 + 4 * self.container.len,
    {
        proof { lemma_shl_us(self.container.lg_size); lemma_nz_take_le(self.container.coupons@, 0); }
        let compact = true; // Always use compact format
        let coupon_count = self.container.len();
        let lg_arr = self.container.lg_size();

        // Compute size
        let array_size = if compact { coupon_count } else { 1 << lg_arr };
        let total_size = SET_PREAMBLE_SIZE + (array_size * 4);

        let mut bytes = SketchBytes::with_capacity(total_size);

        // Write preamble
        bytes.write_u8(HASH_SET_PREINTS);
        bytes.write_u8(SERIAL_VERSION);
        bytes.write_u8(Family::HLL.id);
        bytes.write_u8(lg_config_k);
        bytes.write_u8(lg_arr as u8);

        // Write flags
        let mut flags = 0u8;
        if compact {
            flags |= COMPACT_FLAG_MASK;
        }
        bytes.write_u8(flags);

        // Write unused byte
        bytes.write_u8(0);

        // Write mode byte: SET mode with target HLL type
        bytes.write_u8(encode_mode_byte(CUR_MODE_SET, hll_type as u8));
        proof {
            let t = tgt_of(hll_type);
            assert(t <= 2 ==> (1u8 & 0x3) | ((t & 0x3) << 2) == 1 + 4 * t) by (bit_vector);
            assert(0u8 | 8u8 == 8u8) by (bit_vector);
        }

        // Write coupon count
        bytes.write_u32_le(coupon_count as u32);
        let ghost hdr = bytes@;

        // Write coupons
        if compact {
            // Compact mode: collect non-empty coupons and sort for deterministic output
            let mut coupons_vec: Vec<u32> = vx_collect_nonzero(&self.container.coupons);
            vx_sort_unstable(&mut coupons_vec);

            let mut vx_i1 = 0;
            while vx_i1 < coupons_vec.len()
              invariant vx_i1 <= coupons_vec@.len(), bytes@ == hdr + enc_u32s(coupons_vec@.take(vx_i1 as int)),
              decreases coupons_vec@.len() - vx_i1
            {
                let coupon = coupons_vec[vx_i1];
                bytes.write_u32_le(coupon);
                proof {
                    assert(coupons_vec@.take(vx_i1 as int + 1) =~= coupons_vec@.take(vx_i1 as int).push(coupon));
                    lemma_enc_u32s_push(coupons_vec@.take(vx_i1 as int), coupon);
                    assert(hdr + enc_u32s(coupons_vec@.take(vx_i1 as int)) + le32_bytes(coupon) =~= hdr + (enc_u32s(coupons_vec@.take(vx_i1 as int)) + le32_bytes(coupon)));
                }
                vx_i1 += 1;
            }
            proof {
                assert(coupons_vec@.take(coupons_vec@.len() as int) =~= coupons_vec@);
                lemma_enc_u32s_len(coupons_vec@); lemma_le32_roundtrip(coupon_count as u32);
                assert(bytes@ =~= enc_hll_set(lg_config_k, self.container.lg_size as u8, tgt_of(hll_type), true, self.container.len as u32, coupons_vec@));
            }
        } else {
            // Non-compact mode: write entire hash table
            let mut vx_i2 = 0;
            while vx_i2 < self.container.coupons.len()
              invariant false
              decreases self.container.coupons@.len() - vx_i2
            {
                let coupon = self.container.coupons[vx_i2];
                bytes.write_u32_le(coupon);
                vx_i2 += 1;
            }
        }

        bytes.into_bytes()
    }
}


// =====================================================================================================================
// C11 over both contracts (verified clients, not real code): serialize, re-read the header as HllSketch::deserialize does, parse.
// =====================================================================================================================
proof fn lemma_nz_contains(s: Seq<u32>, x: u32)
  ensures nz(s).contains(x) <==> (x != 0 && s.contains(x))
  decreases s.len()
{
    if s.len() > 0 {
        let d = s.drop_last(); lemma_nz_contains(d, x);
        assert(d.push(s.last()) =~= s);
        if s.contains(x) { let j = choose|j: int| 0 <= j < s.len() && s[j] == x; if j < d.len() { assert(d[j] == x); } }
        if d.contains(x) { let j = choose|j: int| 0 <= j < d.len() && d[j] == x; assert(s[j] == x); }
        if s.last() != 0 {
            let n = nz(d);
            if n.contains(x) { let j = choose|j: int| 0 <= j < n.len() && n[j] == x; assert(n.push(s.last())[j] == x); }
            assert(n.push(s.last())[n.len() as int] == s.last());
            if n.push(s.last()).contains(x) { let j = choose|j: int| 0 <= j < n.len() + 1 && n.push(s.last())[j] == x; if j < n.len() { assert(n[j] == x); } }
        }
        assert(s[s.len() - 1] == s.last());
    }
}

fn c11_roundtrip_list(a: &List, lg_config_k: u8, hll_type: HllType) -> (b: List)
  requires a.container.wf(), a.container.len <= 255, a.container.lg_size <= 18,
  ensures
    /*@C11.list.roundtrip*/ nz(b.container.coupons@) == nz(a.container.coupons@) && b.container.len == a.container.len && b.container.lg_size == a.container.lg_size,
    /*@C11.list.cset*/ b.container.cset() == a.container.cset(),
{
    let img = a.serialize(lg_config_k, hll_type);
    let ghost items = nz(a.container.coupons@);
    let ghost cnt = a.container.len as u8;
    proof {
        lemma_enc_u32s_len(items);
        lemma_shl_us(a.container.lg_size); lemma_nz_take_le(a.container.coupons@, 0);
        assert(img@.skip(8) =~= enc_u32s(items) + Seq::<u8>::empty());
        lemma_dec_enc_u32s_all(items, Seq::<u8>::empty());
        let f = coupon_flags(cnt == 0, true);
        assert((f == 8 || f == 12) ==> ((f & 4 != 0) == (f == 12)) && (f & 8 != 0)) by (bit_vector);
    }
    let mut cursor = SketchSlice::new(img.as_slice());
    let mut hdr = [0u8; 8];
    let x = cursor.read_exact(&mut hdr);
    proof { assert(x is Ok); assert(hdr@ =~= img@.take(8)); }
    let lg_arr = hdr[4] as usize;
    let coupon_count = hdr[6] as usize;
    let empty = (hdr[5] & EMPTY_FLAG_MASK) != 0;
    let compact = (hdr[5] & COMPACT_FLAG_MASK) != 0;
    let r = List::deserialize(cursor, lg_arr, coupon_count, empty, compact);
    match r {
        Ok(b) => {
            proof {
                if coupon_count > 0 {
                    assert forall|j: int| 0 <= j < items.len() implies items[j] != 0 by { lemma_nz_nonzero(a.container.coupons@, j); }
                    lemma_nz_id(items);
                    lemma_nz_append_zeros(items, pow2(lg_arr as nat) - items.len());
                } else {
                    lemma_nz_all_zero(b.container.coupons@);
                    assert(items =~= Seq::<u32>::empty());
                    assert(nz(b.container.coupons@) =~= Seq::<u32>::empty());
                }
                assert forall|c: u32| b.container.cset().contains(c) <==> a.container.cset().contains(c) by {
                    lemma_nz_contains(b.container.coupons@, c); lemma_nz_contains(a.container.coupons@, c);
                }
                assert(b.container.cset() =~= a.container.cset());
            }
            b
        }
        Err(_) => { proof { assert(false); } c11_unreachable_list() }
    }
}
#[verifier::external_body] fn c11_unreachable_list() -> List requires false { unreachable!() }

proof fn lemma_perm_contains(l: Seq<u32>, s: Seq<u32>, x: u32)
  requires sorted_perm_of(l, s)
  ensures l.contains(x) <==> s.contains(x), l.len() == s.len()
{
    reveal(sorted_perm_of);
    l.to_multiset_ensures();
    s.to_multiset_ensures();
    assert(l.contains(x) <==> l.to_multiset().count(x) > 0);
    assert(s.contains(x) <==> s.to_multiset().count(x) > 0);
}

proof fn lemma_set_image(img: Seq<u8>, lg_k: u8, lg_arr: u8, tgt: u8, cnt: u32, l: Seq<u32>)
  requires img == enc_hll_set(lg_k, lg_arr, tgt, true, cnt, l), cnt == l.len()
  ensures img.len() == 12 + 4 * l.len(), img[4] == lg_arr, img[5] & 8 != 0,
    le32_val(img.skip(8).take(4)) == cnt, img.skip(8).skip(4).len() == 4 * cnt, dec_u32s(img.skip(8).skip(4), cnt as int) == l
{
    lemma_enc_u32s_len(l);
    lemma_le32_roundtrip(cnt);
    assert(img.skip(8).take(4) =~= le32_bytes(cnt));
    assert(img.skip(8).skip(4) =~= enc_u32s(l) + Seq::<u8>::empty());
    lemma_dec_enc_u32s_all(l, Seq::<u8>::empty());
    let f = coupon_flags(false, true);
    assert(img[5] == f);
    assert(f == 8 ==> (f & 8 != 0)) by (bit_vector);
}
proof fn lemma_perm_of_nz(l: Seq<u32>, coupons: Seq<u32>)
  requires sorted_perm_of(l, nz(coupons))
  ensures l.len() == nz(coupons).len(), forall|j: int| 0 <= j < l.len() ==> l[j] != 0,
    forall|c: u32| l.contains(c) <==> (c != 0 && coupons.contains(c))
{
    lemma_perm_contains(l, nz(coupons), 0);
    assert forall|j: int| 0 <= j < l.len() implies l[j] != 0 by {
        lemma_perm_contains(l, nz(coupons), l[j]); lemma_nz_contains(coupons, l[j]);
    }
    assert forall|c: u32| l.contains(c) <==> (c != 0 && coupons.contains(c)) by {
        lemma_perm_contains(l, nz(coupons), c); lemma_nz_contains(coupons, c);
    }
}

fn c11_roundtrip_set(a: &HashSet, lg_config_k: u8, hll_type: HllType) -> (b: HashSet)
  requires a.container.wf(), a.container.lg_size <= 18, a.wf_load(),
  ensures
    /*@C11.set.roundtrip*/ b.container.cset() == a.container.cset() && b.container.lg_size == a.container.lg_size,
    /*@C11.set.wf*/ b.container.wf(),
{
    let img = a.serialize(lg_config_k, hll_type);
    let ghost l = choose|l: Seq<u32>| sorted_perm_of(l, nz(a.container.coupons@))
            && img@ == #[trigger] enc_hll_set(lg_config_k, a.container.lg_size as u8, tgt_of(hll_type), true, a.container.len as u32, l);
    proof {
        lemma_shl_us(a.container.lg_size);
        lemma_nz_take_le(a.container.coupons@, 0);
        lemma_perm_of_nz(l, a.container.coupons@);
        lemma_set_image(img@, lg_config_k, a.container.lg_size as u8, tgt_of(hll_type), a.container.len as u32, l);
    }
    let mut cursor = SketchSlice::new(img.as_slice());
    let mut hdr = [0u8; 8];
    let x = cursor.read_exact(&mut hdr);
    proof { assert(x is Ok); assert(hdr@ =~= img@.take(8)); }
    let lg_arr = hdr[4] as usize;
    let compact = (hdr[5] & COMPACT_FLAG_MASK) != 0;
    let r = HashSet::deserialize(cursor, lg_arr, compact);
    match r {
        Ok(b) => {
            proof {
                let p = img@.skip(8).skip(4); let n = a.container.len as int;
                assert forall|j: int| 0 <= j < n implies dec_u32_at(p, j) != 0 by { assert(dec_u32s(p, n)[j] == l[j]); }
                assert(seq_set(l) =~= a.container.cset());
                assert(b.container.cset() =~= a.container.cset());
            }
            b
        }
        Err(_) => { proof { assert(false); } c11_unreachable_set() }
    }
}
#[verifier::external_body] fn c11_unreachable_set() -> HashSet requires false { unreachable!() }


// =====================================================================================================================
// REFINEMENT MAPPING for unit hll_dispatch (tools/linkprove.py).  hll_dispatch calls every per-mode parser through a stub
//     T_accepts(payload, fields) ==> r is Ok,      r matches Ok(a) ==> T_parsed(a, payload, fields)
// with T_accepts / T_parsed uninterpreted there.  Here they are DEFINED as the clauses this unit states for the real body
// (one conjunct per tagged clause of `deserialize`; a rejection clause `c ==> r is Err` appears as `!c`), so the stub is implied.
// =====================================================================================================================
spec fn list_accepts(p: Seq<u8>, lg_arr: usize, count: usize, empty: bool, compact: bool) -> bool {
    lg_arr <= 18 && list_stored(lg_arr, count, compact) <= pow2(lg_arr as nat) && p.len() >= 4 * list_stored(lg_arr, count, compact)
}
spec fn list_parsed(a: List, p: Seq<u8>, lg_arr: usize, count: usize, empty: bool, compact: bool) -> bool {
    &&& !(lg_arr <= 26 && !empty && count > 0 && p.len() < 4 * list_stored(lg_arr, count, compact))
    &&& !(lg_arr <= 26 && list_stored(lg_arr, count, compact) > pow2(lg_arr as nat))
    &&& a.container.lg_size == lg_arr
    &&& a.container.len == count
    &&& (lg_arr <= 26 && !empty && count > 0 ==> a.container.coupons@ == dec_u32s(p, list_stored(lg_arr, count, compact)) + zeros(pow2(lg_arr as nat) - list_stored(lg_arr, count, compact)))
    &&& (lg_arr <= 26 && !(!empty && count > 0) ==> a.container.coupons@ == zeros(pow2(lg_arr as nat) as int))
    &&& a.container.wf_lg() && (lg_arr < 64 ==> a.container.wf_capacity()) && a.container.wf_len()
}
spec fn set_accepts(p: Seq<u8>, lg_arr: usize, compact: bool) -> bool {
    (compact || lg_arr <= 18) && p.len() >= 4 && p.len() - 4 >= 4 * (if compact { le32_val(p.take(4)) as int } else { pow2(lg_arr as nat) as int })
}
spec fn set_parsed(a: HashSet, p: Seq<u8>, lg_arr: usize, compact: bool) -> bool {
    &&& !(p.len() < 4)
    &&& a.container.lg_size == lg_arr
    &&& (compact ==> p.len() >= 4 && ({
            let n = le32_val(p.take(4)) as int; let q = p.skip(4);
            q.len() >= 4 * n && ((forall|j: int| 0 <= j < n ==> dec_u32_at(q, j) != 0) ==> a.container.cset() == seq_set(dec_u32s(q, n)) && a.container.wf_len()) }))
    &&& (!compact && lg_arr <= 26 ==> p.len() >= 4 && a.container.len == le32_val(p.take(4)) && a.container.coupons@ == dec_u32s(p.skip(4), pow2(lg_arr as nat) as int))
    &&& a.container.wf_lg() && (lg_arr < 64 ==> a.container.wf_capacity()) && a.container.wf_len() && a.wf_load()
}

// REFINEMENT MAPPING for unit hll_api (tools/linkprove.py): hll_api calls the per-mode writers through stubs
//     requires self.ser_pre() [, lg_config_k == self.lg_config_k]     ensures self.image(lg_config_k, [hll_type,] r@)
// with `ser_pre` / `image` uninterpreted there; here they are the precondition and the conjunction of the clauses proved for the real body.
impl List {
    spec fn ser_pre(&self) -> bool { self.container.wf_len() && self.container.len <= 255 && self.container.lg_size <= 255 }
    spec fn image(&self, lg: u8, t: HllType, b: Seq<u8>) -> bool {
        &&& b == enc_hll_list(lg, self.container.lg_size as u8, tgt_of(t), true, self.container.len as u8, nz(self.container.coupons@))
        &&& b.len() == 8 + 4 * self.container.len
    }
}
impl HashSet {
    spec fn ser_pre(&self) -> bool { self.container.wf() }
    spec fn image(&self, lg: u8, t: HllType, b: Seq<u8>) -> bool {
        &&& (exists|l: Seq<u32>| sorted_perm_of(l, nz(self.container.coupons@)) && b == #[trigger] enc_hll_set(lg, self.container.lg_size as u8, tgt_of(t), true, self.container.len as u32, l))
        &&& b.len() == 12 + 4 * self.container.len
    }
}
}
fn main(){}
