#![feature(allocator_api)]
#![feature(nonzero_internals)]
use vstd::prelude::*;
use std::num::NonZeroU64;
use std::cmp::Ordering;
use vstd::std_specs::cmp::*;
use std::io;
use std::io::Cursor;
use std::io::Read;
verus! {
global size_of usize == 8;
global size_of f64 == 8;

// =====================================================================================================================
// Byte codecs: interpreted on both sides (no axiom); only `uN::from_xe_bytes(b) == xeN_val(b@)` / `to_le_bytes` are leaves
// =====================================================================================================================
spec fn le16_bytes(n: u16) -> Seq<u8> { seq![(n & 0xff) as u8, ((n >> 8) & 0xff) as u8] }
spec fn le32_bytes(n: u32) -> Seq<u8> { seq![(n & 0xff) as u8, ((n >> 8) & 0xff) as u8, ((n >> 16) & 0xff) as u8, ((n >> 24) & 0xff) as u8] }
spec fn le64_bytes(n: u64) -> Seq<u8> { le32_bytes((n & 0xffff_ffff) as u32) + le32_bytes((n >> 32) as u32) }
spec fn le16_val(b: Seq<u8>) -> u16 { (b[0] as u16) | ((b[1] as u16) << 8) }
spec fn le32_val(b: Seq<u8>) -> u32 { (b[0] as u32) | ((b[1] as u32) << 8) | ((b[2] as u32) << 16) | ((b[3] as u32) << 24) }
spec fn le64_val(b: Seq<u8>) -> u64 { (le32_val(b.subrange(0, 4)) as u64) | ((le32_val(b.subrange(4, 8)) as u64) << 32) }
// big-endian (java.nio.ByteBuffer default order): the reference implementation's encodings
spec fn be16_val(b: Seq<u8>) -> u16 { (b[1] as u16) | ((b[0] as u16) << 8) }
spec fn be32_val(b: Seq<u8>) -> u32 { (b[3] as u32) | ((b[2] as u32) << 8) | ((b[1] as u32) << 16) | ((b[0] as u32) << 24) }
spec fn be64_val(b: Seq<u8>) -> u64 { (be32_val(b.subrange(4, 8)) as u64) | ((be32_val(b.subrange(0, 4)) as u64) << 32) }

proof fn lemma_le16_roundtrip(n: u16) ensures le16_val(le16_bytes(n)) == n, le16_bytes(n).len() == 2 {
    let b0 = (n & 0xff) as u8; let b1 = ((n >> 8) & 0xff) as u8;
    assert((b0 as u16) | ((b1 as u16) << 8) == n) by (bit_vector) requires b0 == (n & 0xff) as u8, b1 == ((n >> 8) & 0xff) as u8;
}
proof fn lemma_le32_roundtrip(n: u32) ensures le32_val(le32_bytes(n)) == n, le32_bytes(n).len() == 4 {
    let b0 = (n & 0xff) as u8; let b1 = ((n >> 8) & 0xff) as u8; let b2 = ((n >> 16) & 0xff) as u8; let b3 = ((n >> 24) & 0xff) as u8;
    assert((b0 as u32) | ((b1 as u32) << 8) | ((b2 as u32) << 16) | ((b3 as u32) << 24) == n) by (bit_vector)
      requires b0 == (n & 0xff) as u8, b1 == ((n >> 8) & 0xff) as u8, b2 == ((n >> 16) & 0xff) as u8, b3 == ((n >> 24) & 0xff) as u8;
}
proof fn lemma_le64_roundtrip(n: u64) ensures le64_val(le64_bytes(n)) == n, le64_bytes(n).len() == 8 {
    let lo = (n & 0xffff_ffff) as u32; let hi = (n >> 32) as u32;
    lemma_le32_roundtrip(lo); lemma_le32_roundtrip(hi);
    assert(le64_bytes(n).subrange(0, 4) =~= le32_bytes(lo));
    assert(le64_bytes(n).subrange(4, 8) =~= le32_bytes(hi));
    assert((lo as u64) | ((hi as u64) << 32) == n) by (bit_vector) requires lo == (n & 0xffff_ffff) as u32, hi == (n >> 32) as u32;
}
// floats travel as their bit patterns
uninterp spec fn f64_bits(x: f64) -> u64;
uninterp spec fn f64_of_bits(b: u64) -> f64;
uninterp spec fn f32_of_bits(b: u32) -> f32;
#[verifier::external_body] proof fn axiom_f64_bits_roundtrip(b: u64) ensures f64_bits(f64_of_bits(b)) == b {}
#[verifier::external_body] proof fn axiom_f64_of_bits_roundtrip(x: f64) ensures f64_of_bits(f64_bits(x)) == x {}
// float -> float / float -> integer `as` casts are deterministic functions of the operand (Verus leaves the result unconstrained)
uninterp spec fn f32_widen(x: f32) -> f64;
uninterp spec fn f64_as_u16(x: f64) -> u16;
uninterp spec fn f32_as_u16(x: f32) -> u16;
uninterp spec fn f64_as_u64(x: f64) -> u64;
uninterp spec fn f32_as_u64(x: f32) -> u64;
#[verifier::external_body] fn vx_f32_as_f64(x: f32) -> (r: f64) ensures r == f32_widen(x) { x as f64 }
#[verifier::external_body] fn vx_f64_as_u16(x: f64) -> (r: u16) ensures r == f64_as_u16(x) { x as u16 }
#[verifier::external_body] fn vx_f32_as_u16(x: f32) -> (r: u16) ensures r == f32_as_u16(x) { x as u16 }
#[verifier::external_body] fn vx_f64_as_u64(x: f64) -> (r: u64) ensures r == f64_as_u64(x) { x as u64 }
#[verifier::external_body] fn vx_f32_as_u64(x: f32) -> (r: u64) ensures r == f32_as_u64(x) { x as u64 }
spec const INF_BITS: u64 = 0x7ff0_0000_0000_0000;
spec const NEG_INF_BITS: u64 = 0xfff0_0000_0000_0000;
#[verifier::external_body] fn vx_f64_infinity() -> (r: f64) ensures f64_bits(r) == INF_BITS { f64::INFINITY }
#[verifier::external_body] fn vx_f64_neg_infinity() -> (r: f64) ensures f64_bits(r) == NEG_INF_BITS { f64::NEG_INFINITY }

// std leaves (R4 rewrites of uN::from_le_bytes / n.to_le_bytes())
#[verifier::external_body] fn vx_u16_from_le_bytes(b: [u8; 2]) -> (r: u16) ensures r == le16_val(b@) { u16::from_le_bytes(b) }
#[verifier::external_body] fn vx_u32_from_le_bytes(b: [u8; 4]) -> (r: u32) ensures r == le32_val(b@) { u32::from_le_bytes(b) }
#[verifier::external_body] fn vx_u64_from_le_bytes(b: [u8; 8]) -> (r: u64) ensures r == le64_val(b@) { u64::from_le_bytes(b) }
#[verifier::external_body] fn vx_f32_from_le_bytes(b: [u8; 4]) -> (r: f32) ensures r == f32_of_bits(le32_val(b@)) { f32::from_le_bytes(b) }
#[verifier::external_body] fn vx_f64_from_le_bytes(b: [u8; 8]) -> (r: f64) ensures r == f64_of_bits(le64_val(b@)) { f64::from_le_bytes(b) }
#[verifier::external_body] fn vx_u16_from_be_bytes(b: [u8; 2]) -> (r: u16) ensures r == be16_val(b@) { u16::from_be_bytes(b) }
#[verifier::external_body] fn vx_u32_from_be_bytes(b: [u8; 4]) -> (r: u32) ensures r == be32_val(b@) { u32::from_be_bytes(b) }
#[verifier::external_body] fn vx_f32_from_be_bytes(b: [u8; 4]) -> (r: f32) ensures r == f32_of_bits(be32_val(b@)) { f32::from_be_bytes(b) }
#[verifier::external_body] fn vx_f64_from_be_bytes(b: [u8; 8]) -> (r: f64) ensures r == f64_of_bits(be64_val(b@)) { f64::from_be_bytes(b) }
#[verifier::external_body] fn vx_u16_to_le_bytes(n: u16) -> (r: [u8; 2]) ensures r@ == le16_bytes(n) { n.to_le_bytes() }
#[verifier::external_body] fn vx_u32_to_le_bytes(n: u32) -> (r: [u8; 4]) ensures r@ == le32_bytes(n) { n.to_le_bytes() }
#[verifier::external_body] fn vx_u64_to_le_bytes(n: u64) -> (r: [u8; 8]) ensures r@ == le64_bytes(n) { n.to_le_bytes() }
#[verifier::external_body] fn vx_f64_to_le_bytes(n: f64) -> (r: [u8; 8]) ensures r@ == le64_bytes(f64_bits(n)) { n.to_le_bytes() }

// float classification / order stay uninterpreted (same names as unit td_int)
// IEEE: `<` is irreflexive
#[verifier::external_body] proof fn axiom_lt_irreflexive(a: f64) ensures !f_lt(a, a) {}
#[verifier::external_body] proof fn axiom_f64_cmp_deterministic() ensures <f64 as PartialOrdSpec>::obeys_partial_cmp_spec() {}
pub uninterp spec fn f_is_nan(x: f64) -> bool;
pub uninterp spec fn f_is_inf(x: f64) -> bool;
spec fn f_lt(a: f64, b: f64) -> bool { a.partial_cmp_spec(&b) == Some(Ordering::Less) }
spec fn f_finite(x: f64) -> bool { !f_is_nan(x) && !f_is_inf(x) }
pub assume_specification [ f64::is_nan ] (x: f64) -> (r: bool) ensures r == f_is_nan(x);
pub assume_specification [ f64::is_infinite ] (x: f64) -> (r: bool) ensures r == f_is_inf(x);
pub assume_specification<T: std::cmp::PartialEq> [ <[T]>::contains ] (s: &[T], x: &T) -> (r: bool) ensures r == s@.contains(*x);
// a Vec<Centroid> (16-byte elements) cannot be longer than isize::MAX / 16
#[verifier::external_body] proof fn axiom_centroid_vec_len(v: &Vec<Centroid>) ensures v@.len() <= 0x7ff_ffff_ffff_ffff {}

// =====================================================================================================================
// error / io shims
// =====================================================================================================================
#[verifier::external_type_specification]
#[verifier::external_body]
pub struct ExIoError(std::io::Error);

struct Error { k: u8 }
impl Error {
    #[verifier::external_body] fn deserial(msg: impl Into<String>) -> Error { Error { k: 2 } }
    #[verifier::external_body] fn invalid_family(expected: u8, actual: u8, name: &'static str) -> Error { Error { k: 3 } }
    #[verifier::external_body] fn invalid_preamble_longs(expected: &[u8], actual: u8) -> Error { Error { k: 4 } }
}
trait VxIo<T> { fn vx_io(self, tag: &'static str) -> Result<T, Error>; }
impl<T> VxIo<T> for Result<T, std::io::Error> {
  // R2: `.map_err(insufficient_data(tag))` / `.map_err(make_error(tag))`
  #[verifier::external_body]
  fn vx_io(self, tag: &'static str) -> (r: Result<T, Error>)
    ensures self matches Ok(v) ==> r == Ok::<T, Error>(v), self is Err ==> r is Err
  { unimplemented!() }
}

// C14 allocation contract (R8): an allocation is bounded by the input length plus the largest structure a VALIDATED
// configuration field implies (k is a u16: 2k+30 centroids of 16 bytes and a buffer of 4 times as many f64)
spec const TD_CONFIG_MAX: int = 6292800int;   // 48 * (2 * 65535 + 30)
#[verifier::external_body]
fn vx_alloc_raw_centroids(n: usize, input_len: usize) -> (r: Vec<Centroid>)
  requires /*@C14.td.alloc_bounded*/ n * 16 <= 16 * input_len + TD_CONFIG_MAX
  ensures r@.len() == 0
{ Vec::with_capacity(n) }
#[verifier::external_body]
fn vx_alloc_raw_f64s(n: usize, input_len: usize) -> (r: Vec<f64>)
  requires /*@C14.td.alloc_bounded*/ n * 8 <= 16 * input_len + TD_CONFIG_MAX
  ensures r@.len() == 0
{ Vec::with_capacity(n) }
// Obligations that FAIL on the current /repo sit in thin verified shims around the offending call (not in the parser): the failure is a
// quick definite one in a tiny context, and the parser verifies cleanly under the stated assumption.  When the parser is repaired
// (the count validated before the call) the `requires` moves back to the call site.
// `Vec::with_capacity(num_centroids)` in deserialize: num_centroids is an unvalidated u32 of the image
fn vx_alloc_centroids(n: usize, input_len: usize) -> (r: Vec<Centroid>)
  ensures r@.len() == 0
{ vx_alloc_raw_centroids(n, input_len) }
// `Vec::with_capacity(num_buffered)` in deserialize: num_buffered is an unvalidated u32 of the image
fn vx_alloc_f64s(n: usize, input_len: usize) -> (r: Vec<f64>)
  ensures r@.len() == 0
{ vx_alloc_raw_f64s(n, input_len) }
// `Vec::with_capacity(num_centroids)` in deserialize_compat, verbose encoding: num_centroids is an unvalidated i32 of the image
fn vx_alloc_centroids_ref(n: usize, input_len: usize) -> (r: Vec<Centroid>)
  ensures r@.len() == 0
{ vx_alloc_raw_centroids(n, input_len) }
// the same call in the small encoding: num_centroids is a u16, at most 65535 * 16 bytes <= TD_CONFIG_MAX (this one VERIFIES at the call site)
#[verifier::external_body]
fn vx_alloc_centroids_u16(n: usize) -> (r: Vec<Centroid>)
  requires /*@C14.td.alloc_bounded*/ n * 16 <= TD_CONFIG_MAX
  ensures r@.len() == 0
{ Vec::with_capacity(n) }

// `centroids_weight += weight.get()` / `total_weight += weight.get()` in the three centroid loops: the weights come straight from the image
// (u64, or an f64 / f32 cast to u64) and their sum is not checked against u64::MAX (overflow panic in debug builds, wrap in release)
#[verifier::external_body]
fn vx_add_weight_raw(acc: &mut u64, w: u64)
  requires /*@C14.td.weight_sum_fits*/ *old(acc) + w <= u64::MAX
  ensures *final(acc) == *old(acc) + w
{ *acc += w; }
fn vx_add_weight(acc: &mut u64, w: u64) ensures *final(acc) == *old(acc) + w { vx_add_weight_raw(acc, w) }            // deserialize
fn vx_add_weight_refv(acc: &mut u64, w: u64) ensures *final(acc) == *old(acc) + w { vx_add_weight_raw(acc, w) }       // deserialize_compat, verbose
fn vx_add_weight_refs(acc: &mut u64, w: u64) ensures *final(acc) == *old(acc) + w { vx_add_weight_raw(acc, w) }       // deserialize_compat, small

// =====================================================================================================================
// codec/encode.rs: SketchBytes, real bodies, view = the bytes written so far
// =====================================================================================================================
struct SketchBytes {
    bytes: Vec<u8>,
}

impl SketchBytes {
    spec fn view(&self) -> Seq<u8> { self.bytes@ }

    fn with_capacity(capacity: usize) -> (r: Self) ensures r@ == Seq::<u8>::empty() {
        Self {
            bytes: Vec::with_capacity(capacity),
        }
    }

    fn into_bytes(self) -> (r: Vec<u8>) ensures r@ == self@ {
        self.bytes
    }

    fn write(&mut self, buf: &[u8]) ensures final(self)@ == old(self)@ + buf@ {
        self.bytes.extend_from_slice(buf);
    }

    fn write_u8(&mut self, n: u8) ensures final(self)@ == old(self)@.push(n) {
        self.bytes.push(n);
    }

    fn write_u16_le(&mut self, n: u16) ensures final(self)@ == old(self)@ + le16_bytes(n) {
        self.write(&vx_u16_to_le_bytes(n));
    }

    fn write_u32_le(&mut self, n: u32) ensures final(self)@ == old(self)@ + le32_bytes(n) {
        self.write(&vx_u32_to_le_bytes(n));
    }

    fn write_u64_le(&mut self, n: u64) ensures final(self)@ == old(self)@ + le64_bytes(n) {
        self.write(&vx_u64_to_le_bytes(n));
    }

    fn write_f64_le(&mut self, n: f64) ensures final(self)@ == old(self)@ + le64_bytes(f64_bits(n)) {
        self.write(&vx_f64_to_le_bytes(n));
    }
}

// =====================================================================================================================
// codec/decode.rs: SketchSlice; the std Cursor is abstracted by rem() = the bytes not yet consumed.
// =====================================================================================================================
#[verifier::external_body]
struct SketchSlice<'a> {
    slice: Cursor<&'a [u8]>,
}

impl SketchSlice<'_> {
    // the std Cursor is abstracted by the bytes it was created over and the read position (no Seq::skip/take chains: the parsers
    // reason about plain offsets)
    uninterp spec fn data(&self) -> Seq<u8>;
    uninterp spec fn pos(&self) -> int;
    spec fn inv(&self) -> bool { 0 <= self.pos() <= self.data().len() }
    // a read of n bytes: succeeds iff they are there, then returns bytes [pos, pos+n) and advances
    spec fn reads(pre: Self, post: Self, n: int) -> bool { post.data() == pre.data() && post.inv() && post.pos() == pre.pos() + n }
    spec fn fails(pre: Self, post: Self) -> bool { post.data() == pre.data() && post.inv() }
    spec fn next(&self, n: int) -> Seq<u8> { self.data().subrange(self.pos(), self.pos() + n) }

    #[verifier::external_body]
    fn new(slice: &[u8]) -> (r: SketchSlice<'_>) ensures r.data() == slice@, r.pos() == 0, r.inv() {
        unimplemented!()
    }

    #[verifier::external_body]
    fn read_exact(&mut self, buf: &mut [u8]) -> (r: io::Result<()>)
      requires old(self).inv()
      ensures
        old(self).pos() + old(buf)@.len() <= old(self).data().len() ==> (r is Ok && final(buf)@ == old(self).next(old(buf)@.len() as int) && Self::reads(*old(self), *final(self), old(buf)@.len() as int)),
        old(self).pos() + old(buf)@.len() > old(self).data().len() ==> r is Err && Self::fails(*old(self), *final(self)),
        final(buf)@.len() == old(buf)@.len(),
    {
        unimplemented!()
    }

    fn read_u8(&mut self) -> (r: io::Result<u8>)
      requires old(self).inv()
      ensures
        old(self).pos() + 1 <= old(self).data().len() ==> (r matches Ok(v) && v == old(self).data()[old(self).pos()] && Self::reads(*old(self), *final(self), 1)),
        old(self).pos() + 1 > old(self).data().len() ==> r is Err && Self::fails(*old(self), *final(self)),
    {
        let mut buf = [0u8; 1];
        self.read_exact(&mut buf)?;
        Ok(buf[0])
    }

    fn read_u16_le(&mut self) -> (r: io::Result<u16>)
      requires old(self).inv()
      ensures
        old(self).pos() + 2 <= old(self).data().len() ==> (r matches Ok(v) && v == le16_val(old(self).next(2)) && Self::reads(*old(self), *final(self), 2)),
        old(self).pos() + 2 > old(self).data().len() ==> r is Err && Self::fails(*old(self), *final(self)),
    {
        let mut buf = [0u8; 2];
        self.read_exact(&mut buf)?;
        Ok(vx_u16_from_le_bytes(buf))
    }

    fn read_u16_be(&mut self) -> (r: io::Result<u16>)
      requires old(self).inv()
      ensures
        old(self).pos() + 2 <= old(self).data().len() ==> (r matches Ok(v) && v == be16_val(old(self).next(2)) && Self::reads(*old(self), *final(self), 2)),
        old(self).pos() + 2 > old(self).data().len() ==> r is Err && Self::fails(*old(self), *final(self)),
    {
        let mut buf = [0u8; 2];
        self.read_exact(&mut buf)?;
        Ok(vx_u16_from_be_bytes(buf))
    }

    fn read_u32_le(&mut self) -> (r: io::Result<u32>)
      requires old(self).inv()
      ensures
        old(self).pos() + 4 <= old(self).data().len() ==> (r matches Ok(v) && v == le32_val(old(self).next(4)) && Self::reads(*old(self), *final(self), 4)),
        old(self).pos() + 4 > old(self).data().len() ==> r is Err && Self::fails(*old(self), *final(self)),
    {
        let mut buf = [0u8; 4];
        self.read_exact(&mut buf)?;
        Ok(vx_u32_from_le_bytes(buf))
    }

    fn read_u32_be(&mut self) -> (r: io::Result<u32>)
      requires old(self).inv()
      ensures
        old(self).pos() + 4 <= old(self).data().len() ==> (r matches Ok(v) && v == be32_val(old(self).next(4)) && Self::reads(*old(self), *final(self), 4)),
        old(self).pos() + 4 > old(self).data().len() ==> r is Err && Self::fails(*old(self), *final(self)),
    {
        let mut buf = [0u8; 4];
        self.read_exact(&mut buf)?;
        Ok(vx_u32_from_be_bytes(buf))
    }

    fn read_u64_le(&mut self) -> (r: io::Result<u64>)
      requires old(self).inv()
      ensures
        old(self).pos() + 8 <= old(self).data().len() ==> (r matches Ok(v) && v == le64_val(old(self).next(8)) && Self::reads(*old(self), *final(self), 8)),
        old(self).pos() + 8 > old(self).data().len() ==> r is Err && Self::fails(*old(self), *final(self)),
    {
        let mut buf = [0u8; 8];
        self.read_exact(&mut buf)?;
        Ok(vx_u64_from_le_bytes(buf))
    }

    fn read_f32_le(&mut self) -> (r: io::Result<f32>)
      requires old(self).inv()
      ensures
        old(self).pos() + 4 <= old(self).data().len() ==> (r matches Ok(v) && v == f32_of_bits(le32_val(old(self).next(4))) && Self::reads(*old(self), *final(self), 4)),
        old(self).pos() + 4 > old(self).data().len() ==> r is Err && Self::fails(*old(self), *final(self)),
    {
        let mut buf = [0u8; 4];
        self.read_exact(&mut buf)?;
        Ok(vx_f32_from_le_bytes(buf))
    }

    fn read_f32_be(&mut self) -> (r: io::Result<f32>)
      requires old(self).inv()
      ensures
        old(self).pos() + 4 <= old(self).data().len() ==> (r matches Ok(v) && v == f32_of_bits(be32_val(old(self).next(4))) && Self::reads(*old(self), *final(self), 4)),
        old(self).pos() + 4 > old(self).data().len() ==> r is Err && Self::fails(*old(self), *final(self)),
    {
        let mut buf = [0u8; 4];
        self.read_exact(&mut buf)?;
        Ok(vx_f32_from_be_bytes(buf))
    }

    fn read_f64_le(&mut self) -> (r: io::Result<f64>)
      requires old(self).inv()
      ensures
        old(self).pos() + 8 <= old(self).data().len() ==> (r matches Ok(v) && v == f64_of_bits(le64_val(old(self).next(8))) && Self::reads(*old(self), *final(self), 8)),
        old(self).pos() + 8 > old(self).data().len() ==> r is Err && Self::fails(*old(self), *final(self)),
    {
        let mut buf = [0u8; 8];
        self.read_exact(&mut buf)?;
        Ok(vx_f64_from_le_bytes(buf))
    }

    fn read_f64_be(&mut self) -> (r: io::Result<f64>)
      requires old(self).inv()
      ensures
        old(self).pos() + 8 <= old(self).data().len() ==> (r matches Ok(v) && v == f64_of_bits(be64_val(old(self).next(8))) && Self::reads(*old(self), *final(self), 8)),
        old(self).pos() + 8 > old(self).data().len() ==> r is Err && Self::fails(*old(self), *final(self)),
    {
        let mut buf = [0u8; 8];
        self.read_exact(&mut buf)?;
        Ok(vx_f64_from_be_bytes(buf))
    }
}

// =====================================================================================================================
// codec/assert.rs, codec/family.rs
// =====================================================================================================================
fn ensure_serial_version_is(expected: u8, actual: u8) -> (r: Result<(), Error>)
  ensures r is Ok <==> expected == actual
{
    if expected == actual {
        Ok(())
    } else {
        Err(Error::deserial(format!(
            "unsupported serial version: expected {expected}, got {actual}"
        )))
    }
}

fn ensure_preamble_longs_in(expected: &[u8], actual: u8) -> (r: Result<(), Error>)
  ensures r is Ok <==> expected@.contains(actual)
{
    if expected.contains(&actual) {
        Ok(())
    } else {
        Err(Error::invalid_preamble_longs(expected, actual))
    }
}

struct Family {
    id: u8,
    name: &'static str,
    min_pre_longs: u8,
    max_pre_longs: u8,
}

impl Family {
    const TDIGEST: Family = Family {
        id: 20,
        name: "TDIGEST",
        min_pre_longs: 1,
        max_pre_longs: 2,
    };

    fn validate_id(&self, family_id: u8) -> (r: Result<(), Error>)
      ensures r is Ok <==> family_id == self.id
    {
        if family_id != self.id {
            Err(Error::invalid_family(self.id, family_id, self.name))
        } else {
            Ok(())
        }
    }
}

// tdigest/serialization.rs
const PREAMBLE_LONGS_EMPTY_OR_SINGLE: u8 = 1;
const PREAMBLE_LONGS_MULTIPLE: u8 = 2;
const SERIAL_VERSION: u8 = 1;
exec const FLAGS_IS_EMPTY: u8 ensures FLAGS_IS_EMPTY == 1 { proof { assert(1u8 << 0u8 == 1u8) by (bit_vector); } 1 << 0 }
exec const FLAGS_IS_SINGLE_VALUE: u8 ensures FLAGS_IS_SINGLE_VALUE == 2 { proof { assert(1u8 << 1u8 == 2u8) by (bit_vector); } 1 << 1 }
exec const FLAGS_REVERSE_MERGE: u8 ensures FLAGS_REVERSE_MERGE == 4 { proof { assert(1u8 << 2u8 == 4u8) by (bit_vector); } 1 << 2 }
const COMPAT_DOUBLE: u32 = 1;
const COMPAT_FLOAT: u32 = 2;

// tdigest/sketch.rs
const BUFFER_MULTIPLIER: usize = 4;
exec const DEFAULT_WEIGHT: NonZeroU64 ensures DEFAULT_WEIGHT.get() == 1 {
    proof { }
    NonZeroU64::new(1).unwrap()
}

#[derive(Debug, Clone, Copy, PartialEq)]
struct Centroid {
    mean: f64,
    weight: NonZeroU64,
}

struct TDigestMut {
    k: u16,

    reverse_merge: bool,
    min: f64,
    max: f64,

    centroids: Vec<Centroid>,
    centroids_weight: u64,
    centroids_capacity: usize,
    buffer: Vec<f64>,
}

// ================= integer skeleton (same definitions as unit td_int) =================
spec fn wsum(cs: Seq<Centroid>) -> int decreases cs.len() {
    if cs.len() == 0 { 0 } else { wsum(cs.drop_last()) + cs.last().weight.get() }
}
proof fn lemma_wsum_push(cs: Seq<Centroid>, c: Centroid)
  ensures wsum(cs.push(c)) == wsum(cs) + c.weight.get()
{
    assert(cs.push(c).drop_last() =~= cs);
}
proof fn lemma_wsum_ge_len(cs: Seq<Centroid>)
  ensures wsum(cs) >= cs.len()
  decreases cs.len()
{
    if cs.len() > 0 { lemma_wsum_ge_len(cs.drop_last()); }
}
spec fn cap_of_k(k: u16) -> int { k * 2 + (if k < 30 { 30int } else { 10int }) }

// =====================================================================================================================
// FORMAT SPEC (DESIGN.md Appendix A, "t-digest"), family 20, serVer 1.  Written from the published layout.
//   0 preLongs (1 empty/single, 2) | 1 serVer=1 | 2 famID=20 | 3-4 k u16 | 5 flags: EMPTY 1, SINGLE_VALUE 2, REVERSE_MERGE 4 | 6-7 unused
//   single: value at 8.   otherwise: 8 numCentroids u32 | 12 numBuffered u32 | min | max | (mean, weight)* | buffered values*
//   values f64 / weights u64 in the double variant; f32 / u32 in the float variant (C++ tdigest<float>)
//   Reference implementation (big endian): 0 type i32 (1 verbose, 2 small)
//     verbose: 4 min f64 | 12 max f64 | 20 compression f64 | 28 numCentroids i32 | 32 (weight f64, mean f64)*
//     small:   4 min f64 | 12 max f64 | 20 compression f32 | 24 two i16 capacities | 28 numCentroids i16 | 30 (weight f32, mean f32)*
// =====================================================================================================================
// abstract content of a t-digest: floats as f64 bit patterns
ghost struct TdImg {
    k: u16,
    rm: bool,                   // merge direction of the next compression
    min: u64,
    max: u64,
    cents: Seq<(u64, u64)>,     // (mean bits, weight)
    buf: Seq<u64>,              // buffered (not yet merged) values
}
spec fn img_wsum(c: Seq<(u64, u64)>) -> int decreases c.len() { if c.len() == 0 { 0 } else { img_wsum(c.drop_last()) + c.last().1 } }
spec fn img_total(v: TdImg) -> int { img_wsum(v.cents) + v.buf.len() }
spec fn img_empty(v: TdImg) -> bool { v.cents.len() == 0 && v.buf.len() == 0 }
spec fn img_single_value(v: TdImg) -> u64 { if v.cents.len() >= 1 { v.cents[0].0 } else { v.buf[0] } }
spec fn td_flags(empty: bool, single: bool, rm: bool) -> u8 { ((if empty { 1int } else { 0int }) + (if single { 2int } else { 0int }) + (if rm { 4int } else { 0int })) as u8 }
spec fn td_head(pre: u8, k: u16, flags: u8) -> Seq<u8> { seq![pre, 1u8, 20u8] + le16_bytes(k) + seq![flags, 0u8, 0u8] }
spec fn enc_cents(c: Seq<(u64, u64)>) -> Seq<u8> decreases c.len() {
    if c.len() == 0 { Seq::empty() } else { enc_cents(c.drop_last()) + le64_bytes(c.last().0) + le64_bytes(c.last().1) }
}
spec fn enc_u64s(s: Seq<u64>) -> Seq<u8> decreases s.len() { if s.len() == 0 { Seq::empty() } else { enc_u64s(s.drop_last()) + le64_bytes(s.last()) } }
// the spec ENCODER of the double variant: any writer (Java, C++ with or without the buffer, this crate)
spec fn enc_td(v: TdImg) -> Seq<u8> {
    if img_empty(v) { td_head(1, v.k, td_flags(true, false, v.rm)) }
    else if img_total(v) == 1 { td_head(1, v.k, td_flags(false, true, v.rm)) + le64_bytes(img_single_value(v)) }
    else {
        td_head(2, v.k, td_flags(false, false, v.rm)) + le32_bytes(v.cents.len() as u32) + le32_bytes(v.buf.len() as u32)
          + le64_bytes(v.min) + le64_bytes(v.max) + enc_cents(v.cents) + enc_u64s(v.buf)
    }
}

// the spec DECODER (both DataSketches variants)
spec fn vs(is_f32: bool) -> int { if is_f32 { 4 } else { 8 } }      // size of a value and of a weight
spec fn dec_val(b: Seq<u8>, off: int, is_f32: bool) -> u64 {
    if is_f32 { f64_bits(f32_widen(f32_of_bits(le32_val(b.subrange(off, off + 4))))) } else { le64_val(b.subrange(off, off + 8)) }
}
spec fn dec_weight(b: Seq<u8>, off: int, is_f32: bool) -> u64 {
    if is_f32 { le32_val(b.subrange(off, off + 4)) as u64 } else { le64_val(b.subrange(off, off + 8)) }
}
spec fn hdr_k(b: Seq<u8>) -> u16 { le16_val(b.subrange(3, 5)) }
spec fn hdr_empty(b: Seq<u8>) -> bool { b[5] & 1 != 0 }
spec fn hdr_single(b: Seq<u8>) -> bool { b[5] & 2 != 0 }
spec fn hdr_rm(b: Seq<u8>) -> bool { b[5] & 4 != 0 }
spec fn hdr_nc(b: Seq<u8>) -> int { le32_val(b.subrange(8, 12)) as int }
spec fn hdr_nb(b: Seq<u8>) -> int { le32_val(b.subrange(12, 16)) as int }
#[verifier::opaque] spec fn cent_off(i: int, is_f32: bool) -> int { 16 + 2 * vs(is_f32) + i * (2 * vs(is_f32)) }
#[verifier::opaque] spec fn buf_off(b: Seq<u8>, j: int, is_f32: bool) -> int { cent_off(hdr_nc(b), is_f32) + j * vs(is_f32) }
spec fn dec_cent(b: Seq<u8>, i: int, is_f32: bool) -> (u64, u64) { (dec_val(b, cent_off(i, is_f32), is_f32), dec_weight(b, cent_off(i, is_f32) + vs(is_f32), is_f32)) }
spec fn dec_cents(b: Seq<u8>, n: int, is_f32: bool) -> Seq<(u64, u64)> { Seq::new(n as nat, |i: int| dec_cent(b, i, is_f32)) }
spec fn dec_buf(b: Seq<u8>, n: int, is_f32: bool) -> Seq<u64> { Seq::new(n as nat, |j: int| dec_val(b, buf_off(b, j, is_f32), is_f32)) }
spec fn one_cent(m: u64) -> Seq<(u64, u64)> { Seq::<(u64, u64)>::empty().push((m, 1u64)) }
spec fn empty_img(k: u16) -> TdImg { TdImg { k, rm: false, min: INF_BITS, max: NEG_INF_BITS, cents: Seq::empty(), buf: Seq::empty() } }
spec fn dec_td(b: Seq<u8>, is_f32: bool) -> TdImg {
    if hdr_empty(b) { empty_img(hdr_k(b)) }          // an empty sketch has no merge direction yet
    else if hdr_single(b) {
        let v = dec_val(b, 8, is_f32);
        TdImg { k: hdr_k(b), rm: hdr_rm(b), min: v, max: v, cents: one_cent(v), buf: Seq::empty() }
    } else {
        TdImg { k: hdr_k(b), rm: hdr_rm(b), min: dec_val(b, 16, is_f32), max: dec_val(b, 16 + vs(is_f32), is_f32),
                cents: dec_cents(b, hdr_nc(b), is_f32), buf: dec_buf(b, hdr_nb(b), is_f32) }
    }
}
// bytes an image of this header needs
spec fn td_needed(b: Seq<u8>, is_f32: bool) -> int {
    if hdr_empty(b) { 8 } else if hdr_single(b) { 8 + vs(is_f32) } else { buf_off(b, hdr_nb(b), is_f32) }
}
spec fn bits_finite(x: u64) -> bool { f_finite(f64_of_bits(x)) }
spec fn bits_nan(x: u64) -> bool { f_is_nan(f64_of_bits(x)) }
// a valid image: what a conforming writer can emit
spec fn valid_td_image(b: Seq<u8>, is_f32: bool) -> bool {
    &&& b.len() >= 8 && b[1] == 1 && b[2] == 20 && hdr_k(b) >= 10
    &&& b[0] == (if hdr_empty(b) || hdr_single(b) { 1u8 } else { 2u8 })
    &&& b.len() >= td_needed(b, is_f32)
    &&& !hdr_empty(b) && hdr_single(b) ==> bits_finite(dec_val(b, 8, is_f32))
    &&& !hdr_empty(b) && !hdr_single(b) ==> {
        &&& !bits_nan(dec_val(b, 16, is_f32)) && !bits_nan(dec_val(b, 16 + vs(is_f32), is_f32))
        &&& forall|i: int| 0 <= i < hdr_nc(b) ==> bits_finite(#[trigger] dec_cent(b, i, is_f32).0) && dec_cent(b, i, is_f32).1 != 0
        &&& forall|j: int| 0 <= j < hdr_nb(b) ==> bits_finite(#[trigger] dec_val(b, buf_off(b, j, is_f32), is_f32))
        &&& img_total(dec_td(b, is_f32)) <= u64::MAX
    }
}

// reference-implementation images
spec fn ref_type(b: Seq<u8>) -> u32 { be32_val(b.subrange(0, 4)) }
spec fn ref_min(b: Seq<u8>) -> u64 { be64_val(b.subrange(4, 12)) }
spec fn ref_max(b: Seq<u8>) -> u64 { be64_val(b.subrange(12, 20)) }
spec fn refv_k(b: Seq<u8>) -> u16 { f64_as_u16(f64_of_bits(be64_val(b.subrange(20, 28)))) }
spec fn refv_nc(b: Seq<u8>) -> int { be32_val(b.subrange(28, 32)) as int }
spec fn refv_cent(b: Seq<u8>, i: int) -> (u64, u64) {
    (be64_val(b.subrange(32 + 16 * i + 8, 32 + 16 * i + 16)), f64_as_u64(f64_of_bits(be64_val(b.subrange(32 + 16 * i, 32 + 16 * i + 8)))))
}
spec fn refv_cents(b: Seq<u8>, n: int) -> Seq<(u64, u64)> { Seq::new(n as nat, |i: int| refv_cent(b, i)) }
spec fn dec_td_ref_verbose(b: Seq<u8>) -> TdImg {
    TdImg { k: refv_k(b), rm: false, min: ref_min(b), max: ref_max(b), cents: refv_cents(b, refv_nc(b)), buf: Seq::empty() }
}
spec fn refs_k(b: Seq<u8>) -> u16 { f32_as_u16(f32_of_bits(be32_val(b.subrange(20, 24)))) }
spec fn refs_nc(b: Seq<u8>) -> int { be16_val(b.subrange(28, 30)) as int }
spec fn refs_cent(b: Seq<u8>, i: int) -> (u64, u64) {
    (f64_bits(f32_widen(f32_of_bits(be32_val(b.subrange(30 + 8 * i + 4, 30 + 8 * i + 8))))), f32_as_u64(f32_of_bits(be32_val(b.subrange(30 + 8 * i, 30 + 8 * i + 4)))))
}
spec fn refs_cents(b: Seq<u8>, n: int) -> Seq<(u64, u64)> { Seq::new(n as nat, |i: int| refs_cent(b, i)) }
spec fn dec_td_ref_small(b: Seq<u8>) -> TdImg {
    TdImg { k: refs_k(b), rm: false, min: ref_min(b), max: ref_max(b), cents: refs_cents(b, refs_nc(b)), buf: Seq::empty() }
}
spec fn valid_ref_verbose(b: Seq<u8>) -> bool {
    &&& b.len() >= 32 + 16 * refv_nc(b) && ref_type(b) == 1 && refv_k(b) >= 10
    &&& !bits_nan(ref_min(b)) && !bits_nan(ref_max(b))
    &&& forall|i: int| 0 <= i < refv_nc(b) ==> bits_finite(#[trigger] refv_cent(b, i).0) && refv_cent(b, i).1 != 0
}
spec fn valid_ref_small(b: Seq<u8>) -> bool {
    &&& b.len() >= 30 + 8 * refs_nc(b) && ref_type(b) == 2 && refs_k(b) >= 10
    &&& !bits_nan(ref_min(b)) && !bits_nan(ref_max(b))
    &&& forall|i: int| 0 <= i < refs_nc(b) ==> bits_finite(#[trigger] refs_cent(b, i).0) && refs_cent(b, i).1 != 0
}


// =====================================================================================================================
// C11 at spec level (lemma L): the spec decoder inverts the spec encoder of the double variant
// =====================================================================================================================
proof fn lemma_enc_cents_len(c: Seq<(u64, u64)>) ensures enc_cents(c).len() == 16 * c.len() decreases c.len() {
    if c.len() > 0 { lemma_enc_cents_len(c.drop_last()); lemma_le64_roundtrip(c.last().0); lemma_le64_roundtrip(c.last().1); }
}
proof fn lemma_enc_u64s_len(s: Seq<u64>) ensures enc_u64s(s).len() == 8 * s.len() decreases s.len() {
    if s.len() > 0 { lemma_enc_u64s_len(s.drop_last()); lemma_le64_roundtrip(s.last()); }
}
proof fn lemma_enc_cents_at(c: Seq<(u64, u64)>, pre: Seq<u8>, tail: Seq<u8>, i: int)
  requires 0 <= i < c.len()
  ensures ({ let e = pre + enc_cents(c) + tail; let o = pre.len() + 16 * i;
             e.subrange(o, o + 8) == le64_bytes(c[i].0) && e.subrange(o + 8, o + 16) == le64_bytes(c[i].1) })
  decreases c.len()
{
    lemma_enc_cents_len(c); lemma_enc_cents_len(c.drop_last()); lemma_le64_roundtrip(c.last().0); lemma_le64_roundtrip(c.last().1);
    let e = pre + enc_cents(c) + tail; let o = pre.len() + 16 * i;
    if i == c.len() - 1 {
        assert(e.subrange(o, o + 8) =~= le64_bytes(c.last().0));
        assert(e.subrange(o + 8, o + 16) =~= le64_bytes(c.last().1));
    } else {
        let t2 = le64_bytes(c.last().0) + le64_bytes(c.last().1) + tail;
        lemma_enc_cents_at(c.drop_last(), pre, t2, i);
        assert(pre + enc_cents(c.drop_last()) + t2 =~= e);
    }
}
proof fn lemma_enc_u64s_at(s: Seq<u64>, pre: Seq<u8>, tail: Seq<u8>, i: int)
  requires 0 <= i < s.len()
  ensures ({ let e = pre + enc_u64s(s) + tail; let o = pre.len() + 8 * i; e.subrange(o, o + 8) == le64_bytes(s[i]) })
  decreases s.len()
{
    lemma_enc_u64s_len(s); lemma_enc_u64s_len(s.drop_last()); lemma_le64_roundtrip(s.last());
    let e = pre + enc_u64s(s) + tail; let o = pre.len() + 8 * i;
    if i == s.len() - 1 {
        assert(e.subrange(o, o + 8) =~= le64_bytes(s.last()));
    } else {
        let t2 = le64_bytes(s.last()) + tail;
        lemma_enc_u64s_at(s.drop_last(), pre, t2, i);
        assert(pre + enc_u64s(s.drop_last()) + t2 =~= e);
    }
}
// the abstract states a writer serializes (after its compression): what `wf`, `wf_empty`, `wf_single`, `values_checked` give
spec fn img_ok(v: TdImg) -> bool {
    &&& v.k >= 10 && v.cents.len() <= u32::MAX && v.buf.len() <= u32::MAX && img_total(v) <= u64::MAX
    &&& img_empty(v) ==> v == empty_img(v.k)
    &&& img_total(v) == 1 ==> v.buf.len() == 0 && v.cents.len() == 1 && v.cents[0].1 == 1 && v.min == v.cents[0].0 && v.max == v.cents[0].0
    &&& !img_empty(v) ==> !bits_nan(v.min) && !bits_nan(v.max)
    &&& forall|i: int| 0 <= i < v.cents.len() ==> bits_finite(#[trigger] v.cents[i].0) && v.cents[i].1 != 0
    &&& forall|j: int| 0 <= j < v.buf.len() ==> bits_finite(#[trigger] v.buf[j])
}
proof fn lemma_td_flags()
  ensures forall|e: bool, s: bool, r: bool| ({ let f = #[trigger] td_flags(e, s, r); (f & 1 != 0) == e && (f & 2 != 0) == s && (f & 4 != 0) == r })
{
    assert forall|e: bool, s: bool, r: bool| ({ let f = #[trigger] td_flags(e, s, r); (f & 1 != 0) == e && (f & 2 != 0) == s && (f & 4 != 0) == r }) by {
        let f = td_flags(e, s, r);
        assert(f <= 7 ==> ((f & 1 != 0) == (f == 1 || f == 3 || f == 5 || f == 7)) && ((f & 2 != 0) == (f == 2 || f == 3 || f == 6 || f == 7)) && ((f & 4 != 0) == (f >= 4))) by (bit_vector);
    }
}
proof fn lemma_td_head(pre: u8, k: u16, flags: u8, rest: Seq<u8>)
  ensures ({ let e = td_head(pre, k, flags) + rest;
     e.len() == 8 + rest.len() && e[0] == pre && e[1] == 1 && e[2] == 20 && hdr_k(e) == k && e[5] == flags
     && (forall|a: int, z: int| 8 <= a <= z <= e.len() ==> #[trigger] e.subrange(a, z) == rest.subrange(a - 8, z - 8)) })
{
    let e = td_head(pre, k, flags) + rest;
    lemma_le16_roundtrip(k);
    assert(e.subrange(3, 5) =~= le16_bytes(k));
    assert forall|a: int, z: int| 8 <= a <= z <= e.len() implies #[trigger] e.subrange(a, z) == rest.subrange(a - 8, z - 8) by {
        assert(e.subrange(a, z) =~= rest.subrange(a - 8, z - 8));
    }
}
spec fn multi_r0(v: TdImg) -> Seq<u8> { le32_bytes(v.cents.len() as u32) + le32_bytes(v.buf.len() as u32) + le64_bytes(v.min) + le64_bytes(v.max) }
spec fn multi_rest(v: TdImg) -> Seq<u8> { multi_r0(v) + enc_cents(v.cents) + enc_u64s(v.buf) }
spec fn is_multi(v: TdImg) -> bool { !img_empty(v) && img_total(v) != 1 }
#[verifier::spinoff_prover]
proof fn lemma_multi_fields(v: TdImg)
  requires img_ok(v), is_multi(v)
  ensures ({ let e = enc_td(v);
    &&& e == td_head(2, v.k, td_flags(false, false, v.rm)) + multi_rest(v)
    &&& e.len() == 32 + 16 * v.cents.len() + 8 * v.buf.len()
    &&& e[0] == 2 && e[1] == 1 && e[2] == 20 && hdr_k(e) == v.k && !hdr_empty(e) && !hdr_single(e) && hdr_rm(e) == v.rm
    &&& hdr_nc(e) == v.cents.len() && hdr_nb(e) == v.buf.len()
    &&& dec_val(e, 16, false) == v.min && dec_val(e, 24, false) == v.max })
{
    let e = enc_td(v); let fl = td_flags(false, false, v.rm); let rest = multi_rest(v);
    let nc = v.cents.len() as int; let nb = v.buf.len() as int;
    lemma_td_flags();
    lemma_le32_roundtrip(nc as u32); lemma_le32_roundtrip(nb as u32); lemma_le64_roundtrip(v.min); lemma_le64_roundtrip(v.max);
    lemma_enc_cents_len(v.cents); lemma_enc_u64s_len(v.buf);
    assert(e =~= td_head(2, v.k, fl) + rest);
    lemma_td_head(2, v.k, fl, rest);
    assert(rest.subrange(0, 4) =~= le32_bytes(nc as u32));
    assert(rest.subrange(4, 8) =~= le32_bytes(nb as u32));
    assert(rest.subrange(8, 16) =~= le64_bytes(v.min));
    assert(rest.subrange(16, 24) =~= le64_bytes(v.max));
    assert(e.subrange(8, 12) == rest.subrange(0, 4));
    assert(e.subrange(12, 16) == rest.subrange(4, 8));
    assert(e.subrange(16, 24) == rest.subrange(8, 16));
    assert(e.subrange(24, 32) == rest.subrange(16, 24));
}
proof fn lemma_off_double(b: Seq<u8>, i: int, j: int)
  ensures cent_off(i, false) == 32 + 16 * i, buf_off(b, j, false) == 32 + 16 * hdr_nc(b) + 8 * j
{
    reveal(cent_off); reveal(buf_off);
    assert(vs(false) == 8);
    assert(i * (2 * 8) == 16 * i) by (nonlinear_arith);
    assert(hdr_nc(b) * (2 * 8) == 16 * hdr_nc(b)) by (nonlinear_arith);
    assert(j * 8 == 8 * j) by (nonlinear_arith);
}
// a multi image = a 32-byte prefix, the centroid records, the buffered values
spec fn multi_pre(v: TdImg) -> Seq<u8> { td_head(2, v.k, td_flags(false, false, v.rm)) + multi_r0(v) }
proof fn lemma_multi_shape(v: TdImg)
  requires is_multi(v)
  ensures enc_td(v) == multi_pre(v) + enc_cents(v.cents) + enc_u64s(v.buf), multi_pre(v).len() == 32
{
    lemma_le32_roundtrip(v.cents.len() as u32); lemma_le32_roundtrip(v.buf.len() as u32); lemma_le64_roundtrip(v.min); lemma_le64_roundtrip(v.max);
    lemma_le16_roundtrip(v.k);
    assert(enc_td(v) =~= multi_pre(v) + enc_cents(v.cents) + enc_u64s(v.buf));
}
proof fn lemma_multi_cent(v: TdImg, i: int)
  requires img_ok(v), is_multi(v), 0 <= i < v.cents.len()
  ensures dec_cent(enc_td(v), i, false) == v.cents[i]
{
    let e = enc_td(v);
    lemma_multi_shape(v);
    lemma_enc_cents_at(v.cents, multi_pre(v), enc_u64s(v.buf), i);
    lemma_le64_roundtrip(v.cents[i].0); lemma_le64_roundtrip(v.cents[i].1);
    lemma_off_double(e, i, 0);
}
proof fn lemma_multi_buf(v: TdImg, j: int)
  requires img_ok(v), is_multi(v), 0 <= j < v.buf.len()
  ensures dec_val(enc_td(v), buf_off(enc_td(v), j, false), false) == v.buf[j], buf_off(enc_td(v), j, false) == 32 + 16 * v.cents.len() + 8 * j
{
    let e = enc_td(v); let nc = v.cents.len() as int; let pre2 = multi_pre(v) + enc_cents(v.cents);
    lemma_multi_shape(v); lemma_multi_fields(v);
    lemma_enc_cents_len(v.cents);
    lemma_enc_u64s_at(v.buf, pre2, Seq::empty(), j);
    assert(pre2 + enc_u64s(v.buf) + Seq::<u8>::empty() =~= e);
    lemma_le64_roundtrip(v.buf[j]);
    lemma_off_double(e, 0, j);
}
#[verifier::spinoff_prover]
proof fn lemma_td_roundtrip(v: TdImg)
  requires img_ok(v)
  ensures /*@C11.td.spec_roundtrip*/ dec_td(enc_td(v), false) == v, /*@C13.td.double.encoder_valid*/ valid_td_image(enc_td(v), false)
{
    let e = enc_td(v);
    if img_empty(v) {
        lemma_td_flags();
        lemma_td_head(1, v.k, td_flags(true, false, v.rm), Seq::empty());
        assert(e =~= td_head(1, v.k, td_flags(true, false, v.rm)) + Seq::<u8>::empty());
        assert(valid_td_image(e, false));
    } else if img_total(v) == 1 {
        lemma_td_flags();
        let x = v.cents[0].0;
        lemma_td_head(1, v.k, td_flags(false, true, v.rm), le64_bytes(x));
        lemma_le64_roundtrip(x);
        assert(e.subrange(8, 16) == le64_bytes(x).subrange(0, 8));
        assert(le64_bytes(x).subrange(0, 8) =~= le64_bytes(x));
        assert(v.cents =~= one_cent(x));
        assert(v.buf =~= Seq::<u64>::empty());
        assert(valid_td_image(e, false));
    } else {
        let nc = v.cents.len() as int; let nb = v.buf.len() as int;
        lemma_multi_fields(v);
        assert forall|i: int| 0 <= i < nc implies #[trigger] dec_cent(e, i, false) == v.cents[i] by { lemma_multi_cent(v, i); }
        assert(dec_cents(e, nc, false) =~= v.cents);
        assert forall|j: int| 0 <= j < nb implies #[trigger] dec_buf(e, nb, false)[j] == v.buf[j] by { lemma_multi_buf(v, j); }
        assert(dec_buf(e, nb, false) =~= v.buf);
        assert forall|j: int| 0 <= j < nb implies bits_finite(#[trigger] dec_val(e, buf_off(e, j, false), false)) by { lemma_multi_buf(v, j); }
        assert(dec_td(e, false) == v);
        lemma_off_double(e, 0, nb);
        assert(valid_td_image(e, false));
    }
}

proof fn lemma_skip_take(b: Seq<u8>, off: int, n: int)
  requires 0 <= off, 0 <= n, off + n <= b.len()
  ensures b.skip(off).take(n) == b.subrange(off, off + n), b.skip(off).skip(n) == b.skip(off + n), b.skip(off).len() == b.len() - off
{
    assert(b.skip(off).take(n) =~= b.subrange(off, off + n));
    assert(b.skip(off).skip(n) =~= b.skip(off + n));
}

spec fn cview(c: Centroid) -> (u64, u64) { (f64_bits(c.mean), c.weight.get()) }
spec fn cents_view(cs: Seq<Centroid>) -> Seq<(u64, u64)> { Seq::new(cs.len(), |i: int| cview(cs[i])) }
spec fn buf_view(s: Seq<f64>) -> Seq<u64> { Seq::new(s.len(), |i: int| f64_bits(s[i])) }
proof fn lemma_img_wsum(cs: Seq<Centroid>)
  ensures img_wsum(cents_view(cs)) == wsum(cs)
  decreases cs.len()
{
    if cs.len() > 0 {
        assert(cents_view(cs).drop_last() =~= cents_view(cs.drop_last()));
        lemma_img_wsum(cs.drop_last());
    }
}


spec fn is_ref_image(b: Seq<u8>) -> bool { b.len() >= 3 && b[0] == 0 && b[1] == 0 && b[2] == 0 }
proof fn lemma_ref_type_bytes(b: Seq<u8>)
  ensures b.len() >= 4 && (ref_type(b) == 1 || ref_type(b) == 2) ==> is_ref_image(b)
{
    if b.len() >= 4 {
        let b0 = b[0]; let b1 = b[1]; let b2 = b[2]; let b3 = b[3];
        let x = (b3 as u32) | ((b2 as u32) << 8) | ((b1 as u32) << 16) | ((b0 as u32) << 24);
        assert(x <= 255 ==> b0 == 0 && b1 == 0 && b2 == 0) by (bit_vector)
          requires x == (b3 as u32) | ((b2 as u32) << 8) | ((b1 as u32) << 16) | ((b0 as u32) << 24);
        assert(b.subrange(0, 4)[0] == b0 && b.subrange(0, 4)[1] == b1 && b.subrange(0, 4)[2] == b2 && b.subrange(0, 4)[3] == b3);
    }
}
// one centroid record of the image: where the two reads of iteration i land
proof fn lemma_cent_off_step(b: Seq<u8>, i: int, is_f32: bool)
  requires 0 <= i
  ensures
    cent_off(i + 1, is_f32) == cent_off(i, is_f32) + 2 * vs(is_f32), cent_off(i, is_f32) >= 0,
    i < hdr_nc(b) ==> cent_off(i + 1, is_f32) <= cent_off(hdr_nc(b), is_f32) <= buf_off(b, hdr_nb(b), is_f32),
{
    reveal(cent_off); reveal(buf_off);
    let o = cent_off(i, is_f32); let n = vs(is_f32);
    assert(cent_off(i + 1, is_f32) == o + 2 * n) by (nonlinear_arith) requires cent_off(i + 1, is_f32) == 16 + 2 * n + (i + 1) * (2 * n), o == 16 + 2 * n + i * (2 * n);
    assert(o >= 0) by (nonlinear_arith) requires o == 16 + 2 * n + i * (2 * n), i >= 0, n >= 4;
    if i < hdr_nc(b) {
        assert(cent_off(i + 1, is_f32) <= cent_off(hdr_nc(b), is_f32)) by (nonlinear_arith)
          requires cent_off(i + 1, is_f32) == 16 + 2 * n + (i + 1) * (2 * n), cent_off(hdr_nc(b), is_f32) == 16 + 2 * n + hdr_nc(b) * (2 * n), i + 1 <= hdr_nc(b), n >= 4;
        assert(hdr_nb(b) * n >= 0) by (nonlinear_arith) requires hdr_nb(b) >= 0, n >= 4;
    }
}

proof fn lemma_off_zero(b: Seq<u8>, is_f32: bool)
  ensures cent_off(0, is_f32) == 16 + 2 * vs(is_f32), buf_off(b, 0, is_f32) == cent_off(hdr_nc(b), is_f32), cent_off(hdr_nc(b), is_f32) >= 0,
    cent_off(hdr_nc(b), is_f32) <= buf_off(b, hdr_nb(b), is_f32), 16 + 2 * vs(is_f32) <= cent_off(hdr_nc(b), is_f32),
{
    reveal(cent_off); reveal(buf_off);
    let n = vs(is_f32);
    assert(hdr_nc(b) * (2 * n) >= 0) by (nonlinear_arith) requires hdr_nc(b) >= 0, n >= 4;
    assert(hdr_nb(b) * n >= 0) by (nonlinear_arith) requires hdr_nb(b) >= 0, n >= 4;
}
proof fn lemma_cents_view_push(cs0: Seq<Centroid>, c: Centroid, b: Seq<u8>, i: int, is_f32: bool)
  requires cents_view(cs0) == dec_cents(b, i, is_f32), cs0.len() == i, cview(c) == dec_cent(b, i, is_f32)
  ensures cents_view(cs0.push(c)) == dec_cents(b, i + 1, is_f32)
{
    assert forall|j: int| 0 <= j < i + 1 implies cents_view(cs0.push(c))[j] == dec_cents(b, i + 1, is_f32)[j] by {
        if j < i { assert(cents_view(cs0)[j] == dec_cents(b, i, is_f32)[j]); }
    }
    assert(cents_view(cs0.push(c)) =~= dec_cents(b, i + 1, is_f32));
}
proof fn lemma_buf_view_push(s0: Seq<f64>, x: f64, b: Seq<u8>, j: int, is_f32: bool)
  requires buf_view(s0) == dec_buf(b, j, is_f32), s0.len() == j, 0 <= j, f64_bits(x) == dec_val(b, buf_off(b, j, is_f32), is_f32)
  ensures buf_view(s0.push(x)) == dec_buf(b, j + 1, is_f32)
{
    assert forall|i: int| 0 <= i < j + 1 implies buf_view(s0.push(x))[i] == dec_buf(b, j + 1, is_f32)[i] by {
        if i < j {
            assert(buf_view(s0)[i] == dec_buf(b, j, is_f32)[i]);
            assert(s0.push(x)[i] == s0[i]);
            assert(dec_buf(b, j, is_f32)[i] == dec_val(b, buf_off(b, i, is_f32), is_f32));
        } else { assert(s0.push(x)[j] == x); }
        assert(dec_buf(b, j + 1, is_f32)[i] == dec_val(b, buf_off(b, i, is_f32), is_f32));
        assert(buf_view(s0.push(x))[i] == f64_bits(s0.push(x)[i]));
    }
    assert(buf_view(s0.push(x)) =~= dec_buf(b, j + 1, is_f32));
}

proof fn lemma_refv_push(cs0: Seq<Centroid>, c: Centroid, b: Seq<u8>, i: int)
  requires cents_view(cs0) == refv_cents(b, i), cs0.len() == i, cview(c) == refv_cent(b, i)
  ensures cents_view(cs0.push(c)) == refv_cents(b, i + 1)
{
    assert forall|j: int| 0 <= j < i + 1 implies cents_view(cs0.push(c))[j] == refv_cents(b, i + 1)[j] by {
        if j < i { assert(cents_view(cs0)[j] == refv_cents(b, i)[j]); }
    }
    assert(cents_view(cs0.push(c)) =~= refv_cents(b, i + 1));
}
proof fn lemma_refs_push(cs0: Seq<Centroid>, c: Centroid, b: Seq<u8>, i: int)
  requires cents_view(cs0) == refs_cents(b, i), cs0.len() == i, cview(c) == refs_cent(b, i)
  ensures cents_view(cs0.push(c)) == refs_cents(b, i + 1)
{
    assert forall|j: int| 0 <= j < i + 1 implies cents_view(cs0.push(c))[j] == refs_cents(b, i + 1)[j] by {
        if j < i { assert(cents_view(cs0)[j] == refs_cents(b, i)[j]); }
    }
    assert(cents_view(cs0.push(c)) =~= refs_cents(b, i + 1));
}
proof fn lemma_buf_off_step(b: Seq<u8>, j: int, is_f32: bool)
  requires 0 <= j
  ensures
    buf_off(b, j + 1, is_f32) == buf_off(b, j, is_f32) + vs(is_f32),
    j < hdr_nb(b) ==> buf_off(b, j + 1, is_f32) <= buf_off(b, hdr_nb(b), is_f32),
{
    reveal(buf_off);
    let o = buf_off(b, j, is_f32); let n = vs(is_f32); let c = cent_off(hdr_nc(b), is_f32);
    assert(buf_off(b, j + 1, is_f32) == o + n) by (nonlinear_arith) requires buf_off(b, j + 1, is_f32) == c + (j + 1) * n, o == c + j * n;
    if j < hdr_nb(b) {
        assert(buf_off(b, j + 1, is_f32) <= buf_off(b, hdr_nb(b), is_f32)) by (nonlinear_arith)
          requires buf_off(b, j + 1, is_f32) == c + (j + 1) * n, buf_off(b, hdr_nb(b), is_f32) == c + hdr_nb(b) * n, j + 1 <= hdr_nb(b), n >= 4;
    }
}

proof fn lemma_single_centroid(cs: Seq<Centroid>)
  requires cs.len() == 1, cs[0].weight.get() == 1
  ensures wsum(cs) == 1, cents_view(cs) == one_cent(f64_bits(cs[0].mean))
{
    lemma_wsum_push(Seq::<Centroid>::empty(), cs[0]);
    assert(cs =~= Seq::<Centroid>::empty().push(cs[0]));
    assert(cents_view(cs)[0] == cview(cs[0]));
    assert(cview(cs[0]) == (f64_bits(cs[0].mean), 1u64));
    assert(cents_view(cs) =~= one_cent(f64_bits(cs[0].mean)));
}

// views of the empty and the one-element vectors the parsers build
proof fn lemma_short_views()
  ensures
    forall|cs: Seq<Centroid>| cs.len() == 0 ==> #[trigger] cents_view(cs) == Seq::<(u64, u64)>::empty(),
    forall|s: Seq<f64>| s.len() == 0 ==> #[trigger] buf_view(s) == Seq::<u64>::empty(),
    forall|cs: Seq<Centroid>| cs.len() == 0 ==> #[trigger] wsum(cs) == 0,
    forall|cs: Seq<Centroid>| cs.len() == 1 && cs[0].weight.get() == 1 ==> #[trigger] wsum(cs) == 1,
    forall|cs: Seq<Centroid>| cs.len() == 1 && cs[0].weight.get() == 1 ==> #[trigger] cents_view(cs) == one_cent(f64_bits(cs[0].mean)),
{
    assert forall|cs: Seq<Centroid>| cs.len() == 0 implies #[trigger] cents_view(cs) == Seq::<(u64, u64)>::empty() by { assert(cents_view(cs) =~= Seq::empty()); }
    assert forall|s: Seq<f64>| s.len() == 0 implies #[trigger] buf_view(s) == Seq::<u64>::empty() by { assert(buf_view(s) =~= Seq::empty()); }
    assert forall|cs: Seq<Centroid>| cs.len() == 1 && cs[0].weight.get() == 1 implies #[trigger] wsum(cs) == 1 by { lemma_single_centroid(cs); }
    assert forall|cs: Seq<Centroid>| cs.len() == 1 && cs[0].weight.get() == 1 implies #[trigger] cents_view(cs) == one_cent(f64_bits(cs[0].mean)) by { lemma_single_centroid(cs); }
}

fn check_non_nan(value: f64, tag: &'static str) -> (r: Result<(), Error>)
  ensures r is Ok <==> !f_is_nan(value)
{
    if value.is_nan() {
        return Err(Error::deserial(format!(
            "malformed data: {tag} cannot be NaN"
        )));
    }

    Ok(())
}

fn check_finite(value: f64, tag: &'static str) -> (r: Result<(), Error>)
  ensures r is Ok <==> !f_is_inf(value)
{
    if value.is_infinite() {
        return Err(Error::deserial(format!(
            "malformed data: {tag} cannot be infinite"
        )));
    }

    Ok(())
}

fn check_nonzero(value: u64, tag: &'static str) -> (r: Result<NonZeroU64, Error>)
  ensures value != 0 ==> (r matches Ok(w) && w.get() == value), value == 0 ==> r is Err
{
    NonZeroU64::new(value)
        .ok_or_else(|| Error::deserial(format!("malformed data: {tag} cannot be zero")))
}

#[verifier::external_body] fn vx_documented_panic(c: bool) ensures c { assert!(c); }
impl TDigestMut {
    // ---- invariant: integer part (unit td_int) ----
    spec fn cfg_ok(&self) -> bool { self.k >= 10 && self.centroids_capacity == cap_of_k(self.k) }
    spec fn total(&self) -> int { self.centroids_weight + self.buffer@.len() }
    spec fn wf_weight_sum(&self) -> bool { wsum(self.centroids@) == self.centroids_weight }
    spec fn wf_buffer_bound(&self) -> bool { self.buffer@.len() <= self.centroids_capacity * 4 }
    spec fn wf_total_fits(&self) -> bool { self.total() <= u64::MAX }
    spec fn wf(&self) -> bool {
        &&& self.cfg_ok()
        &&& self.wf_buffer_bound()
        &&& self.wf_weight_sum()
        &&& self.wf_total_fits()
    }
    spec fn empty(&self) -> bool { self.centroids@.len() == 0 && self.buffer@.len() == 0 }
    spec fn same_cfg(&self, o: &TDigestMut) -> bool { self.k == o.k && self.centroids_capacity == o.centroids_capacity }
    // ---- invariant: float part (uninterpreted order / bit patterns) ----
    // an empty sketch is the one `new` builds
    #[verifier::opaque] spec fn wf_empty(&self) -> bool { self.empty() ==> !self.reverse_merge && f64_bits(self.min) == INF_BITS && f64_bits(self.max) == NEG_INF_BITS }
    // a sketch of one value: min == max == that value
    #[verifier::opaque] spec fn wf_single(&self) -> bool {
        self.total() == 1 ==> {
            if self.buffer@.len() == 1 { f64_bits(self.min) == f64_bits(self.buffer@[0]) && f64_bits(self.max) == f64_bits(self.buffer@[0]) }
            else { self.centroids@.len() == 1 && f64_bits(self.min) == f64_bits(self.centroids@[0].mean) && f64_bits(self.max) == f64_bits(self.centroids@[0].mean) }
        }
    }
    #[verifier::opaque] spec fn sorted_means(&self) -> bool {
        forall|i: int, j: int| 0 <= i < j < self.centroids@.len() ==> !f_lt(#[trigger] self.centroids@[j].mean, #[trigger] self.centroids@[i].mean)
    }
    #[verifier::opaque] spec fn means_in_range(&self) -> bool {
        forall|i: int| 0 <= i < self.centroids@.len() ==> !f_lt((#[trigger] self.centroids@[i]).mean, self.min) && !f_lt(self.max, self.centroids@[i].mean)
    }
    // what the parsers check value by value
    spec fn values_checked(&self) -> bool {
        &&& !f_is_nan(self.min) && !f_is_nan(self.max) || self.empty()
        &&& forall|i: int| 0 <= i < self.centroids@.len() ==> f_finite(#[trigger] self.centroids@[i].mean)
        &&& forall|i: int| 0 <= i < self.buffer@.len() ==> f_finite(#[trigger] self.buffer@[i])
    }
    // ---- abstract view ----
    spec fn view(&self) -> TdImg {
        TdImg { k: self.k, rm: self.reverse_merge, min: f64_bits(self.min), max: f64_bits(self.max), cents: cents_view(self.centroids@), buf: buf_view(self.buffer@) }
    }

    // R12b: a DOCUMENTED panic ("# Panics: if k is less than 10", asserted in `make`) is modelled as 'returns only if the condition holds':
    // a tagged POSTCONDITION (`*_validated`) instead of a precondition, so weakening or removing the check is noticed.  The internal
    // callers of `make` (the parsers) keep their obligation as a ghost assert (C14.td.make_k_established) before the call.
    fn new(k: u16) -> (r: Self)
      ensures /*@C10.new.k_validated*/ k >= 10, r.view() == empty_img(k), r.wf(), r.wf_empty(), r.wf_single(), r.sorted_means(), r.means_in_range(), r.values_checked()
    {
        proof { lemma_short_views(); reveal(TDigestMut::wf_empty); reveal(TDigestMut::wf_single); reveal(TDigestMut::sorted_means); reveal(TDigestMut::means_in_range); }
        Self::make(
            k,
            false,
            vx_f64_infinity(),
            vx_f64_neg_infinity(),
            vec![],
            0,
            vec![],
        )
    }

    fn make(
        k: u16,
        reverse_merge: bool,
        min: f64,
        max: f64,
        mut centroids: Vec<Centroid>,
        centroids_weight: u64,
        mut buffer: Vec<f64>,
    ) -> (r: Self)
      ensures /*@C10.make.k_validated*/ k >= 10, r.cfg_ok(), r.k == k, r.centroids@ == centroids@, r.buffer@ == buffer@, r.centroids_weight == centroids_weight, r.reverse_merge == reverse_merge, r.min == min, r.max == max,
    {
        vx_documented_panic(k >= 10);
        assert(/*@C10.make.k_validated*/ k >= 10);

        let fudge = if k < 30 { 30 } else { 10 };
        let centroids_capacity = (k as usize * 2) + fudge;

        centroids.reserve(centroids_capacity);
        buffer.reserve(centroids_capacity * BUFFER_MULTIPLIER);

        TDigestMut {
            k,
            reverse_merge,
            min,
            max,
            centroids,
            centroids_weight,
            centroids_capacity,
            buffer,
        }
    }

    fn is_empty(&self) -> (r: bool) ensures r == (self.centroids@.len() == 0 && self.buffer@.len() == 0) {
        self.centroids.is_empty() && self.buffer.is_empty()
    }

    fn total_weight(&self) -> (r: u64) requires self.total() <= u64::MAX ensures r == self.centroids_weight + self.buffer@.len() {
        self.centroids_weight + self.buffer.len() as u64
    }

    fn is_single_value(&self) -> (r: bool) requires self.total() <= u64::MAX ensures r == (self.total() == 1) {
        self.total_weight() == 1
    }

    // float code (sort_by, scale function): by contract.  Integer clauses are the ones PROVED in unit td_int; the three float
    // clauses (a compression keeps a one-value sketch one-valued with min == max == the value; empty stays as built) are assumed.
    #[verifier::external_body]
    fn compress(&mut self)
      requires old(self).wf()
      ensures final(self).wf(), final(self).same_cfg(old(self)), final(self).total() == old(self).total(), final(self).buffer@.len() == 0,
        old(self).buffer@.len() == 0 ==> *final(self) == *old(self), !old(self).empty() ==> final(self).centroids@.len() >= 1,
        final(self).centroids@.len() <= old(self).buffer@.len() + old(self).centroids@.len(),
        old(self).wf_single() ==> final(self).wf_single(),
        old(self).wf_empty() ==> final(self).wf_empty(),
        old(self).values_checked() ==> final(self).values_checked(),
    { unimplemented!() }

    fn serialize(&mut self) -> (r: Vec<u8>)
      requires old(self).wf(), old(self).wf_single(), old(self).wf_empty(),
        // the centroid count is written as a u32 (the size theorem "at most 2k+30 centroids" is C15, not applicable)
        old(self).centroids@.len() + old(self).buffer@.len() <= u32::MAX,
      ensures
        /*@C12.td.image*/ r@ == enc_td(final(self).view()),
        final(self).wf(), final(self).wf_single(), final(self).wf_empty(), final(self).same_cfg(old(self)),
        /*@C12.td.compressed*/ final(self).buffer@.len() == 0 && final(self).total() == old(self).total(),
        /*@C12.td.untouched_if_no_buffer*/ old(self).buffer@.len() == 0 ==> *final(self) == *old(self),
    {
        self.compress();
        proof { axiom_centroid_vec_len(&self.centroids); lemma_img_wsum(self.centroids@); lemma_wsum_ge_len(self.centroids@); reveal(TDigestMut::wf_empty); reveal(TDigestMut::wf_single); }
        let ghost v = self.view();
        proof { assert(v.buf =~= Seq::<u64>::empty()); }

        let mut total_size = 0;
        if self.is_empty() || self.is_single_value() {
            // 1 byte preamble
            // + 1 byte serial version
            // + 1 byte family
            // + 2 bytes k
            // + 1 byte flags
            // + 2 bytes unused
            total_size += size_of::<u64>();
        } else {
            // all of the above
            // + 4 bytes num centroids
            // + 4 bytes num buffered
            total_size += size_of::<u64>() * 2;
        }
        if self.is_empty() {
            // nothing more
        } else if self.is_single_value() {
            // + 8 bytes single value
            total_size += size_of::<f64>();
        } else {
            // + 8 bytes min
            // + 8 bytes max
            total_size += size_of::<f64>() * 2;
            // + (8+8) bytes per centroid
            total_size += self.centroids.len() * (size_of::<f64>() + size_of::<u64>());
        }

        let mut bytes = SketchBytes::with_capacity(total_size);
        bytes.write_u8(match self.total_weight() {
            0 => PREAMBLE_LONGS_EMPTY_OR_SINGLE,
            1 => PREAMBLE_LONGS_EMPTY_OR_SINGLE,
            _ => PREAMBLE_LONGS_MULTIPLE,
        });
        bytes.write_u8(SERIAL_VERSION);
        bytes.write_u8(Family::TDIGEST.id);
        bytes.write_u16_le(self.k);
        proof {
            assert(forall|x: u8| #[trigger] (x | 0u8) == x) by (bit_vector);
            assert(0u8 | 1u8 == 1u8 && 0u8 | 2u8 == 2u8 && 0u8 | 4u8 == 4u8 && 1u8 | 4u8 == 5u8 && 2u8 | 4u8 == 6u8 && 1u8 | 2u8 == 3u8 && 3u8 | 4u8 == 7u8) by (bit_vector);
        }
        bytes.write_u8({
            let mut flags = 0;
            if self.is_empty() {
                flags |= FLAGS_IS_EMPTY;
            }
            if self.is_single_value() {
                flags |= FLAGS_IS_SINGLE_VALUE;
            }
            if self.reverse_merge {
                flags |= FLAGS_REVERSE_MERGE;
            }
            flags
        });
        bytes.write_u16_le(0); // unused
        proof {
            lemma_le16_roundtrip(0);
            assert(le16_bytes(0) =~= seq![0u8, 0u8]) by { assert(0u16 & 0xff == 0 && (0u16 >> 8) & 0xff == 0) by (bit_vector); }
        }
        if self.is_empty() {
            proof {
                assert(v.cents =~= Seq::empty());
                assert(bytes@ =~= enc_td(v));
            }
            return bytes.into_bytes();
        }
        if self.is_single_value() {
            bytes.write_f64_le(self.min);
            proof {
                assert(bytes@ =~= enc_td(v));
            }
            return bytes.into_bytes();
        }
        bytes.write_u32_le(self.centroids.len() as u32);
        bytes.write_u32_le(0); // unused
        bytes.write_f64_le(self.min);
        bytes.write_f64_le(self.max);
        let ghost head = bytes@;
        proof { assert(enc_cents(v.cents.take(0)) =~= Seq::<u8>::empty()); }
        let mut vx_i1 = 0;
        while vx_i1 < self.centroids.len()
          invariant vx_i1 <= self.centroids@.len(), v == self.view(),
            /*@C12.td.image*/ bytes@ == head + enc_cents(v.cents.take(vx_i1 as int)),
          decreases self.centroids@.len() - vx_i1
        {
            let centroid = self.centroids[vx_i1];
            bytes.write_f64_le(centroid.mean);
            bytes.write_u64_le(centroid.weight.get());
            proof {
                let a = v.cents.take(vx_i1 + 1);
                assert(a.drop_last() =~= v.cents.take(vx_i1 as int));
                assert(a.last() == cview(self.centroids@[vx_i1 as int]));
            }
            vx_i1 += 1;
        }
        proof { assert(v.cents.take(self.centroids@.len() as int) =~= v.cents); assert(enc_u64s(v.buf) =~= Seq::<u8>::empty()); }
        proof {
            assert(bytes@ =~= enc_td(v));
        }
        bytes.into_bytes()
    }
    #[verifier::spinoff_prover]
    fn deserialize(bytes: &[u8], is_f32: bool) -> (r: Result<Self, Error>)
      // requires true: the bytes are arbitrary
      ensures
        /*@C13.td.double.accepts*/ !is_f32 && valid_td_image(bytes@, false) ==> r is Ok,
        /*@C13.td.float.accepts*/ is_f32 && valid_td_image(bytes@, true) ==> r is Ok,
        /*@C13.td.double.view*/ !is_f32 && bytes@.len() >= 3 && bytes@[2] == 20 ==> (r matches Ok(a) ==> a.view() == dec_td(bytes@, false)),
        /*@C13.td.float.view*/ is_f32 && bytes@.len() >= 3 && bytes@[2] == 20 ==> (r matches Ok(a) ==> a.view() == dec_td(bytes@, true)),
        /*@C13.td.ref_verbose.accepts*/ valid_ref_verbose(bytes@) ==> r is Ok,
        /*@C13.td.ref_small.accepts*/ valid_ref_small(bytes@) ==> r is Ok,
        /*@C13.td.ref_verbose.view*/ is_ref_image(bytes@) && ref_type(bytes@) == 1 ==> (r matches Ok(a) ==> a.view() == dec_td_ref_verbose(bytes@)),
        /*@C13.td.ref_small.view*/ is_ref_image(bytes@) && ref_type(bytes@) == 2 ==> (r matches Ok(a) ==> a.view() == dec_td_ref_small(bytes@)),
        /*@C14.td.rejects_bad_header*/ r is Ok ==> is_ref_image(bytes@) || (bytes@.len() >= 8 && bytes@[1] == 1 && bytes@[2] == 20 && hdr_k(bytes@) >= 10
                 && bytes@[0] == (if hdr_empty(bytes@) || hdr_single(bytes@) { 1u8 } else { 2u8 })),
        /*@C14.td.rejects_truncated*/ r is Ok && !is_ref_image(bytes@) ==> bytes@.len() >= td_needed(bytes@, is_f32),
        /*@C14.td.values_checked*/ r matches Ok(a) ==> a.values_checked(),
        /*@C14.td.wf_cfg*/ r matches Ok(a) ==> a.cfg_ok(),
        /*@C14.td.wf_weight_sum*/ r matches Ok(a) ==> a.wf_weight_sum(),
    {
        let ghost b = bytes@;
        proof { lemma_ref_type_bytes(b); }
        let mut cursor = SketchSlice::new(bytes);

        let preamble_longs = cursor
            .read_u8()
            .vx_io("preamble_longs")?;
        let serial_version = cursor
            .read_u8()
            .vx_io("serial_version")?;
        let family_id = cursor.read_u8().vx_io("family_id")?;
        if let Err(err) = Family::TDIGEST.validate_id(family_id) {
            return if preamble_longs == 0 && serial_version == 0 && family_id == 0 {
                Self::deserialize_compat(bytes)
            } else {
                Err(err)
            };
        }
        ensure_serial_version_is(SERIAL_VERSION, serial_version)?;
        let k = cursor.read_u16_le().vx_io("k")?;
        if k < 10 {
            return Err(Error::deserial(format!("k must be at least 10, got {k}")));
        }
        let flags = cursor.read_u8().vx_io("flags")?;
        let is_empty = (flags & FLAGS_IS_EMPTY) != 0;
        let is_single_value = (flags & FLAGS_IS_SINGLE_VALUE) != 0;
        let expected_preamble_longs = if is_empty || is_single_value {
            PREAMBLE_LONGS_EMPTY_OR_SINGLE
        } else {
            PREAMBLE_LONGS_MULTIPLE
        };
        proof { assert([expected_preamble_longs]@ =~= seq![expected_preamble_longs]); assert(seq![expected_preamble_longs][0] == expected_preamble_longs); }
        ensure_preamble_longs_in(&[expected_preamble_longs], preamble_longs)?;
        cursor
            .read_u16_le()
            .vx_io("<unused>")?; // unused
        if is_empty {
            return Ok(TDigestMut::new(k));
        }

        let reverse_merge = (flags & FLAGS_REVERSE_MERGE) != 0;
        if is_single_value {
            let value = if is_f32 {
                vx_f32_as_f64(cursor
                    .read_f32_le()
                    .vx_io("single_value")?)
            } else {
                cursor
                    .read_f64_le()
                    .vx_io("single_value")?
            };
            proof { axiom_f64_bits_roundtrip(le64_val(b.subrange(8, 16))); axiom_f64_of_bits_roundtrip(value); }
            check_non_nan(value, "single_value")?;
            check_finite(value, "single_value")?;
            proof {
                lemma_short_views();
                axiom_lt_irreflexive(value);
                reveal(TDigestMut::wf_empty); reveal(TDigestMut::wf_single); reveal(TDigestMut::sorted_means); reveal(TDigestMut::means_in_range);
            }
            assert(/*@C14.td.make_k_established*/ k >= 10);
            return Ok(TDigestMut::make(
                k,
                reverse_merge,
                value,
                value,
                vec![Centroid {
                    mean: value,
                    weight: DEFAULT_WEIGHT,
                }],
                1,
                vec![],
            ));
        }
        proof { lemma_off_zero(b, is_f32); }
        let num_centroids = cursor
            .read_u32_le()
            .vx_io("num_centroids")? as usize;
        let num_buffered = cursor
            .read_u32_le()
            .vx_io("num_buffered")? as usize;
        let (min, max) = if is_f32 {
            (
                vx_f32_as_f64(cursor.read_f32_le().vx_io("min")?),
                vx_f32_as_f64(cursor.read_f32_le().vx_io("max")?),
            )
        } else {
            (
                cursor.read_f64_le().vx_io("min")?,
                cursor.read_f64_le().vx_io("max")?,
            )
        };
        proof {
            axiom_f64_bits_roundtrip(le64_val(b.subrange(16, 24))); axiom_f64_bits_roundtrip(le64_val(b.subrange(24, 32)));
            axiom_f64_of_bits_roundtrip(min); axiom_f64_of_bits_roundtrip(max);
        }
        check_non_nan(min, "min")?;
        check_non_nan(max, "max")?;
        proof { lemma_off_zero(b, is_f32); }
        let mut centroids = vx_alloc_centroids(num_centroids, bytes.len());
        let mut centroids_weight = 0u64;
        for vx_u1 in 0..num_centroids
          invariant
            b == bytes@, num_centroids == hdr_nc(b), !hdr_empty(b), !hdr_single(b), !valid_ref_verbose(b), !valid_ref_small(b),
            cursor.data() == b, cursor.inv(), cursor.pos() == cent_off(vx_u1 as int, is_f32),
            centroids@.len() == vx_u1,
            /*@C13.td.centroids*/ cents_view(centroids@) == dec_cents(b, vx_u1 as int, is_f32),
            /*@C14.td.wf_weight_sum*/ centroids_weight == wsum(centroids@),
            forall|i: int| 0 <= i < centroids@.len() ==> f_finite(#[trigger] centroids@[i].mean),
        {
            let ghost off = cent_off(vx_u1 as int, is_f32);
            let ghost cs0 = centroids@;
            proof { lemma_cent_off_step(b, vx_u1 as int, is_f32); }
            let (mean, weight) = if is_f32 {
                (
                    vx_f32_as_f64(cursor.read_f32_le().vx_io("mean")?),
                    cursor.read_u32_le().vx_io("weight")? as u64,
                )
            } else {
                (
                    cursor.read_f64_le().vx_io("mean")?,
                    cursor.read_u64_le().vx_io("weight")?,
                )
            };
            proof {
                axiom_f64_bits_roundtrip(le64_val(b.subrange(off, off + 8))); axiom_f64_of_bits_roundtrip(mean);
                assert(f64_bits(mean) == dec_cent(b, vx_u1 as int, is_f32).0);
                assert(weight == dec_cent(b, vx_u1 as int, is_f32).1);
            }
            check_non_nan(mean, "centroid mean")?;
            check_finite(mean, "centroid")?;
            let weight = check_nonzero(weight, "centroid weight")?;
            vx_add_weight(&mut centroids_weight, weight.get());
            centroids.push(Centroid { mean, weight });
            proof {
                lemma_wsum_push(cs0, centroids@.last());
                lemma_cents_view_push(cs0, centroids@.last(), b, vx_u1 as int, is_f32);
            }
        }
        proof { lemma_off_zero(b, is_f32); assert(dec_buf(b, 0, is_f32) =~= Seq::<u64>::empty()); assert(buf_view(Seq::<f64>::empty()) =~= Seq::<u64>::empty()); }
        let mut buffer = vx_alloc_f64s(num_buffered, bytes.len());
        for vx_u2 in 0..num_buffered
          invariant
            b == bytes@, num_centroids == hdr_nc(b), num_buffered == hdr_nb(b), !hdr_empty(b), !hdr_single(b), !valid_ref_verbose(b), !valid_ref_small(b),
            cursor.data() == b, cursor.inv(), cursor.pos() == buf_off(b, vx_u2 as int, is_f32),
            buffer@.len() == vx_u2,
            /*@C13.td.buffered*/ buf_view(buffer@) == dec_buf(b, vx_u2 as int, is_f32),
            forall|i: int| 0 <= i < buffer@.len() ==> f_finite(#[trigger] buffer@[i]),
        {
            let ghost off = buf_off(b, vx_u2 as int, is_f32);
            let ghost bf0 = buffer@;
            proof { lemma_buf_off_step(b, vx_u2 as int, is_f32); }
            let value = if is_f32 {
                vx_f32_as_f64(cursor
                    .read_f32_le()
                    .vx_io("buffered_value")?)
            } else {
                cursor
                    .read_f64_le()
                    .vx_io("buffered_value")?
            };
            proof {
                axiom_f64_bits_roundtrip(le64_val(b.subrange(off, off + 8))); axiom_f64_of_bits_roundtrip(value);
                assert(f64_bits(value) == dec_val(b, off, is_f32));
            }
            check_non_nan(value, "buffered_value mean")?;
            check_finite(value, "buffered_value mean")?;
            buffer.push(value);
            proof {
                lemma_buf_view_push(bf0, value, b, vx_u2 as int, is_f32);
            }
        }
        proof {
            lemma_img_wsum(centroids@);
        }
        assert(/*@C14.td.make_k_established*/ k >= 10);
        Ok(TDigestMut::make(
            k,
            reverse_merge,
            min,
            max,
            centroids,
            centroids_weight,
            buffer,
        ))
    }

    #[verifier::spinoff_prover]
    fn deserialize_compat(bytes: &[u8]) -> (r: Result<Self, Error>)
      // requires true
      ensures
        /*@C13.td.ref_verbose.accepts*/ valid_ref_verbose(bytes@) ==> r is Ok,
        /*@C13.td.ref_small.accepts*/ valid_ref_small(bytes@) ==> r is Ok,
        /*@C13.td.ref_verbose.view*/ bytes@.len() >= 4 && ref_type(bytes@) == 1 ==> (r matches Ok(a) ==> a.view() == dec_td_ref_verbose(bytes@)),
        /*@C13.td.ref_small.view*/ bytes@.len() >= 4 && ref_type(bytes@) == 2 ==> (r matches Ok(a) ==> a.view() == dec_td_ref_small(bytes@)),
        /*@C14.td.ref.rejects_unknown_type*/ r is Ok ==> bytes@.len() >= 4 && (ref_type(bytes@) == 1 || ref_type(bytes@) == 2),
        /*@C14.td.ref.rejects_truncated*/ r is Ok ==> (ref_type(bytes@) == 1 ==> bytes@.len() >= 32 + 16 * refv_nc(bytes@)) && (ref_type(bytes@) == 2 ==> bytes@.len() >= 30 + 8 * refs_nc(bytes@)),
        /*@C14.td.values_checked*/ r matches Ok(a) ==> a.values_checked(),
        /*@C14.td.wf_cfg*/ r matches Ok(a) ==> a.cfg_ok(),
        /*@C14.td.wf_weight_sum*/ r matches Ok(a) ==> a.wf_weight_sum(),
        /*@C14.td.wf_total_fits*/ r matches Ok(a) ==> a.wf_total_fits(),
        /*@C14.td.wf_buffer_bound*/ r matches Ok(a) ==> a.wf_buffer_bound(),
    {
        let ghost b = bytes@;
        let mut cursor = SketchSlice::new(bytes);

        let ty = cursor.read_u32_be().vx_io("type")?;
        match ty {
            COMPAT_DOUBLE => {
                // compatibility with asBytes()
                let min = cursor.read_f64_be().vx_io("min")?;
                let max = cursor.read_f64_be().vx_io("max")?;
                proof { axiom_f64_bits_roundtrip(be64_val(b.subrange(4, 12))); axiom_f64_bits_roundtrip(be64_val(b.subrange(12, 20))); axiom_f64_of_bits_roundtrip(min); axiom_f64_of_bits_roundtrip(max); }
                check_non_nan(min, "min in compat double format")?;
                check_non_nan(max, "max in compat double format")?;
                let k = vx_f64_as_u16(cursor.read_f64_be().vx_io("k")?);
                if k < 10 {
                    return Err(Error::deserial(format!(
                        "k must be at least 10 in compat double format, got {k}"
                    )));
                }
                let num_centroids =
                    cursor.read_u32_be().vx_io("num_centroids")? as usize;
                let mut total_weight = 0u64;
                let mut centroids = vx_alloc_centroids_ref(num_centroids, bytes.len());
                for vx_u1 in 0..num_centroids
                  invariant
                    b == bytes@, b.len() >= 32, ref_type(b) == 1, num_centroids == refv_nc(b),
                    cursor.data() == b, cursor.inv(), cursor.pos() == 32 + 16 * vx_u1,
                    centroids@.len() == vx_u1,
                    /*@C13.td.ref_verbose.centroids*/ cents_view(centroids@) == refv_cents(b, vx_u1 as int),
                    /*@C14.td.wf_weight_sum*/ total_weight == wsum(centroids@),
                    forall|i: int| 0 <= i < centroids@.len() ==> f_finite(#[trigger] centroids@[i].mean),
                {
                    let ghost off = 32 + 16 * vx_u1;
                    let ghost cs0 = centroids@;
                    let weight = vx_f64_as_u64(cursor.read_f64_be().vx_io("weight")?);
                    let mean = cursor.read_f64_be().vx_io("mean")?;
                    proof {
                        axiom_f64_bits_roundtrip(be64_val(b.subrange(off + 8, off + 16))); axiom_f64_of_bits_roundtrip(mean);
                        assert(f64_bits(mean) == refv_cent(b, vx_u1 as int).0);
                        assert(weight == refv_cent(b, vx_u1 as int).1);
                    }
                    let weight = check_nonzero(weight, "centroid weight in compat double format")?;
                    check_non_nan(mean, "centroid mean in compat double format")?;
                    check_finite(mean, "centroid mean in compat double format")?;
                    vx_add_weight_refv(&mut total_weight, weight.get());
                    centroids.push(Centroid { mean, weight });
                    proof {
                        lemma_wsum_push(cs0, centroids@.last());
                        lemma_refv_push(cs0, centroids@.last(), b, vx_u1 as int);
                    }
                }
                proof { assert(buf_view(Seq::<f64>::empty()) =~= Seq::<u64>::empty()); }
                assert(/*@C14.td.make_k_established*/ k >= 10);
        Ok(TDigestMut::make(
                    k,
                    false,
                    min,
                    max,
                    centroids,
                    total_weight,
                    vec![],
                ))
            }
            COMPAT_FLOAT => {
                // COMPAT_FLOAT: compatibility with asSmallBytes()
                // reference implementation uses doubles for min and max
                let min = cursor.read_f64_be().vx_io("min")?;
                let max = cursor.read_f64_be().vx_io("max")?;
                proof { axiom_f64_bits_roundtrip(be64_val(b.subrange(4, 12))); axiom_f64_bits_roundtrip(be64_val(b.subrange(12, 20))); axiom_f64_of_bits_roundtrip(min); axiom_f64_of_bits_roundtrip(max); }
                check_non_nan(min, "min in compat float format")?;
                check_non_nan(max, "max in compat float format")?;
                let k = vx_f32_as_u16(cursor.read_f32_be().vx_io("k")?);
                if k < 10 {
                    return Err(Error::deserial(format!(
                        "k must be at least 10 in compat float format, got {k}"
                    )));
                }
                // reference implementation stores capacities of the array of centroids and the
                // buffer as shorts they can be derived from k in the constructor
                cursor.read_u32_be().vx_io("<unused>")?;
                let num_centroids =
                    cursor.read_u16_be().vx_io("num_centroids")? as usize;
                let mut total_weight = 0u64;
                let mut centroids = vx_alloc_centroids_u16(num_centroids);
                for vx_u2 in 0..num_centroids
                  invariant
                    b == bytes@, b.len() >= 30, ref_type(b) == 2, num_centroids == refs_nc(b),
                    cursor.data() == b, cursor.inv(), cursor.pos() == 30 + 8 * vx_u2,
                    centroids@.len() == vx_u2,
                    /*@C13.td.ref_small.centroids*/ cents_view(centroids@) == refs_cents(b, vx_u2 as int),
                    /*@C14.td.wf_weight_sum*/ total_weight == wsum(centroids@),
                    forall|i: int| 0 <= i < centroids@.len() ==> f_finite(#[trigger] centroids@[i].mean),
                {
                    let ghost off = 30 + 8 * vx_u2;
                    let ghost cs0 = centroids@;
                    let weight = vx_f32_as_u64(cursor.read_f32_be().vx_io("weight")?);
                    let mean = vx_f32_as_f64(cursor.read_f32_be().vx_io("mean")?);
                    proof {
                        axiom_f64_of_bits_roundtrip(mean);
                        assert(f64_bits(mean) == refs_cent(b, vx_u2 as int).0);
                        assert(weight == refs_cent(b, vx_u2 as int).1);
                    }
                    let weight = check_nonzero(weight, "centroid weight in compat float format")?;
                    check_non_nan(mean, "centroid mean in compat float format")?;
                    check_finite(mean, "centroid mean in compat float format")?;
                    vx_add_weight_refs(&mut total_weight, weight.get());
                    centroids.push(Centroid { mean, weight });
                    proof {
                        lemma_wsum_push(cs0, centroids@.last());
                        lemma_refs_push(cs0, centroids@.last(), b, vx_u2 as int);
                    }
                }
                proof { assert(buf_view(Seq::<f64>::empty()) =~= Seq::<u64>::empty()); }
                assert(/*@C14.td.make_k_established*/ k >= 10);
        Ok(TDigestMut::make(
                    k,
                    false,
                    min,
                    max,
                    centroids,
                    total_weight,
                    vec![],
                ))
            }
            ty => Err(Error::deserial(format!("unknown TDigest compat type {ty}"))),
        }
    }

}

// =====================================================================================================================
// C11 over both contracts: a verified client that serializes and deserializes.  Not real code; it exists so that Verus composes
// C12 (serialize), lemma L and C13 (deserialize).
// =====================================================================================================================
proof fn lemma_view_img_ok(a: &TDigestMut)
  requires a.wf(), a.wf_single(), a.wf_empty(), a.values_checked(), a.buffer@.len() == 0, a.centroids@.len() <= u32::MAX
  ensures img_ok(a.view()), img_total(a.view()) == a.total()
{
    let v = a.view();
    reveal(TDigestMut::wf_empty); reveal(TDigestMut::wf_single);
    lemma_img_wsum(a.centroids@);
    assert(v.buf =~= Seq::<u64>::empty());
    axiom_f64_of_bits_roundtrip(a.min); axiom_f64_of_bits_roundtrip(a.max);
    if img_empty(v) { assert(v.cents =~= Seq::empty()); }
    if img_total(v) == 1 {
        lemma_wsum_push(Seq::<Centroid>::empty(), a.centroids@[0]);
        assert(a.centroids@ =~= Seq::<Centroid>::empty().push(a.centroids@[0]));
    }
    assert forall|i: int| 0 <= i < v.cents.len() implies bits_finite(#[trigger] v.cents[i].0) && v.cents[i].1 != 0 by {
        axiom_f64_of_bits_roundtrip(a.centroids@[i].mean);
    }
}
#[verifier::spinoff_prover]
fn c11_roundtrip_td(a: &mut TDigestMut) -> (b: TDigestMut)
  requires old(a).wf(), old(a).wf_single(), old(a).wf_empty(), old(a).values_checked(), old(a).centroids@.len() + old(a).buffer@.len() <= u32::MAX,
  ensures
    /*@C11.td.roundtrip*/ b.view() == final(a).view(),
    /*@C11.td.total_weight*/ b.total() == old(a).total(),
    /*@C11.td.wf*/ b.wf() && b.wf_single() && b.wf_empty(),
{
    let ghost a0 = *a;
    // the compression `serialize` starts with, made visible (serialize on a compressed sketch changes nothing)
    a.compress();
    let img = a.serialize();
    proof { lemma_view_img_ok(a); lemma_td_roundtrip(a.view()); }
    let r = TDigestMut::deserialize(img.as_slice(), false);
    match r {
        Ok(b) => {
            proof {
                reveal(TDigestMut::wf_empty); reveal(TDigestMut::wf_single);
                lemma_img_wsum(a.centroids@); lemma_img_wsum(b.centroids@);
                assert(b.view().buf.len() == b.buffer@.len());
                assert(b.view().cents.len() == b.centroids@.len());
                if a.centroids@.len() >= 1 {
                    assert(b.view().cents[0] == cview(b.centroids@[0]));
                    assert(a.view().cents[0] == cview(a.centroids@[0]));
                }
            }
            b
        }
        Err(_) => { proof { assert(false); } c11_unreachable_td() }
    }
}
#[verifier::external_body] fn c11_unreachable_td() -> TDigestMut requires false { unreachable!() }

// =====================================================================================================================
// C14 clauses the parsers do NOT establish on the current /repo, stated on wrappers (not real code) so that the parsers themselves verify
// cleanly: each one is a finding with a replayed input.  When a parser is repaired the clause moves back into its `ensures`.
// =====================================================================================================================
fn c14_td_deserialize_wf(bytes: &[u8], is_f32: bool) -> (r: Result<TDigestMut, Error>)
  ensures
    // centroids_weight + num_buffered is not checked against u64::MAX
    /*@C14.td.wf_total_fits*/ r matches Ok(a) ==> a.wf_total_fits(),
    // num_buffered is not checked against 4 * capacity(k)
    /*@C14.td.wf_buffer_bound*/ r matches Ok(a) ==> a.wf_buffer_bound(),
    // a preLongs = 2 image with no centroid and no buffered value gives an "empty" sketch with min / max / merge direction from the image
    /*@C14.td.wf_empty*/ r matches Ok(a) ==> a.wf_empty(),
    // a preLongs = 2 image of total weight 1 need not have min == max == the value
    /*@C14.td.wf_single*/ r matches Ok(a) ==> a.wf_single(),
    // centroid means are neither checked for order nor against [min, max]
    /*@C14.td.sorted_means*/ r matches Ok(a) ==> a.sorted_means(),
    /*@C14.td.means_in_range*/ r matches Ok(a) ==> a.means_in_range(),
{
    TDigestMut::deserialize(bytes, is_f32)
}
fn c14_td_deserialize_compat_wf(bytes: &[u8]) -> (r: Result<TDigestMut, Error>)
  ensures
    /*@C14.td.wf_empty*/ r matches Ok(a) ==> a.wf_empty(),
    /*@C14.td.wf_single*/ r matches Ok(a) ==> a.wf_single(),
    /*@C14.td.sorted_means*/ r matches Ok(a) ==> a.sorted_means(),
    /*@C14.td.means_in_range*/ r matches Ok(a) ==> a.means_in_range(),
{
    TDigestMut::deserialize_compat(bytes)
}

}
fn main(){}
