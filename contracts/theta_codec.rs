use vstd::prelude::*;
use std::io;
use std::io::Cursor;
use std::io::Read;
verus! {
global size_of usize == 8;

// =====================================================================================================================
// Byte codecs: interpreted on both sides, the round trips are lemmas (no axiom)
// =====================================================================================================================
spec fn le16_bytes(n: u16) -> Seq<u8> { seq![(n & 0xff) as u8, ((n >> 8) & 0xff) as u8] }
spec fn le32_bytes(n: u32) -> Seq<u8> { seq![(n & 0xff) as u8, ((n >> 8) & 0xff) as u8, ((n >> 16) & 0xff) as u8, ((n >> 24) & 0xff) as u8] }
spec fn le64_bytes(n: u64) -> Seq<u8> { le32_bytes((n & 0xffff_ffff) as u32) + le32_bytes((n >> 32) as u32) }
spec fn be16_bytes(n: u16) -> Seq<u8> { seq![((n >> 8) & 0xff) as u8, (n & 0xff) as u8] }
spec fn be32_bytes(n: u32) -> Seq<u8> { seq![((n >> 24) & 0xff) as u8, ((n >> 16) & 0xff) as u8, ((n >> 8) & 0xff) as u8, (n & 0xff) as u8] }
spec fn le16_val(b: Seq<u8>) -> u16 { (b[0] as u16) | ((b[1] as u16) << 8) }
spec fn le32_val(b: Seq<u8>) -> u32 { (b[0] as u32) | ((b[1] as u32) << 8) | ((b[2] as u32) << 16) | ((b[3] as u32) << 24) }
spec fn le64_val(b: Seq<u8>) -> u64 { (le32_val(b.subrange(0, 4)) as u64) | ((le32_val(b.subrange(4, 8)) as u64) << 32) }

proof fn lemma_le16_roundtrip(n: u16) ensures le16_val(le16_bytes(n)) == n, le16_bytes(n).len() == 2 {
    let b0 = (n & 0xff) as u8; let b1 = ((n >> 8) & 0xff) as u8;
    assert((b0 as u16) | ((b1 as u16) << 8) == n) by (bit_vector) requires b0 == (n & 0xff) as u8, b1 == ((n >> 8) & 0xff) as u8;
}
proof fn lemma_le32_roundtrip(n: u32) ensures le32_val(le32_bytes(n)) == n, le32_bytes(n).len() == 4 {
    let b0 = (n & 0xff) as u8; let b1 = ((n >> 8) & 0xff) as u8; let b2 = ((n >> 16) & 0xff) as u8; let b3 = ((n >> 24) & 0xff) as u8;
    assert((b0 as u32) | ((b1 as u32) << 8) | ((b2 as u32) << 16) | ((b3 as u32) << 24) == n) by (bit_vector)
      requires b0 == (n & 0xff) as u8, b1 == ((n >> 8) & 0xff) as u8, b2 == ((n >> 16) & 0xff) as u8, b3 == ((n >> 24) & 0xff) as u8;
}
proof fn lemma_le64_roundtrip(n: u64) ensures le64_val(le64_bytes(n)) == n, le64_bytes(n).len() == 8 {
    let lo = (n & 0xffff_ffff) as u32; let hi = (n >> 32) as u32;
    lemma_le32_roundtrip(lo); lemma_le32_roundtrip(hi);
    assert(le64_bytes(n).subrange(0, 4) =~= le32_bytes(lo));
    assert(le64_bytes(n).subrange(4, 8) =~= le32_bytes(hi));
    assert((lo as u64) | ((hi as u64) << 32) == n) by (bit_vector) requires lo == (n & 0xffff_ffff) as u32, hi == (n >> 32) as u32;
}

// list codecs: n little-endian u64
spec fn enc_u64s(s: Seq<u64>) -> Seq<u8> decreases s.len() { if s.len() == 0 { Seq::empty() } else { enc_u64s(s.drop_last()) + le64_bytes(s.last()) } }
spec fn dec_u64s(b: Seq<u8>, n: nat) -> Seq<u64> { Seq::new(n, |i: int| le64_val(b.subrange(8 * i, 8 * i + 8))) }

proof fn lemma_enc_u64s_len(s: Seq<u64>) ensures enc_u64s(s).len() == 8 * s.len() decreases s.len() {
    if s.len() > 0 { lemma_enc_u64s_len(s.drop_last()); lemma_le64_roundtrip(s.last()); }
}
// decode inverts encode, whatever follows the list
proof fn lemma_dec_enc_u64s(s: Seq<u64>, tail: Seq<u8>) ensures dec_u64s(enc_u64s(s) + tail, s.len()) =~= s decreases s.len() {
    lemma_enc_u64s_len(s);
    if s.len() > 0 {
        let p = s.drop_last(); let lb = le64_bytes(s.last());
        lemma_enc_u64s_len(p); lemma_le64_roundtrip(s.last());
        lemma_dec_enc_u64s(p, lb + tail);
        assert(enc_u64s(s) + tail =~= enc_u64s(p) + (lb + tail));
        let b = enc_u64s(s) + tail;
        assert forall|i: int| 0 <= i < s.len() implies #[trigger] dec_u64s(b, s.len())[i] == s[i] by {
            if i < p.len() {
                assert(dec_u64s(enc_u64s(p) + (lb + tail), p.len())[i] == p[i]);
            } else {
                assert(b.subrange(8 * i, 8 * i + 8) =~= lb);
            }
        }
    }
}

// std leaves (R4 rewrites of uN::from_le_bytes / n.to_le_bytes() / n.to_be_bytes())
#[verifier::external_body] fn vx_u16_from_le_bytes(b: [u8; 2]) -> (r: u16) ensures r == le16_val(b@) { u16::from_le_bytes(b) }
#[verifier::external_body] fn vx_u32_from_le_bytes(b: [u8; 4]) -> (r: u32) ensures r == le32_val(b@) { u32::from_le_bytes(b) }
#[verifier::external_body] fn vx_u64_from_le_bytes(b: [u8; 8]) -> (r: u64) ensures r == le64_val(b@) { u64::from_le_bytes(b) }
#[verifier::external_body] fn vx_u16_to_le_bytes(n: u16) -> (r: [u8; 2]) ensures r@ == le16_bytes(n) { n.to_le_bytes() }
#[verifier::external_body] fn vx_u16_to_be_bytes(n: u16) -> (r: [u8; 2]) ensures r@ == be16_bytes(n) { n.to_be_bytes() }
#[verifier::external_body] fn vx_u32_to_le_bytes(n: u32) -> (r: [u8; 4]) ensures r@ == le32_bytes(n) { n.to_le_bytes() }
#[verifier::external_body] fn vx_u32_to_be_bytes(n: u32) -> (r: [u8; 4]) ensures r@ == be32_bytes(n) { n.to_be_bytes() }
#[verifier::external_body] fn vx_u64_to_le_bytes(n: u64) -> (r: [u8; 8]) ensures r@ == le64_bytes(n) { n.to_le_bytes() }

// =====================================================================================================================
// error / io shims
// =====================================================================================================================
#[verifier::external_type_specification]
#[verifier::external_body]
pub struct ExIoError(std::io::Error);

struct Error { k: u8 }
impl Error {
    #[verifier::external_body] fn deserial(msg: &'static str) -> Error { Error { k: 2 } }
    #[verifier::external_body] fn invalid_family(expected: u8, actual: u8, name: &'static str) -> Error { Error { k: 3 } }
    #[verifier::external_body] fn invalid_preamble_longs(expected: &[u8], actual: u8) -> Error { Error { k: 4 } }
}
// `Error::deserial(format!(..))`
#[verifier::external_body] fn vx_err_deserial_fmt() -> Error { Error { k: 2 } }
trait VxIo<T> { fn vx_io(self, tag: &'static str) -> Result<T, Error>; }
impl<T> VxIo<T> for Result<T, std::io::Error> {
  // R2: `.map_err(insufficient_data(tag))`
  #[verifier::external_body]
  fn vx_io(self, tag: &'static str) -> (r: Result<T, Error>)
    ensures self matches Ok(v) ==> r == Ok::<T, Error>(v), self is Err ==> r is Err
  { unimplemented!() }
}
// `ensure_preamble_longs_in_range(lo..=hi, actual)` (codec/assert.rs: generic over RangeBounds, builds a message with format!)
#[verifier::external_body]
fn vx_ensure_pre_longs(lo: u8, hi: u8, actual: u8) -> (r: Result<(), Error>)
  ensures r is Ok <==> lo <= actual <= hi
{ unimplemented!() }

// allocation contract of C14: a parser may only allocate in proportion to the input it still has
spec fn alloc_ok(nbytes: int, input_len: int) -> bool { nbytes <= 16 * input_len + 4096 }
// `Vec::with_capacity(n)` in a parser
#[verifier::external_body]
fn vx_with_capacity_u64(n: usize, Ghost(input_len): Ghost<int>) -> (r: Vec<u64>)
  requires /*@C14.theta.alloc_entries*/ alloc_ok(8 * n, input_len)
  ensures r@.len() == 0
{ Vec::with_capacity(n) }

// =====================================================================================================================
// codec/encode.rs: SketchBytes, real bodies, view = the bytes written so far
// =====================================================================================================================
struct SketchBytes {
    bytes: Vec<u8>,
}

impl SketchBytes {
    spec fn view(&self) -> Seq<u8> { self.bytes@ }

    fn with_capacity(capacity: usize) -> (r: Self) ensures r@ == Seq::<u8>::empty() {
        Self {
            bytes: Vec::with_capacity(capacity),
        }
    }

    fn into_bytes(self) -> (r: Vec<u8>) ensures r@ == self@ {
        self.bytes
    }

    fn write(&mut self, buf: &[u8]) ensures final(self)@ == old(self)@ + buf@ {
        self.bytes.extend_from_slice(buf);
    }

    fn write_u8(&mut self, n: u8) ensures final(self)@ == old(self)@.push(n) {
        self.bytes.push(n);
    }

    fn write_u16_le(&mut self, n: u16) ensures final(self)@ == old(self)@ + le16_bytes(n) {
        self.write(&vx_u16_to_le_bytes(n));
    }

    fn write_u16_be(&mut self, n: u16) ensures final(self)@ == old(self)@ + be16_bytes(n) {
        self.write(&vx_u16_to_be_bytes(n));
    }

    fn write_u32_le(&mut self, n: u32) ensures final(self)@ == old(self)@ + le32_bytes(n) {
        self.write(&vx_u32_to_le_bytes(n));
    }

    fn write_u32_be(&mut self, n: u32) ensures final(self)@ == old(self)@ + be32_bytes(n) {
        self.write(&vx_u32_to_be_bytes(n));
    }

    fn write_u64_le(&mut self, n: u64) ensures final(self)@ == old(self)@ + le64_bytes(n) {
        self.write(&vx_u64_to_le_bytes(n));
    }
}

// =====================================================================================================================
// codec/decode.rs: SketchSlice; the std Cursor is abstracted by rem() = the bytes not yet consumed.
// read_exact (std::io::Read on Cursor<&[u8]>) and new are the assumed leaves; read_u8 / read_u16_le / read_u32_le / read_u64_le are real bodies.
// =====================================================================================================================
#[verifier::external_body]
struct SketchSlice<'a> {
    slice: Cursor<&'a [u8]>,
}

impl SketchSlice<'_> {
    uninterp spec fn rem(&self) -> Seq<u8>;

    #[verifier::external_body]
    fn new(slice: &[u8]) -> (r: SketchSlice<'_>) ensures r.rem() == slice@ {
        unimplemented!()
    }

    #[verifier::external_body]
    fn read_exact(&mut self, buf: &mut [u8]) -> (r: io::Result<()>)
      ensures
        old(self).rem().len() >= old(buf)@.len() ==> (r is Ok && final(buf)@ == old(self).rem().take(old(buf)@.len() as int) && final(self).rem() == old(self).rem().skip(old(buf)@.len() as int)),
        old(self).rem().len() < old(buf)@.len() ==> r is Err,
        final(buf)@.len() == old(buf)@.len(),
    {
        unimplemented!()
    }

    fn read_u8(&mut self) -> (r: io::Result<u8>)
      ensures
        old(self).rem().len() >= 1 ==> (r matches Ok(v) && v == old(self).rem()[0] && final(self).rem() == old(self).rem().skip(1)),
        old(self).rem().len() < 1 ==> r is Err,
    {
        let mut buf = [0u8; 1];
        self.read_exact(&mut buf)?;
        Ok(buf[0])
    }

    fn read_u16_le(&mut self) -> (r: io::Result<u16>)
      ensures
        old(self).rem().len() >= 2 ==> (r matches Ok(v) && v == le16_val(old(self).rem().take(2)) && final(self).rem() == old(self).rem().skip(2)),
        old(self).rem().len() < 2 ==> r is Err,
    {
        let mut buf = [0u8; 2];
        self.read_exact(&mut buf)?;
        Ok(vx_u16_from_le_bytes(buf))
    }

    fn read_u32_le(&mut self) -> (r: io::Result<u32>)
      ensures
        old(self).rem().len() >= 4 ==> (r matches Ok(v) && v == le32_val(old(self).rem().take(4)) && final(self).rem() == old(self).rem().skip(4)),
        old(self).rem().len() < 4 ==> r is Err,
    {
        let mut buf = [0u8; 4];
        self.read_exact(&mut buf)?;
        Ok(vx_u32_from_le_bytes(buf))
    }

    fn read_u64_le(&mut self) -> (r: io::Result<u64>)
      ensures
        old(self).rem().len() >= 8 ==> (r matches Ok(v) && v == le64_val(old(self).rem().take(8)) && final(self).rem() == old(self).rem().skip(8)),
        old(self).rem().len() < 8 ==> r is Err,
    {
        let mut buf = [0u8; 8];
        self.read_exact(&mut buf)?;
        Ok(vx_u64_from_le_bytes(buf))
    }
}

// =====================================================================================================================
// constants (taken from /repo every run)
// =====================================================================================================================
const MAX_THETA: u64 = i64::MAX as u64;
const UNCOMPRESSED_SERIAL_VERSION: u8 = 3;
const COMPRESSED_SERIAL_VERSION: u8 = 4;
const V2_PREAMBLE_EMPTY: u8 = 1;
const V2_PREAMBLE_PRECISE: u8 = 2;
const V2_PREAMBLE_ESTIMATE: u8 = 3;
exec const FLAGS_IS_READ_ONLY: u8 ensures FLAGS_IS_READ_ONLY == 2 { proof { assert((1u8 << 1) == 2) by (bit_vector); } 1 << 1 }
exec const FLAGS_IS_EMPTY: u8 ensures FLAGS_IS_EMPTY == 4 { proof { assert((1u8 << 2) == 4) by (bit_vector); } 1 << 2 }
exec const FLAGS_IS_COMPACT: u8 ensures FLAGS_IS_COMPACT == 8 { proof { assert((1u8 << 3) == 8) by (bit_vector); } 1 << 3 }
exec const FLAGS_IS_ORDERED: u8 ensures FLAGS_IS_ORDERED == 16 { proof { assert((1u8 << 4) == 16) by (bit_vector); } 1 << 4 }

struct Family {
    id: u8,
    name: &'static str,
    min_pre_longs: u8,
    max_pre_longs: u8,
}

impl Family {
    const THETA: Family = Family {
        id: 3,
        name: "THETA",
        min_pre_longs: 1,
        max_pre_longs: 3,
    };

    fn validate_id(&self, family_id: u8) -> (r: Result<(), Error>)
      ensures r is Ok <==> family_id == self.id
    {
        if family_id != self.id {
            Err(Error::invalid_family(self.id, family_id, self.name))
        } else {
            Ok(())
        }
    }
}

// hash/mod.rs: the 16-bit seed hash, by contract (C16 unit `hashes`)
uninterp spec fn seed_hash_of(seed: u64) -> u16;
#[verifier::external_body]
fn compute_seed_hash(seed: u64) -> (r: u16) ensures r == seed_hash_of(seed) { unimplemented!() }

// =====================================================================================================================
// FORMAT SPEC (DESIGN.md Appendix A, "Theta compact", family 3).  Written from the published layout, not from the Rust code.
//   serVer 3: 0 preLongs (1 empty or single item, 2 exact, 3 estimating) | 1 serVer | 2 famID | 3-4 unused | 5 flags: READ_ONLY 2, EMPTY 4, COMPACT 8,
//             ORDERED 16 | 6-7 seedHash | 8-11 curCount | 12-15 unused | 16-23 thetaLong when preLongs = 3 | entries u64 from 8*preLongs
//   serVer 2: 6-7 seedHash | preLongs 1 empty / 2 exact (curCount at 8, entries at 16) / 3 estimating (theta at 16, entries at 24); always ordered
//   serVer 1: no seed hash | curCount at 8 | theta at 16 | entries at 24; always ordered
// The abstract content of a compact theta sketch:
// =====================================================================================================================
ghost struct ThetaImg {
    entries: Seq<u64>,
    theta: u64,
    seed_hash: u16,
    ordered: bool,
    empty: bool,
}
spec const MAX_THETA_SPEC: u64 = 0x7fff_ffff_ffff_ffff;
spec fn valid_hash(h: u64, theta: u64) -> bool { h != 0 && h < theta }
spec fn all_valid(e: Seq<u64>, theta: u64) -> bool { forall|i: int| 0 <= i < e.len() ==> valid_hash(#[trigger] e[i], theta) }
#[verifier::opaque]
spec fn sorted_strict(e: Seq<u64>) -> bool { forall|i: int, j: int| 0 <= i < j < e.len() ==> e[i] < e[j] }

// the spec ENCODER for serial version 3 (what this crate writes)
spec fn theta_flags(empty: bool, ordered: bool) -> u8 { (2u8 | 8u8 | (if empty { 4u8 } else { 0u8 }) | (if ordered { 16u8 } else { 0u8 })) }
spec fn v3_pre_longs(x: ThetaImg) -> u8 { if x.theta < MAX_THETA_SPEC { 3 } else if x.empty || x.entries.len() == 1 { 1 } else { 2 } }
spec fn enc_theta_v3(x: ThetaImg) -> Seq<u8> {
    let pre = v3_pre_longs(x);
    seq![pre, 3u8, 3u8, 0u8, 0u8, theta_flags(x.empty, x.ordered)] + le16_bytes(x.seed_hash)
      + (if pre > 1 { le32_bytes(x.entries.len() as u32) + seq![0u8, 0u8, 0u8, 0u8] } else { Seq::<u8>::empty() })
      + (if pre > 2 { le64_bytes(x.theta) } else { Seq::<u8>::empty() })
      + enc_u64s(x.entries)
}

// the spec DECODERS work on p = image.skip(3) (where deserialize_with_seed hands the cursor to the per-version parsers); offsets below are image offsets - 3
spec fn flag_empty(f: u8) -> bool { f & 4 != 0 }
spec fn flag_ordered(f: u8) -> bool { f & 16 != 0 }
// n entries at offset off: all present and each a valid retained hash (non-zero, below theta)
spec fn dec_entries(p: Seq<u8>, off: int, n: nat, theta: u64, seed_hash: u16, ordered: bool, empty: bool) -> Option<ThetaImg> {
    if p.len() >= off + 8 * n && all_valid(dec_u64s(p.skip(off), n), theta) {
        Some(ThetaImg { entries: dec_u64s(p.skip(off), n), theta, seed_hash, ordered, empty })
    } else { None }
}
spec fn decode_spec_v3(p: Seq<u8>, pre_longs: u8, sh: u16) -> Option<ThetaImg> {
    if p.len() < 5 { None } else {
        let flags = p[2]; let seed_hash = le16_val(p.subrange(3, 5)); let ordered = flag_ordered(flags);
        if flag_empty(flags) { Some(ThetaImg { entries: Seq::empty(), theta: MAX_THETA_SPEC, seed_hash, ordered, empty: true }) }
        else if seed_hash != sh { None }
        else if pre_longs == 1 { dec_entries(p, 5, 1, MAX_THETA_SPEC, seed_hash, ordered, false) }     // single item
        else if p.len() < 13 { None }
        else {
            let n = le32_val(p.subrange(5, 9)) as nat;
            if pre_longs == 2 { dec_entries(p, 13, n, MAX_THETA_SPEC, seed_hash, ordered, false) }
            else if pre_longs == 3 && p.len() >= 21 { dec_entries(p, 21, n, le64_val(p.subrange(13, 21)), seed_hash, ordered, false) }
            else { None }
        }
    }
}
// versions 1 and 2 have no EMPTY flag: a sketch is empty iff it has no entries and theta is 1.0
spec fn decode_spec_v2(p: Seq<u8>, pre_longs: u8, sh: u16) -> Option<ThetaImg> {
    if p.len() < 5 { None } else {
        let seed_hash = le16_val(p.subrange(3, 5));
        if seed_hash != sh { None }
        else if pre_longs == 1 { Some(ThetaImg { entries: Seq::empty(), theta: MAX_THETA_SPEC, seed_hash, ordered: true, empty: true }) }
        else if p.len() < 13 { None }
        else {
            let n = le32_val(p.subrange(5, 9)) as nat;
            if pre_longs == 2 { dec_entries(p, 13, n, MAX_THETA_SPEC, seed_hash, true, n == 0) }
            else if pre_longs == 3 && p.len() >= 21 { let theta = le64_val(p.subrange(13, 21)); dec_entries(p, 21, n, theta, seed_hash, true, n == 0 && theta == MAX_THETA_SPEC) }
            else { None }
        }
    }
}
spec fn decode_spec_v1(p: Seq<u8>, sh: u16) -> Option<ThetaImg> {
    if p.len() < 21 { None } else {
        let n = le32_val(p.subrange(5, 9)) as nat; let theta = le64_val(p.subrange(13, 21));
        dec_entries(p, 21, n, theta, sh, true, n == 0 && theta == MAX_THETA_SPEC)
    }
}
// whole images, serial versions 1-3 (version 4 is the compressed form: bit_pack.rs is only under contract, see deserialize_v4)
spec fn decode_spec(img: Seq<u8>, sh: u16) -> Option<ThetaImg> {
    if img.len() < 3 || img[2] != 3 || !(1 <= img[0] <= 3) { None }
    else if img[1] == 1 { decode_spec_v1(img.skip(3), sh) }
    else if img[1] == 2 { decode_spec_v2(img.skip(3), img[0], sh) }
    else if img[1] == 3 { decode_spec_v3(img.skip(3), img[0], sh) }
    else { None }
}

// well-formed abstract states (what ThetaSketch::compact produces, and what every other operation relies on)
spec fn wf_img(x: ThetaImg) -> bool {
    &&& all_valid(x.entries, x.theta)
    &&& 0 < x.theta <= MAX_THETA_SPEC
    &&& (x.empty ==> x.entries.len() == 0 && x.theta == MAX_THETA_SPEC)
    &&& (x.ordered ==> sorted_strict(x.entries))
}

proof fn lemma_flags(e: bool, o: bool) ensures flag_empty(theta_flags(e, o)) == e, flag_ordered(theta_flags(e, o)) == o {
    let f = theta_flags(e, o);
    assert(f == 10 || f == 14 || f == 26 || f == 30) by (bit_vector) requires f == (2u8 | 8u8 | (if e { 4u8 } else { 0u8 }) | (if o { 16u8 } else { 0u8 }));
    assert(f == (2u8 | 8u8 | (if e { 4u8 } else { 0u8 }) | (if o { 16u8 } else { 0u8 })) ==> ((f & 4 != 0) == e) && ((f & 16 != 0) == o)) by (bit_vector);
}

// C11 at spec level: the v3 spec decoder inverts the v3 spec encoder on every well-formed state
proof fn lemma_theta_v3_roundtrip(x: ThetaImg, sh: u16)
  requires wf_img(x), x.entries.len() <= 0x0fff_ffff, x.empty || x.seed_hash == sh,
  ensures /*@C11.theta.v3*/ decode_spec(enc_theta_v3(x), sh) == Some(x),
    enc_theta_v3(x).len() == 8 * v3_pre_longs(x) + 8 * x.entries.len(),
{
    let img = enc_theta_v3(x); let p = img.skip(3); let pre = v3_pre_longs(x); let n = x.entries.len();
    lemma_le16_roundtrip(x.seed_hash); lemma_le32_roundtrip(n as u32); lemma_le64_roundtrip(x.theta);
    lemma_enc_u64s_len(x.entries); lemma_flags(x.empty, x.ordered);
    lemma_dec_enc_u64s(x.entries, Seq::empty());
    assert(enc_u64s(x.entries) + Seq::<u8>::empty() =~= enc_u64s(x.entries));
    assert(img[0] == pre && img[1] == 3 && img[2] == 3);
    assert(p[2] == theta_flags(x.empty, x.ordered));
    assert(p.subrange(3, 5) =~= le16_bytes(x.seed_hash));
    if x.empty {
        assert(x.entries =~= Seq::<u64>::empty());
    } else if pre == 1 {
        assert(p.skip(5) =~= enc_u64s(x.entries));
        assert(x.theta == MAX_THETA_SPEC);
    } else {
        assert(p.subrange(5, 9) =~= le32_bytes(n as u32));
        if pre == 2 {
            assert(p.skip(13) =~= enc_u64s(x.entries));
        } else {
            assert(p.subrange(13, 21) =~= le64_bytes(x.theta));
            assert(p.skip(21) =~= enc_u64s(x.entries));
        }
    }
}

// =====================================================================================================================
// theta/sketch.rs
// =====================================================================================================================
struct CompactThetaSketch {
    entries: Vec<u64>,
    theta: u64,
    seed_hash: u16,
    ordered: bool,
    empty: bool,
}

impl CompactThetaSketch {
    spec fn img(&self) -> ThetaImg { ThetaImg { entries: self.entries@, theta: self.theta, seed_hash: self.seed_hash, ordered: self.ordered, empty: self.empty } }
    spec fn wf(&self) -> bool { wf_img(self.img()) }

    fn theta64(&self) -> (r: u64) ensures r == self.theta {
        self.theta
    }

    fn is_empty(&self) -> (r: bool) ensures r == self.empty {
        self.empty
    }

    fn is_estimation_mode(&self) -> (r: bool) ensures r == (self.theta < MAX_THETA_SPEC) {
        self.theta < MAX_THETA
    }

    fn is_ordered(&self) -> (r: bool) ensures r == self.ordered {
        self.ordered
    }

    fn preamble_longs(&self, compressed: bool) -> (r: u8)
      ensures !compressed ==> r == v3_pre_longs(self.img()),
        compressed ==> r == (if self.theta < MAX_THETA_SPEC { 2u8 } else { 1u8 }),
    {
        if compressed {
            if self.is_estimation_mode() { 2 } else { 1 }
        } else {
            if self.is_estimation_mode() {
                3
            } else {
                if self.is_empty() || self.entries.len() == 1 {
                    1
                } else {
                    2
                }
            }
        }
    }

    fn serialize(&self) -> (r: Vec<u8>)
      requires self.entries@.len() <= 0x0fff_ffff
      ensures /*@C12.theta.v3*/ r@ == enc_theta_v3(self.img())
    {
        let mut bytes = SketchBytes::with_capacity(64 + self.entries.len() * 8);

        let pre_longs = self.preamble_longs(false);
        bytes.write_u8(pre_longs);
        bytes.write_u8(UNCOMPRESSED_SERIAL_VERSION);
        bytes.write_u8(Family::THETA.id);
        bytes.write_u16_be(0); // unused for compact

        let mut flags = 0u8;
        flags |= FLAGS_IS_READ_ONLY;
        flags |= FLAGS_IS_COMPACT;
        if self.is_empty() {
            flags |= FLAGS_IS_EMPTY;
        }
        if self.is_ordered() {
            flags |= FLAGS_IS_ORDERED;
        }
        bytes.write_u8(flags);

        bytes.write_u16_le(self.seed_hash);

        if pre_longs > 1 {
            bytes.write_u32_le(self.entries.len() as u32);
            bytes.write_u32_be(0); // not used by compact sketches; match Java/C++
        }
        if self.is_estimation_mode() {
            bytes.write_u64_le(self.theta64());
        }
        let ghost head = bytes@;
        proof {
            assert(be16_bytes(0) =~= seq![0u8, 0u8]) by { assert(((0u16 >> 8) & 0xff) as u8 == 0u8 && (0u16 & 0xff) as u8 == 0u8) by (bit_vector); }
            assert(be32_bytes(0) =~= seq![0u8, 0u8, 0u8, 0u8]) by { assert(((0u32 >> 24) & 0xff) as u8 == 0u8 && ((0u32 >> 16) & 0xff) as u8 == 0u8 && ((0u32 >> 8) & 0xff) as u8 == 0u8 && (0u32 & 0xff) as u8 == 0u8) by (bit_vector); }
            let e = self.empty; let o = self.ordered;
            assert(forall|x: u8| #[trigger] (x | 0u8) == x) by (bit_vector);
            assert(flags == theta_flags(e, o)) by (bit_vector)
              requires flags == (((0u8 | 2u8) | 8u8) | (if e { 4u8 } else { 0u8 })) | (if o { 16u8 } else { 0u8 }), theta_flags(e, o) == (2u8 | 8u8 | (if e { 4u8 } else { 0u8 }) | (if o { 16u8 } else { 0u8 }));
            assert(enc_u64s(self.entries@.take(0)) =~= Seq::<u8>::empty());
        }
        let mut vx_i = 0;
        while vx_i < self.entries.len()
          invariant 0 <= vx_i <= self.entries@.len(), bytes@ == head + enc_u64s(self.entries@.take(vx_i as int)),
          decreases self.entries@.len() - vx_i
        {
            let hash = &self.entries[vx_i];
            bytes.write_u64_le(*hash);
            proof {
                let a = self.entries@.take(vx_i + 1);
                assert(a.drop_last() =~= self.entries@.take(vx_i as int));
                assert(a.last() == self.entries@[vx_i as int]);
            }
            vx_i += 1;
        }
        proof { assert(self.entries@.take(self.entries@.len() as int) =~= self.entries@); }
        bytes.into_bytes()
    }

    fn read_entries(
        cursor: &mut SketchSlice<'_>,
        num_entries: usize,
        theta: u64,
    ) -> (r: Result<Vec<u64>, Error>)
      ensures
        /*@C13.theta.entries*/ r matches Ok(v) ==> old(cursor).rem().len() >= 8 * num_entries && v@ == dec_u64s(old(cursor).rem(), num_entries as nat)
            && final(cursor).rem() == old(cursor).rem().skip(8 * num_entries as int),
        /*@C14.theta.entries_valid*/ r matches Ok(v) ==> all_valid(v@, theta),
        /*@C13.theta.entries_complete*/ (old(cursor).rem().len() >= 8 * num_entries && all_valid(dec_u64s(old(cursor).rem(), num_entries as nat), theta)) ==> r is Ok,
    {
        let ghost r0 = cursor.rem();
        let mut entries = vx_with_capacity_u64(num_entries, Ghost(cursor.rem().len() as int));
        for vx_u in 0..num_entries
          invariant entries@.len() == vx_u, r0.len() >= 8 * vx_u, r0 == old(cursor).rem(), cursor.rem() == r0.skip(8 * vx_u as int),
            forall|i: int| 0 <= i < vx_u ==> entries@[i] == le64_val(r0.subrange(8 * i, 8 * i + 8)) && valid_hash(#[trigger] entries@[i], theta),
        {
            proof { if r0.len() >= 8 * num_entries { assert(cursor.rem().len() >= 8); } }
            let hash = cursor.read_u64_le().vx_io("entries")?;
            proof {
                assert(hash == le64_val(r0.subrange(8 * vx_u, 8 * vx_u + 8))) by { assert(r0.skip(8 * vx_u as int).take(8) =~= r0.subrange(8 * vx_u, 8 * vx_u + 8)); }
                assert(dec_u64s(r0, num_entries as nat)[vx_u as int] == hash);
                assert(r0.skip(8 * vx_u as int).skip(8) =~= r0.skip(8 * (vx_u + 1) as int));
            }
            if hash == 0 || hash >= theta {
                proof { assert(!valid_hash(dec_u64s(r0, num_entries as nat)[vx_u as int], theta)); }
                return Err(Error::deserial("corrupted: invalid retained hash value"));
            }
            entries.push(hash);
        }
        proof { assert(entries@ =~= dec_u64s(r0, num_entries as nat)); }
        Ok(entries)
    }
    fn deserialize_with_seed(bytes: &[u8], seed: u64) -> (r: Result<Self, Error>)
      ensures
        /*@C13.theta.dispatch*/ decode_spec(bytes@, seed_hash_of(seed)) matches Some(x) ==> (r matches Ok(s) && s.img() == x),
        /*@C13.theta.dispatch_sound*/ r matches Ok(s) ==> bytes@.len() >= 3 && (bytes@[1] == 4 || decode_spec(bytes@, seed_hash_of(seed)) == Some(s.img())),
        /*@C14.theta.total*/ r matches Ok(s) ==> all_valid(s.entries@, s.theta),
    {
        let mut cursor = SketchSlice::new(bytes);
        let pre_longs = cursor
            .read_u8()
            .vx_io("preamble_longs")?;
        let ser_ver = cursor
            .read_u8()
            .vx_io("serial_version")?;
        let family_id = cursor.read_u8().vx_io("family_id")?;

        Family::THETA.validate_id(family_id)?;

        // Validate pre_longs is within valid range for Theta sketch
        vx_ensure_pre_longs(
            Family::THETA.min_pre_longs, Family::THETA.max_pre_longs,
            pre_longs,
        )?;
        proof { assert(bytes@.skip(1).skip(1).skip(1) =~= bytes@.skip(3)); }

        match ser_ver {
            1 => Self::deserialize_v1(cursor, seed),
            2 => Self::deserialize_v2(pre_longs, cursor, seed),
            3 => Self::deserialize_v3(pre_longs, cursor, seed),
            4 => Self::deserialize_v4(pre_longs, cursor, seed),
            _ => Err(vx_err_deserial_fmt()),
        }
    }

    fn deserialize_v1(mut cursor: SketchSlice<'_>, expected_seed: u64) -> (r: Result<Self, Error>)
      ensures
        /*@C13.theta.v1*/ decode_spec_v1(cursor.rem(), seed_hash_of(expected_seed)) matches Some(x) ==> (r matches Ok(s) && s.img() == x),
        /*@C13.theta.v1_sound*/ r matches Ok(s) ==> decode_spec_v1(cursor.rem(), seed_hash_of(expected_seed)) == Some(s.img()),
        /*@C14.theta.v1_total*/ r matches Ok(s) ==> all_valid(s.entries@, s.theta) && (s.empty ==> s.entries@.len() == 0 && s.theta == MAX_THETA_SPEC),
        /*@C14.theta.v1_theta_range*/ r matches Ok(s) ==> 0 < s.theta <= MAX_THETA_SPEC,
        /*@C14.theta.v1_sorted*/ r matches Ok(s) ==> (s.ordered ==> sorted_strict(s.entries@)),
    {
        let ghost p = cursor.rem();
        let seed_hash = compute_seed_hash(expected_seed);
        cursor.read_u8().vx_io("<unused>")?;
        cursor
            .read_u32_le()
            .vx_io("<unused_u32_0>")?;
        let num_entries = cursor
            .read_u32_le()
            .vx_io("num_entries")? as usize;
        cursor
            .read_u32_le()
            .vx_io("<unused_u32_1>")?;
        let theta = cursor
            .read_u64_le()
            .vx_io("theta_long")?;
        proof {
            assert(p.skip(1).skip(4).take(4) =~= p.subrange(5, 9));
            assert(p.skip(1).skip(4).skip(4).skip(4).take(8) =~= p.subrange(13, 21));
            assert(p.skip(1).skip(4).skip(4).skip(4).skip(8) =~= p.skip(21));
        }

        let empty = num_entries == 0 && theta == MAX_THETA;
        if empty {
            proof { assert(dec_u64s(p.skip(21), 0) =~= Seq::<u64>::empty()); }
            return Ok(Self {
                entries: vec![],
                theta,
                seed_hash,
                ordered: true,
                empty: true,
            });
        }

        let entries = Self::read_entries(&mut cursor, num_entries, theta)?;

        Ok(Self {
            entries,
            theta,
            seed_hash,
            ordered: true,
            empty: false,
        })
    }

    fn deserialize_v2(
        pre_longs: u8,
        mut cursor: SketchSlice<'_>,
        expected_seed: u64,
    ) -> (r: Result<Self, Error>)
      ensures
        /*@C13.theta.v2*/ decode_spec_v2(cursor.rem(), pre_longs, seed_hash_of(expected_seed)) matches Some(x) ==> (r matches Ok(s) && s.img() == x),
        /*@C13.theta.v2_sound*/ r matches Ok(s) ==> decode_spec_v2(cursor.rem(), pre_longs, seed_hash_of(expected_seed)) == Some(s.img()),
        /*@C14.theta.v2_total*/ r matches Ok(s) ==> all_valid(s.entries@, s.theta) && (s.empty ==> s.entries@.len() == 0 && s.theta == MAX_THETA_SPEC),
        /*@C14.theta.v2_theta_range*/ r matches Ok(s) ==> 0 < s.theta <= MAX_THETA_SPEC,
        /*@C14.theta.v2_sorted*/ r matches Ok(s) ==> (s.ordered ==> sorted_strict(s.entries@)),
    {
        let ghost p = cursor.rem();
        cursor.read_u8().vx_io("<unused>")?;
        cursor
            .read_u16_le()
            .vx_io("<unused_u16>")?;
        let seed_hash = cursor
            .read_u16_le()
            .vx_io("seed_hash")?;
        proof {
            assert(p.skip(1).skip(2).take(2) =~= p.subrange(3, 5));
            assert(p.skip(1).skip(2).skip(2) =~= p.skip(5));
        }
        let expected_seed_hash = compute_seed_hash(expected_seed);
        if seed_hash != expected_seed_hash {
            return Err(vx_err_deserial_fmt());
        }

        match pre_longs {
            V2_PREAMBLE_EMPTY => Ok(Self {
                entries: vec![],
                theta: MAX_THETA,
                seed_hash,
                ordered: true,
                empty: true,
            }),
            V2_PREAMBLE_PRECISE => {
                let num_entries = cursor
                    .read_u32_le()
                    .vx_io("num_entries")?
                    as usize;
                cursor
                    .read_u32_le()
                    .vx_io("<unused_u32>")?;
                proof {
                    assert(p.skip(5).take(4) =~= p.subrange(5, 9));
                    assert(p.skip(5).skip(4).skip(4) =~= p.skip(13));
                }
                let entries = Self::read_entries(&mut cursor, num_entries, MAX_THETA)?;
                Ok(Self {
                    empty: entries.is_empty(),
                    entries,
                    theta: MAX_THETA,
                    seed_hash,
                    ordered: true,
                })
            }
            V2_PREAMBLE_ESTIMATE => {
                let num_entries = cursor
                    .read_u32_le()
                    .vx_io("num_entries")?
                    as usize;
                cursor
                    .read_u32_le()
                    .vx_io("<unused_u32>")?;
                let theta = cursor
                    .read_u64_le()
                    .vx_io("theta_long")?;
                proof {
                    assert(p.skip(5).take(4) =~= p.subrange(5, 9));
                    assert(p.skip(5).skip(4).skip(4).take(8) =~= p.subrange(13, 21));
                    assert(p.skip(5).skip(4).skip(4).skip(8) =~= p.skip(21));
                }
                let empty = (num_entries == 0) && (theta == MAX_THETA);
                let entries = Self::read_entries(&mut cursor, num_entries, theta)?;
                Ok(Self {
                    entries,
                    theta,
                    seed_hash,
                    ordered: true,
                    empty,
                })
            }
            _ => Err(Error::invalid_preamble_longs(&[1, 2, 3], pre_longs)),
        }
    }

    #[verifier::external_body]
    fn deserialize_v4(
        pre_longs: u8,
        mut cursor: SketchSlice<'_>,
        expected_seed: u64,
    ) -> (r: Result<Self, Error>)
      ensures r matches Ok(s) ==> all_valid(s.entries@, s.theta),
    { unimplemented!() }

    fn deserialize_v3(
        pre_longs: u8,
        mut cursor: SketchSlice<'_>,
        expected_seed: u64,
    ) -> (r: Result<Self, Error>)
      requires 1 <= pre_longs <= 3,       // validated by deserialize_with_seed before dispatch; the BYTES are arbitrary
      ensures
        /*@C13.theta.v3*/ decode_spec_v3(cursor.rem(), pre_longs, seed_hash_of(expected_seed)) matches Some(x) ==> (r matches Ok(s) && s.img() == x),
        /*@C13.theta.v3_sound*/ r matches Ok(s) ==> decode_spec_v3(cursor.rem(), pre_longs, seed_hash_of(expected_seed)) == Some(s.img()),
        /*@C14.theta.v3_total*/ r matches Ok(s) ==> all_valid(s.entries@, s.theta) && (s.empty ==> s.entries@.len() == 0 && s.theta == MAX_THETA_SPEC),
        /*@C14.theta.v3_theta_range*/ r matches Ok(s) ==> 0 < s.theta <= MAX_THETA_SPEC,
        /*@C14.theta.v3_sorted*/ r matches Ok(s) ==> (s.ordered ==> sorted_strict(s.entries@)),
    {
        let ghost p = cursor.rem();
        cursor
            .read_u16_le()
            .vx_io("<unused_u32>")?;
        let flags = cursor.read_u8().vx_io("flags")?;
        let seed_hash = cursor
            .read_u16_le()
            .vx_io("seed_hash")?;
        proof {
            assert(p.skip(2).skip(1).take(2) =~= p.subrange(3, 5));
            assert(p.skip(2).skip(1).skip(2) =~= p.skip(5));
        }

        let empty = (flags & FLAGS_IS_EMPTY) != 0;
        let mut theta = MAX_THETA;
        let num_entries;
        let mut entries = vec![];
        if !empty {
            let expected_seed_hash = compute_seed_hash(expected_seed);
            if seed_hash != expected_seed_hash {
                return Err(vx_err_deserial_fmt());
            }
            if pre_longs == 1 {
                num_entries = 1;
            } else {
                num_entries = cursor
                    .read_u32_le()
                    .vx_io("num_entries")?;
                cursor
                    .read_u32_le()
                    .vx_io("<unused_u32>")?;
                proof {
                    assert(p.skip(5).take(4) =~= p.subrange(5, 9));
                    assert(p.skip(5).skip(4).skip(4) =~= p.skip(13));
                }
                if pre_longs > 2 {
                    theta = cursor
                        .read_u64_le()
                        .vx_io("theta_long")?;
                    proof {
                        assert(p.skip(13).take(8) =~= p.subrange(13, 21));
                        assert(p.skip(13).skip(8) =~= p.skip(21));
                    }
                }
            }
            entries = Self::read_entries(&mut cursor, num_entries as usize, theta)?;
        }
        let ordered = (flags & FLAGS_IS_ORDERED) != 0;
        Ok(Self {
            entries,
            theta,
            seed_hash,
            ordered,
            empty,
        })
    }
}
}
fn main(){}
